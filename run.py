#!/usr/bin/env python3
"""Orchestrator for the /verif checks.

  python3 run.py setup                      build tools, warm the build cache
  python3 run.py <Cxx> --tier quick|thorough
  python3 run.py replay <replay-file>       re-run one recorded violation, verbosely
  python3 run.py selftest <Cxx> [name]      run the check against the kept property-breaking patches

Every check rebuilds its harness from /repo's current working tree (go build -overlay),
runs it, merges the results, writes /verif/evidence/<id>.json, prints KNOWN-FINDING /
VIOLATION lines and exits 0 / 1 (2 = the machinery itself failed; nothing is claimed then).
"""
import argparse, json, os, re, shutil, subprocess, sys, time, hashlib, glob

VERIF = os.path.dirname(os.path.abspath(__file__))
REPO = os.environ.get("VERIF_REPO", "/repo")
BUILD = os.path.join(VERIF, ".build")
CACHE = os.path.join(VERIF, ".cache")
MODPATH = "github.com/taurusgroup/multi-party-sig"
NCPU = os.cpu_count() or 4

ENV = dict(os.environ)
ENV.update({
    "GOPROXY": "off", "GOSUMDB": "off", "GOTOOLCHAIN": "local", "GOFLAGS": "-mod=mod",
    "GOCACHE": os.path.join(CACHE, "gocache"),
    "CGO_ENABLED": "0",
})

# ---------------------------------------------------------------------------------------------
# registry: property -> how to build and run it
#   cmd        harness main package under /verif/harness/cmd
#   instrument repository files instrumented by tools/rewrite for engine A
#   level      evidence level
#   shards     number of parallel processes (the binary shards its case list by index)
#   race       also build the binary with -race and run `-mode race` (auxiliary pass)
HANDLER_FILES = ["pkg/protocol/handler.go", "pkg/protocol/twoparty.go"]

def load_checks():
    """one JSON file per claimed property under /verif/checks: cmd (harness main package), instrument (files for engine A),
    level, shards ("ncpu" or a number), race, env, args, engine, design_ref, level_text, level_note, technique, vmem_kb"""
    out = {}
    for f in sorted(glob.glob(os.path.join(VERIF, "checks", "C*.json"))):
        cfg = json.load(open(f))
        if cfg.get("shards") == "ncpu":
            cfg["shards"] = NCPU
        out[os.path.basename(f)[:-5]] = cfg
    return out


CHECKS = load_checks()

NOT_APPLICABLE = {}
NOEVIDENCE = False

ENGINES = [
    dict(name="A:vsched", path="harness/vsched + tools/rewrite", serves_properties=["C17", "C18"],
         kind_free_text="stateless model checker for goroutine interleavings: go/ast rewriter turns every channel/select/mutex (Lock, Unlock, TryLock)/atomic/go operation of the current pool.go/handler.go/twoparty.go into a scheduling point of a cooperative scheduler; DFS over choice sequences with iterative preemption bounding, sharded over processes"),
    dict(name="B:netsim", path="harness/netsim", serves_properties=["C06", "C07"],
         kind_free_text="explicit-state model checker over delivery schedules of the repository's real handlers: breadth-first search with replay-based successors (live objects cannot be cloned), per-actor memoised product form, canonical state = deep reflective digest of every handler + pending multiset + budgets; duplicate / foreign / stale injections, man-in-the-middle rewriting, twin (two-instance) equivocators, eager actors; deviation-bounded form (FIFO plus every schedule with <= k departures) for expensive protocols; every violation found in product form is re-validated by a full live replay"),
    dict(name="C:faults", path="harness/faults + harness/cmd/fcheck", serves_properties=["C03", "C04", "C05", "C09", "C13", "C15"],
         kind_free_text="exhaustive single-fault enumeration: every message slot x every CBOR field path x operator catalogue (semantic or structural), state-level deviations through reflection on the deviator's round object, coordinated multi-message deviations, one fresh deterministic session per fault; process-death attribution through a progress file"),
    dict(name="D:lattice", path="harness/cmd/c01 c02 c08 c10 c11 c12 c13 c14 c15 c16 c19 c20, harness/hist, harness/oracle, harness/ref", serves_properties=["C01", "C02", "C08", "C10", "C11", "C12", "C13", "C14", "C15", "C16", "C19", "C20"],
         kind_free_text="bounded-exhaustive enumeration of inputs (boundary lattices, complete domains for tiny Paillier keys) and of operation histories (breadth-first, replay-based successors, fault points of a session, subset sessions) on the real code, judged at every step by independent math/big reference models"),
]


def sh(cmd, cwd=None, env=None, timeout=None, check=True, capture=True):
    p = subprocess.run(cmd, cwd=cwd, env=env or ENV, timeout=timeout, stdout=subprocess.PIPE if capture else None,
                       stderr=subprocess.STDOUT if capture else None, text=True)
    if check and p.returncode != 0:
        raise RuntimeError("command failed (%d): %s\n%s" % (p.returncode, " ".join(cmd), p.stdout or ""))
    return p


def build_tools():
    os.makedirs(BUILD, exist_ok=True)
    os.makedirs(ENV["GOCACHE"], exist_ok=True)
    out = os.path.join(BUILD, "rewrite")
    src = os.path.join(VERIF, "tools", "rewrite")
    if not os.path.exists(out) or os.path.getmtime(out) < max(os.path.getmtime(os.path.join(src, f)) for f in os.listdir(src)):
        sh(["go", "build", "-o", out, "."], cwd=src)
    return out


def make_overlay(workdir, instrument=(), extra=None, patches=None):
    """overlay: harness packages -> /repo/internal/zzverif/..., injected accessor files,
    instrumented copies of repository files generated from the current working tree."""
    repl = {}
    hroot = os.path.join(VERIF, "harness")
    for d, _, files in os.walk(hroot):
        for f in files:
            if f.endswith(".go"):
                rel = os.path.relpath(os.path.join(d, f), hroot)
                repl[os.path.join(REPO, "internal", "zzverif", rel)] = os.path.join(d, f)
    iroot = os.path.join(VERIF, "inject")
    for d, _, files in os.walk(iroot):
        for f in files:
            if f.endswith(".go"):
                rel = os.path.relpath(os.path.join(d, f), iroot)
                repl[os.path.join(REPO, rel)] = os.path.join(d, f)
    notes = []
    fallback = False
    if instrument:
        rw = build_tools()
        for rel in instrument:
            src = os.path.join(REPO, rel)
            dst = os.path.join(workdir, "instr", rel)
            os.makedirs(os.path.dirname(dst), exist_ok=True)
            p = sh([rw, src, dst], check=False)
            notes.append(p.stdout.strip())
            if p.returncode == 3:
                fallback = True
            elif p.returncode != 0:
                raise RuntimeError("rewrite failed for %s:\n%s" % (rel, p.stdout))
            repl[src] = dst
    for patch in patches or ():
        if patch == "prime-hook":
            src = os.path.join(REPO, "pkg/math/sample/prime.go")
            txt = open(src).read()
            m = re.search(r"func Paillier\(rand io\.Reader, pl \*pool\.Pool\) \(p, q \*saferith\.Nat\) \{\n", txt)
            if not m:
                notes.append("prime-hook: signature of sample.Paillier not found; running without pre-generated primes (slow)")
                continue
            txt = txt[:m.end()] + "\tif hp, hq, ok := verifPaillierHook(); ok {\n\t\treturn hp, hq\n\t}\n" + txt[m.end():]
            dst = os.path.join(workdir, "instr", "pkg/math/sample/prime.go")
            os.makedirs(os.path.dirname(dst), exist_ok=True)
            open(dst, "w").write(txt)
            repl[src] = dst
    if extra:
        repl.update(extra)
    ov = os.path.join(workdir, "overlay.json")
    with open(ov, "w") as f:
        json.dump({"Replace": repl}, f, indent=1)
    return ov, notes, fallback


def go_build(workdir, ov, cmd, race=False, tags="verif"):
    out = os.path.join(workdir, cmd + ("-race" if race else ""))
    env = dict(ENV)
    args = ["go", "build", "-tags", tags, "-overlay", ov, "-o", out]
    if race:
        env["CGO_ENABLED"] = "1"
        args.append("-race")
    args.append("./internal/zzverif/cmd/" + cmd)
    t0 = time.time()
    p = sh(args, cwd=REPO, env=env, check=False)
    if p.returncode != 0:
        raise RuntimeError("harness build failed:\n" + p.stdout)
    return out, time.time() - t0


def load_known():
    p = os.path.join(VERIF, "known_findings.json")
    if not os.path.exists(p):
        return []
    return json.load(open(p)).get("findings", [])


def match_known(prop, sig, known):
    for k in known:
        if k.get("property") != prop or k.get("status") != "open":
            continue
        pat = k.get("sig")
        if pat is not None and pat == sig:
            return k
        if sig in (k.get("sigs") or ()):
            return k
        rx = k.get("sig_regex")
        if rx is not None and re.fullmatch(rx, sig):
            return k
    return None


def run_check(prop, tier, seed, budget=None, only=None, keep=False, quiet=False, xargs=None):
    cfg = CHECKS[prop]
    t0 = time.time()
    workdir = os.path.join(BUILD, "%s-%d" % (prop, os.getpid()))
    shutil.rmtree(workdir, ignore_errors=True)
    os.makedirs(workdir)
    try:
        ov, notes, fallback = make_overlay(workdir, cfg.get("instrument", ()), patches=cfg.get("patches"))
        binary, bt = go_build(workdir, ov, cfg["cmd"])
        shards = cfg.get("shards", 1)
        if callable(shards):
            shards = shards(tier)
        procs = []
        procs_args = {}
        for i in range(shards):
            out = os.path.join(workdir, "result-%d.json" % i)
            # "full_in_quick": the whole (thorough) enumeration is cheap enough to be the per-change check as well
            btier = "thorough" if cfg.get("full_in_quick") else tier
            args = [binary, "-tier", btier, "-seed", str(seed), "-out", out, "-shard", "%d/%d" % (i, shards)]
            if shards > 1:
                args += ["-workers", str(max(1, NCPU // shards))]
            if budget:
                args += ["-budget", budget]
            if only:
                args += ["-only", only]
            args += cfg.get("args", []) + (xargs.split() if xargs else [])
            procs_args[i] = list(args)
            log = open(os.path.join(workdir, "log-%d.txt" % i), "w")
            pre = "ulimit -v %d; " % cfg.get("vmem_kb", 16 * 1024 * 1024)
            procs.append((i, out, log, subprocess.Popen(["bash", "-c", pre + 'exec "$@"', "x"] + args, cwd=workdir, env=dict(ENV, **cfg.get("env", {})), stdout=log, stderr=subprocess.STDOUT)))
        results, hard = [], []
        deaths = []
        for i, out, log, p in procs:
            rc = p.wait()
            log.close()
            txt = open(log.name).read()
            restarts = 0
            # a case may kill the whole process (fatal error: out of memory / stack overflow cannot be recovered):
            # attribute the death to the case recorded in the progress file and resume the shard after it
            while rc != 0 and cfg.get("crash_resume") and os.path.exists(out + ".progress") and restarts < 120:
                prog = json.load(open(out + ".progress"))
                if deaths and deaths[-1].get("_n") == prog["n"] and deaths[-1].get("_shard") == i:
                    break  # no progress since the last restart: not a property of one case, give up (reported as a harness error below)
                if os.path.exists(out):  # checkpoint of everything the dead process had finished before the fatal case
                    try:
                        part = json.load(open(out))
                        part["exhaustive"] = True
                        results.append(part)
                    except Exception:
                        pass
                out = os.path.join(workdir, "result-%d-r%d.json" % (i, restarts + 1))
                reason = next((l for l in txt.splitlines() if l.startswith("fatal error") or l.startswith("runtime: out of memory") or l.startswith("panic:")), "exit status %d" % rc)
                deaths.append(dict(sig=prog["sig"], detail="the check process died while running this case: %s\n%s" % (reason, txt[-1500:]), replay=prog["replay"], count=1, _n=prog["n"], _shard=i))
                restarts += 1
                args = [a for a in procs_args[i]]
                args[args.index("-out") + 1] = out
                args += ["-resume-after", str(prog["n"])]
                with open(log.name, "a") as lg:
                    rc = subprocess.call(["bash", "-c", pre + 'exec "$@"', "x"] + args, cwd=workdir, env=dict(ENV, **cfg.get("env", {})), stdout=lg, stderr=subprocess.STDOUT)
                txt = open(log.name).read()
            if not quiet:
                sys.stderr.write(txt[-20000:])
            if rc != 0 or not os.path.exists(out):
                hard.append("harness process %d exited with %d without a result: %s" % (i, rc, txt[-3000:]))
                continue
            r = json.load(open(out))
            results.append(r)
        if deaths:
            results.append(dict(violations=deaths, exhaustive=True))
        race_report = None
        if cfg.get("race") and not hard:
            rb, _ = go_build(workdir, ov_plain(workdir, cfg.get("patches")), cfg["cmd"], race=True)
            out = os.path.join(workdir, "race.json")
            p = sh(["bash", "-c", 'exec "$@"', "x", rb, "-mode", "race", "-tier", tier, "-seed", str(seed), "-out", out], cwd=workdir, check=False,
                   env=dict(ENV, GORACE="halt_on_error=0 exitcode=0"))
            race_report = dict(output_tail=p.stdout[-6000:], rc=p.returncode, races=parse_races(p.stdout))
            if os.path.exists(out):
                race_report["result"] = json.load(open(out))
            else:
                hard.append("race pass produced no result (rc=%d): %s" % (p.returncode, p.stdout[-2000:]))
        return finish(prop, cfg, tier, seed, results, hard, notes, fallback, race_report, time.time() - t0, bt)
    finally:
        if not keep:
            shutil.rmtree(workdir, ignore_errors=True)


def parse_races(text):
    """race detector reports -> [(sig, detail)]; sig names the two innermost repository functions"""
    out = []
    for blk in text.split("WARNING: DATA RACE")[1:]:
        blk = blk.split("==================")[0]
        fns = []
        for sec in re.split(r"\n(?=(?:Write|Read|Previous write|Previous read|Atomic|Previous atomic)[^\n]* at )", blk):
            if not re.match(r"\s*(Write|Read|Previous|Atomic)", sec):
                continue
            fn = None
            for l in sec.splitlines()[1:]:
                l = l.strip()
                if l.startswith(MODPATH) and "/zzverif/" not in l:
                    fn = re.sub(r"\(\)$", "", l[len(MODPATH) + 1:])
                    break
            fns.append(fn or "harness")
        if any(f != "harness" for f in fns):
            out.append(("race|" + "|".join(sorted(set(fns))), "WARNING: DATA RACE" + blk[:3000]))
    return out


def ov_plain(workdir, patches=None):
    """overlay without instrumentation (free-running race pass uses the real files)"""
    d = os.path.join(workdir, "plain")
    os.makedirs(d, exist_ok=True)
    ov, _, _ = make_overlay(d, (), patches=patches)
    return ov


def finish(prop, cfg, tier, seed, results, hard, notes, fallback, race_report, wall, build_s):
    known = load_known()
    vio = {}
    merged = dict(evaluations=0, states=0, transitions=0, nontrivial=0, samples=[], scenarios=[], assumptions=[], notes=list(notes),
                  exhaustive=True, rule="", extra={})
    for r in results:
        merged["evaluations"] += r.get("evaluations", 0)
        merged["states"] += r.get("states", 0)
        merged["transitions"] += r.get("transitions", 0)
        merged["nontrivial"] += r.get("distinct_nontrivial", 0)
        merged["samples"] += r.get("samples") or []
        for sc in r.get("scenarios") or []:
            prev = next((x for x in merged["scenarios"] if x["name"] == sc["name"]), None)
            if prev is None:
                merged["scenarios"].append(sc)
            else:
                for k in ("executions", "states", "transitions"):
                    prev[k] += sc.get(k, 0)
                prev["max_depth"] = max(prev.get("max_depth", 0), sc.get("max_depth", 0))
                prev["wall_s"] = max(prev.get("wall_s", 0), sc.get("wall_s", 0))
                prev["complete"] = prev.get("complete", True) and sc.get("complete", True)
                oc = prev.setdefault("outcomes", {})
                for o, c in (sc.get("outcomes") or {}).items():
                    oc[o] = oc.get(o, 0) + c
        merged["exhaustive"] = merged["exhaustive"] and r.get("exhaustive", False)
        merged["rule"] = r.get("rule", merged["rule"])
        for a in r.get("assumptions") or []:
            if a not in merged["assumptions"]:
                merged["assumptions"].append(a)
        for nt in r.get("notes") or []:
            if nt not in merged["notes"]:
                merged["notes"].append(nt)
        for k, v in (r.get("extra") or {}).items():
            if isinstance(v, (int, float)) and isinstance(merged["extra"].get(k), (int, float)):
                merged["extra"][k] += v
            elif isinstance(v, dict) and isinstance(merged["extra"].get(k), dict) and all(isinstance(x, (int, float)) for x in v.values()):
                for kk, vv in v.items():
                    merged["extra"][k][kk] = merged["extra"][k].get(kk, 0) + vv
            else:
                merged["extra"][k] = v
        hard += r.get("hard_errors") or []
        for v in r.get("violations") or []:
            if v["sig"] in vio:
                vio[v["sig"]]["count"] += v.get("count", 1)
            else:
                vio[v["sig"]] = v
    if race_report and race_report.get("result"):
        rr = race_report["result"]
        merged["extra"]["race_pass"] = dict(runs=rr.get("evaluations", 0), note="auxiliary free-running -race pass (dynamic happens-before analysis, not enumeration)")
        hard += rr.get("hard_errors", [])
        for v in rr.get("violations", []):
            vio.setdefault(v["sig"], v)
    if race_report:
        for sig, detail in race_report.get("races", []):
            vio.setdefault(sig, dict(sig=sig, detail=detail, replay=dict(mode="race"), count=1))
    if fallback:
        merged["exhaustive"] = False
        merged["notes"].append("rewriter met a construct it cannot instrument; interleavings involving it are not controlled")
    rdir = os.path.join(VERIF, "replays", prop)
    lines, new = [], 0
    known_hit = {}
    for sig in sorted(vio):
        v = vio[sig]
        k = match_known(prop, sig, known)
        if k is not None:
            known_hit.setdefault(k["id"], (k, []))[1].append(sig)
            continue
        os.makedirs(rdir, exist_ok=True)
        path = os.path.join(rdir, hashlib.sha1(sig.encode()).hexdigest()[:12] + ".json")
        with open(path, "w") as f:
            json.dump(dict(property=prop, sig=sig, detail=v.get("detail"), replay=v.get("replay"), tier=tier, seed=seed), f, indent=1)
        lines.append("VIOLATION property=%s replay=%s" % (prop, path))
        sys.stderr.write("--- violation %s\n%s\n" % (sig, (v.get("detail") or "")[:3000]))
        new += 1
    for kid, (k, sigs) in sorted(known_hit.items()):
        lines.append("KNOWN-FINDING: property=%s %s [%s]" % (prop, k["what"], kid))
    level = cfg["level"]
    cov = dict(evaluations=merged["evaluations"], distinct_nontrivial=merged["nontrivial"], rule=merged["rule"],
               samples=merged["samples"][:12], exhaustive=bool(merged["exhaustive"] and not hard))
    if level == "model_checking":
        cov.update(states=merged["states"], transitions=merged["transitions"], traces_validated_against_impl=merged["evaluations"],
                   explanation="no separate model: every explored schedule/state is an execution of the repository's own code, so every trace is validated against the implementation by construction")
    if merged["scenarios"]:
        cov["scenarios"] = merged["scenarios"]
    cov.update(merged["extra"])
    cov["known_findings_reproduced"] = sorted(known_hit)
    cov["violation_signatures"] = sorted(vio)
    if merged["notes"]:
        cov["notes"] = merged["notes"]
    ev = dict(property_id=prop, tier=tier, seed=int(seed), level=level, coverage=cov, assumptions=merged["assumptions"],
              wall_s=round(wall, 2), violations=new, build_s=round(build_s, 1), technique=cfg.get("technique", ""),
              repo_head=git_head(), repo_dirty=git_dirty())
    if hard:
        ev["hard_errors"] = hard[:20]
    evdir = os.path.join(BUILD, "selftest-evidence") if NOEVIDENCE else os.path.join(VERIF, "evidence")
    os.makedirs(evdir, exist_ok=True)
    with open(os.path.join(evdir, prop + ".json"), "w") as f:
        json.dump(ev, f, indent=1, sort_keys=True)
    for l in lines:
        print(l)
    print("%s tier=%s evaluations=%d violations=%d known=%d exhaustive=%s wall=%.1fs" % (prop, tier, merged["evaluations"], new, len(known_hit), cov["exhaustive"], wall))
    if hard:
        for h in hard[:10]:
            print("HARNESS-ERROR: " + h[:2000])
        # violations that were established stand on their own (each has its replay file); without any, nothing is claimed
        return 1 if new else 2
    return 1 if new else 0


def git_head():
    try:
        return sh(["git", "-C", REPO, "rev-parse", "--short", "HEAD"]).stdout.strip()
    except Exception:
        return "?"


def git_dirty():
    try:
        return bool(sh(["git", "-C", REPO, "status", "--porcelain"]).stdout.strip())
    except Exception:
        return False


def cmd_setup():
    build_tools()
    # warm the cache: build every harness once (normal and -race where used)
    t0 = time.time()
    workdir = os.path.join(BUILD, "setup")
    shutil.rmtree(workdir, ignore_errors=True)
    os.makedirs(workdir)
    seen = set()
    for prop, cfg in CHECKS.items():
        key = (cfg["cmd"], tuple(cfg.get("instrument", ())))
        if key in seen:
            continue
        seen.add(key)
        try:
            ov, _, _ = make_overlay(workdir, cfg.get("instrument", ()), patches=cfg.get("patches"))
            go_build(workdir, ov, cfg["cmd"])
            if cfg.get("race"):
                go_build(workdir, ov_plain(workdir, cfg.get("patches")), cfg["cmd"], race=True)
        except Exception as e:
            if cfg.get("ready"):
                raise
            print("setup: skipping unfinished check %s: %s" % (prop, str(e)[:200]))
    shutil.rmtree(workdir, ignore_errors=True)
    print("setup ok (%.0fs)" % (time.time() - t0))
    return 0


def cmd_replay(path):
    d = json.load(open(path))
    prop = d["property"]
    cfg = CHECKS[prop]
    workdir = os.path.join(BUILD, "replay-%d" % os.getpid())
    shutil.rmtree(workdir, ignore_errors=True)
    os.makedirs(workdir)
    try:
        ov, _, _ = make_overlay(workdir, cfg.get("instrument", ()), patches=cfg.get("patches"))
        binary, _ = go_build(workdir, ov, cfg["cmd"])
        p = subprocess.run([binary, "-replay", os.path.abspath(path), "-tier", d.get("tier", "quick"), "-seed", str(d.get("seed", 1))] + cfg.get("args", []), env=ENV)
        return p.returncode
    finally:
        shutil.rmtree(workdir, ignore_errors=True)


NOT_YET = "check not built yet in this session; planned design in DESIGN.md"


def cmd_manifest():
    props = [json.loads(l) for l in open(os.path.join(VERIF, "properties.jsonl"))]
    checks, na = [], []
    for p in props:
        pid = p["id"]
        cfg = CHECKS.get(pid)
        if cfg is None or not cfg.get("ready"):  # "ready": true is set once a check has been triaged on the unchanged tree
            na.append(dict(property_id=pid, reason=NOT_APPLICABLE.get(pid, NOT_YET)))
            continue
        checks.append(dict(
            property_id=pid,
            quick_cmd="python3 run.py %s --tier quick" % pid,
            thorough_cmd="python3 run.py %s --tier thorough" % pid,
            evidence_file="evidence/%s.json" % pid,
            replay_cmd_template="python3 run.py replay {path}",
            engine=cfg.get("engine", ""),
            level_claimed=dict(category=cfg["level"], text=cfg.get("level_text", ""), design_ref=cfg.get("design_ref", "DESIGN.md §3 " + pid)),
            level_note=cfg.get("level_note", ""),
            technique=cfg.get("technique", ""),
        ))
    hooks_commits = []
    try:
        out = sh(["git", "-C", REPO, "log", "--format=%h %s"]).stdout.splitlines()
        hooks_commits = [l.split()[0] for l in out if l.split(" ", 1)[1].startswith("verif-hook:")]
    except Exception:
        pass
    man = dict(
        version=1,
        setup_cmd="python3 run.py setup",
        hooks=dict(guard="verif",
                   enable="go build -tags verif -overlay <generated> (harness packages, read-only accessors and, for engine A, instrumented copies of pool.go/handler.go/twoparty.go generated from the working tree are supplied through the overlay; /repo itself is not modified)",
                   baseline_off_cmd="cd /repo && GOFLAGS=-mod=mod GOPROXY=off GOSUMDB=off GOTOOLCHAIN=local go test -vet=off -count=1 -timeout 25m ./...",
                   source_commits=hooks_commits, add_only=True),
        engines=ENGINES,
        checks=checks,
        not_applicable=na,
        notes="All checks are bounded exhaustive explorations of the repository's real code (no separate model). Exit 2 / HARNESS-ERROR means the machinery itself failed and nothing is claimed. Known findings: known_findings.json. Seeded breakage and which check catches it: seeded/ and DESIGN.md §7.",
    )
    with open(os.path.join(VERIF, "MANIFEST.json"), "w") as f:
        json.dump(man, f, indent=1)
    print("MANIFEST.json written: %d checks, %d not claimed" % (len(checks), len(na)))
    return 0


def main():
    ap = argparse.ArgumentParser()
    ap.add_argument("what")
    ap.add_argument("arg", nargs="*")
    ap.add_argument("--tier", default=os.environ.get("VERIF_TIER", "quick"))
    ap.add_argument("--budget")
    ap.add_argument("--only")
    ap.add_argument("--keep", action="store_true")
    ap.add_argument("--noevidence", action="store_true", help="do not overwrite evidence/<id>.json (runs against altered trees)")
    ap.add_argument("--xargs", default="", help="extra arguments passed to the harness binary (debugging)")
    a = ap.parse_args()
    seed = int(os.environ.get("VERIF_SEED", "1") or 1)
    global NOEVIDENCE
    NOEVIDENCE = a.noevidence
    if a.what == "manifest":
        sys.exit(cmd_manifest())
    if a.what == "setup":
        sys.exit(cmd_setup())
    if a.what == "replay":
        sys.exit(cmd_replay(a.arg[0]))
    if a.what == "selftest":
        import selftest
        sys.exit(selftest.main(a.arg, a.tier))
    if a.what not in CHECKS:
        print("unknown check", a.what)
        sys.exit(2)
    try:
        rc = run_check(a.what, a.tier, seed, budget=a.budget, only=a.only, keep=a.keep, xargs=a.xargs)
    except Exception as e:
        print("HARNESS-ERROR: %s" % e)
        sys.exit(2)
    sys.exit(rc)


if __name__ == "__main__":
    main()
