//go:build verif

package zkprm

import (
	"math/big"

	"github.com/taurusgroup/multi-party-sig/internal/params"
	"github.com/taurusgroup/multi-party-sig/pkg/hash"
)

// VerifChallenge forwards to the package's own Fiat–Shamir challenge (read-only accessor for
// the C10 adaptive forgery tests).
func VerifChallenge(h *hash.Hash, public Public, A [params.StatParam]*big.Int) ([]bool, error) {
	return challenge(h, public, A)
}
