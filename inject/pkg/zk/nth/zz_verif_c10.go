//go:build verif

package zknth

import (
	"github.com/cronokirby/saferith"
	"github.com/taurusgroup/multi-party-sig/pkg/hash"
)

// VerifChallenge forwards to the package's own Fiat–Shamir challenge (read-only accessor for
// the C10 adaptive forgery tests).
func VerifChallenge(h *hash.Hash, public Public, commitment Commitment) (*saferith.Int, error) {
	return challenge(h, public, commitment)
}
