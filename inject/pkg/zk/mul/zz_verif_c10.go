//go:build verif

package zkmul

import (
	"github.com/cronokirby/saferith"
	"github.com/taurusgroup/multi-party-sig/pkg/hash"
	"github.com/taurusgroup/multi-party-sig/pkg/math/curve"
)

// VerifChallenge forwards to the package's own Fiat–Shamir challenge (read-only accessor for
// the C10 adaptive forgery tests).
func VerifChallenge(h *hash.Hash, group curve.Curve, public Public, commitment *Commitment) (*saferith.Int, error) {
	return challenge(h, group, public, commitment)
}
