//go:build verif

package zkmulstar

import (
	"github.com/cronokirby/saferith"
	"github.com/taurusgroup/multi-party-sig/pkg/hash"
	"github.com/taurusgroup/multi-party-sig/pkg/math/curve"
)

// VerifChallenge forwards to the package's own Fiat–Shamir challenge (read-only accessor for
// the C10 adaptive-statement forgery test).
func VerifChallenge(h *hash.Hash, group curve.Curve, public Public, commitment *Commitment) (*saferith.Int, error) {
	return challenge(group, h, public, commitment)
}
