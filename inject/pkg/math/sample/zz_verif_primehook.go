//go:build verif

package sample

import "github.com/cronokirby/saferith"

// VerifPaillierSource, when set by a harness, supplies pre-generated safe Blum primes so
// that CMP key generation and refresh are fast and deterministic.  The call is inserted at
// the top of Paillier() by the overlay generated from the working tree (run.py, "prime-hook").
var VerifPaillierSource func() (p, q *saferith.Nat)

func verifPaillierHook() (p, q *saferith.Nat, ok bool) {
	if VerifPaillierSource == nil {
		return nil, nil, false
	}
	p, q = VerifPaillierSource()
	return p, q, p != nil && q != nil
}
