//go:build verif

package polynomial

import "github.com/taurusgroup/multi-party-sig/pkg/math/curve"

// VerifExponent builds an Exponent from explicit coefficients (accessor for the /verif
// check C19, which needs polynomials with known coefficients).  It changes no behaviour of
// the package.
func VerifExponent(group curve.Curve, isConstant bool, coefficients []curve.Point) *Exponent {
	return &Exponent{group: group, IsConstant: isConstant, coefficients: coefficients}
}
