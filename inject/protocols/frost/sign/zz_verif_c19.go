//go:build verif

package sign

import "github.com/taurusgroup/multi-party-sig/pkg/hash"

// VerifMessageHash converts b to the unexported messageHash type (forwarding accessor for
// the /verif check C19; nil stays nil).  It changes no behaviour of the package.
func VerifMessageHash(b []byte) hash.WriterToWithDomain { return messageHash(b) }
