#!/usr/bin/env python3
"""Print the markdown table 'which check catches which seeded change' from seeded/*/meta.json and mutants/."""
import glob, json, os
V = os.path.dirname(os.path.dirname(os.path.abspath(__file__)))
rows = []
for d in sorted(glob.glob(os.path.join(V, "seeded", "*"))):
    try:
        m = json.load(open(os.path.join(d, "meta.json")))
    except Exception:
        continue
    title = ""
    try:
        title = open(os.path.join(d, "notes.md")).readline().lstrip("# ").strip()
    except Exception:
        pass
    for pre in ("Seed ", "seed "):
        pass
    if m.get("obsolete"):
        st = "not a violation on the current tree (see meta.json: " + (m.get("obsolete_reason") or "")[:110].rstrip() + "…)"
    elif m.get("caught_by"):
        st = "caught by " + ", ".join(m["caught_by"])
        if m.get("strengthening"):
            st += " — after strengthening: " + m["strengthening"]
    else:
        st = "**missed**"
    rows.append("| %s | %s | %s |" % (os.path.basename(d), title.replace("|", "/")[:150], st.replace("|", "/")))
print("| seed | change | outcome |\n|---|---|---|")
print("\n".join(rows))
