#!/usr/bin/env python3
"""Record in seeded/<id>/meta.json that check <Cxx> detects the seed after a re-run
(python3 run.py selftest Cxx seeded/<id> must have reported 'detected' — this tool re-runs it).
usage: seedmeta.py <seed-id> <check> [strengthening text]"""
import json, subprocess, sys, os, re
root = os.path.dirname(os.path.dirname(os.path.abspath(__file__)))
sid, chk = sys.argv[1], sys.argv[2]
text = sys.argv[3] if len(sys.argv) > 3 else None
p = os.path.join(root, "seeded", sid, "meta.json")
m0 = open(p).read()
m = json.loads(m0)
if chk not in (m.get("caught_by") or [m["property"]]):  # selftest only runs seeds that name the check
    m["caught_by"] = (m.get("caught_by") or []) + [chk]
    json.dump(m, open(p, "w"), indent=1)
out = subprocess.run(["python3", "run.py", "selftest", chk, "seeded/" + sid], cwd=root, capture_output=True, text=True).stdout
print((out.strip().splitlines() or ["(no output)"])[-1])
det = re.search(r"\bdetected \(exit 1", out) is not None
if not det:
    open(p, "w").write(m0)
    sys.exit("not detected: meta unchanged")
m = json.loads(m0)
own = m["property"]
c = m.setdefault("checks", {}).setdefault(chk, {})
first = "missed" if (chk == own and c.get("detected") is False) or (text and chk == own) else c.get("first_run")
c.update({"exit": 1, "detected": True})
if first:
    c["first_run"] = first
if chk not in m.setdefault("caught_by", []):
    m["caught_by"].append(chk)
if text:
    m["strengthening"] = text
json.dump(m, open(p, "w"), indent=1)
open(p, "a").write("\n")
