#!/usr/bin/env python3
"""Control for the adaptive commitment-field forgeries of check C10 (harness/cmd/c10/forge3.go).

For every (proof system, commitment field) the forgeries cover, a scratch git worktree of /repo is
created under /tmp, pkg/zk/<sys>/<sys>.go is edited there so that this ONE commitment field is no
longer written to the Fiat-Shamir hash in challenge(), the edit is compiled, and

    VERIF_REPO=<worktree> python3 /verif/run.py C10 --tier quick --only "<sys>|forgery" --noevidence

must exit 1 with a VIOLATION whose signature is  zk|<sys>|commitment-forgery|<field>|accepted.
The fields no false statement can be forged through (Pedersen commitments to the witness, mod.W; see
NOT_COVERED) are tested the same way against forge4.go (commitment re-chosen after the challenge on a
true statement), expected signature  zk|<sys>|commitment-unbound|<field>|accepted.
(On the unchanged library every forged pair is rejected; here it must be accepted: this is what shows
that a rejection on the unchanged tree is due to the hash and not to a wrongly built forgery.)
Each edit is saved as /verif/mutants/C10-challenge/<sys>-challenge-drops-<field>.diff.  The worktree is always
removed.  Exit 0 iff every covered field was detected.

    python3 tools/c10_commitment_mutants.py [-j N] [--only sys[.field]] [--keep-replays]
"""
import argparse, concurrent.futures, json, os, re, shutil, subprocess, sys

VERIF = os.path.dirname(os.path.dirname(os.path.abspath(__file__)))
REPO = "/repo"
FORGE = os.path.join(VERIF, "harness", "cmd", "c10", "forge3.go")
OUTDIR = os.path.join(VERIF, "mutants", "C10-challenge")
GOENV = dict(os.environ, GOFLAGS="-mod=mod", GOPROXY="off", GOSUMDB="off", GOTOOLCHAIN="local",
             GOCACHE=os.path.join(VERIF, ".cache", "gocache"), CGO_ENABLED="0")

EXPECTED_COVERED = 39

# commitment fields (and first-message fields) without an adaptive forgery, and why
NOT_COVERED = [
    ("enc", "S"), ("encelg", "S"), ("logstar", "S"), ("affg", "S"), ("affg", "T"), ("affp", "S"), ("affp", "T"),
    ("mulstar", "S"), ("dec", "S"), ("fac", "P"), ("fac", "Q"), ("mod", "W"),
]
REASON = {
    "S": "Pedersen commitment to the witness: it is the base raised to e in  s^z·t^z' = C·S^e ; solving for it needs an e-th root mod N^ "
         "(infeasible without the factorisation of N^; with it Pedersen is not binding and 'forgeries' verify on correct code too)",
    "mod.W": "no Commitment struct; W multiplies only the instances with b_i = 1 of  x_i^4 = (-1)^a_i·W^b_i·y_i , one W must fit all 80 "
             "instances and the challenge y_i is in the place of S: no equation L(z) = W∘S^e to solve",
}


def reason(sysn, field):
    if sysn == "mod":
        return REASON["mod.W"]
    r = REASON["S"]
    if (sysn, field) == ("fac", "Q"):
        r += "; Q is also the base of the third equation"
    return r


def covered():
    """(sys, field, equation) of every commitment forgery, read from forge3.go (single source)."""
    src = open(FORGE).read()
    out = []
    for m in re.finditer(r'\b(cf|[a-z]+Forge)\("(\w+)", "([^"]+)"(?:, "([^"]+)")?', src):
        fn, a, b, c = m.groups()
        if fn == "cf":
            out.append((a, b, c))
        else:
            out.append((fn[:-5], a, b))
    if len(out) != EXPECTED_COVERED or len(set((s, f) for s, f, _ in out)) != len(out):
        sys.exit("c10_commitment_mutants: expected %d distinct forgeries in %s, parsed %d" % (EXPECTED_COVERED, FORGE, len(out)))
    return out


def drop_field(src, sysn, field):
    """the source of <sys>.go with `field` removed from what challenge() hashes"""
    m = re.search(r"\nfunc challenge\(.*?\n}\n", src, re.S)
    if not m:
        raise RuntimeError("no challenge() in %s" % sysn)
    body = m.group(0)
    if sysn == "mod":
        new, n = re.subn(r"hash\.WriteAny\(n, w\)", "hash.WriteAny(n)", body)
    elif sysn == "prm":
        new, n = re.subn(r"\tfor _, a := range A \{\n\t\t_ = hash\.WriteAny\(a\)\n\t\}\n", "", body)
    else:
        tok = r"commitment\.%s\b" % re.escape(field)
        new, n = re.subn(tok + r"\s*,\s*", "", body)          # followed by another argument
        if n == 0:
            new, n = re.subn(r",\s*" + tok, "", body)         # last argument
    if n != 1:
        raise RuntimeError("%s: %d places where challenge() writes %s" % (sysn, n, field))
    return src[:m.start()] + new + src[m.end():]


def run_one(slot, sysn, field, keep_replays, cls="commitment-forgery"):
    wt = "/tmp/c10cm-%d-%d" % (os.getpid(), slot)
    name = "%s-challenge-drops-%s" % (sysn, field)
    want = "zk|%s|%s|%s|accepted" % (sysn, cls, field)
    res = dict(sys=sysn, field=field, detected=False, info="")
    subprocess.call(["git", "-C", REPO, "worktree", "remove", "--force", wt], stdout=subprocess.DEVNULL, stderr=subprocess.DEVNULL)
    shutil.rmtree(wt, ignore_errors=True)
    try:
        subprocess.check_call(["git", "-C", REPO, "worktree", "add", "-q", "--detach", wt, "HEAD"])
        rel = "pkg/zk/%s/%s.go" % (sysn, sysn)
        path = os.path.join(wt, rel)
        mutated = drop_field(open(path).read(), sysn, field)
        with open(path, "w") as fh:
            fh.write(mutated)
        b = subprocess.run(["go", "build", "./pkg/zk/..."], cwd=wt, env=GOENV, capture_output=True, text=True)
        if b.returncode != 0:
            res["info"] = "mutant does not compile: " + (b.stdout + b.stderr)[-300:]
            return res
        diff = subprocess.run(["git", "-C", wt, "diff", "--", rel], capture_output=True, text=True).stdout
        if not diff.strip():
            res["info"] = "empty diff"
            return res
        os.makedirs(OUTDIR, exist_ok=True)
        open(os.path.join(OUTDIR, name + ".diff"), "w").write(diff)
        r = subprocess.run([sys.executable, os.path.join(VERIF, "run.py"), "C10", "--tier", "quick", "--only", "%s|forgery" % sysn, "--noevidence"],
                           cwd=VERIF, env=dict(os.environ, VERIF_REPO=wt, VERIF_SELFTEST="1"), capture_output=True, text=True)
        sigs = []
        for line in r.stdout.splitlines():
            m = re.match(r"VIOLATION property=C10 replay=(\S+)", line)
            if not m:
                continue
            try:
                sigs.append(json.load(open(m.group(1)))["sig"])
            except Exception as ex:
                sigs.append("?(%s)" % ex)
            if not keep_replays and VERIF_REPLAYS_BEFORE is not None and os.path.basename(m.group(1)) not in VERIF_REPLAYS_BEFORE:
                try:
                    os.remove(m.group(1))
                except OSError:
                    pass
        res["detected"] = r.returncode == 1 and want in sigs
        res["info"] = "exit %d; %s" % (r.returncode, ", ".join(sigs) if sigs else "no VIOLATION line")
        if not res["detected"]:
            res["info"] += "\n" + (r.stdout + r.stderr)[-1500:]
        return res
    except Exception as ex:
        res["info"] = "error: %s" % ex
        return res
    finally:
        subprocess.call(["git", "-C", REPO, "worktree", "remove", "--force", wt], stdout=subprocess.DEVNULL, stderr=subprocess.DEVNULL)
        shutil.rmtree(wt, ignore_errors=True)


VERIF_REPLAYS_BEFORE = None


def main():
    global VERIF_REPLAYS_BEFORE
    ap = argparse.ArgumentParser()
    ap.add_argument("-j", type=int, default=4, help="mutants run in parallel (each run shards over all cores itself)")
    ap.add_argument("--only", default="", help="sys or sys.field")
    ap.add_argument("--keep-replays", action="store_true", help="keep the replay files run.py writes for the mutants' violations")
    a = ap.parse_args()
    rdir = os.path.join(VERIF, "replays", "C10")
    VERIF_REPLAYS_BEFORE = set(os.listdir(rdir)) if os.path.isdir(rdir) else set()
    cov = covered()
    cov += [(s, f, "(re-chosen after the challenge, forge4.go)") for s, f in NOT_COVERED]
    unbound = set(NOT_COVERED)
    todo = [(s, f, eq) for s, f, eq in cov if not a.only or a.only in (s, s + "." + f)]
    eqs = {(s, f): eq for s, f, eq in cov}
    results = {}
    with concurrent.futures.ThreadPoolExecutor(max_workers=max(1, a.j)) as ex:
        slots = list(range(max(1, a.j)))
        import threading
        lock = threading.Lock()

        def job(s, f):
            with lock:
                slot = slots.pop()
            try:
                return run_one(slot, s, f, a.keep_replays, "commitment-unbound" if (s, f) in unbound else "commitment-forgery")
            finally:
                with lock:
                    slots.append(slot)
        futs = {ex.submit(job, s, f): (s, f) for s, f, _ in todo}
        for fu in concurrent.futures.as_completed(futs):
            r = fu.result()
            results[(r["sys"], r["field"])] = r
            sys.stderr.write("%-8s %-6s %s\n" % (r["sys"], r["field"], "detected" if r["detected"] else "MISSED  " + r["info"][:300]))
    print("%-8s %-6s %-52s %s" % ("system", "field", "equation solved for the field", "mutant (field dropped from challenge) detected"))
    ok = True
    for s, f, _ in todo:
        r = results[(s, f)]
        ok = ok and r["detected"]
        print("%-8s %-6s %-52s %s" % (s, f, eqs[(s, f)], "yes" if r["detected"] else "NO   " + r["info"].splitlines()[0]))
    print()
    print("no adaptive forgery of a FALSE statement for (the rows marked forge4.go above test them on a true statement):")
    for s, f in NOT_COVERED:
        print("%-8s %-6s %s" % (s, f, reason(s, f)))
    print()
    print("%d/%d covered fields detected" % (sum(1 for r in results.values() if r["detected"]), len(todo)))
    for r in results.values():
        if not r["detected"]:
            print("--- %s.%s\n%s" % (r["sys"], r["field"], r["info"]))
    return 0 if ok and todo else 1


if __name__ == "__main__":
    sys.exit(main())
