#!/bin/bash
# re-run every seeded patch against the check of its property
cd "$(dirname "$0")/.."
for d in seeded/*/; do
  id=$(basename $d)
  for p in $(jq -r '((.caught_by // []) + [.property]) | unique | .[]' $d/meta.json); do
    python3 run.py selftest $p seeded/$id 2>&1 | grep -E "detected|MISSED|APPLY" 
  done
done
