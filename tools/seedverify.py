#!/usr/bin/env python3
"""Confirm a seeded property-breaking change and file it under /verif/seeded/<id>/.

  seedverify.py <prop> <srcdir> <demo-file-in-srcdir> <placement-path-in-module> "<demo command>" [--nosuite]

Steps (all in a scratch worktree of /repo under /tmp, removed afterwards):
  1. the patch applies to /repo HEAD and `go build ./...` passes;
  2. the demonstration FAILS with the change and PASSES without it;
  3. the repository's own test suite passes with the change (unless --nosuite);
  4. the /verif check of that property is run against the changed tree (detected / missed).
Everything is recorded in /verif/seeded/<id>/meta.json (+ patch.diff, the demo, notes.md, verify.log).
"""
import json, os, shutil, subprocess, sys, tempfile, time

VERIF = "/verif"
REPO = "/repo"
ENV = dict(os.environ, GOFLAGS="-mod=mod", GOPROXY="off", GOSUMDB="off", GOTOOLCHAIN="local")


def sh(cmd, cwd, timeout=3600):
    p = subprocess.run(cmd, cwd=cwd, env=ENV, shell=isinstance(cmd, str), capture_output=True, text=True, timeout=timeout)
    return p.returncode, (p.stdout + p.stderr)


def main():
    args = [a for a in sys.argv[1:] if not a.startswith("--")]
    nosuite = "--nosuite" in sys.argv
    prop, src, demo, place, cmd = args[:5]
    sid = "%s-%s" % (prop, os.path.basename(os.path.normpath(src)))
    if len(args) > 5:
        sid = args[5]
    dst = os.path.join(VERIF, "seeded", sid)
    os.makedirs(dst, exist_ok=True)
    log = []
    wt = tempfile.mkdtemp(prefix="seedv-", dir="/tmp")
    os.rmdir(wt)
    prev = {}
    try:
        prev = json.load(open(os.path.join(dst, "meta.json")))
    except Exception:
        pass
    meta = dict(property=prop, id=sid, repo_head=subprocess.check_output(["git", "-C", REPO, "rev-parse", "--short", "HEAD"], text=True).strip())
    try:
        subprocess.check_call(["git", "-C", REPO, "worktree", "add", "-q", "--detach", wt, "HEAD"])
        patch = os.path.join(src, "patch.diff")
        rc, out = sh(["git", "apply", patch], wt)
        meta["patch_applies"] = rc == 0
        log.append("== git apply: rc=%d %s" % (rc, out[-500:]))
        if rc != 0:
            raise SystemExit("patch does not apply")
        rc, out = sh("go build ./...", wt)
        meta["builds"] = rc == 0
        log.append("== go build ./...: rc=%d %s" % (rc, out[-1000:]))
        os.makedirs(os.path.dirname(os.path.join(wt, place)), exist_ok=True)
        shutil.copy(os.path.join(src, demo), os.path.join(wt, place))
        t0 = time.time()
        rc1, out1 = sh(cmd, wt, timeout=1800)
        log.append("== demo WITH the change (%s): rc=%d (%.0fs)\n%s" % (cmd, rc1, time.time() - t0, out1[-2500:]))
        sh(["git", "apply", "-R", patch], wt)
        rc2, out2 = sh(cmd, wt, timeout=1800)
        log.append("== demo WITHOUT the change: rc=%d\n%s" % (rc2, out2[-1500:]))
        meta["demo_fails_with_change"] = rc1 != 0
        meta["demo_passes_without_change"] = rc2 == 0
        os.remove(os.path.join(wt, place))
        sh(["git", "apply", patch], wt)
        if nosuite and "existing_suite_passes_with_change" in prev:
            meta["existing_suite_passes_with_change"] = prev["existing_suite_passes_with_change"]
            meta["suite_confirmed_at_repo_head"] = prev.get("suite_confirmed_at_repo_head", prev.get("repo_head"))
        if not nosuite:
            meta["suite_confirmed_at_repo_head"] = meta["repo_head"]
            t0 = time.time()
            rc, out = sh("go test -vet=off -count=1 -timeout 25m ./...", wt, timeout=2400)
            fails = [l for l in out.splitlines() if l.startswith("FAIL") or l.startswith("--- FAIL") or l.startswith("panic:")]
            meta["existing_suite_passes_with_change"] = rc == 0
            log.append("== existing suite with the change: rc=%d (%.0fs) %s" % (rc, time.time() - t0, fails[:10]))
        # the /verif check(s)
        checks = [prop] + [c for c in os.environ.get("ALSO", "").split(",") if c]
        meta["checks"] = {}
        for c in checks:
            env = dict(os.environ, VERIF_REPO=wt)
            t0 = time.time()
            p = subprocess.run([sys.executable, os.path.join(VERIF, "run.py"), c, "--tier", "quick", "--noevidence"], cwd=VERIF, env=env, capture_output=True, text=True)
            vio = [l for l in p.stdout.splitlines() if l.startswith("VIOLATION ")]
            sigs = []
            try:
                ev = json.load(open(os.path.join(VERIF, ".build", "selftest-evidence", c + ".json")))
                sigs = [s for s in ev["coverage"].get("violation_signatures", [])][:12]
            except Exception:
                pass
            meta["checks"][c] = dict(exit=p.returncode, violation_lines=len(vio), detected=(p.returncode == 1 and len(vio) > 0), signatures=sigs, wall_s=round(time.time() - t0, 1))
            log.append("== check %s against the changed tree: exit %d, %d VIOLATION lines\n%s" % (c, p.returncode, len(vio), p.stdout[-1500:]))
        meta["caught_by"] = [c for c, v in meta["checks"].items() if v["detected"]]
    finally:
        subprocess.call(["git", "-C", REPO, "worktree", "remove", "--force", wt], stdout=subprocess.DEVNULL, stderr=subprocess.DEVNULL)
        shutil.rmtree(wt, ignore_errors=True)
        shutil.copy(os.path.join(src, "patch.diff"), os.path.join(dst, "patch.diff"))
        shutil.copy(os.path.join(src, demo), os.path.join(dst, os.path.basename(demo)))
        if os.path.exists(os.path.join(src, "notes.md")):
            shutil.copy(os.path.join(src, "notes.md"), os.path.join(dst, "notes.md"))
        meta["demo"] = dict(file=os.path.basename(demo), place_at=place, command=cmd)
        meta["what_i_ran"] = ["git apply patch.diff (scratch worktree of /repo HEAD)", "go build ./...", cmd + " (with and without the change)",
                              "go test -vet=off -count=1 ./... (with the change)" if not nosuite else "(suite not re-run here; see notes.md)", "python3 run.py <check> --tier quick with VERIF_REPO=<worktree>"]
        open(os.path.join(dst, "verify.log"), "w").write("\n".join(log))
        json.dump(meta, open(os.path.join(dst, "meta.json"), "w"), indent=1)
        print(json.dumps({k: v for k, v in meta.items() if k not in ("what_i_ran",)}, indent=1)[:1800])


if __name__ == "__main__":
    main()
