#!/bin/bash
# usage: runall_against.sh <name> <patch.diff>...   — apply the patches to a scratch worktree of /repo and run every quick check against it
# prints one line per check: id exit #VIOLATION lines; the worktree is removed afterwards
cd "$(dirname "$0")/.."
name=$1; shift
wt=/tmp/runall-$name-$$
git -C /repo worktree add -q --detach $wt HEAD || exit 2
trap 'git -C /repo worktree remove --force '$wt' >/dev/null 2>&1; rm -rf '$wt EXIT
for p in "$@"; do p=$(realpath "$p"); git -C $wt apply "$p" || { echo "PATCH DOES NOT APPLY: $p"; exit 2; }; done
( cd $wt && GOFLAGS=-mod=mod GOPROXY=off GOSUMDB=off GOTOOLCHAIN=local go build ./... ) || { echo "DOES NOT BUILD"; exit 2; }
for c in ${CHECKS:-C01 C02 C03 C04 C05 C06 C07 C08 C09 C10 C11 C12 C13 C14 C15 C16 C17 C18 C19 C20}; do
  out=$(VERIF_REPO=$wt python3 run.py $c --tier quick --noevidence 2>&1); rc=$?
  nv=$(echo "$out" | grep -c '^VIOLATION ')
  echo "$name $c exit=$rc violations=$nv $(echo "$out" | tail -1)"
  if [ $rc -ne 0 ]; then echo "$out" | grep -E '^--- violation|HARNESS' | head -5; fi
done
