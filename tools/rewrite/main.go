// rewrite instruments one Go source file for the vsched cooperative scheduler.
//
//	rewrite <in.go> <out.go>
//
// Every channel send/receive/close, select, `for range <channel>`, go statement,
// X.Lock()/X.Unlock() and sync/atomic function call in the file is replaced by the
// corresponding vsched operation.  Exit status 3 = a construct that cannot be instrumented.
package main

import (
	"bytes"
	"fmt"
	"go/ast"
	"go/parser"
	"go/printer"
	"go/token"
	"os"
	"strconv"
)

const vschedPath = "github.com/taurusgroup/multi-party-sig/internal/zzverif/vsched"

var atomicFuncs = map[string]bool{
	"LoadInt64": true, "AddInt64": true, "StoreInt64": true, "LoadInt32": true, "AddInt32": true, "StoreInt32": true,
	"LoadUint32": true, "AddUint32": true, "StoreUint32": true, "LoadUint64": true, "AddUint64": true, "StoreUint64": true,
	"CompareAndSwapInt64": true, "CompareAndSwapInt32": true, "CompareAndSwapUint32": true, "SwapInt64": true, "SwapInt32": true,
}

var chanNames = map[string]bool{} // identifiers / field names with channel type declared in this file
var counts = map[string]int{}
var unsupported []string

func vs(name string) ast.Expr {
	return &ast.SelectorExpr{X: ast.NewIdent("vsched"), Sel: ast.NewIdent(name)}
}
func call(name string, args ...ast.Expr) *ast.CallExpr {
	return &ast.CallExpr{Fun: vs(name), Args: args}
}

func isChanType(e ast.Expr) bool {
	_, ok := e.(*ast.ChanType)
	return ok
}

func collectChanNames(f *ast.File) {
	ast.Inspect(f, func(n ast.Node) bool {
		switch x := n.(type) {
		case *ast.Field:
			if isChanType(x.Type) {
				for _, nm := range x.Names {
					chanNames[nm.Name] = true
				}
			}
		case *ast.ValueSpec:
			if x.Type != nil && isChanType(x.Type) {
				for _, nm := range x.Names {
					chanNames[nm.Name] = true
				}
			}
			for i, v := range x.Values {
				if isMakeChan(v) && i < len(x.Names) {
					chanNames[x.Names[i].Name] = true
				}
			}
		case *ast.AssignStmt:
			for i, v := range x.Rhs {
				if isMakeChan(v) && i < len(x.Lhs) {
					switch l := x.Lhs[i].(type) {
					case *ast.Ident:
						chanNames[l.Name] = true
					case *ast.SelectorExpr:
						chanNames[l.Sel.Name] = true
					}
				}
			}
		}
		return true
	})
}

func isMakeChan(e ast.Expr) bool {
	c, ok := e.(*ast.CallExpr)
	if !ok {
		return false
	}
	id, ok := c.Fun.(*ast.Ident)
	if !ok || id.Name != "make" || len(c.Args) == 0 {
		return false
	}
	return isChanType(c.Args[0])
}

func isChanExpr(e ast.Expr) bool {
	switch x := e.(type) {
	case *ast.Ident:
		return chanNames[x.Name]
	case *ast.SelectorExpr:
		return chanNames[x.Sel.Name]
	case *ast.ParenExpr:
		return isChanExpr(x.X)
	}
	return false
}

// rewriteExpr rewrites receive expressions, close, Lock/Unlock and atomic calls inside e.
func rewriteExpr(e ast.Expr) ast.Expr {
	if e == nil {
		return nil
	}
	switch x := e.(type) {
	case *ast.UnaryExpr:
		x.X = rewriteExpr(x.X)
		if x.Op == token.ARROW {
			counts["recv"]++
			return call("Recv", x.X)
		}
		return x
	case *ast.CallExpr:
		for i := range x.Args {
			x.Args[i] = rewriteExpr(x.Args[i])
		}
		x.Fun = rewriteExpr(x.Fun)
		if id, ok := x.Fun.(*ast.Ident); ok && id.Name == "close" && len(x.Args) == 1 {
			counts["close"]++
			return call("Close", x.Args[0])
		}
		if sel, ok := x.Fun.(*ast.SelectorExpr); ok {
			if len(x.Args) == 0 && (sel.Sel.Name == "Lock" || sel.Sel.Name == "Unlock") {
				counts["lock"]++
				return call(sel.Sel.Name, &ast.UnaryExpr{Op: token.AND, X: sel.X})
			}
			if len(x.Args) == 0 && sel.Sel.Name == "TryLock" {
				// a lock that can be tested without blocking makes "held" observable: TryLock becomes a
				// scheduling point and (see the init emitted below) so does every Unlock
				counts["trylock"]++
				return call("TryLock", &ast.UnaryExpr{Op: token.AND, X: sel.X})
			}
			if len(x.Args) == 0 && (sel.Sel.Name == "RLock" || sel.Sel.Name == "RUnlock" || sel.Sel.Name == "Wait") {
				unsupported = append(unsupported, sel.Sel.Name)
			}
			if id, ok := sel.X.(*ast.Ident); ok && id.Name == "atomic" {
				if atomicFuncs[sel.Sel.Name] {
					counts["atomic"]++
					return &ast.CallExpr{Fun: vs(sel.Sel.Name), Args: x.Args}
				}
				unsupported = append(unsupported, "atomic."+sel.Sel.Name)
			}
		}
		return x
	case *ast.BinaryExpr:
		x.X, x.Y = rewriteExpr(x.X), rewriteExpr(x.Y)
		return x
	case *ast.ParenExpr:
		x.X = rewriteExpr(x.X)
		return x
	case *ast.SelectorExpr:
		x.X = rewriteExpr(x.X)
		return x
	case *ast.IndexExpr:
		x.X, x.Index = rewriteExpr(x.X), rewriteExpr(x.Index)
		return x
	case *ast.StarExpr:
		x.X = rewriteExpr(x.X)
		return x
	case *ast.TypeAssertExpr:
		x.X = rewriteExpr(x.X)
		return x
	case *ast.SliceExpr:
		x.X, x.Low, x.High, x.Max = rewriteExpr(x.X), rewriteExpr(x.Low), rewriteExpr(x.High), rewriteExpr(x.Max)
		return x
	case *ast.KeyValueExpr:
		x.Value = rewriteExpr(x.Value)
		return x
	case *ast.CompositeLit:
		for i := range x.Elts {
			x.Elts[i] = rewriteExpr(x.Elts[i])
		}
		return x
	case *ast.FuncLit:
		x.Body = rewriteBlock(x.Body)
		return x
	}
	return e
}

func rewriteBlock(b *ast.BlockStmt) *ast.BlockStmt {
	if b == nil {
		return nil
	}
	b.List = rewriteStmts(b.List)
	return b
}

func rewriteStmts(l []ast.Stmt) []ast.Stmt {
	out := make([]ast.Stmt, 0, len(l))
	for _, s := range l {
		out = append(out, rewriteStmt(s))
	}
	return out
}

func recvOf(e ast.Expr) (ast.Expr, bool) {
	for {
		p, ok := e.(*ast.ParenExpr)
		if !ok {
			break
		}
		e = p.X
	}
	u, ok := e.(*ast.UnaryExpr)
	if ok && u.Op == token.ARROW {
		return u.X, true
	}
	return nil, false
}

var tmpCounter int

func rewriteStmt(s ast.Stmt) ast.Stmt {
	switch x := s.(type) {
	case nil:
		return nil
	case *ast.SendStmt:
		counts["send"]++
		return &ast.ExprStmt{X: call("Send", rewriteExpr(x.Chan), rewriteExpr(x.Value))}
	case *ast.ExprStmt:
		x.X = rewriteExpr(x.X)
		return x
	case *ast.AssignStmt:
		if len(x.Lhs) == 2 && len(x.Rhs) == 1 {
			if ch, ok := recvOf(x.Rhs[0]); ok {
				counts["recv"]++
				x.Rhs[0] = call("Recv2", rewriteExpr(ch))
				for i := range x.Lhs {
					x.Lhs[i] = rewriteExpr(x.Lhs[i])
				}
				return x
			}
		}
		for i := range x.Rhs {
			x.Rhs[i] = rewriteExpr(x.Rhs[i])
		}
		for i := range x.Lhs {
			x.Lhs[i] = rewriteExpr(x.Lhs[i])
		}
		return x
	case *ast.DeclStmt:
		if gd, ok := x.Decl.(*ast.GenDecl); ok {
			for _, sp := range gd.Specs {
				if vsp, ok := sp.(*ast.ValueSpec); ok {
					if len(vsp.Names) == 2 && len(vsp.Values) == 1 {
						if ch, ok := recvOf(vsp.Values[0]); ok {
							counts["recv"]++
							vsp.Values[0] = call("Recv2", rewriteExpr(ch))
							continue
						}
					}
					for i := range vsp.Values {
						vsp.Values[i] = rewriteExpr(vsp.Values[i])
					}
				}
			}
		}
		return x
	case *ast.GoStmt:
		counts["go"]++
		// evaluate the arguments now, run the call in a controlled thread
		blk := &ast.BlockStmt{}
		args := make([]ast.Expr, len(x.Call.Args))
		for i, a := range x.Call.Args {
			tmpCounter++
			nm := ast.NewIdent("vschedArg" + strconv.Itoa(tmpCounter))
			blk.List = append(blk.List, &ast.AssignStmt{Lhs: []ast.Expr{nm}, Tok: token.DEFINE, Rhs: []ast.Expr{rewriteExpr(a)}})
			args[i] = nm
		}
		inner := &ast.CallExpr{Fun: rewriteExpr(x.Call.Fun), Args: args, Ellipsis: x.Call.Ellipsis}
		fl := &ast.FuncLit{Type: &ast.FuncType{Params: &ast.FieldList{}}, Body: &ast.BlockStmt{List: []ast.Stmt{&ast.ExprStmt{X: inner}}}}
		blk.List = append(blk.List, &ast.ExprStmt{X: call("Go", fl)})
		return blk
	case *ast.DeferStmt:
		r := rewriteExpr(x.Call)
		if c, ok := r.(*ast.CallExpr); ok {
			x.Call = c
		}
		return x
	case *ast.ReturnStmt:
		for i := range x.Results {
			x.Results[i] = rewriteExpr(x.Results[i])
		}
		return x
	case *ast.BlockStmt:
		return rewriteBlock(x)
	case *ast.IfStmt:
		x.Init = rewriteStmt(x.Init)
		x.Cond = rewriteExpr(x.Cond)
		x.Body = rewriteBlock(x.Body)
		if x.Else != nil {
			x.Else = rewriteStmt(x.Else)
		}
		return x
	case *ast.ForStmt:
		x.Init = rewriteStmt(x.Init)
		x.Cond = rewriteExpr(x.Cond)
		x.Post = rewriteStmt(x.Post)
		x.Body = rewriteBlock(x.Body)
		return x
	case *ast.RangeStmt:
		x.Body = rewriteBlock(x.Body)
		if isChanExpr(x.X) {
			counts["range"]++
			key := x.Key
			tok := x.Tok
			if key == nil {
				key = ast.NewIdent("_")
				tok = token.DEFINE
			}
			okId := ast.NewIdent("vschedOk")
			var recv ast.Stmt
			if tok == token.DEFINE {
				recv = &ast.AssignStmt{Lhs: []ast.Expr{key, okId}, Tok: token.DEFINE, Rhs: []ast.Expr{call("Recv2", rewriteExpr(x.X))}}
			} else {
				// assignment form: declare ok separately
				recv = &ast.BlockStmt{List: []ast.Stmt{}}
				unsupported = append(unsupported, "range-assign over channel")
			}
			brk := &ast.IfStmt{Cond: &ast.UnaryExpr{Op: token.NOT, X: okId}, Body: &ast.BlockStmt{List: []ast.Stmt{&ast.BranchStmt{Tok: token.BREAK}}}}
			body := &ast.BlockStmt{List: append([]ast.Stmt{recv, brk}, x.Body.List...)}
			return &ast.ForStmt{Body: body}
		}
		x.X = rewriteExpr(x.X)
		return x
	case *ast.SwitchStmt:
		x.Init = rewriteStmt(x.Init)
		x.Tag = rewriteExpr(x.Tag)
		for _, c := range x.Body.List {
			cc := c.(*ast.CaseClause)
			for i := range cc.List {
				cc.List[i] = rewriteExpr(cc.List[i])
			}
			cc.Body = rewriteStmts(cc.Body)
		}
		return x
	case *ast.TypeSwitchStmt:
		x.Init = rewriteStmt(x.Init)
		for _, c := range x.Body.List {
			cc := c.(*ast.CaseClause)
			cc.Body = rewriteStmts(cc.Body)
		}
		return x
	case *ast.LabeledStmt:
		x.Stmt = rewriteStmt(x.Stmt)
		return x
	case *ast.SelectStmt:
		return rewriteSelect(x)
	}
	return s
}

func rewriteSelect(x *ast.SelectStmt) ast.Stmt {
	counts["select"]++
	hasDefault := false
	var cases []ast.Expr
	sw := &ast.SwitchStmt{Body: &ast.BlockStmt{}}
	// raw copy for pass-through mode: same (rewritten) bodies, original communications
	raw := &ast.SelectStmt{Body: &ast.BlockStmt{}}
	idx := 0
	for _, c := range x.Body.List {
		cc := c.(*ast.CommClause)
		body := rewriteStmts(cc.Body)
		raw.Body.List = append(raw.Body.List, &ast.CommClause{Comm: cc.Comm, Body: body})
		if cc.Comm == nil {
			hasDefault = true
			sw.Body.List = append(sw.Body.List, &ast.CaseClause{List: []ast.Expr{&ast.BasicLit{Kind: token.INT, Value: "-1"}}, Body: body})
			continue
		}
		var first ast.Stmt
		switch cm := cc.Comm.(type) {
		case *ast.SendStmt:
			cases = append(cases, call("SendCase", cm.Chan))
			first = &ast.ExprStmt{X: call("DoSend", cm.Chan, cm.Value)}
		case *ast.ExprStmt:
			ch, ok := recvOf(cm.X)
			if !ok {
				unsupported = append(unsupported, "select comm expr")
				continue
			}
			cases = append(cases, call("RecvCase", ch))
			first = &ast.ExprStmt{X: call("DoRecv2", ch)}
		case *ast.AssignStmt:
			ch, ok := recvOf(cm.Rhs[0])
			if !ok {
				unsupported = append(unsupported, "select comm assign")
				continue
			}
			cases = append(cases, call("RecvCase", ch))
			lhs := append([]ast.Expr{}, cm.Lhs...)
			if len(lhs) == 1 {
				lhs = append(lhs, ast.NewIdent("_"))
			}
			first = &ast.AssignStmt{Lhs: lhs, Tok: cm.Tok, Rhs: []ast.Expr{call("DoRecv2", ch)}}
		}
		sw.Body.List = append(sw.Body.List, &ast.CaseClause{
			List: []ast.Expr{&ast.BasicLit{Kind: token.INT, Value: strconv.Itoa(idx)}},
			Body: append([]ast.Stmt{first}, body...),
		})
		idx++
	}
	def := "false"
	if hasDefault {
		def = "true"
	}
	sw.Tag = call("Select", append([]ast.Expr{ast.NewIdent(def)}, cases...)...)
	sw.Body.List = append(sw.Body.List, &ast.CaseClause{List: []ast.Expr{&ast.BasicLit{Kind: token.INT, Value: "-3"}}, Body: []ast.Stmt{raw}})
	return sw
}

func main() {
	if len(os.Args) != 3 {
		fmt.Fprintln(os.Stderr, "usage: rewrite in.go out.go")
		os.Exit(2)
	}
	fset := token.NewFileSet()
	f, err := parser.ParseFile(fset, os.Args[1], nil, 0)
	if err != nil {
		fmt.Fprintln(os.Stderr, err)
		os.Exit(2)
	}
	collectChanNames(f)
	for _, d := range f.Decls {
		if fd, ok := d.(*ast.FuncDecl); ok && fd.Body != nil {
			fd.Body = rewriteBlock(fd.Body)
		}
	}
	// imports: add vsched, drop sync/atomic if unused now
	usesAtomic := false
	ast.Inspect(f, func(n ast.Node) bool {
		if sel, ok := n.(*ast.SelectorExpr); ok {
			if id, ok := sel.X.(*ast.Ident); ok && id.Name == "atomic" {
				usesAtomic = true
			}
		}
		return true
	})
	for _, d := range f.Decls {
		gd, ok := d.(*ast.GenDecl)
		if !ok || gd.Tok != token.IMPORT {
			continue
		}
		var specs []ast.Spec
		for _, sp := range gd.Specs {
			is := sp.(*ast.ImportSpec)
			if is.Path.Value == `"sync/atomic"` && !usesAtomic {
				continue
			}
			specs = append(specs, sp)
		}
		specs = append(specs, &ast.ImportSpec{Path: &ast.BasicLit{Kind: token.STRING, Value: strconv.Quote(vschedPath)}})
		gd.Specs = specs
		gd.Lparen = 1
		break
	}
	f.Comments = nil
	var buf bytes.Buffer
	// print without positions to keep the synthesized nodes well-formed
	if err := printer.Fprint(&buf, token.NewFileSet(), f); err != nil {
		fmt.Fprintln(os.Stderr, err)
		os.Exit(2)
	}
	buf.WriteString("\nvar _ = vsched.Yield\n")
	if counts["trylock"] > 0 {
		buf.WriteString("\nfunc init() { vsched.UnlockIsPoint = true }\n")
	}
	if err := os.WriteFile(os.Args[2], buf.Bytes(), 0o644); err != nil {
		fmt.Fprintln(os.Stderr, err)
		os.Exit(2)
	}
	fmt.Printf("instrumented %s: %v\n", os.Args[1], counts)
	if len(unsupported) > 0 {
		fmt.Printf("UNSUPPORTED %v\n", unsupported)
		os.Exit(3)
	}
}
