package faults

import (
	"errors"
	"fmt"
	"sort"
	"strings"

	"github.com/taurusgroup/multi-party-sig/internal/zzverif/drv"
	"github.com/taurusgroup/multi-party-sig/internal/zzverif/sess"
	"github.com/taurusgroup/multi-party-sig/pkg/party"
	"github.com/taurusgroup/multi-party-sig/pkg/protocol"
)

// Slot identifies one message of the honest in-order run: the k-th delivery.
type Slot struct {
	Index     int      `json:"index"` // position in the honest delivery sequence (first recipient of a broadcast)
	From      party.ID `json:"from"`
	To        party.ID `json:"to"` // "" = every recipient of the broadcast / to-all message
	Round     int      `json:"round"`
	Broadcast bool     `json:"broadcast"`
}

func (s Slot) String() string {
	k := "p2p"
	if s.Broadcast {
		k = "bcast"
	}
	to := string(s.To)
	if to == "" {
		to = "*"
	}
	return fmt.Sprintf("r%d/%s/%s>%s", s.Round, k, s.From, to)
}

// Fault is one deviation of a session.
type Fault struct {
	Slot   Slot   `json:"slot"`
	Mut    Mut    `json:"mut"`
	Mode   string `json:"mode"`   // replace | inject (deliver the altered message, then also the honest one)
	Timing string `json:"timing"` // natural | after-broadcast | early (the deviator is served first and its messages arrive first) | late (the deviator's messages to the slot's recipient arrive last)
	build  func(m *protocol.Message) *protocol.Message
	// State-level deviation: called with the deviator's handler after its construction and after every
	// delivery to it; returns true once the deviation has been applied.
	Deviator  party.ID                                `json:"deviator,omitempty"`
	StateHook func(h protocol.Handler) (applied bool) `json:"-"`
	// WrapStart, if set, wraps the deviator's start function: the first round object can be altered
	// BEFORE the handler's constructor finalises it (e.g. a dealer that uses another polynomial from
	// the very beginning, so that its commitment, its opening and its shares are all consistent).
	WrapStart func(protocol.StartFunc) protocol.StartFunc `json:"-"`
	Victim    party.ID                                    `json:"victim,omitempty"` // schedule "lag": the party that is served last
	// Also, if set, is offered every other message of the deviator (not matching Slot): a non-nil return
	// value is delivered in its place.  For deviations that span two messages of one party whose
	// consistency cannot be reached through its state (a commitment to a malformed value in one
	// round and its opening in a later one).
	Also func(d drv.Delivery) *protocol.Message `json:"-"`
}

// PartyEnd describes how one party ended.
type PartyEnd struct {
	Status   string // done | error | running
	Result   interface{}
	Err      string
	Culprits []party.ID
	Closed   bool
	Panic    string
	Frame    string
	Stack    string
	Hung     bool
}

type End struct {
	Parties   map[party.ID]*PartyEnd
	Delivered int
	StartErr  map[party.ID]error
	Applied   bool // the fault's slot was reached
	Accepted  bool // the victim's CanAccept said yes to the altered message
	// RelayFrom[x] = y: party x was running, was delivered an abort notice (round 0) of y, and was in
	// error afterwards - its error is the relay of y's abort, whatever the error text says.
	RelayFrom map[party.ID]party.ID
}

// Transcript runs the session honestly and returns the delivery sequence.
func Transcript(spec *sess.Spec, seed int64, label string) ([]drv.Delivery, *End) {
	var seq []drv.Delivery
	end := run(spec, seed, label, nil, func(d drv.Delivery) { seq = append(seq, d) })
	return seq, end
}

// Run executes the session with one fault.
func Run(spec *sess.Spec, seed int64, label string, f *Fault) *End {
	return run(spec, seed, label, f, nil)
}

func matches(f *Fault, d drv.Delivery) bool {
	s := f.Slot
	if d.M.From != s.From || int(d.M.RoundNumber) != s.Round || d.M.Broadcast != s.Broadcast {
		return false
	}
	if s.To != "" && d.To != s.To {
		return false
	}
	if s.To == "" && d.M.To != "" {
		return false
	}
	if s.To != "" && d.M.To == "" {
		// to-all or broadcast addressed per recipient: fine
	}
	return true
}

func run(spec *sess.Spec, seed int64, label string, f *Fault, observe func(drv.Delivery)) *End {
	if f != nil && f.WrapStart != nil {
		orig, dev, wrap := spec.Start, f.Deviator, f.WrapStart
		cp := *spec
		cp.Start = func(id party.ID) protocol.StartFunc {
			sf := orig(id)
			if id == dev && sf != nil {
				return wrap(sf)
			}
			return sf
		}
		spec = &cp
	}
	net, startErr := sess.Build(spec, seed, label)
	end := &End{Parties: map[party.ID]*PartyEnd{}, StartErr: startErr, RelayFrom: map[party.ID]party.ID{}}
	if len(startErr) > 0 {
		return end
	}
	net.Flush()
	cache := map[string]*protocol.Message{}
	alter := func(d drv.Delivery) *protocol.Message {
		k := drv.MsgID(d.M)
		if m, ok := cache[k]; ok {
			return m
		}
		m := f.build(drv.CloneMsg(d.M))
		cache[k] = m
		return m
	}
	hook := func() {
		if f != nil && f.StateHook != nil {
			if p := net.Parties[f.Deviator]; p != nil && p.H != nil {
				p.Guard(func() {
					if f.StateHook(p.H) {
						end.Applied = true
					}
				})
			}
		}
	}
	hook()
	steps := 0
	for len(net.Queue) > 0 && steps < 100000 {
		pick := 0
		if f != nil && f.Timing == "early" {
			// schedule "early": the deviator is served first and its messages are delivered first, so that
			// (with three or more parties) its message for round k+1 reaches a party that still waits for
			// somebody else's message of round k, is queued there, and is only processed when that other
			// message completes round k
			pick = -1
			dev := f.Deviator
			if dev == "" {
				dev = f.Slot.From
			}
			for i, q := range net.Queue {
				if q.To == dev {
					pick = i
					break
				}
			}
			if pick < 0 {
				for i, q := range net.Queue {
					if q.M != nil && q.M.From == dev {
						pick = i
						break
					}
				}
			}
			if pick < 0 {
				pick = 0
			}
		}
		if f != nil && f.Timing == "late" && f.Slot.To != "" {
			// schedule "late": everything the deviator sends to the recipient named in the slot is held back as long
			// as anything else can be delivered, so that the other honest parties move ahead and their next-round
			// messages are queued at that recipient before it has the deviator's message of the current round
			dev := f.Deviator
			if dev == "" {
				dev = f.Slot.From
			}
			pick = -1
			for i, q := range net.Queue {
				if !(q.M != nil && q.M.From == dev && q.To == f.Slot.To) {
					pick = i
					break
				}
			}
			if pick < 0 {
				pick = 0
			}
		}
		if f != nil && f.Timing == "lag" && f.Victim != "" {
			// schedule "lag": the victim is the slowest party.  Deliveries to it are made only when nothing else can
			// be delivered, and then the message of the HIGHEST round first: the victim receives the others' messages
			// of round k+1 (queued) before their messages of round k, and the last message of round k sets off the
			// processing of the whole queue in one call
			pick = -1
			for i, q := range net.Queue {
				if q.To != f.Victim {
					pick = i
					break
				}
			}
			if pick < 0 {
				pick = 0
				for i, q := range net.Queue {
					if q.M != nil && net.Queue[pick].M != nil && q.M.RoundNumber > net.Queue[pick].M.RoundNumber {
						pick = i
					}
				}
			}
		}
		d := net.Queue[pick]
		net.Queue = append(append([]drv.Delivery{}, net.Queue[:pick]...), net.Queue[pick+1:]...)
		// timing "after-broadcast": the altered point-to-point message is held back until the same
		// sender's broadcast of that round has been delivered to the same recipient (the handler then
		// processes the p2p message directly instead of when the broadcast arrives)
		if f != nil && f.build != nil && f.Timing == "after-broadcast" && !d.M.Broadcast && matches(f, d) {
			for i, q := range net.Queue {
				if q.M.Broadcast && q.M.From == d.M.From && q.M.RoundNumber == d.M.RoundNumber && q.To == d.To {
					rest := append([]drv.Delivery{}, net.Queue[i+1:]...)
					net.Queue = append(append(append([]drv.Delivery{}, net.Queue[:i+1]...), d), rest...)
					d = drv.Delivery{}
					break
				}
			}
			if d.M == nil {
				continue
			}
		}
		steps++
		if observe != nil {
			observe(d)
		}
		if f != nil && f.build != nil && matches(f, d) {
			end.Applied = true
			if net.Parties[d.To].Deliver(alter(d)) { // the altered message may be nil: CanAccept(nil) is part of the surface
				end.Accepted = true
			}
			if f.Mode == "inject" {
				net.Parties[d.To].Deliver(d.M)
			}
		} else if f != nil && f.Also != nil && d.M != nil && d.M.RoundNumber != 0 && d.M.From == f.Deviator && f.Also(d) != nil {
			net.Parties[d.To].Deliver(f.Also(d))
		} else if d.M != nil && d.M.RoundNumber == 0 {
			p := net.Parties[d.To]
			before := p.Status()
			p.Deliver(d.M)
			if before == "running" && p.Status() == "error" {
				end.RelayFrom[d.To] = d.M.From
			}
		} else {
			net.Parties[d.To].Deliver(d.M)
		}
		if f != nil && d.To == f.Deviator {
			hook()
		}
		net.Flush()
		if id, _ := net.AnyHung(); id != "" {
			break
		}
	}
	end.Delivered = steps
	for _, id := range net.IDs {
		p := net.Parties[id]
		pe := &PartyEnd{Closed: p.Closed, Panic: p.Panic, Frame: p.PanicFrame, Stack: p.PanicStack, Hung: p.Hung != ""}
		end.Parties[id] = pe
		if p.H == nil || pe.Hung {
			pe.Status = "hung"
			continue
		}
		r, err := p.Result()
		switch {
		case r != nil:
			pe.Status, pe.Result = "done", r
		case drv.IsNotFinished(err):
			pe.Status = "running"
		default:
			pe.Status = "error"
			pe.Err = err.Error()
			var pe2 protocol.Error
			if errors.As(err, &pe2) {
				pe.Culprits = pe2.Culprits
			}
		}
	}
	return end
}

// Slots lists the distinct message slots of a transcript: one per (sender, round, kind[, recipient]).
func Slots(seq []drv.Delivery) []Slot {
	seen := map[string]bool{}
	var out []Slot
	for i, d := range seq {
		s := Slot{Index: i, From: d.M.From, Round: int(d.M.RoundNumber), Broadcast: d.M.Broadcast}
		if d.M.To != "" {
			s.To = d.To
		}
		if !seen[s.String()] {
			seen[s.String()] = true
			out = append(out, s)
		}
	}
	return out
}

// MessageAt returns the honest message of a slot.
func MessageAt(seq []drv.Delivery, s Slot) *protocol.Message {
	for _, d := range seq {
		f := &Fault{Slot: s}
		if matches(f, d) {
			return d.M
		}
	}
	return nil
}

// OtherParty returns the message of another sender in the same round and of the same kind (for "other-party" operators).
func OtherParty(seq []drv.Delivery, s Slot) *protocol.Message {
	for _, d := range seq {
		if d.M.From != s.From && int(d.M.RoundNumber) == s.Round && d.M.Broadcast == s.Broadcast {
			return d.M
		}
	}
	return nil
}

// OtherPartyBefore is OtherParty restricted to messages that precede the slot's own message in the
// transcript.  In the alternating two-party protocols a message only exists after its sender has
// received the peer's previous one, so a deviator can copy nothing that comes later (it would have to
// open the peer's commitment); in the multi-party protocols a rushing deviator may wait for the others'
// messages of the same round, and OtherParty is used.
func OtherPartyBefore(seq []drv.Delivery, s Slot) *protocol.Message {
	f := &Fault{Slot: s}
	for _, d := range seq {
		if matches(f, d) {
			return nil
		}
		if d.M.From != s.From && int(d.M.RoundNumber) == s.Round && d.M.Broadcast == s.Broadcast {
			return d.M
		}
	}
	return nil
}

// ContentFault builds a fault that replaces the node at mut.Path of the message content.
func ContentFault(s Slot, mut Mut, newVal interface{}, mode string) *Fault {
	f := &Fault{Slot: s, Mut: mut, Mode: mode, Timing: "natural"}
	f.build = func(m *protocol.Message) *protocol.Message {
		tree, err := Decode(m.Data)
		if err != nil {
			return m
		}
		var nt interface{}
		var ok bool
		if _, isDel := newVal.(del); isDel {
			nt, ok = Set(tree, mut.Path, nil, true)
		} else {
			nt, ok = Set(tree, mut.Path, newVal, false)
		}
		if !ok {
			return m
		}
		m.Data = Encode(nt)
		return m
	}
	return f
}

// MessageFault builds a fault from an arbitrary message transformer (headers, whole-message substitution).
func MessageFault(s Slot, name string, mode string, tf func(m *protocol.Message) *protocol.Message) *Fault {
	return &Fault{Slot: s, Mut: Mut{Path: "<message>", Op: name}, Mode: mode, Timing: "natural", build: tf}
}

// Class collapses a path to its shape: party-id keys and array indices are abstracted.
func PathClass(path string, ids []party.ID) string {
	segs := strings.Split(path, "/")
	for i, s := range segs {
		for _, id := range ids {
			if s == string(id) {
				segs[i] = "<id>"
			}
		}
		if strings.HasPrefix(s, "[") {
			segs[i] = "[i]"
		}
	}
	return strings.Join(segs, "/")
}

func SortedIDs(m map[party.ID]*PartyEnd) []party.ID {
	var l []party.ID
	for id := range m {
		l = append(l, id)
	}
	sort.Slice(l, func(i, j int) bool { return l[i] < l[j] })
	return l
}
