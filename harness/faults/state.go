package faults

import (
	"fmt"
	"reflect"
	"sort"
	"unsafe"

	"github.com/cronokirby/saferith"
	"github.com/taurusgroup/multi-party-sig/pkg/math/curve"
	"github.com/taurusgroup/multi-party-sig/pkg/party"
	"github.com/taurusgroup/multi-party-sig/pkg/protocol"
)

// CurrentRound returns the current round object of a MultiHandler / TwoPartyHandler (a pointer to the round struct).
func CurrentRound(h protocol.Handler) (reflect.Value, bool) {
	v := reflect.ValueOf(h)
	if v.Kind() != reflect.Ptr {
		return reflect.Value{}, false
	}
	v = v.Elem()
	for _, nm := range []string{"currentRound", "round"} {
		f := v.FieldByName(nm)
		if !f.IsValid() {
			continue
		}
		f = reflect.NewAt(f.Type(), unsafe.Pointer(f.UnsafeAddr())).Elem()
		if f.IsNil() {
			return reflect.Value{}, false
		}
		r := f.Elem() // concrete value inside the interface
		if r.Kind() == reflect.Ptr && !r.IsNil() {
			return r, true
		}
	}
	return reflect.Value{}, false
}

// RoundType names the current round type, e.g. "presign.presign4".
func RoundType(h protocol.Handler) string {
	r, ok := CurrentRound(h)
	if !ok {
		return ""
	}
	return r.Elem().Type().String()
}

// StateField is one exported field of the current round (or of a round it embeds, Depth levels up)
// that holds a secret-dependent value this engine knows how to shift.
type StateField struct {
	Name  string
	Depth int
}

// StateFields lists those fields: scalars, integers, points and per-party maps of those.
func StateFields(h protocol.Handler) []StateField {
	r, ok := CurrentRound(h)
	if !ok {
		return nil
	}
	var out []StateField
	seen := map[string]bool{}
	var walk func(t reflect.Type, depth int)
	walk = func(t reflect.Type, depth int) {
		if t.Kind() == reflect.Ptr {
			t = t.Elem()
		}
		if t.Kind() != reflect.Struct || depth > 8 {
			return
		}
		for i := 0; i < t.NumField(); i++ {
			f := t.Field(i)
			if f.Anonymous {
				walk(f.Type, depth+1)
				continue
			}
			if f.PkgPath != "" || seen[f.Name] {
				continue
			}
			if shiftable(f.Type) {
				seen[f.Name] = true
				out = append(out, StateField{f.Name, depth})
			}
		}
	}
	walk(r.Elem().Type(), 0)
	sort.Slice(out, func(i, j int) bool { return out[i].Name < out[j].Name })
	return out
}

var (
	scalarT = reflect.TypeOf((*curve.Scalar)(nil)).Elem()
	pointT  = reflect.TypeOf((*curve.Point)(nil)).Elem()
	intT    = reflect.TypeOf((*saferith.Int)(nil))
	idT     = reflect.TypeOf(party.ID(""))
)

func shiftable(t reflect.Type) bool {
	switch {
	case t == scalarT, t == pointT, t == intT:
		return true
	case t.Kind() == reflect.Map && t.Key() == idT:
		return t.Elem() == scalarT || t.Elem() == pointT || t.Elem() == intT
	}
	return false
}

func shiftValue(v reflect.Value, sign int) (reflect.Value, bool) {
	if !v.IsValid() || (v.Kind() == reflect.Interface || v.Kind() == reflect.Ptr) && v.IsNil() {
		return v, false
	}
	g := curve.Secp256k1{}
	one := g.NewScalar().SetNat(new(saferith.Nat).SetUint64(1))
	switch v.Type() {
	case scalarT:
		s := v.Interface().(curve.Scalar)
		n := g.NewScalar().Set(s)
		if sign > 0 {
			n.Add(one)
		} else {
			n.Sub(one)
		}
		return reflect.ValueOf(&n).Elem(), true
	case pointT:
		p := v.Interface().(curve.Point)
		var n curve.Point
		if sign > 0 {
			n = p.Add(one.ActOnBase())
		} else {
			n = p.Sub(one.ActOnBase())
		}
		return reflect.ValueOf(&n).Elem(), true
	case intT:
		x := v.Interface().(*saferith.Int)
		d := new(saferith.Int).SetUint64(1)
		if sign < 0 {
			d.Neg(1)
		}
		n := new(saferith.Int).Add(x, d, -1)
		return reflect.ValueOf(n), true
	}
	return v, false
}

// ShiftField adds sign (+1 / -1) to the named field of the current round (found through embedded
// rounds as well); for a per-party map the entry of `key` is shifted.
func ShiftField(h protocol.Handler, field string, key party.ID, sign int) error {
	r, ok := CurrentRound(h)
	if !ok {
		return fmt.Errorf("no current round")
	}
	f := r.Elem().FieldByName(field)
	if !f.IsValid() {
		return fmt.Errorf("no field %s in %s", field, r.Elem().Type())
	}
	f = reflect.NewAt(f.Type(), unsafe.Pointer(f.UnsafeAddr())).Elem()
	if f.Kind() == reflect.Map {
		if f.IsNil() {
			return fmt.Errorf("nil map %s", field)
		}
		k := reflect.ValueOf(key)
		cur := f.MapIndex(k)
		if !cur.IsValid() {
			return fmt.Errorf("no entry %s in %s", key, field)
		}
		// map values are not addressable: copy into a settable value of the element type
		tmp := reflect.New(f.Type().Elem()).Elem()
		tmp.Set(cur)
		n, ok := shiftValue(tmp, sign)
		if !ok {
			return fmt.Errorf("cannot shift %s[%s]", field, key)
		}
		f.SetMapIndex(k, n)
		return nil
	}
	n, ok := shiftValue(f, sign)
	if !ok {
		return fmt.Errorf("cannot shift %s", field)
	}
	f.Set(n)
	return nil
}

// StateFault: when the deviator's current round is of type roundType, shift `field` by +1; with
// restore=true shift it back by -1 as soon as the deviator has moved on to another round.
func StateFault(deviator party.ID, roundType, field string, key party.ID, restore bool) *Fault {
	name := "state+1"
	if restore {
		name = "state+1-then-restore"
	}
	stage := 0
	f := &Fault{Deviator: deviator, Mut: Mut{Path: roundType + "." + field, Op: name}, Mode: "state", Timing: "round-entry"}
	f.StateHook = func(h protocol.Handler) bool {
		rt := RoundType(h)
		switch {
		case stage == 0 && rt == roundType:
			if err := ShiftField(h, field, key, +1); err != nil {
				return false
			}
			stage = 1
			return true
		case stage == 1 && restore && rt != roundType && rt != "":
			_ = ShiftField(h, field, key, -1)
			stage = 2
		}
		return stage > 0
	}
	return f
}

// RewriteOwnBroadcast replaces the content of the handler's stored copy of its own broadcast of
// the given round (the copy that enters the echo hash), so that a deviator that alters its
// broadcast for everybody stays consistent with itself.
func RewriteOwnBroadcast(h protocol.Handler, rnd int, self party.ID, tf func([]byte) []byte) bool {
	v := reflect.ValueOf(h)
	if v.Kind() != reflect.Ptr {
		return false
	}
	f := v.Elem().FieldByName("broadcast")
	if !f.IsValid() {
		return false
	}
	f = reflect.NewAt(f.Type(), unsafe.Pointer(f.UnsafeAddr())).Elem()
	for _, rk := range f.MapKeys() {
		if int(rk.Uint()) != rnd {
			continue
		}
		inner := f.MapIndex(rk)
		m := inner.MapIndex(reflect.ValueOf(self))
		if !m.IsValid() || m.IsNil() {
			return false
		}
		msg := m.Interface().(*protocol.Message)
		msg.Data = tf(msg.Data)
		return true
	}
	return false
}
