package faults

import (
	"bytes"
	"crypto/sha256"
	"encoding/binary"
	"fmt"
	"math/big"
	"sort"

	"github.com/taurusgroup/multi-party-sig/internal/zzverif/ref"
)

// Mut is one concrete alteration of a message tree.
type Mut struct {
	Path string `json:"path"`
	Op   string `json:"op"`
}

// Ctx is what operators may draw values from.
type Ctx struct {
	Other interface{} // decoded tree of another party's message of the same round and kind (nil if none)
	Seed  string      // for "fresh" values
}

func fresh(seed string, n int) []byte {
	out := make([]byte, 0, n)
	ctr := 0
	for len(out) < n {
		h := sha256.Sum256([]byte(fmt.Sprintf("%s|%d", seed, ctr)))
		out = append(out, h[:]...)
		ctr++
	}
	return out[:n]
}

func isPoint(b []byte) (ref.Pt, bool) {
	if len(b) != 33 || (b[0] != 2 && b[0] != 3) {
		return ref.Pt{}, false
	}
	p, err := ref.ParseCompressed(b)
	return p, err == nil
}

func scalarBytes(x *big.Int) []byte {
	x = new(big.Int).Mod(x, ref.N)
	out := make([]byte, 32)
	x.FillBytes(out)
	return out
}

// siblings returns the values of other []byte leaves of the same length in the same tree (path order).
func siblings(root interface{}, path string, n int) [][]byte {
	var out [][]byte
	for _, nd := range Walk(root) {
		if b, ok := nd.Val.([]byte); ok && len(b) == n && nd.Path != path {
			out = append(out, b)
		}
	}
	return out
}

// SemanticOps lists the well-formed alterations of the node at path: name -> new value.
func SemanticOps(root interface{}, nd Node, ctx *Ctx) map[string]interface{} {
	ops := map[string]interface{}{}
	switch v := nd.Val.(type) {
	case []byte:
		var other []byte
		if ctx != nil && ctx.Other != nil {
			if o, ok := Get(ctx.Other, nd.Path); ok {
				if ob, ok := o.([]byte); ok && !bytes.Equal(ob, v) {
					other = ob
				}
			}
		}
		if other != nil {
			ops["other-party"] = other
		}
		for _, s := range siblings(root, nd.Path, len(v)) {
			if !bytes.Equal(s, v) {
				ops["sibling"] = s
				break
			}
		}
		if p, ok := isPoint(v); ok {
			ops["pt-negate"] = p.Neg().Compressed()
			if q := ref.Add(p, ref.G); !q.Inf {
				ops["pt-plusG"] = q.Compressed()
			}
			ops["pt-G"] = ref.G.Compressed()
			k := new(big.Int).SetBytes(fresh(ctx.Seed+nd.Path, 32))
			ops["pt-fresh"] = ref.MulG(k).Compressed()
			return ops
		}
		if len(v) == 32 {
			x := new(big.Int).SetBytes(v)
			ops["sc-zero"] = make([]byte, 32)
			ops["sc-one"] = scalarBytes(big.NewInt(1))
			ops["sc-qminus1"] = scalarBytes(new(big.Int).Sub(ref.N, big.NewInt(1)))
			ops["sc-plus1"] = scalarBytes(new(big.Int).Add(x, big.NewInt(1)))
			ops["sc-negate"] = scalarBytes(new(big.Int).Sub(ref.N, x))
			ops["sc-fresh"] = scalarBytes(new(big.Int).SetBytes(fresh(ctx.Seed+nd.Path, 32)))
			fl := append([]byte{}, v...)
			fl[31] ^= 1
			ops["bit-flip"] = fl
			return ops
		}
		if len(v) == 0 {
			return ops
		}
		// big integers, ciphertexts, hashes of other sizes, nested encodings: same length, different value
		z := make([]byte, len(v))
		ops["int-zero"] = z
		o := make([]byte, len(v))
		o[len(v)-1] = 1
		ops["int-one"] = o
		x := new(big.Int).SetBytes(v)
		p1 := new(big.Int).Add(x, big.NewInt(1)).Bytes()
		if len(p1) <= len(v) {
			b := make([]byte, len(v))
			copy(b[len(v)-len(p1):], p1)
			ops["int-plus1"] = b
		}
		if x.Sign() > 0 {
			m1 := new(big.Int).Sub(x, big.NewInt(1)).Bytes()
			b := make([]byte, len(v))
			copy(b[len(v)-len(m1):], m1)
			ops["int-minus1"] = b
		}
		hi := append([]byte{}, v...)
		hi[0] ^= 0x40
		ops["int-flip-high"] = hi
		mid := append([]byte{}, v...)
		mid[len(v)/2] ^= 0x10
		ops["int-flip-mid"] = mid
		ops["int-fresh"] = fresh(ctx.Seed+nd.Path, len(v))
	case big.Int:
		ops["bigint-plus1"] = *new(big.Int).Add(&v, big.NewInt(1))
		ops["bigint-negate"] = *new(big.Int).Neg(&v)
		if v.Sign() != 0 {
			ops["bigint-zero"] = *big.NewInt(0)
		}
		if ctx != nil && ctx.Other != nil {
			if o, ok := Get(ctx.Other, nd.Path); ok {
				if ob, ok := o.(big.Int); ok && ob.Cmp(&v) != 0 {
					ops["other-party"] = ob
				}
			}
		}
	case uint64:
		ops["uint-plus1"] = v + 1
		if v != 0 {
			ops["uint-zero"] = uint64(0)
		}
	case map[interface{}]interface{}:
		// swap the values of the first two entries (e.g. per-party maps)
		keys := make([]string, 0, len(v))
		byName := map[string]interface{}{}
		orig := map[string]interface{}{}
		for k, val := range v {
			ks := keyStr(k)
			keys = append(keys, ks)
			byName[ks] = val
			orig[ks] = k
		}
		sort.Strings(keys)
		if len(keys) >= 2 && !bytes.Equal(Encode(byName[keys[0]]), Encode(byName[keys[1]])) {
			m := Clone(v).(map[interface{}]interface{})
			m[orig[keys[0]]], m[orig[keys[1]]] = Clone(byName[keys[1]]), Clone(byName[keys[0]])
			ops["map-swap-values"] = m
		}
	case []interface{}:
		if len(v) >= 2 && !bytes.Equal(Encode(v[0]), Encode(v[len(v)-1])) {
			a := Clone(v).([]interface{})
			a[0], a[len(a)-1] = a[len(a)-1], a[0]
			ops["arr-swap-ends"] = a
		}
	}
	return ops
}

// del marks deletion of the node from its parent.
type del struct{}

// StructuralOps lists malformations of the node at path: name -> new value (del{} = remove).
// quick=true restricts to the four cheapest classes.
func StructuralOps(nd Node, quick bool) map[string]interface{} {
	ops := map[string]interface{}{}
	if nd.Path != "" {
		ops["delete"] = del{}
	}
	ops["null"] = nil
	ops["wrong-type-uint0"] = uint64(0)
	if !quick {
		ops["empty-bytes"] = []byte{}
	}
	if quick {
		if b, ok := nd.Val.([]byte); ok && len(b) > 0 {
			ops["trunc1"] = append([]byte{}, b[:len(b)-1]...)
		}
		return ops
	}
	ops["one-zero-byte"] = []byte{0}
	ops["text-empty"] = ""
	ops["empty-array"] = []interface{}{}
	ops["empty-map"] = map[interface{}]interface{}{}
	ops["huge-length-header"] = Raw{0x5a, 0xff, 0xff, 0xff, 0xff, 0x00, 0x00}
	ops["int-64k-ff"] = bytes.Repeat([]byte{0xff}, 65536)
	nest := []byte{}
	for i := 0; i < 40; i++ {
		nest = append(nest, 0x81)
	}
	nest = append(nest, 0x00)
	ops["nest40"] = Raw(nest)
	switch v := nd.Val.(type) {
	case []byte:
		// a byte string that starts with a plausible 4-byte big-endian element count (e.g. the encoding of a
		// polynomial): counts c for which c*k wraps around 2^32 for a small element size k, so that a
		// multiplied bound check passes while the allocation does not
		if len(v) >= 8 {
			if c := binary.BigEndian.Uint32(v); c > 0 && int(c) <= len(v) {
				for k := uint64(2); k <= 64; k++ {
					w := (uint64(1)<<32 + k - 1) / k
					m := append([]byte{}, v...)
					binary.BigEndian.PutUint32(m, uint32(w))
					ops[fmt.Sprintf("count-wraps-times-%d", k)] = m
				}
				m := append([]byte{}, v...)
				binary.BigEndian.PutUint32(m, 0xffffffff)
				ops["count-max"] = m
			}
		}
		if len(v) > 0 {
			ops["trunc1"] = append([]byte{}, v[:len(v)-1]...)
			ops["ext1"] = append(append([]byte{}, v...), 0)
			ops["all-zero"] = make([]byte, len(v))
			ops["all-ff"] = bytes.Repeat([]byte{0xff}, len(v))
			// indefinite-length byte string: 0x5f chunk 0xff
			var buf bytes.Buffer
			buf.WriteByte(0x5f)
			head(&buf, 2, uint64(len(v)))
			buf.Write(v)
			buf.WriteByte(0xff)
			ops["indefinite-length"] = Raw(buf.Bytes())
		}
	case []interface{}:
		if len(v) > 0 {
			ops["array-shorter"] = append([]interface{}{}, v[:len(v)-1]...)
			ops["array-longer"] = append(append([]interface{}{}, v...), Clone(v[len(v)-1]))
			// COORDINATED lengths: one element a byte longer, another a byte shorter (the total size is unchanged,
			// so a check of the summed size passes while each element has the wrong length)
			if len(v) >= 2 {
				i, j := len(v)/3, len(v)-1-len(v)/4
				bi, ok1 := v[i].([]byte)
				bj, ok2 := v[j].([]byte)
				if ok1 && ok2 && i != j && len(bj) > 0 {
					w := append([]interface{}{}, v...)
					w[i] = append(append([]byte{}, bi...), 0)
					w[j] = append([]byte{}, bj[:len(bj)-1]...)
					ops["byte-moved-between-elements"] = w
				}
			}
		}
	case map[interface{}]interface{}:
		// duplicated key: re-encode by hand with the first entry repeated
		if len(v) > 0 {
			var buf bytes.Buffer
			enc := Encode(v)
			// find first entry bytes by encoding a one-entry map
			keys := make([]string, 0, len(v))
			byName := map[string]interface{}{}
			orig := map[string]interface{}{}
			for k, val := range v {
				ks := keyStr(k)
				keys = append(keys, ks)
				byName[ks] = val
				orig[ks] = k
			}
			sort.Strings(keys)
			one := Encode(map[interface{}]interface{}{orig[keys[0]]: byName[keys[0]]})
			head(&buf, 5, uint64(len(v)+1))
			// body of enc without its head
			var hb bytes.Buffer
			head(&hb, 5, uint64(len(v)))
			buf.Write(enc[hb.Len():])
			var h1 bytes.Buffer
			head(&h1, 5, 1)
			buf.Write(one[h1.Len():])
			ops["duplicate-key"] = Raw(buf.Bytes())
		}
	}
	return ops
}
