// Package faults is engine C: exhaustive single-fault enumeration.  A message of an honest
// run is decoded into a generic CBOR tree; the catalogue is (every node path) x (operator
// menu); each fault gets a fresh deterministic session in which the man in the middle
// replaces that one message.
package faults

import (
	"bytes"
	"encoding/binary"
	"fmt"
	"math/big"
	"sort"
	"strings"

	"github.com/fxamacker/cbor/v2"
)

// Raw is a node that is emitted verbatim (hand-crafted encodings).
type Raw []byte

// Decode parses CBOR into a generic tree: map[interface{}]interface{}, []interface{}, []byte, string, uint64, int64, bool, nil, float64.
func Decode(b []byte) (interface{}, error) {
	var v interface{}
	dm, _ := cbor.DecOptions{MaxNestedLevels: 64}.DecMode()
	if err := dm.Unmarshal(b, &v); err != nil {
		return nil, err
	}
	return v, nil
}

func head(buf *bytes.Buffer, major byte, n uint64) {
	switch {
	case n < 24:
		buf.WriteByte(major<<5 | byte(n))
	case n < 1<<8:
		buf.WriteByte(major<<5 | 24)
		buf.WriteByte(byte(n))
	case n < 1<<16:
		buf.WriteByte(major<<5 | 25)
		var b [2]byte
		binary.BigEndian.PutUint16(b[:], uint16(n))
		buf.Write(b[:])
	case n < 1<<32:
		buf.WriteByte(major<<5 | 26)
		var b [4]byte
		binary.BigEndian.PutUint32(b[:], uint32(n))
		buf.Write(b[:])
	default:
		buf.WriteByte(major<<5 | 27)
		var b [8]byte
		binary.BigEndian.PutUint64(b[:], n)
		buf.Write(b[:])
	}
}

// Encode serialises a generic tree (map keys in sorted order of their encoding, so that the output is deterministic).
func Encode(v interface{}) []byte {
	var buf bytes.Buffer
	enc(&buf, v)
	return buf.Bytes()
}

func enc(buf *bytes.Buffer, v interface{}) {
	switch x := v.(type) {
	case nil:
		buf.WriteByte(0xf6)
	case Raw:
		buf.Write(x)
	case bool:
		if x {
			buf.WriteByte(0xf5)
		} else {
			buf.WriteByte(0xf4)
		}
	case uint64:
		head(buf, 0, x)
	case int64:
		if x >= 0 {
			head(buf, 0, uint64(x))
		} else {
			head(buf, 1, uint64(-1-x))
		}
	case int:
		enc(buf, int64(x))
	case []byte:
		head(buf, 2, uint64(len(x)))
		buf.Write(x)
	case string:
		head(buf, 3, uint64(len(x)))
		buf.WriteString(x)
	case []interface{}:
		head(buf, 4, uint64(len(x)))
		for _, e := range x {
			enc(buf, e)
		}
	case map[interface{}]interface{}:
		type kv struct {
			k []byte
			v interface{}
		}
		var items []kv
		for k, val := range x {
			var kb bytes.Buffer
			enc(&kb, k)
			items = append(items, kv{kb.Bytes(), val})
		}
		sort.Slice(items, func(i, j int) bool { return bytes.Compare(items[i].k, items[j].k) < 0 })
		head(buf, 5, uint64(len(items)))
		for _, it := range items {
			buf.Write(it.k)
			enc(buf, it.v)
		}
	case float64:
		buf.WriteByte(0xfb)
		var b [8]byte
		binary.BigEndian.PutUint64(b[:], uint64(int64(x)))
		buf.Write(b[:])
	case big.Int:
		encBig(buf, &x)
	case *big.Int:
		encBig(buf, x)
	case cbor.Tag:
		head(buf, 6, x.Number)
		enc(buf, x.Content)
	default:
		panic(fmt.Sprintf("faults.Encode: unsupported %T", v))
	}
}

// encBig writes a CBOR bignum (tag 2 / 3).
func encBig(buf *bytes.Buffer, x *big.Int) {
	if x.Sign() >= 0 {
		head(buf, 6, 2)
		b := x.Bytes()
		head(buf, 2, uint64(len(b)))
		buf.Write(b)
		return
	}
	n := new(big.Int).Neg(x)
	n.Sub(n, big.NewInt(1))
	head(buf, 6, 3)
	b := n.Bytes()
	head(buf, 2, uint64(len(b)))
	buf.Write(b)
}

// Node is one addressable position of a tree.
type Node struct {
	Path string // e.g. /Proof/Z  or /Shares/b  or /Phi/[0]
	Val  interface{}
}

func keyStr(k interface{}) string {
	switch x := k.(type) {
	case string:
		return x
	case []byte:
		return fmt.Sprintf("h:%x", x)
	}
	return fmt.Sprint(k)
}

// Walk lists every node (inner nodes and leaves), root first; arrays longer than 4 are addressed at {0, last} only.
func Walk(v interface{}) []Node {
	var out []Node
	var rec func(path string, v interface{})
	rec = func(path string, v interface{}) {
		out = append(out, Node{path, v})
		switch x := v.(type) {
		case map[interface{}]interface{}:
			keys := make([]string, 0, len(x))
			byName := map[string]interface{}{}
			for k, val := range x {
				ks := keyStr(k)
				keys = append(keys, ks)
				byName[ks] = val
			}
			sort.Strings(keys)
			for _, k := range keys {
				rec(path+"/"+k, byName[k])
			}
		case []interface{}:
			idx := []int{}
			if len(x) <= 4 {
				for i := range x {
					idx = append(idx, i)
				}
			} else {
				idx = []int{0, len(x) - 1}
			}
			for _, i := range idx {
				rec(fmt.Sprintf("%s/[%d]", path, i), x[i])
			}
		}
	}
	rec("", v)
	return out
}

// Clone copies a tree deeply.
func Clone(v interface{}) interface{} {
	switch x := v.(type) {
	case map[interface{}]interface{}:
		m := make(map[interface{}]interface{}, len(x))
		for k, val := range x {
			m[k] = Clone(val)
		}
		return m
	case []interface{}:
		a := make([]interface{}, len(x))
		for i, e := range x {
			a[i] = Clone(e)
		}
		return a
	case []byte:
		return append([]byte{}, x...)
	}
	return v
}

// Get returns the node at path.
func Get(root interface{}, path string) (interface{}, bool) {
	if path == "" {
		return root, true
	}
	cur := root
	for _, seg := range strings.Split(path[1:], "/") {
		switch x := cur.(type) {
		case map[interface{}]interface{}:
			found := false
			for k, v := range x {
				if keyStr(k) == seg {
					cur, found = v, true
					break
				}
			}
			if !found {
				return nil, false
			}
		case []interface{}:
			var i int
			if _, err := fmt.Sscanf(seg, "[%d]", &i); err != nil || i < 0 || i >= len(x) {
				return nil, false
			}
			cur = x[i]
		default:
			return nil, false
		}
	}
	return cur, true
}

// Set returns a copy of root with the node at path replaced by val (del=true: removed from its parent).
func Set(root interface{}, path string, val interface{}, del bool) (interface{}, bool) {
	if path == "" {
		return val, true
	}
	root = Clone(root)
	segs := strings.Split(path[1:], "/")
	cur := root
	var setInParent func(v interface{})
	for si, seg := range segs {
		last := si == len(segs)-1
		switch x := cur.(type) {
		case map[interface{}]interface{}:
			var key interface{}
			found := false
			for k := range x {
				if keyStr(k) == seg {
					key, found = k, true
					break
				}
			}
			if !found {
				return nil, false
			}
			if last {
				if del {
					delete(x, key)
				} else {
					x[key] = val
				}
				return root, true
			}
			cur = x[key]
		case []interface{}:
			var i int
			if _, err := fmt.Sscanf(seg, "[%d]", &i); err != nil || i < 0 || i >= len(x) {
				return nil, false
			}
			if last {
				if del {
					// removing an array element: rebuild the parent slice
					nx := append(append([]interface{}{}, x[:i]...), x[i+1:]...)
					if si == 0 {
						return nx, true
					}
					parentPath := "/" + strings.Join(segs[:si], "/")
					return Set(root, parentPath, nx, false)
				}
				x[i] = val
				return root, true
			}
			cur = x[i]
		default:
			return nil, false
		}
	}
	_ = setInParent
	return root, true
}
