// Package vsched is a cooperative scheduler for stateless exploration of goroutine
// interleavings of real code.  Instrumented code (see /verif/tools/rewrite) calls the
// operations of this package instead of the raw channel / mutex / atomic operations; each
// call parks the calling goroutine until the explorer releases it, so that exactly one
// controlled goroutine runs at a time and every scheduling decision is recorded.
//
// A goroutine that is not registered with a scheduler (the explorer itself, set-up code)
// passes straight through to the real operation.
package vsched

import (
	"fmt"
	"reflect"
	"runtime"
	"sort"
	"strings"
	"sync"
	"sync/atomic"
	"time"
)

type opKind int

const (
	opStart opKind = iota
	opSend
	opRecv
	opClose
	opSelect
	opLock
	opAtomic
	opYield
)

func (k opKind) String() string {
	return [...]string{"start", "send", "recv", "close", "select", "lock", "atomic", "yield"}[k]
}

type selCase struct {
	send bool
	ch   uintptr
	cap  int
	lenf func() int
}

type op struct {
	kind   opKind
	cases  []selCase // send/recv: one case; select: several
	hasDef bool
	lock   interface{}
	where  string
}

const (
	stParked = iota
	stRunning
	stDone
)

type thread struct {
	id       int
	name     string
	s        *Sched
	wake     chan int // value = chosen case index; -2 = abort
	op       *op
	state    int
	aborting bool
	panicVal interface{}
	stack    string
	waitPost bool // receiver half of a rendezvous: must wait for a second token after the real op
}

// Move is one enabled transition.
type Move struct {
	Tid, Case      int
	Partner, PCase int // Partner = -1 for a solo move
}

type Point struct {
	Moves      []Move
	Chosen     int
	Current    int  // thread that ran last
	CurEnabled bool // whether the last-run thread has an enabled move here
}

// Outcome of one execution.
type Outcome struct {
	Choices  []int
	Points   []Point
	Deadlock bool     // some thread not finished and nothing enabled
	Blocked  []string // description of threads still parked at the end
	Panics   []string
	HardErr  string // harness-level problem (uncontrolled blocking, bad prefix)
	Trace    []string
}

type Sched struct {
	mu       sync.Mutex
	threads  []*thread
	events   chan struct{}
	closed   map[uintptr]bool
	locks    map[interface{}]int
	setupG   int64
	verbose  bool
	trace    []string
	watchdog time.Duration
}

var gmap sync.Map // goroutine id -> *thread

func goid() int64 {
	var buf [64]byte
	n := runtime.Stack(buf[:], false)
	// "goroutine 123 ["
	var id int64
	for _, c := range buf[10:n] {
		if c < '0' || c > '9' {
			break
		}
		id = id*10 + int64(c-'0')
	}
	return id
}

func cur() *thread {
	v, ok := gmap.Load(goid())
	if !ok {
		return nil
	}
	return v.(*thread)
}

// New creates a scheduler and registers the calling goroutine as its set-up goroutine:
// operations from it pass through, but `go` statements executed by it create controlled threads.
func New(verbose bool) *Sched {
	s := &Sched{
		events:   make(chan struct{}, 1024),
		closed:   map[uintptr]bool{},
		locks:    map[interface{}]int{},
		verbose:  verbose,
		watchdog: 60 * time.Second,
	}
	s.setupG = goid()
	gmap.Store(s.setupG, &thread{id: -1, s: s, name: "setup"})
	return s
}

func (s *Sched) done() { gmap.Delete(s.setupG) }

// Spawn registers a controlled thread running body; it parks before its first instruction.
func (s *Sched) Spawn(name string, body func()) {
	s.mu.Lock()
	t := &thread{id: len(s.threads), name: name, s: s, wake: make(chan int, 1), state: stRunning}
	s.threads = append(s.threads, t)
	s.mu.Unlock()
	ready := make(chan struct{})
	go func() {
		g := goid()
		gmap.Store(g, t)
		defer func() {
			if r := recover(); r != nil {
				t.panicVal = r
				buf := make([]byte, 8192)
				t.stack = string(buf[:runtime.Stack(buf, false)])
			}
			gmap.Delete(g)
			s.mu.Lock()
			t.state = stDone
			t.op = nil
			s.mu.Unlock()
			s.events <- struct{}{}
		}()
		close(ready)
		t.park(&op{kind: opStart})
		body()
	}()
	<-ready
	// wait for it to park at start
	<-s.events
}

// Go is the rewritten form of a `go` statement.
func Go(body func()) {
	t := cur()
	if t == nil {
		go body()
		return
	}
	t.s.spawnFrom(t, body)
}

func (s *Sched) spawnFrom(parent *thread, body func()) {
	if parent.id == -1 {
		s.Spawn("", body)
		return
	}
	// spawned by a controlled thread: the child parks at start; parent continues.
	s.mu.Lock()
	t := &thread{id: len(s.threads), s: s, wake: make(chan int, 1), state: stRunning}
	s.threads = append(s.threads, t)
	s.mu.Unlock()
	ready := make(chan struct{})
	go func() {
		g := goid()
		gmap.Store(g, t)
		defer func() {
			if r := recover(); r != nil {
				t.panicVal = r
				buf := make([]byte, 8192)
				t.stack = string(buf[:runtime.Stack(buf, false)])
			}
			gmap.Delete(g)
			s.mu.Lock()
			t.state = stDone
			t.op = nil
			s.mu.Unlock()
			s.events <- struct{}{}
		}()
		// park without emitting an event for the initial park: the parent waits for it here
		s.mu.Lock()
		t.op = &op{kind: opStart}
		t.state = stParked
		s.mu.Unlock()
		close(ready)
		c := <-t.wake
		if c == -2 {
			t.aborting = true
			runtime.Goexit()
		}
		body()
	}()
	<-ready
}

func where() string {
	pc := make([]uintptr, 8)
	n := runtime.Callers(3, pc)
	fr := runtime.CallersFrames(pc[:n])
	for {
		f, more := fr.Next()
		if !strings.Contains(f.Function, "/vsched.") {
			fn := f.Function
			if i := strings.LastIndex(fn, "/"); i >= 0 {
				fn = fn[i+1:]
			}
			return fn
		}
		if !more {
			break
		}
	}
	return "?"
}

// park publishes the pending operation and blocks until released; returns chosen case.
func (t *thread) park(o *op) int {
	s := t.s
	o.where = where()
	s.mu.Lock()
	t.op = o
	t.state = stParked
	s.mu.Unlock()
	s.events <- struct{}{}
	c := <-t.wake
	if c == -2 {
		t.aborting = true
		runtime.Goexit()
	}
	return c
}

// postRecv is called by the receiving half of a rendezvous after the real operation: it
// waits until the scheduler lets it continue (after the sender has parked again).
func (t *thread) post() {
	if t.waitPost {
		t.waitPost = false
		c := <-t.wake
		if c == -2 {
			t.aborting = true
			runtime.Goexit()
		}
	}
}

func chKey(ch interface{}) uintptr { return reflect.ValueOf(ch).Pointer() }

// ---- instrumented operations -------------------------------------------------------------

func Send[T any](ch chan<- T, v T) {
	t := cur()
	if t == nil || t.id == -1 || t.aborting {
		if t != nil && t.aborting {
			return
		}
		ch <- v
		return
	}
	t.park(&op{kind: opSend, cases: []selCase{{send: true, ch: chKey(ch), cap: cap(ch), lenf: func() int { return len(ch) }}}})
	ch <- v
	t.post()
}

func Recv[T any](ch <-chan T) T {
	v, _ := Recv2(ch)
	return v
}

func Recv2[T any](ch <-chan T) (T, bool) {
	t := cur()
	if t == nil || t.id == -1 || t.aborting {
		if t != nil && t.aborting {
			var z T
			return z, false
		}
		v, ok := <-ch
		return v, ok
	}
	t.park(&op{kind: opRecv, cases: []selCase{{send: false, ch: chKey(ch), cap: cap(ch), lenf: func() int { return len(ch) }}}})
	v, ok := <-ch
	t.post()
	return v, ok
}

func Close[T any](ch chan T) {
	t := cur()
	if t == nil {
		close(ch)
		return
	}
	if t.aborting {
		return
	}
	if t.id != -1 {
		t.park(&op{kind: opClose, cases: []selCase{{ch: chKey(ch)}}})
	}
	t.s.mu.Lock()
	t.s.closed[chKey(ch)] = true
	t.s.mu.Unlock()
	close(ch)
}

// Case describes one communication clause of a select statement.
type Case struct {
	c selCase
}

func SendCase[T any](ch chan<- T) Case {
	return Case{selCase{send: true, ch: chKey(ch), cap: cap(ch), lenf: func() int { return len(ch) }}}
}
func RecvCase[T any](ch <-chan T) Case {
	return Case{selCase{send: false, ch: chKey(ch), cap: cap(ch), lenf: func() int { return len(ch) }}}
}

// Select parks on a select statement and returns the index of the clause to execute
// (-1 = default).  In pass-through mode it returns -3: the caller then runs the real select.
func Select(hasDefault bool, cases ...Case) int {
	t := cur()
	if t == nil || t.id == -1 {
		return -3
	}
	if t.aborting {
		runtime.Goexit()
	}
	cs := make([]selCase, len(cases))
	for i, c := range cases {
		cs[i] = c.c
	}
	return t.park(&op{kind: opSelect, cases: cs, hasDef: hasDefault})
}

// DoSend / DoRecv2 perform the operation of the clause chosen by Select (no further parking).
func DoSend[T any](ch chan<- T, v T) {
	ch <- v
	if t := cur(); t != nil {
		t.post()
	}
}
func DoRecv2[T any](ch <-chan T) (T, bool) {
	v, ok := <-ch
	if t := cur(); t != nil {
		t.post()
	}
	return v, ok
}

func locker(p interface{}) sync.Locker {
	if l, ok := p.(sync.Locker); ok {
		return l
	}
	// pointer to a pointer
	v := reflect.ValueOf(p)
	if v.Kind() == reflect.Ptr {
		if l, ok := v.Elem().Interface().(sync.Locker); ok {
			return l
		}
	}
	panic(fmt.Sprintf("vsched: %T is not a Locker", p))
}

func Lock(p interface{}) {
	l := locker(p)
	t := cur()
	if t == nil {
		l.Lock()
		return
	}
	if t.aborting {
		return
	}
	if t.id != -1 {
		t.park(&op{kind: opLock, lock: l})
	}
	t.s.mu.Lock()
	t.s.locks[l] = t.id + 2
	t.s.mu.Unlock()
	l.Lock()
}

// UnlockIsPoint makes every Unlock a scheduling point (the thread parks while still holding the
// lock).  With blocking Lock only, nobody can observe a held lock except by not being enabled, so
// the point adds no behaviour and is left out; code that uses TryLock CAN observe it, and the
// rewriter switches this on when the instrumented files contain a TryLock.
var UnlockIsPoint bool

// TryLock is a scheduling point that is always enabled; it then takes the lock iff it is free.
func TryLock(p interface{}) bool {
	l := locker(p)
	t := cur()
	if t == nil {
		return l.(interface{ TryLock() bool }).TryLock()
	}
	if t.aborting {
		return false
	}
	if t.id != -1 {
		t.park(&op{kind: opYield})
	}
	t.s.mu.Lock()
	_, held := t.s.locks[l]
	if !held {
		t.s.locks[l] = t.id + 2
	}
	t.s.mu.Unlock()
	if held {
		return false
	}
	l.Lock()
	return true
}

func Unlock(p interface{}) {
	l := locker(p)
	t := cur()
	if t == nil {
		l.Unlock()
		return
	}
	if t.aborting {
		return
	}
	if UnlockIsPoint && t.id != -1 {
		t.park(&op{kind: opYield})
		if t.aborting {
			return
		}
	}
	t.s.mu.Lock()
	delete(t.s.locks, l)
	t.s.mu.Unlock()
	l.Unlock()
}

func atomicPoint() {
	t := cur()
	if t == nil || t.id == -1 {
		return
	}
	if t.aborting {
		runtime.Goexit()
	}
	t.park(&op{kind: opAtomic})
}

func LoadInt64(p *int64) int64             { atomicPoint(); return atomic.LoadInt64(p) }
func AddInt64(p *int64, d int64) int64     { atomicPoint(); return atomic.AddInt64(p, d) }
func StoreInt64(p *int64, v int64)         { atomicPoint(); atomic.StoreInt64(p, v) }
func LoadInt32(p *int32) int32             { atomicPoint(); return atomic.LoadInt32(p) }
func AddInt32(p *int32, d int32) int32     { atomicPoint(); return atomic.AddInt32(p, d) }
func StoreInt32(p *int32, v int32)         { atomicPoint(); atomic.StoreInt32(p, v) }
func LoadUint32(p *uint32) uint32          { atomicPoint(); return atomic.LoadUint32(p) }
func AddUint32(p *uint32, d uint32) uint32 { atomicPoint(); return atomic.AddUint32(p, d) }
func StoreUint32(p *uint32, v uint32)      { atomicPoint(); atomic.StoreUint32(p, v) }
func LoadUint64(p *uint64) uint64          { atomicPoint(); return atomic.LoadUint64(p) }
func AddUint64(p *uint64, d uint64) uint64 { atomicPoint(); return atomic.AddUint64(p, d) }
func StoreUint64(p *uint64, v uint64)      { atomicPoint(); atomic.StoreUint64(p, v) }
func CompareAndSwapInt64(p *int64, o, n int64) bool {
	atomicPoint()
	return atomic.CompareAndSwapInt64(p, o, n)
}
func CompareAndSwapInt32(p *int32, o, n int32) bool {
	atomicPoint()
	return atomic.CompareAndSwapInt32(p, o, n)
}
func CompareAndSwapUint32(p *uint32, o, n uint32) bool {
	atomicPoint()
	return atomic.CompareAndSwapUint32(p, o, n)
}
func SwapInt64(p *int64, n int64) int64 { atomicPoint(); return atomic.SwapInt64(p, n) }
func SwapInt32(p *int32, n int32) int32 { atomicPoint(); return atomic.SwapInt32(p, n) }

// Yield is an explicit scheduling point for harness loops.
func Yield() {
	t := cur()
	if t == nil || t.id == -1 {
		runtime.Gosched()
		return
	}
	if t.aborting {
		runtime.Goexit()
	}
	t.park(&op{kind: opYield})
}

// ---- the scheduler proper ------------------------------------------------------------------

func (s *Sched) caseEnabled(t *thread, ci int) (solo bool, partners []Move) {
	c := t.op.cases[ci]
	closed := s.closed[c.ch]
	if c.send {
		if closed {
			return true, nil // will panic: that is an outcome
		}
		if c.cap > 0 {
			return c.lenf() < c.cap, nil
		}
		// unbuffered: need a parked receiver on the same channel
		for _, u := range s.threads {
			if u == t || u.state != stParked || u.op == nil {
				continue
			}
			if u.op.kind != opRecv && u.op.kind != opSelect {
				continue
			}
			for ui, uc := range u.op.cases {
				if !uc.send && uc.ch == c.ch {
					partners = append(partners, Move{Tid: t.id, Case: ci, Partner: u.id, PCase: ui})
				}
			}
		}
		return false, partners
	}
	// receive
	if closed || c.lenf() > 0 {
		return true, nil
	}
	if c.cap > 0 {
		return false, nil
	}
	for _, u := range s.threads {
		if u == t || u.state != stParked || u.op == nil {
			continue
		}
		if u.op.kind != opSend && u.op.kind != opSelect {
			continue
		}
		for ui, uc := range u.op.cases {
			if uc.send && uc.ch == c.ch {
				partners = append(partners, Move{Tid: t.id, Case: ci, Partner: u.id, PCase: ui})
			}
		}
	}
	return false, partners
}

func (s *Sched) threadMoves(t *thread) []Move {
	if t.state != stParked || t.op == nil {
		return nil
	}
	o := t.op
	switch o.kind {
	case opStart, opClose, opAtomic, opYield:
		return []Move{{Tid: t.id, Case: 0, Partner: -1}}
	case opLock:
		if _, held := s.locks[o.lock]; held {
			return nil
		}
		return []Move{{Tid: t.id, Case: 0, Partner: -1}}
	case opSend, opRecv, opSelect:
		var ms []Move
		for ci := range o.cases {
			solo, partners := s.caseEnabled(t, ci)
			if solo {
				ms = append(ms, Move{Tid: t.id, Case: ci, Partner: -1})
			}
			ms = append(ms, partners...)
		}
		if len(ms) == 0 && o.kind == opSelect && o.hasDef {
			ms = append(ms, Move{Tid: t.id, Case: -1, Partner: -1})
		}
		return ms
	}
	return nil
}

func pairKey(m Move) [4]int {
	if m.Partner < 0 {
		return [4]int{m.Tid, m.Case, -1, 0}
	}
	if m.Tid < m.Partner {
		return [4]int{m.Tid, m.Case, m.Partner, m.PCase}
	}
	return [4]int{m.Partner, m.PCase, m.Tid, m.Case}
}

// moves returns all enabled moves in canonical order: those of the last-run thread first,
// then by ascending thread id; a rendezvous pair is listed once.
func (s *Sched) moves(current int) (ms []Move, curEnabled bool) {
	order := make([]*thread, 0, len(s.threads))
	if current >= 0 && current < len(s.threads) {
		order = append(order, s.threads[current])
	}
	for _, t := range s.threads {
		if t.id != current {
			order = append(order, t)
		}
	}
	seen := map[[4]int]bool{}
	for i, t := range order {
		tm := s.threadMoves(t)
		if i == 0 && t.id == current && len(tm) > 0 {
			curEnabled = true
		}
		for _, m := range tm {
			k := pairKey(m)
			if seen[k] {
				continue
			}
			seen[k] = true
			ms = append(ms, m)
		}
	}
	return
}

func (s *Sched) waitQuiescent(n int) bool {
	timer := time.NewTimer(s.watchdog)
	defer timer.Stop()
	for i := 0; i < n; i++ {
		select {
		case <-s.events:
		case <-timer.C:
			return false
		}
	}
	return true
}

func (s *Sched) describe(t *thread) string {
	if t.op == nil {
		return fmt.Sprintf("T%d(%s):?", t.id, t.name)
	}
	return fmt.Sprintf("T%d:%s@%s", t.id, t.op.kind, t.op.where)
}

// Explore runs the spawned threads to completion following prefix, then choice 0.
func (s *Sched) Explore(prefix []int) *Outcome {
	out := &Outcome{}
	current := -1
	defer s.done()
	for step := 0; ; step++ {
		s.mu.Lock()
		ms, curEnabled := s.moves(current)
		s.mu.Unlock()
		if len(ms) == 0 {
			break
		}
		choice := 0
		if step < len(prefix) {
			choice = prefix[step]
			if choice >= len(ms) {
				out.HardErr = fmt.Sprintf("prefix diverged at step %d: choice %d of %d moves", step, choice, len(ms))
				break
			}
		}
		out.Choices = append(out.Choices, choice)
		out.Points = append(out.Points, Point{Moves: ms, Chosen: choice, Current: current, CurEnabled: curEnabled})
		m := ms[choice]
		if s.verbose {
			s.mu.Lock()
			d := s.describe(s.threads[m.Tid])
			if m.Partner >= 0 {
				d += " <-> " + s.describe(s.threads[m.Partner])
			}
			s.mu.Unlock()
			out.Trace = append(out.Trace, fmt.Sprintf("%d: %s case %d (of %d moves)", step, d, m.Case, len(ms)))
		}
		if m.Partner < 0 {
			t := s.threads[m.Tid]
			s.mu.Lock()
			t.state = stRunning
			s.mu.Unlock()
			t.wake <- m.Case
			if !s.waitQuiescent(1) {
				out.HardErr = "uncontrolled blocking: thread did not reach its next scheduling point: " + s.describe(t)
				return out
			}
			current = t.id
		} else {
			// rendezvous: identify sender and receiver
			a, b := s.threads[m.Tid], s.threads[m.Partner]
			ac, bc := m.Case, m.PCase
			snd, rcv, sc, rc := a, b, ac, bc
			if !a.op.cases[ac].send {
				snd, rcv, sc, rc = b, a, bc, ac
			}
			s.mu.Lock()
			snd.state = stRunning
			rcv.state = stRunning
			rcv.waitPost = true
			s.mu.Unlock()
			rcv.wake <- rc
			snd.wake <- sc
			if !s.waitQuiescent(1) { // sender parks again (receiver is held in post)
				out.HardErr = "uncontrolled blocking after rendezvous (sender): " + s.describe(snd)
				return out
			}
			rcv.wake <- 0
			if !s.waitQuiescent(1) {
				out.HardErr = "uncontrolled blocking after rendezvous (receiver): " + s.describe(rcv)
				return out
			}
			current = rcv.id
		}
	}
	// end of execution
	s.mu.Lock()
	for _, t := range s.threads {
		if t.panicVal != nil {
			out.Panics = append(out.Panics, fmt.Sprintf("T%d(%s): %v", t.id, t.name, t.panicVal))
		}
		if t.state != stDone {
			out.Deadlock = true
			out.Blocked = append(out.Blocked, s.describe(t))
		}
	}
	blocked := []*thread{}
	for _, t := range s.threads {
		if t.state == stParked {
			blocked = append(blocked, t)
		}
	}
	s.mu.Unlock()
	sort.Strings(out.Blocked)
	for _, t := range blocked {
		t.wake <- -2
		s.waitQuiescent(1)
	}
	return out
}

// Threads returns the number of threads registered so far.
func (s *Sched) Threads() int { s.mu.Lock(); defer s.mu.Unlock(); return len(s.threads) }

// PanicStacks returns the stacks of panicked threads (for reports).
func (s *Sched) PanicStacks() []string {
	var r []string
	for _, t := range s.threads {
		if t.panicVal != nil {
			r = append(r, t.stack)
		}
	}
	return r
}
