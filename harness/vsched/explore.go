package vsched

import (
	"fmt"
	"sort"
	"sync"
	"time"
)

// Verdict is what a harness reports for one complete execution.
type Verdict struct {
	Outcome    string   // canonical description of what was observed (for the distinct-outcome count)
	Violations []string // violation signatures (empty = property held on this execution)
	Detail     string
}

// Harness builds a fresh instance of the system under a fresh scheduler, spawns the
// controlled threads and returns the function judging the finished execution.
type Harness func(s *Sched) func(o *Outcome) Verdict

type Found struct {
	Sig     string
	Detail  string
	Choices []int
	Preempt int
	Count   int64
	Trace   []string
}

type Stats struct {
	Scenario      string
	Bound         int // -1 = unbounded
	Executions    int64
	Points        int64
	MaxDepth      int
	MaxThreads    int
	Outcomes      map[string]int64
	Found         map[string]*Found
	HardErrs      []string
	Complete      bool // false if a cap (executions/time) stopped the search
	Deterministic bool
	WallS         float64
}

func moveCost(p Point, choice int) int {
	if !p.CurEnabled {
		return 0
	}
	m := p.Moves[choice]
	if m.Tid == p.Current || m.Partner == p.Current {
		return 0
	}
	return 1
}

type work struct {
	prefix []int
}

// RunOne runs a single execution with the given prefix.
func RunOne(h Harness, prefix []int, verbose bool) (*Outcome, Verdict) {
	s := New(verbose)
	judge := h(s)
	o := s.Explore(prefix)
	var v Verdict
	if o.HardErr == "" {
		v = judge(o)
	}
	return o, v
}

// ExploreAll explores every execution of h with at most `bound` preemptions (bound<0: all).
//
// Sharding: every process expands the tree breadth-first (deterministically) until the
// frontier holds at least `split` unexplored subtrees; the executions of that expansion are
// counted by shard 0 only, and shard i then explores the frontier subtrees j with j%n==i.
func ExploreAll(name string, h Harness, bound int, shardI, shardN int, maxExec int64, deadline time.Time) *Stats {
	workers := 1
	split := 0
	if shardN > 1 {
		split = shardN * 12
	}
	st := &Stats{Scenario: name, Bound: bound, Outcomes: map[string]int64{}, Found: map[string]*Found{}, Complete: true, Deterministic: true}
	t0 := time.Now()
	var mu sync.Mutex
	cond := sync.NewCond(&mu)
	stack := []work{{prefix: nil}}
	active := 0
	stop := false

	// determinism check: the default execution twice
	{
		o1, v1 := RunOne(h, nil, false)
		o2, v2 := RunOne(h, nil, false)
		if fmt.Sprint(o1.Choices, o1.Blocked, o1.Panics, v1.Outcome) != fmt.Sprint(o2.Choices, o2.Blocked, o2.Panics, v2.Outcome) || len(o1.Points) != len(o2.Points) {
			st.Deterministic = false
			st.HardErrs = append(st.HardErrs, "replay of the default schedule gave different observations")
			st.Complete = false
			return st
		}
	}

	expand := func(w work) (*Outcome, Verdict, []work) {
		o, v := RunOne(h, w.prefix, false)
		var children []work
		if o.HardErr == "" {
			pre := 0
			for i := 0; i < len(o.Points); i++ {
				p := o.Points[i]
				if i >= len(w.prefix) {
					for alt := 1; alt < len(p.Moves); alt++ {
						c := pre + moveCost(p, alt)
						if bound >= 0 && c > bound {
							continue
						}
						np := make([]int, i+1)
						copy(np, o.Choices[:i])
						np[i] = alt
						children = append(children, work{prefix: np})
					}
				}
				pre += moveCost(p, p.Chosen)
			}
		}
		return o, v, children
	}
	record := func(w work, o *Outcome, v Verdict) {
		st.Executions++
		st.Points += int64(len(o.Points))
		if len(o.Points) > st.MaxDepth {
			st.MaxDepth = len(o.Points)
		}
		if o.HardErr != "" {
			st.HardErrs = append(st.HardErrs, fmt.Sprintf("%s (prefix %v)", o.HardErr, w.prefix))
			st.Complete = false
			stop = true
			return
		}
		st.Outcomes[v.Outcome]++
		for _, sig := range v.Violations {
			f := st.Found[sig]
			pre := 0
			for _, p := range o.Points {
				pre += moveCost(p, p.Chosen)
			}
			if f == nil {
				f = &Found{Sig: sig, Detail: v.Detail, Choices: append([]int{}, o.Choices...), Preempt: pre}
				st.Found[sig] = f
			} else if pre < f.Preempt || (pre == f.Preempt && len(o.Choices) < len(f.Choices)) {
				f.Detail, f.Choices, f.Preempt = v.Detail, append([]int{}, o.Choices...), pre
			}
			f.Count++
		}
	}
	if split > 0 {
		queue := stack
		stack = nil
		for len(queue) > 0 && len(queue) < split && !stop {
			w := queue[0]
			queue = queue[1:]
			o, v, ch := expand(w)
			if shardI == 0 {
				record(w, o, v)
			} else if o.HardErr != "" {
				stop = true
			}
			queue = append(queue, ch...)
		}
		for j := len(queue) - 1; j >= 0; j-- {
			if j%shardN == shardI {
				stack = append(stack, queue[j])
			}
		}
	}

	worker := func() {
		for {
			mu.Lock()
			for len(stack) == 0 && active > 0 && !stop {
				cond.Wait()
			}
			if stop || (len(stack) == 0 && active == 0) {
				mu.Unlock()
				cond.Broadcast()
				return
			}
			w := stack[len(stack)-1]
			stack = stack[:len(stack)-1]
			active++
			mu.Unlock()

			o, v, children := expand(w)

			mu.Lock()
			active--
			record(w, o, v)
			if o.HardErr == "" {
				// push children in reverse so that the lowest alternative is explored first
				for i := len(children) - 1; i >= 0; i-- {
					stack = append(stack, children[i])
				}
			}
			if maxExec > 0 && st.Executions >= maxExec && (len(stack) > 0 || active > 0) {
				st.Complete = false
				stop = true
			}
			if !deadline.IsZero() && time.Now().After(deadline) && (len(stack) > 0 || active > 0) {
				st.Complete = false
				stop = true
			}
			mu.Unlock()
			cond.Broadcast()
		}
	}
	var wg sync.WaitGroup
	for i := 0; i < workers; i++ {
		wg.Add(1)
		go func() { defer wg.Done(); worker() }()
	}
	wg.Wait()
	// attach verbose traces to the representative of each violation (and check it replays)
	sigs := make([]string, 0, len(st.Found))
	for s := range st.Found {
		sigs = append(sigs, s)
	}
	sort.Strings(sigs)
	for _, sig := range sigs {
		f := st.Found[sig]
		for rep := 0; rep < 3; rep++ {
			o, v := RunOne(h, f.Choices, true)
			ok := false
			for _, s2 := range v.Violations {
				if s2 == sig {
					ok = true
				}
			}
			if !ok {
				st.HardErrs = append(st.HardErrs, fmt.Sprintf("violation %q did not replay (attempt %d): %s", sig, rep, o.HardErr))
				st.Deterministic = false
			}
			f.Trace = o.Trace
			if v.Detail != "" {
				f.Detail = v.Detail
			}
		}
	}
	st.WallS = time.Since(t0).Seconds()
	return st
}
