// Package kmat produces (and caches per process) real key material for the checks that need
// sessions of signing / refresh protocols: it runs the repository's own key generation
// through the deterministic driver.
package kmat

import (
	"fmt"
	"sync"

	"github.com/fxamacker/cbor/v2"
	"github.com/taurusgroup/multi-party-sig/internal/zzverif/sess"
	"github.com/taurusgroup/multi-party-sig/pkg/ecdsa"
	"github.com/taurusgroup/multi-party-sig/pkg/party"
	"github.com/taurusgroup/multi-party-sig/protocols/cmp"
	"github.com/taurusgroup/multi-party-sig/protocols/doerner"
	"github.com/taurusgroup/multi-party-sig/protocols/frost"
)

var IDs = []party.ID{"a", "b", "c", "d", "e"}

var mu sync.Mutex
var cache = map[string]interface{}{}

func memo(key string, f func() (interface{}, error)) (interface{}, error) {
	mu.Lock()
	defer mu.Unlock()
	if v, ok := cache[key]; ok {
		return v, nil
	}
	v, err := f()
	if err != nil {
		return nil, err
	}
	cache[key] = v
	return v, nil
}

func nomemo(f func() (interface{}, error)) (interface{}, error) { return f() }

func fail(name string, o *sess.Outcome) error {
	return fmt.Errorf("%s failed: errors=%v start=%v panic=%q hung=%q stuck=%v", name, o.Errors, o.StartErr, o.Panic, o.Hung, o.Stuck)
}

// Frost returns FRESH objects on every call (deterministically the same values): the library's
// refresh modifies the configuration objects it is given, so key material must never be shared
// between sessions of a check.
func Frost(n, t int) (map[party.ID]*frost.Config, error) {
	v, err := nomemo(func() (interface{}, error) {
		o := sess.Run(sess.FrostKeygen(IDs[:n], t, false), 1, "kmat")
		out := map[party.ID]*frost.Config{}
		for _, id := range IDs[:n] {
			c, ok := o.Results[id].(*frost.Config)
			if !ok {
				return nil, fail("frost keygen", o)
			}
			out[id] = c
		}
		return out, nil
	})
	if err != nil {
		return nil, err
	}
	return v.(map[party.ID]*frost.Config), nil
}

func Taproot(n, t int) (map[party.ID]*frost.TaprootConfig, error) {
	v, err := nomemo(func() (interface{}, error) {
		o := sess.Run(sess.FrostKeygen(IDs[:n], t, true), 1, "kmat")
		out := map[party.ID]*frost.TaprootConfig{}
		for _, id := range IDs[:n] {
			c, ok := o.Results[id].(*frost.TaprootConfig)
			if !ok {
				return nil, fail("frost taproot keygen", o)
			}
			out[id] = c
		}
		return out, nil
	})
	if err != nil {
		return nil, err
	}
	return v.(map[party.ID]*frost.TaprootConfig), nil
}

// CMP returns fresh copies (decoded from the cached serialisation) on every call.
func CMP(n, t int) (map[party.ID]*cmp.Config, error) {
	v, err := memo(fmt.Sprintf("cmp/%d/%d", n, t), func() (interface{}, error) {
		o := sess.Run(sess.CMPKeygen(IDs[:n], t), 1, "kmat")
		out := map[party.ID][]byte{}
		for _, id := range IDs[:n] {
			c, ok := o.Results[id].(*cmp.Config)
			if !ok {
				return nil, fail("cmp keygen", o)
			}
			b, err := c.MarshalBinary()
			if err != nil {
				return nil, err
			}
			out[id] = b
		}
		return out, nil
	})
	if err != nil {
		return nil, err
	}
	out := map[party.ID]*cmp.Config{}
	for id, b := range v.(map[party.ID][]byte) {
		c := cmp.EmptyConfig(sess.Group)
		if err := c.UnmarshalBinary(b); err != nil {
			return nil, err
		}
		out[id] = c
	}
	return out, nil
}

// CMPPresigs returns presignatures of all n parties (signers = all).
func CMPPresigs(n, t int) (map[party.ID]*ecdsa.PreSignature, error) {
	cfg, err := CMP(n, t) // outside memo: the mutex is not re-entrant
	if err != nil {
		return nil, err
	}
	v, err := memo(fmt.Sprintf("cmp-presig/%d/%d", n, t), func() (interface{}, error) {
		o := sess.Run(sess.CMPPresign(cfg, IDs[:n]), 1, "kmat")
		out := map[party.ID][]byte{}
		for _, id := range IDs[:n] {
			c, ok := o.Results[id].(*ecdsa.PreSignature)
			if !ok {
				return nil, fail("cmp presign", o)
			}
			b, err := cbor.Marshal(c)
			if err != nil {
				return nil, err
			}
			out[id] = b
		}
		return out, nil
	})
	if err != nil {
		return nil, err
	}
	out := map[party.ID]*ecdsa.PreSignature{}
	for id, b := range v.(map[party.ID][]byte) {
		p := ecdsa.EmptyPreSignature(sess.Group)
		if err := cbor.Unmarshal(b, p); err != nil {
			return nil, err
		}
		out[id] = p
	}
	return out, nil
}

type DoernerKeys struct {
	R *doerner.ConfigReceiver
	S *doerner.ConfigSender
}

func Doerner() (*DoernerKeys, error) {
	v, err := nomemo(func() (interface{}, error) {
		o := sess.Run(sess.DoernerKeygen("a", "b"), 1, "kmat")
		r, ok1 := o.Results["a"].(*doerner.ConfigReceiver)
		s, ok2 := o.Results["b"].(*doerner.ConfigSender)
		if !ok1 || !ok2 {
			return nil, fail("doerner keygen", o)
		}
		return &DoernerKeys{r, s}, nil
	})
	if err != nil {
		return nil, err
	}
	return v.(*DoernerKeys), nil
}
