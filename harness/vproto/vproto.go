// Package vproto is a deterministic mini-protocol written against internal/round, used to
// explore the message handlers (pkg/protocol) exhaustively.  Payloads are hashes of
// everything the party has received so far, so any lost, doubly processed or misattributed
// message changes every later payload and the result.  Broadcast payloads are otherwise
// unconstrained (32 bytes), so only the handler's echo mechanism can catch an equivocation.
//
// A protocol instance is described by a spec string: one letter per message round
// (rounds 2..R):  B = reliable broadcast only, X = broadcast + p2p whose verification needs
// the same sender's broadcast, P = p2p only, A = one unreliable to-all message (To == ""),
// N / Y = like B / X but the broadcast content declares itself "normal" instead of reliable.
package vproto

import (
	"bytes"
	"crypto/rand"
	"crypto/sha256"
	"errors"
	"fmt"
	"github.com/taurusgroup/multi-party-sig/pkg/hash"
	"sort"

	"github.com/taurusgroup/multi-party-sig/internal/round"
	"github.com/taurusgroup/multi-party-sig/pkg/party"
	"github.com/taurusgroup/multi-party-sig/pkg/protocol"
)

type Result struct {
	View []byte // hash over all broadcast payloads of all rounds, by round and party order
	Full []byte // hash over everything this party received
}

type Msg struct {
	Nr      uint16
	Payload []byte
}

func (m *Msg) RoundNumber() round.Number { return round.Number(m.Nr) }

type BMsg struct {
	round.ReliableBroadcastContent
	Nr      uint16
	Payload []byte
}

func (m *BMsg) RoundNumber() round.Number { return round.Number(m.Nr) }

// BMsgN is a broadcast whose content type declares itself "normal" (not reliable), as several
// CMP rounds do; the handler is expected to echo-check it all the same.
type BMsgN struct {
	round.NormalBroadcastContent
	Nr      uint16
	Payload []byte
}

func (m *BMsgN) RoundNumber() round.Number { return round.Number(m.Nr) }

func H(parts ...[]byte) []byte {
	h := sha256.New()
	for _, p := range parts {
		var l [4]byte
		l[0], l[1], l[2], l[3] = byte(len(p)>>24), byte(len(p)>>16), byte(len(p)>>8), byte(len(p))
		h.Write(l[:])
		h.Write(p)
	}
	return h.Sum(nil)
}

// state shared by the rounds of one party
type core struct {
	*round.Helper
	spec  string
	k     int    // this round's number (1..R), R = len(spec)+1
	acc   []byte // hash of everything received before this round (and the party's seed)
	view  []byte // hash of all broadcast payloads before this round
	myB   []byte // own broadcast payload for this round (nil if none)
	recvB map[party.ID][]byte
	recvP map[party.ID][]byte
}

// kind of messages that round k receives
func (c *core) kind() byte {
	if c.k < 2 {
		return 0
	}
	return c.spec[c.k-2]
}

// RndP is a round that expects no broadcast; RndB one that does.
type RndP struct{ core }
type RndB struct{ RndP }

func (r *RndP) Number() round.Number { return round.Number(r.k) }

func (r *RndP) MessageContent() round.Content {
	switch r.kind() {
	case 'X', 'Y', 'P', 'A':
		return &Msg{}
	}
	return nil
}

func (r *RndB) BroadcastContent() round.BroadcastContent {
	if k := r.kind(); k == 'N' || k == 'Y' {
		return &BMsgN{}
	}
	return &BMsg{}
}

func (r *RndB) StoreBroadcastMessage(msg round.Message) error {
	var b *BMsg
	switch c := msg.Content.(type) {
	case *BMsg:
		b = c
	case *BMsgN:
		if c != nil {
			b = &BMsg{Nr: c.Nr, Payload: c.Payload}
		}
	}
	if b == nil {
		return round.ErrInvalidContent
	}
	if len(b.Payload) != 32 {
		return errors.New("vproto: broadcast payload must be 32 bytes")
	}
	if _, dup := r.recvB[msg.From]; dup {
		return fmt.Errorf("vproto: broadcast of %s processed twice", msg.From)
	}
	r.recvB[msg.From] = b.Payload
	return nil
}

func (r *RndP) VerifyMessage(msg round.Message) error {
	m, ok := msg.Content.(*Msg)
	if !ok || m == nil {
		return round.ErrInvalidContent
	}
	if len(m.Payload) != 32 {
		return errors.New("vproto: payload must be 32 bytes")
	}
	switch r.kind() {
	case 'X', 'Y':
		b, ok := r.recvB[msg.From]
		if !ok {
			return fmt.Errorf("vproto: p2p message of %s verified before its broadcast", msg.From)
		}
		if !bytes.Equal(m.Payload, H([]byte("p2p"), b, []byte(msg.From), []byte(r.SelfID()))) {
			return fmt.Errorf("vproto: p2p message of %s not bound to its broadcast", msg.From)
		}
	case 'P':
		if msg.To != r.SelfID() {
			return fmt.Errorf("vproto: p2p message addressed to %q", msg.To)
		}
	case 'A':
	default:
		return errors.New("vproto: no message expected in this round")
	}
	return nil
}

func (r *RndP) StoreMessage(msg round.Message) error {
	m := msg.Content.(*Msg)
	if _, dup := r.recvP[msg.From]; dup {
		return fmt.Errorf("vproto: message of %s processed twice", msg.From)
	}
	r.recvP[msg.From] = m.Payload
	return nil
}

func (r *RndP) Finalize(out chan<- *round.Message) (round.Session, error) {
	// a round that received 'U' broadcasts folds them into the session's hash state when it is left - as the CMP
	// key generation does with the rid: whatever the handler derives from the session hash for THIS round
	// (the echo of its broadcasts) must have been derived before
	if r.kind() == 'U' {
		vp := [][]byte{[]byte("U"), {byte(r.k)}}
		for _, id := range r.PartyIDs() {
			b := r.recvB[id]
			if id == r.SelfID() {
				b = r.myB
			}
			vp = append(vp, []byte(id), b)
		}
		r.UpdateHashState(&hash.BytesWithDomain{TheDomain: "vproto U view", Bytes: H(vp...)})
	}
	// fold what this round received
	parts := [][]byte{[]byte("acc"), r.acc, {byte(r.k)}}
	vparts := [][]byte{[]byte("view"), r.view, {byte(r.k)}}
	for _, id := range r.PartyIDs() {
		var b []byte
		if id == r.SelfID() {
			b = r.myB
		} else {
			b = r.recvB[id]
		}
		parts = append(parts, []byte(id), b, r.recvP[id])
		vparts = append(vparts, []byte(id), b)
	}
	acc, view := H(parts...), H(vparts...)
	R := len(r.spec) + 1
	if r.k == R {
		return r.ResultRound(&Result{View: view, Full: acc}), nil
	}
	next := core{Helper: r.Helper, spec: r.spec, k: r.k + 1, acc: acc, view: view,
		recvB: map[party.ID][]byte{}, recvP: map[party.ID][]byte{}}
	nr := uint16(r.k + 1)
	kind := r.spec[r.k-1]
	self := []byte(r.SelfID())
	switch kind {
	case 'B', 'X', 'N', 'Y', 'U':
		next.myB = H([]byte("bc"), self, []byte{byte(nr)}, acc)
		var bc round.BroadcastContent = &BMsg{Nr: nr, Payload: next.myB}
		if kind == 'N' || kind == 'Y' {
			bc = &BMsgN{Nr: nr, Payload: next.myB}
		}
		if err := r.BroadcastMessage(out, bc); err != nil {
			return r, err
		}
		if kind == 'X' || kind == 'Y' {
			for _, id := range r.OtherPartyIDs() {
				if err := r.SendMessage(out, &Msg{Nr: nr, Payload: H([]byte("p2p"), next.myB, self, []byte(id))}, id); err != nil {
					return r, err
				}
			}
		}
	case 'P':
		for _, id := range r.OtherPartyIDs() {
			if err := r.SendMessage(out, &Msg{Nr: nr, Payload: H([]byte("pp"), self, []byte(id), []byte{byte(nr)}, acc)}, id); err != nil {
				return r, err
			}
		}
	case 'A':
		if err := r.SendMessage(out, &Msg{Nr: nr, Payload: H([]byte("all"), self, []byte{byte(nr)}, acc)}, ""); err != nil {
			return r, err
		}
	default:
		return r, fmt.Errorf("vproto: bad spec letter %q", kind)
	}
	if kind == 'B' || kind == 'X' || kind == 'N' || kind == 'Y' || kind == 'U' {
		return &RndB{RndP{next}}, nil
	}
	return &RndP{next}, nil
}

// StateKey is a canonical digest of the round's state (for explicit-state search).
func (c *core) StateKey() []byte {
	parts := [][]byte{{byte(c.k)}, c.acc, c.view, c.myB}
	for _, m := range []map[party.ID][]byte{c.recvB, c.recvP} {
		ids := make([]string, 0, len(m))
		for id := range m {
			ids = append(ids, string(id))
		}
		sort.Strings(ids)
		parts = append(parts, []byte{byte(len(ids))})
		for _, id := range ids {
			parts = append(parts, []byte(id), m[party.ID(id)])
		}
	}
	return H(parts...)
}

// Start returns the start function of party selfID for the protocol described by spec.
func Start(spec string, selfID party.ID, ids []party.ID) protocol.StartFunc {
	return func(sessionID []byte) (round.Session, error) {
		info := round.Info{
			ProtocolID:       "vproto/" + spec,
			FinalRoundNumber: round.Number(len(spec) + 1),
			SelfID:           selfID,
			PartyIDs:         ids,
			Threshold:        len(ids) - 1,
		}
		helper, err := round.NewSession(info, sessionID, nil)
		if err != nil {
			return nil, err
		}
		seed := make([]byte, 32)
		if _, err := rand.Read(seed); err != nil {
			return nil, err
		}
		return &RndP{core{Helper: helper, spec: spec, k: 1, acc: H([]byte("seed"), seed),
			recvB: map[party.ID][]byte{}, recvP: map[party.ID][]byte{}}}, nil
	}
}

// ---- two-party variant (for protocol.TwoPartyHandler) ---------------------------------------
//
// R rounds; the leader's round k (k>=2) waits for message #k and emits #k; the follower's
// round k waits for #k and emits #(k+1); the leader's round 1 emits #1 unprompted.

type Rnd2 struct {
	*round.Helper
	leader bool
	R, k   int
	acc    []byte
	got    []byte
	stored bool
}

func (r *Rnd2) Number() round.Number { return round.Number(r.k) }
func (r *Rnd2) MessageContent() round.Content {
	if r.leader && r.k == 1 {
		return nil
	}
	return &Msg{}
}
func (r *Rnd2) VerifyMessage(msg round.Message) error {
	m, ok := msg.Content.(*Msg)
	if !ok || m == nil {
		return round.ErrInvalidContent
	}
	if len(m.Payload) != 32 {
		return errors.New("vproto2: payload must be 32 bytes")
	}
	return nil
}
func (r *Rnd2) StoreMessage(msg round.Message) error {
	if r.stored {
		return errors.New("vproto2: message processed twice")
	}
	r.stored = true
	r.got = msg.Content.(*Msg).Payload
	return nil
}
func (r *Rnd2) Finalize(out chan<- *round.Message) (round.Session, error) {
	acc := H([]byte("acc2"), r.acc, []byte{byte(r.k)}, r.got)
	other := r.OtherPartyIDs()[0]
	emit := func(nr int) error {
		return r.SendMessage(out, &Msg{Nr: uint16(nr), Payload: H([]byte("m2"), []byte(r.SelfID()), []byte{byte(nr)}, acc)}, other)
	}
	if r.leader {
		if err := emit(r.k); err != nil {
			return r, err
		}
	} else if r.k < r.R {
		if err := emit(r.k + 1); err != nil {
			return r, err
		}
	}
	if r.k == r.R {
		return r.ResultRound(&Result{View: acc, Full: acc}), nil
	}
	return &Rnd2{Helper: r.Helper, leader: r.leader, R: r.R, k: r.k + 1, acc: acc}, nil
}

func (r *Rnd2) StateKey() []byte {
	s := byte(0)
	if r.stored {
		s = 1
	}
	return H([]byte{byte(r.k), s}, r.acc, r.got)
}

func Start2(R int, leader bool, selfID, otherID party.ID) protocol.StartFunc {
	return func(sessionID []byte) (round.Session, error) {
		info := round.Info{
			ProtocolID:       fmt.Sprintf("vproto2/%d", R),
			FinalRoundNumber: round.Number(R),
			SelfID:           selfID,
			PartyIDs:         []party.ID{selfID, otherID},
			Threshold:        1,
		}
		helper, err := round.NewSession(info, sessionID, nil)
		if err != nil {
			return nil, err
		}
		seed := make([]byte, 32)
		if _, err := rand.Read(seed); err != nil {
			return nil, err
		}
		return &Rnd2{Helper: helper, leader: leader, R: R, k: 1, acc: H([]byte("seed"), seed)}, nil
	}
}

// ---- two-party variant with two messages in flight ("commit, then open") ------------------------
//
// Three rounds.  The leader speaks in two consecutive rounds: round 1 (no input) emits #1, round 2 (no
// input) emits #2, round 3 consumes the follower's #3.  The follower consumes #1 in round 1, #2 in
// round 2 and then emits #3; its round 3 needs no input.  With two messages of one sender in flight
// the later one may arrive first and must be kept for the round it belongs to.

type Rnd2B struct {
	*round.Helper
	leader bool
	k      int
	acc    []byte
	got    []byte
	stored bool
}

func (r *Rnd2B) Number() round.Number { return round.Number(r.k) }
func (r *Rnd2B) MessageContent() round.Content {
	if r.leader == (r.k == 3) {
		return &Msg{} // leader: only round 3 has an input; follower: rounds 1 and 2
	}
	return nil
}
func (r *Rnd2B) VerifyMessage(msg round.Message) error {
	m, ok := msg.Content.(*Msg)
	if !ok || m == nil {
		return round.ErrInvalidContent
	}
	if len(m.Payload) != 32 || int(m.Nr) != r.k {
		return errors.New("vproto2b: wrong payload or message number")
	}
	return nil
}
func (r *Rnd2B) StoreMessage(msg round.Message) error {
	if r.stored {
		return errors.New("vproto2b: message processed twice")
	}
	r.stored = true
	r.got = msg.Content.(*Msg).Payload
	return nil
}
func (r *Rnd2B) Finalize(out chan<- *round.Message) (round.Session, error) {
	acc := H([]byte("acc2b"), r.acc, []byte{byte(r.k)}, r.got)
	other := r.OtherPartyIDs()[0]
	emit := func(nr int) error {
		return r.SendMessage(out, &Msg{Nr: uint16(nr), Payload: H([]byte("m2b"), []byte(r.SelfID()), []byte{byte(nr)}, acc)}, other)
	}
	switch {
	case r.leader && r.k <= 2:
		if err := emit(r.k); err != nil {
			return r, err
		}
	case !r.leader && r.k == 2:
		if err := emit(3); err != nil {
			return r, err
		}
	}
	if r.k == 3 {
		return r.ResultRound(&Result{View: acc, Full: acc}), nil
	}
	return &Rnd2B{Helper: r.Helper, leader: r.leader, k: r.k + 1, acc: acc}, nil
}

func (r *Rnd2B) StateKey() []byte {
	s := byte(0)
	if r.stored {
		s = 1
	}
	return H([]byte{byte(r.k), s, 'b'}, r.acc, r.got)
}

func Start2B(leader bool, selfID, otherID party.ID) protocol.StartFunc {
	return func(sessionID []byte) (round.Session, error) {
		info := round.Info{ProtocolID: "vproto2b", FinalRoundNumber: 3, SelfID: selfID, PartyIDs: []party.ID{selfID, otherID}, Threshold: 1}
		helper, err := round.NewSession(info, sessionID, nil)
		if err != nil {
			return nil, err
		}
		seed := make([]byte, 32)
		if _, err := rand.Read(seed); err != nil {
			return nil, err
		}
		return &Rnd2B{Helper: helper, leader: leader, k: 1, acc: H([]byte("seed"), seed)}, nil
	}
}
