package main

// Fixed material shared by all adapters: the two key pairs of pkg/zk, Pedersen parameters with
// known λ generated deterministically over each of them, a small Blum modulus, contexts.

import (
	"crypto/rand"
	"fmt"
	"math/big"
	"sort"
	"strings"

	"github.com/cronokirby/saferith"
	"github.com/taurusgroup/multi-party-sig/internal/params"
	"github.com/taurusgroup/multi-party-sig/internal/zzverif/drv"
	"github.com/taurusgroup/multi-party-sig/pkg/hash"
	"github.com/taurusgroup/multi-party-sig/pkg/math/curve"
	"github.com/taurusgroup/multi-party-sig/pkg/math/sample"
	"github.com/taurusgroup/multi-party-sig/pkg/paillier"
	"github.com/taurusgroup/multi-party-sig/pkg/party"
	"github.com/taurusgroup/multi-party-sig/pkg/pedersen"
	"github.com/taurusgroup/multi-party-sig/pkg/zk"
)

var group = curve.Secp256k1{}

type keyset struct {
	name   string
	sk     *paillier.SecretKey
	pk     *paillier.PublicKey  // accelerated (knows the factorisation)
	ped    *pedersen.Parameters // Pedersen parameters over this key's modulus
	lambda *saferith.Nat        // s = t^lambda for pedGen
	pedGen *pedersen.Parameters // generated here, λ known
}

var envP, envV, envS *keyset

func blumPrime(rng *drv.DRBG, bits int) *big.Int {
	buf := make([]byte, bits/8)
	for {
		rng.Read(buf)
		p := new(big.Int).SetBytes(buf)
		p.SetBit(p, bits-1, 1)
		p.SetBit(p, bits-2, 1)
		p.SetBit(p, 0, 1)
		p.SetBit(p, 1, 1)
		if p.ProbablyPrime(32) {
			return p
		}
	}
}

func mkKeyset(name string, sk *paillier.SecretKey) *keyset {
	k := &keyset{name: name, sk: sk, pk: sk.PublicKey}
	drv.Use(drv.NewDRBG("c10-env-pedersen-"+name, 0))
	k.pedGen, k.lambda = sk.GeneratePedersen()
	k.ped = k.pedGen
	return k
}

func initEnv() {
	envP = mkKeyset("P", zk.ProverPaillierSecret)
	envV = mkKeyset("V", zk.VerifierPaillierSecret)
	envV.ped = zk.Pedersen // the fixed parameters of pkg/zk (over the verifier's modulus)
	rng := drv.NewDRBG("c10-env-small-primes", 0)
	var p, q *big.Int
	for {
		p, q = blumPrime(rng, 256), blumPrime(rng, 256)
		n := new(big.Int).Mul(p, q)
		phi := new(big.Int).Mul(new(big.Int).Sub(p, one), new(big.Int).Sub(q, one))
		if p.Cmp(q) != 0 && new(big.Int).GCD(nil, nil, n, phi).Cmp(one) == 0 {
			break
		}
	}
	envS = mkKeyset("small", paillier.NewSecretKeyFromPrimes(natFromBig(p), natFromBig(q)))
}

func keysetByName(n string) *keyset {
	switch n {
	case "P":
		return envP
	case "V":
		return envV
	case "small":
		return envS
	}
	panic("unknown keyset " + n)
}

func other(k *keyset) *keyset {
	if k == envP {
		return envV
	}
	return envP
}

// ---- contexts: what round.Helper.HashForID hands to the proof systems ----------------------------
// a session hash (here: hash.New() + the session bytes) cloned, then the prover's party id written.

var contexts = []string{"A|a", "new", "A|a|extra", "A|b", "B|a", "A"}

const baseCtx = "A|a"

func ctxHash(name string) *hash.Hash {
	h := hash.New()
	if name == "new" {
		return h
	}
	parts := strings.Split(name, "|")
	_ = h.WriteAny([]byte("c10-session-" + parts[0]))
	if len(parts) > 1 {
		_ = h.WriteAny(party.ID(parts[1]))
	}
	if len(parts) > 2 {
		_ = h.WriteAny([]byte{0})
	}
	return h
}

// ---- lattice values -------------------------------------------------------------------------------

func pow2(n int) *big.Int { return new(big.Int).Lsh(one, uint(n)) }

func neg(b *big.Int) *big.Int { return new(big.Int).Neg(b) }

func randBits(bits int) *big.Int {
	buf := make([]byte, bits/8+1)
	_, _ = rand.Read(buf)
	v := new(big.Int).SetBytes(buf[1:])
	if buf[0]&1 == 1 {
		v.Neg(v)
	}
	return v
}

// coordinate kinds
const (
	cL      = "L"      // integer documented in ±2^l
	cLP     = "LP"     // integer documented in ±2^l'
	cPlain  = "plain"  // any Paillier plaintext (no documented range): the ±2^l lattice plus ±(N-1)/2
	cScalar = "scalar" // curve scalar
	cEnum   = "enum"   // explicit list of labels
)

type coord struct {
	name   string
	kind   string
	labels []string // for cEnum
	ranged bool     // the proof system proves a range for this witness (range test applies)
	nz     bool     // zero makes the public statement itself degenerate (identity point): the library refuses it by design, so it is not a witness "inside the documented range"
}

func bitsOf(kind string) (int, string) {
	switch kind {
	case cLP:
		return params.LPrime, "l'"
	}
	return params.L, "l"
}

func latticeLabels(c coord) []string {
	switch c.kind {
	case cL, cLP, cPlain:
		_, l := bitsOf(c.kind)
		out := []string{"0", "1", "-1", "2^" + l + "-1", "-(2^" + l + "-1)", "2^(" + l + "-1)", "-2^(" + l + "-1)", "2^" + l, "-2^" + l, "rand"}
		if c.kind == cPlain {
			out = append(out, "(N-1)/2", "-(N-1)/2")
		}
		return out
	case cScalar:
		if c.nz {
			return []string{"1", "q-1", "rand"}
		}
		return []string{"0", "1", "q-1", "rand"}
	}
	return c.labels
}

// midPlainLabels: extra witness values for coordinates that may be any Paillier plaintext.
var midPlainLabels = []string{"2^(|N|-257)", "-2^(|N|-257)", "3*2^(|N|-258)", "-3*2^(|N|-258)", "2^(|N|-3)", "-2^(|N|-3)"}

// midPlainSeeds: whether such a value trips a verifier depends on the challenge, so each is proved under several seeds.
const midPlainSeeds = 8

// diagonal labels used by the quick tier: zero / max / -max / rand
func diagLabel(c coord, which string) string {
	switch c.kind {
	case cL, cLP, cPlain:
		_, l := bitsOf(c.kind)
		switch which {
		case "zero":
			return "0"
		case "max":
			return "2^" + l
		case "-max":
			return "-2^" + l
		}
		return "rand"
	case cScalar:
		switch which {
		case "zero":
			if c.nz {
				return "1"
			}
			return "0"
		case "max":
			return "q-1"
		case "-max":
			return "1"
		}
		return "rand"
	}
	return c.labels[0]
}

func outOfRangeLabels(c coord) []string {
	b, l := bitsOf(c.kind)
	_ = b
	return []string{"2^(" + l + "+eps+2)", "-2^(" + l + "+eps+2)", "2^(" + l + "+eps+2)+rand"}
}

// value resolves a label of an integer / scalar coordinate (random values come from the
// currently installed DRBG).
func value(c coord, label string, N *big.Int) *big.Int {
	b, l := bitsOf(c.kind)
	q := group.Order().Big()
	switch label {
	case "0":
		return big.NewInt(0)
	case "1":
		return big.NewInt(1)
	case "-1":
		return big.NewInt(-1)
	case "q-1":
		return new(big.Int).Sub(q, one)
	case "(N-1)/2":
		return new(big.Int).Rsh(new(big.Int).Sub(N, one), 1)
	case "-(N-1)/2":
		return neg(new(big.Int).Rsh(new(big.Int).Sub(N, one), 1))
	case "2^(|N|-257)", "-2^(|N|-257)", "3*2^(|N|-258)", "-3*2^(|N|-258)", "2^(|N|-3)", "-2^(|N|-3)":
		// magnitudes in the middle and at the top of the plaintext range: multiplied by a 256-bit challenge the
		// response lands between N/2 and N, where a verifier's reduction to a plaintext is decided
		nb := N.BitLen()
		var v *big.Int
		switch strings.TrimPrefix(label, "-") {
		case "2^(|N|-257)":
			v = pow2(nb - 257)
		case "3*2^(|N|-258)":
			v = new(big.Int).Mul(big.NewInt(3), pow2(nb-258))
		default:
			v = pow2(nb - 3)
		}
		if strings.HasPrefix(label, "-") {
			return neg(v)
		}
		return v
	case "rand":
		if c.kind == cScalar {
			return scalarBig(sample.Scalar(rand.Reader, group))
		}
		return randBits(b)
	case "2^" + l + "-1":
		return new(big.Int).Sub(pow2(b), one)
	case "-(2^" + l + "-1)":
		return neg(new(big.Int).Sub(pow2(b), one))
	case "2^(" + l + "-1)":
		return pow2(b - 1)
	case "-2^(" + l + "-1)":
		return neg(pow2(b - 1))
	case "2^" + l:
		return pow2(b)
	case "-2^" + l:
		return neg(pow2(b))
	case "2^(" + l + "+eps+2)":
		return pow2(b + params.Epsilon + 2)
	case "-2^(" + l + "+eps+2)":
		return neg(pow2(b + params.Epsilon + 2))
	case "2^(" + l + "+eps+2)+rand":
		return new(big.Int).Add(pow2(b+params.Epsilon+2), new(big.Int).Abs(randBits(b+params.Epsilon)))
	}
	panic("unknown label " + label + " for " + c.name)
}

// nonce resolves a nonce label for modulus N.
func nonce(label string, N *saferith.Modulus) *saferith.Nat {
	switch label {
	case "1":
		return natFromBig(one)
	case "N-1":
		return natFromBig(new(big.Int).Sub(N.Big(), one))
	}
	return sample.UnitModN(rand.Reader, N)
}

// a point of the lattice: coordinate name -> label
type point map[string]string

func (p point) String() string {
	ks := make([]string, 0, len(p))
	for k := range p {
		ks = append(ks, k)
	}
	sort.Strings(ks)
	parts := make([]string, 0, len(ks))
	for _, k := range ks {
		parts = append(parts, k+"="+p[k])
	}
	return strings.Join(parts, ",")
}

func (p point) clone() point {
	c := point{}
	for k, v := range p {
		c[k] = v
	}
	return c
}

func ptErr(format string, a ...interface{}) error { return fmt.Errorf(format, a...) }
