package main

func paillierForgeries() []*forgery { return nil }
