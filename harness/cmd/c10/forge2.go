package main

// Adaptive-statement forgeries for the Paillier-based systems whose statement contains a group
// element (or scalar) that enters one linear equation: logstar X, mulstar X, dec X, affg Xp.
// The prover algorithm is replayed honestly for a witness x, except that the commitment to the
// mask in the group (Y / Bx / Gamma) uses a *different* mask; the statement field is then solved
// from the group equation with the challenge obtained for a dummy value of that field.

import (
	"crypto/rand"

	"github.com/cronokirby/saferith"
	"github.com/taurusgroup/multi-party-sig/pkg/math/curve"
	"github.com/taurusgroup/multi-party-sig/pkg/math/sample"
	zkaffg "github.com/taurusgroup/multi-party-sig/pkg/zk/affg"
	zkdec "github.com/taurusgroup/multi-party-sig/pkg/zk/dec"
	zklogstar "github.com/taurusgroup/multi-party-sig/pkg/zk/logstar"
	zkmulstar "github.com/taurusgroup/multi-party-sig/pkg/zk/mulstar"
)

// resp = mask + e·w
func resp(e, w, mask *saferith.Int) *saferith.Int {
	z := new(saferith.Int).SetInt(w)
	z.Mul(e, z, -1)
	z.Add(z, mask, -1)
	return z
}

// nresp = mask · nonce^e mod N
func nresp(ks *keyset, e *saferith.Int, nonce, mask *saferith.Nat) *saferith.Nat {
	z := ks.pk.Modulus().ExpI(nonce, e)
	z.ModMul(z, mask, ks.pk.N())
	return z
}

func modq(i *saferith.Int) curve.Scalar {
	return group.NewScalar().SetNat(i.Mod(group.Order()))
}

func paillierForgeries() []*forgery {
	G := group.NewBasePoint()
	var l []*forgery

	// logstar: [z1]G = Y + [e]X
	l = append(l, &forgery{sys: "logstar", field: "X", make: func(ctx string) (interface{}, interface{}) {
		pr, ve := envP, envV
		N := pr.pk.N()
		x := sample.IntervalL(rand.Reader)
		rho := sample.UnitModN(rand.Reader, N)
		alpha, alpha2 := sample.IntervalLEps(rand.Reader), sample.IntervalLEps(rand.Reader)
		r, mu, gamma := sample.UnitModN(rand.Reader, N), sample.IntervalLN(rand.Reader), sample.IntervalLEpsN(rand.Reader)
		pub := &zklogstar.Public{C: pr.pk.EncWithNonce(x, rho), X: randPoint(), G: G, Prover: pr.pk, Aux: ve.ped}
		cm := &zklogstar.Commitment{S: ve.ped.Commit(x, mu), A: pr.pk.EncWithNonce(alpha, r), Y: modq(alpha2).ActOnBase(), D: ve.ped.Commit(alpha, gamma)}
		e, _ := zklogstar.VerifChallenge(ctxHash(ctx), group, *pub, cm)
		p := zklogstar.Empty(group)
		p.Commitment = cm
		p.Z1, p.Z2, p.Z3 = resp(e, x, alpha), nresp(pr, e, rho, r), resp(e, mu, gamma)
		pub.X = modq(e).Invert().Act(modq(p.Z1).ActOnBase().Sub(cm.Y))
		return plainify(pub), p
	}})

	// mulstar: [z1]G = Bx + [e]X
	l = append(l, &forgery{sys: "mulstar", field: "X", make: func(ctx string) (interface{}, interface{}) {
		ve := envV
		N := ve.pk.N()
		x := sample.IntervalL(rand.Reader)
		rho := sample.UnitModN(rand.Reader, N)
		C, _ := ve.pk.Enc(sample.IntervalL(rand.Reader))
		D := C.Clone().Mul(ve.pk, x)
		D.Randomize(ve.pk, rho)
		alpha, alpha2 := sample.IntervalLEps(rand.Reader), sample.IntervalLEps(rand.Reader)
		r, gamma, m := sample.UnitModN(rand.Reader, N), sample.IntervalLEpsN(rand.Reader), sample.IntervalLEpsN(rand.Reader)
		A := C.Clone().Mul(ve.pk, alpha)
		A.Randomize(ve.pk, r)
		pub := &zkmulstar.Public{C: C, D: D, X: randPoint(), Verifier: ve.pk, Aux: ve.ped}
		cm := &zkmulstar.Commitment{A: A, Bx: modq(alpha2).ActOnBase(), E: ve.ped.Commit(alpha, gamma), S: ve.ped.Commit(x, m)}
		e, _ := zkmulstar.VerifChallenge(ctxHash(ctx), group, *pub, cm)
		p := zkmulstar.Empty(group)
		p.Commitment = cm
		p.Z1, p.Z2, p.W = resp(e, x, alpha), resp(e, m, gamma), nresp(ve, e, rho, r)
		pub.X = modq(e).Invert().Act(modq(p.Z1).ActOnBase().Sub(cm.Bx))
		return plainify(pub), p
	}})

	// dec: z1 = e·x + γ (mod q)
	l = append(l, &forgery{sys: "dec", field: "X", make: func(ctx string) (interface{}, interface{}) {
		pr, ve := envP, envV
		N := pr.pk.N()
		y := sample.IntervalL(rand.Reader)
		rho := sample.UnitModN(rand.Reader, N)
		alpha := sample.IntervalLEps(rand.Reader)
		mu, nu, r := sample.IntervalLN(rand.Reader), sample.IntervalLEpsN(rand.Reader), sample.UnitModN(rand.Reader, N)
		pub := &zkdec.Public{C: pr.pk.EncWithNonce(y, rho), X: rs(), Prover: pr.pk, Aux: ve.ped}
		cm := &zkdec.Commitment{S: ve.ped.Commit(y, mu), T: ve.ped.Commit(alpha, nu), A: pr.pk.EncWithNonce(alpha, r), Gamma: rs()}
		e, _ := zkdec.VerifChallenge(ctxHash(ctx), group, *pub, cm)
		p := zkdec.Empty(group)
		p.Commitment = cm
		p.Z1, p.Z2, p.W = resp(e, y, alpha), resp(e, mu, nu), nresp(pr, e, rho, r)
		pub.X = modq(p.Z1).Sub(cm.Gamma).Mul(modq(e).Invert())
		return plainify(pub), p
	}})

	// affg: [z1]G = Bx + [e]Xp
	l = append(l, &forgery{sys: "affg", field: "Xp", make: func(ctx string) (interface{}, interface{}) {
		pr, ve := envP, envV
		N0, N1 := ve.pk.N(), pr.pk.N()
		x, y := sample.IntervalL(rand.Reader), sample.IntervalLPrime(rand.Reader)
		Kv, _ := ve.pk.Enc(sample.IntervalL(rand.Reader))
		s, rr := sample.UnitModN(rand.Reader, N0), sample.UnitModN(rand.Reader, N1)
		Dv := ve.pk.EncWithNonce(y, s).Add(ve.pk, Kv.Clone().Mul(ve.pk, x))
		Fp := pr.pk.EncWithNonce(y, rr)
		alpha, alpha2, beta := sample.IntervalLEps(rand.Reader), sample.IntervalLEps(rand.Reader), sample.IntervalLPrimeEps(rand.Reader)
		rho, rhoY := sample.UnitModN(rand.Reader, N0), sample.UnitModN(rand.Reader, N1)
		gamma, m, delta, mu := sample.IntervalLEpsN(rand.Reader), sample.IntervalLN(rand.Reader), sample.IntervalLEpsN(rand.Reader), sample.IntervalLN(rand.Reader)
		pub := &zkaffg.Public{Kv: Kv, Dv: Dv, Fp: Fp, Xp: randPoint(), Prover: pr.pk, Verifier: ve.pk, Aux: ve.ped}
		cm := &zkaffg.Commitment{
			A:  ve.pk.EncWithNonce(beta, rho).Add(ve.pk, Kv.Clone().Mul(ve.pk, alpha)),
			Bx: modq(alpha2).ActOnBase(),
			By: pr.pk.EncWithNonce(beta, rhoY),
			E:  ve.ped.Commit(alpha, gamma), S: ve.ped.Commit(x, m), F: ve.ped.Commit(beta, delta), T: ve.ped.Commit(y, mu),
		}
		e, _ := zkaffg.VerifChallenge(ctxHash(ctx), group, *pub, cm)
		p := zkaffg.Empty(group)
		p.Commitment = cm
		p.Z1, p.Z2, p.Z3, p.Z4 = resp(e, x, alpha), resp(e, y, beta), resp(e, m, gamma), resp(e, mu, delta)
		p.W, p.Wy = nresp(ve, e, s, rho), nresp(pr, e, rr, rhoY)
		pub.Xp = modq(e).Invert().Act(modq(p.Z1).ActOnBase().Sub(cm.Bx))
		return plainify(pub), p
	}})
	return l
}
