package main

// Reflection toolkit: a statement (Public) or a proof is a tree of structs / arrays whose
// leaves are values of a few known types.  The toolkit enumerates the leaves, encodes an
// object canonically (to detect mutations that leave the object unchanged), deep-copies the
// containers (leaves are immutable values and are shared) and applies edits to leaves.

import (
	"encoding/hex"
	"fmt"
	"math/big"
	"reflect"
	"regexp"
	"strings"

	"github.com/cronokirby/saferith"
	"github.com/taurusgroup/multi-party-sig/pkg/math/arith"
	"github.com/taurusgroup/multi-party-sig/pkg/math/curve"
	"github.com/taurusgroup/multi-party-sig/pkg/paillier"
	"github.com/taurusgroup/multi-party-sig/pkg/pedersen"
)

type kind int

const (
	kNone kind = iota
	kInt
	kNat
	kBig
	kCt
	kPK
	kPed
	kMod
	kPoint
	kScalar
	kBool
)

var kindName = map[kind]string{kInt: "int", kNat: "nat", kBig: "big", kCt: "ct", kPK: "pk", kPed: "ped", kMod: "mod", kPoint: "point", kScalar: "scalar", kBool: "bool"}

var (
	tInt    = reflect.TypeOf((*saferith.Int)(nil))
	tNat    = reflect.TypeOf((*saferith.Nat)(nil))
	tBig    = reflect.TypeOf((*big.Int)(nil))
	tCt     = reflect.TypeOf((*paillier.Ciphertext)(nil))
	tPK     = reflect.TypeOf((*paillier.PublicKey)(nil))
	tPed    = reflect.TypeOf((*pedersen.Parameters)(nil))
	tMod    = reflect.TypeOf((*saferith.Modulus)(nil))
	tPoint  = reflect.TypeOf((*curve.Point)(nil)).Elem()
	tScalar = reflect.TypeOf((*curve.Scalar)(nil)).Elem()
	tBool   = reflect.TypeOf(true)
)

func kindOf(t reflect.Type) kind {
	switch t {
	case tInt:
		return kInt
	case tNat:
		return kNat
	case tBig:
		return kBig
	case tCt:
		return kCt
	case tPK:
		return kPK
	case tPed:
		return kPed
	case tMod:
		return kMod
	case tPoint:
		return kPoint
	case tScalar:
		return kScalar
	case tBool:
		return kBool
	}
	return kNone
}

type leaf struct {
	path string        // e.g. "Z1", "Comm.P", "Responses[3].X"
	top  string        // name of the top-level field of the object that contains the leaf
	k    kind          //
	v    reflect.Value // settable when the walk started from a pointer
	arr  int           // index inside an array (-1 if none)
}

func (l leaf) isNil() bool {
	switch l.k {
	case kBool:
		return false
	}
	return l.v.IsNil()
}

var idxRe = regexp.MustCompile(`\[\d+\]`)

// generic path: array indices collapsed, used in signatures
func (l leaf) gpath() string { return idxRe.ReplaceAllString(l.path, "[*]") }

// leaves enumerates the leaves of the object obj points to, in declaration order.
func leaves(obj interface{}) []leaf {
	var out []leaf
	v := reflect.ValueOf(obj)
	if v.Kind() != reflect.Ptr || v.IsNil() {
		return nil
	}
	walk(v.Elem(), "", "", -1, &out)
	return out
}

func walk(v reflect.Value, path, top string, arr int, out *[]leaf) {
	if k := kindOf(v.Type()); k != kNone {
		*out = append(*out, leaf{path: path, top: top, k: k, v: v, arr: arr})
		return
	}
	switch v.Kind() {
	case reflect.Ptr:
		if v.IsNil() {
			return
		}
		walk(v.Elem(), path, top, arr, out)
	case reflect.Struct:
		t := v.Type()
		for i := 0; i < t.NumField(); i++ {
			f := t.Field(i)
			if f.PkgPath != "" { // unexported
				continue
			}
			p := path
			if !f.Anonymous {
				if p != "" {
					p += "."
				}
				p += f.Name
			}
			tp := top
			if tp == "" {
				tp = f.Name
			}
			walk(v.Field(i), p, tp, arr, out)
		}
	case reflect.Array, reflect.Slice:
		for i := 0; i < v.Len(); i++ {
			a := arr
			if a < 0 {
				a = i
			}
			walk(v.Index(i), fmt.Sprintf("%s[%d]", path, i), top, a, out)
		}
	}
}

// cloneObj deep-copies the containers of the object (structs, pointers to structs, arrays);
// leaves and unexported fields are copied by value (shared).
func cloneObj(obj interface{}) interface{} {
	v := reflect.ValueOf(obj)
	return cloneVal(v).Interface()
}

func cloneVal(v reflect.Value) reflect.Value {
	if kindOf(v.Type()) != kNone {
		return v
	}
	switch v.Kind() {
	case reflect.Ptr:
		if v.IsNil() || v.Elem().Kind() != reflect.Struct {
			return v
		}
		n := reflect.New(v.Type().Elem())
		n.Elem().Set(v.Elem())
		fixStruct(n.Elem())
		return n
	case reflect.Struct:
		n := reflect.New(v.Type()).Elem()
		n.Set(v)
		fixStruct(n)
		return n
	case reflect.Array:
		n := reflect.New(v.Type()).Elem()
		n.Set(v)
		for i := 0; i < n.Len(); i++ {
			n.Index(i).Set(cloneVal(v.Index(i)))
		}
		return n
	}
	return v
}

func fixStruct(s reflect.Value) {
	t := s.Type()
	for i := 0; i < t.NumField(); i++ {
		if t.Field(i).PkgPath != "" {
			continue
		}
		f := s.Field(i)
		if kindOf(f.Type()) != kNone {
			continue
		}
		switch f.Kind() {
		case reflect.Ptr, reflect.Struct, reflect.Array:
			f.Set(cloneVal(f))
		}
	}
}

// ---- canonical encoding -------------------------------------------------------------------------

func encPoint(p curve.Point) string {
	if p == nil {
		return "nil"
	}
	if p.IsIdentity() {
		return "INF"
	}
	b, err := p.MarshalBinary()
	if err != nil {
		return "ERR:" + err.Error()
	}
	return hex.EncodeToString(b)
}

func encScalar(s curve.Scalar) string {
	if s == nil {
		return "nil"
	}
	b, _ := s.MarshalBinary()
	return hex.EncodeToString(b)
}

func encLeaf(l leaf) string {
	if l.isNil() {
		return "nil"
	}
	switch l.k {
	case kInt:
		return l.v.Interface().(*saferith.Int).Big().Text(16)
	case kNat:
		return l.v.Interface().(*saferith.Nat).Big().Text(16)
	case kBig:
		return l.v.Interface().(*big.Int).Text(16)
	case kCt:
		return l.v.Interface().(*paillier.Ciphertext).Nat().Big().Text(16)
	case kPK:
		return l.v.Interface().(*paillier.PublicKey).N().Big().Text(16)
	case kPed:
		p := l.v.Interface().(*pedersen.Parameters)
		return p.N().Big().Text(16) + "," + p.S().Big().Text(16) + "," + p.T().Big().Text(16)
	case kMod:
		return l.v.Interface().(*saferith.Modulus).Big().Text(16)
	case kPoint:
		return encPoint(l.v.Interface().(curve.Point))
	case kScalar:
		return encScalar(l.v.Interface().(curve.Scalar))
	case kBool:
		if l.v.Bool() {
			return "1"
		}
		return "0"
	}
	return "?"
}

func encode(obj interface{}) string {
	var sb strings.Builder
	for _, l := range leaves(obj) {
		sb.WriteString(l.path)
		sb.WriteByte('=')
		sb.WriteString(encLeaf(l))
		sb.WriteByte(';')
	}
	return sb.String()
}

func short(s string) string {
	if len(s) > 40 {
		return s[:18] + "…" + s[len(s)-18:] + fmt.Sprintf("(%d hex digits)", len(s))
	}
	return s
}

// describe renders an object for violation details (long numbers shortened).
func describe(obj interface{}) string {
	var sb strings.Builder
	for _, l := range leaves(obj) {
		if l.arr > 1 {
			continue
		}
		sb.WriteString(l.path + "=" + short(encLeaf(l)) + " ")
	}
	return sb.String()
}

// ---- leaf constructors ------------------------------------------------------------------------

func natFromBig(b *big.Int) *saferith.Nat {
	n := b.BitLen()
	if n < 8 {
		n = 8
	}
	return new(saferith.Nat).SetBig(b, n)
}

func intFromBig(b *big.Int) *saferith.Int {
	n := b.BitLen()
	if n < 8 {
		n = 8
	}
	return new(saferith.Int).SetBig(b, n)
}

func ctFromBig(b *big.Int) *paillier.Ciphertext {
	ct := new(paillier.Ciphertext)
	_ = ct.UnmarshalBinary(natFromBig(b).Bytes())
	return ct
}

func scalarFromBig(b *big.Int) curve.Scalar {
	m := new(big.Int).Mod(b, group.Order().Big())
	return group.NewScalar().SetNat(natFromBig(m))
}

func scalarBig(s curve.Scalar) *big.Int {
	b, _ := s.MarshalBinary()
	return new(big.Int).SetBytes(b)
}

func plainPK(pk *paillier.PublicKey) *paillier.PublicKey {
	return paillier.NewPublicKey(saferith.ModulusFromNat(pk.N().Nat()))
}

func plainPed(p *pedersen.Parameters) *pedersen.Parameters {
	return pedersen.New(arith.ModulusFromN(saferith.ModulusFromNat(p.N().Nat())), p.S(), p.T())
}

// plainify returns a copy of a statement in which every Paillier key and every Pedersen
// parameter set is rebuilt from its public numbers only (what a real verifier holds: no
// factorisation, no CRT acceleration).
func plainify(obj interface{}) interface{} {
	c := cloneObj(obj)
	for _, l := range leaves(c) {
		if l.isNil() {
			continue
		}
		switch l.k {
		case kPK:
			l.v.Set(reflect.ValueOf(plainPK(l.v.Interface().(*paillier.PublicKey))))
		case kPed:
			l.v.Set(reflect.ValueOf(plainPed(l.v.Interface().(*pedersen.Parameters))))
		}
	}
	return c
}

// ---- mutators ----------------------------------------------------------------------------------

type edit struct {
	idx int           // index into leaves(obj)
	val reflect.Value // new value (of the leaf's static type)
}

type mutator struct {
	name  string // instance name, e.g. "proof:Zs[3]:+1"
	gname string // generic name for signatures, e.g. "proof:Zs[*]:+1"
	edits []edit
}

// apply returns a mutated deep copy of obj.
func (m mutator) apply(obj interface{}) interface{} {
	c := cloneObj(obj)
	ls := leaves(c)
	for _, e := range m.edits {
		ls[e.idx].v.Set(e.val)
	}
	return c
}

func rv(t reflect.Type, x interface{}) reflect.Value {
	v := reflect.New(t).Elem()
	v.Set(reflect.ValueOf(x))
	return v
}

var one = big.NewInt(1)

// arithmetic variants of one leaf value: name -> new value
type variant struct {
	name string
	val  reflect.Value
}

// arithVariants: +1 / -1 for numbers and scalars, negation / +G / identity for points, flip for
// booleans; for proof integers also a value far beyond any modulus; for residues also +M for
// every modulus M appearing in the statement (same residue class, non-canonical representative).
func arithVariants(l leaf, moduli []namedBig, forProof bool) []variant {
	var out []variant
	if l.isNil() {
		return nil
	}
	add := func(name string, x interface{}) { out = append(out, variant{name, rv(l.v.Type(), x)}) }
	switch l.k {
	case kInt:
		b := l.v.Interface().(*saferith.Int).Big()
		add("+1", intFromBig(new(big.Int).Add(b, one)))
		add("-1", intFromBig(new(big.Int).Sub(b, one)))
		if b.Sign() != 0 {
			add("neg", intFromBig(new(big.Int).Neg(b)))
		}
		if forProof {
			add("+2^2100", intFromBig(new(big.Int).Add(b, new(big.Int).Lsh(one, 2100))))
			add("-2^2100", intFromBig(new(big.Int).Sub(b, new(big.Int).Lsh(one, 2100))))
		}
	case kNat:
		b := l.v.Interface().(*saferith.Nat).Big()
		add("+1", natFromBig(new(big.Int).Add(b, one)))
		if b.Sign() > 0 {
			add("-1", natFromBig(new(big.Int).Sub(b, one)))
		}
		for _, m := range moduli {
			add("+"+m.name, natFromBig(new(big.Int).Add(b, m.v)))
		}
	case kBig:
		b := l.v.Interface().(*big.Int)
		add("+1", new(big.Int).Add(b, one))
		add("-1", new(big.Int).Sub(b, one))
		add("neg", new(big.Int).Neg(b))
		for _, m := range moduli {
			add("+"+m.name, new(big.Int).Add(b, m.v))
		}
	case kCt:
		b := l.v.Interface().(*paillier.Ciphertext).Nat().Big()
		add("+1", ctFromBig(new(big.Int).Add(b, one)))
		if b.Sign() > 0 {
			add("-1", ctFromBig(new(big.Int).Sub(b, one)))
		}
		if forProof {
			for _, m := range moduli {
				add("+"+m.name+"^2", ctFromBig(new(big.Int).Add(b, new(big.Int).Mul(m.v, m.v))))
			}
		}
	case kPoint:
		p := l.v.Interface().(curve.Point)
		add("neg", p.Negate())
		add("+G", p.Add(group.NewBasePoint()))
		add("identity", group.NewPoint())
	case kScalar:
		s := l.v.Interface().(curve.Scalar)
		o := scalarFromBig(one)
		add("+1", group.NewScalar().Set(s).Add(o))
		add("-1", group.NewScalar().Set(s).Sub(o))
		add("zero", group.NewScalar())
	case kBool:
		add("flip", !l.v.Bool())
	case kMod:
		b := l.v.Interface().(*saferith.Modulus).Big()
		add("+2", saferith.ModulusFromNat(natFromBig(new(big.Int).Add(b, big.NewInt(2)))))
	}
	return out
}

type namedBig struct {
	name string
	v    *big.Int
}

// moduliOf lists the distinct moduli appearing in a statement.
func moduliOf(pub interface{}) []namedBig {
	var out []namedBig
	seen := map[string]bool{}
	for _, l := range leaves(pub) {
		if l.isNil() {
			continue
		}
		var b *big.Int
		switch l.k {
		case kPK:
			b = l.v.Interface().(*paillier.PublicKey).N().Big()
		case kPed:
			b = l.v.Interface().(*pedersen.Parameters).N().Big()
		case kMod:
			b = l.v.Interface().(*saferith.Modulus).Big()
		default:
			continue
		}
		if seen[b.String()] {
			continue
		}
		seen[b.String()] = true
		out = append(out, namedBig{"N(" + l.path + ")", b})
	}
	return out
}

// selected reports whether an array element takes part in the enumeration of this tier.
func selectedIdx(l leaf, n int, all bool) bool {
	if l.arr < 0 || all {
		return true
	}
	return l.arr == 0 || l.arr == 1 || l.arr == n-1
}

func arrLen(ls []leaf) int {
	n := 0
	for _, l := range ls {
		if l.arr+1 > n {
			n = l.arr + 1
		}
	}
	return n
}

// proofMutators: every field ±1 (…), swapped with each same-typed sibling, substituted from a
// second valid proof of the same statement (leaf by leaf and top-level field by top-level field).
func proofMutators(p1, p2, pub interface{}, allIdx bool) []mutator {
	var out []mutator
	l1, l2 := leaves(p1), leaves(p2)
	n := arrLen(l1)
	mods := moduliOf(pub)
	for i, l := range l1 {
		if !selectedIdx(l, n, allIdx) {
			continue
		}
		for _, v := range arithVariants(l, mods, true) {
			out = append(out, mutator{"proof:" + l.path + ":" + v.name, "proof:" + l.gpath() + ":" + v.name, []edit{{i, v.val}}})
		}
	}
	// swaps (array elements: only the first two and the last index, in every tier)
	for i, a := range l1 {
		if a.isNil() || !selectedIdx(a, n, false) {
			continue
		}
		for j := i + 1; j < len(l1); j++ {
			b := l1[j]
			if b.k != a.k || b.isNil() || !selectedIdx(b, n, false) {
				continue
			}
			out = append(out, mutator{"proof:" + a.path + "<->" + b.path, "proof:" + a.gpath() + "<->" + b.gpath(), []edit{{i, b.v}, {j, a.v}}})
		}
	}
	// substitution from the second proof
	if len(l2) == len(l1) {
		for i, l := range l1 {
			if !selectedIdx(l, n, allIdx) {
				continue
			}
			out = append(out, mutator{"proof:" + l.path + "<-proof2", "proof:" + l.gpath() + "<-proof2", []edit{{i, l2[i].v}}})
		}
		tops := []string{}
		cnt := map[string]int{}
		for _, l := range l1 {
			if cnt[l.top] == 0 {
				tops = append(tops, l.top)
			}
			cnt[l.top]++
		}
		if len(tops) > 1 {
			for _, t := range tops {
				if cnt[t] < 2 {
					continue
				}
				var es []edit
				for i, l := range l1 {
					if l.top == t {
						es = append(es, edit{i, l2[i].v})
					}
				}
				out = append(out, mutator{"proof:" + t + ".*<-proof2", "proof:" + t + ".*<-proof2", es})
			}
		}
	}
	return out
}

// publicMutators: every field of the statement replaced by every other same-typed value in
// scope (sibling fields, adapter-supplied alternates) and by its arithmetic neighbours.
func publicMutators(pub interface{}, alts map[string][]variant) []mutator {
	var out []mutator
	ls := leaves(pub)
	for i, l := range ls {
		if l.isNil() {
			continue
		}
		for j, s := range ls {
			if j == i || s.k != l.k || s.isNil() {
				continue
			}
			out = append(out, mutator{"public:" + l.path + "<-" + s.path, "public:" + l.path + "<-" + s.path, []edit{{i, s.v}}})
		}
		// both directions at once for pairs (keys swapped, points swapped)
		for j := i + 1; j < len(ls); j++ {
			s := ls[j]
			if s.k != l.k || s.isNil() {
				continue
			}
			out = append(out, mutator{"public:" + l.path + "<->" + s.path, "public:" + l.path + "<->" + s.path, []edit{{i, s.v}, {j, l.v}}})
		}
		for _, a := range alts[l.path] {
			out = append(out, mutator{"public:" + l.path + "<-" + a.name, "public:" + l.path + "<-" + a.name, []edit{{i, a.val}}})
		}
		for _, a := range alts["kind:"+kindName[l.k]] {
			out = append(out, mutator{"public:" + l.path + "<-" + a.name, "public:" + l.path + "<-" + a.name, []edit{{i, a.val}}})
		}
		for _, v := range arithVariants(l, nil, false) {
			out = append(out, mutator{"public:" + l.path + ":" + v.name, "public:" + l.path + ":" + v.name, []edit{{i, v.val}}})
		}
	}
	return out
}
