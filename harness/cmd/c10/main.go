// C10 — ZK proofs are complete on their domain and bound to statement and context.
// Engine D (lattice): for each of the 15 proof systems of pkg/zk the real NewProof / Verify
// are run on (a) the witness boundary lattice, (b) every single-field substitution of the
// statement, the context and the proof, (c) honest-algorithm proofs for out-of-range
// witnesses, (d) honest-algorithm proofs for statements with one relation broken,
// (e) adaptive-statement forgeries, (e') adaptive commitment-field forgeries (forge3.go) and
// commitments re-chosen after the challenge (forge4.go).  Oracle: Verify is true exactly on the untouched
// (statement, context, proof) triples and never panics.
package main

import (
	"fmt"
	"os"
	"reflect"
	"sort"
	"strings"
	"syscall"
	"time"

	"github.com/taurusgroup/multi-party-sig/internal/zzverif/drv"
	"github.com/taurusgroup/multi-party-sig/internal/zzverif/vkit"
	"github.com/taurusgroup/multi-party-sig/pkg/hash"
)

type caseID struct {
	Sys   string `json:"sys"`
	Kind  string `json:"kind"` // completeness | binding | range | false-statement | forgery
	Point point  `json:"point"`
	Seed  int    `json:"seed_index"`
	Mut   string `json:"mutator,omitempty"`
	Chunk int    `json:"chunk"`
}

func (c caseID) key() string {
	return fmt.Sprintf("%s|%s|%s|s%d|%s", c.Sys, c.Kind, c.Point, c.Seed, c.Mut)
}

var (
	res     *vkit.Result
	verbose bool
	sysByNm = map[string]*system{}
)

func logf(format string, a ...interface{}) {
	if verbose {
		fmt.Printf(format+"\n", a...)
	}
}

func count(sys, kind string) {
	k := "n." + sys + "." + kind
	n, _ := res.Extra[k].(int)
	res.Extra[k] = n + 1
}

// ---- lattice enumeration ------------------------------------------------------------------------

func confDefault(s *system) point {
	p := point{}
	for _, c := range s.conf {
		p[c.name] = c.labels[0]
	}
	return p
}

// confStar: the default configuration and every single deviation from it.
func confStar(s *system) []point {
	out := []point{confDefault(s)}
	for _, c := range s.conf {
		for _, l := range c.labels[1:] {
			p := confDefault(s)
			p[c.name] = l
			out = append(out, p)
		}
	}
	return out
}

func confCross(s *system) []point {
	out := []point{{}}
	for _, c := range s.conf {
		var nx []point
		for _, p := range out {
			for _, l := range c.labels {
				q := p.clone()
				q[c.name] = l
				nx = append(nx, q)
			}
		}
		out = nx
	}
	return out
}

func witCross(s *system) []point {
	out := []point{{}}
	for _, c := range s.coords {
		var nx []point
		for _, p := range out {
			for _, l := range latticeLabels(c) {
				q := p.clone()
				q[c.name] = l
				nx = append(nx, q)
			}
		}
		out = nx
	}
	return out
}

func witDiag(s *system, which string) point {
	p := point{}
	for _, c := range s.coords {
		p[c.name] = diagLabel(c, which)
	}
	return p
}

func witStar(s *system) []point {
	var out []point
	for _, c := range s.coords {
		for _, l := range latticeLabels(c) {
			if l == "rand" {
				continue
			}
			p := witDiag(s, "rand")
			p[c.name] = l
			out = append(out, p)
		}
	}
	return out
}

func merge(a, b point) point {
	p := a.clone()
	for k, v := range b {
		p[k] = v
	}
	return p
}

func dedup(ps []point) []point {
	seen := map[string]bool{}
	var out []point
	for _, p := range ps {
		if !seen[p.String()] {
			seen[p.String()] = true
			out = append(out, p)
		}
	}
	return out
}

func completenessPoints(s *system) []point {
	var out []point
	switch {
	case len(s.coords) == 0:
		out = confCross(s)
	case s.cheap:
		for _, w := range witCross(s) {
			for _, c := range confCross(s) {
				out = append(out, merge(w, c))
			}
		}
	case vkit.Thorough():
		for _, w := range witCross(s) {
			for _, c := range confStar(s) {
				out = append(out, merge(w, c))
			}
		}
	default:
		for _, d := range []string{"zero", "max", "-max", "rand"} {
			out = append(out, merge(witDiag(s, d), confDefault(s)))
		}
		for _, c := range confStar(s)[1:] {
			out = append(out, merge(witDiag(s, "rand"), c))
		}
		// witnesses without a documented range: the extreme plaintexts too
		for _, c := range s.coords {
			if c.kind == cPlain {
				for _, l := range []string{"(N-1)/2", "-(N-1)/2"} {
					p := merge(witDiag(s, "rand"), confDefault(s))
					p[c.name] = l
					out = append(out, p)
				}
			}
		}
	}
	return dedup(out)
}

func bindingPoints(s *system) []point {
	var out []point
	switch {
	case len(s.coords) == 0:
		out = confStar(s)
		if !vkit.Thorough() && len(out) > 3 {
			out = out[:3]
		}
	case s.cheap:
		for _, w := range witCross(s) {
			for _, c := range confCross(s) {
				out = append(out, merge(w, c))
			}
		}
	default:
		for _, d := range []string{"zero", "max", "-max"} {
			out = append(out, merge(witDiag(s, d), confDefault(s)))
		}
		if vkit.Thorough() {
			for _, w := range witStar(s) {
				out = append(out, merge(w, confDefault(s)))
			}
			for _, c := range confStar(s) {
				out = append(out, merge(witDiag(s, "rand"), c))
			}
		}
	}
	return dedup(out)
}

func rangePoints(s *system) []point {
	var out []point
	for _, c := range s.coords {
		if !c.ranged {
			continue
		}
		for _, l := range outOfRangeLabels(c) {
			p := merge(witDiag(s, "rand"), confDefault(s))
			p[c.name] = l
			out = append(out, p)
			if vkit.Thorough() {
				for _, cf := range confStar(s)[1:] {
					q := merge(p, cf)
					out = append(out, q)
				}
			}
		}
	}
	for _, p := range s.rangePts {
		out = append(out, merge(confDefault(s), p))
	}
	return dedup(out)
}

// ---- running one (statement, proof) ---------------------------------------------------------------

func label(s *system, pt point, seedIdx int, what string) string {
	return fmt.Sprintf("c10|%s|%s|s%d|%s", s.name, pt, seedIdx, what)
}

func isNilProof(p interface{}) bool {
	if p == nil {
		return true
	}
	v := reflect.ValueOf(p)
	return v.Kind() == reflect.Ptr && v.IsNil()
}

type built struct {
	st       *statement
	pubPlain interface{}
}

// buildSt builds the statement of a point (deterministically).
func buildSt(s *system, pt point, seedIdx int) (*built, string) {
	var st *statement
	drv.Use(drv.NewDRBG(label(s, pt, seedIdx, "stmt"), *vkit.Seed))
	if p, msg, fr := vkit.Try(func() { st = s.build(pt) }); p {
		return nil, fmt.Sprintf("building the statement panicked: %s @ %s", msg, fr)
	}
	return &built{st: st, pubPlain: plainify(st.pub)}, ""
}

type proveOut struct {
	proof    interface{}
	panicked bool
	msg, fr  string
}

func proveSt(s *system, b *built, pt point, seedIdx int, which string, ctx string) proveOut {
	var o proveOut
	drv.Use(drv.NewDRBG(label(s, pt, seedIdx, which), *vkit.Seed))
	o.panicked, o.msg, o.fr = vkit.Try(func() { o.proof = s.prove(ctxHash(ctx), b.st) })
	return o
}

type verdict struct {
	ok       bool
	panicked bool
	msg, fr  string
}

func verifySt(s *system, ctx string, pub, proof interface{}) verdict {
	var v verdict
	drv.Use(drv.NewDRBG("c10|verify", *vkit.Seed)) // Verify must not need randomness; keep it deterministic anyway
	v.panicked, v.msg, v.fr = vkit.Try(func() { v.ok = s.verify(ctxHash(ctx), pub, proof) })
	return v
}

// completeOnce: statement, honest proof, verification with a verifier-side (plain) statement and
// with the prover-side (accelerated) one.  Returns "" if fine, else the failure class + detail.
func completeOnce(s *system, pt point, seedIdx int) (class, detail string) {
	b, err := buildSt(s, pt, seedIdx)
	if err != "" {
		return "harness", err
	}
	po := proveSt(s, b, pt, seedIdx, "prove1", baseCtx)
	if po.panicked {
		return "prover-panic:" + po.fr, "NewProof panicked: " + po.msg
	}
	if isNilProof(po.proof) {
		return "no-proof", "the prover returned nil"
	}
	for _, side := range []struct {
		name string
		pub  interface{}
	}{{"verifier-side keys", b.pubPlain}, {"prover-side (CRT-accelerated) keys", b.st.pub}} {
		v := verifySt(s, baseCtx, side.pub, po.proof)
		if v.panicked {
			return "verifier-panic:" + v.fr, fmt.Sprintf("Verify (%s) panicked: %s\nstatement: %s\nproof: %s", side.name, v.msg, describe(b.pubPlain), describe(po.proof))
		}
		if !v.ok {
			return "rejected", fmt.Sprintf("Verify (%s) returned false for an honestly generated proof\nstatement: %s\nproof: %s", side.name, describe(b.pubPlain), describe(po.proof))
		}
	}
	// history: a SECOND proof from the same statement and witness OBJECTS (the same statement proved to another
	// verifier, or again after a failure) must be as good as the first: proving must not consume its inputs
	po2 := proveSt(s, b, pt, seedIdx, "prove-again", baseCtx)
	if po2.panicked {
		return "second-proof:prover-panic:" + po2.fr, "NewProof panicked when called a second time on the same inputs: " + po2.msg
	}
	if isNilProof(po2.proof) {
		return "second-proof:no-proof", "the prover returned nil when called a second time on the same inputs"
	}
	if v := verifySt(s, baseCtx, b.pubPlain, po2.proof); v.panicked || !v.ok {
		return "second-proof:rejected", fmt.Sprintf("a second proof generated from the same statement and witness objects does not verify (the first one did): the prover modifies its inputs\nstatement: %s", describe(b.pubPlain))
	}
	return "", ""
}

func neutral(s *system, pt point) point {
	return merge(witDiag(s, "rand"), confDefault(s))
}

// minimise finds the smallest set of non-neutral coordinates of a failing point that still
// fails with the same class, so that one defect gets one signature.
func minimise(s *system, pt point, seedIdx int, class string) point {
	base := neutral(s, pt)
	var names []string
	for k, v := range pt {
		if base[k] != v {
			names = append(names, k)
		}
	}
	sort.Strings(names)
	n := len(names)
	if n <= 1 || n > 6 {
		return sub(pt, names)
	}
	for size := 1; size < n; size++ {
		for mask := 0; mask < 1<<uint(n); mask++ {
			if bitsSet(mask) != size {
				continue
			}
			q := base.clone()
			var keep []string
			for i, nm := range names {
				if mask&(1<<uint(i)) != 0 {
					q[nm] = pt[nm]
					keep = append(keep, nm)
				}
			}
			if c, _ := completeOnce(s, q, seedIdx); c == class {
				return sub(pt, keep)
			}
		}
	}
	return sub(pt, names)
}

func bitsSet(m int) int {
	n := 0
	for ; m != 0; m &= m - 1 {
		n++
	}
	return n
}

func sub(pt point, names []string) point {
	p := point{}
	for _, n := range names {
		p[n] = pt[n]
	}
	return p
}

func runCompleteness(s *system, pt point, seedIdx int) bool {
	id := caseID{Sys: s.name, Kind: "completeness", Point: pt, Seed: seedIdx}
	res.Case(id.key())
	count(s.name, "completeness")
	class, detail := completeOnce(s, pt, seedIdx)
	logf("completeness %s %s seed#%d: %q %s", s.name, pt, seedIdx, class, detail)
	if class == "" {
		if seedIdx == 0 && strings.Contains(pt.String(), "2^") && len(res.Samples) < 5 {
			res.Sample(map[string]interface{}{"case": id, "verify": true})
		}
		return true
	}
	if class == "harness" {
		res.Hard(s.name + " " + pt.String() + ": " + detail)
		return false
	}
	min := minimise(s, pt, seedIdx, class)
	res.Violate(fmt.Sprintf("zk|%s|completeness|%s|%s", s.name, min, class),
		fmt.Sprintf("system %s, witness/configuration %s (minimal failing coordinates: %s), context %s, seed index %d\n%s", s.name, pt, min, baseCtx, seedIdx, detail), id)
	return false
}

// degenerate names the coordinates of a point whose witness is the neutral element (zero
// scalar / integer, nonce ±1): there e·w vanishes (or depends on the parity of e only), so such points get their own signatures and
// cannot mask a defect that shows at regular points.
func degenerate(pt point) string {
	var d []string
	for k, v := range pt {
		if v == "0" || (k == "nonce" && (v == "1" || v == "N-1")) {
			d = append(d, k+"="+v)
		}
	}
	if len(d) == 0 {
		return ""
	}
	sort.Strings(d)
	return "@" + strings.Join(d, ",")
}

type evalOut struct {
	trivial bool
	v       verdict
	desc    string
}

// bindingCases lists every mutator of one honest triple, in a fixed order.
type bcase struct {
	name, gname string
	run         func() evalOut
}

func bindingCases(s *system, b *built, p1, p2 interface{}) []bcase {
	var out []bcase
	pubEnc := encode(b.pubPlain)
	for _, m := range publicMutators(b.pubPlain, b.st.alts) {
		m := m
		out = append(out, bcase{m.name, m.gname, func() evalOut {
			pub := m.apply(b.pubPlain)
			if encode(pub) == pubEnc {
				return evalOut{trivial: true}
			}
			return evalOut{v: verifySt(s, baseCtx, pub, p1), desc: "mutated statement: " + describe(pub)}
		}})
	}
	for _, c := range contexts {
		if c == baseCtx {
			continue
		}
		c := c
		out = append(out, bcase{"ctx:" + c, "ctx:" + c, func() evalOut {
			return evalOut{v: verifySt(s, c, b.pubPlain, p1), desc: "proof made for context " + baseCtx + ", verified in context " + c}
		}})
	}
	prEnc := encode(p1)
	for _, m := range proofMutators(p1, p2, b.pubPlain, vkit.Thorough()) {
		m := m
		out = append(out, bcase{m.name, m.gname, func() evalOut {
			pr := m.apply(p1)
			if encode(pr) == prEnc {
				return evalOut{trivial: true}
			}
			return evalOut{v: verifySt(s, baseCtx, b.pubPlain, pr), desc: "mutated proof: " + describe(pr)}
		}})
	}
	return out
}

// runBinding evaluates the mutators i with i%chunks==chunk (or only the named one) of a point.
func runBinding(s *system, pt point, chunk int, only string) (violated bool) {
	b, err := buildSt(s, pt, 0)
	if err != "" {
		res.Hard(s.name + " " + pt.String() + ": " + err)
		return
	}
	po1 := proveSt(s, b, pt, 0, "prove1", baseCtx)
	po2 := proveSt(s, b, pt, 0, "prove2", baseCtx)
	if po1.panicked || po2.panicked || isNilProof(po1.proof) || isNilProof(po2.proof) {
		res.Case("") // no honest proof at this point: reported by the completeness pass
		logf("binding %s %s: no honest proof (%v %v)", s.name, pt, po1.msg, po2.msg)
		return
	}
	v1, v2 := verifySt(s, baseCtx, b.pubPlain, po1.proof), verifySt(s, baseCtx, b.pubPlain, po2.proof)
	if !v1.ok || !v2.ok {
		res.Case("")
		logf("binding %s %s: honest proof does not verify", s.name, pt)
		return
	}
	if encode(po1.proof) == encode(po2.proof) {
		res.Hard(fmt.Sprintf("%s %s: two proofs with different randomness are identical", s.name, pt))
	}
	for i, c := range bindingCases(s, b, po1.proof, po2.proof) {
		if only != "" {
			if c.name != only {
				continue
			}
		} else if i%nChunks(s) != chunk {
			continue
		}
		id := caseID{Sys: s.name, Kind: "binding", Point: pt, Mut: c.name, Chunk: chunk}
		o := c.run()
		if o.trivial {
			res.Case("")
			count(s.name, "binding-trivial")
			logf("binding %s %s %s: trivial (object unchanged)", s.name, pt, c.name)
			continue
		}
		res.Case(id.key())
		count(s.name, "binding")
		logf("binding %s %s %s: verify=%v panic=%v %s", s.name, pt, c.name, o.v.ok, o.v.panicked, o.v.msg)
		if len(res.Samples) < 3 && i%7 == 3 {
			res.Sample(map[string]interface{}{"case": id, "verify": o.v.ok})
		}
		switch {
		case o.v.panicked:
			violated = true
			res.Violate(fmt.Sprintf("panic|%s|%s", s.name, o.v.fr), fmt.Sprintf("Verify panicked: %s\nsystem %s, point %s, mutator %s\n%s", o.v.msg, s.name, pt, c.name, o.desc), id)
		case o.v.ok:
			violated = true
			res.Violate(fmt.Sprintf("zk|%s|binding|%s|verifies%s", s.name, c.gname, degenerate(pt)),
				fmt.Sprintf("Verify returned true although the triple was changed\nsystem %s, point %s, mutator %s\noriginal statement: %s\n%s", s.name, pt, c.name, describe(b.pubPlain), o.desc), id)
		}
	}
	return
}

// runFalse: soundness smoke test.  One relation of the statement is broken (one public field
// replaced, exactly the public mutators of the binding test) and the *honest prover algorithm*
// is run on the false statement with the old witness: every verification equation that does
// not involve the broken relation holds, so only the check of that relation can reject.  This
// is what exposes a dropped verification equation — substitution tests cannot, because every
// field is hashed into the challenge and a changed field breaks all equations at once.
func runFalse(s *system, pt point, chunk int, only string) (violated bool) {
	b, err := buildSt(s, pt, 0)
	if err != "" {
		res.Hard(s.name + " " + pt.String() + ": " + err)
		return
	}
	base := encode(b.st.pub)
	ls := leaves(b.st.pub)
	for i, m := range publicMutators(b.st.pub, b.st.alts) {
		if only != "" {
			if m.name != only {
				continue
			}
		} else if i%nChunks(s) != chunk {
			continue
		}
		// auxiliary Pedersen parameters are not part of the relation (except in prm, where they are the statement)
		if ls[m.edits[0].idx].k == kPed && s.name != "prm" {
			continue
		}
		id := caseID{Sys: s.name, Kind: "false-statement", Point: pt, Mut: m.name, Chunk: chunk}
		pub := m.apply(b.st.pub)
		if encode(pub) == base {
			res.Case("")
			continue
		}
		fb := &built{st: &statement{pub: pub, priv: b.st.priv}, pubPlain: plainify(pub)}
		po := proveSt(s, fb, pt, 0, "prove-false|"+m.name, baseCtx)
		if po.panicked || isNilProof(po.proof) {
			res.Case("")
			count(s.name, "false-statement-prover-refused")
			logf("false-statement %s %s %s: prover refused (%s)", s.name, pt, m.name, po.msg)
			continue
		}
		res.Case(id.key())
		count(s.name, "false-statement")
		v := verifySt(s, baseCtx, fb.pubPlain, po.proof)
		logf("false-statement %s %s %s: verify=%v panic=%v %s", s.name, pt, m.name, v.ok, v.panicked, v.msg)
		switch {
		case v.panicked:
			violated = true
			res.Violate(fmt.Sprintf("panic|%s|%s", s.name, v.fr), fmt.Sprintf("Verify panicked: %s\nsystem %s, point %s, false statement %s\nstatement: %s", v.msg, s.name, pt, m.name, describe(fb.pubPlain)), id)
		case v.ok:
			violated = true
			res.Violate(fmt.Sprintf("zk|%s|false-statement|%s|accepted", s.name, m.gname),
				fmt.Sprintf("a proof made by the honest algorithm for a FALSE statement verifies (the relation involving the replaced field is not checked)\nsystem %s, point %s, broken by %s\ntrue statement: %s\nfalse statement: %s\nproof: %s", s.name, pt, m.name, describe(b.pubPlain), describe(fb.pubPlain), describe(po.proof)), id)
		}
	}
	return
}

func falsePoints(s *system) []point {
	out := []point{merge(witDiag(s, "rand"), confDefault(s))}
	if vkit.Thorough() && len(s.coords) > 0 {
		// integer witnesses at their bounds; scalar witnesses stay random: at the special scalars
		// ±1 a swapped pair of points can form a TRUE statement again (Y = -H ⇒ H = -Y)
		for _, d := range []string{"max", "-max"} {
			p := merge(witDiag(s, d), confDefault(s))
			for _, c := range s.coords {
				if c.kind == cScalar {
					p[c.name] = "rand"
				}
			}
			out = append(out, p)
		}
	}
	return dedup(out)
}

func runRange(s *system, pt point) bool {
	id := caseID{Sys: s.name, Kind: "range", Point: pt}
	b, err := buildSt(s, pt, 0)
	if err != "" {
		res.Hard(s.name + " " + pt.String() + ": " + err)
		return false
	}
	po := proveSt(s, b, pt, 0, "prove1", baseCtx)
	if po.panicked || isNilProof(po.proof) {
		res.Case("") // the honest algorithm refuses this witness: nothing to verify
		count(s.name, "range-prover-refused")
		logf("range %s %s: prover refused (%s)", s.name, pt, po.msg)
		return false
	}
	res.Case(id.key())
	count(s.name, "range")
	v := verifySt(s, baseCtx, b.pubPlain, po.proof)
	logf("range %s %s: verify=%v panic=%v %s", s.name, pt, v.ok, v.panicked, v.msg)
	if len(res.Samples) < 7 {
		res.Sample(map[string]interface{}{"case": id, "verify": v.ok})
	}
	min := point{}
	base := neutral(s, pt)
	for k, val := range pt {
		if base[k] != val && !strings.HasPrefix(k, "keys") && k != "nonce" && k != "gen" {
			min[k] = val
		}
	}
	switch {
	case v.panicked:
		res.Violate(fmt.Sprintf("panic|%s|%s", s.name, v.fr), fmt.Sprintf("Verify panicked on an out-of-range proof: %s\nsystem %s, point %s\nproof: %s", v.msg, s.name, pt, describe(po.proof)), id)
		return true
	case v.ok:
		res.Violate(fmt.Sprintf("zk|%s|range|%s|accepted", s.name, min),
			fmt.Sprintf("a proof made by the honest algorithm for a witness outside the slack range verifies (the range check did not fire)\nsystem %s, point %s\nproof: %s", s.name, pt, describe(po.proof)), id)
		return true
	}
	return false
}

// ---- main -----------------------------------------------------------------------------------------

// cpuNow: user+system CPU seconds consumed by this process (wall time is useless on a loaded machine)
func cpuNow() float64 {
	var ru syscall.Rusage
	if syscall.Getrusage(syscall.RUSAGE_SELF, &ru) != nil {
		return 0
	}
	return float64(ru.Utime.Sec+ru.Stime.Sec) + float64(ru.Utime.Usec+ru.Stime.Usec)/1e6
}

func nChunks(s *system) int {
	if vkit.Thorough() && s.chunkT > 0 {
		return s.chunkT
	}
	return s.chunks
}

type unit struct {
	s     *system
	kind  string
	pt    point
	seed  int
	chunk int
	forge *forgery
}

func units(sys []*system) []unit {
	var us []unit
	seeds := 1
	if vkit.Thorough() {
		seeds = 3
	}
	for _, s := range sys {
		if vkit.Want(s.name + "|binding") {
			for _, pt := range bindingPoints(s) {
				for c := 0; c < nChunks(s); c++ {
					us = append(us, unit{s: s, kind: "binding", pt: pt, chunk: c})
				}
			}
		}
	}
	for _, s := range sys {
		if vkit.Want(s.name + "|completeness") {
			for _, pt := range completenessPoints(s) {
				for sd := 0; sd < seeds; sd++ {
					us = append(us, unit{s: s, kind: "completeness", pt: pt, seed: sd})
				}
			}
			// Pedersen parameters over another modulus than the verifier's Paillier modulus: whether a confusion of
			// the two moduli shows depends on the responses, so several challenges
			for _, c := range s.conf {
				if c.name != "aux" {
					continue
				}
				pt := merge(witDiag(s, "rand"), confDefault(s))
				pt["aux"] = "foreign"
				for _, k := range []string{"P", "V"} {
					q := merge(pt, point{"keys": k})
					for sd := 0; sd < midPlainSeeds; sd++ {
						us = append(us, unit{s: s, kind: "completeness", pt: q, seed: 200 + sd})
					}
				}
			}
			// witnesses that may be any plaintext: mid- and top-of-range magnitudes, several challenges each
			for _, c := range s.coords {
				if c.kind != cPlain {
					continue
				}
				for _, l := range midPlainLabels {
					pt := merge(witDiag(s, "rand"), confDefault(s))
					pt[c.name] = l
					for sd := 0; sd < midPlainSeeds; sd++ {
						us = append(us, unit{s: s, kind: "completeness", pt: pt, seed: 100 + sd})
					}
				}
			}
		}
		if vkit.Want(s.name + "|false-statement") {
			for _, pt := range falsePoints(s) {
				for c := 0; c < nChunks(s); c++ {
					us = append(us, unit{s: s, kind: "false-statement", pt: pt, chunk: c})
				}
			}
		}
		if vkit.Want(s.name + "|range") {
			for _, pt := range rangePoints(s) {
				us = append(us, unit{s: s, kind: "range", pt: pt})
			}
		}
	}
	for _, f := range forgeries() {
		if vkit.Want(f.sys + "|forgery") {
			us = append(us, unit{s: sysByNm[f.sys], kind: "forgery", forge: f})
		}
	}
	return us
}

func main() {
	res = vkit.Init("C10")
	res.Rule = "one case = (proof system, kind, lattice point of witnesses/keys/nonces, seed index, mutator); completeness: an honest proof at that point; binding: one single-field substitution of the statement, the context or the proof (cases whose substitution leaves the encoded object unchanged are trivial and not counted); range: an honest-algorithm proof for a witness beyond the slack range; false-statement: an honest-algorithm proof for a statement with one relation broken; forgery: one adaptive-statement forgery, one adaptive commitment-field forgery (false statement, honest prover algorithm, the commitment solved from its verification equation after the challenge) or one commitment re-chosen after the challenge, each in two contexts"
	res.Assumptions = []string{
		"randomness of provers is a SHA-256 counter-mode DRBG seeded per case; pool=nil",
		"contexts are hash.New() + session bytes + party id, as round.Helper.HashForID builds them",
		"documented witness ranges are taken from the Private struct comments / the paper's figures: ±2^l (enc k, encelg x, logstar x, affg/affp x, mulstar x, mul x), ±2^l' (affg/affp y), any plaintext (dec y), fac: p,q < 2^(l+eps)·sqrt(N0)",
		"out-of-range witnesses are ≥ 2^(l+eps+2), so that |e·w| exceeds the mask for every challenge e≠0 and only the range check can reject",
	}
	drv.Install()
	drv.Use(drv.NewDRBG("c10|init", *vkit.Seed))
	initEnv()
	sys := systems()
	for _, s := range sys {
		sysByNm[s.name] = s
	}
	{
		var rp caseID
		if vkit.LoadReplay(&rp) {
			verbose = true
			s := sysByNm[rp.Sys]
			if s == nil {
				fmt.Println("unknown system", rp.Sys)
				os.Exit(2)
			}
			bad := false
			switch rp.Kind {
			case "completeness":
				bad = !runCompleteness(s, rp.Point, rp.Seed)
			case "binding":
				bad = runBinding(s, rp.Point, rp.Chunk, rp.Mut)
			case "range":
				bad = runRange(s, rp.Point)
			case "false-statement":
				bad = runFalse(s, rp.Point, rp.Chunk, rp.Mut)
			case "forgery":
				for _, f := range forgeries() {
					if f.sys == rp.Sys && f.field == rp.Mut {
						bad = runForgery(f)
					}
				}
			}
			for _, v := range res.Violations {
				fmt.Println("VIOLATION", v.Sig)
				fmt.Println(v.Detail)
			}
			if bad {
				os.Exit(1)
			}
			return
		}
	}
	deadline := vkit.Deadline(240*time.Second, 40*time.Minute)
	us := units(sys)
	skipped := 0
	cpu := map[string]float64{}
	for k, u := range us {
		if !vkit.Mine(k) {
			continue
		}
		if !deadline.IsZero() && time.Now().After(deadline) {
			skipped++
			continue
		}
		t0 := cpuNow()
		switch u.kind {
		case "completeness":
			runCompleteness(u.s, u.pt, u.seed)
		case "binding":
			runBinding(u.s, u.pt, u.chunk, "")
		case "range":
			runRange(u.s, u.pt)
		case "false-statement":
			runFalse(u.s, u.pt, u.chunk, "")
		case "forgery":
			runForgery(u.forge)
		}
		nm := "?"
		if u.s != nil {
			nm = u.s.name
		} else if u.forge != nil {
			nm = u.forge.sys
		}
		cpu[nm] += cpuNow() - t0
	}
	for k, v := range cpu {
		res.Extra["cpu_s."+k] = float64(int(v*10)) / 10
	}
	if skipped > 0 {
		res.Exhaustive = false
		res.Note(fmt.Sprintf("internal deadline reached: %d work units of this shard were not run", skipped))
	}
	if vkit.ShardI() == 0 {
		var nr []string
		for _, s := range sys {
			if s.noRange != "" {
				nr = append(nr, s.name+" ("+s.noRange+")")
			}
		}
		res.Note("no range test for: " + strings.Join(nr, "; "))
		res.Note("mod/prm/fac: witnesses are not free parameters; the two fixed key pairs of pkg/zk and a deterministic 512-bit Blum modulus are used (toy moduli such as 7·11 make the challenge hit non-units with noticeable probability and are not a documented domain)")
		res.Note(forgeryNote)
		res.Extra["work_units"] = len(us)
	}
	res.Finish()
}

var _ = hash.New
