package main

// (e'') Commitments that cannot be solved for (forge3.go, "not covered"): the Pedersen commitments
// to the witness stand in the S^e position of  s^z·t^z' = C·S^e  and mod's first message W enters
// x_i^4 = (-1)^a_i·W^b_i·y_i.  No false statement can be reached through them by linear algebra,
// but whether the challenge depends on them can still be decided with the real Verify: take an
// honest proof of a TRUE statement, obtain e from the package's own challenge function, re-choose
// the commitment (S' = S·t^d, W' = W·c^4) and adapt the one response that opens it using e
// (z' = z + e·d, x_i' = x_i·c^b_i).  All equations hold for the OLD e; on correct code the new
// commitment is hashed, e changes and Verify rejects; if the field is not hashed Verify accepts a
// proof whose first message was chosen after the challenge (signature zk|<sys>|commitment-unbound|<field>|accepted).
// Control: tools/c10_commitment_mutants.py requires acceptance when the field is dropped from challenge().

import (
	"crypto/rand"
	"math/big"

	"github.com/cronokirby/saferith"
	"github.com/taurusgroup/multi-party-sig/pkg/math/sample"
	"github.com/taurusgroup/multi-party-sig/pkg/pedersen"
	zkaffg "github.com/taurusgroup/multi-party-sig/pkg/zk/affg"
	zkaffp "github.com/taurusgroup/multi-party-sig/pkg/zk/affp"
	zkdec "github.com/taurusgroup/multi-party-sig/pkg/zk/dec"
	zkenc "github.com/taurusgroup/multi-party-sig/pkg/zk/enc"
	zkencelg "github.com/taurusgroup/multi-party-sig/pkg/zk/encelg"
	zkfac "github.com/taurusgroup/multi-party-sig/pkg/zk/fac"
	zklogstar "github.com/taurusgroup/multi-party-sig/pkg/zk/logstar"
	zkmod "github.com/taurusgroup/multi-party-sig/pkg/zk/mod"
	zkmulstar "github.com/taurusgroup/multi-party-sig/pkg/zk/mulstar"
)

const rebindNote = "commitments in the exponent position (enc.S, encelg.S, logstar.S, affg.S/T, affp.S/T, mulstar.S, dec.S, fac.P/Q) and mod.W are re-chosen after the challenge on a true statement (S' = S·t^d with z' = z + e·d; W' = W·c^4 with x_i' = x_i·c^b_i): accepted iff the challenge does not depend on them"

// pedShift: S·t^d (mod N̂)
func pedShift(ped *pedersen.Parameters, S *saferith.Nat, d *saferith.Int) *saferith.Nat {
	return new(saferith.Nat).ModMul(S, ped.NArith().ExpI(ped.T(), d), ped.N())
}

func rb(sys, field, how string, mk func(ctx string) (interface{}, interface{})) *forgery {
	return &forgery{sys: sys, field: rebindPrefix + field, eq: how, make: mk}
}

func rebindForgeries() []*forgery {
	var l []*forgery
	ch := func(e *saferith.Int, err error) *saferith.Int {
		must(err == nil, "challenge")
		return e
	}
	d := func() *saferith.Int { return sample.IntervalL(rand.Reader) }

	l = append(l, rb("enc", "S", "S' = S·t^d, z3' = z3 + e·d", func(ctx string) (interface{}, interface{}) {
		s, st := trueSt("enc")
		pub := st.pub.(*zkenc.Public)
		p := honestOn(s, ctx, pub, st).(*zkenc.Proof)
		e, dd := ch(zkenc.VerifChallenge(ctxHash(ctx), group, *pub, p.Commitment)), d()
		p.S, p.Z3 = pedShift(pub.Aux, p.S, dd), resp(e, dd, p.Z3)
		return plainify(pub), p
	}))
	l = append(l, rb("encelg", "S", "S' = S·t^d, z3' = z3 + e·d", func(ctx string) (interface{}, interface{}) {
		s, st := trueSt("encelg")
		pub := st.pub.(*zkencelg.Public)
		p := honestOn(s, ctx, pub, st).(*zkencelg.Proof)
		e, dd := ch(zkencelg.VerifChallenge(ctxHash(ctx), group, *pub, p.Commitment)), d()
		p.S, p.Z3 = pedShift(pub.Aux, p.S, dd), resp(e, dd, p.Z3)
		return plainify(pub), p
	}))
	l = append(l, rb("logstar", "S", "S' = S·t^d, z3' = z3 + e·d", func(ctx string) (interface{}, interface{}) {
		s, st := trueSt("logstar")
		pub := st.pub.(*zklogstar.Public)
		p := honestOn(s, ctx, pub, st).(*zklogstar.Proof)
		hp := *pub
		hp.G = group.NewBasePoint() // Verify replaces a nil generator by the base point before it hashes
		e, dd := ch(zklogstar.VerifChallenge(ctxHash(ctx), group, hp, p.Commitment)), d()
		p.S, p.Z3 = pedShift(pub.Aux, p.S, dd), resp(e, dd, p.Z3)
		return plainify(pub), p
	}))
	for _, f := range []string{"S", "T"} {
		f := f
		l = append(l, rb("affg", f, map[string]string{"S": "S' = S·t^d, z3' = z3 + e·d", "T": "T' = T·t^d, z4' = z4 + e·d"}[f], func(ctx string) (interface{}, interface{}) {
			s, st := trueSt("affg")
			pub := st.pub.(*zkaffg.Public)
			p := honestOn(s, ctx, pub, st).(*zkaffg.Proof)
			e, dd := ch(zkaffg.VerifChallenge(ctxHash(ctx), group, *pub, p.Commitment)), d()
			if f == "S" {
				p.S, p.Z3 = pedShift(pub.Aux, p.S, dd), resp(e, dd, p.Z3)
			} else {
				p.T, p.Z4 = pedShift(pub.Aux, p.T, dd), resp(e, dd, p.Z4)
			}
			return plainify(pub), p
		}))
	}
	for _, f := range []string{"S", "T"} {
		f := f
		l = append(l, rb("affp", f, map[string]string{"S": "S' = S·t^d, z3' = z3 + e·d", "T": "T' = T·t^d, z4' = z4 + e·d"}[f], func(ctx string) (interface{}, interface{}) {
			s, st := trueSt("affp")
			pub := st.pub.(*zkaffp.Public)
			p := honestOn(s, ctx, pub, st).(*zkaffp.Proof)
			e, dd := ch(zkaffp.VerifChallenge(ctxHash(ctx), group, *pub, p.Commitment)), d()
			if f == "S" {
				p.S, p.Z3 = pedShift(pub.Aux, p.S, dd), resp(e, dd, p.Z3)
			} else {
				p.T, p.Z4 = pedShift(pub.Aux, p.T, dd), resp(e, dd, p.Z4)
			}
			return plainify(pub), p
		}))
	}
	l = append(l, rb("mulstar", "S", "S' = S·t^d, z2' = z2 + e·d", func(ctx string) (interface{}, interface{}) {
		s, st := trueSt("mulstar")
		pub := st.pub.(*zkmulstar.Public)
		p := honestOn(s, ctx, pub, st).(*zkmulstar.Proof)
		e, dd := ch(zkmulstar.VerifChallenge(ctxHash(ctx), group, *pub, p.Commitment)), d()
		p.S, p.Z2 = pedShift(pub.Aux, p.S, dd), resp(e, dd, p.Z2)
		return plainify(pub), p
	}))
	l = append(l, rb("dec", "S", "S' = S·t^d, z2' = z2 + e·d", func(ctx string) (interface{}, interface{}) {
		s, st := trueSt("dec")
		pub := st.pub.(*zkdec.Public)
		p := honestOn(s, ctx, pub, st).(*zkdec.Proof)
		e, dd := ch(zkdec.VerifChallenge(ctxHash(ctx), group, *pub, p.Commitment)), d()
		p.S, p.Z2 = pedShift(pub.Aux, p.S, dd), resp(e, dd, p.Z2)
		return plainify(pub), p
	}))
	l = append(l, rb("fac", "P", "P' = P·t^d, w1' = w1 + e·d", func(ctx string) (interface{}, interface{}) {
		s, st := trueSt("fac")
		pub := st.pub.(*zkfac.Public)
		p := honestOn(s, ctx, pub, st).(*zkfac.Proof)
		e, dd := ch(zkfac.VerifChallenge(ctxHash(ctx), *pub, p.Comm)), d()
		p.Comm.P, p.W1 = pedShift(pub.Aux, p.Comm.P, dd), resp(e, dd, p.W1)
		return plainify(pub), p
	}))
	// Q is also the base of the third equation Q^z1·t^v = T·R^e: v' = v − d·z1 keeps it
	l = append(l, rb("fac", "Q", "Q' = Q·t^d, w2' = w2 + e·d, v' = v − d·z1", func(ctx string) (interface{}, interface{}) {
		s, st := trueSt("fac")
		pub := st.pub.(*zkfac.Public)
		p := honestOn(s, ctx, pub, st).(*zkfac.Proof)
		e, dd := ch(zkfac.VerifChallenge(ctxHash(ctx), *pub, p.Comm)), d()
		p.Comm.Q, p.W2, p.V = pedShift(pub.Aux, p.Comm.Q, dd), resp(e, dd, p.W2), resp(negI(dd), p.Z1, p.V)
		return plainify(pub), p
	}))
	// mod: W' = W·c^4 (Jacobi symbol unchanged), x_i' = x_i·c for the instances with b_i = 1
	l = append(l, rb("mod", "W", "W' = W·c^4, x_i' = x_i·c^b_i", func(ctx string) (interface{}, interface{}) {
		s, st := trueSt("mod")
		pub := st.pub.(*zkmod.Public)
		p := honestOn(s, ctx, pub, st).(*zkmod.Proof)
		n := pub.N.Big()
		c := sample.UnitModN(rand.Reader, pub.N).Big()
		c4 := new(big.Int).Exp(c, big.NewInt(4), n)
		w := new(big.Int).Mul(p.W, c4)
		p.W = w.Mod(w, n)
		used := 0
		for i := range p.Responses {
			if p.Responses[i].B {
				x := new(big.Int).Mul(p.Responses[i].X, c)
				p.Responses[i].X = x.Mod(x, n)
				used++
			}
		}
		must(used > 0, "no instance uses W")
		return plainify(pub), p
	}))
	return l
}
