package main

// (e') Adaptive COMMITMENT-field forgeries.  A verifier that leaves a commitment field C of the
// prover's first message out of the Fiat–Shamir hash still rejects a proof in which C alone was
// replaced (the equation containing C breaks), so substitution tests cannot see the omission.
// The attack that does: every verification equation has the form
//
//	L(responses) = C ∘ S^e        (C a commitment field, S a statement field or the commitment
//	                               the witness is bound by, in the group of that equation)
//
// so a prover publishes a statement that is FALSE in exactly the relation this equation checks,
// runs the honest prover algorithm with the witness of the true statement (all other equations
// hold), learns e and sets C := L(z) ∘ S^(-e).  On correct code C is hashed, e changes with C
// and Verify rejects; if C is not hashed, Verify accepts a false statement.
//
// For every system and every commitment field in the C position of an equation:
//   * statement fields in the S position: the library's own NewProof is run on the false statement
//     (adapter .prove), e comes from the package's own challenge function (read-only accessor
//     VerifChallenge, added through the overlay), C is solved with the library's arithmetic;
//   * Pedersen mask commitments (s^z1·t^z3 = C·S^e mod N̂, S the Pedersen commitment to the
//     witness): the false relation is "S commits to w+1 while the responses use w"; NewProof
//     cannot produce that, so the prover is replayed by hand.  Control for the replay: the same
//     replay without the deviation must give a proof that Verify accepts (else harness error).
// Control of the solving step, in every forgery: solving the same equation with the TRUE S must
// give back the honest commitment (L(z) = C·S^e holds for any e); a mismatch is a harness error,
// so a forgery that is rejected because it was built wrongly cannot count as covered.
// Control of the whole construction: tools/c10_commitment_mutants.py drops each covered field
// from challenge() in a scratch worktree and requires the forgery to be ACCEPTED there.
//
// Not covered by a forgery of a false statement (and why; forge4.go decides for these fields
// whether the challenge depends on them by re-choosing them after the challenge on a true statement):
//   * enc.S, encelg.S, logstar.S, affg.S/T, affp.S/T, mulstar.S, dec.S, fac.P/Q: Pedersen
//     commitments to the witness; they stand in the S^e position of their equation (fac.Q also as
//     a base), solving for them needs an e-th root modulo N̂ (hard without the factorisation of N̂,
//     and with the factorisation Pedersen is not binding, so "forgeries" verify on correct code);
//   * mod: no Commitment struct; the first message W (a non-residue) multiplies only the
//     instances with b_i = 1, one W must fit all 80 equations x_i^4 = ±W^b_i·y_i and the
//     challenge y_i takes the place of S, so there is no equation L(z) = W ∘ S^e to solve.

import (
	"crypto/rand"
	"math/big"

	"github.com/cronokirby/saferith"
	"github.com/taurusgroup/multi-party-sig/internal/elgamal"
	"github.com/taurusgroup/multi-party-sig/pkg/math/arith"
	"github.com/taurusgroup/multi-party-sig/pkg/math/curve"
	"github.com/taurusgroup/multi-party-sig/pkg/math/sample"
	"github.com/taurusgroup/multi-party-sig/pkg/paillier"
	"github.com/taurusgroup/multi-party-sig/pkg/pedersen"
	zkaffg "github.com/taurusgroup/multi-party-sig/pkg/zk/affg"
	zkaffp "github.com/taurusgroup/multi-party-sig/pkg/zk/affp"
	zkdec "github.com/taurusgroup/multi-party-sig/pkg/zk/dec"
	zkelog "github.com/taurusgroup/multi-party-sig/pkg/zk/elog"
	zkenc "github.com/taurusgroup/multi-party-sig/pkg/zk/enc"
	zkencelg "github.com/taurusgroup/multi-party-sig/pkg/zk/encelg"
	zkfac "github.com/taurusgroup/multi-party-sig/pkg/zk/fac"
	zklog "github.com/taurusgroup/multi-party-sig/pkg/zk/log"
	zklogstar "github.com/taurusgroup/multi-party-sig/pkg/zk/logstar"
	zkmul "github.com/taurusgroup/multi-party-sig/pkg/zk/mul"
	zkmulstar "github.com/taurusgroup/multi-party-sig/pkg/zk/mulstar"
	zknth "github.com/taurusgroup/multi-party-sig/pkg/zk/nth"
	zkprm "github.com/taurusgroup/multi-party-sig/pkg/zk/prm"
	zksch "github.com/taurusgroup/multi-party-sig/pkg/zk/sch"
)

const commitmentForgeryNote = "adaptive commitment-field forgeries (false statement, honest prover algorithm, commitment solved from its verification equation after the challenge) are mounted for sch C; log A,B,C; elog A,N,B; enc A,C; encelg D,Y,Z,T; logstar A,Y,D; affg A,Bx,By,E,F; affp A,Bx,By,E,F; mul A,B; mulstar A,Bx,E; dec A,Gamma,T; fac A,B,T; nth A; prm As. Not solvable (exponent position of their equation): the Pedersen commitments to the witness enc.S, encelg.S, logstar.S, affg.S/T, affp.S/T, mulstar.S, dec.S, fac.P/Q; mod has no commitment in a linear equation (W)"

func must(ok bool, what string) {
	if !ok {
		panic("harness: " + what)
	}
}

func negI(e *saferith.Int) *saferith.Int { return new(saferith.Int).SetInt(e).Neg(1) }

func intOne() *saferith.Int { return intFromBig(big.NewInt(1)) }

// ctPlus1: ct ⊕ Enc(1;1) — the ciphertext of the neighbouring plaintext, same nonce
func ctPlus1(pk *paillier.PublicKey, ct *paillier.Ciphertext) *paillier.Ciphertext {
	return ct.Clone().Add(pk, pk.EncWithNonce(intOne(), natFromBig(big.NewInt(1))))
}

// ctSolve: lhs ⊖ (e ⊙ S), the C of   lhs = (e ⊙ S) ⊕ C   (mod N²)
func ctSolve(pk *paillier.PublicKey, lhs, S *paillier.Ciphertext, e *saferith.Int) *paillier.Ciphertext {
	return lhs.Clone().Add(pk, S.Clone().Mul(pk, negI(e)))
}

// ptSolve: lhs − e·S, the C of   lhs = C + e·S
func ptSolve(lhs, S curve.Point, e curve.Scalar) curve.Point { return lhs.Sub(e.Act(S)) }

// pedSolve: s^a·t^b·T^(-e), the S of   s^a·t^b = S·T^e   (mod N̂)
func pedSolve(ped *pedersen.Parameters, a, b, e *saferith.Int, T *saferith.Nat) *saferith.Nat {
	c := ped.Commit(a, b)
	return c.ModMul(c, ped.NArith().ExpI(T, negI(e)), ped.N())
}

func natEq(a, b *saferith.Nat) bool { return a.Eq(b) == 1 }

// symModN: the symmetric representative of z mod N (what mul / dec encrypt)
func symModN(z *saferith.Int, N *saferith.Modulus) *saferith.Int {
	return new(saferith.Int).SetModSymmetric(z.Mod(N), N)
}

func plusG(p curve.Point) curve.Point { return p.Add(group.NewBasePoint()) }

func addI(a *saferith.Int, d int64) *saferith.Int {
	return new(saferith.Int).Add(a, intFromBig(big.NewInt(d)), -1)
}

// trueSt builds the (true) statement of the neutral lattice point of a system (random witness,
// default configuration) from the current DRBG.
func trueSt(sys string) (*system, *statement) {
	s := sysByNm[sys]
	return s, s.build(neutral(s, nil))
}

// honestOn runs the library's prover on a (false) statement with the witness of the true one.
func honestOn(s *system, ctx string, pub interface{}, st *statement) interface{} {
	p := s.prove(ctxHash(ctx), &statement{pub: pub, priv: st.priv})
	must(!isNilProof(p), "the prover refused the false statement")
	return p
}

// replayVerifies is the control of a hand replay: the replay without deviation must verify.
func replayVerifies(sys, ctx string, pub, proof interface{}) {
	must(sysByNm[sys].verify(ctxHash(ctx), plainify(pub), proof), "control failed: the hand replay of the "+sys+" prover on the true statement does not verify")
}

func cf(sys, field, eq string, mk func(ctx string) (interface{}, interface{})) *forgery {
	return &forgery{sys: sys, field: commitmentPrefix + field, eq: eq, make: mk}
}

func commitmentForgeries() []*forgery {
	G := group.NewBasePoint()
	var l []*forgery

	// ---- sch: z·gen = C + e·X ; false: X' = X + G -------------------------------------------------
	l = append(l, cf("sch", "C", "z·gen = C + e·X", func(ctx string) (interface{}, interface{}) {
		s, st := trueSt("sch")
		pub := st.pub.(*schPublic)
		fp := &schPublic{X: plusG(pub.X)}
		p := honestOn(s, ctx, fp, st).(*zksch.Proof)
		e, err := zksch.VerifChallenge(ctxHash(ctx), group, &p.C, fp.X, G)
		must(err == nil, "challenge")
		lhs := p.Z.Z.ActOnBase()
		must(ptSolve(lhs, pub.X, e).Equal(p.C.C), "solving the equation with the true statement does not give the honest commitment")
		p.C.C = ptSolve(lhs, fp.X, e)
		return fp, p
	}))

	// ---- log: z1·G = A + e·X ; z1·H = B + e·Y ; z2·G = C + e·H ----------------------------------
	logForge := func(field, eq string, falsify func(fp *zklog.Public, a curve.Scalar), sOf func(p *zklog.Public) curve.Point,
		lhsOf func(pr *zklog.Proof, fp *zklog.Public) curve.Point, slot func(pr *zklog.Proof) *curve.Point) {
		l = append(l, cf("log", field, eq, func(ctx string) (interface{}, interface{}) {
			s, st := trueSt("log")
			pub := st.pub.(*zklog.Public)
			fp := *pub
			falsify(&fp, st.priv.(*zklog.Private).A)
			p := honestOn(s, ctx, &fp, st).(*zklog.Proof)
			e, err := zklog.VerifChallenge(ctxHash(ctx), group, fp, p.Commitment)
			must(err == nil, "challenge")
			lhs := lhsOf(p, &fp)
			// (field C: z2 = β + e·b with b·G = the true H, so z2·G − e·H is the honest C)
			must(ptSolve(lhs, sOf(pub), e).Equal(*slot(p)), "solving the equation with the true statement does not give the honest commitment")
			*slot(p) = ptSolve(lhs, sOf(&fp), e)
			return &fp, p
		}))
	}
	logForge("A", "z1·G = A + e·X", func(fp *zklog.Public, _ curve.Scalar) { fp.X = plusG(fp.X) },
		func(p *zklog.Public) curve.Point { return p.X },
		func(pr *zklog.Proof, _ *zklog.Public) curve.Point { return pr.Z1.ActOnBase() },
		func(pr *zklog.Proof) *curve.Point { return &pr.A })
	logForge("B", "z1·H = B + e·Y", func(fp *zklog.Public, _ curve.Scalar) { fp.Y = plusG(fp.Y) },
		func(p *zklog.Public) curve.Point { return p.Y },
		func(pr *zklog.Proof, fp *zklog.Public) curve.Point { return pr.Z1.Act(fp.H) },
		func(pr *zklog.Proof) *curve.Point { return &pr.B })
	// false: H' is a point whose discrete logarithm is not the witness b; Y' = a·H' keeps the second relation true
	logForge("C", "z2·G = C + e·H", func(fp *zklog.Public, a curve.Scalar) { fp.H = randPoint(); fp.Y = a.Act(fp.H) },
		func(p *zklog.Public) curve.Point { return p.H },
		func(pr *zklog.Proof, _ *zklog.Public) curve.Point { return pr.Z2.ActOnBase() },
		func(pr *zklog.Proof) *curve.Point { return &pr.C })

	// ---- elog: z·G = A + e·L ; u·G + z·X = N + e·M ; u·H = B + e·Y --------------------------------
	elogForge := func(field, eq string, falsify func(fp *zkelog.Public), sOf func(p *zkelog.Public) curve.Point,
		lhsOf func(pr *zkelog.Proof, fp *zkelog.Public) curve.Point, slot func(pr *zkelog.Proof) *curve.Point) {
		l = append(l, cf("elog", field, eq, func(ctx string) (interface{}, interface{}) {
			s, st := trueSt("elog")
			pub := st.pub.(*zkelog.Public)
			fp := *pub
			fp.E = &elgamal.Ciphertext{L: pub.E.L, M: pub.E.M}
			falsify(&fp)
			p := honestOn(s, ctx, &fp, st).(*zkelog.Proof)
			e, err := zkelog.VerifChallenge(ctxHash(ctx), group, fp, p.Commitment)
			must(err == nil, "challenge")
			lhs := lhsOf(p, &fp)
			must(ptSolve(lhs, sOf(pub), e).Equal(*slot(p)), "solving the equation with the true statement does not give the honest commitment")
			*slot(p) = ptSolve(lhs, sOf(&fp), e)
			return &fp, p
		}))
	}
	elogForge("A", "z·G = A + e·L", func(fp *zkelog.Public) { fp.E.L = plusG(fp.E.L) },
		func(p *zkelog.Public) curve.Point { return p.E.L },
		func(pr *zkelog.Proof, _ *zkelog.Public) curve.Point { return pr.Z.ActOnBase() },
		func(pr *zkelog.Proof) *curve.Point { return &pr.A })
	elogForge("N", "u·G + z·X = N + e·M", func(fp *zkelog.Public) { fp.E.M = plusG(fp.E.M) },
		func(p *zkelog.Public) curve.Point { return p.E.M },
		func(pr *zkelog.Proof, fp *zkelog.Public) curve.Point {
			return pr.U.ActOnBase().Add(pr.Z.Act(fp.ElGamalPublic))
		},
		func(pr *zkelog.Proof) *curve.Point { return &pr.N })
	elogForge("B", "u·H = B + e·Y", func(fp *zkelog.Public) { fp.Y = plusG(fp.Y) },
		func(p *zkelog.Public) curve.Point { return p.Y },
		func(pr *zkelog.Proof, fp *zkelog.Public) curve.Point { return pr.U.Act(fp.Base) },
		func(pr *zkelog.Proof) *curve.Point { return &pr.B })

	// ---- enc: Enc(z1;z2) = A ⊕ e⊙K ; s^z1·t^z3 = C·S^e --------------------------------------------
	l = append(l, cf("enc", "A", "Enc(z1;z2) = A ⊕ (e ⊙ K)", func(ctx string) (interface{}, interface{}) {
		s, st := trueSt("enc")
		pub := st.pub.(*zkenc.Public)
		fp := *pub
		fp.K = ctPlus1(pub.Prover, pub.K)
		p := honestOn(s, ctx, &fp, st).(*zkenc.Proof)
		e, err := zkenc.VerifChallenge(ctxHash(ctx), group, fp, p.Commitment)
		must(err == nil, "challenge")
		lhs := pub.Prover.EncWithNonce(p.Z1, p.Z2)
		must(ctSolve(pub.Prover, lhs, pub.K, e).Equal(p.A), "solving the equation with the true statement does not give the honest commitment")
		p.A = ctSolve(pub.Prover, lhs, fp.K, e)
		return plainify(&fp), p
	}))
	encReplay := func(ctx string, bump int64) (*zkenc.Public, *zkenc.Proof, *saferith.Int, *saferith.Nat) {
		_, st := trueSt("enc")
		pub, priv := st.pub.(*zkenc.Public), st.priv.(*zkenc.Private)
		N := pub.Prover.N()
		alpha, r := sample.IntervalLEps(rand.Reader), sample.UnitModN(rand.Reader, N)
		mu, gamma := sample.IntervalLN(rand.Reader), sample.IntervalLEpsN(rand.Reader)
		trueS := pub.Aux.Commit(priv.K, mu)
		cm := &zkenc.Commitment{S: pub.Aux.Commit(addI(priv.K, bump), mu), A: pub.Prover.EncWithNonce(alpha, r), C: pub.Aux.Commit(alpha, gamma)}
		e, err := zkenc.VerifChallenge(ctxHash(ctx), group, *pub, cm)
		must(err == nil, "challenge")
		ks := &keyset{pk: pub.Prover}
		return pub, &zkenc.Proof{Commitment: cm, Z1: resp(e, priv.K, alpha), Z2: nresp(ks, e, priv.Rho, r), Z3: resp(e, mu, gamma)}, e, trueS
	}
	l = append(l, cf("enc", "C", "s^z1·t^z3 = C·S^e (mod N̂)", func(ctx string) (interface{}, interface{}) {
		tp, tproof, _, _ := encReplay(ctx, 0)
		replayVerifies("enc", ctx, tp, tproof)
		pub, p, e, trueS := encReplay(ctx, 1) // S commits to k+1, the responses use k
		must(natEq(pedSolve(pub.Aux, p.Z1, p.Z3, e, trueS), p.C), "solving the equation with the true S does not give the honest commitment")
		p.C = pedSolve(pub.Aux, p.Z1, p.Z3, e, p.S)
		return plainify(pub), p
	}))

	// ---- encelg: Enc(z1;z2) = D ⊕ e⊙C ; w·A + z1·G = Y + e·X ; w·G = Z + e·B ; s^z1·t^z3 = T·S^e ----
	encelgForge := func(field, eq string, falsify func(fp *zkencelg.Public), solve func(pub, fp *zkencelg.Public, p *zkencelg.Proof, e *saferith.Int)) {
		l = append(l, cf("encelg", field, eq, func(ctx string) (interface{}, interface{}) {
			s, st := trueSt("encelg")
			pub := st.pub.(*zkencelg.Public)
			fp := *pub
			falsify(&fp)
			p := honestOn(s, ctx, &fp, st).(*zkencelg.Proof)
			e, err := zkencelg.VerifChallenge(ctxHash(ctx), group, fp, p.Commitment)
			must(err == nil, "challenge")
			solve(pub, &fp, p, e)
			return plainify(&fp), p
		}))
	}
	const ctlMsg = "solving the equation with the true statement does not give the honest commitment"
	encelgForge("D", "Enc(z1;z2) = D ⊕ (e ⊙ C)", func(fp *zkencelg.Public) { fp.C = ctPlus1(fp.Prover, fp.C) },
		func(pub, fp *zkencelg.Public, p *zkencelg.Proof, e *saferith.Int) {
			lhs := pub.Prover.EncWithNonce(p.Z1, p.Z2)
			must(ctSolve(pub.Prover, lhs, pub.C, e).Equal(p.D), ctlMsg)
			p.D = ctSolve(pub.Prover, lhs, fp.C, e)
		})
	encelgForge("Y", "w·A + z1·G = Y + e·X", func(fp *zkencelg.Public) { fp.X = plusG(fp.X) },
		func(pub, fp *zkencelg.Public, p *zkencelg.Proof, e *saferith.Int) {
			lhs := modq(p.Z1).ActOnBase().Add(p.W.Act(pub.A))
			must(ptSolve(lhs, pub.X, modq(e)).Equal(p.Y), ctlMsg)
			p.Y = ptSolve(lhs, fp.X, modq(e))
		})
	encelgForge("Z", "w·G = Z + e·B", func(fp *zkencelg.Public) { fp.B = plusG(fp.B) },
		func(pub, fp *zkencelg.Public, p *zkencelg.Proof, e *saferith.Int) {
			lhs := p.W.ActOnBase()
			must(ptSolve(lhs, pub.B, modq(e)).Equal(p.Z), ctlMsg)
			p.Z = ptSolve(lhs, fp.B, modq(e))
		})
	encelgReplay := func(ctx string, bump int64) (*zkencelg.Public, *zkencelg.Proof, *saferith.Int, *saferith.Nat) {
		_, st := trueSt("encelg")
		pub, priv := st.pub.(*zkencelg.Public), st.priv.(*zkencelg.Private)
		N := pub.Prover.N()
		alpha, mu, r := sample.IntervalLEps(rand.Reader), sample.IntervalLN(rand.Reader), sample.UnitModN(rand.Reader, N)
		beta, gamma := sample.Scalar(rand.Reader, group), sample.IntervalLEpsN(rand.Reader)
		trueS := pub.Aux.Commit(priv.X, mu)
		cm := &zkencelg.Commitment{S: pub.Aux.Commit(addI(priv.X, bump), mu), D: pub.Prover.EncWithNonce(alpha, r),
			Y: beta.Act(pub.A).Add(modq(alpha).ActOnBase()), Z: beta.ActOnBase(), T: pub.Aux.Commit(alpha, gamma)}
		e, err := zkencelg.VerifChallenge(ctxHash(ctx), group, *pub, cm)
		must(err == nil, "challenge")
		p := zkencelg.Empty(group)
		p.Commitment = cm
		p.Z1, p.W, p.Z2, p.Z3 = resp(e, priv.X, alpha), modq(e).Mul(priv.B).Add(beta), nresp(&keyset{pk: pub.Prover}, e, priv.Rho, r), resp(e, mu, gamma)
		return pub, p, e, trueS
	}
	l = append(l, cf("encelg", "T", "s^z1·t^z3 = T·S^e (mod N̂)", func(ctx string) (interface{}, interface{}) {
		tp, tproof, _, _ := encelgReplay(ctx, 0)
		replayVerifies("encelg", ctx, tp, tproof)
		pub, p, e, trueS := encelgReplay(ctx, 1)
		must(natEq(pedSolve(pub.Aux, p.Z1, p.Z3, e, trueS), p.T), "solving the equation with the true S does not give the honest commitment")
		p.T = pedSolve(pub.Aux, p.Z1, p.Z3, e, p.S)
		return plainify(pub), p
	}))

	// ---- logstar: Enc(z1;z2) = A ⊕ e⊙C ; z1·G = Y + e·X ; s^z1·t^z3 = D·S^e ------------------------
	logstarCh := func(ctx string, pub zklogstar.Public, cm *zklogstar.Commitment) *saferith.Int {
		pub.G = G // Verify replaces a nil generator by the base point before it hashes
		e, err := zklogstar.VerifChallenge(ctxHash(ctx), group, pub, cm)
		must(err == nil, "challenge")
		return e
	}
	logstarForge := func(field, eq string, falsify func(fp *zklogstar.Public), solve func(pub, fp *zklogstar.Public, p *zklogstar.Proof, e *saferith.Int)) {
		l = append(l, cf("logstar", field, eq, func(ctx string) (interface{}, interface{}) {
			s, st := trueSt("logstar")
			pub := st.pub.(*zklogstar.Public)
			fp := *pub
			falsify(&fp)
			p := honestOn(s, ctx, &fp, st).(*zklogstar.Proof)
			solve(pub, &fp, p, logstarCh(ctx, fp, p.Commitment))
			return plainify(&fp), p
		}))
	}
	logstarForge("A", "Enc(z1;z2) = A ⊕ (e ⊙ C)", func(fp *zklogstar.Public) { fp.C = ctPlus1(fp.Prover, fp.C) },
		func(pub, fp *zklogstar.Public, p *zklogstar.Proof, e *saferith.Int) {
			lhs := pub.Prover.EncWithNonce(p.Z1, p.Z2)
			must(ctSolve(pub.Prover, lhs, pub.C, e).Equal(p.A), ctlMsg)
			p.A = ctSolve(pub.Prover, lhs, fp.C, e)
		})
	logstarForge("Y", "z1·G = Y + e·X", func(fp *zklogstar.Public) { fp.X = plusG(fp.X) },
		func(pub, fp *zklogstar.Public, p *zklogstar.Proof, e *saferith.Int) {
			lhs := modq(p.Z1).ActOnBase()
			must(ptSolve(lhs, pub.X, modq(e)).Equal(p.Y), ctlMsg)
			p.Y = ptSolve(lhs, fp.X, modq(e))
		})
	logstarReplay := func(ctx string, bump int64) (*zklogstar.Public, *zklogstar.Proof, *saferith.Int, *saferith.Nat) {
		_, st := trueSt("logstar")
		pub, priv := st.pub.(*zklogstar.Public), st.priv.(*zklogstar.Private)
		N := pub.Prover.N()
		alpha, r := sample.IntervalLEps(rand.Reader), sample.UnitModN(rand.Reader, N)
		mu, gamma := sample.IntervalLN(rand.Reader), sample.IntervalLEpsN(rand.Reader)
		trueS := pub.Aux.Commit(priv.X, mu)
		cm := &zklogstar.Commitment{S: pub.Aux.Commit(addI(priv.X, bump), mu), A: pub.Prover.EncWithNonce(alpha, r), Y: modq(alpha).ActOnBase(), D: pub.Aux.Commit(alpha, gamma)}
		e := logstarCh(ctx, *pub, cm)
		p := zklogstar.Empty(group)
		p.Commitment = cm
		p.Z1, p.Z2, p.Z3 = resp(e, priv.X, alpha), nresp(&keyset{pk: pub.Prover}, e, priv.Rho, r), resp(e, mu, gamma)
		return pub, p, e, trueS
	}
	l = append(l, cf("logstar", "D", "s^z1·t^z3 = D·S^e (mod N̂)", func(ctx string) (interface{}, interface{}) {
		tp, tproof, _, _ := logstarReplay(ctx, 0)
		replayVerifies("logstar", ctx, tp, tproof)
		pub, p, e, trueS := logstarReplay(ctx, 1)
		must(natEq(pedSolve(pub.Aux, p.Z1, p.Z3, e, trueS), p.D), "solving the equation with the true S does not give the honest commitment")
		p.D = pedSolve(pub.Aux, p.Z1, p.Z3, e, p.S)
		return plainify(pub), p
	}))

	// ---- affg: Encv(z2;w) ⊕ z1⊙Kv = A ⊕ e⊙Dv ; z1·G = Bx + e·Xp ; Encp(z2;wy) = By ⊕ e⊙Fp ;
	//            s^z1·t^z3 = E·S^e ; s^z2·t^z4 = F·T^e -------------------------------------------------
	affgForge := func(field, eq string, falsify func(fp *zkaffg.Public), solve func(pub, fp *zkaffg.Public, p *zkaffg.Proof, e *saferith.Int)) {
		l = append(l, cf("affg", field, eq, func(ctx string) (interface{}, interface{}) {
			s, st := trueSt("affg")
			pub := st.pub.(*zkaffg.Public)
			fp := *pub
			falsify(&fp)
			p := honestOn(s, ctx, &fp, st).(*zkaffg.Proof)
			e, err := zkaffg.VerifChallenge(ctxHash(ctx), group, fp, p.Commitment)
			must(err == nil, "challenge")
			solve(pub, &fp, p, e)
			return plainify(&fp), p
		}))
	}
	affgForge("A", "Encv(z2;w) ⊕ (z1 ⊙ Kv) = A ⊕ (e ⊙ Dv)", func(fp *zkaffg.Public) { fp.Dv = ctPlus1(fp.Verifier, fp.Dv) },
		func(pub, fp *zkaffg.Public, p *zkaffg.Proof, e *saferith.Int) {
			lhs := pub.Verifier.EncWithNonce(p.Z2, p.W).Add(pub.Verifier, pub.Kv.Clone().Mul(pub.Verifier, p.Z1))
			must(ctSolve(pub.Verifier, lhs, pub.Dv, e).Equal(p.A), ctlMsg)
			p.A = ctSolve(pub.Verifier, lhs, fp.Dv, e)
		})
	affgForge("Bx", "z1·G = Bx + e·Xp", func(fp *zkaffg.Public) { fp.Xp = plusG(fp.Xp) },
		func(pub, fp *zkaffg.Public, p *zkaffg.Proof, e *saferith.Int) {
			lhs := modq(p.Z1).ActOnBase()
			must(ptSolve(lhs, pub.Xp, modq(e)).Equal(p.Bx), ctlMsg)
			p.Bx = ptSolve(lhs, fp.Xp, modq(e))
		})
	affgForge("By", "Encp(z2;wy) = By ⊕ (e ⊙ Fp)", func(fp *zkaffg.Public) { fp.Fp = ctPlus1(fp.Prover, fp.Fp) },
		func(pub, fp *zkaffg.Public, p *zkaffg.Proof, e *saferith.Int) {
			lhs := pub.Prover.EncWithNonce(p.Z2, p.Wy)
			must(ctSolve(pub.Prover, lhs, pub.Fp, e).Equal(p.By), ctlMsg)
			p.By = ctSolve(pub.Prover, lhs, fp.Fp, e)
		})
	type affgTrue struct{ S, T *saferith.Nat }
	affgReplay := func(ctx string, bumpX, bumpY int64) (*zkaffg.Public, *zkaffg.Proof, *saferith.Int, affgTrue) {
		_, st := trueSt("affg")
		pub, priv := st.pub.(*zkaffg.Public), st.priv.(*zkaffg.Private)
		ve, pr := pub.Verifier, pub.Prover
		alpha, beta := sample.IntervalLEps(rand.Reader), sample.IntervalLPrimeEps(rand.Reader)
		rho, rhoY := sample.UnitModN(rand.Reader, ve.N()), sample.UnitModN(rand.Reader, pr.N())
		gamma, m, delta, mu := sample.IntervalLEpsN(rand.Reader), sample.IntervalLN(rand.Reader), sample.IntervalLEpsN(rand.Reader), sample.IntervalLN(rand.Reader)
		tr := affgTrue{S: pub.Aux.Commit(priv.X, m), T: pub.Aux.Commit(priv.Y, mu)}
		cm := &zkaffg.Commitment{
			A:  ve.EncWithNonce(beta, rho).Add(ve, pub.Kv.Clone().Mul(ve, alpha)),
			Bx: modq(alpha).ActOnBase(),
			By: pr.EncWithNonce(beta, rhoY),
			E:  pub.Aux.Commit(alpha, gamma), S: pub.Aux.Commit(addI(priv.X, bumpX), m),
			F: pub.Aux.Commit(beta, delta), T: pub.Aux.Commit(addI(priv.Y, bumpY), mu),
		}
		e, err := zkaffg.VerifChallenge(ctxHash(ctx), group, *pub, cm)
		must(err == nil, "challenge")
		p := zkaffg.Empty(group)
		p.Commitment = cm
		p.Z1, p.Z2, p.Z3, p.Z4 = resp(e, priv.X, alpha), resp(e, priv.Y, beta), resp(e, m, gamma), resp(e, mu, delta)
		p.W, p.Wy = nresp(&keyset{pk: ve}, e, priv.S, rho), nresp(&keyset{pk: pr}, e, priv.R, rhoY)
		return pub, p, e, tr
	}
	l = append(l, cf("affg", "E", "s^z1·t^z3 = E·S^e (mod N̂)", func(ctx string) (interface{}, interface{}) {
		tp, tproof, _, _ := affgReplay(ctx, 0, 0)
		replayVerifies("affg", ctx, tp, tproof)
		pub, p, e, tr := affgReplay(ctx, 1, 0)
		must(natEq(pedSolve(pub.Aux, p.Z1, p.Z3, e, tr.S), p.E), "solving the equation with the true S does not give the honest commitment")
		p.E = pedSolve(pub.Aux, p.Z1, p.Z3, e, p.S)
		return plainify(pub), p
	}))
	l = append(l, cf("affg", "F", "s^z2·t^z4 = F·T^e (mod N̂)", func(ctx string) (interface{}, interface{}) {
		tp, tproof, _, _ := affgReplay(ctx, 0, 0)
		replayVerifies("affg", ctx, tp, tproof)
		pub, p, e, tr := affgReplay(ctx, 0, 1)
		must(natEq(pedSolve(pub.Aux, p.Z2, p.Z4, e, tr.T), p.F), "solving the equation with the true T does not give the honest commitment")
		p.F = pedSolve(pub.Aux, p.Z2, p.Z4, e, p.T)
		return plainify(pub), p
	}))

	// ---- affp: as affg with Bx = Encp(α;ρx): Encp(z1;wx) = Bx ⊕ e⊙Xp ------------------------------
	affpForge := func(field, eq string, falsify func(fp *zkaffp.Public), solve func(pub, fp *zkaffp.Public, p *zkaffp.Proof, e *saferith.Int)) {
		l = append(l, cf("affp", field, eq, func(ctx string) (interface{}, interface{}) {
			s, st := trueSt("affp")
			pub := st.pub.(*zkaffp.Public)
			fp := *pub
			falsify(&fp)
			p := honestOn(s, ctx, &fp, st).(*zkaffp.Proof)
			e, err := zkaffp.VerifChallenge(ctxHash(ctx), group, fp, p.Commitment)
			must(err == nil, "challenge")
			solve(pub, &fp, p, e)
			return plainify(&fp), p
		}))
	}
	affpForge("A", "Encv(z2;w) ⊕ (z1 ⊙ Kv) = A ⊕ (e ⊙ Dv)", func(fp *zkaffp.Public) { fp.Dv = ctPlus1(fp.Verifier, fp.Dv) },
		func(pub, fp *zkaffp.Public, p *zkaffp.Proof, e *saferith.Int) {
			lhs := pub.Verifier.EncWithNonce(p.Z2, p.W).Add(pub.Verifier, pub.Kv.Clone().Mul(pub.Verifier, p.Z1))
			must(ctSolve(pub.Verifier, lhs, pub.Dv, e).Equal(p.A), ctlMsg)
			p.A = ctSolve(pub.Verifier, lhs, fp.Dv, e)
		})
	affpForge("Bx", "Encp(z1;wx) = Bx ⊕ (e ⊙ Xp)", func(fp *zkaffp.Public) { fp.Xp = ctPlus1(fp.Prover, fp.Xp) },
		func(pub, fp *zkaffp.Public, p *zkaffp.Proof, e *saferith.Int) {
			lhs := pub.Prover.EncWithNonce(p.Z1, p.Wx)
			must(ctSolve(pub.Prover, lhs, pub.Xp, e).Equal(p.Bx), ctlMsg)
			p.Bx = ctSolve(pub.Prover, lhs, fp.Xp, e)
		})
	affpForge("By", "Encp(z2;wy) = By ⊕ (e ⊙ Fp)", func(fp *zkaffp.Public) { fp.Fp = ctPlus1(fp.Prover, fp.Fp) },
		func(pub, fp *zkaffp.Public, p *zkaffp.Proof, e *saferith.Int) {
			lhs := pub.Prover.EncWithNonce(p.Z2, p.Wy)
			must(ctSolve(pub.Prover, lhs, pub.Fp, e).Equal(p.By), ctlMsg)
			p.By = ctSolve(pub.Prover, lhs, fp.Fp, e)
		})
	affpReplay := func(ctx string, bumpX, bumpY int64) (*zkaffp.Public, *zkaffp.Proof, *saferith.Int, affgTrue) {
		_, st := trueSt("affp")
		pub, priv := st.pub.(*zkaffp.Public), st.priv.(*zkaffp.Private)
		ve, pr := pub.Verifier, pub.Prover
		alpha, beta := sample.IntervalLEps(rand.Reader), sample.IntervalLPrimeEps(rand.Reader)
		rho, rhoX, rhoY := sample.UnitModN(rand.Reader, ve.N()), sample.UnitModN(rand.Reader, pr.N()), sample.UnitModN(rand.Reader, pr.N())
		gamma, m, delta, mu := sample.IntervalLEpsN(rand.Reader), sample.IntervalLN(rand.Reader), sample.IntervalLEpsN(rand.Reader), sample.IntervalLN(rand.Reader)
		tr := affgTrue{S: pub.Aux.Commit(priv.X, m), T: pub.Aux.Commit(priv.Y, mu)}
		cm := &zkaffp.Commitment{
			A:  ve.EncWithNonce(beta, rho).Add(ve, pub.Kv.Clone().Mul(ve, alpha)),
			Bx: pr.EncWithNonce(alpha, rhoX),
			By: pr.EncWithNonce(beta, rhoY),
			E:  pub.Aux.Commit(alpha, gamma), S: pub.Aux.Commit(addI(priv.X, bumpX), m),
			F: pub.Aux.Commit(beta, delta), T: pub.Aux.Commit(addI(priv.Y, bumpY), mu),
		}
		e, err := zkaffp.VerifChallenge(ctxHash(ctx), group, *pub, cm)
		must(err == nil, "challenge")
		p := &zkaffp.Proof{Commitment: cm,
			Z1: resp(e, priv.X, alpha), Z2: resp(e, priv.Y, beta), Z3: resp(e, m, gamma), Z4: resp(e, mu, delta),
			W: nresp(&keyset{pk: ve}, e, priv.S, rho), Wx: nresp(&keyset{pk: pr}, e, priv.Rx, rhoX), Wy: nresp(&keyset{pk: pr}, e, priv.R, rhoY)}
		return pub, p, e, tr
	}
	l = append(l, cf("affp", "E", "s^z1·t^z3 = E·S^e (mod N̂)", func(ctx string) (interface{}, interface{}) {
		tp, tproof, _, _ := affpReplay(ctx, 0, 0)
		replayVerifies("affp", ctx, tp, tproof)
		pub, p, e, tr := affpReplay(ctx, 1, 0)
		must(natEq(pedSolve(pub.Aux, p.Z1, p.Z3, e, tr.S), p.E), "solving the equation with the true S does not give the honest commitment")
		p.E = pedSolve(pub.Aux, p.Z1, p.Z3, e, p.S)
		return plainify(pub), p
	}))
	l = append(l, cf("affp", "F", "s^z2·t^z4 = F·T^e (mod N̂)", func(ctx string) (interface{}, interface{}) {
		tp, tproof, _, _ := affpReplay(ctx, 0, 0)
		replayVerifies("affp", ctx, tp, tproof)
		pub, p, e, tr := affpReplay(ctx, 0, 1)
		must(natEq(pedSolve(pub.Aux, p.Z2, p.Z4, e, tr.T), p.F), "solving the equation with the true T does not give the honest commitment")
		p.F = pedSolve(pub.Aux, p.Z2, p.Z4, e, p.T)
		return plainify(pub), p
	}))

	// ---- mul: (z ⊙ Y)·u^N = A ⊕ e⊙C ; Enc(z;v) = B ⊕ e⊙X ----------------------------------------
	mulForge := func(field, eq string, falsify func(fp *zkmul.Public), solve func(pub, fp *zkmul.Public, p *zkmul.Proof, e *saferith.Int)) {
		l = append(l, cf("mul", field, eq, func(ctx string) (interface{}, interface{}) {
			s, st := trueSt("mul")
			pub := st.pub.(*zkmul.Public)
			fp := *pub
			falsify(&fp)
			p := honestOn(s, ctx, &fp, st).(*zkmul.Proof)
			e, err := zkmul.VerifChallenge(ctxHash(ctx), group, fp, p.Commitment)
			must(err == nil, "challenge")
			solve(pub, &fp, p, e)
			return plainify(&fp), p
		}))
	}
	mulForge("A", "(z ⊙ Y)·u^N = A ⊕ (e ⊙ C)", func(fp *zkmul.Public) { fp.C = ctPlus1(fp.Prover, fp.C) },
		func(pub, fp *zkmul.Public, p *zkmul.Proof, e *saferith.Int) {
			lhs := pub.Y.Clone().Mul(pub.Prover, p.Z)
			lhs.Randomize(pub.Prover, p.U)
			must(ctSolve(pub.Prover, lhs, pub.C, e).Equal(p.A), ctlMsg)
			p.A = ctSolve(pub.Prover, lhs, fp.C, e)
		})
	mulForge("B", "Enc(z;v) = B ⊕ (e ⊙ X)", func(fp *zkmul.Public) { fp.X = ctPlus1(fp.Prover, fp.X) },
		func(pub, fp *zkmul.Public, p *zkmul.Proof, e *saferith.Int) {
			lhs := pub.Prover.EncWithNonce(symModN(p.Z, pub.Prover.N()), p.V)
			must(ctSolve(pub.Prover, lhs, pub.X, e).Equal(p.B), ctlMsg)
			p.B = ctSolve(pub.Prover, lhs, fp.X, e)
		})

	// ---- mulstar: (z1 ⊙ C)·w^N = A ⊕ e⊙D ; z1·G = Bx + e·X ; s^z1·t^z2 = E·S^e -------------------
	mulstarForge := func(field, eq string, falsify func(fp *zkmulstar.Public), solve func(pub, fp *zkmulstar.Public, p *zkmulstar.Proof, e *saferith.Int)) {
		l = append(l, cf("mulstar", field, eq, func(ctx string) (interface{}, interface{}) {
			s, st := trueSt("mulstar")
			pub := st.pub.(*zkmulstar.Public)
			fp := *pub
			falsify(&fp)
			p := honestOn(s, ctx, &fp, st).(*zkmulstar.Proof)
			e, err := zkmulstar.VerifChallenge(ctxHash(ctx), group, fp, p.Commitment)
			must(err == nil, "challenge")
			solve(pub, &fp, p, e)
			return plainify(&fp), p
		}))
	}
	mulstarForge("A", "(z1 ⊙ C)·w^N = A ⊕ (e ⊙ D)", func(fp *zkmulstar.Public) { fp.D = ctPlus1(fp.Verifier, fp.D) },
		func(pub, fp *zkmulstar.Public, p *zkmulstar.Proof, e *saferith.Int) {
			lhs := pub.C.Clone().Mul(pub.Verifier, p.Z1)
			lhs.Randomize(pub.Verifier, p.W)
			must(ctSolve(pub.Verifier, lhs, pub.D, e).Equal(p.A), ctlMsg)
			p.A = ctSolve(pub.Verifier, lhs, fp.D, e)
		})
	mulstarForge("Bx", "z1·G = Bx + e·X", func(fp *zkmulstar.Public) { fp.X = plusG(fp.X) },
		func(pub, fp *zkmulstar.Public, p *zkmulstar.Proof, e *saferith.Int) {
			lhs := modq(p.Z1).ActOnBase()
			must(ptSolve(lhs, pub.X, modq(e)).Equal(p.Bx), ctlMsg)
			p.Bx = ptSolve(lhs, fp.X, modq(e))
		})
	mulstarReplay := func(ctx string, bump int64) (*zkmulstar.Public, *zkmulstar.Proof, *saferith.Int, *saferith.Nat) {
		_, st := trueSt("mulstar")
		pub, priv := st.pub.(*zkmulstar.Public), st.priv.(*zkmulstar.Private)
		ve := pub.Verifier
		alpha, r := sample.IntervalLEps(rand.Reader), sample.UnitModN(rand.Reader, ve.N())
		gamma, m := sample.IntervalLEpsN(rand.Reader), sample.IntervalLEpsN(rand.Reader)
		A := pub.C.Clone().Mul(ve, alpha)
		A.Randomize(ve, r)
		trueS := pub.Aux.Commit(priv.X, m)
		cm := &zkmulstar.Commitment{A: A, Bx: modq(alpha).ActOnBase(), E: pub.Aux.Commit(alpha, gamma), S: pub.Aux.Commit(addI(priv.X, bump), m)}
		e, err := zkmulstar.VerifChallenge(ctxHash(ctx), group, *pub, cm)
		must(err == nil, "challenge")
		p := zkmulstar.Empty(group)
		p.Commitment = cm
		p.Z1, p.Z2, p.W = resp(e, priv.X, alpha), resp(e, m, gamma), nresp(&keyset{pk: ve}, e, priv.Rho, r)
		return pub, p, e, trueS
	}
	l = append(l, cf("mulstar", "E", "s^z1·t^z2 = E·S^e (mod N̂)", func(ctx string) (interface{}, interface{}) {
		tp, tproof, _, _ := mulstarReplay(ctx, 0)
		replayVerifies("mulstar", ctx, tp, tproof)
		pub, p, e, trueS := mulstarReplay(ctx, 1)
		must(natEq(pedSolve(pub.Aux, p.Z1, p.Z2, e, trueS), p.E), "solving the equation with the true S does not give the honest commitment")
		p.E = pedSolve(pub.Aux, p.Z1, p.Z2, e, p.S)
		return plainify(pub), p
	}))

	// ---- dec: Enc(z1;w) = A ⊕ e⊙C ; z1 = Gamma + e·X (mod q) ; s^z1·t^z2 = T·S^e -------------------
	decForge := func(field, eq string, falsify func(fp *zkdec.Public), solve func(pub, fp *zkdec.Public, p *zkdec.Proof, e *saferith.Int)) {
		l = append(l, cf("dec", field, eq, func(ctx string) (interface{}, interface{}) {
			s, st := trueSt("dec")
			pub := st.pub.(*zkdec.Public)
			fp := *pub
			falsify(&fp)
			p := honestOn(s, ctx, &fp, st).(*zkdec.Proof)
			e, err := zkdec.VerifChallenge(ctxHash(ctx), group, fp, p.Commitment)
			must(err == nil, "challenge")
			solve(pub, &fp, p, e)
			return plainify(&fp), p
		}))
	}
	decForge("A", "Enc(z1;w) = A ⊕ (e ⊙ C)", func(fp *zkdec.Public) { fp.C = ctPlus1(fp.Prover, fp.C) },
		func(pub, fp *zkdec.Public, p *zkdec.Proof, e *saferith.Int) {
			lhs := pub.Prover.EncWithNonce(symModN(p.Z1, pub.Prover.N()), p.W)
			must(ctSolve(pub.Prover, lhs, pub.C, e).Equal(p.A), ctlMsg)
			p.A = ctSolve(pub.Prover, lhs, fp.C, e)
		})
	decForge("Gamma", "z1 = Gamma + e·X (mod q)", func(fp *zkdec.Public) { fp.X = sc(fp.X).Add(scalarFromBig(big.NewInt(1))) },
		func(pub, fp *zkdec.Public, p *zkdec.Proof, e *saferith.Int) {
			must(modq(p.Z1).Sub(modq(e).Mul(pub.X)).Equal(p.Gamma), ctlMsg)
			p.Gamma = modq(p.Z1).Sub(modq(e).Mul(fp.X))
		})
	decReplay := func(ctx string, bump int64) (*zkdec.Public, *zkdec.Proof, *saferith.Int, *saferith.Nat) {
		_, st := trueSt("dec")
		pub, priv := st.pub.(*zkdec.Public), st.priv.(*zkdec.Private)
		N := pub.Prover.N()
		alpha := sample.IntervalLEps(rand.Reader)
		mu, nu, r := sample.IntervalLN(rand.Reader), sample.IntervalLEpsN(rand.Reader), sample.UnitModN(rand.Reader, N)
		trueS := pub.Aux.Commit(priv.Y, mu)
		cm := &zkdec.Commitment{S: pub.Aux.Commit(addI(priv.Y, bump), mu), T: pub.Aux.Commit(alpha, nu), A: pub.Prover.EncWithNonce(alpha, r), Gamma: modq(alpha)}
		e, err := zkdec.VerifChallenge(ctxHash(ctx), group, *pub, cm)
		must(err == nil, "challenge")
		p := zkdec.Empty(group)
		p.Commitment = cm
		p.Z1, p.Z2, p.W = resp(e, priv.Y, alpha), resp(e, mu, nu), nresp(&keyset{pk: pub.Prover}, e, priv.Rho, r)
		return pub, p, e, trueS
	}
	l = append(l, cf("dec", "T", "s^z1·t^z2 = T·S^e (mod N̂)", func(ctx string) (interface{}, interface{}) {
		tp, tproof, _, _ := decReplay(ctx, 0)
		replayVerifies("dec", ctx, tp, tproof)
		pub, p, e, trueS := decReplay(ctx, 1)
		must(natEq(pedSolve(pub.Aux, p.Z1, p.Z2, e, trueS), p.T), "solving the equation with the true S does not give the honest commitment")
		p.T = pedSolve(pub.Aux, p.Z1, p.Z2, e, p.S)
		return plainify(pub), p
	}))

	// ---- fac: s^z1·t^w1 = A·P^e ; s^z2·t^w2 = B·Q^e ; Q^z1·t^v = T·R^e with R = s^N0·t^sigma ------
	facReplay := func(ctx string, bump int64) (*zkfac.Public, *zkfac.Proof, *saferith.Int, *saferith.Nat) {
		_, st := trueSt("fac")
		pub, priv := st.pub.(*zkfac.Public), st.priv.(*zkfac.Private)
		Nhat := pub.Aux.NArith()
		alpha, beta := sample.IntervalLEpsRootN(rand.Reader), sample.IntervalLEpsRootN(rand.Reader)
		mu, nu := sample.IntervalLN(rand.Reader), sample.IntervalLN(rand.Reader)
		sigma, r := sample.IntervalLN2(rand.Reader), sample.IntervalLEpsN2(rand.Reader)
		x, y := sample.IntervalLEpsN(rand.Reader), sample.IntervalLEpsN(rand.Reader)
		pInt, qInt := new(saferith.Int).SetNat(priv.P), new(saferith.Int).SetNat(priv.Q)
		trueP := pub.Aux.Commit(pInt, mu)
		Q := pub.Aux.Commit(qInt, nu)
		T := Nhat.ExpI(Q, alpha)
		T.ModMul(T, Nhat.ExpI(pub.Aux.T(), r), Nhat.Modulus)
		comm := zkfac.Commitment{P: pub.Aux.Commit(addI(pInt, bump), mu), Q: Q, A: pub.Aux.Commit(alpha, x), B: pub.Aux.Commit(beta, y), T: T}
		e, err := zkfac.VerifChallenge(ctxHash(ctx), *pub, comm)
		must(err == nil, "challenge")
		sigmaHat := new(saferith.Int).Mul(nu, pInt, -1)
		sigmaHat.Neg(1)
		sigmaHat.Add(sigmaHat, sigma, -1)
		p := &zkfac.Proof{Comm: comm, Sigma: sigma, Z1: resp(e, pInt, alpha), Z2: resp(e, qInt, beta), W1: resp(e, mu, x), W2: resp(e, nu, y), V: resp(e, sigmaHat, r)}
		return pub, p, e, trueP
	}
	l = append(l, cf("fac", "A", "s^z1·t^w1 = A·P^e (mod N̂)", func(ctx string) (interface{}, interface{}) {
		tp, tproof, _, _ := facReplay(ctx, 0)
		replayVerifies("fac", ctx, tp, tproof)
		pub, p, e, trueP := facReplay(ctx, 1) // P commits to p+1, the responses (and T, v) use p
		must(natEq(pedSolve(pub.Aux, p.Z1, p.W1, e, trueP), p.Comm.A), "solving the equation with the true P does not give the honest commitment")
		p.Comm.A = pedSolve(pub.Aux, p.Z1, p.W1, e, p.Comm.P)
		return plainify(pub), p
	}))
	// B: Q is also the base of the third equation, so a Q that commits to another value breaks two
	// relations.  The relation only this equation enforces is the range of q (z2 is range checked and
	// bound to the opening of Q): false statement = a modulus whose factor q is ≥ 2^1800 > 2^(l+eps)·√N0;
	// the honest z2 = β + e·q is out of range, the forger answers with an in-range z2' and solves B.
	l = append(l, cf("fac", "B", "s^z2·t^w2 = B·Q^e (mod N̂)", func(ctx string) (interface{}, interface{}) {
		s := sysByNm["fac"]
		st := s.build(point{"keys": "P", "order": "p-huge"})
		pub, priv := st.pub.(*zkfac.Public), st.priv.(*zkfac.Private)
		st.priv = &zkfac.Private{P: priv.Q, Q: priv.P} // the huge factor takes the place of q
		p := honestOn(s, ctx, pub, st).(*zkfac.Proof)
		e, err := zkfac.VerifChallenge(ctxHash(ctx), *pub, p.Comm)
		must(err == nil, "challenge")
		must(!arith.IsInIntervalLEpsPlus1RootN(p.Z2) && arith.IsInIntervalLEpsPlus1RootN(p.Z1), "the honest z2 of the out-of-range factor is in range")
		must(natEq(pedSolve(pub.Aux, p.Z2, p.W2, e, p.Comm.Q), p.Comm.B), "solving the equation with the honest response does not give the honest commitment")
		p.Z2 = sample.IntervalLEpsRootN(rand.Reader)
		p.Comm.B = pedSolve(pub.Aux, p.Z2, p.W2, e, p.Comm.Q)
		return plainify(pub), p
	}))
	// T: false statement N0' = N0 + 2 ≠ p·q
	l = append(l, cf("fac", "T", "Q^z1·t^v = T·R^e, R = s^N0·t^sigma (mod N̂)", func(ctx string) (interface{}, interface{}) {
		s, st := trueSt("fac")
		pub := st.pub.(*zkfac.Public)
		fp := *pub
		fp.N = saferith.ModulusFromNat(new(saferith.Nat).Add(pub.N.Nat(), natFromBig(big.NewInt(2)), -1))
		p := honestOn(s, ctx, &fp, st).(*zkfac.Proof)
		e, err := zkfac.VerifChallenge(ctxHash(ctx), fp, p.Comm)
		must(err == nil, "challenge")
		Nhat := pub.Aux.NArith()
		rOf := func(n *saferith.Modulus) *saferith.Nat {
			R := Nhat.Exp(new(saferith.Nat).SetNat(pub.Aux.S()), n.Nat())
			return R.ModMul(R, Nhat.ExpI(pub.Aux.T(), p.Sigma), Nhat.Modulus)
		}
		solve := func(n *saferith.Modulus) *saferith.Nat {
			lhs := Nhat.ExpI(p.Comm.Q, p.Z1)
			lhs.ModMul(lhs, Nhat.ExpI(pub.Aux.T(), p.V), Nhat.Modulus)
			return lhs.ModMul(lhs, Nhat.ExpI(rOf(n), negI(e)), Nhat.Modulus)
		}
		must(natEq(solve(pub.N), p.Comm.T), ctlMsg)
		p.Comm.T = solve(fp.N)
		return plainify(&fp), p
	}))

	// ---- nth: z^N = A·R^e (mod N²) ; false: R' = R·(1+N) is not an N-th power ------------------------
	l = append(l, cf("nth", "A", "z^N = A·R^e (mod N²)", func(ctx string) (interface{}, interface{}) {
		s, st := trueSt("nth")
		pub := st.pub.(*zknth.Public)
		N2 := pub.N.ModulusSquared()
		fp := *pub
		onePlusN := new(saferith.Nat).Add(pub.N.N().Nat(), natFromBig(big.NewInt(1)), -1)
		fp.R = new(saferith.Nat).ModMul(pub.R, onePlusN, N2.Modulus)
		p := honestOn(s, ctx, &fp, st).(*zknth.Proof)
		e, err := zknth.VerifChallenge(ctxHash(ctx), fp, p.Commitment)
		must(err == nil, "challenge")
		solve := func(R *saferith.Nat) *saferith.Nat {
			lhs := N2.Exp(p.Z, pub.N.N().Nat())
			return lhs.ModMul(lhs, N2.ExpI(R, negI(e)), N2.Modulus)
		}
		must(natEq(solve(pub.R), p.A), ctlMsg)
		p.A = solve(fp.R)
		return plainify(&fp), p
	}))

	// ---- prm: t^z_i = A_i·s^e_i (mod N), e_i a bit ; false: s' = -s is not a square, hence not in <t> ----
	l = append(l, cf("prm", "As", "t^z_i = A_i·s^e_i (mod N), all i", func(ctx string) (interface{}, interface{}) {
		s, st := trueSt("prm")
		pub := st.pub.(*zkprm.Public)
		aux := pub.Aux
		fp := &zkprm.Public{Aux: pedersen.New(aux.NArith(), new(saferith.Nat).ModNeg(aux.S(), aux.N()), aux.T())}
		p := honestOn(s, ctx, fp, st).(*zkprm.Proof)
		es, err := zkprm.VerifChallenge(ctxHash(ctx), *fp, p.As)
		must(err == nil, "challenge")
		n, t := aux.N().Big(), aux.T().Big()
		sInv, sfInv := new(big.Int).ModInverse(aux.S().Big(), n), new(big.Int).ModInverse(fp.Aux.S().Big(), n)
		must(sInv != nil && sfInv != nil, "s is not a unit")
		ones := 0
		for i := range p.As {
			if !es[i] {
				continue
			}
			ones++
			lhs := new(big.Int).Exp(t, p.Zs[i], n)
			tr := new(big.Int).Mul(lhs, sInv)
			must(tr.Mod(tr, n).Cmp(p.As[i]) == 0, ctlMsg)
			f := new(big.Int).Mul(lhs, sfInv)
			p.As[i] = f.Mod(f, n)
		}
		must(ones > 0, "all challenge bits are zero")
		return plainify(fp), p
	}))

	return l
}
