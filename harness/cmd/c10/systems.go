package main

// One adapter per proof system: build a statement from lattice labels, prove, verify.

import (
	"crypto/rand"
	"math/big"
	"reflect"

	"github.com/cronokirby/saferith"
	"github.com/taurusgroup/multi-party-sig/internal/elgamal"
	"github.com/taurusgroup/multi-party-sig/pkg/hash"
	"github.com/taurusgroup/multi-party-sig/pkg/math/arith"
	"github.com/taurusgroup/multi-party-sig/pkg/math/curve"
	"github.com/taurusgroup/multi-party-sig/pkg/math/sample"
	"github.com/taurusgroup/multi-party-sig/pkg/paillier"
	"github.com/taurusgroup/multi-party-sig/pkg/pedersen"
	zkaffg "github.com/taurusgroup/multi-party-sig/pkg/zk/affg"
	zkaffp "github.com/taurusgroup/multi-party-sig/pkg/zk/affp"
	zkdec "github.com/taurusgroup/multi-party-sig/pkg/zk/dec"
	zkelog "github.com/taurusgroup/multi-party-sig/pkg/zk/elog"
	zkenc "github.com/taurusgroup/multi-party-sig/pkg/zk/enc"
	zkencelg "github.com/taurusgroup/multi-party-sig/pkg/zk/encelg"
	zkfac "github.com/taurusgroup/multi-party-sig/pkg/zk/fac"
	zklog "github.com/taurusgroup/multi-party-sig/pkg/zk/log"
	zklogstar "github.com/taurusgroup/multi-party-sig/pkg/zk/logstar"
	zkmod "github.com/taurusgroup/multi-party-sig/pkg/zk/mod"
	zkmul "github.com/taurusgroup/multi-party-sig/pkg/zk/mul"
	zkmulstar "github.com/taurusgroup/multi-party-sig/pkg/zk/mulstar"
	zknth "github.com/taurusgroup/multi-party-sig/pkg/zk/nth"
	zkprm "github.com/taurusgroup/multi-party-sig/pkg/zk/prm"
	zksch "github.com/taurusgroup/multi-party-sig/pkg/zk/sch"
)

type statement struct {
	pub  interface{}          // pointer to the system's Public struct (or a wrapper)
	priv interface{}          //
	alts map[string][]variant // alternates for public fields: by path, or by "kind:<kind>"
}

type system struct {
	name   string
	coords []coord // witness coordinates (integers / scalars)
	conf   []coord // configuration coordinates (enum): keys, nonce, generator …; first label = default
	chunks int     // number of work units one binding point is split into
	chunkT int     // the same in the thorough tier (0 = chunks)
	cheap  bool    // pure curve arithmetic: the full lattice is used in every tier
	build  func(pt point) *statement
	prove  func(h *hash.Hash, st *statement) interface{}
	verify func(h *hash.Hash, pub interface{}, proof interface{}) bool
	// noRange explains why no range test applies (empty if some coordinate is ranged)
	noRange string
	// rangePts: extra out-of-range points that need a special construction
	rangePts []point
}

var (
	confKeys  = coord{name: "keys", kind: cEnum, labels: []string{"P", "V"}}
	confNonce = coord{name: "nonce", kind: cEnum, labels: []string{"rand", "1", "N-1"}}
	// confAux: whose Pedersen parameters the proof uses.  The protocols always use the verifier's own (over the
	// verifier's Paillier modulus); the API also admits parameters over ANOTHER modulus (here: the prover's key), an
	// unusual but legal configuration in which the two moduli a verifier handles must not be confused.
	confAux = coord{name: "aux", kind: cEnum, labels: []string{"own", "foreign"}}
	confGen = coord{name: "gen", kind: cEnum, labels: []string{"default", "custom"}}
)

func vr(t interface{}, name string) variant { return variant{name: name, val: reflect.ValueOf(t)} }

// roles returns (prover, verifier) key sets for a point.
func roles(pt point) (*keyset, *keyset) {
	if pt["keys"] == "V" {
		return envV, envP
	}
	return envP, envV
}

func bi(c coord, pt point, N *saferith.Modulus) *big.Int {
	var n *big.Int
	if N != nil {
		n = N.Big()
	}
	return value(c, pt[c.name], n)
}

func randPoint() curve.Point { return sample.Scalar(rand.Reader, group).ActOnBase() }

func actBig(b *big.Int, p curve.Point) curve.Point {
	s := scalarFromBig(b)
	if p == nil {
		return s.ActOnBase()
	}
	return s.Act(p)
}

// ctAlts: other ciphertexts in scope under key pk — same plaintext with another nonce, the
// neighbouring plaintext with the same nonce, a fresh unrelated encryption.
func ctAlts(ct *paillier.Ciphertext, pk *paillier.PublicKey) []variant {
	re := ct.Clone()
	re.Randomize(pk, sample.UnitModN(rand.Reader, pk.N()))
	p1 := ct.Clone().Add(pk, pk.EncWithNonce(intFromBig(one), natFromBig(one)))
	fresh, _ := pk.Enc(intFromBig(randBits(200)))
	return []variant{vr(re, "rerandomized"), vr(p1, "plaintext+1"), vr(fresh, "fresh-ciphertext")}
}

func pedAlts(p *pedersen.Parameters) []variant {
	return []variant{vr(pedersen.New(p.NArith(), p.T(), p.S()), "s,t-swapped")}
}

func commonAlts() map[string][]variant {
	return map[string][]variant{
		"kind:pk":     {vr(envP.pk, "key-P"), vr(envV.pk, "key-V")},
		"kind:ped":    {vr(envP.pedGen, "pedersen-P"), vr(envV.ped, "pedersen-V"), vr(envV.pedGen, "pedersen-V2")},
		"kind:point":  {vr(randPoint(), "other-point")},
		"kind:scalar": {vr(sample.Scalar(rand.Reader, group), "other-scalar")},
		"kind:mod":    {vr(envP.pk.N(), "N-P"), vr(envV.pk.N(), "N-V"), vr(envS.pk.N(), "N-small")},
	}
}

// ---- wrappers for systems without a Public struct ---------------------------------------------------

type schPublic struct {
	X   curve.Point // public = x·Gen
	Gen curve.Point // nil = base point
}
type schPrivate struct{ X curve.Scalar }

var (
	cx  = coord{name: "x", kind: cL, ranged: true}
	cy  = coord{name: "y", kind: cLP, ranged: true}
	ck  = coord{name: "k", kind: cL, ranged: true}
	csx = coord{name: "x", kind: cScalar}
	csa = coord{name: "a", kind: cScalar}
	csb = coord{name: "b", kind: cScalar}
	// sch with x = 0 has the identity as public key, log with b = 0 has the identity as base H: the
	// library refuses identity points as public inputs by design (IsValid), so these are not statements
	// with a witness "inside the documented range" and are left out of the completeness lattice
	csxNZ = coord{name: "x", kind: cScalar, nz: true}
	csbNZ = coord{name: "b", kind: cScalar, nz: true}
)

func systems() []*system {
	var l []*system

	// ---- sch ---------------------------------------------------------------------------------
	l = append(l, &system{name: "sch", coords: []coord{csxNZ}, conf: []coord{confGen}, chunks: 1, cheap: true,
		noRange: "group-order responses only",
		build: func(pt point) *statement {
			x := scalarFromBig(bi(csxNZ, pt, nil))
			var gen curve.Point
			if pt["gen"] == "custom" {
				gen = randPoint()
			}
			var X curve.Point
			if gen == nil {
				X = x.ActOnBase()
			} else {
				X = x.Act(gen)
			}
			return &statement{pub: &schPublic{X: X, Gen: gen}, priv: &schPrivate{x}, alts: commonAlts()}
		},
		prove: func(h *hash.Hash, st *statement) interface{} {
			p := st.pub.(*schPublic)
			return zksch.NewProof(h, p.X, st.priv.(*schPrivate).X, p.Gen)
		},
		verify: func(h *hash.Hash, pub interface{}, proof interface{}) bool {
			p := pub.(*schPublic)
			return proof.(*zksch.Proof).Verify(h, p.X, p.Gen)
		}})

	// ---- log ---------------------------------------------------------------------------------
	l = append(l, &system{name: "log", coords: []coord{csa, csbNZ}, chunks: 1, cheap: true, noRange: "group-order responses only",
		build: func(pt point) *statement {
			a, b := scalarFromBig(bi(csa, pt, nil)), scalarFromBig(bi(csbNZ, pt, nil))
			H := b.ActOnBase()
			return &statement{pub: &zklog.Public{H: H, X: a.ActOnBase(), Y: a.Act(H)}, priv: &zklog.Private{A: a, B: b}, alts: commonAlts()}
		},
		prove: func(h *hash.Hash, st *statement) interface{} {
			return zklog.NewProof(group, h, *st.pub.(*zklog.Public), *st.priv.(*zklog.Private))
		},
		verify: func(h *hash.Hash, pub interface{}, proof interface{}) bool {
			return proof.(*zklog.Proof).Verify(h, *pub.(*zklog.Public))
		}})

	// ---- elog --------------------------------------------------------------------------------
	csy, csl := coord{name: "y", kind: cScalar}, coord{name: "lambda", kind: cScalar}
	l = append(l, &system{name: "elog", coords: []coord{csy, csl}, chunks: 1, cheap: true, noRange: "group-order responses only",
		build: func(pt point) *statement {
			y, lam := scalarFromBig(bi(csy, pt, nil)), scalarFromBig(bi(csl, pt, nil))
			X, H := randPoint(), randPoint()
			E := &elgamal.Ciphertext{L: lam.ActOnBase(), M: y.ActOnBase().Add(lam.Act(X))}
			return &statement{pub: &zkelog.Public{E: E, ElGamalPublic: X, Base: H, Y: y.Act(H)}, priv: &zkelog.Private{Y: y, Lambda: lam}, alts: commonAlts()}
		},
		prove: func(h *hash.Hash, st *statement) interface{} {
			return zkelog.NewProof(group, h, *st.pub.(*zkelog.Public), *st.priv.(*zkelog.Private))
		},
		verify: func(h *hash.Hash, pub interface{}, proof interface{}) bool {
			return proof.(*zkelog.Proof).Verify(h, *pub.(*zkelog.Public))
		}})

	// ---- enc ---------------------------------------------------------------------------------
	l = append(l, &system{name: "enc", coords: []coord{ck}, conf: []coord{confKeys, confNonce}, chunks: 3,
		build: func(pt point) *statement {
			pr, ve := roles(pt)
			k := intFromBig(bi(ck, pt, pr.pk.N()))
			rho := nonce(pt["nonce"], pr.pk.N())
			K := pr.pk.EncWithNonce(k, rho)
			a := commonAlts()
			a["K"] = ctAlts(K, pr.pk)
			a["Aux"] = pedAlts(ve.ped)
			return &statement{pub: &zkenc.Public{K: K, Prover: pr.pk, Aux: ve.ped}, priv: &zkenc.Private{K: k, Rho: rho}, alts: a}
		},
		prove: func(h *hash.Hash, st *statement) interface{} {
			return zkenc.NewProof(group, h, *st.pub.(*zkenc.Public), *st.priv.(*zkenc.Private))
		},
		verify: func(h *hash.Hash, pub interface{}, proof interface{}) bool {
			return proof.(*zkenc.Proof).Verify(group, h, *pub.(*zkenc.Public))
		}})

	// ---- encelg ------------------------------------------------------------------------------
	l = append(l, &system{name: "encelg", coords: []coord{cx, csa, csb}, conf: []coord{confKeys, confNonce}, chunks: 4,
		build: func(pt point) *statement {
			pr, ve := roles(pt)
			xb := bi(cx, pt, pr.pk.N())
			a, b := scalarFromBig(bi(csa, pt, nil)), scalarFromBig(bi(csb, pt, nil))
			rho := nonce(pt["nonce"], pr.pk.N())
			C := pr.pk.EncWithNonce(intFromBig(xb), rho)
			abx := group.NewScalar().Set(a).Mul(b).Add(scalarFromBig(xb))
			al := commonAlts()
			al["C"] = ctAlts(C, pr.pk)
			al["Aux"] = pedAlts(ve.ped)
			return &statement{pub: &zkencelg.Public{C: C, A: a.ActOnBase(), B: b.ActOnBase(), X: abx.ActOnBase(), Prover: pr.pk, Aux: ve.ped},
				priv: &zkencelg.Private{X: intFromBig(xb), Rho: rho, A: a, B: b}, alts: al}
		},
		prove: func(h *hash.Hash, st *statement) interface{} {
			return zkencelg.NewProof(group, h, *st.pub.(*zkencelg.Public), *st.priv.(*zkencelg.Private))
		},
		verify: func(h *hash.Hash, pub interface{}, proof interface{}) bool {
			return proof.(*zkencelg.Proof).Verify(h, *pub.(*zkencelg.Public))
		}})

	// ---- logstar -----------------------------------------------------------------------------
	l = append(l, &system{name: "logstar", coords: []coord{cx}, conf: []coord{confKeys, confNonce, confGen}, chunks: 4,
		build: func(pt point) *statement {
			pr, ve := roles(pt)
			xb := bi(cx, pt, pr.pk.N())
			rho := nonce(pt["nonce"], pr.pk.N())
			C := pr.pk.EncWithNonce(intFromBig(xb), rho)
			var G curve.Point
			if pt["gen"] == "custom" {
				G = randPoint()
			}
			al := commonAlts()
			al["C"] = ctAlts(C, pr.pk)
			al["Aux"] = pedAlts(ve.ped)
			return &statement{pub: &zklogstar.Public{C: C, X: actBig(xb, G), G: G, Prover: pr.pk, Aux: ve.ped},
				priv: &zklogstar.Private{X: intFromBig(xb), Rho: rho}, alts: al}
		},
		prove: func(h *hash.Hash, st *statement) interface{} {
			return zklogstar.NewProof(group, h, *st.pub.(*zklogstar.Public), *st.priv.(*zklogstar.Private))
		},
		verify: func(h *hash.Hash, pub interface{}, proof interface{}) bool {
			return proof.(*zklogstar.Proof).Verify(h, *pub.(*zklogstar.Public))
		}})

	// ---- affg --------------------------------------------------------------------------------
	l = append(l, &system{name: "affg", coords: []coord{cx, cy}, conf: []coord{confKeys, confNonce, confAux}, chunks: 6,
		build: func(pt point) *statement {
			pr, ve := roles(pt)
			xb, yb := bi(cx, pt, pr.pk.N()), bi(cy, pt, pr.pk.N())
			x, y := intFromBig(xb), intFromBig(yb)
			Kv, _ := ve.pk.Enc(intFromBig(randBits(256)))
			s, r := nonce(pt["nonce"], ve.pk.N()), nonce(pt["nonce"], pr.pk.N())
			Dv := ve.pk.EncWithNonce(y, s).Add(ve.pk, Kv.Clone().Mul(ve.pk, x))
			Fp := pr.pk.EncWithNonce(y, r)
			al := commonAlts()
			al["Kv"], al["Dv"], al["Fp"] = ctAlts(Kv, ve.pk), ctAlts(Dv, ve.pk), ctAlts(Fp, pr.pk)
			al["Aux"] = pedAlts(ve.ped)
			aux := ve.ped
			if pt["aux"] == "foreign" {
				aux = pr.ped
				al["Aux"] = pedAlts(aux)
			}
			return &statement{pub: &zkaffg.Public{Kv: Kv, Dv: Dv, Fp: Fp, Xp: actBig(xb, nil), Prover: pr.pk, Verifier: ve.pk, Aux: aux},
				priv: &zkaffg.Private{X: x, Y: y, S: s, R: r}, alts: al}
		},
		prove: func(h *hash.Hash, st *statement) interface{} {
			return zkaffg.NewProof(group, h, *st.pub.(*zkaffg.Public), *st.priv.(*zkaffg.Private))
		},
		verify: func(h *hash.Hash, pub interface{}, proof interface{}) bool {
			return proof.(*zkaffg.Proof).Verify(h, *pub.(*zkaffg.Public))
		}})

	// ---- affp --------------------------------------------------------------------------------
	l = append(l, &system{name: "affp", coords: []coord{cx, cy}, conf: []coord{confKeys, confNonce, confAux}, chunks: 6,
		build: func(pt point) *statement {
			pr, ve := roles(pt)
			xb, yb := bi(cx, pt, pr.pk.N()), bi(cy, pt, pr.pk.N())
			x, y := intFromBig(xb), intFromBig(yb)
			Kv, _ := ve.pk.Enc(intFromBig(randBits(256)))
			s, r, rx := nonce(pt["nonce"], ve.pk.N()), nonce(pt["nonce"], pr.pk.N()), nonce(pt["nonce"], pr.pk.N())
			Dv := ve.pk.EncWithNonce(y, s).Add(ve.pk, Kv.Clone().Mul(ve.pk, x))
			Fp := pr.pk.EncWithNonce(y, r)
			Xp := pr.pk.EncWithNonce(x, rx)
			al := commonAlts()
			al["Kv"], al["Dv"], al["Fp"], al["Xp"] = ctAlts(Kv, ve.pk), ctAlts(Dv, ve.pk), ctAlts(Fp, pr.pk), ctAlts(Xp, pr.pk)
			al["Aux"] = pedAlts(ve.ped)
			aux := ve.ped
			if pt["aux"] == "foreign" {
				aux = pr.ped
				al["Aux"] = pedAlts(aux)
			}
			return &statement{pub: &zkaffp.Public{Kv: Kv, Dv: Dv, Fp: Fp, Xp: Xp, Prover: pr.pk, Verifier: ve.pk, Aux: aux},
				priv: &zkaffp.Private{X: x, Y: y, S: s, Rx: rx, R: r}, alts: al}
		},
		prove: func(h *hash.Hash, st *statement) interface{} {
			return zkaffp.NewProof(group, h, *st.pub.(*zkaffp.Public), *st.priv.(*zkaffp.Private))
		},
		verify: func(h *hash.Hash, pub interface{}, proof interface{}) bool {
			return proof.(*zkaffp.Proof).Verify(group, h, *pub.(*zkaffp.Public))
		}})

	// ---- dec ---------------------------------------------------------------------------------
	cdy := coord{name: "y", kind: cPlain}
	l = append(l, &system{name: "dec", coords: []coord{cdy}, conf: []coord{confKeys, confNonce}, chunks: 3,
		noRange: "the paper's Πdec proves no range for y (any Paillier plaintext)",
		build: func(pt point) *statement {
			pr, ve := roles(pt)
			yb := bi(cdy, pt, pr.pk.N())
			rho := nonce(pt["nonce"], pr.pk.N())
			C := pr.pk.EncWithNonce(intFromBig(yb), rho)
			al := commonAlts()
			al["C"] = ctAlts(C, pr.pk)
			al["Aux"] = pedAlts(ve.ped)
			return &statement{pub: &zkdec.Public{C: C, X: scalarFromBig(yb), Prover: pr.pk, Aux: ve.ped},
				priv: &zkdec.Private{Y: intFromBig(yb), Rho: rho}, alts: al}
		},
		prove: func(h *hash.Hash, st *statement) interface{} {
			return zkdec.NewProof(group, h, *st.pub.(*zkdec.Public), *st.priv.(*zkdec.Private))
		},
		verify: func(h *hash.Hash, pub interface{}, proof interface{}) bool {
			return proof.(*zkdec.Proof).Verify(h, *pub.(*zkdec.Public))
		}})

	// ---- mul ---------------------------------------------------------------------------------
	cmx := coord{name: "x", kind: cPlain} // "X = x is the plaintext of Public.X": any plaintext
	l = append(l, &system{name: "mul", coords: []coord{cmx}, conf: []coord{confKeys, confNonce}, chunks: 3,
		noRange: "the paper's Πmul proves no range for x",
		build: func(pt point) *statement {
			pr, _ := roles(pt)
			x := intFromBig(bi(cmx, pt, pr.pk.N()))
			rhoX, rho := nonce(pt["nonce"], pr.pk.N()), nonce(pt["nonce"], pr.pk.N())
			X := pr.pk.EncWithNonce(x, rhoX)
			Y, _ := pr.pk.Enc(intFromBig(randBits(256)))
			C := Y.Clone().Mul(pr.pk, x)
			C.Randomize(pr.pk, rho)
			al := commonAlts()
			al["X"], al["Y"], al["C"] = ctAlts(X, pr.pk), ctAlts(Y, pr.pk), ctAlts(C, pr.pk)
			return &statement{pub: &zkmul.Public{X: X, Y: Y, C: C, Prover: pr.pk}, priv: &zkmul.Private{X: x, Rho: rho, RhoX: rhoX}, alts: al}
		},
		prove: func(h *hash.Hash, st *statement) interface{} {
			return zkmul.NewProof(group, h, *st.pub.(*zkmul.Public), *st.priv.(*zkmul.Private))
		},
		verify: func(h *hash.Hash, pub interface{}, proof interface{}) bool {
			return proof.(*zkmul.Proof).Verify(group, h, *pub.(*zkmul.Public))
		}})

	// ---- mulstar -----------------------------------------------------------------------------
	l = append(l, &system{name: "mulstar", coords: []coord{cx}, conf: []coord{confKeys, confNonce}, chunks: 4,
		build: func(pt point) *statement {
			_, ve := roles(pt) // the ciphertexts live under the verifier's key
			xb := bi(cx, pt, ve.pk.N())
			rho := nonce(pt["nonce"], ve.pk.N())
			C, _ := ve.pk.Enc(intFromBig(randBits(256)))
			D := C.Clone().Mul(ve.pk, intFromBig(xb))
			D.Randomize(ve.pk, rho)
			al := commonAlts()
			al["C"], al["D"] = ctAlts(C, ve.pk), ctAlts(D, ve.pk)
			al["Aux"] = pedAlts(ve.ped)
			return &statement{pub: &zkmulstar.Public{C: C, D: D, X: actBig(xb, nil), Verifier: ve.pk, Aux: ve.ped},
				priv: &zkmulstar.Private{X: intFromBig(xb), Rho: rho}, alts: al}
		},
		prove: func(h *hash.Hash, st *statement) interface{} {
			return zkmulstar.NewProof(group, h, *st.pub.(*zkmulstar.Public), *st.priv.(*zkmulstar.Private))
		},
		verify: func(h *hash.Hash, pub interface{}, proof interface{}) bool {
			return proof.(*zkmulstar.Proof).Verify(group, h, *pub.(*zkmulstar.Public))
		}})

	// ---- nth ---------------------------------------------------------------------------------
	l = append(l, &system{name: "nth", conf: []coord{confKeys, confNonce}, chunks: 1, noRange: "responses are residues (checked by IsValid)",
		build: func(pt point) *statement {
			pr, _ := roles(pt)
			rho := nonce(pt["nonce"], pr.pk.N())
			R := pr.pk.ModulusSquared().Exp(rho, pr.pk.N().Nat())
			al := commonAlts()
			other := pr.pk.ModulusSquared().Exp(sample.UnitModN(rand.Reader, pr.pk.N()), pr.pk.N().Nat())
			al["R"] = []variant{vr(other, "other-Nth-power")}
			return &statement{pub: &zknth.Public{N: pr.pk, R: R}, priv: &zknth.Private{Rho: rho}, alts: al}
		},
		prove: func(h *hash.Hash, st *statement) interface{} {
			return zknth.NewProof(h, *st.pub.(*zknth.Public), *st.priv.(*zknth.Private))
		},
		verify: func(h *hash.Hash, pub interface{}, proof interface{}) bool {
			return proof.(*zknth.Proof).Verify(h, *pub.(*zknth.Public))
		}})

	// ---- fac ---------------------------------------------------------------------------------
	confKeys3 := coord{name: "keys", kind: cEnum, labels: []string{"P", "V", "small"}}
	confOrder := coord{name: "order", kind: cEnum, labels: []string{"pq", "qp"}}
	l = append(l, &system{name: "fac", conf: []coord{confKeys3, confOrder}, chunks: 3,
		rangePts: []point{{"keys": "P", "order": "p-huge"}, {"keys": "V", "order": "p-huge"}, {"keys": "P", "order": "q-huge"}, {"keys": "V", "order": "q-huge"}},
		build: func(pt point) *statement {
			ks := keysetByName(pt["keys"])
			aux := other(ks).ped
			p, q := ks.sk.P(), ks.sk.Q()
			N := ks.pk.N()
			switch pt["order"] {
			case "qp":
				p, q = q, p
			case "p-huge":
				// out of range on purpose: p ≥ 2^1800 > 2^(l+eps+2)·√N₀, q small; N = p·q (range test only)
				pb := new(big.Int).SetBit(new(big.Int).Abs(randBits(1800)), 1800, 1)
				qb := new(big.Int).SetBit(new(big.Int).Abs(randBits(240)), 240, 1)
				p, q = natFromBig(pb), natFromBig(qb)
				N = saferith.ModulusFromNat(natFromBig(new(big.Int).Mul(pb, qb)))
			case "q-huge":
				// the same with the huge factor in the Q slot: only the range check on z2 can reject
				pb := new(big.Int).SetBit(new(big.Int).Abs(randBits(240)), 240, 1)
				qb := new(big.Int).SetBit(new(big.Int).Abs(randBits(1800)), 1800, 1)
				p, q = natFromBig(pb), natFromBig(qb)
				N = saferith.ModulusFromNat(natFromBig(new(big.Int).Mul(pb, qb)))
			}
			al := commonAlts()
			al["Aux"] = pedAlts(aux)
			return &statement{pub: &zkfac.Public{N: N, Aux: aux}, priv: &zkfac.Private{P: p, Q: q}, alts: al}
		},
		prove: func(h *hash.Hash, st *statement) interface{} {
			return zkfac.NewProof(*st.priv.(*zkfac.Private), h, *st.pub.(*zkfac.Public))
		},
		verify: func(h *hash.Hash, pub interface{}, proof interface{}) bool {
			return proof.(*zkfac.Proof).Verify(*pub.(*zkfac.Public), h)
		}})

	// ---- mod ---------------------------------------------------------------------------------
	l = append(l, &system{name: "mod", conf: []coord{confKeys3}, chunks: 3, chunkT: 16, noRange: "responses are residues",
		build: func(pt point) *statement {
			ks := keysetByName(pt["keys"])
			return &statement{pub: &zkmod.Public{N: ks.pk.N()}, priv: &zkmod.Private{P: ks.sk.P(), Q: ks.sk.Q(), Phi: ks.sk.Phi()}, alts: commonAlts()}
		},
		prove: func(h *hash.Hash, st *statement) interface{} {
			return zkmod.NewProof(h, *st.priv.(*zkmod.Private), *st.pub.(*zkmod.Public), nil)
		},
		verify: func(h *hash.Hash, pub interface{}, proof interface{}) bool {
			return proof.(*zkmod.Proof).Verify(*pub.(*zkmod.Public), h, nil)
		}})

	// ---- prm ---------------------------------------------------------------------------------
	// lambda = 0 makes the public parameter s = t^0 = 1: a degenerate statement that parameter validation
	// refuses by design (pedersen.ValidateParameters), so it is not a witness "inside the documented range"
	confLambda := coord{name: "lambda", kind: cEnum, labels: []string{"rand", "3", "2", "phi-1"}} // (lambda = 1 gives s = t, refused as well)
	l = append(l, &system{name: "prm", conf: []coord{confKeys3, confLambda}, chunks: 3, chunkT: 8, noRange: "responses are residues",
		build: func(pt point) *statement {
			ks := keysetByName(pt["keys"])
			phi := ks.sk.Phi()
			N := ks.pk.N()
			var lam *saferith.Nat
			switch pt["lambda"] {
			case "3":
				lam = natFromBig(big.NewInt(3))
			case "2":
				lam = natFromBig(big.NewInt(2))
			case "phi-1":
				lam = natFromBig(new(big.Int).Sub(phi.Big(), one))
			default:
				lam = sample.ModN(rand.Reader, saferith.ModulusFromNat(phi))
			}
			tau := sample.UnitModN(rand.Reader, N)
			t := new(saferith.Nat).ModMul(tau, tau, N)
			s := new(saferith.Nat).Exp(t, lam, N)
			aux := pedersen.New(arith.ModulusFromN(N), s, t)
			al := commonAlts()
			al["Aux"] = pedAlts(aux)
			return &statement{pub: &zkprm.Public{Aux: aux}, priv: &zkprm.Private{Lambda: lam, Phi: phi, P: ks.sk.P(), Q: ks.sk.Q()}, alts: al}
		},
		prove: func(h *hash.Hash, st *statement) interface{} {
			return zkprm.NewProof(*st.priv.(*zkprm.Private), h, *st.pub.(*zkprm.Public), nil)
		},
		verify: func(h *hash.Hash, pub interface{}, proof interface{}) bool {
			return proof.(*zkprm.Proof).Verify(*pub.(*zkprm.Public), h, nil)
		}})

	return l
}
