package main

// (d) Adaptive-statement forgeries.  A verifier that leaves a public input F out of the
// Fiat–Shamir hash still rejects a merely *changed* F (the verification equation breaks), so
// substitution tests cannot see that defect.  The textbook attack can: fix the commitment,
// obtain the challenge e for a dummy value of F from the package's own challenge function
// (read-only accessor added through the overlay), then solve the linear verification equation
// for F.  On correct code e changes once the solved F is hashed and Verify rejects; if F is
// not hashed the forged (false) statement verifies.

import (
	"crypto/rand"
	"fmt"
	"reflect"
	"strings"

	"github.com/taurusgroup/multi-party-sig/internal/elgamal"
	"github.com/taurusgroup/multi-party-sig/internal/zzverif/drv"
	"github.com/taurusgroup/multi-party-sig/internal/zzverif/vkit"
	"github.com/taurusgroup/multi-party-sig/pkg/math/curve"
	"github.com/taurusgroup/multi-party-sig/pkg/math/sample"
	zkelog "github.com/taurusgroup/multi-party-sig/pkg/zk/elog"
	zklog "github.com/taurusgroup/multi-party-sig/pkg/zk/log"
	zksch "github.com/taurusgroup/multi-party-sig/pkg/zk/sch"
)

const forgeryNote = "adaptive-statement forgeries are mounted for sch (public, gen), log (X, Y, H), elog (Y, E.M, E.L), logstar (X), mulstar (X), dec (X), affg (Xp); the other statement fields enter non-linear (Paillier / Pedersen) relations and are covered by substitution only. " + commitmentForgeryNote + ". " + rebindNote

type forgery struct {
	// field: the statement field solved for, or "commitment:<field>" for an adaptive
	// commitment-field forgery (forge3.go); it is the Mut of the case id, which is what a
	// replay of kind "forgery" is looked up by
	sys, field string
	// eq: the verification equation that was solved (commitment forgeries; documentation only)
	eq string
	// make returns the forged statement and proof (built with the challenge for a dummy field)
	make func(ctx string) (pub interface{}, proof interface{})
}

const (
	commitmentPrefix = "commitment:"
	rebindPrefix     = "commitment-rebind:" // forge4.go: a commitment re-chosen after the challenge, true statement
)

// commitmentField returns the commitment field a forgery solves for ("" for a statement forgery).
func (f *forgery) commitmentField() string {
	if strings.HasPrefix(f.field, commitmentPrefix) {
		return f.field[len(commitmentPrefix):]
	}
	return ""
}

func rs() curve.Scalar { return sample.ScalarUnit(rand.Reader, group) }

func sc(s curve.Scalar) curve.Scalar { return group.NewScalar().Set(s) }

func inv(s curve.Scalar) curve.Scalar { return sc(s).Invert() }

func setField(obj interface{}, path string, val interface{}) {
	for _, l := range leaves(obj) {
		if l.path == path {
			l.v.Set(reflect.ValueOf(val))
			return
		}
	}
	panic("no field " + path)
}

func forgeries() []*forgery {
	G := group.NewBasePoint()
	var l []*forgery

	// sch: z·gen = C + e·X
	l = append(l, &forgery{sys: "sch", field: "X", make: func(ctx string) (interface{}, interface{}) {
		c, z := rs(), rs()
		C := c.ActOnBase()
		e, _ := zksch.VerifChallenge(ctxHash(ctx), group, &zksch.Commitment{C: C}, randPoint(), G)
		X := inv(e).Act(z.ActOnBase().Sub(C))
		p := zksch.EmptyProof(group)
		p.C.C, p.Z.Z = C, z
		return &schPublic{X: X}, p
	}})
	l = append(l, &forgery{sys: "sch", field: "Gen", make: func(ctx string) (interface{}, interface{}) {
		c, z := rs(), rs()
		C, X := c.ActOnBase(), randPoint()
		e, _ := zksch.VerifChallenge(ctxHash(ctx), group, &zksch.Commitment{C: C}, X, randPoint())
		gen := inv(z).Act(e.Act(X).Add(C))
		p := zksch.EmptyProof(group)
		p.C.C, p.Z.Z = C, z
		return &schPublic{X: X, Gen: gen}, p
	}})

	// log: z1·G = A + e·X ; z1·H = B + e·Y ; z2·G = C + e·H
	mkLog := func(pub *zklog.Public, cm *zklog.Commitment, z1, z2 curve.Scalar) *zklog.Proof {
		p := zklog.Empty(group)
		p.Commitment = cm
		p.Z1, p.Z2 = z1, z2
		return p
	}
	l = append(l, &forgery{sys: "log", field: "X", make: func(ctx string) (interface{}, interface{}) {
		h, y, alpha, beta, gamma := rs(), rs(), rs(), rs(), rs()
		H := h.ActOnBase()
		pub := &zklog.Public{H: H, X: randPoint(), Y: y.Act(H)}
		cm := &zklog.Commitment{A: alpha.ActOnBase(), B: beta.Act(H), C: gamma.ActOnBase()}
		e, _ := zklog.VerifChallenge(ctxHash(ctx), group, *pub, cm)
		z1, z2 := sc(e).Mul(y).Add(beta), sc(e).Mul(h).Add(gamma)
		pub.X = inv(e).Act(z1.ActOnBase().Sub(cm.A))
		return pub, mkLog(pub, cm, z1, z2)
	}})
	l = append(l, &forgery{sys: "log", field: "Y", make: func(ctx string) (interface{}, interface{}) {
		h, x, alpha, beta, gamma := rs(), rs(), rs(), rs(), rs()
		H := h.ActOnBase()
		pub := &zklog.Public{H: H, X: x.ActOnBase(), Y: randPoint()}
		cm := &zklog.Commitment{A: alpha.ActOnBase(), B: beta.Act(H), C: gamma.ActOnBase()}
		e, _ := zklog.VerifChallenge(ctxHash(ctx), group, *pub, cm)
		z1, z2 := sc(e).Mul(x).Add(alpha), sc(e).Mul(h).Add(gamma)
		pub.Y = inv(e).Act(z1.Act(H).Sub(cm.B))
		return pub, mkLog(pub, cm, z1, z2)
	}})
	l = append(l, &forgery{sys: "log", field: "H", make: func(ctx string) (interface{}, interface{}) {
		x, y, alpha, b, c := rs(), rs(), rs(), rs(), rs()
		pub := &zklog.Public{H: randPoint(), X: x.ActOnBase(), Y: y.ActOnBase()}
		cm := &zklog.Commitment{A: alpha.ActOnBase(), B: b.ActOnBase(), C: c.ActOnBase()}
		e, _ := zklog.VerifChallenge(ctxHash(ctx), group, *pub, cm)
		z1 := sc(e).Mul(x).Add(alpha)
		h := sc(e).Mul(y).Add(b).Mul(inv(z1)) // h' = (b + e·y)/z1
		z2 := sc(e).Mul(h).Add(c)
		pub.H = h.ActOnBase()
		return pub, mkLog(pub, cm, z1, z2)
	}})

	// elog: z·G = A + e·L ; u·G + z·X = N + e·M ; u·H = B + e·Y
	mkElog := func(cm *zkelog.Commitment, z, u curve.Scalar) *zkelog.Proof {
		p := zkelog.Empty(group)
		p.Commitment = cm
		p.Z, p.U = z, u
		return p
	}
	l = append(l, &forgery{sys: "elog", field: "Y", make: func(ctx string) (interface{}, interface{}) {
		y, lam, alpha, m, beta := rs(), rs(), rs(), rs(), rs()
		X, H := randPoint(), randPoint()
		pub := &zkelog.Public{E: &elgamal.Ciphertext{L: lam.ActOnBase(), M: y.ActOnBase().Add(lam.Act(X))}, ElGamalPublic: X, Base: H, Y: randPoint()}
		cm := &zkelog.Commitment{A: alpha.ActOnBase(), N: m.ActOnBase().Add(alpha.Act(X)), B: beta.Act(H)}
		e, _ := zkelog.VerifChallenge(ctxHash(ctx), group, *pub, cm)
		z, u := sc(e).Mul(lam).Add(alpha), sc(e).Mul(y).Add(m)
		pub.Y = inv(e).Act(u.Act(H).Sub(cm.B))
		return pub, mkElog(cm, z, u)
	}})
	l = append(l, &forgery{sys: "elog", field: "E.M", make: func(ctx string) (interface{}, interface{}) {
		y, lam, alpha, m := rs(), rs(), rs(), rs()
		X, H := randPoint(), randPoint()
		pub := &zkelog.Public{E: &elgamal.Ciphertext{L: lam.ActOnBase(), M: randPoint()}, ElGamalPublic: X, Base: H, Y: y.Act(H)}
		cm := &zkelog.Commitment{A: alpha.ActOnBase(), N: randPoint(), B: m.Act(H)}
		e, _ := zkelog.VerifChallenge(ctxHash(ctx), group, *pub, cm)
		z, u := sc(e).Mul(lam).Add(alpha), sc(e).Mul(y).Add(m)
		pub.E = &elgamal.Ciphertext{L: pub.E.L, M: inv(e).Act(u.ActOnBase().Add(z.Act(X)).Sub(cm.N))}
		return pub, mkElog(cm, z, u)
	}})
	l = append(l, &forgery{sys: "elog", field: "E.L", make: func(ctx string) (interface{}, interface{}) {
		y, lam, alpha, m := rs(), rs(), rs(), rs()
		X, H := randPoint(), randPoint()
		pub := &zkelog.Public{E: &elgamal.Ciphertext{L: randPoint(), M: y.ActOnBase().Add(lam.Act(X))}, ElGamalPublic: X, Base: H, Y: y.Act(H)}
		cm := &zkelog.Commitment{A: randPoint(), N: m.ActOnBase().Add(alpha.Act(X)), B: m.Act(H)}
		e, _ := zkelog.VerifChallenge(ctxHash(ctx), group, *pub, cm)
		z, u := sc(e).Mul(lam).Add(alpha), sc(e).Mul(y).Add(m)
		pub.E = &elgamal.Ciphertext{L: inv(e).Act(z.ActOnBase().Sub(cm.A)), M: pub.E.M}
		return pub, mkElog(cm, z, u)
	}})
	l = append(l, paillierForgeries()...)
	l = append(l, commitmentForgeries()...)
	l = append(l, rebindForgeries()...)
	return l
}

// runForgery mounts one forgery in every context; acceptance is a violation, with the forged
// pair described in the detail.
func runForgery(f *forgery) (violated bool) {
	s := sysByNm[f.sys]
	for _, ctx := range []string{baseCtx, "new"} {
		id := caseID{Sys: f.sys, Kind: "forgery", Point: point{"ctx": ctx}, Mut: f.field}
		res.Case(id.key())
		count(f.sys, "forgery")
		var pub, proof interface{}
		drv.Use(drv.NewDRBG("c10|forge|"+f.sys+"|"+f.field+"|"+ctx, *vkit.Seed))
		if p, msg, fr := vkit.Try(func() { pub, proof = f.make(ctx) }); p {
			res.Hard(fmt.Sprintf("forgery %s.%s could not be built: %s @ %s", f.sys, f.field, msg, fr))
			continue
		}
		v := verifySt(s, ctx, pub, proof)
		logf("forgery %s.%s ctx %s: verify=%v panic=%v %s", f.sys, f.field, ctx, v.ok, v.panicked, v.msg)
		switch {
		case v.panicked:
			violated = true
			res.Violate(fmt.Sprintf("panic|%s|%s", f.sys, v.fr), fmt.Sprintf("Verify panicked on a forged pair (%s.%s): %s", f.sys, f.field, v.msg), id)
		case v.ok && f.commitmentField() != "":
			violated = true
			res.Violate(fmt.Sprintf("zk|%s|commitment-forgery|%s|accepted", f.sys, f.commitmentField()),
				fmt.Sprintf("adaptive commitment forgery accepted: the challenge does not depend on commitment field %s, so a prover can run the honest algorithm on a FALSE statement, learn the challenge e and then solve the verification equation %s for %s; Verify accepts the false statement\nforged (false) statement: %s\nforged proof: %s", f.commitmentField(), f.eq, f.commitmentField(), describe(pub), describe(proof)), id)
		case v.ok && strings.HasPrefix(f.field, rebindPrefix):
			violated = true
			fld := f.field[len(rebindPrefix):]
			res.Violate(fmt.Sprintf("zk|%s|commitment-unbound|%s|accepted", f.sys, fld),
				fmt.Sprintf("a proof whose commitment %s was re-chosen AFTER the challenge (and one response adapted with the known challenge: %s) verifies: the challenge does not depend on %s\nstatement: %s\nproof: %s", fld, f.eq, fld, describe(pub), describe(proof)), id)
		case v.ok:
			violated = true
			res.Violate(fmt.Sprintf("zk|%s|forgery|%s|accepted", f.sys, f.field),
				fmt.Sprintf("adaptive-statement forgery accepted: the challenge does not depend on statement field %s, so a prover can choose it after seeing the challenge and prove a false statement\nforged statement: %s\nforged proof: %s", f.field, describe(pub), describe(proof)), id)
		}
	}
	return
}
