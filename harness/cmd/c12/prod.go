package main

// Part 2: production-size keys (2048-bit N), boundary lattice.
// The key pairs were generated ONCE with the library's own sample.Paillier and are read from
// /verif/data/paillier_keys.json; they are validated on load with paillier.ValidatePrime / ValidateN.

import (
	"crypto/rand"
	"encoding/json"
	"fmt"
	"math/big"
	"os"
	"strconv"
	"strings"

	"github.com/cronokirby/saferith"
	"github.com/taurusgroup/multi-party-sig/internal/zzverif/drv"
	"github.com/taurusgroup/multi-party-sig/internal/zzverif/vkit"
	"github.com/taurusgroup/multi-party-sig/pkg/math/sample"
	"github.com/taurusgroup/multi-party-sig/pkg/paillier"
	"github.com/taurusgroup/multi-party-sig/pkg/pool"
)

const keyFile = "/verif/data/paillier_keys.json"

type keyFileT struct {
	Comment string `json:"comment"`
	Keys    []struct {
		P string `json:"p"`
		Q string `json:"q"`
	} `json:"keys"`
}

// generateKeys must run BEFORE drv.Install (real entropy).
func generateKeys(n int) error {
	pl := pool.NewPool(0)
	defer pl.TearDown()
	var kf keyFileT
	kf.Comment = "safe Blum prime pairs generated once with the library's own sample.Paillier(crypto/rand.Reader, pool); validated with paillier.ValidatePrime at every load; test material only"
	for i := 0; i < n; i++ {
		p, q := sample.Paillier(rand.Reader, pl)
		if err := paillier.ValidatePrime(p); err != nil {
			return err
		}
		if err := paillier.ValidatePrime(q); err != nil {
			return err
		}
		kf.Keys = append(kf.Keys, struct {
			P string `json:"p"`
			Q string `json:"q"`
		}{p.Big().Text(16), q.Big().Text(16)})
		fmt.Fprintf(os.Stderr, "key %d generated\n", i)
	}
	b, _ := json.MarshalIndent(kf, "", " ")
	return os.WriteFile(keyFile, append(b, '\n'), 0o644)
}

var prodCache = map[int]*keyCtx{}

// sampledUnreduced counts nonces >= N returned by the library's Enc (an observation, not a violation).
var sampledUnreduced int64

func prodKey(i int) (*keyCtx, error) {
	if k, ok := prodCache[i]; ok {
		return k, nil
	}
	b, err := os.ReadFile(keyFile)
	if err != nil {
		return nil, err
	}
	var kf keyFileT
	if err := json.Unmarshal(b, &kf); err != nil {
		return nil, err
	}
	if i >= len(kf.Keys) {
		return nil, fmt.Errorf("%s holds %d keys, need #%d", keyFile, len(kf.Keys), i)
	}
	p, ok1 := new(big.Int).SetString(kf.Keys[i].P, 16)
	q, ok2 := new(big.Int).SetString(kf.Keys[i].Q, 16)
	if !ok1 || !ok2 {
		return nil, fmt.Errorf("%s key %d: bad hex", keyFile, i)
	}
	for _, x := range []*big.Int{p, q} {
		if err := paillier.ValidatePrime(new(saferith.Nat).SetBig(x, x.BitLen())); err != nil {
			return nil, fmt.Errorf("%s key %d: %v", keyFile, i, err)
		}
		if !x.ProbablyPrime(20) {
			return nil, fmt.Errorf("%s key %d: factor not prime", keyFile, i)
		}
	}
	if err := paillier.ValidateN(saferith.ModulusFromNat(natOf(new(big.Int).Mul(p, q)))); err != nil {
		return nil, fmt.Errorf("%s key %d: %v", keyFile, i, err)
	}
	k, err := newKeyCtx(fmt.Sprintf("prod:%d", i), "prod", p, q)
	if err == nil {
		prodCache[i] = k
	}
	return k, err
}

func keyByID(id string) (*keyCtx, error) {
	switch {
	case strings.HasPrefix(id, "tiny:"):
		var p, q int64
		if n, _ := fmt.Sscanf(id, "tiny:%d,%d", &p, &q); n != 2 {
			return nil, fmt.Errorf("bad key id %q", id)
		}
		return tinyKey(p, q)
	case strings.HasPrefix(id, "prod:"):
		i, err := strconv.Atoi(id[5:])
		if err != nil {
			return nil, err
		}
		return prodKey(i)
	}
	return nil, fmt.Errorf("bad key id %q", id)
}

func pow2(k uint) *big.Int              { return new(big.Int).Lsh(big1, k) }
func neg(x *big.Int) *big.Int           { return new(big.Int).Neg(x) }
func plus(x *big.Int, d int64) *big.Int { return new(big.Int).Add(x, big.NewInt(d)) }

// seededUnit draws a unit of Z_N in [1, N).
func seededUnit(d *drv.DRBG, rk *refKey) *big.Int {
	for {
		x := seededBelow(d, rk.N)
		if rk.IsUnitN(x) {
			return x
		}
	}
}

func runProd(r *runner) {
	nKeys := 2
	if vkit.Thorough() {
		nKeys = 4
	}
	seed := *vkit.Seed
	for ki := 0; ki < nKeys; ki++ {
		name := fmt.Sprintf("prod:%d", ki)
		// cheap look-ahead: skip loading when nothing of this key is ours is not possible without the
		// lattice, so the key is always loaded (validation costs ~50 ms).
		k, err := prodKey(ki)
		if err != nil {
			r.res.Hard(err.Error())
			continue
		}
		rk := k.ref
		half := rk.Half
		d := drv.NewDRBG("c12|prod|lattice|"+name, seed)
		variants := []string{"crt", "plain"}

		// plaintext lattice
		var pts []*big.Int
		pts = append(pts, big.NewInt(0))
		for _, x := range []*big.Int{big.NewInt(1), half, plus(half, -1)} {
			pts = append(pts, x, neg(x))
		}
		for _, e := range []uint{1, 8, 64, 255, 256, 257, 1024, 2046} {
			pts = append(pts, pow2(e), neg(pow2(e)))
		}
		pts = append(pts, rk.Sym(seededBelow(d, rk.N)), rk.Sym(seededBelow(d, rk.N)))
		nonces := []*big.Int{big.NewInt(1), plus(rk.N, -1), big.NewInt(2), seededUnit(d, rk)}
		if !vkit.Thorough() {
			nonces = []*big.Int{plus(rk.N, -1), seededUnit(d, rk)}
		}

		// (a) Enc/Dec/DecWithRandomness/re-encrypt on the lattice x nonce set, plus the library's own sampler
		for _, m := range pts {
			if !r.mine(name + "|enc") {
				continue
			}
			for _, rho := range nonces {
				for _, v := range variants {
					r.count("prod-enc", m.Sign() == 0 && rho.Cmp(big1) == 0)
					r.report(k.encCase(v, m, rho))
				}
			}
			r.count("prod-enc-sampled", false)
			r.report(k.encSampledCase(m, seed))
			r.sample("prod-enc", func() interface{} {
				return map[string]interface{}{"part": "enc", "key": name, "m": short(m), "nonces": len(nonces), "N_bits": rk.N.BitLen(), "pk_variants": variants}
			})
		}
		// (b) refusal just outside the range and far outside
		if r.mine(name + "|refuse") {
			for _, x := range []*big.Int{plus(half, 1), plus(half, 2), plus(rk.N, -1), rk.N, plus(rk.N, 1), pow2(2047), pow2(2048), rk.N2, pow2(4096), pow2(8192)} {
				for _, m := range []*big.Int{x, neg(x)} {
					if rk.InRange(m) {
						continue
					}
					for _, v := range variants {
						r.count("prod-refuse", false)
						r.report(k.refuseCase(v, m))
					}
				}
			}
		}
		// (c) sums just inside / just outside the range
		type pair struct{ a, b *big.Int }
		var sums []pair
		for _, e := range []uint{0, 1, 8, 64, 256, 1024, 2045} {
			t := pow2(e)
			sums = append(sums, pair{new(big.Int).Sub(half, t), t}, // = half
				pair{new(big.Int).Sub(t, half), neg(t)},          // = -half
				pair{new(big.Int).Sub(half, t), plus(t, 1)},      // = half+1: wraps to -half
				pair{new(big.Int).Sub(t, half), neg(plus(t, 1))}) // = -half-1: wraps to half
		}
		sums = append(sums, pair{half, big.NewInt(0)}, pair{neg(half), big.NewInt(0)}, pair{half, neg(half)}, pair{half, half}, pair{neg(half), neg(half)},
			pair{pow2(2046), pow2(2046)}, pair{pow2(2045), pow2(2045)}, pair{plus(half, -1), big.NewInt(1)}, pair{big.NewInt(0), big.NewInt(0)})
		s1 := rk.Sym(seededBelow(d, rk.N))
		sums = append(sums, pair{s1, neg(s1)}, pair{s1, rk.Sym(seededBelow(d, rk.N))})
		for i, pr := range sums {
			if !r.mine(name + "|add") {
				continue
			}
			dd := drv.NewDRBG(fmt.Sprintf("c12|prod|add|%s|%d", name, i), seed)
			r1, r2 := seededUnit(dd, rk), seededUnit(dd, rk)
			for _, v := range variants {
				r.count("prod-add", pr.b.Sign() == 0)
				r.report(k.addCase(v, pr.a, r1, pr.b, r2))
			}
		}
		// (d) products just inside / just outside the range
		var prods []pair // (m, scalar)
		for _, s := range []*big.Int{big.NewInt(2), big.NewInt(3), big.NewInt(-2), pow2(64), plus(pow2(255), 1), pow2(1024), neg(pow2(1024)), plus(pow2(256), -1)} {
			fl := new(big.Int).Quo(half, new(big.Int).Abs(s)) // largest m with |m*s| <= half
			prods = append(prods, pair{fl, s}, pair{neg(fl), s}, pair{plus(fl, 1), s}, pair{s, fl}, pair{s, plus(fl, 1)})
		}
		prods = append(prods, pair{half, big.NewInt(1)}, pair{half, big.NewInt(-1)}, pair{neg(half), big.NewInt(-1)}, pair{big.NewInt(1), half}, pair{big.NewInt(-1), half},
			pair{big.NewInt(1), neg(half)}, pair{big.NewInt(1), rk.N}, pair{big.NewInt(1), plus(rk.N, -1)}, pair{big.NewInt(1), neg(rk.N)}, pair{half, big.NewInt(0)},
			pair{big.NewInt(0), rk.N}, pair{half, half}, pair{plus(pow2(256), -1), plus(pow2(256), -1)}, pair{s1, big.NewInt(2)})
		for i, pr := range prods {
			if !r.mine(name + "|mul") {
				continue
			}
			dd := drv.NewDRBG(fmt.Sprintf("c12|prod|mul|%s|%d", name, i), seed)
			r1 := seededUnit(dd, rk)
			for _, v := range variants {
				r.count("prod-mul", pr.b.BitLen() <= 1 || pr.a.Sign() == 0)
				r.report(k.mulCase(v, pr.a, r1, pr.b))
			}
		}
		// (e) ciphertext candidates
		valid := rk.Enc(s1, seededUnit(d, rk))
		mulb := func(a, b *big.Int) *big.Int { return new(big.Int).Mul(a, b) }
		cands := []*big.Int{big.NewInt(0), big.NewInt(1), big.NewInt(2), plus(rk.N, -1), rk.N, plus(rk.N, 1), mulb(rk.N, big2), new(big.Int).Sub(rk.N2, rk.N),
			plus(rk.N2, -2), plus(rk.N2, -1), rk.N2, plus(rk.N2, 1), new(big.Int).Add(rk.N2, rk.N), mulb(rk.N2, big2), rk.P, rk.Q, mulb(rk.P, rk.P), mulb(rk.Q, rk.Q),
			mulb(rk.P, rk.N), mulb(rk.Q, rk.N), plus(mulb(rk.P, rk.N), 1), mulb(rk.P, seededBelow(d, mulb(rk.Q, rk.N))), mulb(rk.Q, seededBelow(d, mulb(rk.P, rk.N))),
			valid, new(big.Int).Add(valid, rk.N2), plus(pow2(4096), -1), pow2(4096), plus(pow2(4095), 1), seededBelow(d, rk.N2)}
		for _, c := range cands {
			if !r.mine(name + "|validate") {
				continue
			}
			for _, w := range []int{k.width, 0} {
				r.count("prod-validate", false)
				r.report(k.validateCase("crt", c, w, true))
				r.count("prod-validate", false)
				r.report(k.validateCase("plain", c, w, false))
			}
		}
		if r.mine(name + "|validate-nil") {
			for _, v := range variants {
				r.count("prod-validate", false)
				r.report(k.validateNilCase(v))
			}
		}
		// (f) arith.Modulus Exp / ExpI on a boundary lattice, both with and without factorisation
		for _, v := range expVariants {
			_, mod := k.modulus(v)
			bases, exps := expLattice(k, mod, 2, seed)
			if !vkit.Thorough() {
				bases, exps = thin(bases, 2), thinExp(exps, rk)
			}
			for _, b := range bases {
				if !r.mine(name + "|exp|" + v) {
					continue
				}
				for _, e := range exps {
					r.count("prod-exp", e.BitLen() <= 1 || b.BitLen() <= 1)
					r.report(k.expCase(v, b, e))
				}
			}
		}
	}
}

func (k *keyCtx) validateNilCase(v string) (fs []finding) {
	c := Case{Part: "validate-nil", Key: k.id, Variant: v}
	guard(&fs, "validate", c, func() {
		if k.pk(v).ValidateCiphertexts(nil) || k.pk(v).ValidateCiphertexts(ctOf(big.NewInt(1), 0), nil) {
			fs = append(fs, finding{"paillier|" + k.class + "|validate-accepts-nil", "ValidateCiphertexts accepts a nil ciphertext", c})
		}
	})
	return
}

// thin keeps every n-th element (quick tier).
func thin(l []*big.Int, n int) (out []*big.Int) {
	for i, x := range l {
		if i%n == 0 {
			out = append(out, x)
		}
	}
	return
}

// thinExp keeps the exponents 0, ±1, ±(N-1)/2, ±phi, ±N (quick tier).
func thinExp(l []*big.Int, rk *refKey) (out []*big.Int) {
	phi := new(big.Int).Mul(plus(rk.P, -1), plus(rk.Q, -1))
	for _, e := range l {
		a := new(big.Int).Abs(e)
		if a.BitLen() <= 1 || a.Cmp(rk.Half) == 0 || a.Cmp(phi) == 0 || a.Cmp(rk.N) == 0 {
			out = append(out, e)
		}
	}
	return
}

// encSampledCase: the library's own Enc (nonce from sample.UnitModN over the seeded DRBG):
// the returned nonce must be a unit and reproduce the ciphertext in the reference.
func (k *keyCtx) encSampledCase(m *big.Int, seed int64) (out []finding) {
	c := Case{Part: "enc-sampled", Key: k.id, X: m.String()}
	pan, msg, frame := vkit.Try(func() {
		drv.Use(drv.NewDRBG("c12|enc-sampled|"+k.id+"|"+m.String(), seed))
		ct, nonce := k.pkPlain.Enc(intOf(m))
		nb := nonce.Big()
		if nb.Cmp(k.ref.N) >= 0 {
			sampledUnreduced++
		}
		if !k.ref.IsUnitN(nb) {
			out = append(out, finding{"paillier|" + k.class + "|enc-sampled-nonunit-nonce", fmt.Sprintf("key %s m=%s: Enc returned nonce %s which is not a unit mod N", k.id, short(m), short(nb)), c})
			return
		}
		if want := k.ref.Enc(m, nb); ctBig(ct).Cmp(want) != 0 {
			out = append(out, finding{"paillier|" + k.class + "|enc-sampled-mismatch", fmt.Sprintf("key %s m=%s nonce=%s: Enc=%s reference=%s", k.id, short(m), short(nb), short(ctBig(ct)), short(want)), c})
		}
		d, err := k.sk.Dec(ct)
		if err != nil || d.Big().Cmp(m) != 0 {
			out = append(out, finding{"paillier|" + k.class + "|dec-mismatch", fmt.Sprintf("key %s m=%s (sampled nonce): Dec=%v err=%v", k.id, short(m), d, err), c})
		}
	})
	if pan && strings.HasPrefix(msg, refusalMsg) {
		f := k.refusedInRange("plain", m, msg)
		f.c = c
		out = append(out, f)
	} else if pan {
		out = append(out, finding{"panic|enc|" + frame, fmt.Sprintf("%+v: panic: %s", c, msg), c})
	}
	return
}
