package main

// Part 3: MtA (internal/mta: ProveAffG, ProveAffP) on the scalar lattice squared.
// Sender holds a, receiver holds b (encrypted as K = Enc_receiver(b)); the sender returns beta and
// D; the receiver's alpha = Dec(D).  Oracle: alpha + beta = a*b over the integers, with a, b the
// representatives the protocol uses (curve.MakeInt: [0, q)), the attached proof verifies with the
// public inputs the protocol rounds build (cmp/sign/round3.go, cmp/presign/presign3.go), F decrypts
// to -beta under the sender's key, beta lies in ±2^l'.  alpha is decrypted by the library and by
// the reference.

import (
	"fmt"
	"math/big"

	"github.com/cronokirby/saferith"
	"github.com/taurusgroup/multi-party-sig/internal/mta"
	"github.com/taurusgroup/multi-party-sig/internal/params"
	"github.com/taurusgroup/multi-party-sig/internal/zzverif/drv"
	"github.com/taurusgroup/multi-party-sig/internal/zzverif/vkit"
	"github.com/taurusgroup/multi-party-sig/pkg/hash"
	"github.com/taurusgroup/multi-party-sig/pkg/math/curve"
	"github.com/taurusgroup/multi-party-sig/pkg/paillier"
	"github.com/taurusgroup/multi-party-sig/pkg/pedersen"
	"github.com/taurusgroup/multi-party-sig/pkg/zk"
	zkaffg "github.com/taurusgroup/multi-party-sig/pkg/zk/affg"
	zkaffp "github.com/taurusgroup/multi-party-sig/pkg/zk/affp"
)

type mtaParty struct {
	sk  *paillier.SecretKey
	pub *paillier.PublicKey // as the peer holds it: built from N only
	ref *refKey
	ped *pedersen.Parameters // Pedersen parameters over this party's N (used when it is the receiver)
}

var mtaParties []*mtaParty

// mtaSetup: the fixed test keys of pkg/zk.  zk.Pedersen lives over the verifier's modulus; the
// parameters for the reverse direction are generated with the library's GeneratePedersen under a fixed DRBG.
func mtaSetup() []*mtaParty {
	if mtaParties != nil {
		return mtaParties
	}
	mk := func(sk *paillier.SecretKey) *mtaParty {
		return &mtaParty{sk: sk, pub: paillier.NewPublicKey(sk.PublicKey.N()), ref: newRefKey(sk.P().Big(), sk.Q().Big())}
	}
	p, v := mk(zk.ProverPaillierSecret), mk(zk.VerifierPaillierSecret)
	v.ped = zk.Pedersen
	drv.Use(drv.NewDRBG("c12|mta|pedersen", 1))
	p.ped, _ = p.sk.GeneratePedersen()
	mtaParties = []*mtaParty{p, v}
	return mtaParties
}

type namedScalar struct {
	label string
	v     *big.Int
}

func mtaScalars(q *big.Int, seed int64) []namedScalar {
	d := drv.NewDRBG("c12|mta|scalars", seed)
	all := []namedScalar{
		{"0", big.NewInt(0)}, {"1", big.NewInt(1)}, {"q-1", plus(q, -1)}, {"2^128", pow2(128)}, {"seeded", seededBelow(d, q)},
		{"2", big.NewInt(2)}, {"q-2", plus(q, -2)}, {"(q-1)/2", new(big.Int).Rsh(plus(q, -1), 1)}, {"seeded", seededBelow(d, q)}, {"seeded", seededBelow(d, q)},
	}
	if vkit.Thorough() {
		return all
	}
	return all[:5]
}

func labelOf(x, q *big.Int) string {
	for _, s := range mtaScalars(q, 0)[:4] {
		if s.v.Cmp(x) == 0 {
			return s.label
		}
	}
	switch {
	case x.Cmp(big2) == 0:
		return "2"
	case x.Cmp(plus(q, -2)) == 0:
		return "q-2"
	case x.Cmp(new(big.Int).Rsh(plus(q, -1), 1)) == 0:
		return "(q-1)/2"
	}
	return "seeded"
}

func runMtA(r *runner) {
	group := curve.Secp256k1{}
	q := group.Order().Big()
	scalars := mtaScalars(q, *vkit.Seed)
	dirs := []int{0}
	if vkit.Thorough() {
		dirs = []int{0, 1}
	}
	for _, kind := range []string{"affg", "affp"} {
		for _, dir := range dirs {
			for _, a := range scalars {
				for _, b := range scalars {
					if !r.mine("mta|" + kind) {
						continue
					}
					r.count("mta-"+kind, false)
					fs := mtaCase(kind, dir, a.v, b.v, *vkit.Seed)
					r.report(fs)
					r.sample("mta-"+kind, func() interface{} {
						return map[string]interface{}{"part": "mta", "kind": kind, "dir": dir, "a": a.label, "b": b.label, "a_value": a.v.String(), "b_value": b.v.String(), "violations": len(fs)}
					})
				}
			}
		}
	}
}

func replayMtA(c Case) ([]finding, error) {
	return mtaCase(c.Variant, c.Dir, dec(c.X), dec(c.Y), *vkit.Seed), nil
}

// mtaCase runs one complete exchange: dir 0 = prover key sends to verifier key, dir 1 = the reverse.
func mtaCase(kind string, dir int, a, b *big.Int, seed int64) (out []finding) {
	group := curve.Secp256k1{}
	q := group.Order().Big()
	c := Case{Part: "mta", Key: "zk", Variant: kind, X: a.String(), Y: b.String(), Dir: dir}
	la := labelOf(a, q)
	add := func(class, detail string) {
		out = append(out, finding{"mta|" + kind + "|" + class + "|a=" + la, fmt.Sprintf("%s dir=%d a=%s b=%s (b is %s): %s", kind, dir, short(a), short(b), labelOf(b, q), detail), c})
	}
	guard(&out, "mta-"+kind, c, func() {
		ps := mtaSetup()
		snd, rcv := ps[dir], ps[1-dir]
		drv.Use(drv.NewDRBG(fmt.Sprintf("c12|mta|%s|%d|%s|%s", kind, dir, a, b), seed))

		aS := group.NewScalar().SetNat(natOf(a))
		bS := group.NewScalar().SetNat(natOf(b))
		aI, bI := curve.MakeInt(aS), curve.MakeInt(bS)
		if aI.Big().Cmp(a) != 0 || bI.Big().Cmp(b) != 0 {
			add("makeint-mismatch", fmt.Sprintf("curve.MakeInt gives %s, %s", short(aI.Big()), short(bI.Big())))
			return
		}
		K, _ := rcv.sk.Enc(bI) // receiver's encrypted share, as in round 1 of sign / presign

		var beta *saferith.Int
		var D, F *paillier.Ciphertext
		var verify func() bool
		switch kind {
		case "affg":
			X := aS.ActOnBase()
			var proof *zkaffg.Proof
			beta, D, F, proof = mta.ProveAffG(group, hash.New(), aI, X, K, snd.sk, rcv.pub, rcv.ped)
			verify = func() bool {
				return proof.Verify(hash.New(), zkaffg.Public{Kv: K, Dv: D, Fp: F, Xp: X, Prover: snd.pub, Verifier: rcv.pub, Aux: rcv.ped})
			}
		default:
			A, nonce := snd.sk.Enc(aI)
			var proof *zkaffp.Proof
			beta, D, F, proof = mta.ProveAffP(group, hash.New(), aI, A, nonce, K, snd.sk, rcv.pub, rcv.ped)
			verify = func() bool {
				return proof.Verify(group, hash.New(), zkaffp.Public{Kv: K, Dv: D, Fp: F, Xp: A, Prover: snd.pub, Verifier: rcv.pub, Aux: rcv.ped})
			}
		}
		betaB := beta.Big()
		if new(big.Int).Abs(betaB).Cmp(pow2(params.LPrime)) > 0 {
			add("beta-out-of-range", fmt.Sprintf("|beta| > 2^%d: %s", params.LPrime, short(betaB)))
		}
		if !rcv.pub.ValidateCiphertexts(D) || !snd.pub.ValidateCiphertexts(F) {
			add("invalid-ciphertext", "D or F is not a valid ciphertext")
			return
		}
		alphaRef := rcv.ref.Dec(ctBig(D))
		alphaLib, err := rcv.sk.Dec(D)
		if err != nil {
			add("dec-error", err.Error())
			return
		}
		if alphaLib.Big().Cmp(alphaRef) != 0 {
			add("alpha-dec-mismatch", fmt.Sprintf("library Dec(D)=%s reference Dec(D)=%s", short(alphaLib.Big()), short(alphaRef)))
		}
		ab := new(big.Int).Mul(a, b)
		sum := new(big.Int).Add(alphaRef, betaB)
		if sum.Cmp(ab) != 0 {
			modq := "also differs mod q"
			if new(big.Int).Mod(sum, q).Cmp(new(big.Int).Mod(ab, q)) == 0 {
				modq = "congruent mod q only"
			}
			add("integer-sum-mismatch", fmt.Sprintf("alpha=%s beta=%s alpha+beta=%s but a*b=%s (difference %s; %s)", short(alphaRef), short(betaB), short(sum), short(ab), short(new(big.Int).Sub(sum, ab)), modq))
		}
		if fDec := snd.ref.Dec(ctBig(F)); fDec.Cmp(neg(betaB)) != 0 {
			add("f-mismatch", fmt.Sprintf("F decrypts to %s under the sender's key, expected -beta=%s", short(fDec), short(neg(betaB))))
		}
		if !verify() {
			add("proof-rejected", "the proof attached to an honest MtA message does not verify")
		}
	})
	return
}
