// C12 — Paillier encryption and MtA are exact on their full domain.
// Engine D (lattice): complete enumeration on tiny keys, boundary lattice on production-size
// keys, scalar lattice squared for MtA; every library result is compared with an independent
// math/big Paillier reference (ref.go).
package main

import (
	"flag"
	"fmt"
	"os"
	"strings"
	"time"

	"github.com/taurusgroup/multi-party-sig/internal/zzverif/drv"
	"github.com/taurusgroup/multi-party-sig/internal/zzverif/vkit"
)

var genKeys = flag.Int("genkeys", 0, "generate this many production-size key pairs with the library's own sample.Paillier into /verif/data/paillier_keys.json and exit")

type runner struct {
	res      *vkit.Result
	unit     int // running number of work units (sharding index)
	evals    int64
	nontriv  int64
	deadline time.Time
	cut      bool
	perPart  map[string]int64
	samples  map[string]int
}

// mine advances the unit counter and says whether this shard runs the unit.
func (r *runner) mine(name string) bool {
	u := r.unit
	r.unit++
	if !vkit.Mine(u) || !vkit.Want(name) {
		return false
	}
	if !r.deadline.IsZero() && time.Now().After(r.deadline) {
		if !r.cut {
			r.cut = true
			r.res.Exhaustive = false
			r.res.Note(fmt.Sprintf("internal time budget reached at unit %d (%s); the remaining units of this shard were not evaluated", u, name))
		}
		return false
	}
	return true
}

// count records one evaluated case of a part; trivial cases are counted but not as non-trivial.
func (r *runner) count(part string, trivial bool) {
	r.evals++
	if !trivial {
		r.nontriv++
	}
	r.perPart[part]++
}

func (r *runner) report(fs []finding) {
	for _, f := range fs {
		r.res.Violate(f.sig, f.detail, f.c)
	}
}

// sample writes out one actual case per part and shard (the orchestrator keeps the first 12).
func (r *runner) sample(part string, obj func() interface{}) {
	if r.samples[part] < 1 {
		r.samples[part]++
		r.res.Sample(obj())
	}
}

func main() {
	res := vkit.Init("C12")
	res.Rule = "one evaluation = one library operation (or one Enc→Dec→DecWithRandomness→re-encrypt chain, or one complete MtA exchange with proof verification) on one input tuple of the stated lattice, compared with the math/big reference; all tuples are distinct by construction (nested loops over sets); a tuple is counted non-trivial unless its expected result needs no arithmetic (m=0 with rho=1, adding 0, multiplying by 0 or 1, exponent 0/1 or base 0/1)"
	res.Assumptions = []string{
		"math/big (Exp, ModInverse, GCD) is correct: it is the oracle",
		"tiny keys exercise the same code paths as production keys (saferith is word-size generic); production-size keys are covered by a boundary lattice only",
		"Enc refuses by the documented panic in EncWithNonce; that panic (and only that one) is treated as a refusal",
		"a negative power of a non-unit has no value: only absence of a panic is required there",
		"nonces of production-size cases come from a seeded SHA-256 counter DRBG installed as crypto/rand.Reader",
	}
	if *genKeys > 0 { // real entropy: before the DRBG is installed
		if err := generateKeys(*genKeys); err != nil {
			fmt.Fprintln(os.Stderr, "genkeys:", err)
			os.Exit(2)
		}
		return
	}
	drv.Install()
	{
		var c Case
		if vkit.LoadReplay(&c) {
			fs, err := replay(c)
			if err != nil {
				fmt.Fprintln(os.Stderr, "replay:", err)
				os.Exit(2)
			}
			fmt.Printf("case: %+v\n", c)
			for _, f := range fs {
				fmt.Printf("violation %s\n  %s\n", f.sig, f.detail)
			}
			if len(fs) > 0 {
				os.Exit(1)
			}
			fmt.Println("no violation")
			return
		}
	}
	r := &runner{res: res, perPart: map[string]int64{}, samples: map[string]int{}, deadline: vkit.Deadline(50*time.Second, 18*time.Minute)}

	t0 := time.Now()
	runTiny(r)
	tTiny := time.Since(t0)
	t0 = time.Now()
	runProd(r)
	tProd := time.Since(t0)
	t0 = time.Now()
	runMtA(r)
	tMtA := time.Since(t0)

	res.Evaluations += r.evals
	res.Nontrivial += r.nontriv
	res.Extra["sampled_nonces_not_reduced_mod_N"] = sampledUnreduced
	for p, n := range r.perPart {
		res.Extra["cases_"+p] = n
	}
	fmt.Fprintf(os.Stderr, "shard %d/%d: units=%d evals=%d tiny=%.1fs prod=%.1fs mta=%.1fs violations=%d\n", vkit.ShardI(), vkit.ShardN(), r.unit, r.evals,
		tTiny.Seconds(), tProd.Seconds(), tMtA.Seconds(), len(res.Violations))
	res.Finish()
}

// replay re-runs exactly one recorded case.
func replay(c Case) ([]finding, error) {
	if c.Part == "mta" {
		return replayMtA(c)
	}
	k, err := keyByID(c.Key)
	if err != nil {
		return nil, err
	}
	switch c.Part {
	case "enc":
		return k.encCase(c.Variant, dec(c.X), dec(c.Y)), nil
	case "refuse":
		return k.refuseCase(c.Variant, dec(c.X)), nil
	case "add":
		r1, r2, _ := strings.Cut(c.Z, ",")
		return k.addCase(c.Variant, dec(c.X), dec(r1), dec(c.Y), dec(r2)), nil
	case "mul":
		return k.mulCase(c.Variant, dec(c.X), dec(c.Z), dec(c.Y)), nil
	case "validate":
		return k.validateCase(c.Variant, dec(c.X), c.Dir, true), nil
	case "exp":
		return k.expCase(c.Variant, dec(c.X), dec(c.Y)), nil
	case "enc-sampled":
		return k.encSampledCase(dec(c.X), *vkit.Seed), nil
	case "validate-nil":
		return k.validateNilCase(c.Variant), nil
	}
	return nil, fmt.Errorf("unknown part %q", c.Part)
}
