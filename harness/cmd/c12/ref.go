package main

// Independent Paillier reference over math/big only (no saferith, no repository code).
//
//	Enc(m, rho) = (1+N)^m * rho^N  mod N^2
//	Dec(c)      = L(c^lambda mod N^2) * mu mod N, lambda = lcm(p-1, q-1), mu = L((1+N)^lambda)^-1 mod N,
//	              L(u) = (u-1)/N, result mapped to the symmetric representative in [-(N-1)/2, (N-1)/2]
//	Add         = product of ciphertexts, Mul = exponentiation of the ciphertext
//	Nonce(c)    = (c mod N)^(N^-1 mod lambda) mod N
//	Valid(c)    = 0 < c < N^2 and gcd(c, N) = 1
//
// The library decrypts with phi and phi^-1 and recovers the nonce with N^-1 mod phi; the reference
// deliberately uses Carmichael's lambda instead so that the two computations share nothing.

import (
	"math/big"
)

var (
	big0 = big.NewInt(0)
	big1 = big.NewInt(1)
	big2 = big.NewInt(2)
)

type refKey struct {
	P, Q   *big.Int
	N, N2  *big.Int
	Half   *big.Int // (N-1)/2
	Lambda *big.Int // lcm(p-1, q-1)
	Mu     *big.Int // L((1+N)^lambda mod N^2)^-1 mod N
	NInvL  *big.Int // N^-1 mod lambda
	G      *big.Int // 1+N
}

func newRefKey(p, q *big.Int) *refKey {
	k := &refKey{P: new(big.Int).Set(p), Q: new(big.Int).Set(q)}
	k.N = new(big.Int).Mul(p, q)
	k.N2 = new(big.Int).Mul(k.N, k.N)
	k.Half = new(big.Int).Rsh(new(big.Int).Sub(k.N, big1), 1)
	p1 := new(big.Int).Sub(p, big1)
	q1 := new(big.Int).Sub(q, big1)
	g := new(big.Int).GCD(nil, nil, p1, q1)
	k.Lambda = new(big.Int).Div(new(big.Int).Mul(p1, q1), g)
	k.G = new(big.Int).Add(k.N, big1)
	u := new(big.Int).Exp(k.G, k.Lambda, k.N2)
	k.Mu = new(big.Int).ModInverse(k.l(u), k.N)
	k.NInvL = new(big.Int).ModInverse(k.N, k.Lambda)
	if k.Mu == nil || k.NInvL == nil {
		return nil // gcd(N, lambda) != 1: not a usable Paillier key
	}
	return k
}

func (k *refKey) l(u *big.Int) *big.Int {
	t := new(big.Int).Sub(u, big1)
	return t.Div(t, k.N)
}

// InRange reports -(N-1)/2 <= m <= (N-1)/2.
func (k *refKey) InRange(m *big.Int) bool {
	return new(big.Int).Abs(m).Cmp(k.Half) <= 0
}

// Sym maps v mod N to its representative in [-(N-1)/2, (N-1)/2].
func (k *refKey) Sym(v *big.Int) *big.Int {
	r := new(big.Int).Mod(v, k.N)
	if r.Cmp(k.Half) > 0 {
		r.Sub(r, k.N)
	}
	return r
}

// Enc computes (1+N)^m rho^N mod N^2; m may be negative (inverse of 1+N, which is always a unit).
func (k *refKey) Enc(m, rho *big.Int) *big.Int {
	gm := new(big.Int).Exp(k.G, new(big.Int).Mod(m, k.N), k.N2) // (1+N) has order N
	rn := new(big.Int).Exp(rho, k.N, k.N2)
	return gm.Mod(gm.Mul(gm, rn), k.N2)
}

func (k *refKey) Valid(c *big.Int) bool {
	if c.Sign() <= 0 || c.Cmp(k.N2) >= 0 {
		return false
	}
	return new(big.Int).GCD(nil, nil, c, k.N).Cmp(big1) == 0
}

func (k *refKey) Dec(c *big.Int) *big.Int {
	u := new(big.Int).Exp(c, k.Lambda, k.N2)
	v := k.l(u)
	v.Mul(v, k.Mu)
	return k.Sym(v)
}

func (k *refKey) Nonce(c *big.Int) *big.Int {
	x := new(big.Int).Mod(c, k.N)
	return x.Exp(x, k.NInvL, k.N)
}

func (k *refKey) Add(c1, c2 *big.Int) *big.Int {
	r := new(big.Int).Mul(c1, c2)
	return r.Mod(r, k.N2)
}

// Mul computes c^s mod N^2 for any integer s (c must be a unit when s < 0); nil if the inverse does not exist.
func (k *refKey) Mul(c, s *big.Int) *big.Int {
	return refExp(c, s, k.N2)
}

// refExp computes x^e mod m for any integer e; nil if e < 0 and x is not invertible mod m.
func refExp(x, e, m *big.Int) *big.Int {
	if e.Sign() >= 0 {
		return new(big.Int).Exp(x, e, m)
	}
	inv := new(big.Int).ModInverse(new(big.Int).Mod(x, m), m)
	if inv == nil {
		return nil
	}
	return inv.Exp(inv, new(big.Int).Neg(e), m)
}

func (k *refKey) IsUnitN(x *big.Int) bool {
	return new(big.Int).GCD(nil, nil, new(big.Int).Mod(x, k.N), k.N).Cmp(big1) == 0 && new(big.Int).Mod(x, k.N).Sign() != 0
}
