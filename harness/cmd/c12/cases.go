package main

// The per-case oracles.  Every enumeration loop (tiny keys, production keys) and the replay
// path go through these functions, so a replayed case runs exactly the code that found it.

import (
	"fmt"
	"math/big"
	"strings"

	"github.com/cronokirby/saferith"
	"github.com/taurusgroup/multi-party-sig/internal/zzverif/vkit"
	"github.com/taurusgroup/multi-party-sig/pkg/math/arith"
	"github.com/taurusgroup/multi-party-sig/pkg/paillier"
)

// Case is the replay descriptor of one evaluated case.
type Case struct {
	Part    string `json:"part"`              // enc | refuse | add | mul | validate | exp | mta
	Key     string `json:"key"`               // "tiny:7,11" | "prod:0" | "zk" (fixed keys of pkg/zk)
	Variant string `json:"variant,omitempty"` // crt | plain (public key with / without factorisation); N-crt … for exp; affg|affp for mta
	X       string `json:"x,omitempty"`       // decimal
	Y       string `json:"y,omitempty"`
	Z       string `json:"z,omitempty"`
	Dir     int    `json:"dir,omitempty"`
}

type finding struct {
	sig, detail string
	c           Case
}

// keyCtx is one key pair seen through the library and through the reference.
type keyCtx struct {
	id      string // replay id: "tiny:7,11" / "prod:0"
	class   string // signature class: "tiny(7,11)" / "prod"
	ref     *refKey
	sk      *paillier.SecretKey
	pkCRT   *paillier.PublicKey // sk.PublicKey: arith.Modulus built from the factorisation
	pkPlain *paillier.PublicKey // paillier.NewPublicKey(N): what every other party holds
	width   int                 // byte width used for "padded" ciphertext candidates
}

func newKeyCtx(id, class string, p, q *big.Int) (*keyCtx, error) {
	k := &keyCtx{id: id, class: class, ref: newRefKey(p, q)}
	if k.ref == nil {
		return nil, fmt.Errorf("%s: gcd(N, lambda) != 1", id)
	}
	var err error
	pan, msg, frame := vkit.Try(func() {
		k.sk = paillier.NewSecretKeyFromPrimes(natOf(p), natOf(q))
		k.pkCRT = k.sk.PublicKey
		k.pkPlain = paillier.NewPublicKey(saferith.ModulusFromNat(natOf(k.ref.N)))
	})
	if pan {
		err = fmt.Errorf("%s: key construction panicked in %s: %s", id, frame, msg)
	}
	k.width = (new(big.Int).Lsh(k.ref.N2, 1).BitLen() + 7) / 8
	if err == nil && !refusalLearned {
		if pan, msg, _ := vkit.Try(func() { k.pkCRT.EncWithNonce(intOf(k.ref.N), natOf(big1)) }); pan && msg != "" {
			refusalMsg, refusalLearned = msg, true
		}
	}
	return k, err
}

func (k *keyCtx) pk(variant string) *paillier.PublicKey {
	if variant == "plain" {
		return k.pkPlain
	}
	return k.pkCRT
}

// ---- conversions ----------------------------------------------------------------------------

func annLen(b *big.Int) int {
	n := (b.BitLen() + 63) / 64 * 64
	if n == 0 {
		n = 64
	}
	return n
}

func natOf(b *big.Int) *saferith.Nat { return new(saferith.Nat).SetBig(b, annLen(b)) }
func intOf(b *big.Int) *saferith.Int { return new(saferith.Int).SetBig(b, annLen(b)) }

// ctOf builds a ciphertext object the way the wire decoder does (UnmarshalBinary of big-endian bytes).
func ctOf(c *big.Int, width int) *paillier.Ciphertext {
	var buf []byte
	if width > 0 {
		buf = make([]byte, width)
		if (c.BitLen()+7)/8 > width {
			buf = c.Bytes()
		} else {
			c.FillBytes(buf)
		}
	} else {
		buf = c.Bytes()
	}
	ct := new(paillier.Ciphertext)
	if err := ct.UnmarshalBinary(buf); err != nil {
		panic("harness: Ciphertext.UnmarshalBinary: " + err.Error())
	}
	return ct
}

func ctBig(ct *paillier.Ciphertext) *big.Int { return ct.Nat().Big() }

func dec(s string) *big.Int {
	if s == "" {
		return new(big.Int)
	}
	b, ok := new(big.Int).SetString(s, 10)
	if !ok {
		panic("harness: bad decimal " + s)
	}
	return b
}

func short(b *big.Int) string {
	if b == nil {
		return "<nil>"
	}
	s := b.String()
	if len(s) > 48 {
		return fmt.Sprintf("%s…%s(%d bits)", s[:16], s[len(s)-12:], b.BitLen())
	}
	return s
}

// refusalMsg is the text of the panic with which EncWithNonce refuses a plaintext outside the range.
// It is LEARNED from the library (newKeyCtx encrypts N itself, which is out of range for every key), so
// that rewording the refusal, or moving the range check into a helper, is not mistaken for a defect.
var refusalMsg = "paillier.Encrypt: tried to encrypt message outside of range"
var refusalLearned bool

// guard runs f; a panic becomes a finding "panic|<part>|<repo frame>".
func guard(out *[]finding, part string, c Case, f func()) {
	pan, msg, frame := vkit.Try(f)
	if pan {
		*out = append(*out, finding{"panic|" + part + "|" + frame, fmt.Sprintf("%+v: panic: %s", c, msg), c})
	}
}

// ---- enc: Enc / Dec / DecWithRandomness / re-encryption ----------------------------------------

// encCase: in-range plaintext m, unit nonce rho (normally in [1,N); the library's sampler also yields
// unreduced units up to 2^bitlen(N), for which the recovered nonce must be rho mod N).  variant selects which public key
// object encrypts; decryption checks are done once (variant crt).
func (k *keyCtx) encCase(variant string, m, rho *big.Int) (out []finding) {
	c := Case{Part: "enc", Key: k.id, Variant: variant, X: m.String(), Y: rho.String()}
	add := func(class, detail string) {
		out = append(out, finding{"paillier|" + k.class + "|" + class, fmt.Sprintf("key %s pk=%s m=%s rho=%s: %s", k.id, variant, short(m), short(rho), detail), c})
	}
	want := k.ref.Enc(m, rho)
	pan, msg, frame := vkit.Try(func() {
		ct := k.pk(variant).EncWithNonce(intOf(m), natOf(rho))
		got := ctBig(ct)
		if got.Cmp(want) != 0 {
			add("enc-mismatch", fmt.Sprintf("EncWithNonce=%s reference (1+N)^m rho^N mod N^2=%s", short(got), short(want)))
		}
		if !k.pk(variant).ValidateCiphertexts(ct) {
			add("enc-output-rejected", "ValidateCiphertexts refuses the library's own ciphertext "+short(got))
		}
		if variant != "crt" {
			return
		}
		d, err := k.sk.Dec(ct.Clone())
		if err != nil {
			add("dec-error", "Dec(Enc(m)) failed: "+err.Error())
		} else if d.Big().Cmp(m) != 0 {
			add("dec-mismatch", fmt.Sprintf("Dec(Enc(m))=%s (reference Dec=%s)", short(d.Big()), short(k.ref.Dec(got))))
		}
		// history on ONE ciphertext object: decrypt it, open it, decrypt it again - reading a ciphertext must not change it
		same := ct.Clone()
		if d1, e1 := k.sk.Dec(same); e1 != nil || d1.Big().Cmp(m) != 0 || ctBig(same).Cmp(want) != 0 {
			add("dec-modifies-ciphertext", fmt.Sprintf("after Dec(c) the object c holds %s (was %s), Dec=%v err=%v", short(ctBig(same)), short(want), d1, e1))
		}
		if _, _, e2 := k.sk.DecWithRandomness(same); e2 == nil && ctBig(same).Cmp(want) != 0 {
			add("decrand-modifies-ciphertext", fmt.Sprintf("after DecWithRandomness(c) the object c holds %s (was %s): a second use of the same ciphertext sees another value", short(ctBig(same)), short(want)))
		} else if d3, e3 := k.sk.Dec(same); e3 != nil || d3.Big().Cmp(m) != 0 {
			add("dec-after-decrand-mismatch", fmt.Sprintf("Dec of the same object after DecWithRandomness = %v err=%v", d3, e3))
		}
		m2, r2, err := k.sk.DecWithRandomness(ct.Clone())
		if err != nil {
			add("decrand-error", "DecWithRandomness(Enc(m)) failed: "+err.Error())
			return
		}
		if m2.Big().Cmp(m) != 0 {
			add("decrand-plaintext-mismatch", fmt.Sprintf("DecWithRandomness plaintext=%s", short(m2.Big())))
		}
		wantRho := k.ref.Nonce(want)
		if r2.Big().Cmp(wantRho) != 0 || wantRho.Cmp(new(big.Int).Mod(rho, k.ref.N)) != 0 {
			add("decrand-nonce-mismatch", fmt.Sprintf("recovered nonce=%s reference=%s used=%s", short(r2.Big()), short(wantRho), short(rho)))
		}
		re := k.pk(variant).EncWithNonce(m2, r2)
		if ctBig(re).Cmp(got) != 0 {
			add("reencrypt-mismatch", fmt.Sprintf("Enc(m', rho')=%s differs from the ciphertext %s", short(ctBig(re)), short(got)))
		}
	})
	if pan && strings.HasPrefix(msg, refusalMsg) {
		out = append(out, k.refusedInRange(variant, m, msg))
	} else if pan {
		out = append(out, finding{"panic|enc|" + frame, fmt.Sprintf("%+v: panic: %s", c, msg), c})
	}
	return
}

// refuseCase: m outside [-(N-1)/2,(N-1)/2] must be refused by the documented panic, nothing else.
func (k *keyCtx) refuseCase(variant string, m *big.Int) (out []finding) {
	c := Case{Part: "refuse", Key: k.id, Variant: variant, X: m.String()}
	var ct *paillier.Ciphertext
	pan, msg, frame := vkit.Try(func() { ct = k.pk(variant).EncWithNonce(intOf(m), natOf(big1)) })
	switch {
	case !pan:
		out = append(out, finding{"paillier|" + k.class + "|enc-accepts-out-of-range",
			fmt.Sprintf("key %s pk=%s: EncWithNonce accepted m=%s with |m| > (N-1)/2=%s and returned %s", k.id, variant, short(m), short(k.ref.Half), short(ctBig(ct))), c})
	case !strings.HasPrefix(msg, refusalMsg):
		out = append(out, finding{"panic|refuse|" + frame, fmt.Sprintf("key %s pk=%s m=%s: undocumented panic: %s", k.id, variant, short(m), msg), c})
	}
	return
}

// refusedInRange: an in-range plaintext hit the refusal panic.
func (k *keyCtx) refusedInRange(variant string, m *big.Int, msg string) finding {
	return finding{"paillier|" + k.class + "|enc-refuses-in-range", fmt.Sprintf("key %s pk=%s m=%s: %s", k.id, variant, short(m), msg),
		Case{Part: "enc", Key: k.id, Variant: variant, X: m.String(), Y: "1"}}
}

// ---- homomorphisms ----------------------------------------------------------------------------

// addCase: c1 = Enc(m1, r1), c2 = Enc(m2, r2) (reference ciphertexts, handed to the library as wire objects).
func (k *keyCtx) addCase(variant string, m1, r1, m2, r2 *big.Int) (out []finding) {
	c := Case{Part: "add", Key: k.id, Variant: variant, X: m1.String(), Y: m2.String(), Z: r1.String() + "," + r2.String()}
	c1, c2 := k.ref.Enc(m1, r1), k.ref.Enc(m2, r2)
	return k.addCaseCt(c, variant, m1, m2, c1, c2)
}

func (k *keyCtx) addCaseCt(c Case, variant string, m1, m2, c1, c2 *big.Int) (out []finding) {
	add := func(class, detail string) {
		out = append(out, finding{"paillier|" + k.class + "|" + class, fmt.Sprintf("key %s pk=%s m1=%s m2=%s: %s", k.id, variant, short(m1), short(m2), detail), c})
	}
	sum := new(big.Int).Add(m1, m2)
	want := k.ref.Add(c1, c2)
	guard(&out, "add", c, func() {
		ct := ctOf(c1, k.width).Add(k.pk(variant), ctOf(c2, k.width))
		if got := ctBig(ct); got.Cmp(want) != 0 {
			add("add-ciphertext-mismatch", fmt.Sprintf("Add=%s reference c1*c2 mod N^2=%s", short(got), short(want)))
		}
		d, err := k.sk.Dec(ct)
		if err != nil {
			add("add-dec-error", err.Error())
			return
		}
		if k.ref.InRange(sum) {
			if d.Big().Cmp(sum) != 0 {
				add("add-dec-mismatch", fmt.Sprintf("Dec(c1+c2)=%s, integer sum=%s", short(d.Big()), short(sum)))
			}
		} else if d.Big().Cmp(k.ref.Sym(sum)) != 0 {
			add("add-wrap-mismatch", fmt.Sprintf("Dec(c1+c2)=%s, sum=%s is out of range and must wrap to %s", short(d.Big()), short(sum), short(k.ref.Sym(sum))))
		}
		// history: clone, operate on the clone, use the original again.  A clone is an independent value:
		// the in-place operations (Add, Randomize) on it must leave the original and the argument untouched.
		orig, arg := ctOf(c1, k.width), ctOf(c2, k.width)
		cl := orig.Clone()
		cl.Add(k.pk(variant), arg)
		if ctBig(orig).Cmp(c1) != 0 {
			add("clone-aliases-original", fmt.Sprintf("after c.Clone().Add(d) the ORIGINAL c changed from %s to %s", short(c1), short(ctBig(orig))))
		}
		if ctBig(arg).Cmp(c2) != 0 {
			add("add-modifies-argument", fmt.Sprintf("after c.Add(d) the argument d changed from %s to %s", short(c2), short(ctBig(arg))))
		}
		cl2 := orig.Clone()
		cl2.Randomize(k.pk(variant), natOf(big.NewInt(1)))
		cl2.Randomize(k.pk(variant), nil)
		if ctBig(orig).Cmp(c1) != 0 {
			add("clone-aliases-original", fmt.Sprintf("after c.Clone().Randomize() the ORIGINAL c changed from %s to %s", short(c1), short(ctBig(orig))))
		}
		if again := ctBig(orig.Clone().Add(k.pk(variant), arg)); again.Cmp(want) != 0 {
			add("add-ciphertext-mismatch", fmt.Sprintf("second addition on the same objects: Add=%s reference=%s", short(again), short(want)))
		}
	})
	return
}

// mulCase: c = Enc(m, r); s any integer.
func (k *keyCtx) mulCase(variant string, m, r, s *big.Int) (out []finding) {
	c := Case{Part: "mul", Key: k.id, Variant: variant, X: m.String(), Y: s.String(), Z: r.String()}
	return k.mulCaseCt(c, variant, m, s, k.ref.Enc(m, r))
}

func (k *keyCtx) mulCaseCt(c Case, variant string, m, s, c1 *big.Int) (out []finding) {
	add := func(class, detail string) {
		out = append(out, finding{"paillier|" + k.class + "|" + class, fmt.Sprintf("key %s pk=%s m=%s k=%s: %s", k.id, variant, short(m), short(s), detail), c})
	}
	prod := new(big.Int).Mul(m, s)
	want := k.ref.Mul(c1, s)
	guard(&out, "mul", c, func() {
		ct := ctOf(c1, k.width).Mul(k.pk(variant), intOf(s))
		if got := ctBig(ct); got.Cmp(want) != 0 {
			add("mul-ciphertext-mismatch", fmt.Sprintf("Mul=%s reference c^k mod N^2=%s", short(got), short(want)))
		}
		d, err := k.sk.Dec(ct)
		if err != nil {
			add("mul-dec-error", err.Error())
			return
		}
		if k.ref.InRange(prod) {
			if d.Big().Cmp(prod) != 0 {
				add("mul-dec-mismatch", fmt.Sprintf("Dec(k*c)=%s, integer product=%s", short(d.Big()), short(prod)))
			}
		} else if d.Big().Cmp(k.ref.Sym(prod)) != 0 {
			add("mul-wrap-mismatch", fmt.Sprintf("Dec(k*c)=%s, product=%s is out of range and must wrap to %s", short(d.Big()), short(prod), short(k.ref.Sym(prod))))
		}
	})
	return
}

// ---- ciphertext validation ----------------------------------------------------------------------

// validateCase: candidate integer c >= 0.  width > 0: zero-padded bytes, width == 0: minimal bytes (empty for 0).
func (k *keyCtx) validateCase(variant string, cand *big.Int, width int, withDec bool) (out []finding) {
	c := Case{Part: "validate", Key: k.id, Variant: variant, X: cand.String(), Dir: width}
	want := k.ref.Valid(cand)
	class := func() string {
		switch {
		case cand.Sign() == 0:
			return "zero"
		case cand.Cmp(k.ref.N2) >= 0:
			return "out-of-range"
		default:
			return "nonunit"
		}
	}
	guard(&out, "validate", c, func() {
		ct := ctOf(cand, width)
		got := k.pk(variant).ValidateCiphertexts(ct)
		if got && !want {
			out = append(out, finding{"paillier|" + k.class + "|validate-accepts-" + class(),
				fmt.Sprintf("key %s pk=%s: ValidateCiphertexts accepts c=%s (N^2=%s, gcd(c,N)=%s)", k.id, variant, short(cand), short(k.ref.N2), new(big.Int).GCD(nil, nil, cand, k.ref.N)), c})
		}
		if !got && want {
			out = append(out, finding{"paillier|" + k.class + "|validate-rejects-valid",
				fmt.Sprintf("key %s pk=%s: ValidateCiphertexts rejects the unit c=%s < N^2", k.id, variant, short(cand)), c})
		}
		if !withDec || variant != "crt" {
			return
		}
		d, err := k.sk.Dec(ct)
		if err == nil && !want {
			out = append(out, finding{"paillier|" + k.class + "|dec-accepts-" + class(),
				fmt.Sprintf("key %s: Dec decrypts the invalid ciphertext c=%s to %s", k.id, short(cand), short(d.Big())), c})
		}
		if want {
			if err != nil {
				out = append(out, finding{"paillier|" + k.class + "|dec-rejects-valid", fmt.Sprintf("key %s: Dec refuses the valid ciphertext c=%s: %v", k.id, short(cand), err), c})
			} else if rd := k.ref.Dec(cand); d.Big().Cmp(rd) != 0 {
				out = append(out, finding{"paillier|" + k.class + "|dec-mismatch", fmt.Sprintf("key %s: Dec(c=%s)=%s reference=%s", k.id, short(cand), short(d.Big()), short(rd)), c})
			}
		}
	})
	return
}

// ---- arith.Modulus Exp / ExpI ---------------------------------------------------------------------

var expVariants = []string{"N-crt", "N-plain", "N2-crt", "N2-plain"}

func (k *keyCtx) modulus(variant string) (*arith.Modulus, *big.Int) {
	switch variant {
	case "N-crt":
		return k.pkCRT.Modulus(), k.ref.N
	case "N-plain":
		return k.pkPlain.Modulus(), k.ref.N
	case "N2-crt":
		return k.pkCRT.ModulusSquared(), k.ref.N2
	default:
		return k.pkPlain.ModulusSquared(), k.ref.N2
	}
}

// expCase: base in [0, modulus), any integer exponent.  e >= 0 exercises Exp and ExpI, e < 0 ExpI only;
// a negative power of a non-unit has no value: only "no panic" is required there.
func (k *keyCtx) expCase(variant string, base, e *big.Int) (out []finding) {
	c := Case{Part: "exp", Key: k.id, Variant: variant, X: base.String(), Y: e.String()}
	mod, mBig := k.modulus(variant)
	want := refExp(base, e, mBig)
	guard(&out, "exp", c, func() {
		if e.Sign() >= 0 {
			if got := mod.Exp(natOf(base), natOf(e)).Big(); got.Cmp(want) != 0 {
				out = append(out, finding{"arith|" + k.class + "|exp-mismatch|" + variant,
					fmt.Sprintf("key %s modulus %s=%s: Exp(%s, %s)=%s, big.Int.Exp=%s", k.id, variant, short(mBig), short(base), short(e), short(got), short(want)), c})
			}
		}
		got := mod.ExpI(natOf(base), intOf(e)).Big()
		if want != nil && got.Cmp(want) != 0 {
			out = append(out, finding{"arith|" + k.class + "|expi-mismatch|" + variant,
				fmt.Sprintf("key %s modulus %s=%s: ExpI(%s, %s)=%s, reference=%s", k.id, variant, short(mBig), short(base), short(e), short(got), short(want)), c})
		}
	})
	return
}
