package main

// Part 1: tiny keys, complete enumeration.

import (
	"fmt"
	"math/big"

	"github.com/taurusgroup/multi-party-sig/internal/zzverif/drv"
	"github.com/taurusgroup/multi-party-sig/internal/zzverif/vkit"
)

// tinyPlan: one tiny key and the strides of its enumeration (1 = complete).  A stride s > 1 keeps
// every s-th element of the inner loop with an offset that rotates with the outer loop, so every
// inner value is still met (with some outer value).
type tinyPlan struct {
	p, q                              int64
	nonceStride, addStride, mulStride int
	fullExp                           bool // all bases x all exponents for Exp/ExpI (else boundary subset)
}

func tinyPlans() []tinyPlan {
	l := []tinyPlan{{7, 11, 1, 1, 1, true}, {7, 23, 1, 1, 1, false}}
	if vkit.Thorough() {
		l = append(l, tinyPlan{11, 47, 1, 1, 1, false}, tinyPlan{23, 59, 1, 1, 1, false}, tinyPlan{83, 107, 64, 32, 64, false})
	}
	return l
}

func tinyKey(p, q int64) (*keyCtx, error) {
	return newKeyCtx(fmt.Sprintf("tiny:%d,%d", p, q), fmt.Sprintf("tiny(%d,%d)", p, q), big.NewInt(p), big.NewInt(q))
}

func gcd64(a, b int64) int64 {
	for b != 0 {
		a, b = b, a%b
	}
	return a
}

// seededBelow draws a value in [0, n) from the DRBG.
func seededBelow(d *drv.DRBG, n *big.Int) *big.Int {
	buf := make([]byte, (n.BitLen()+7)/8+8)
	d.Read(buf)
	return new(big.Int).Mod(new(big.Int).SetBytes(buf), n)
}

func runTiny(r *runner) {
	for _, pl := range tinyPlans() {
		name := fmt.Sprintf("tiny(%d,%d)", pl.p, pl.q)
		k, err := tinyKey(pl.p, pl.q)
		if err != nil {
			r.res.Hard(err.Error())
			continue
		}
		N := pl.p * pl.q
		half := (N - 1) / 2
		N2 := N * N
		var units []int64
		for x := int64(1); x < N; x++ {
			if gcd64(x, N) == 1 {
				units = append(units, x)
			}
		}
		if int64(len(units)) != (pl.p-1)*(pl.q-1) {
			r.res.Hard(name + ": unit count != phi")
		}
		// the library's sampler (sample.UnitModN) returns any unit below 2^(8*bytelen(N)), not reduced mod N:
		// those nonces are enumerated as well (the recovered nonce must then be rho mod N)
		nReduced := len(units)
		top := int64(1) << uint((k.ref.N.BitLen()+7)/8*8)
		for x := N + 1; x < top && x < 2*N; x++ {
			if gcd64(x, N) == 1 {
				units = append(units, x)
			}
		}
		// big.Int table for [-N-2, N+2]
		tab := make([]*big.Int, 3*N+5)
		for i := range tab {
			tab[i] = big.NewInt(int64(i) - N - 2)
		}
		bi := func(x int64) *big.Int { return tab[x+N+2] }
		variants := []string{"crt", "plain"}

		// (a) Enc / Dec / DecWithRandomness / re-encrypt: all plaintexts x all unit nonces
		for m := -half; m <= half; m++ {
			if !r.mine(name + "|enc") {
				continue
			}
			for i, rho := range units {
				if pl.nonceStride > 1 && (int64(i)+m+half)%int64(pl.nonceStride) != 0 {
					continue
				}
				for _, v := range variants {
					if i < nReduced {
						r.count("tiny-enc", m == 0 && rho == 1)
					} else {
						r.count("tiny-enc-unreduced-nonce", false)
					}
					r.report(k.encCase(v, bi(m), bi(rho)))
				}
			}
			r.count("tiny-enc-sampled", false)
			r.report(k.encSampledCase(bi(m), *vkit.Seed))
			r.sample("tiny-enc", func() interface{} {
				return map[string]interface{}{"part": "enc", "key": name, "m": m, "nonces_for_this_m": len(units) / pl.nonceStride, "pk_variants": variants,
					"example": map[string]interface{}{"rho": units[nReduced-1], "ciphertext": k.ref.Enc(bi(m), bi(units[nReduced-1])).String()}}
			})
		}
		// (b) refusal: every integer of [-N-2, N+2] outside the range
		if r.mine(name + "|refuse") {
			for m := -N - 2; m <= N+2; m++ {
				if m >= -half && m <= half {
					continue
				}
				for _, v := range variants {
					r.count("tiny-refuse", false)
					r.report(k.refuseCase(v, bi(m)))
				}
			}
		}
		// reference ciphertext of every plaintext under a nonce that varies with the plaintext
		nonceOf := func(m int64) *big.Int { return bi(units[int((m+half)*7)%nReduced]) }
		refCt := make([]*big.Int, N)
		for m := -half; m <= half; m++ {
			refCt[m+half] = k.ref.Enc(bi(m), nonceOf(m))
		}
		// (c) Add: all plaintext pairs
		for m1 := -half; m1 <= half; m1++ {
			if !r.mine(name + "|add") {
				continue
			}
			for m2 := -half; m2 <= half; m2++ {
				if pl.addStride > 1 && (m1+m2+2*half)%int64(pl.addStride) != 0 {
					continue
				}
				for _, v := range variants {
					c := Case{Part: "add", Key: k.id, Variant: v, X: "", Y: ""}
					fs := k.addCaseCt(c, v, bi(m1), bi(m2), refCt[m1+half], refCt[m2+half])
					for i := range fs { // fill the replay descriptor only when needed
						fs[i].c = Case{Part: "add", Key: k.id, Variant: v, X: bi(m1).String(), Y: bi(m2).String(), Z: nonceOf(m1).String() + "," + nonceOf(m2).String()}
					}
					r.count("tiny-add", m2 == 0 || m1 == 0)
					r.report(fs)
				}
			}
		}
		// (d) Mul: all (plaintext, scalar in [-N, N]) pairs
		for m := -half; m <= half; m++ {
			if !r.mine(name + "|mul") {
				continue
			}
			for s := -N; s <= N; s++ {
				if pl.mulStride > 1 && (m+half+s+N)%int64(pl.mulStride) != 0 {
					continue
				}
				for _, v := range variants {
					fs := k.mulCaseCt(Case{}, v, bi(m), bi(s), refCt[m+half])
					for i := range fs {
						fs[i].c = Case{Part: "mul", Key: k.id, Variant: v, X: bi(m).String(), Y: bi(s).String(), Z: nonceOf(m).String()}
					}
					r.count("tiny-mul", s == 0 || s == 1 || m == 0)
					r.report(fs)
				}
			}
			r.sample("tiny-mul", func() interface{} {
				return map[string]interface{}{"part": "mul", "key": name, "m": m, "nonce": nonceOf(m).String(), "scalars": fmt.Sprintf("[-%d,%d] stride %d", N, N, pl.mulStride)}
			})
		}
		// (e) ValidateCiphertexts / Dec on every integer of [0, N^2+N]
		const chunk = 4096
		for lo := int64(0); lo <= N2+N; lo += chunk {
			if !r.mine(name + "|validate") {
				continue
			}
			for c := lo; c < lo+chunk && c <= N2+N; c++ {
				cb := big.NewInt(c)
				r.count("tiny-validate", false)
				r.report(k.validateCase("crt", cb, k.width, true))
				r.count("tiny-validate", false)
				r.report(k.validateCase("plain", cb, 0, false))
			}
		}
		// (f) arith.Modulus Exp / ExpI
		for _, v := range expVariants {
			_, mod := k.modulus(v)
			if pl.fullExp {
				const bchunk = 64
				for lo := int64(0); lo < mod.Int64(); lo += bchunk {
					if !r.mine(name + "|exp|" + v) {
						continue
					}
					for b := lo; b < lo+bchunk && b < mod.Int64(); b++ {
						bb := big.NewInt(b)
						for e := -N; e <= N; e++ {
							r.count("tiny-exp", e == 0 || e == 1 || b <= 1)
							r.report(k.expCase(v, bb, bi(e)))
						}
					}
				}
				continue
			}
			if !r.mine(name + "|exp|" + v) {
				continue
			}
			bases, exps := expLattice(k, mod, 8, *vkit.Seed)
			for _, b := range bases {
				for _, e := range exps {
					r.count("tiny-exp", e.BitLen() <= 1 || b.BitLen() <= 1)
					r.report(k.expCase(v, b, e))
				}
			}
		}
	}
}

// expLattice: boundary bases in [0, mod) (plus seeded ones) and boundary exponents in [-N, N].
func expLattice(k *keyCtx, mod *big.Int, seeded int, seed int64) (bases, exps []*big.Int) {
	rk := k.ref
	mul := func(a, b *big.Int) *big.Int { return new(big.Int).Mul(a, b) }
	sub := func(a *big.Int, d int64) *big.Int { return new(big.Int).Sub(a, big.NewInt(d)) }
	cand := []*big.Int{big.NewInt(0), big.NewInt(1), big.NewInt(2), big.NewInt(3), rk.P, rk.Q, mul(rk.P, rk.P), mul(rk.Q, rk.Q),
		sub(rk.N, 1), rk.N, sub(rk.N, -1), mul(rk.N, big2), mul(rk.P, rk.N), mul(rk.Q, rk.N), new(big.Int).Sub(rk.N2, rk.N),
		sub(rk.N2, 2), sub(rk.N2, 1), new(big.Int).Rsh(rk.N2, 1), sub(mod, 1), new(big.Int).Rsh(mod, 1)}
	d := drv.NewDRBG("c12|explattice|"+k.id+"|"+mod.String(), seed)
	for i := 0; i < seeded; i++ {
		cand = append(cand, seededBelow(d, mod))
	}
	seen := map[string]bool{}
	for _, c := range cand {
		if c.Sign() >= 0 && c.Cmp(mod) < 0 && !seen[c.String()] {
			seen[c.String()] = true
			bases = append(bases, c)
		}
	}
	phi := mul(sub(rk.P, 1), sub(rk.Q, 1))
	pos := []*big.Int{big.NewInt(0), big.NewInt(1), big.NewInt(2), big.NewInt(3), rk.Half, sub(rk.Half, -1), rk.Lambda, phi, sub(phi, -1), sub(rk.N, 1), rk.N}
	seenE := map[string]bool{}
	for _, e := range pos {
		for _, s := range []*big.Int{e, new(big.Int).Neg(e)} {
			if !seenE[s.String()] {
				seenE[s.String()] = true
				exps = append(exps, s)
			}
		}
	}
	return
}
