package main

// The one user of Search in the library: sample.Paillier (pkg/math/sample/prime.go).  A worker is only
// available again if the task it was given returns; the search task must therefore return when its
// randomness source fails.  Body (free-running): a pool of w workers looks for two primes on a source
// that yields exactly two good candidate blocks (pre-generated safe Blum primes, accepted at the first
// sieve position) and then fails for ever; afterwards the pool must run w barrier tasks at once, i.e.
// every worker must have come back.  Structural oracle (the barrier), with a generous safety timeout.

import (
	"encoding/json"
	"errors"
	"fmt"
	"math/big"
	"os"
	"sync"
	"time"

	"github.com/taurusgroup/multi-party-sig/internal/zzverif/vkit"
	"github.com/taurusgroup/multi-party-sig/pkg/math/sample"
	"github.com/taurusgroup/multi-party-sig/pkg/pool"
)

type dryReader struct {
	mu     sync.Mutex
	blocks [][]byte
}

func (d *dryReader) Read(p []byte) (int, error) {
	d.mu.Lock()
	defer d.mu.Unlock()
	if len(d.blocks) == 0 {
		return 0, errors.New("c18: the randomness source has run dry")
	}
	n := copy(p, d.blocks[0])
	d.blocks = d.blocks[1:]
	return n, nil
}

func paillierRunsDry(res *vkit.Result) {
	b, err := os.ReadFile("/verif/data/primes.json")
	if err != nil {
		res.Note("paillier body skipped: " + err.Error())
		return
	}
	var f struct {
		Pairs [][2]string `json:"pairs"`
	}
	if json.Unmarshal(b, &f) != nil || len(f.Pairs) == 0 {
		res.Note("paillier body skipped: no primes")
		return
	}
	for _, w := range []int{2, 3, 5} {
		var blocks [][]byte
		for i := 0; i < 2; i++ {
			p, _ := new(big.Int).SetString(f.Pairs[w%len(f.Pairs)][i], 16)
			blk := make([]byte, (p.BitLen()+7)/8)
			p.FillBytes(blk)
			blocks = append(blocks, blk)
		}
		pl := pool.NewPool(w)
		src := &dryReader{blocks: blocks}
		found := make(chan [2]*big.Int, 1)
		go func() {
			defer func() { recover() }()
			p, q := sample.Paillier(src, pl)
			found <- [2]*big.Int{p.Big(), q.Big()}
		}()
		sig := fmt.Sprintf("lost-worker|sample.Paillier|source-runs-dry|w=%d", w)
		select {
		case <-found:
		case <-time.After(120 * time.Second):
			res.Violate("hang|sample.Paillier|source-runs-dry", fmt.Sprintf("Paillier on a %d-worker pool with a source holding two good candidates did not return within 120 s", w), map[string]interface{}{"body": "paillier-dry", "w": w})
			continue
		}
		// every worker must be available again: w tasks that all wait for each other
		var arrived sync.WaitGroup
		arrived.Add(w)
		release := make(chan struct{})
		ok := make(chan struct{})
		go func() {
			pl.Parallelize(w, func(i int) interface{} {
				arrived.Done()
				<-release
				return i
			})
			close(ok)
		}()
		all := make(chan struct{})
		go func() { arrived.Wait(); close(all) }()
		select {
		case <-all:
			close(release)
			<-ok
			pl.TearDown()
		case <-time.After(60 * time.Second):
			close(release)
			defer func() {}()
			res.Violate(sig, fmt.Sprintf("after sample.Paillier returned (its randomness source failed for the workers that were not needed), a %d-worker pool could not run %d tasks at the same time within 60 s: workers are still inside the search task", w, w), map[string]interface{}{"body": "paillier-dry", "w": w})
		}
		res.Case("")
		if len(res.Violations) > 0 {
			return // one pool size is enough to show it; the others would wait for their timeouts too
		}
	}
}
