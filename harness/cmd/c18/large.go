package main

// Bodies with LARGE parameters (free-running, run with the race-detector build).  The exhaustive
// exploration covers every interleaving of small call lists (k <= 3 tasks, nil results on the first
// one or two attempts); what it cannot reach are thresholds hidden behind big numbers - a batch size
// from which another code path is taken, a number of failed candidates after which a worker gives
// up.  These bodies run the same sequential specification at sizes 64 ... 20 000.

import (
	"fmt"
	"runtime"
	"strings"
	"sync/atomic"
	"time"

	"github.com/taurusgroup/multi-party-sig/internal/zzverif/vkit"
	"github.com/taurusgroup/multi-party-sig/pkg/pool"
)

func goid() string {
	b := make([]byte, 64)
	b = b[:runtime.Stack(b, false)]
	f := strings.Fields(string(b))
	if len(f) > 1 {
		return f[1]
	}
	return "?"
}

func within(d time.Duration, f func()) bool {
	done := make(chan struct{})
	go func() { defer close(done); defer func() { recover() }(); f() }()
	select {
	case <-done:
		return true
	case <-time.After(d):
		return false
	}
}

func largeBodies(res *vkit.Result) {
	hung := 0
	// (a) long failure streaks in Search: f yields nil `streak` times (over all workers), then values
	for _, w := range []int{1, 2, 4} {
		for _, streak := range []int64{1500, 5000, 20000} {
			for _, count := range []int{1, 3} {
				w, streak, count := w, streak, count // a worker may still be inside the task after Search has returned
				p := pool.NewPool(w)
				var calls int64
				var got []interface{}
				ok := within(60*time.Second, func() {
					got = p.Search(count, func() interface{} {
						v := atomic.AddInt64(&calls, 1)
						if v <= streak {
							return nil
						}
						return v
					})
				})
				res.Case("")
				sig := fmt.Sprintf("search-long-streak|w=%d", w)
				if !ok {
					res.Violate("hang|"+sig, fmt.Sprintf("Search(%d) on a %d-worker pool whose task fails %d times before it succeeds did not return within 60 s (%d task calls were made)", count, w, streak, atomic.LoadInt64(&calls)),
						map[string]interface{}{"body": "search-long-streak", "w": w, "streak": streak, "count": count})
					hung++
					if hung >= 2 {
						return // every further combination would wait for its timeout as well
					}
					continue
				}
				nn := 0
				for _, x := range got {
					if x != nil {
						nn++
					}
				}
				if len(got) != count || nn != count {
					res.Violate("wrong-result|"+sig, fmt.Sprintf("Search(%d) returned %d results, %d of them non-nil", count, len(got), nn), map[string]interface{}{"body": "search-long-streak", "w": w, "streak": streak, "count": count})
				}
				if !within(20*time.Second, func() { p.TearDown() }) {
					res.Violate("hang|teardown|"+sig, "TearDown did not return after a long search", map[string]interface{}{"body": "search-long-streak", "w": w})
				}
			}
		}
	}
	// (b) large batches: Parallelize(k) = [f(0..k-1)] on real pools and on the nil pool; the nil pool runs
	//     every task on the calling goroutine, also when nil-pool calls are nested
	for _, k := range []int{64, 100, 1000, 5000} {
		for _, w := range []int{0, 2} { // 0 = nil pool
			k, w := k, w
			var p *pool.Pool
			if w > 0 {
				p = pool.NewPool(w)
			}
			caller := ""
			foreign := int64(0)
			var got []interface{}
			ok := within(60*time.Second, func() {
				caller = goid()
				got = p.Parallelize(k, func(i int) interface{} {
					if w == 0 && goid() != caller {
						atomic.AddInt64(&foreign, 1)
					}
					return i * 3
				})
			})
			res.Case("")
			sig := fmt.Sprintf("parallelize-large|pool=%d", w)
			if !ok {
				res.Violate("hang|"+sig, fmt.Sprintf("Parallelize(%d) did not return within 60 s", k), map[string]interface{}{"body": "parallelize-large", "w": w, "k": k})
				continue
			}
			bad := len(got) != k
			for i := 0; !bad && i < k; i++ {
				if v, isInt := got[i].(int); !isInt || v != i*3 {
					bad = true
				}
			}
			if bad {
				res.Violate("wrong-result|"+sig, fmt.Sprintf("Parallelize(%d) did not return [f(0..%d)]", k, k-1), map[string]interface{}{"body": "parallelize-large", "w": w, "k": k})
			}
			if foreign > 0 {
				res.Violate("nil-pool-not-on-calling-goroutine", fmt.Sprintf("Parallelize(%d) on a nil pool ran %d tasks on another goroutine than the caller's", k, foreign), map[string]interface{}{"body": "parallelize-large", "w": w, "k": k})
			}
			if p != nil {
				p.TearDown()
			}
		}
	}
	// (c) batches whose LAST tasks are slow, at sizes that are not multiples of small powers of two: a batch that is
	//     handed out in chunks, or counted in chunks, must still wait for its last (shorter) chunk
	for _, k := range []int{9, 100, 257, 260, 1001, 5003} {
		for _, w := range []int{1, 2, 4} {
			k, w := k, w
			p := pool.NewPool(w)
			var got []interface{}
			ok := within(60*time.Second, func() {
				got = p.Parallelize(k, func(i int) interface{} {
					if i >= k-3 {
						time.Sleep(40 * time.Millisecond)
					}
					return i + 1
				})
			})
			res.Case("")
			sig := fmt.Sprintf("parallelize-slow-tail|pool=%d", w)
			if !ok {
				res.Violate("hang|"+sig, fmt.Sprintf("Parallelize(%d) did not return within 60 s", k), map[string]interface{}{"body": "parallelize-slow-tail", "w": w, "k": k})
				continue
			}
			snapshot := append([]interface{}{}, got...) // what the caller sees at the moment the call returns
			missing := -1
			for i := 0; i < k && i < len(snapshot); i++ {
				if v, isInt := snapshot[i].(int); !isInt || v != i+1 {
					missing = i
					break
				}
			}
			if len(snapshot) != k || missing >= 0 {
				res.Violate("wrong-result|"+sig, fmt.Sprintf("Parallelize(%d) on a %d-worker pool returned before its last tasks had finished: entry %d of the result is %v", k, w, missing, func() interface{} {
					if missing >= 0 {
						return snapshot[missing]
					}
					return fmt.Sprintf("(length %d)", len(snapshot))
				}()), map[string]interface{}{"body": "parallelize-slow-tail", "w": w, "k": k})
			}
			within(20*time.Second, func() { p.TearDown() })
		}
	}
	// nested nil-pool batches (a task of a nil-pool batch issues a nil-pool batch itself)
	var total int64
	var np *pool.Pool
	ok := within(120*time.Second, func() {
		np.Parallelize(128, func(i int) interface{} {
			np.Parallelize(128, func(j int) interface{} { atomic.AddInt64(&total, 1); return nil })
			return nil
		})
	})
	res.Case("")
	if !ok || atomic.LoadInt64(&total) != 128*128 {
		res.Violate("hang|nested-nil-pool", fmt.Sprintf("nested Parallelize(128) x Parallelize(128) on the nil pool: returned=%v, %d of %d inner tasks ran", ok, atomic.LoadInt64(&total), 128*128), map[string]interface{}{"body": "nested-nil-pool"})
	}
}
