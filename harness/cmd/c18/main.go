// C18 — the worker pool always returns and never loses workers.
// Engine A: stateless exploration of all interleavings (bounded by preemptions where
// stated) of the real pkg/pool code, instrumented from the working tree.
package main

import (
	"flag"
	"fmt"
	"os"
	"sort"
	"strings"
	"sync/atomic"
	"time"

	"github.com/taurusgroup/multi-party-sig/internal/zzverif/vkit"
	"github.com/taurusgroup/multi-party-sig/internal/zzverif/vsched"
	"github.com/taurusgroup/multi-party-sig/pkg/pool"
)

type call struct {
	Search bool `json:"search"`
	K      int  `json:"k"`
	Fail   int  `json:"fail"` // Search: f returns nil on its first Fail invocations
}

type scenario struct {
	Name    string `json:"name"`
	Workers int    `json:"workers"`
	Calls   []call `json:"calls"`
	Bound   int    `json:"bound"`
}

func (c call) String() string {
	if c.Search {
		return fmt.Sprintf("S%d/%d", c.K, c.Fail)
	}
	return fmt.Sprintf("P%d", c.K)
}

func mkScenario(w int, bound int, calls ...call) scenario {
	parts := []string{}
	for _, c := range calls {
		parts = append(parts, c.String())
	}
	return scenario{Name: fmt.Sprintf("w%d:%s@%d", w, strings.Join(parts, ","), bound), Workers: w, Calls: calls, Bound: bound}
}

func harness(sc scenario) vsched.Harness {
	return func(s *vsched.Sched) func(*vsched.Outcome) vsched.Verdict {
		p := pool.NewPool(sc.Workers) // workers become controlled threads 0..w-1
		nWorkers := s.Threads()
		results := make([][]interface{}, len(sc.Calls))
		returned := make([]bool, len(sc.Calls))
		tornDown := false
		s.Spawn("caller", func() {
			for ci, c := range sc.Calls {
				ci, c := ci, c
				if c.Search {
					calls := 0
					results[ci] = p.Search(c.K, func() interface{} {
						vsched.Yield()
						calls++
						if calls <= c.Fail {
							return nil
						}
						return calls
					})
				} else {
					results[ci] = p.Parallelize(c.K, func(i int) interface{} { return 100*ci + i })
				}
				returned[ci] = true
			}
			p.TearDown()
			tornDown = true
		})
		return func(o *vsched.Outcome) vsched.Verdict {
			var v vsched.Verdict
			var desc []string
			for _, pm := range o.Panics {
				v.Violations = append(v.Violations, "panic|"+pm[strings.Index(pm, ":")+2:])
			}
			for ci, c := range sc.Calls {
				if !returned[ci] {
					desc = append(desc, c.String()+"=NORETURN")
					continue
				}
				res := results[ci]
				if len(res) != c.K {
					v.Violations = append(v.Violations, fmt.Sprintf("wrong-length|%s", kind(c)))
				}
				if c.Search {
					for _, x := range res {
						if x == nil {
							v.Violations = append(v.Violations, "nil-result|Search")
							break
						}
					}
					desc = append(desc, fmt.Sprintf("%s=%v", c, res))
				} else {
					for i, x := range res {
						if x != 100*ci+i {
							v.Violations = append(v.Violations, "wrong-result|Parallelize")
							break
						}
					}
					desc = append(desc, fmt.Sprintf("%s=ok", c))
				}
			}
			if !tornDown && len(o.Panics) == 0 {
				// caller never finished: find where it is parked
				for _, b := range o.Blocked {
					if strings.HasPrefix(b, fmt.Sprintf("T%d:", nWorkers)) {
						v.Violations = append(v.Violations, "caller-stuck|"+loc(b))
					}
				}
			}
			if tornDown {
				lost := map[string]bool{}
				for _, b := range o.Blocked {
					lost["lost-worker|"+loc(b)] = true
				}
				for k := range lost {
					v.Violations = append(v.Violations, k)
				}
			}
			bl := []string{}
			for _, b := range o.Blocked {
				bl = append(bl, loc(b))
			}
			sort.Strings(bl)
			v.Outcome = strings.Join(desc, ";") + " blocked=" + strings.Join(bl, ",")
			sort.Strings(v.Violations)
			v.Detail = fmt.Sprintf("scenario %s: %s; blocked threads: %v; panics: %v", sc.Name, strings.Join(desc, ";"), o.Blocked, o.Panics)
			return v
		}
	}
}

func kind(c call) string {
	if c.Search {
		return "Search"
	}
	return "Parallelize"
}

// loc strips the thread number: "T1:send@pool.worker" -> "send@pool.worker"
func loc(b string) string {
	if i := strings.Index(b, ":"); i >= 0 {
		return b[i+1:]
	}
	return b
}

var scenFlag = flag.String("scen", "", "explicit scenario list, e.g. 'w2:S2/0@3;w3:P3@2' (bound -1 = unbounded)")

func parseScen(spec string) []scenario {
	var l []scenario
	for _, one := range strings.Split(spec, ";") {
		var w, bound int
		var calls string
		at := strings.LastIndex(one, "@")
		fmt.Sscanf(one[at+1:], "%d", &bound)
		fmt.Sscanf(one[1:strings.Index(one, ":")], "%d", &w)
		calls = one[strings.Index(one, ":")+1 : at]
		var cs []call
		for _, c := range strings.Split(calls, ",") {
			var k, f int
			if c[0] == 'S' {
				fmt.Sscanf(c[1:], "%d/%d", &k, &f)
				cs = append(cs, call{Search: true, K: k, Fail: f})
			} else {
				fmt.Sscanf(c[1:], "%d", &k)
				cs = append(cs, call{K: k})
			}
		}
		l = append(l, mkScenario(w, bound, cs...))
	}
	return l
}

func scenarios() []scenario {
	if *scenFlag != "" {
		return parseScen(*scenFlag)
	}
	P := func(k int) call { return call{K: k} }
	S := func(k, f int) call { return call{Search: true, K: k, Fail: f} }
	var l []scenario
	// complete (unbounded) exploration of the small configurations
	for _, w := range []int{1, 2} {
		for _, k := range []int{0, 1, 2} {
			l = append(l, mkScenario(w, -1, P(k)))
		}
		l = append(l, mkScenario(w, -1, S(1, 0)))
	}
	l = append(l, mkScenario(1, -1, S(1, 1)), mkScenario(2, 3, S(1, 1)), mkScenario(1, -1, S(2, 0)), mkScenario(1, -1, S(2, 1)))
	l = append(l, mkScenario(1, -1, P(1), P(1)), mkScenario(1, -1, P(2), P(1)), mkScenario(1, -1, S(1, 0), P(1)), mkScenario(1, -1, P(1), S(1, 0)), mkScenario(1, -1, S(1, 1), S(1, 0)))
	l = append(l, mkScenario(2, -1, P(1), P(1)), mkScenario(3, -1, P(1)), mkScenario(2, -1, P(1), P(1), P(1)))
	// preemption-bounded exploration above that
	l = append(l, mkScenario(2, 2, S(2, 0)), mkScenario(2, 2, S(2, 1)), mkScenario(2, 3, P(2), P(2)), mkScenario(2, 3, S(1, 0), P(2)),
		mkScenario(2, 3, P(2), S(1, 1)), mkScenario(2, 2, S(2, 0), S(1, 0)), mkScenario(3, 2, P(3)), mkScenario(3, 1, S(2, 1)), mkScenario(3, 3, P(2)), mkScenario(3, 2, S(1, 0)), mkScenario(3, 1, S(1, 0), P(1)))
	// size sweep: one batch of k tasks at sizes around powers of two and around the sizes the library uses (80, 128),
	// every schedule with at most one preemption - a code path taken only from some batch size on (chunked hand-out,
	// another counter) is invisible to the small configurations above
	// (the number of schedules with one preemption grows with the square of the batch size: sizes up to 33 here, sizes
	// up to 80 in the thorough tier; thresholds behind larger sizes are probed by the free-running large-size bodies,
	// whose last tasks are slow - see large.go.)
	for _, k := range []int{7, 8, 9} {
		l = append(l, mkScenario(1, 1, P(k)), mkScenario(2, 1, P(k)))
	}
	for _, k := range []int{17, 31, 33} {
		l = append(l, mkScenario(1, 1, P(k)))
	}
	if vkit.Thorough() {
		for _, k := range []int{15, 16, 17, 31, 33} {
			l = append(l, mkScenario(2, 1, P(k)))
		}
		for _, k := range []int{63, 64, 65, 80} {
			l = append(l, mkScenario(1, 1, P(k)))
		}
	}
	if vkit.Thorough() {
		l = append(l, mkScenario(2, -1, S(1, 1)), mkScenario(2, -1, P(3)), mkScenario(2, -1, P(2), P(2)), mkScenario(3, -1, P(2)), mkScenario(2, 4, S(2, 0)), mkScenario(2, 3, S(2, 1)),
			mkScenario(3, 3, P(3)), mkScenario(3, 2, P(2), P(1)), mkScenario(3, 2, S(2, 1)), mkScenario(2, 3, S(2, 0), S(1, 0)), mkScenario(2, 3, P(1), S(1, 0), P(1)),
			mkScenario(4, 1, P(4)), mkScenario(4, 2, P(2)), mkScenario(4, 1, S(1, 0)), mkScenario(3, 3, S(1, 0)), mkScenario(4, 1, S(2, 0), P(2)), mkScenario(1, -1, P(3), S(2, 1), P(0)), mkScenario(3, 2, S(3, 1)))
	}
	return l
}

func main() {
	res := vkit.Init("C18")
	res.Rule = "each evaluation is one complete interleaving (schedule) of caller + workers of the real pkg/pool code at its synchronisation points; distinct = distinct schedules (every explored schedule is distinct by construction of the DFS); outcomes counted separately"
	res.Assumptions = []string{"sequentially consistent atomics/locks; race freedom elsewhere is checked by the separate free-running -race pass",
		"task functions are instantaneous; Search's f yields once per call"}
	{
		var rp struct {
			Scenario scenario `json:"scenario"`
			Choices  []int    `json:"choices"`
		}
		if vkit.LoadReplay(&rp) {
			o, v := vsched.RunOne(harness(rp.Scenario), rp.Choices, true)
			for _, t := range o.Trace {
				fmt.Println(t)
			}
			fmt.Println("outcome:", v.Outcome)
			fmt.Println("blocked:", o.Blocked, "panics:", o.Panics, "hard:", o.HardErr)
			fmt.Println("violations:", v.Violations)
			if len(v.Violations) > 0 {
				os.Exit(1)
			}
			return
		}
	}
	if *vkit.Mode == "race" {
		racePass(res)
		paillierRunsDry(res)
		largeBodies(res)
		res.Finish()
		return
	}
	outcomes := map[string]bool{}
	for i, sc := range scenarios() {
		if !vkit.Want(sc.Name) {
			continue
		}
		_ = i
		maxExec := int64(0)
		deadline := vkit.Deadline(60*time.Second, 20*time.Minute) // per scenario; a scenario that hits it is reported complete=false
		st := vsched.ExploreAll(sc.Name, harness(sc), sc.Bound, vkit.ShardI(), vkit.ShardN(), maxExec, deadline)
		b := "unbounded"
		if sc.Bound >= 0 {
			b = fmt.Sprintf("preemptions<=%d", sc.Bound)
		}
		res.AddScenario(vkit.Scenario{Name: sc.Name, Bound: b, Executions: st.Executions, States: st.Points, Transitions: st.Points,
			MaxDepth: st.MaxDepth, Outcomes: st.Outcomes, Complete: st.Complete, WallS: st.WallS})
		for o := range st.Outcomes {
			outcomes[sc.Name+"|"+o] = true
		}
		for _, h := range st.HardErrs {
			res.Hard(sc.Name + ": " + h)
		}
		sigs := []string{}
		for s := range st.Found {
			sigs = append(sigs, s)
		}
		sort.Strings(sigs)
		for _, sig := range sigs {
			f := st.Found[sig]
			res.Violate(sig, fmt.Sprintf("%s\nfirst seen in scenario %s with %d preemptions (%d executions of that scenario show it)\ntrace:\n%s", f.Detail, sc.Name, f.Preempt, f.Count, strings.Join(f.Trace, "\n")),
				map[string]interface{}{"scenario": sc, "choices": f.Choices})
		}
		if len(res.Samples) < 6 && st.Executions > 0 {
			res.Sample(map[string]interface{}{"scenario": sc.Name, "bound": b, "executions": st.Executions, "outcomes": st.Outcomes})
		}
		fmt.Fprintf(os.Stderr, "%-28s %-16s exec=%-8d points=%-9d depth=%-3d outcomes=%d complete=%v found=%v %.1fs\n", sc.Name, b, st.Executions, st.Points, st.MaxDepth, len(st.Outcomes), st.Complete, sigs, st.WallS)
	}
	res.Nontrivial = res.Evaluations
	res.Extra["distinct_outcomes"] = len(outcomes)
	res.Finish()
}

// racePass runs the same call lists on a real, free-running pool for the race detector
// (auxiliary: dynamic happens-before analysis, not enumeration).  Hangs are not judged here.
func racePass(res *vkit.Result) {
	reps := 300
	if vkit.Thorough() {
		reps = 3000
	}
	hangs := 0
	for rep := 0; rep < reps && hangs < 3; rep++ {
		done := make(chan struct{})
		go func() {
			defer close(done)
			p := pool.NewPool(1 + rep%4)
			for c := 0; c < 4; c++ {
				k := (rep + c) % 5
				r := p.Parallelize(k, func(i int) interface{} { return i })
				_ = r
				var n int64
				s := p.Search(1+k%3, func() interface{} {
					v := atomic.AddInt64(&n, 1)
					if v%2 == 0 {
						return nil
					}
					return v
				})
				for _, x := range s {
					_ = x
				}
			}
			p.TearDown()
		}()
		select {
		case <-done:
		case <-time.After(5 * time.Second):
			hangs++
		}
		res.Case("")
	}
	if hangs > 0 {
		res.Note(fmt.Sprintf("free-running pass: %d pool sessions did not finish within 5 s (judged by the exploration, not here)", hangs))
	}
}
