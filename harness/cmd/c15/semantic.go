package main

// Semantic rule-breakers: for every validity rule of the property text, encodings that are
// well-formed but break exactly that rule (or, for the "probe" class, that are legal variants
// and must keep working).  Each names the rule it aims at; the verdict is the common oracle's.

import (
	"fmt"
	"math/big"
	"strings"

	"github.com/taurusgroup/multi-party-sig/internal/zzverif/faults"
	"github.com/taurusgroup/multi-party-sig/internal/zzverif/ref"
)

type mutant struct {
	Path string
	Op   string
	Rule string // the rule this encoding is meant to break
	make func() []byte
}

var zero32 = make([]byte, 32)

func qBytes() []byte { b := make([]byte, 32); ref.N.FillBytes(b); return b }

func identityEncodings() map[string][]byte {
	a := make([]byte, 33)
	b := make([]byte, 33)
	b[0] = 2
	c := make([]byte, 33)
	c[0] = 3
	return map[string][]byte{"pt-zero33": a, "pt-02-zero-x": b, "pt-03-zero-x": c}
}

func offCurve() []byte {
	for x := int64(1); ; x++ {
		if _, err := ref.LiftX(big.NewInt(x)); err != nil {
			b := make([]byte, 33)
			b[0] = 2
			big.NewInt(x).FillBytes(b[1:])
			return b
		}
	}
}

func xAbovePrime() []byte {
	b := make([]byte, 33)
	b[0] = 2
	for i := 1; i < 33; i++ {
		b[i] = 0xff
	}
	return b
}

// the 2048-bit MODP prime of RFC 3526 (group 14): an odd "modulus" of the right size that is prime
const rfc3526 = "FFFFFFFFFFFFFFFFC90FDAA22168C234C4C6628B80DC1CD129024E088A67CC74020BBEA63B139B22514A08798E3404DDEF9519B3CD3A431B302B0A6DF25F14374FE1356D6D51C245E485B576625E7EC6F44C42E9A637ED6B0BFF5CB6F406B7EDEE386BFB5A899FA5AE9F24117C4B1FE649286651ECE45B3DC2007CB8A163BF0598DA48361C55D39A69163FA8FD24CF5F83655D23DCA3AD961C62F356208552BB9ED529077096966D670C354E4ABC9804F1746C08CA18217C32905E462E36CE3BE39E772C180E86039B2783A2EC07A28FB5C55DF06F4C52C9DE2BCBF6955817183995497CEA956AE515D2261898FA051015728E5A8AACAA68FFFFFFFFFFFFFFFF"

func bigBytes(x *big.Int, n int) []byte {
	b := x.Bytes()
	if len(b) >= n {
		return b
	}
	out := make([]byte, n)
	copy(out[n-len(b):], b)
	return out
}

func thresholdValues(n int) map[string]interface{} {
	return map[string]interface{}{
		"threshold-n":       uint64(n),
		"threshold-n+1":     uint64(n + 1),
		"threshold-minus1":  int64(-1),
		"threshold-2^32":    uint64(1) << 32,
		"threshold-2^63-1":  uint64(1)<<63 - 1,
		"threshold-2^64-1":  ^uint64(0),
		"threshold-min-int": faults.Raw{0x3b, 0x7f, 0xff, 0xff, 0xff, 0xff, 0xff, 0xff, 0xff},
	}
}

func idValues(in *instance) map[string]interface{} {
	m := map[string]interface{}{"id-empty": "", "id-unknown": "zz", "id-as-bytes": []byte(in.id)}
	for _, o := range in.ids {
		if o != in.id {
			m["id-other-party"] = string(o)
			break
		}
	}
	return m
}

// tableMutants: rule-breakers on a party table (map id -> point) reachable through get/put.
func tableMutants(in *instance, tablePath string, get func() map[interface{}]interface{}, put func(v interface{}) []byte) []mutant {
	var out []mutant
	add := func(path, op, rule string, f func() []byte) {
		out = append(out, mutant{Path: tablePath + path, Op: op, Rule: rule, make: f})
	}
	tab := get()
	if tab == nil {
		return nil
	}
	entries := sortedEntries(tab)
	for _, e := range entries {
		e := e
		who := "other"
		if e.k == string(in.id) {
			who = "own"
		}
		for name, enc := range identityEncodings() {
			enc := enc
			add("/"+e.k, name, "identity point in the table ("+who+" entry)", func() []byte {
				m := faults.Clone(tab).(map[interface{}]interface{})
				m[e.k] = enc
				return put(m)
			})
		}
		add("/"+e.k, "pt-off-curve", "table entry not on the curve ("+who+" entry)", func() []byte {
			m := faults.Clone(tab).(map[interface{}]interface{})
			m[e.k] = offCurve()
			return put(m)
		})
		add("/"+e.k, "entry-removed", "missing party ("+who+" entry)", func() []byte {
			m := faults.Clone(tab).(map[interface{}]interface{})
			delete(m, e.k)
			return put(m)
		})
		add("/"+e.k, "entry-duplicated-same", "duplicate party", func() []byte {
			return put(rawMap(append(append([]kv{}, entries...), e)))
		})
		add("/"+e.k, "entry-duplicated-other-key", "duplicate party", func() []byte {
			other := entries[0]
			if other.k == e.k {
				other = entries[len(entries)-1]
			}
			return put(rawMap(append(append([]kv{}, entries...), kv{e.k, other.v})))
		})
		add("/"+e.k, "entry-renamed-unknown", "ids not matching ("+who+" entry)", func() []byte {
			m := faults.Clone(tab).(map[interface{}]interface{})
			delete(m, e.k)
			m["zz"] = e.v
			return put(m)
		})
		add("/"+e.k, "entry-renamed-empty-id", "empty party id", func() []byte {
			m := faults.Clone(tab).(map[interface{}]interface{})
			delete(m, e.k)
			m[""] = e.v
			return put(m)
		})
		if who == "own" && len(entries) > 1 {
			add("/"+e.k, "entry-swapped-with-other", "own share does not match own entry", func() []byte {
				m := faults.Clone(tab).(map[interface{}]interface{})
				for _, o := range entries {
					if o.k != e.k {
						m[e.k], m[o.k] = o.v, e.v
						break
					}
				}
				return put(m)
			})
		}
	}
	add("", "table-empty", "no parties", func() []byte { return put(map[interface{}]interface{}{}) })
	return out
}

func scalarMutants(t *tree, path, what string) []mutant {
	var out []mutant
	cur := new(big.Int).SetBytes(t.getBytes(path))
	out = append(out,
		mutant{Path: path, Op: "sc-zero", Rule: what + " zero", make: func() []byte { return t.set(path, zero32) }},
		mutant{Path: path, Op: "sc-q", Rule: what + " out of range (q)", make: func() []byte { return t.set(path, qBytes()) }},
		mutant{Path: path, Op: "sc-all-ff", Rule: what + " out of range", make: func() []byte {
			return t.set(path, bigBytes(new(big.Int).Sub(new(big.Int).Lsh(big.NewInt(1), 256), big.NewInt(1)), 32))
		}},
		mutant{Path: path, Op: "sc-plus1", Rule: what + " does not match the public value", make: func() []byte {
			return t.set(path, bigBytes(new(big.Int).Mod(new(big.Int).Add(cur, big.NewInt(1)), ref.N), 32))
		}},
	)
	return out
}

func pointMutants(t *tree, path, what string) []mutant {
	var out []mutant
	for name, enc := range identityEncodings() {
		enc := enc
		out = append(out, mutant{Path: path, Op: name, Rule: what + " identity", make: func() []byte { return t.set(path, enc) }})
	}
	out = append(out,
		mutant{Path: path, Op: "pt-off-curve", Rule: what + " not on the curve", make: func() []byte { return t.set(path, offCurve()) }},
		mutant{Path: path, Op: "pt-x-above-p", Rule: what + " not on the curve", make: func() []byte { return t.set(path, xAbovePrime()) }},
	)
	return out
}

func valueMutants(t *tree, path string, vals map[string]interface{}, rule string) []mutant {
	var out []mutant
	for name, v := range vals {
		v := v
		out = append(out, mutant{Path: path, Op: name, Rule: rule, make: func() []byte { return t.set(path, v) }})
	}
	return out
}

func ridMutants(t *tree, path, what string) []mutant {
	cur := t.getBytes(path)
	if len(cur) == 0 {
		return nil
	}
	return []mutant{
		{Path: path, Op: "rid-zero", Rule: what + " all zero", make: func() []byte { return t.set(path, make([]byte, len(cur))) }},
		{Path: path, Op: "rid-short", Rule: what + " of wrong size", make: func() []byte { return t.set(path, cur[:len(cur)-1]) }},
		{Path: path, Op: "rid-long", Rule: what + " of wrong size", make: func() []byte { return t.set(path, append(append([]byte{}, cur...), 7)) }},
		{Path: path, Op: "rid-empty", Rule: what + " of wrong size", make: func() []byte { return t.set(path, []byte{}) }},
	}
}

// semanticMutants lists the rule-breakers of one instance.
func semanticMutants(in *instance) []mutant {
	t := in.tree
	var out []mutant
	innerTable := func(path string) (func() map[interface{}]interface{}, func(v interface{}) []byte) {
		get := func() map[interface{}]interface{} {
			m, _ := t.inner[path].(map[interface{}]interface{})
			return m
		}
		put := func(v interface{}) []byte { return t.set(path, faults.Encode(v)) }
		return get, put
	}
	directTable := func(path string) (func() map[interface{}]interface{}, func(v interface{}) []byte) {
		get := func() map[interface{}]interface{} {
			m, _ := t.get(path).(map[interface{}]interface{})
			return m
		}
		put := func(v interface{}) []byte { return t.set(path, v) }
		return get, put
	}
	switch in.kind.name {
	case "frost.Config":
		out = append(out, scalarMutants(t, "/PrivateShare", "secret share")...)
		out = append(out, pointMutants(t, "/PublicKey", "public key")...)
		out = append(out, valueMutants(t, "/Threshold", thresholdValues(in.n), "inconsistent threshold")...)
		out = append(out, valueMutants(t, "/ID", idValues(in), "ids not matching")...)
		g, p := innerTable("/VerificationShares")
		out = append(out, tableMutants(in, "/VerificationShares~", g, p)...)
	case "frost.TaprootConfig":
		out = append(out, scalarMutants(t, "/PrivateShare", "secret share")...)
		out = append(out,
			mutant{Path: "/PublicKey", Op: "x-zero", Rule: "public key not on the curve", make: func() []byte { return t.set("/PublicKey", zero32) }},
			mutant{Path: "/PublicKey", Op: "x-off-curve", Rule: "public key not on the curve", make: func() []byte { return t.set("/PublicKey", offCurve()[1:]) }},
			mutant{Path: "/PublicKey", Op: "x-above-p", Rule: "public key not on the curve", make: func() []byte { return t.set("/PublicKey", xAbovePrime()[1:]) }},
			mutant{Path: "/PublicKey", Op: "x-33-bytes", Rule: "public key of wrong size", make: func() []byte { return t.set("/PublicKey", append([]byte{2}, t.getBytes("/PublicKey")...)) }},
			mutant{Path: "/PublicKey", Op: "x-31-bytes", Rule: "public key of wrong size", make: func() []byte { return t.set("/PublicKey", t.getBytes("/PublicKey")[1:]) }},
		)
		out = append(out, valueMutants(t, "/Threshold", thresholdValues(in.n), "inconsistent threshold")...)
		out = append(out, valueMutants(t, "/ID", idValues(in), "ids not matching")...)
		g, p := directTable("/VerificationShares")
		out = append(out, tableMutants(in, "/VerificationShares", g, p)...)
	case "doerner.ConfigReceiver", "doerner.ConfigSender":
		out = append(out, scalarMutants(t, "/SecretShare", "secret share")...)
		out = append(out, pointMutants(t, "/Public", "public key")...)
		out = append(out, ridMutants(t, "/ChainKey", "chain key")...)
	case "ecdsa.Signature":
		out = append(out, pointMutants(t, "/R", "R")...)
		out = append(out, scalarMutants(t, "/S", "s")...)
	case "ecdsa.PreSignature":
		out = append(out, pointMutants(t, "/R", "R")...)
		out = append(out, scalarMutants(t, "/KShare", "k share")...)
		out = append(out, scalarMutants(t, "/ChiShare", "chi share")...)
		out = append(out, ridMutants(t, "/ID", "presignature id")...)
		for _, f := range []string{"/RBar", "/S"} {
			g, p := innerTable(f)
			out = append(out, tableMutants(in, f+"~", g, p)...)
		}
		// entries removed from both tables consistently, and both tables empty
		rb, _ := t.inner["/RBar"].(map[interface{}]interface{})
		sm, _ := t.inner["/S"].(map[interface{}]interface{})
		if rb != nil && sm != nil {
			for _, e := range sortedEntries(rb) {
				e := e
				out = append(out, mutant{Path: "/RBar+S/" + e.k, Op: "signer-removed-from-both", Rule: "missing party", make: func() []byte {
					a := faults.Clone(rb).(map[interface{}]interface{})
					b := faults.Clone(sm).(map[interface{}]interface{})
					delete(a, e.k)
					delete(b, e.k)
					r1, _ := faults.Set(t.root, "/RBar", faults.Encode(a), false)
					r2, _ := faults.Set(r1, "/S", faults.Encode(b), false)
					return faults.Encode(r2)
				}})
			}
			out = append(out, mutant{Path: "/RBar+S", Op: "both-tables-empty", Rule: "no parties", make: func() []byte {
				r1, _ := faults.Set(t.root, "/RBar", faults.Encode(map[interface{}]interface{}{}), false)
				r2, _ := faults.Set(r1, "/S", faults.Encode(map[interface{}]interface{}{}), false)
				return faults.Encode(r2)
			}})
		}
	case "cmp.Config":
		out = append(out, cmpMutants(in, t, func(b []byte) []byte { return b })...)
	case "cmp.Config(cbor)":
		// the same rule-breakers, applied to the wrapped encoding
		inner, ok := t.inner[""]
		if ok {
			it := &tree{root: inner, inner: map[string]interface{}{}}
			out = append(out, cmpMutants(in, it, func(b []byte) []byte {
				if b == nil {
					return nil
				}
				return faults.Encode(b)
			})...)
		}
	case "protocol.Message":
		out = append(out,
			mutant{Path: "/RoundNumber", Op: "round-65536", Rule: "round number out of range", make: func() []byte { return t.set("/RoundNumber", uint64(65536)) }},
			mutant{Path: "/RoundNumber", Op: "round-minus1", Rule: "round number out of range", make: func() []byte { return t.set("/RoundNumber", int64(-1)) }},
			mutant{Path: "/From", Op: "from-as-bytes", Rule: "field of wrong type", make: func() []byte { return t.set("/From", []byte("a")) }},
			mutant{Path: "/Broadcast", Op: "broadcast-as-uint", Rule: "field of wrong type", make: func() []byte { return t.set("/Broadcast", uint64(1)) }},
		)
	}
	return out
}

// two 512-bit safe Blum primes (p = 2q+1, q prime): genuine, but half the size a Paillier prime must have
const (
	smallSafeP = "F3A440F9521E83C40368697978EE93CC5D4C96A4080799AB0BD876841A69E59FBC6A966AA85AAF3C34E8C858914CF4C7E95D47DBA0704012B484F43B7F76017B"
	smallSafeQ = "C4094476A6A6DF91D937A0CAA53C4CE45E80F61EDD41AEDF0F07F45CDCEDD4310B4562238E7A093118B43B10A5D91E49019BA62E59E9283F71A1EEBE509C00E7"
)

func cmpMutants(in *instance, t *tree, wrap func([]byte) []byte) []mutant {
	var out []mutant
	w := func(ms []mutant) {
		for _, m := range ms {
			f := m.make
			m.make = func() []byte { return wrap(f()) }
			out = append(out, m)
		}
	}
	w(scalarMutants(t, "/ECDSA", "secret share"))
	w(scalarMutants(t, "/ElGamal", "elgamal secret"))
	w(valueMutants(t, "/Threshold", thresholdValues(in.n), "inconsistent threshold"))
	w(valueMutants(t, "/ID", idValues(in), "ids not matching"))
	w(ridMutants(t, "/RID", "RID"))
	w(ridMutants(t, "/ChainKey", "chain key"))
	P := new(big.Int).SetBytes(t.getBytes("/P"))
	Q := new(big.Int).SetBytes(t.getBytes("/Q"))
	one := big.NewInt(1)
	for _, f := range []string{"/P", "/Q"} {
		f := f
		cur := new(big.Int).SetBytes(t.getBytes(f))
		w([]mutant{
			{Path: f, Op: "prime-even", Rule: "paillier prime even", make: func() []byte { return t.set(f, bigBytes(new(big.Int).Sub(cur, one), 128)) }},
			{Path: f, Op: "prime-short", Rule: "paillier prime of wrong size", make: func() []byte { return t.set(f, bigBytes(new(big.Int).Rsh(cur, 8), 127)) }},
			{Path: f, Op: "prime-long", Rule: "paillier prime of wrong size", make: func() []byte { return t.set(f, append([]byte{1}, bigBytes(cur, 128)...)) }},
			{Path: f, Op: "prime-plus4", Rule: "paillier prime factor is composite", make: func() []byte { return t.set(f, bigBytes(new(big.Int).Add(cur, big.NewInt(4)), 128)) }},
			// p' = 2r+1 with r prime (so "(p-1)/2 is prime" holds) but p' itself composite, 1024 bits, 3 mod 4
			{Path: f, Op: "prime-composite-with-prime-half", Rule: "paillier prime factor is composite", make: func() []byte {
				r := new(big.Int).Rsh(cur, 1)
				for {
					r.Add(r, big.NewInt(2))
					if !r.ProbablyPrime(4) {
						continue
					}
					c := new(big.Int).Add(new(big.Int).Lsh(r, 1), one)
					if !c.ProbablyPrime(4) && c.BitLen() == 1024 {
						return t.set(f, bigBytes(c, 128))
					}
				}
			}},
			{Path: f, Op: "prime-one", Rule: "paillier prime of wrong size", make: func() []byte { return t.set(f, []byte{1}) }},
			{Path: f, Op: "prime-zero", Rule: "paillier prime of wrong size", make: func() []byte { return t.set(f, []byte{}) }},
		})
	}
	w([]mutant{
		{Path: "/P", Op: "p-equals-q", Rule: "paillier modulus is a square (p = q)", make: func() []byte { return t.set("/P", bigBytes(Q, 128)) }},
		{Path: "/P+Q", Op: "probe:p-q-swapped", Rule: "(legal variant)", make: func() []byte {
			r1, _ := faults.Set(t.root, "/P", bigBytes(Q, 128), false)
			r2, _ := faults.Set(r1, "/Q", bigBytes(P, 128), false)
			return faults.Encode(r2)
		}},
	})
	pub, _ := t.get("/Public").([]interface{})
	prime2048, _ := new(big.Int).SetString(rfc3526, 16)
	// COORDINATED wrong-size material: both Paillier primes replaced by genuine safe Blum primes of HALF the size,
	// written with leading zeros so that the byte strings keep their length, and the party's own public entry made
	// consistent with them (N = p'q', Pedersen s = t^k, t a square, modulo the new N).  Every single-field check holds
	// except the size of the primes / the modulus.
	{
		sp, _ := new(big.Int).SetString(smallSafeP, 16)
		sq, _ := new(big.Int).SetString(smallSafeQ, 16)
		if sp.ProbablyPrime(20) && sq.ProbablyPrime(20) && new(big.Int).Rsh(sp, 1).ProbablyPrime(20) && new(big.Int).Rsh(sq, 1).ProbablyPrime(20) {
			n2 := new(big.Int).Mul(sp, sq)
			tt := new(big.Int).Exp(big.NewInt(0x10001), big.NewInt(2), n2)
			ss := new(big.Int).Exp(tt, big.NewInt(0x3039), n2)
			w([]mutant{{Path: "/P+Q+own-entry", Op: "half-size-primes-zero-padded-consistent", Rule: "paillier prime of wrong size", make: func() []byte {
				r, _ := faults.Set(t.root, "/P", bigBytes(sp, 128), false)
				r, _ = faults.Set(r, "/Q", bigBytes(sq, 128), false)
				for i := range pub {
					ent, _ := pub[i].(map[interface{}]interface{})
					if ent == nil {
						continue
					}
					if id, _ := ent["ID"].(string); id != string(in.id) {
						continue
					}
					base := fmt.Sprintf("/Public/[%d]", i)
					r, _ = faults.Set(r, base+"/N", bigBytes(n2, 256), false)
					r, _ = faults.Set(r, base+"/S", bigBytes(ss, 256), false)
					r, _ = faults.Set(r, base+"/T", bigBytes(tt, 256), false)
				}
				return faults.Encode(r)
			}}})
		}
	}
	// COORDINATED square modulus: Q holds the same number as P, written with leading zero bytes (another framing
	// of the same value: 1, 8 padding bytes, and none), and the party's own public entry made consistent with
	// N = P*P (Pedersen s = 4, t = 9: both squares and units).  A comparison of the two primes that looks at
	// their encodings instead of their values lets it through.
	for _, pad := range []int{0, 1, 8} {
		pad := pad
		w([]mutant{{Path: "/P+Q+own-entry", Op: fmt.Sprintf("q-is-p-with-%d-leading-zero-bytes-consistent", pad), Rule: "paillier modulus is a square (p = q)", make: func() []byte {
			n2 := new(big.Int).Mul(P, P)
			r, _ := faults.Set(t.root, "/Q", append(make([]byte, pad), bigBytes(P, 128)...), false)
			for i := range pub {
				ent, _ := pub[i].(map[interface{}]interface{})
				if ent == nil {
					continue
				}
				if id, _ := ent["ID"].(string); id != string(in.id) {
					continue
				}
				base := fmt.Sprintf("/Public/[%d]", i)
				r, _ = faults.Set(r, base+"/N", bigBytes(n2, 256), false)
				r, _ = faults.Set(r, base+"/S", bigBytes(big.NewInt(4), 256), false)
				r, _ = faults.Set(r, base+"/T", bigBytes(big.NewInt(9), 256), false)
			}
			return faults.Encode(r)
		}}})
	}
	for i := range pub {
		i := i
		ent, _ := pub[i].(map[interface{}]interface{})
		if ent == nil {
			continue
		}
		id, _ := ent["ID"].(string)
		who := "other party"
		if id == string(in.id) {
			who = "own entry"
		}
		base := fmt.Sprintf("/Public/[%d]", i)
		N := new(big.Int).SetBytes(t.getBytes(base + "/N"))
		nm := func(op, rule string, v *big.Int, size int) mutant {
			return mutant{Path: base + "/N", Op: op, Rule: rule + " (" + who + ")", make: func() []byte { return t.set(base+"/N", bigBytes(v, size)) }}
		}
		w([]mutant{
			nm("N-even", "paillier modulus even", new(big.Int).Sub(N, one), 256),
			nm("N-short", "paillier modulus of wrong size", new(big.Int).Rsh(N, 8), 255),
			nm("N-2047-bits", "paillier modulus of wrong size", new(big.Int).SetBit(new(big.Int).Rsh(N, 1), 0, 1), 256),
			nm("N-long", "paillier modulus of wrong size", new(big.Int).SetBit(new(big.Int).Set(N), 2048, 1), 257),
			nm("N-prime", "paillier modulus is prime", prime2048, 256),
			nm("N-zero", "paillier modulus of wrong size", big.NewInt(0), 0),
			nm("N-one", "paillier modulus of wrong size", big.NewInt(1), 1),
			nm("N-plus2", "pedersen/paillier modulus mismatching", new(big.Int).Add(N, big.NewInt(2)), 256),
		})
		for _, f := range []string{"S", "T"} {
			f := f
			other := "T"
			if f == "T" {
				other = "S"
			}
			pm := func(op, rule string, v []byte) mutant {
				return mutant{Path: base + "/" + f, Op: op, Rule: rule + " (" + who + ")", make: func() []byte { return t.set(base+"/"+f, v) }}
			}
			w([]mutant{
				pm("ped-zero", "pedersen parameter outside [1,N-1]", make([]byte, 256)),
				pm("ped-empty", "pedersen parameter outside [1,N-1]", []byte{}),
				pm("ped-one", "pedersen parameter equals 1", bigBytes(one, 256)),
				pm("ped-N", "pedersen parameter outside [1,N-1]", bigBytes(N, 256)),
				pm("ped-N-plus-1", "pedersen parameter outside [1,N-1]", bigBytes(new(big.Int).Add(N, one), 256)),
				pm("ped-equal-other", "pedersen parameters s = t", t.getBytes(base+"/"+other)),
			})
			if who == "own entry" {
				w([]mutant{pm("ped-multiple-of-p", "pedersen parameter not coprime to N", bigBytes(new(big.Int).Mul(P, big.NewInt(3)), 256))})
			}
		}
		w(pointMutants(t, base+"/ECDSA", "public share ("+who+")"))
		w(pointMutants(t, base+"/ElGamal", "elgamal key ("+who+")"))
		w([]mutant{
			{Path: base, Op: "entry-removed", Rule: "missing party (" + who + ")", make: func() []byte {
				nl := append(append([]interface{}{}, pub[:i]...), pub[i+1:]...)
				return t.set("/Public", nl)
			}},
			{Path: base, Op: "entry-duplicated-same", Rule: "duplicate party", make: func() []byte {
				return t.set("/Public", append(append([]interface{}{}, pub...), faults.Clone(ent)))
			}},
			{Path: base, Op: "entry-duplicated-other-key", Rule: "duplicate party", make: func() []byte {
				d := faults.Clone(ent).(map[interface{}]interface{})
				o := pub[(i+1)%len(pub)].(map[interface{}]interface{})
				d["ECDSA"] = o["ECDSA"]
				return t.set("/Public", append(append([]interface{}{}, pub...), d))
			}},
			{Path: base + "/ID", Op: "entry-renamed-unknown", Rule: "ids not matching (" + who + ")", make: func() []byte { return t.set(base+"/ID", "zz") }},
			{Path: base + "/ID", Op: "entry-renamed-empty-id", Rule: "empty party id", make: func() []byte { return t.set(base+"/ID", "") }},
		})
	}
	w([]mutant{{Path: "/Public", Op: "table-empty", Rule: "no parties", make: func() []byte { return t.set("/Public", []interface{}{}) }}})
	return out
}

func isProbe(op string) bool { return strings.HasPrefix(op, "probe:") }
