package main

import (
	"bytes"
	"encoding/binary"
	"errors"
	"sort"

	"github.com/fxamacker/cbor/v2"
	"github.com/taurusgroup/multi-party-sig/internal/zzverif/faults"
)

// The encodings under test nest CBOR inside byte strings (party.PointMap inside frost.Config and
// ecdsa.PreSignature; cmp.Config inside its own cbor form).  A site is one addressable node:
// either a node of the outer tree, or (Nested) a node of the tree found inside the byte string
// at Outer.

type site struct {
	Outer  string
	Inner  string
	Nested bool
	Val    interface{}
}

func (s site) Path() string {
	if s.Nested {
		return s.Outer + "~" + s.Inner
	}
	return s.Outer
}

type tree struct {
	root  interface{}
	inner map[string]interface{} // outer path -> decoded content of that byte string
}

var lenientDec, _ = cbor.DecOptions{MaxNestedLevels: 64}.DecMode()
var strictDupDec, _ = cbor.DecOptions{MaxNestedLevels: 64, DupMapKey: cbor.DupMapKeyEnforcedAPF}.DecMode()

// exactDecode decodes b as exactly one CBOR item (no trailing bytes).
func exactDecode(b []byte) (interface{}, bool) {
	var v interface{}
	d := lenientDec.NewDecoder(bytes.NewReader(b))
	if err := d.Decode(&v); err != nil {
		return nil, false
	}
	if d.NumBytesRead() != len(b) {
		return nil, false
	}
	return v, true
}

// firstItem decodes the first CBOR item of b (the library's decoder ignores what follows it).
func firstItem(b []byte) (interface{}, bool) {
	var v interface{}
	d := lenientDec.NewDecoder(bytes.NewReader(b))
	if err := d.Decode(&v); err != nil {
		return nil, false
	}
	return v, true
}

func nestedTree(b []byte) (interface{}, bool) {
	if len(b) < 2 {
		return nil, false
	}
	v, ok := exactDecode(b)
	if !ok {
		return nil, false
	}
	switch x := v.(type) {
	case map[interface{}]interface{}:
		return v, len(x) > 0
	case []interface{}:
		return v, len(x) > 1
	}
	return nil, false
}

func parseTree(b []byte) (*tree, error) {
	root, ok := exactDecode(b)
	if !ok {
		return nil, errors.New("the valid encoding is not exactly one CBOR item")
	}
	t := &tree{root: root, inner: map[string]interface{}{}}
	for _, nd := range faults.Walk(root) {
		if bs, ok := nd.Val.([]byte); ok {
			if in, ok := nestedTree(bs); ok {
				t.inner[nd.Path] = in
			}
		}
	}
	return t, nil
}

// canon re-encodes with sorted map keys at both levels (Go map iteration makes the library's own output order vary).
func (t *tree) canon() []byte {
	root := t.root
	paths := make([]string, 0, len(t.inner))
	for p := range t.inner {
		paths = append(paths, p)
	}
	sort.Strings(paths)
	for _, p := range paths {
		root, _ = faults.Set(root, p, faults.Encode(t.inner[p]), false)
	}
	return faults.Encode(root)
}

func canonBytes(b []byte) ([]byte, bool) {
	t, err := parseTree(b)
	if err != nil {
		return nil, false
	}
	return t.canon(), true
}

func (t *tree) sites() []site {
	var out []site
	for _, nd := range faults.Walk(t.root) {
		out = append(out, site{Outer: nd.Path, Val: nd.Val})
		if in, ok := t.inner[nd.Path]; ok {
			for _, ind := range faults.Walk(in) {
				out = append(out, site{Outer: nd.Path, Inner: ind.Path, Nested: true, Val: ind.Val})
			}
		}
	}
	return out
}

// with returns the encoding in which the node at s is replaced by val (del: removed from its parent).
func (t *tree) with(s site, val interface{}, del bool) ([]byte, bool) {
	if !s.Nested {
		nt, ok := faults.Set(t.root, s.Outer, val, del)
		if !ok {
			return nil, false
		}
		return faults.Encode(nt), true
	}
	in, ok := t.inner[s.Outer]
	if !ok {
		return nil, false
	}
	ni, ok := faults.Set(in, s.Inner, val, del)
	if !ok {
		return nil, false
	}
	nt, ok := faults.Set(t.root, s.Outer, faults.Encode(ni), false)
	if !ok {
		return nil, false
	}
	return faults.Encode(nt), true
}

// set is with() for an outer path; setIn for a path inside the byte string at outer.
func (t *tree) set(path string, val interface{}) []byte {
	b, ok := t.with(site{Outer: path}, val, false)
	if !ok {
		return nil
	}
	return b
}

func (t *tree) del(path string) []byte {
	b, ok := t.with(site{Outer: path}, nil, true)
	if !ok {
		return nil
	}
	return b
}

func (t *tree) get(path string) interface{} {
	v, _ := faults.Get(t.root, path)
	return v
}

func (t *tree) getBytes(path string) []byte {
	b, _ := t.get(path).([]byte)
	return append([]byte{}, b...)
}

func cborHead(buf *bytes.Buffer, major byte, n uint64) {
	switch {
	case n < 24:
		buf.WriteByte(major<<5 | byte(n))
	case n < 1<<8:
		buf.WriteByte(major<<5 | 24)
		buf.WriteByte(byte(n))
	case n < 1<<16:
		buf.WriteByte(major<<5 | 25)
		var b [2]byte
		binary.BigEndian.PutUint16(b[:], uint16(n))
		buf.Write(b[:])
	case n < 1<<32:
		buf.WriteByte(major<<5 | 26)
		var b [4]byte
		binary.BigEndian.PutUint32(b[:], uint32(n))
		buf.Write(b[:])
	default:
		buf.WriteByte(major<<5 | 27)
		var b [8]byte
		binary.BigEndian.PutUint64(b[:], n)
		buf.Write(b[:])
	}
}

type kv struct {
	k string
	v interface{}
}

// rawMap encodes a map with the given entries in the given order (duplicates allowed).
func rawMap(entries []kv) faults.Raw {
	var buf bytes.Buffer
	cborHead(&buf, 5, uint64(len(entries)))
	for _, e := range entries {
		buf.Write(faults.Encode(e.k))
		buf.Write(faults.Encode(e.v))
	}
	return faults.Raw(buf.Bytes())
}

func sortedEntries(m map[interface{}]interface{}) []kv {
	var out []kv
	for k, v := range m {
		ks, _ := k.(string)
		out = append(out, kv{ks, v})
	}
	sort.Slice(out, func(i, j int) bool { return out[i].k < out[j].k })
	return out
}

// tableHasDuplicate reports whether the party table stored under field (a CBOR map keyed by
// party id, possibly wrapped in a byte string) names a party twice.  It reads the input with
// the CBOR library's duplicate-key detection, independently of the code under test.
func tableHasDuplicate(input []byte, field string) bool {
	var top map[string]cbor.RawMessage
	if lenientDec.Unmarshal(input, &top) != nil {
		return false
	}
	raw, ok := top[field]
	if !ok || len(raw) == 0 {
		return false
	}
	if raw[0]>>5 == 2 { // byte string wrapper
		var bs []byte
		if lenientDec.Unmarshal(raw, &bs) != nil {
			return false
		}
		raw = bs
	}
	if len(raw) == 0 || raw[0]>>5 != 5 {
		return false
	}
	var v map[string]cbor.RawMessage
	err := strictDupDec.Unmarshal(raw, &v)
	var de *cbor.DupMapKeyError
	return errors.As(err, &de)
}

// tableKeys: the party identifiers that the ENCODED table names (nil if the table cannot be read leniently).
// A party that the encoding names must be in the restored table: a slot whose value cannot be
// restored (null, undefined, damaged) is a reason to refuse the material, not to drop the party.
func tableKeys(input []byte, field string) []string {
	var top map[string]cbor.RawMessage
	if lenientDec.Unmarshal(input, &top) != nil {
		return nil
	}
	raw, ok := top[field]
	if !ok || len(raw) == 0 {
		return nil
	}
	if raw[0]>>5 == 2 { // byte string wrapper
		var bs []byte
		if lenientDec.Unmarshal(raw, &bs) != nil {
			return nil
		}
		raw = bs
	}
	if len(raw) == 0 || raw[0]>>5 != 5 {
		return nil
	}
	var v map[string]cbor.RawMessage
	if lenientDec.Unmarshal(raw, &v) != nil {
		return nil
	}
	var keys []string
	for k := range v {
		keys = append(keys, k)
	}
	sort.Strings(keys)
	return keys
}

func missingFromTable(r *ruleset, input []byte, field string, has func(string) bool) {
	for _, k := range tableKeys(input, field) {
		if !has(k) {
			r.add("a party named in the encoded table " + field + " is missing from the restored table")
			return
		}
	}
}

// listHasDuplicate: the same for cmp.Config's array of per-party maps with an "ID" field.
func listHasDuplicate(input []byte, field string) bool {
	var top map[string]cbor.RawMessage
	if lenientDec.Unmarshal(input, &top) != nil {
		return false
	}
	var items []map[string]cbor.RawMessage
	if lenientDec.Unmarshal(top[field], &items) != nil {
		return false
	}
	seen := map[string]bool{}
	for _, it := range items {
		var id string
		if lenientDec.Unmarshal(it["ID"], &id) != nil {
			continue
		}
		if seen[id] {
			return true
		}
		seen[id] = true
	}
	return false
}
