package main

// Part 1: round-trip and use.  Every result type is encoded with the documented encoder,
// restored into its Empty* value, compared field by field with the original (through
// independent views), re-encoded, and then used in later protocol runs next to the other
// parties' material.

import (
	"bytes"
	"crypto/rand"
	"fmt"
	"github.com/taurusgroup/multi-party-sig/internal/zzverif/drv"
	"github.com/taurusgroup/multi-party-sig/pkg/math/curve"
	"github.com/taurusgroup/multi-party-sig/pkg/math/polynomial"
	"github.com/taurusgroup/multi-party-sig/pkg/math/sample"
	"sort"
	"strings"

	"github.com/taurusgroup/multi-party-sig/internal/zzverif/kmat"
	"github.com/taurusgroup/multi-party-sig/internal/zzverif/oracle"
	"github.com/taurusgroup/multi-party-sig/internal/zzverif/ref"
	"github.com/taurusgroup/multi-party-sig/internal/zzverif/sess"
	"github.com/taurusgroup/multi-party-sig/internal/zzverif/vkit"
	"github.com/taurusgroup/multi-party-sig/pkg/ecdsa"
	"github.com/taurusgroup/multi-party-sig/pkg/party"
	"github.com/taurusgroup/multi-party-sig/pkg/protocol"
	"github.com/taurusgroup/multi-party-sig/protocols/cmp"
	"github.com/taurusgroup/multi-party-sig/protocols/doerner"
	"github.com/taurusgroup/multi-party-sig/protocols/frost"
)

var msg32 = []byte("0123456789abcdef0123456789abcdef")

type finding struct{ sig, detail string }

type rtCase struct {
	Name  string
	Heavy bool
	run   func() []finding
}

func rtSig(kindName, what string) string { return "roundtrip|" + kindName + "|" + what }

// reencode: encode with the documented encoder, restore, return the restored object.
func throughCodec(k *kind, obj interface{}) (restored interface{}, enc []byte, fs []finding) {
	var err error
	if panicked, msg, frame := vkit.Try(func() { enc, err = k.encode(obj) }); panicked {
		return nil, nil, []finding{{panicSig(k.name, frame, msg), "the documented encoder panics on a protocol result: " + msg}}
	}
	if err != nil {
		return nil, nil, []finding{{rtSig(k.name, "encoder fails"), "the documented encoder fails on a protocol result: " + err.Error()}}
	}
	if panicked, msg, frame := vkit.Try(func() { restored, err = k.restore(enc) }); panicked {
		return nil, enc, []finding{{panicSig(k.name, frame, msg), fmt.Sprintf("restoring the library's own encoding panics: %s\ninput: %x", msg, clip(enc))}}
	}
	if err != nil {
		return nil, enc, []finding{{rtSig(k.name, "valid encoding refused"), fmt.Sprintf("restoring the library's own encoding fails: %v\ninput: %x", err, clip(enc))}}
	}
	if k.empty(restored) {
		return restored, enc, []finding{{rtSig(k.name, "everything (restored object is empty)"), fmt.Sprintf("restoring the library's own encoding (%d bytes) gives an empty object and no error", len(enc))}}
	}
	return restored, enc, nil
}

func clip(b []byte) []byte {
	if len(b) > 160 {
		return b[:160]
	}
	return b
}

func compareViews(a, b *oracle.View) []string {
	var d []string
	if a.ID != b.ID {
		d = append(d, "id")
	}
	if a.Threshold != b.Threshold {
		d = append(d, "threshold")
	}
	if a.Secret == nil || b.Secret == nil || a.Secret.Cmp(b.Secret) != 0 {
		d = append(d, "secret share")
	}
	if !a.Public.Equal(b.Public) {
		d = append(d, "public key")
	}
	if len(a.Shares) != len(b.Shares) {
		d = append(d, "share table size")
	}
	keys := make([]string, 0, len(a.Shares))
	for k := range a.Shares {
		keys = append(keys, k)
	}
	sort.Strings(keys)
	for _, k := range keys {
		if p, ok := b.Shares[k]; !ok || !p.Equal(a.Shares[k]) {
			d = append(d, "share table entry")
			break
		}
	}
	if !(len(a.ChainKey) == 0 && len(b.ChainKey) == 0) && !bytes.Equal(a.ChainKey, b.ChainKey) {
		d = append(d, "chain key")
	}
	if a.Aux != b.Aux {
		d = append(d, "auxiliary public data")
	}
	return d
}

// compareAndReencode is the field-wise comparison + re-encoding step shared by the key material kinds.
func compareKeyMaterial(k *kind, label string, orig interface{}) []finding {
	rest, enc, fs := throughCodec(k, orig)
	if rest == nil || len(fs) > 0 {
		return fs
	}
	va, err1 := oracle.ViewOf(orig)
	vb, err2 := oracle.ViewOf(rest)
	if err1 != nil {
		return []finding{{"harness|view of the original", err1.Error()}}
	}
	if err2 != nil {
		return []finding{{rtSig(k.name, "restored object unreadable"), fmt.Sprintf("%s: %v", label, err2)}}
	}
	for _, d := range compareViews(va, vb) {
		fs = append(fs, finding{rtSig(k.name, d+" differs"), fmt.Sprintf("%s: after encode+restore the %s differs from the original", label, d)})
	}
	if co, cr := restAs(orig), restAs(rest); co != nil && cr != nil {
		for _, d := range compareCMP(co, cr) {
			fs = append(fs, finding{rtSig(k.name, d+" differs"), fmt.Sprintf("%s: after encode+restore the %s differs from the original", label, d)})
		}
	}
	fs = append(fs, reencode(k, label, rest, enc)...)
	if broken := k.rules(rest, enc); len(broken) > 0 {
		fs = append(fs, finding{rtSig(k.name, "restored object breaks rule: "+broken[0]), fmt.Sprintf("%s: %v", label, broken)})
	}
	return fs
}

func restAs(o interface{}) *cmp.Config {
	c, _ := o.(*cmp.Config)
	return c
}

func reencode(k *kind, label string, rest interface{}, enc []byte) []finding {
	var enc2 []byte
	var err error
	if panicked, msg, frame := vkit.Try(func() { enc2, err = k.encode(rest) }); panicked {
		return []finding{{panicSig(k.name, frame, msg), label + ": encoding the restored object panics: " + msg}}
	}
	if err != nil {
		return []finding{{rtSig(k.name, "restored object cannot be encoded"), label + ": " + err.Error()}}
	}
	c1, ok1 := canonBytes(enc)
	c2, ok2 := canonBytes(enc2)
	if !ok1 || !ok2 || !bytes.Equal(c1, c2) {
		return []finding{{rtSig(k.name, "re-encoding differs"), fmt.Sprintf("%s: encode(restore(encode(x))) differs from encode(x) (after sorting map keys): %d vs %d bytes", label, len(c1), len(c2))}}
	}
	return nil
}

// compareCMP compares what the generic view only digests: Paillier primes, per-party N, s, t, ElGamal, RID.
func compareCMP(a, b *cmp.Config) []string {
	var d []string
	if a.Paillier == nil || b.Paillier == nil {
		return []string{"paillier secret key"}
	}
	if natBig(a.Paillier.P()).Cmp(natBig(b.Paillier.P())) != 0 || natBig(a.Paillier.Q()).Cmp(natBig(b.Paillier.Q())) != 0 {
		d = append(d, "paillier primes")
	}
	_, ea := scState(a.ElGamal)
	_, eb := scState(b.ElGamal)
	if ea == nil || eb == nil || ea.Cmp(eb) != 0 {
		d = append(d, "elgamal secret")
	}
	if !bytes.Equal(a.RID, b.RID) {
		d = append(d, "RID")
	}
	if !bytes.Equal(a.ChainKey, b.ChainKey) {
		d = append(d, "chain key")
	}
	ids := a.PartyIDs()
	for _, id := range ids {
		pa, pb := a.Public[id], b.Public[id]
		if pa == nil || pb == nil {
			d = append(d, "party entry")
			continue
		}
		if natBig(pa.Paillier.N()).Cmp(natBig(pb.Paillier.N())) != 0 {
			d = append(d, "paillier modulus of a party")
		}
		if natBig(pa.Pedersen.N()).Cmp(natBig(pb.Pedersen.N())) != 0 || natBig(pa.Pedersen.S()).Cmp(natBig(pb.Pedersen.S())) != 0 || natBig(pa.Pedersen.T()).Cmp(natBig(pb.Pedersen.T())) != 0 {
			d = append(d, "pedersen parameters of a party")
		}
		_, ga := ptState(pa.ElGamal)
		_, gb := ptState(pb.ElGamal)
		if !ga.Equal(gb) {
			d = append(d, "elgamal key of a party")
		}
	}
	return d
}

// ---- use: sessions ---------------------------------------------------------------------------------

func modeUses(mode string, id party.ID) bool { return mode == "all" || mode == "one:"+string(id) }

func idsString(ids []party.ID) string {
	s := ""
	for _, id := range ids {
		s += string(id)
	}
	return s
}

func judgeSign(kindName, what string, o *sess.Outcome, signers []party.ID, pub ref.Pt) []finding {
	sig := rtSig(kindName, "unusable: "+strings.SplitN(what, " ", 2)[0]+" with restored material fails")
	if len(o.StartErr) > 0 {
		return []finding{{sig, fmt.Sprintf("%s: session refuses to start: %v", what, o.StartErr)}}
	}
	if o.Panic != "" {
		return []finding{{sig, fmt.Sprintf("%s: panic: %s", what, o.Panic)}}
	}
	if o.Hung != "" {
		return []finding{{sig, fmt.Sprintf("%s: a handler call of %s never returned", what, o.Hung)}}
	}
	if !o.AllDone(signers) {
		return []finding{{sig, fmt.Sprintf("%s: session does not complete: errors=%v stuck=%v", what, o.Errors, o.Stuck)}}
	}
	for _, id := range signers {
		if err := oracle.CheckSignature(o.Results[id], pub, msg32); err != nil {
			return []finding{{rtSig(kindName, "unusable: signature made with restored material is invalid"), fmt.Sprintf("%s: result of %s: %v", what, id, err)}}
		}
	}
	return nil
}

func signerSets(ids []party.ID, t int, must party.ID) [][]party.ID {
	out := [][]party.ID{ids}
	if t+1 >= len(ids) {
		return out
	}
	var rec func(start int, cur []party.ID)
	rec = func(start int, cur []party.ID) {
		if len(cur) == t+1 {
			has := must == ""
			for _, c := range cur {
				if c == must {
					has = true
				}
			}
			if has {
				out = append(out, append([]party.ID{}, cur...))
			}
			return
		}
		for i := start; i < len(ids); i++ {
			rec(i+1, append(cur, ids[i]))
		}
	}
	rec(0, nil)
	if !vkit.Thorough() && len(out) > 2 {
		out = out[:2]
	}
	return out
}

func frostCases(n, t int, taproot bool) []rtCase {
	k := kinds["frost.Config"]
	if taproot {
		k = kinds["frost.TaprootConfig"]
	}
	ids := kmat.IDs[:n]
	tag := fmt.Sprintf("n%dt%d", n, t)
	fresh := func() (map[party.ID]interface{}, error) {
		out := map[party.ID]interface{}{}
		if taproot {
			m, err := kmat.Taproot(n, t)
			for id, c := range m {
				out[id] = c
			}
			return out, err
		}
		m, err := kmat.Frost(n, t)
		for id, c := range m {
			out[id] = c
		}
		return out, err
	}
	var cases []rtCase
	for _, id := range ids {
		id := id
		cases = append(cases, rtCase{Name: fmt.Sprintf("rt|%s|%s|compare|%s", k.name, tag, id), run: func() []finding {
			m, err := fresh()
			if err != nil {
				return []finding{{"harness|key generation", err.Error()}}
			}
			return compareKeyMaterial(k, tag+"/"+string(id), m[id])
		}})
	}
	modes := []string{"all"}
	for _, id := range ids {
		modes = append(modes, "one:"+string(id))
	}
	for _, mode := range modes {
		mode := mode
		must := party.ID("")
		if strings.HasPrefix(mode, "one:") {
			must = party.ID(mode[4:])
		}
		for _, signers := range signerSets(ids, t, must) {
			signers := signers
			cases = append(cases, rtCase{Name: fmt.Sprintf("rt|%s|%s|use|%s|signers=%s", k.name, tag, mode, idsString(signers)), run: func() []finding {
				m, err := fresh()
				if err != nil {
					return []finding{{"harness|key generation", err.Error()}}
				}
				v, err := oracle.ViewOf(m[ids[0]])
				if err != nil {
					return []finding{{"harness|view of the original", err.Error()}}
				}
				for _, id := range ids {
					if modeUses(mode, id) {
						r, _, fs := throughCodec(k, m[id])
						if r == nil {
							return fs
						}
						m[id] = r
					}
				}
				what := fmt.Sprintf("signing (%s, restored: %s, signers %s)", tag, mode, idsString(signers))
				var o *sess.Outcome
				if taproot {
					cfg := map[party.ID]*frost.TaprootConfig{}
					for id, c := range m {
						cfg[id] = c.(*frost.TaprootConfig)
					}
					o = sess.Run(sess.FrostSignTaproot(cfg, signers, msg32), *vkit.Seed, "c15-use")
				} else {
					cfg := map[party.ID]*frost.Config{}
					for id, c := range m {
						cfg[id] = c.(*frost.Config)
					}
					o = sess.Run(sess.FrostSign(cfg, signers, msg32), *vkit.Seed, "c15-use")
				}
				return judgeSign(k.name, what, o, signers, v.Public)
			}})
		}
	}
	return cases
}

// ---- CMP ------------------------------------------------------------------------------------------------

type cmpWorld struct {
	n, t    int
	ids     []party.ID
	orig    map[party.ID]*cmp.Config // the objects key generation returned
	enc     map[party.ID][]byte
	pre     map[party.ID]*ecdsa.PreSignature // the objects presigning returned
	pub     ref.Pt
	err     error
	preErr  error
	preDone bool
}

var cmpWorlds = map[string]*cmpWorld{}

func getCMP(n, t int) *cmpWorld {
	key := fmt.Sprintf("%d/%d", n, t)
	if w, ok := cmpWorlds[key]; ok {
		return w
	}
	w := &cmpWorld{n: n, t: t, ids: kmat.IDs[:n], orig: map[party.ID]*cmp.Config{}, enc: map[party.ID][]byte{}}
	cmpWorlds[key] = w
	o := sess.Run(sess.CMPKeygen(w.ids, t), *vkit.Seed, "c15-kmat")
	for _, id := range w.ids {
		c, ok := o.Results[id].(*cmp.Config)
		if !ok {
			w.err = fmt.Errorf("cmp keygen n=%d t=%d failed: errors=%v start=%v panic=%q stuck=%v", n, t, o.Errors, o.StartErr, o.Panic, o.Stuck)
			return w
		}
		w.orig[id] = c
		b, err := c.MarshalBinary()
		if err != nil {
			w.err = err
			return w
		}
		w.enc[id] = b
	}
	v, err := oracle.ViewOf(w.orig[w.ids[0]])
	if err != nil {
		w.err = err
		return w
	}
	w.pub = v.Public
	return w
}

// copies returns fresh configs decoded from the raw encodings (for sessions where the configs are not what is tested).
func (w *cmpWorld) copies() (map[party.ID]*cmp.Config, error) {
	out := map[party.ID]*cmp.Config{}
	for id, b := range w.enc {
		c := cmp.EmptyConfig(grp)
		if err := c.UnmarshalBinary(b); err != nil {
			return nil, err
		}
		out[id] = c
	}
	return out, nil
}

func (w *cmpWorld) presigs() (map[party.ID]*ecdsa.PreSignature, error) {
	if w.preDone {
		return w.pre, w.preErr
	}
	w.preDone = true
	if w.err != nil {
		w.preErr = w.err
		return nil, w.err
	}
	o := sess.Run(sess.CMPPresign(w.orig, w.ids), *vkit.Seed, "c15-pre")
	w.pre = map[party.ID]*ecdsa.PreSignature{}
	for _, id := range w.ids {
		p, ok := o.Results[id].(*ecdsa.PreSignature)
		if !ok {
			w.preErr = fmt.Errorf("cmp presign n=%d failed: errors=%v panic=%q stuck=%v", w.n, o.Errors, o.Panic, o.Stuck)
			return nil, w.preErr
		}
		w.pre[id] = p
	}
	return w.pre, nil
}

func cmpCases(n, t int) []rtCase {
	ids := kmat.IDs[:n]
	tag := fmt.Sprintf("n%dt%d", n, t)
	var cases []rtCase
	for _, kn := range []string{"cmp.Config", "cmp.Config(cbor)"} {
		k := kinds[kn]
		for _, id := range ids {
			id := id
			cases = append(cases, rtCase{Name: fmt.Sprintf("rt|%s|%s|compare|%s", k.name, tag, id), run: func() []finding {
				w := getCMP(n, t)
				if w.err != nil {
					return []finding{{"harness|key generation", w.err.Error()}}
				}
				return compareKeyMaterial(k, tag+"/"+string(id), w.orig[id])
			}})
		}
		modes := []string{"all"}
		for _, id := range ids {
			modes = append(modes, "one:"+string(id))
		}
		if k.wrapped {
			modes = []string{"all"}
		}
		for _, mode := range modes {
			mode := mode
			cases = append(cases, rtCase{Name: fmt.Sprintf("rt|%s|%s|use|%s|signers=%s", k.name, tag, mode, idsString(ids)), Heavy: true, run: func() []finding {
				w := getCMP(n, t)
				if w.err != nil {
					return []finding{{"harness|key generation", w.err.Error()}}
				}
				cfg := map[party.ID]*cmp.Config{}
				for _, id := range ids {
					cfg[id] = w.orig[id]
					if modeUses(mode, id) {
						r, _, fs := throughCodec(k, w.orig[id])
						if r == nil {
							return fs
						}
						cfg[id] = r.(*cmp.Config)
					}
				}
				what := fmt.Sprintf("signing (cmp %s, restored: %s)", tag, mode)
				o := sess.Run(sess.CMPSign(cfg, ids, msg32), *vkit.Seed, "c15-use")
				return judgeSign(k.name, what, o, ids, w.pub)
			}})
		}
	}
	// presignatures
	pk := kinds["ecdsa.PreSignature"]
	for _, id := range ids {
		id := id
		cases = append(cases, rtCase{Name: fmt.Sprintf("rt|%s|%s|compare|%s", pk.name, tag, id), run: func() []finding {
			w := getCMP(n, t)
			pre, err := w.presigs()
			if err != nil {
				return []finding{{"harness|presigning", err.Error()}}
			}
			return comparePresig(pk, tag+"/"+string(id), pre[id])
		}})
	}
	modes := []string{"all"}
	for _, id := range ids {
		modes = append(modes, "one:"+string(id))
	}
	for _, mode := range modes {
		mode := mode
		cases = append(cases, rtCase{Name: fmt.Sprintf("rt|%s|%s|use|%s", pk.name, tag, mode), run: func() []finding {
			w := getCMP(n, t)
			pre, err := w.presigs()
			if err != nil {
				return []finding{{"harness|presigning", err.Error()}}
			}
			use := map[party.ID]*ecdsa.PreSignature{}
			for _, id := range ids {
				use[id] = pre[id]
				if modeUses(mode, id) {
					r, _, fs := throughCodec(pk, pre[id])
					if r == nil {
						return fs
					}
					use[id] = r.(*ecdsa.PreSignature)
				}
			}
			what := fmt.Sprintf("presign-online (cmp %s, restored presignature: %s)", tag, mode)
			o := sess.Run(sess.CMPPresignOnline(w.orig, use, ids, msg32), *vkit.Seed, "c15-use")
			return judgeSign(pk.name, what, o, ids, w.pub)
		}})
	}
	return cases
}

func ptEq(a, b interface{}) bool {
	sa, pa := ptState(a)
	sb, pb := ptState(b)
	return sa == "" && sb == "" && pa.Equal(pb)
}

func scEq(a, b interface{}) bool {
	_, xa := scState(a)
	_, xb := scState(b)
	return xa != nil && xb != nil && xa.Cmp(xb) == 0
}

func mapEq(a, b *party.PointMap) bool {
	if a == nil || b == nil || len(a.Points) != len(b.Points) {
		return false
	}
	for k, v := range a.Points {
		if !ptEq(v, b.Points[k]) {
			return false
		}
	}
	return true
}

func comparePresig(k *kind, label string, orig *ecdsa.PreSignature) []finding {
	rest, enc, fs := throughCodec(k, orig)
	if rest == nil || len(fs) > 0 {
		return fs
	}
	r := rest.(*ecdsa.PreSignature)
	diff := func(what string) {
		fs = append(fs, finding{rtSig(k.name, what+" differs"), fmt.Sprintf("%s: after encode+restore the %s differs from the original", label, what)})
	}
	if !bytes.Equal(orig.ID, r.ID) {
		diff("id")
	}
	if !ptEq(orig.R, r.R) {
		diff("R")
	}
	if !mapEq(orig.RBar, r.RBar) {
		diff("RBar table")
	}
	if !mapEq(orig.S, r.S) {
		diff("S table")
	}
	if !scEq(orig.KShare, r.KShare) {
		diff("k share")
	}
	if !scEq(orig.ChiShare, r.ChiShare) {
		diff("chi share")
	}
	fs = append(fs, reencode(k, label, rest, enc)...)
	if broken := k.rules(rest, enc); len(broken) > 0 {
		fs = append(fs, finding{rtSig(k.name, "restored object breaks rule: "+broken[0]), fmt.Sprintf("%s: %v", label, broken)})
	}
	return fs
}

// ---- Doerner ----------------------------------------------------------------------------------------------

func doernerCases() []rtCase {
	kr, ks := kinds["doerner.ConfigReceiver"], kinds["doerner.ConfigSender"]
	var cases []rtCase
	compare := func(k *kind, pick func(d *kmat.DoernerKeys) (obj interface{}, secret, public interface{}, ck []byte, setup interface{})) rtCase {
		return rtCase{Name: "rt|" + k.name + "|compare", run: func() []finding {
			d, err := kmat.Doerner()
			if err != nil {
				return []finding{{"harness|key generation", err.Error()}}
			}
			obj, s0, p0, c0, set0 := pick(d)
			rest, enc, fs := throughCodec(k, obj)
			if rest == nil || len(fs) > 0 {
				return fs
			}
			var s1, p1, set1 interface{}
			var c1 []byte
			switch x := rest.(type) {
			case *doerner.ConfigReceiver:
				s1, p1, c1, set1 = x.SecretShare, x.Public, x.ChainKey, x.Setup
			case *doerner.ConfigSender:
				s1, p1, c1, set1 = x.SecretShare, x.Public, x.ChainKey, x.Setup
			}
			diff := func(what string) {
				fs = append(fs, finding{rtSig(k.name, what), fmt.Sprintf("after encode+restore: %s (encoding: %d bytes)", what, len(enc))})
			}
			if !scEq(s0, s1) {
				diff("secret share differs")
			}
			if !ptEq(p0, p1) {
				diff("public key differs")
			}
			if !bytes.Equal(c0, c1) {
				diff("chain key differs")
			}
			m0, m1 := rawMemory(set0), rawMemory(set1)
			if m0 == nil {
				return append(fs, finding{"harness|doerner setup", "the original config has no OT setup"})
			}
			if !bytes.Equal(m0, m1) {
				st := setupState(set1)
				if st == "" {
					st = "different"
				}
				diff("OT setup lost (restored setup is " + st + ")")
			}
			fs = append(fs, reencode(k, k.name, rest, enc)...)
			return fs
		}}
	}
	cases = append(cases,
		compare(kr, func(d *kmat.DoernerKeys) (interface{}, interface{}, interface{}, []byte, interface{}) {
			return d.R, d.R.SecretShare, d.R.Public, d.R.ChainKey, d.R.Setup
		}),
		compare(ks, func(d *kmat.DoernerKeys) (interface{}, interface{}, interface{}, []byte, interface{}) {
			return d.S, d.S.SecretShare, d.S.Public, d.S.ChainKey, d.S.Setup
		}))
	for _, mode := range []string{"receiver", "sender", "both"} {
		mode := mode
		cases = append(cases, rtCase{Name: "rt|doerner|use|restored=" + mode, run: func() []finding {
			d, err := kmat.Doerner()
			if err != nil {
				return []finding{{"harness|key generation", err.Error()}}
			}
			pub, err := oracle.Pt(d.R.Public)
			if err != nil {
				return []finding{{"harness|key generation", err.Error()}}
			}
			cr, cs := d.R, d.S
			kname := kr.name
			if mode == "receiver" || mode == "both" {
				r, _, fs := throughCodec(kr, d.R)
				if r == nil {
					return fs
				}
				cr = r.(*doerner.ConfigReceiver)
			}
			if mode == "sender" || mode == "both" {
				r, _, fs := throughCodec(ks, d.S)
				if r == nil {
					return fs
				}
				cs = r.(*doerner.ConfigSender)
				if mode == "sender" {
					kname = ks.name
				}
			}
			o := sess.Run(sess.DoernerSign(cr, cs, "a", "b", msg32), *vkit.Seed, "c15-use")
			return judgeSign(kname, "signing (doerner, restored: "+mode+")", o, []party.ID{"a", "b"}, pub)
		}})
	}
	return cases
}

// ---- ecdsa.Signature ------------------------------------------------------------------------------------------

func signatureCase() rtCase {
	k := kinds["ecdsa.Signature"]
	return rtCase{Name: "rt|ecdsa.Signature|compare+verify", run: func() []finding {
		d, err := kmat.Doerner()
		if err != nil {
			return []finding{{"harness|key generation", err.Error()}}
		}
		pub, _ := oracle.Pt(d.R.Public)
		o := sess.Run(sess.DoernerSign(d.R, d.S, "a", "b", msg32), *vkit.Seed, "c15-sig")
		sig, ok := o.Results["a"].(*ecdsa.Signature)
		if !ok {
			return []finding{{"harness|doerner signing", fmt.Sprintf("%v %s", o.Errors, o.Panic)}}
		}
		rest, enc, fs := throughCodec(k, sig)
		if rest == nil || len(fs) > 0 {
			return fs
		}
		r := rest.(*ecdsa.Signature)
		if !ptEq(sig.R, r.R) {
			fs = append(fs, finding{rtSig(k.name, "R differs"), "after encode+restore R differs"})
		}
		if !scEq(sig.S, r.S) {
			fs = append(fs, finding{rtSig(k.name, "s differs"), "after encode+restore s differs"})
		}
		if err := oracle.CheckSignature(r, pub, msg32); err != nil {
			fs = append(fs, finding{rtSig(k.name, "unusable: restored signature does not verify"), err.Error()})
		}
		return append(fs, reencode(k, k.name, rest, enc)...)
	}}
}

// ---- protocol.Message: every message of a session goes through MarshalBinary -> UnmarshalBinary ----------------

func msgEqual(a, b *protocol.Message) []string {
	var d []string
	if !bytes.Equal(a.SSID, b.SSID) {
		d = append(d, "SSID")
	}
	if a.From != b.From {
		d = append(d, "From")
	}
	if a.To != b.To {
		d = append(d, "To")
	}
	if a.Protocol != b.Protocol {
		d = append(d, "Protocol")
	}
	if a.RoundNumber != b.RoundNumber {
		d = append(d, "RoundNumber")
	}
	if !bytes.Equal(a.Data, b.Data) {
		d = append(d, "Data")
	}
	if a.Broadcast != b.Broadcast {
		d = append(d, "Broadcast")
	}
	if !bytes.Equal(a.BroadcastVerification, b.BroadcastVerification) {
		d = append(d, "BroadcastVerification")
	}
	return d
}

// runThroughWire runs the session in order, delivering restored copies of every message.
func runThroughWire(spec *sess.Spec, label string) (*sess.Outcome, int, []finding) {
	k := kinds["protocol.Message"]
	net, startErr := sess.Build(spec, *vkit.Seed, label)
	o := &sess.Outcome{Net: net, Results: map[party.ID]interface{}{}, Errors: map[party.ID]error{}, StartErr: startErr}
	var fs []finding
	seen := map[string]bool{}
	count := 0
	// one long-lived Message value per recipient, as in a receive loop `var m protocol.Message; for { m.UnmarshalBinary(frame) }`:
	// what a frame decodes to must not depend on what the value held before
	reused := map[party.ID]*protocol.Message{}
	if len(startErr) == 0 {
		net.Flush()
		for steps := 0; len(net.Queue) > 0 && steps < 100000; steps++ {
			d := net.Queue[0]
			net.Queue = net.Queue[1:]
			rest, enc, f := throughCodec(k, d.M)
			if rest == nil {
				return o, count, append(fs, f...)
			}
			fs = append(fs, f...)
			m2 := rest.(*protocol.Message)
			count++
			for _, fld := range msgEqual(d.M, m2) {
				if !seen[fld] {
					seen[fld] = true
					fs = append(fs, finding{rtSig(k.name, fld+" differs"), fmt.Sprintf("%s: message %s: after MarshalBinary+UnmarshalBinary the field %s differs", spec.Name, d.M, fld)})
				}
			}
			ru := reused[d.To]
			if ru == nil {
				ru = &protocol.Message{}
				reused[d.To] = ru
			}
			if panicked, pmsg, frame := vkit.Try(func() {
				if err := ru.UnmarshalBinary(enc); err != nil && !seen["reuse-err"] {
					seen["reuse-err"] = true
					fs = append(fs, finding{rtSig(k.name, "re-used receiver refuses a valid frame"), fmt.Sprintf("%s: message %s: UnmarshalBinary into a Message value that held an earlier message fails: %v", spec.Name, d.M, err)})
				}
			}); panicked && !seen["reuse-panic"] {
				seen["reuse-panic"] = true
				fs = append(fs, finding{"panic|protocol.Message|reuse|" + frame, pmsg})
			}
			for _, fld := range msgEqual(d.M, ru) {
				if !seen["reuse:"+fld] {
					seen["reuse:"+fld] = true
					fs = append(fs, finding{rtSig(k.name, fld+" differs when the receiving value is re-used"), fmt.Sprintf("%s: message %s: decoded into a Message value that held an earlier message of the session, the field %s differs from the sent one (it kept the earlier message's value)", spec.Name, d.M, fld)})
				}
			}
			if !seen["reenc"] {
				if f := reencode(k, spec.Name, rest, enc); len(f) > 0 {
					seen["reenc"] = true
					fs = append(fs, f...)
				}
			}
			net.Parties[d.To].Deliver(m2)
			net.Flush()
			if id, _ := net.AnyHung(); id != "" {
				break
			}
		}
	}
	sess.Collect(o)
	return o, count, fs
}

var wireMessages int

func messageCases() []rtCase {
	k := kinds["protocol.Message"]
	var cases []rtCase
	signCase := func(name string, heavy bool, build func() (*sess.Spec, []party.ID, ref.Pt, error)) {
		cases = append(cases, rtCase{Name: "rt|protocol.Message|use|" + name, Heavy: heavy, run: func() []finding {
			spec, ids, pub, err := build()
			if err != nil {
				return []finding{{"harness|key generation", err.Error()}}
			}
			o, n, fs := runThroughWire(spec, "c15-wire")
			wireMessages += n
			return append(fs, judgeSign(k.name, name+" with every message restored from its wire form", o, ids, pub)...)
		}})
	}
	ids3 := kmat.IDs[:3]
	signCase("frost-sign/n3t1", false, func() (*sess.Spec, []party.ID, ref.Pt, error) {
		m, err := kmat.Frost(3, 1)
		if err != nil {
			return nil, nil, ref.Pt{}, err
		}
		v, err := oracle.ViewOf(m["a"])
		if err != nil {
			return nil, nil, ref.Pt{}, err
		}
		return sess.FrostSign(m, ids3, msg32), ids3, v.Public, nil
	})
	signCase("frost-sign-taproot/n3t1", false, func() (*sess.Spec, []party.ID, ref.Pt, error) {
		m, err := kmat.Taproot(3, 1)
		if err != nil {
			return nil, nil, ref.Pt{}, err
		}
		v, err := oracle.ViewOf(m["a"])
		if err != nil {
			return nil, nil, ref.Pt{}, err
		}
		return sess.FrostSignTaproot(m, ids3, msg32), ids3, v.Public, nil
	})
	signCase("doerner-sign", false, func() (*sess.Spec, []party.ID, ref.Pt, error) {
		d, err := kmat.Doerner()
		if err != nil {
			return nil, nil, ref.Pt{}, err
		}
		pub, err := oracle.Pt(d.R.Public)
		return sess.DoernerSign(d.R, d.S, "a", "b", msg32), []party.ID{"a", "b"}, pub, err
	})
	signCase("cmp-sign/n2t1", true, func() (*sess.Spec, []party.ID, ref.Pt, error) {
		w := getCMP(2, 1)
		if w.err != nil {
			return nil, nil, ref.Pt{}, w.err
		}
		return sess.CMPSign(w.orig, w.ids, msg32), w.ids, w.pub, nil
	})
	// an unusually large (but legal) group: a key of 70 share holders dealt with the library's own polynomial
	// arithmetic; the stored configuration of a member must restore to an equal object
	cases = append(cases, rtCase{Name: "rt|frost.Config|large-group-n70", run: func() []finding {
		kf := kinds["frost.Config"]
		g := sess.Group
		var ids []party.ID
		for i := 0; i < 70; i++ {
			ids = append(ids, party.ID(fmt.Sprintf("member-%02d", i)))
		}
		drv.Use(drv.NewDRBG("c15-large-group", *vkit.Seed))
		secret := sample.Scalar(rand.Reader, g)
		f := polynomial.NewPolynomial(g, 2, secret)
		shares := map[party.ID]curve.Point{}
		for _, id := range ids {
			shares[id] = f.Evaluate(id.Scalar(g)).ActOnBase()
		}
		ck := make([]byte, 32)
		ck[0] = 7
		cfg := &frost.Config{ID: ids[3], Threshold: 2, PrivateShare: f.Evaluate(ids[3].Scalar(g)), PublicKey: secret.ActOnBase(), ChainKey: ck, VerificationShares: party.NewPointMap(shares)}
		rest, _, fs := throughCodec(kf, cfg)
		if rest == nil {
			return append(fs, finding{rtSig(kf.name, "large group cannot be restored"), "the stored configuration of a member of a 70-party key does not restore"})
		}
		va, ea := oracle.ViewOf(cfg)
		vb, eb := oracle.ViewOf(rest)
		if ea != nil || eb != nil || len(va.Shares) != 70 || len(vb.Shares) != 70 || !va.Public.Equal(vb.Public) || va.Secret.Cmp(vb.Secret) != 0 {
			return append(fs, finding{rtSig(kf.name, "large group differs after restore"), fmt.Sprintf("70-party configuration: %v %v, %d/%d table entries", ea, eb, len(va.Shares), len(vb.Shares))})
		}
		for id, pnt := range va.Shares {
			if q, ok := vb.Shares[id]; !ok || !q.Equal(pnt) {
				return append(fs, finding{rtSig(kf.name, "large group differs after restore"), "table entry of " + id + " differs"})
			}
		}
		return fs
	}})
	// abort notices (round 0) are wire messages of the library too: what a party emits when it is stopped, or when it
	// detects a fault, must survive the codec, and the peer that is given the restored notice must end with an error
	for _, two := range []bool{false, true} {
		two := two
		name := "abort-notice/multi"
		if two {
			name = "abort-notice/two-party"
		}
		cases = append(cases, rtCase{Name: "rt|protocol.Message|use|" + name, run: func() []finding {
			var spec *sess.Spec
			if two {
				spec = sess.DoernerKeygen("a", "b")
			} else {
				spec = sess.FrostKeygen(ids3, 1, false)
			}
			net, startErr := sess.Build(spec, *vkit.Seed, "c15-abort")
			if len(startErr) > 0 {
				return []finding{{"harness|abort-notice", fmt.Sprint(startErr)}}
			}
			a := net.Parties[spec.IDs[0]]
			before := len(a.Sent)
			a.Guard(func() { a.H.Stop() })
			var fs []finding
			n := 0
			for _, m := range a.Sent[before:] {
				n++
				rest, _, f := throughCodec(k, m)
				fs = append(fs, f...)
				if rest == nil {
					fs = append(fs, finding{rtSig(k.name, "abort notice cannot be restored"), fmt.Sprintf("%s: the message a stopped handler emits (%s) does not survive MarshalBinary+UnmarshalBinary", name, m)})
					continue
				}
				m2 := rest.(*protocol.Message)
				if d := msgEqual(m, m2); len(d) > 0 {
					fs = append(fs, finding{rtSig(k.name, "abort notice differs after restore"), fmt.Sprintf("%s: fields %v differ", name, d)})
				}
				for _, id := range spec.IDs[1:] {
					if m2.IsFor(id) {
						p := net.Parties[id]
						p.Deliver(m2)
						if p.Status() != "error" {
							fs = append(fs, finding{rtSig(k.name, "restored abort notice has no effect"), fmt.Sprintf("%s: party %s is %s after being given the restored abort notice of %s", name, id, p.Status(), spec.IDs[0])})
						}
					}
				}
			}
			wireMessages += n
			if n == 0 {
				fs = append(fs, finding{"harness|abort-notice", name + ": Stop emitted no message"})
			}
			return fs
		}})
	}
	// key generation sessions: the results must form one consistent sharing
	for _, tap := range []bool{false, true} {
		tap := tap
		name := "frost-keygen/n3t1"
		if tap {
			name = "frost-keygen-taproot/n3t1"
		}
		cases = append(cases, rtCase{Name: "rt|protocol.Message|use|" + name, run: func() []finding {
			o, n, fs := runThroughWire(sess.FrostKeygen(ids3, 1, tap), "c15-wire")
			wireMessages += n
			sig := rtSig(k.name, "unusable: keygen with restored material fails")
			if o.Panic != "" || o.Hung != "" || !o.AllDone(ids3) {
				return append(fs, finding{sig, fmt.Sprintf("%s with every message restored from its wire form does not complete: errors=%v stuck=%v panic=%q", name, o.Errors, o.Stuck, o.Panic)})
			}
			views := map[string]*oracle.View{}
			for _, id := range ids3 {
				v, err := oracle.ViewOf(o.Results[id])
				if err != nil {
					return append(fs, finding{sig, err.Error()})
				}
				views[string(id)] = v
			}
			if errs := oracle.CheckSharing(views, 1); len(errs) > 0 {
				fs = append(fs, finding{sig, fmt.Sprintf("%s: %v", name, errs)})
			}
			return fs
		}})
	}
	cases = append(cases, rtCase{Name: "rt|protocol.Message|use|doerner-keygen", run: func() []finding {
		o, n, fs := runThroughWire(sess.DoernerKeygen("a", "b"), "c15-wire")
		wireMessages += n
		sig := rtSig(k.name, "unusable: keygen with restored material fails")
		r, ok1 := o.Results["a"].(*doerner.ConfigReceiver)
		s, ok2 := o.Results["b"].(*doerner.ConfigSender)
		if !ok1 || !ok2 {
			return append(fs, finding{sig, fmt.Sprintf("doerner keygen with every message restored from its wire form does not complete: errors=%v stuck=%v panic=%q", o.Errors, o.Stuck, o.Panic)})
		}
		if errs := oracle.CheckDoerner(r, s); len(errs) > 0 {
			fs = append(fs, finding{sig, fmt.Sprint(errs)})
		}
		return fs
	}})
	return cases
}

func roundTripCases() []rtCase {
	var cases []rtCase
	for _, nt := range [][2]int{{2, 1}, {3, 1}, {3, 2}} {
		cases = append(cases, frostCases(nt[0], nt[1], false)...)
		cases = append(cases, frostCases(nt[0], nt[1], true)...)
	}
	cases = append(cases, doernerCases()...)
	cases = append(cases, signatureCase())
	cases = append(cases, messageCases()...)
	cases = append(cases, cmpCases(2, 1)...)
	if vkit.Thorough() {
		cases = append(cases, cmpCases(3, 1)...)
	}
	return cases
}
