package main

import (
	"fmt"

	"github.com/fxamacker/cbor/v2"
	"github.com/taurusgroup/multi-party-sig/pkg/ecdsa"
	"github.com/taurusgroup/multi-party-sig/pkg/math/curve"
	"github.com/taurusgroup/multi-party-sig/pkg/party"
	"github.com/taurusgroup/multi-party-sig/pkg/protocol"
	"github.com/taurusgroup/multi-party-sig/protocols/cmp"
	"github.com/taurusgroup/multi-party-sig/protocols/doerner"
	"github.com/taurusgroup/multi-party-sig/protocols/frost"
)

var grp = curve.Secp256k1{}

// kind is one result type with its documented codec, the test for "nothing was restored" and
// the independent validity rules.
type kind struct {
	name    string
	restore func(b []byte) (interface{}, error)
	encode  func(obj interface{}) ([]byte, error)
	empty   func(obj interface{}) bool
	rules   func(obj interface{}, input []byte) []string
	// reload restores b into an object that already holds valid material (a process that keeps one live
	// configuration and reloads it from its store); nil: the codec has no in-place form
	reload  func(obj interface{}, b []byte) error
	costly  bool // restore validates primes (milliseconds)
	wrapped bool // the encoding is a byte string around another kind's encoding: light catalogue in the quick tier
}

func zeroScalar(s interface{}) bool {
	st, _ := scState(s)
	return st == "zero" || st == "missing"
}

func identityPoint(p interface{}) bool {
	st, _ := ptState(p)
	return st == "identity" || st == "missing"
}

var kinds = map[string]*kind{}
var kindOrder []string

func register(k *kind) {
	kinds[k.name] = k
	kindOrder = append(kindOrder, k.name)
}

func init() {
	register(&kind{
		name: "frost.Config",
		restore: func(b []byte) (interface{}, error) {
			c := frost.EmptyConfig(grp)
			if err := cbor.Unmarshal(b, c); err != nil {
				return nil, err
			}
			return c, nil
		},
		reload: func(o interface{}, b []byte) error { return cbor.Unmarshal(b, o.(*frost.Config)) },
		encode: func(o interface{}) ([]byte, error) { return cbor.Marshal(o.(*frost.Config)) },
		empty: func(o interface{}) bool {
			c := o.(*frost.Config)
			return c.ID == "" && c.Threshold == 0 && zeroScalar(c.PrivateShare) && identityPoint(c.PublicKey) && len(c.ChainKey) == 0 &&
				(c.VerificationShares == nil || len(c.VerificationShares.Points) == 0)
		},
		rules: func(o interface{}, in []byte) []string { return frostRules(o.(*frost.Config), in) },
	})
	register(&kind{
		name: "frost.TaprootConfig",
		restore: func(b []byte) (interface{}, error) {
			c := &frost.TaprootConfig{}
			if err := cbor.Unmarshal(b, c); err != nil {
				return nil, err
			}
			return c, nil
		},
		reload: func(o interface{}, b []byte) error { return cbor.Unmarshal(b, o.(*frost.TaprootConfig)) },
		encode: func(o interface{}) ([]byte, error) { return cbor.Marshal(o.(*frost.TaprootConfig)) },
		empty: func(o interface{}) bool {
			c := o.(*frost.TaprootConfig)
			return c.ID == "" && c.Threshold == 0 && zeroScalar(c.PrivateShare) && len(c.PublicKey) == 0 && len(c.ChainKey) == 0 && len(c.VerificationShares) == 0
		},
		rules: func(o interface{}, in []byte) []string { return taprootRules(o.(*frost.TaprootConfig), in) },
	})
	register(&kind{
		name: "doerner.ConfigReceiver",
		restore: func(b []byte) (interface{}, error) {
			c := doerner.EmptyConfigReceiver(grp)
			if err := cbor.Unmarshal(b, c); err != nil {
				return nil, err
			}
			return c, nil
		},
		reload: func(o interface{}, b []byte) error { return cbor.Unmarshal(b, o.(*doerner.ConfigReceiver)) },
		encode: func(o interface{}) ([]byte, error) { return cbor.Marshal(o.(*doerner.ConfigReceiver)) },
		empty: func(o interface{}) bool {
			c := o.(*doerner.ConfigReceiver)
			return zeroScalar(c.SecretShare) && identityPoint(c.Public) && len(c.ChainKey) == 0 && setupState(c.Setup) != ""
		},
		rules: func(o interface{}, in []byte) []string { return doernerRRules(o.(*doerner.ConfigReceiver), in) },
	})
	register(&kind{
		name: "doerner.ConfigSender",
		restore: func(b []byte) (interface{}, error) {
			c := doerner.EmptyConfigSender(grp)
			if err := cbor.Unmarshal(b, c); err != nil {
				return nil, err
			}
			return c, nil
		},
		reload: func(o interface{}, b []byte) error { return cbor.Unmarshal(b, o.(*doerner.ConfigSender)) },
		encode: func(o interface{}) ([]byte, error) { return cbor.Marshal(o.(*doerner.ConfigSender)) },
		empty: func(o interface{}) bool {
			c := o.(*doerner.ConfigSender)
			return zeroScalar(c.SecretShare) && identityPoint(c.Public) && len(c.ChainKey) == 0 && setupState(c.Setup) != ""
		},
		rules: func(o interface{}, in []byte) []string { return doernerSRules(o.(*doerner.ConfigSender), in) },
	})
	cmpEmpty := func(o interface{}) bool {
		c := o.(*cmp.Config)
		return c.ID == "" && c.Threshold == 0 && isNil(c.ECDSA) && isNil(c.ElGamal) && c.Paillier == nil && len(c.RID) == 0 && len(c.ChainKey) == 0 && len(c.Public) == 0
	}
	register(&kind{
		name: "cmp.Config",
		restore: func(b []byte) (interface{}, error) {
			c := cmp.EmptyConfig(grp)
			if err := c.UnmarshalBinary(b); err != nil {
				return nil, err
			}
			return c, nil
		},
		reload: func(o interface{}, b []byte) error { return o.(*cmp.Config).UnmarshalBinary(b) },
		encode: func(o interface{}) ([]byte, error) { return o.(*cmp.Config).MarshalBinary() },
		empty:  cmpEmpty,
		rules:  func(o interface{}, in []byte) []string { return cmpRules(o.(*cmp.Config), in) },
		costly: true,
	})
	register(&kind{
		name: "cmp.Config(cbor)",
		restore: func(b []byte) (interface{}, error) {
			c := cmp.EmptyConfig(grp)
			if err := cbor.Unmarshal(b, c); err != nil {
				return nil, err
			}
			return c, nil
		},
		encode: func(o interface{}) ([]byte, error) { return cbor.Marshal(o.(*cmp.Config)) },
		empty:  cmpEmpty,
		rules: func(o interface{}, in []byte) []string {
			var inner []byte
			_ = lenientDec.Unmarshal(in, &inner)
			return cmpRules(o.(*cmp.Config), inner)
		},
		costly:  true,
		wrapped: true,
	})
	register(&kind{
		name: "ecdsa.PreSignature",
		// the documented restore is cbor into EmptyPreSignature followed by Validate (what cmp.PresignOnline does)
		restore: func(b []byte) (interface{}, error) {
			p := ecdsa.EmptyPreSignature(grp)
			if err := cbor.Unmarshal(b, p); err != nil {
				return nil, err
			}
			if err := p.Validate(); err != nil {
				return nil, err
			}
			return p, nil
		},
		reload: func(o interface{}, b []byte) error {
			if err := cbor.Unmarshal(b, o.(*ecdsa.PreSignature)); err != nil {
				return err
			}
			return o.(*ecdsa.PreSignature).Validate()
		},
		encode: func(o interface{}) ([]byte, error) { return cbor.Marshal(o.(*ecdsa.PreSignature)) },
		empty: func(o interface{}) bool {
			p := o.(*ecdsa.PreSignature)
			return len(p.ID) == 0 && identityPoint(p.R) && zeroScalar(p.KShare) && zeroScalar(p.ChiShare) &&
				(p.RBar == nil || len(p.RBar.Points) == 0) && (p.S == nil || len(p.S.Points) == 0)
		},
		rules: func(o interface{}, in []byte) []string { return presigRules(o.(*ecdsa.PreSignature), in) },
	})
	register(&kind{
		name: "ecdsa.Signature",
		restore: func(b []byte) (interface{}, error) {
			s := ecdsa.EmptySignature(grp)
			if err := cbor.Unmarshal(b, &s); err != nil {
				return nil, err
			}
			return &s, nil
		},
		encode: func(o interface{}) ([]byte, error) { return cbor.Marshal(o.(*ecdsa.Signature)) },
		empty: func(o interface{}) bool {
			s := o.(*ecdsa.Signature)
			return identityPoint(s.R) && zeroScalar(s.S)
		},
		rules: func(o interface{}, in []byte) []string { return signatureRules(o.(*ecdsa.Signature), in) },
	})
	register(&kind{
		name: "protocol.Message",
		restore: func(b []byte) (interface{}, error) {
			m := new(protocol.Message)
			if err := m.UnmarshalBinary(b); err != nil {
				return nil, err
			}
			return m, nil
		},
		encode: func(o interface{}) ([]byte, error) { return o.(*protocol.Message).MarshalBinary() },
		empty: func(o interface{}) bool {
			m := o.(*protocol.Message)
			return len(m.SSID) == 0 && m.From == "" && m.To == "" && m.Protocol == "" && m.RoundNumber == 0 && len(m.Data) == 0 && !m.Broadcast && len(m.BroadcastVerification) == 0
		},
		rules: func(o interface{}, in []byte) []string { return messageRules(o.(*protocol.Message), in) },
	})
}

// instance is one valid encoding of a kind.
type instance struct {
	kind  *kind
	label string // e.g. n3t1/a
	n, t  int
	id    party.ID
	ids   []party.ID
	valid []byte // canonical form of the documented encoding
	tree  *tree
}

func (in *instance) name() string { return in.kind.name + "/" + in.label }

func newInstance(k *kind, label string, n, t int, id party.ID, obj interface{}) (*instance, error) {
	b, err := k.encode(obj)
	if err != nil {
		return nil, fmt.Errorf("%s/%s: encoder fails: %v", k.name, label, err)
	}
	cb, ok := canonBytes(b)
	if !ok {
		return nil, fmt.Errorf("%s/%s: encoder output is not one CBOR item", k.name, label)
	}
	tr, err := parseTree(cb)
	if err != nil {
		return nil, err
	}
	in := &instance{kind: k, label: label, n: n, t: t, id: id, valid: cb, tree: tr}
	// the canonical form must itself restore to a rule-valid object: otherwise nothing below means anything
	o, err := k.restore(cb)
	if err != nil {
		return nil, fmt.Errorf("%s/%s: canonical form of the valid encoding does not restore: %v", k.name, label, err)
	}
	_ = o
	return in, nil
}
