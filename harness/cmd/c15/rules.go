package main

// Independent validity checker, written from the property text: non-zero secrets, points that
// are on the curve and not the identity, moduli of the right size and odd, 0 <= threshold <
// number of parties, own id present, table entries for the parties, share*G == own table entry.
// Values are read through the objects' byte encodings and judged with math/big and package ref.

import (
	"bytes"
	"encoding"
	"fmt"
	"math/big"
	"reflect"
	"sort"
	"sync"
	"unsafe"

	"github.com/fxamacker/cbor/v2"
	"github.com/taurusgroup/multi-party-sig/internal/zzverif/ref"
	"github.com/taurusgroup/multi-party-sig/internal/zzverif/vkit"
	"github.com/taurusgroup/multi-party-sig/pkg/ecdsa"
	"github.com/taurusgroup/multi-party-sig/pkg/math/curve"
	"github.com/taurusgroup/multi-party-sig/pkg/party"
	"github.com/taurusgroup/multi-party-sig/pkg/protocol"
	"github.com/taurusgroup/multi-party-sig/protocols/cmp"
	"github.com/taurusgroup/multi-party-sig/protocols/doerner"
	"github.com/taurusgroup/multi-party-sig/protocols/frost"
)

func isNil(v interface{}) bool {
	if v == nil {
		return true
	}
	rv := reflect.ValueOf(v)
	switch rv.Kind() {
	case reflect.Ptr, reflect.Map, reflect.Slice, reflect.Interface:
		return rv.IsNil()
	}
	return false
}

// ptState classifies a library point through its encoding: "" (a proper curve point), "missing", "identity", "not on curve".
func ptState(p interface{}) (string, ref.Pt) {
	if isNil(p) {
		return "missing", ref.Pt{}
	}
	m, ok := p.(ref.Marshaler)
	if !ok {
		return "missing", ref.Pt{}
	}
	var b []byte
	var err error
	if panicked, _, _ := vkit.Try(func() { b, err = m.MarshalBinary() }); panicked || err != nil {
		return "not on curve", ref.Pt{}
	}
	pt, perr := ref.ParseCompressed(b)
	if perr != nil {
		if len(b) == 33 && new(big.Int).SetBytes(b[1:]).Sign() == 0 {
			return "identity", ref.Pt{}
		}
		return "not on curve", ref.Pt{}
	}
	return "", pt
}

// scState classifies a scalar: "" (in [1,q-1]), "missing", "zero", "out of range".
func scState(s interface{}) (string, *big.Int) {
	if isNil(s) {
		return "missing", nil
	}
	m, ok := s.(ref.Marshaler)
	if !ok {
		return "missing", nil
	}
	var b []byte
	var err error
	if panicked, _, _ := vkit.Try(func() { b, err = m.MarshalBinary() }); panicked || err != nil {
		return "missing", nil
	}
	x := new(big.Int).SetBytes(b)
	if x.Sign() == 0 {
		return "zero", x
	}
	if x.Cmp(ref.N) >= 0 {
		return "out of range", x
	}
	return "", x
}

type ruleset struct{ broken []string }

func (r *ruleset) add(format string, a ...interface{}) {
	s := fmt.Sprintf(format, a...)
	for _, b := range r.broken {
		if b == s {
			return
		}
	}
	r.broken = append(r.broken, s)
}

// sharingRules: the rules common to FROST and Taproot material.
func sharingRules(r *ruleset, id party.ID, threshold int, secret interface{}, table map[string]interface{}) {
	if id == "" {
		r.add("own id empty")
	}
	st, x := scState(secret)
	if st != "" {
		r.add("secret share %s", st)
	}
	if len(table) == 0 {
		r.add("share table empty")
	}
	var own ref.Pt
	ownOK := false
	keys := make([]string, 0, len(table))
	for k := range table {
		keys = append(keys, k)
	}
	sort.Strings(keys)
	for _, k := range keys {
		if k == "" {
			r.add("empty party id in the share table")
		}
		ps, pt := ptState(table[k])
		if ps != "" {
			r.add("share table entry %s", ps)
		} else if k == string(id) {
			own, ownOK = pt, true
		}
	}
	if _, ok := table[string(id)]; !ok && len(table) > 0 {
		r.add("own entry missing from the share table")
	}
	if threshold < 0 {
		r.add("threshold negative")
	} else if len(table) > 0 && threshold >= len(table) {
		r.add("threshold not below the number of parties")
	}
	if ownOK && st == "" && !ref.MulG(x).Equal(own) {
		r.add("secret share does not match own table entry")
	}
}

// chainKeyRule: the sizes of chain keys and RIDs of configurations are not among the validity
// rules of the property text (secrets, points, moduli, threshold, parties) and are not judged.
func chainKeyRule(r *ruleset, ck []byte) {}

func frostRules(c *frost.Config, input []byte) []string {
	r := &ruleset{}
	table := map[string]interface{}{}
	if c.VerificationShares == nil {
		r.add("share table missing")
	} else {
		for k, v := range c.VerificationShares.Points {
			table[string(k)] = v
		}
	}
	sharingRules(r, c.ID, c.Threshold, c.PrivateShare, table)
	if ps, _ := ptState(c.PublicKey); ps != "" {
		r.add("public key %s", ps)
	}
	chainKeyRule(r, c.ChainKey)
	if tableHasDuplicate(input, "VerificationShares") {
		r.add("duplicate party in the encoded table")
	}
	missingFromTable(r, input, "VerificationShares", func(k string) bool { _, ok := table[k]; return ok })
	return r.broken
}

func taprootRules(c *frost.TaprootConfig, input []byte) []string {
	r := &ruleset{}
	table := map[string]interface{}{}
	for k, v := range c.VerificationShares {
		table[string(k)] = v
	}
	sharingRules(r, c.ID, c.Threshold, c.PrivateShare, table)
	if len(c.PublicKey) != 32 {
		if len(c.PublicKey) == 0 {
			r.add("public key missing")
		} else {
			r.add("public key of wrong size")
		}
	} else if _, err := ref.LiftX(new(big.Int).SetBytes(c.PublicKey)); err != nil {
		r.add("public key not on curve")
	}
	chainKeyRule(r, c.ChainKey)
	if tableHasDuplicate(input, "VerificationShares") {
		r.add("duplicate party in the encoded table")
	}
	missingFromTable(r, input, "VerificationShares", func(k string) bool { _, ok := table[k]; return ok })
	return r.broken
}

// ---- CMP ------------------------------------------------------------------------------------

var primeMemo sync.Map

func probablyPrime(x *big.Int) bool {
	k := string(x.Bytes())
	if v, ok := primeMemo.Load(k); ok {
		return v.(bool)
	}
	v := x.ProbablyPrime(8)
	primeMemo.Store(k, v)
	return v
}

func natBig(n interface{ Big() *big.Int }) *big.Int {
	if isNil(n) {
		return nil
	}
	var out *big.Int
	if panicked, _, _ := vkit.Try(func() { out = n.Big() }); panicked {
		return nil
	}
	return out
}

const bitsPaillier = 2048

func modulusRules(r *ruleset, who string, n *big.Int) bool {
	if n == nil {
		r.add("paillier modulus missing (%s)", who)
		return false
	}
	ok := true
	if n.BitLen() != bitsPaillier {
		r.add("paillier modulus of wrong size (%s)", who)
		ok = false
	}
	if n.Bit(0) == 0 {
		r.add("paillier modulus even (%s)", who)
		ok = false
	}
	return ok
}

func pedersenRules(r *ruleset, who string, n, s, t *big.Int) {
	if n == nil || s == nil || t == nil {
		r.add("pedersen parameters missing (%s)", who)
		return
	}
	one := big.NewInt(1)
	for _, v := range []*big.Int{s, t} {
		if v.Sign() <= 0 || v.Cmp(n) >= 0 {
			r.add("pedersen parameter outside [1,N-1] (%s)", who)
		} else if v.Cmp(one) == 0 {
			r.add("pedersen parameter equals 1 (%s)", who)
		} else if new(big.Int).GCD(nil, nil, v, n).Cmp(one) != 0 {
			r.add("pedersen parameter not coprime to N (%s)", who)
		}
	}
	if s.Cmp(t) == 0 {
		r.add("pedersen parameters s = t (%s)", who)
	}
}

func ridRule(r *ruleset, name string, b []byte, mayBeEmpty bool) {
	if len(b) == 0 && mayBeEmpty {
		return
	}
	if len(b) != 32 {
		r.add("%s of wrong size", name)
		return
	}
	if bytes.Equal(b, make([]byte, 32)) {
		r.add("%s all zero", name)
	}
}

func cmpRules(c *cmp.Config, input []byte) []string {
	r := &ruleset{}
	if c.ID == "" {
		r.add("own id empty")
	}
	n := len(c.Public)
	if n == 0 {
		r.add("party table empty")
	}
	if c.Threshold < 0 {
		r.add("threshold negative")
	} else if n > 0 && c.Threshold >= n {
		r.add("threshold not below the number of parties")
	}
	es, ex := scState(c.ECDSA)
	if es != "" {
		r.add("secret share %s", es)
	}
	gs, gx := scState(c.ElGamal)
	if gs != "" {
		r.add("elgamal secret %s", gs)
	}
	var ownN *big.Int
	if c.Paillier == nil {
		r.add("paillier secret key missing")
	} else {
		p, q := natBig(c.Paillier.P()), natBig(c.Paillier.Q())
		if p == nil || q == nil {
			r.add("paillier secret key missing")
		} else {
			for _, f := range []*big.Int{p, q} {
				if f.BitLen() != bitsPaillier/2 {
					r.add("paillier prime of wrong size")
				} else if f.Bit(0) == 0 {
					r.add("paillier prime even")
				} else if !probablyPrime(f) {
					r.add("paillier prime factor is composite")
				}
			}
			if p.Cmp(q) == 0 {
				r.add("paillier modulus is a square (p = q)")
			}
			ownN = new(big.Int).Mul(p, q)
		}
	}
	ids := make([]string, 0, n)
	for id := range c.Public {
		ids = append(ids, string(id))
	}
	sort.Strings(ids)
	for _, id := range ids {
		p := c.Public[party.ID(id)]
		who := "other party"
		if id == string(c.ID) {
			who = "own entry"
		}
		if id == "" {
			r.add("empty party id in the party table")
		}
		if p == nil {
			r.add("party entry missing (%s)", who)
			continue
		}
		ps, ept := ptState(p.ECDSA)
		if ps != "" {
			r.add("public share %s (%s)", ps, who)
		}
		gs2, gpt := ptState(p.ElGamal)
		if gs2 != "" {
			r.add("elgamal key %s (%s)", gs2, who)
		}
		var pn *big.Int
		if p.Paillier != nil {
			pn = natBig(p.Paillier.N())
		}
		modulusRules(r, who, pn)
		if p.Pedersen == nil {
			r.add("pedersen parameters missing (%s)", who)
		} else {
			dn, ds, dt := natBig(p.Pedersen.N()), natBig(p.Pedersen.S()), natBig(p.Pedersen.T())
			pedersenRules(r, who, dn, ds, dt)
			if dn != nil && pn != nil && dn.Cmp(pn) != 0 {
				r.add("pedersen modulus differs from the paillier modulus (%s)", who)
			}
		}
		if who == "own entry" {
			if ps == "" && es == "" && !ref.MulG(ex).Equal(ept) {
				r.add("secret share does not match own table entry")
			}
			if gs2 == "" && gs == "" && !ref.MulG(gx).Equal(gpt) {
				r.add("elgamal secret does not match own table entry")
			}
			if ownN != nil && pn != nil && ownN.Cmp(pn) != 0 {
				r.add("own paillier modulus is not p*q")
			}
		}
	}
	if _, ok := c.Public[c.ID]; !ok && n > 0 {
		r.add("own entry missing from the party table")
	}
	if listHasDuplicate(input, "Public") {
		r.add("duplicate party in the encoded table")
	}
	return r.broken
}

// ---- presignature, signature -------------------------------------------------------------------

func presigRules(p *ecdsa.PreSignature, input []byte) []string {
	r := &ruleset{}
	if ps, _ := ptState(p.R); ps != "" {
		r.add("R %s", ps)
	}
	tab := func(name string, m *party.PointMap) map[string]bool {
		ids := map[string]bool{}
		if m == nil {
			r.add("%s table missing", name)
			return ids
		}
		keys := make([]string, 0, len(m.Points))
		for k := range m.Points {
			keys = append(keys, string(k))
		}
		sort.Strings(keys)
		for _, k := range keys {
			ids[k] = true
			if ps, _ := ptState(m.Points[party.ID(k)]); ps != "" {
				r.add("%s entry %s", name, ps)
			}
			if k == "" {
				r.add("empty party id in the %s table", name)
			}
		}
		if len(keys) == 0 {
			r.add("%s table empty (no signers)", name)
		}
		return ids
	}
	a, b := tab("RBar", p.RBar), tab("S", p.S)
	for k := range a {
		if !b[k] {
			r.add("S entry missing for a signer")
		}
	}
	for k := range b {
		if !a[k] {
			r.add("RBar entry missing for a signer")
		}
	}
	ridRule(r, "presignature id", p.ID, false)
	if s, _ := scState(p.KShare); s != "" {
		r.add("k share %s", s)
	}
	if s, _ := scState(p.ChiShare); s != "" {
		r.add("chi share %s", s)
	}
	if tableHasDuplicate(input, "RBar") || tableHasDuplicate(input, "S") {
		r.add("duplicate party in the encoded table")
	}
	missingFromTable(r, input, "RBar", func(k string) bool { return a[k] })
	missingFromTable(r, input, "S", func(k string) bool { return b[k] })
	return r.broken
}

func signatureRules(s *ecdsa.Signature, input []byte) []string {
	r := &ruleset{}
	ps, pt := ptState(s.R)
	if ps != "" {
		r.add("R %s", ps)
	} else if new(big.Int).Mod(pt.X, ref.N).Sign() == 0 {
		r.add("r is zero")
	}
	if st, _ := scState(s.S); st != "" {
		r.add("s %s", st)
	}
	return r.broken
}

// ---- Doerner --------------------------------------------------------------------------------

// rawMemory returns the bytes of the struct a non-nil pointer points to (the OT setups consist of byte arrays only).
func rawMemory(p interface{}) []byte {
	v := reflect.ValueOf(p)
	if v.Kind() != reflect.Ptr || v.IsNil() {
		return nil
	}
	e := v.Elem()
	return unsafe.Slice((*byte)(unsafe.Pointer(e.UnsafeAddr())), int(e.Type().Size()))
}

func setupState(p interface{}) string {
	m := rawMemory(p)
	if m == nil {
		return "missing"
	}
	for _, b := range m {
		if b != 0 {
			return ""
		}
	}
	return "all zero"
}

func doernerRules(secret, public, setup interface{}, chainKey []byte) []string {
	r := &ruleset{}
	if s, _ := scState(secret); s != "" {
		r.add("secret share %s", s)
	}
	if ps, _ := ptState(public); ps != "" {
		r.add("public key %s", ps)
	}
	if s := setupState(setup); s != "" {
		r.add("OT setup %s", s)
	}
	chainKeyRule(r, chainKey)
	return r.broken
}

// setupSizeRule: an OT setup is a fixed-size block of byte arrays; the encoding's Setup field must
// have exactly the size of the block the restored object holds (a longer field means the decoder
// ignored part of what was stored - wrong-size material, e.g. the other role's setup).
func setupSizeRule(broken []string, setup interface{}, input []byte) []string {
	var m map[string]cbor.RawMessage
	if cbor.Unmarshal(input, &m) != nil {
		return broken
	}
	var b []byte
	if raw, ok := m["Setup"]; !ok || cbor.Unmarshal(raw, &b) != nil {
		return broken
	}
	// the size a setup of this role has: the length of the object's own encoding (robust against fields
	// that are not serialised); the raw size of the struct if it has no encoder
	want := -1
	if bm, ok := setup.(encoding.BinaryMarshaler); ok && !isNil(setup) {
		if enc, err := bm.MarshalBinary(); err == nil {
			want = len(enc)
		}
	}
	if want < 0 {
		if mem := rawMemory(setup); mem != nil {
			want = len(mem)
		}
	}
	if want >= 0 && len(b) != want {
		broken = append(broken, "OT setup of the wrong size (the encoding's Setup field is not exactly as long as the setup block of this role)")
	}
	return broken
}

func doernerRRules(c *doerner.ConfigReceiver, input []byte) []string {
	return setupSizeRule(doernerRules(c.SecretShare, c.Public, c.Setup, c.ChainKey), c.Setup, input)
}

func doernerSRules(c *doerner.ConfigSender, input []byte) []string {
	return setupSizeRule(doernerRules(c.SecretShare, c.Public, c.Setup, c.ChainKey), c.Setup, input)
}

// ---- wire message ---------------------------------------------------------------------------------

// messageRules: a wire message has no validity rules of its own (the handlers judge its content);
// what is demanded of UnmarshalBinary is that it does not accept what is not an encoding at all
// and never reports success while leaving the message empty (judged by the caller).
func messageRules(m *protocol.Message, input []byte) []string {
	r := &ruleset{}
	// well-formedness only (RFC 8949 section 5.3.1): the first item is read as raw bytes
	var raw cbor.RawMessage
	if err := lenientDec.NewDecoder(bytes.NewReader(input)).Decode(&raw); err != nil || len(raw) == 0 {
		r.add("accepted an input that is not well-formed CBOR")
		return r.broken
	}
	if major := raw[0] >> 5; major != 5 && raw[0] != 0xf6 && raw[0] != 0xf7 {
		r.add("accepted an input that is not a CBOR map")
	}
	return r.broken
}

// curve import is used by kinds.go; keep the compiler quiet if this file is built alone.
var _ curve.Curve = curve.Secp256k1{}
