// c15 — stored key material round-trips; malformed material is refused.
//
// Part 1 (engine D): every result type is encoded, restored, compared with the original through
// independent views, re-encoded and used in later protocol runs.
// Part 2 (engine C): every node of the valid encoding x structural operator menu, semantic
// rule-breakers, every proper prefix, single-bit flips, seeded random corruptions and a list of
// garbage inputs.  Oracle: restore returns an error, or an object that the independent validity
// checker (rules.go) accepts and that is not empty; never a panic.
package main

import (
	"bytes"
	"encoding/hex"
	"fmt"
	"os"
	"sort"
	"strings"
	"time"

	"github.com/taurusgroup/multi-party-sig/internal/zzverif/drv"
	"github.com/taurusgroup/multi-party-sig/internal/zzverif/faults"
	"github.com/taurusgroup/multi-party-sig/internal/zzverif/kmat"
	"github.com/taurusgroup/multi-party-sig/internal/zzverif/sess"
	"github.com/taurusgroup/multi-party-sig/internal/zzverif/vkit"
	"github.com/taurusgroup/multi-party-sig/pkg/ecdsa"
	"github.com/taurusgroup/multi-party-sig/pkg/party"
	"github.com/taurusgroup/multi-party-sig/pkg/protocol"
)

type kase struct {
	Class    string `json:"class"` // roundtrip | structural | semantic | prefix | bitflip | random | garbage
	Name     string `json:"name,omitempty"`
	Kind     string `json:"kind,omitempty"`
	Inst     string `json:"inst,omitempty"`
	Path     string `json:"path,omitempty"`
	Op       string `json:"op,omitempty"`
	Pos      int    `json:"pos,omitempty"`
	Rule     string `json:"aimed_at_rule,omitempty"`
	InputHex string `json:"input_hex,omitempty"`
}

func (k kase) key() string {
	return fmt.Sprintf("%s|%s|%s|%s|%s|%d", k.Kind, k.Inst, k.Class, k.Path, k.Op, k.Pos)
}

type verdict struct {
	outcome string // error | accepted-valid | accepted-identical | violation | harness
	fs      []finding
	err     string
}

// judge is the oracle of part 2.
func judge(k *kind, valid []byte, input []byte) verdict {
	var obj interface{}
	var err error
	if panicked, msg, frame := vkit.Try(func() { obj, err = k.restore(input) }); panicked {
		return verdict{outcome: "violation", fs: []finding{{panicSig(k.name, frame, msg), "restore panics: " + msg + " in " + frame}}}
	}
	if err != nil {
		return verdict{outcome: "error", err: err.Error()}
	}
	var empty bool
	var broken []string
	if panicked, msg, frame := vkit.Try(func() {
		empty = k.empty(obj)
		if !empty {
			broken = k.rules(obj, input)
		}
	}); panicked {
		return verdict{outcome: "harness", err: "the validity checker panics on an accepted object: " + msg + " in " + frame}
	}
	if empty {
		return verdict{outcome: "violation", fs: []finding{{"silently-empty|" + k.name, "restore returns no error and leaves the object empty (as created by the Empty* constructor)"}}}
	}
	if len(broken) > 0 {
		var fs []finding
		for _, b := range broken {
			fs = append(fs, finding{"restore-accepts|" + k.name + "|" + b, "restore returns no error for an object that breaks the rule: " + b + " (all rules broken: " + strings.Join(broken, "; ") + ")"})
		}
		return verdict{outcome: "violation", fs: fs}
	}
	out := "accepted-valid"
	if valid != nil {
		var enc []byte
		var eerr error
		if panicked, _, _ := vkit.Try(func() { enc, eerr = k.encode(obj) }); !panicked && eerr == nil {
			if c, ok := canonBytes(enc); ok && bytes.Equal(c, valid) {
				out = "accepted-identical"
			}
		}
	}
	return verdict{outcome: out}
}

// judgeLive: the input is restored into an object that holds the valid material already.
func judgeLive(k *kind, valid []byte, input []byte) verdict {
	live, err := k.restore(valid)
	if err != nil || live == nil {
		return verdict{outcome: "harness", err: "the valid encoding cannot be restored"}
	}
	if panicked, msg, frame := vkit.Try(func() { err = k.reload(live, input) }); panicked {
		return verdict{outcome: "violation", fs: []finding{{panicSig(k.name, frame, msg) + "|live-object", "restore into a live object panics: " + msg + " in " + frame}}}
	}
	if err != nil {
		return verdict{outcome: "error", err: err.Error()}
	}
	var broken []string
	if panicked, _, _ := vkit.Try(func() { broken = k.rules(live, input) }); panicked {
		return verdict{outcome: "error"} // the object is in a state the rule checker cannot read: judged by the fresh-object case only
	}
	if len(broken) > 0 {
		var fs []finding
		for _, b := range broken {
			fs = append(fs, finding{"restore-accepts|" + k.name + "|live-object|" + b, "bytes that a fresh object refuses are accepted without an error by an object that already held valid material, and the result breaks the rule: " + b})
		}
		return verdict{outcome: "violation", fs: fs}
	}
	return verdict{outcome: "accepted-valid"}
}

// ---- instances ------------------------------------------------------------------------------------

func buildInstances() ([]*instance, error) {
	var out []*instance
	add := func(k *kind, label string, n, t int, id party.ID, obj interface{}) error {
		in, err := newInstance(k, label, n, t, id, obj)
		if err != nil {
			return err
		}
		in.ids = kmat.IDs[:n]
		out = append(out, in)
		return nil
	}
	for _, nt := range [][2]int{{2, 1}, {3, 1}, {3, 2}} {
		n, t := nt[0], nt[1]
		fk, err := kmat.Frost(n, t)
		if err != nil {
			return nil, err
		}
		tk, err := kmat.Taproot(n, t)
		if err != nil {
			return nil, err
		}
		for _, id := range kmat.IDs[:n] {
			if err := add(kinds["frost.Config"], fmt.Sprintf("n%dt%d/%s", n, t, id), n, t, id, fk[id]); err != nil {
				return nil, err
			}
		}
		for _, id := range kmat.IDs[:n] {
			if err := add(kinds["frost.TaprootConfig"], fmt.Sprintf("n%dt%d/%s", n, t, id), n, t, id, tk[id]); err != nil {
				return nil, err
			}
		}
	}
	dk, err := kmat.Doerner()
	if err != nil {
		return nil, err
	}
	if err := add(kinds["doerner.ConfigReceiver"], "recv", 2, 1, "a", dk.R); err != nil {
		return nil, err
	}
	if err := add(kinds["doerner.ConfigSender"], "send", 2, 1, "b", dk.S); err != nil {
		return nil, err
	}
	o := sess.Run(sess.DoernerSign(dk.R, dk.S, "a", "b", msg32), *vkit.Seed, "c15-sig")
	sig, ok := o.Results["a"].(*ecdsa.Signature)
	if !ok {
		return nil, fmt.Errorf("doerner sign failed: %v %s", o.Errors, o.Panic)
	}
	if err := add(kinds["ecdsa.Signature"], "doerner", 2, 1, "a", sig); err != nil {
		return nil, err
	}
	// wire messages: a broadcast and a p2p message of FROST keygen, and a message that carries a broadcast hash
	ko := sess.Run(sess.FrostKeygen(kmat.IDs[:3], 1, false), *vkit.Seed, "c15-msg")
	var mb, mp, mv *protocol.Message
	for _, m := range ko.Net.Parties["a"].Sent {
		switch {
		case m.Broadcast && mb == nil:
			mb = m
		case m.To != "" && mp == nil:
			mp = m
		}
		if len(m.BroadcastVerification) > 0 && mv == nil && m != mp {
			mv = m
		}
	}
	for _, x := range []struct {
		l string
		m *protocol.Message
	}{{"frost-keygen/broadcast", mb}, {"frost-keygen/p2p", mp}, {"frost-keygen/with-broadcast-hash", mv}} {
		if x.m == nil {
			continue
		}
		if err := add(kinds["protocol.Message"], x.l, 3, 1, "a", x.m); err != nil {
			return nil, err
		}
	}
	nts := [][2]int{{2, 1}}
	if vkit.Thorough() {
		nts = append(nts, [2]int{3, 1})
	}
	for _, nt := range nts {
		n, t := nt[0], nt[1]
		w := getCMP(n, t)
		if w.err != nil {
			return nil, w.err
		}
		ids := []party.ID{"a"}
		if vkit.Thorough() && n == 2 {
			ids = append(ids, "b")
		}
		for _, id := range ids {
			if err := add(kinds["cmp.Config"], fmt.Sprintf("n%dt%d/%s", n, t, id), n, t, id, w.orig[id]); err != nil {
				return nil, err
			}
		}
		if n == 2 {
			if err := add(kinds["cmp.Config(cbor)"], fmt.Sprintf("n%dt%d/a", n, t), n, t, "a", w.orig["a"]); err != nil {
				return nil, err
			}
		}
		pre, err := w.presigs()
		if err != nil {
			return nil, err
		}
		if err := add(kinds["ecdsa.PreSignature"], fmt.Sprintf("n%dt%d/a", n, t), n, t, "a", pre["a"]); err != nil {
			return nil, err
		}
	}
	return out, nil
}

// ---- the corruption catalogue of one instance -----------------------------------------------------------

type emitFn func(class, path, op string, pos int, rule string, mk func() []byte)

func sortedOps(m map[string]interface{}) []string {
	names := make([]string, 0, len(m))
	for k := range m {
		names = append(names, k)
	}
	sort.Strings(names)
	return names
}

var garbage = [][]byte{{}, {0xf6}, {0xf7}, {0xa0}, {0x80}, {0x40}, {0x60}, {0x00}, {0x20}, {0xf4}, {0xf5}, {0xff}, {0xbf, 0xff}, {0x9f, 0xff}, {0x5f, 0xff}, {0xa1}, {0xa1, 0x60}, {0xc0, 0x00}, {0xfb}, {0x1b}, {0x58}, {0x41, 0xa0}, {0x42, 0xa0, 0xf6}}

// allInstances: every valid instance of every kind (for the cross-type corruptions).
var allInstances []*instance

func catalogue(in *instance, emit emitFn) {
	t := in.tree
	light := in.kind.wrapped && !vkit.Thorough()
	// (a) structural menu at every node
	for _, s := range t.sites() {
		s := s
		if light && s.Nested {
			continue
		}
		node := faults.Node{Path: s.Inner, Val: s.Val}
		if !s.Nested {
			node.Path = s.Outer
		}
		ops := faults.StructuralOps(node, false)
		for _, name := range sortedOps(ops) {
			name, val := name, ops[name]
			if name == "delete" {
				emit("structural", s.Path(), name, 0, "", func() []byte {
					b, ok := t.with(s, nil, true)
					if !ok {
						return nil
					}
					return b
				})
				continue
			}
			emit("structural", s.Path(), name, 0, "", func() []byte {
				b, ok := t.with(s, val, false)
				if !ok {
					return nil
				}
				return b
			})
		}
	}
	// (b) semantic rule-breakers
	ms := semanticMutants(in)
	sort.SliceStable(ms, func(i, j int) bool {
		if ms[i].Path != ms[j].Path {
			return ms[i].Path < ms[j].Path
		}
		return ms[i].Op < ms[j].Op
	})
	for i, m := range ms {
		if light && i%7 != 0 {
			continue
		}
		emit("semantic", m.Path, m.Op, 0, m.Rule, m.make)
	}
	// (c) every proper prefix
	stride := 1
	if light {
		stride = 16
	}
	for l := 0; l < len(in.valid); l++ {
		if l%stride != 0 && l >= 16 {
			continue
		}
		l := l
		emit("prefix", "", "prefix", l, "", func() []byte { return append([]byte{}, in.valid[:l]...) })
	}
	// (d) single-bit flips: one bit per byte (quick), every bit (thorough)
	for i := 0; i < len(in.valid); i++ {
		if light && i >= 16 && i%64 != 0 {
			continue
		}
		bits := []int{i % 8}
		if vkit.Thorough() {
			bits = []int{0, 1, 2, 3, 4, 5, 6, 7}
		}
		for _, b := range bits {
			i, b := i, b
			emit("bitflip", "", "bit", i*8+b, "", func() []byte {
				m := append([]byte{}, in.valid...)
				m[i] ^= 1 << uint(b)
				return m
			})
		}
	}
	// (e) seeded random corruptions
	k := 64
	if in.kind.costly {
		k = 32
	}
	if vkit.Thorough() {
		k *= 8
	}
	if light {
		k = 8
	}
	for j := 0; j < k; j++ {
		j := j
		emit("random", "", "random", j, "", func() []byte { return randomCorruption(in, j) })
	}
	// (f) garbage
	for j, g := range garbage {
		g := g
		emit("garbage", "", fmt.Sprintf("%x", g), j, "", func() []byte { return append([]byte{}, g...) })
	}
	// (g) the VALID encoding of an instance of every OTHER result type (stored blobs mixed up: the two Doerner
	// configurations, for instance, have the same field names and differ only in what their fields hold)
	for j, o := range allInstances {
		if o.kind == in.kind || o.n != in.n || o.t != in.t || o.id != in.id {
			continue
		}
		o := o
		emit("cross-type", "", o.kind.name, j, "", func() []byte { return append([]byte{}, o.valid...) })
	}
	for j, l := range []int{16, len(in.valid)} {
		l, j := l, j
		emit("garbage", "", fmt.Sprintf("random-%d-bytes", l), len(garbage)+j, "", func() []byte {
			b := make([]byte, l)
			drv.NewDRBG("c15-garbage|"+in.name(), *vkit.Seed).Read(b)
			return b
		})
	}
}

func randomCorruption(in *instance, j int) []byte {
	r := drv.NewDRBG(fmt.Sprintf("c15-random|%s|%d", in.name(), j), *vkit.Seed)
	var h [8]byte
	r.Read(h[:])
	n := len(in.valid)
	off := (int(h[0])<<16 | int(h[1])<<8 | int(h[2])) % n
	l := 1 + int(h[3])%16
	if off+l > n {
		l = n - off
	}
	rnd := make([]byte, l)
	r.Read(rnd)
	v := in.valid
	switch h[4] % 4 {
	case 0, 1: // overwrite a span
		m := append([]byte{}, v...)
		copy(m[off:], rnd)
		return m
	case 2: // insert
		m := append([]byte{}, v[:off]...)
		m = append(m, rnd...)
		return append(m, v[off:]...)
	default: // delete a span
		m := append([]byte{}, v[:off]...)
		return append(m, v[off+l:]...)
	}
}

// ---- main ------------------------------------------------------------------------------------------------

func main() {
	res := vkit.Init("C15")
	drv.Install()
	drv.CallTimeout = 90 * time.Second
	res.Rule = "part 1: one case = one result type x (n,t) x party, encoded with the documented encoder, restored into the Empty* value, compared with the original through independent views, re-encoded, and one signing / presign-online / wire session per choice of who uses restored material (each single party, all); part 2: one case = one corrupted encoding of one valid instance: (every node path incl. nested tables) x structural operator menu, semantic rule-breakers per validity rule, every proper prefix, single-bit flips (one per byte quick, all thorough), seeded random span corruptions, a garbage list; distinct = distinct (type, instance, class, path, operator, position)"
	res.Assumptions = []string{
		"restore = the documented way: cbor.Unmarshal into the Empty* value (cmp.Config: UnmarshalBinary and cbor; PreSignature: followed by Validate; protocol.Message: UnmarshalBinary)",
		"the validity checker is intrinsic to the restored object (plus duplicate detection on the encoded party tables); a consistent table with one foreign party removed or a flipped bit inside a random-looking field is not detectable by any restore and is not demanded",
		"sessions run in order with pool=nil under seeded per-party randomness",
	}

	var rp kase
	if vkit.LoadReplay(&rp) {
		os.Exit(replay(rp))
	}

	deadline := vkit.Deadline(100*time.Second, 22*time.Minute)
	outcomes := map[string]int{}
	acceptedBreakers := map[string]int{}
	n := 0
	next := func() bool { n++; return vkit.Mine(n) }
	expired := func() bool { return !deadline.IsZero() && time.Now().After(deadline) }
	report := func(fs []finding, k kase) (violated bool) {
		for _, f := range fs {
			if strings.HasPrefix(f.sig, "harness|") {
				res.Hard(f.sig + ": " + f.detail)
				continue
			}
			violated = true
			res.Violate(f.sig, f.detail+"\ncase: "+k.describe(), k)
		}
		return
	}

	// the instances are needed by every shard (the catalogue is sharded by case index)
	t0 := time.Now()
	insts, err := buildInstances()
	allInstances = insts
	if err != nil {
		res.Hard("cannot build the valid instances: " + err.Error())
		res.Finish()
		return
	}
	fmt.Fprintf(os.Stderr, "instances: %d (%.1fs)\n", len(insts), time.Since(t0).Seconds())

	// part 1
	rtCount := 0
	cut := false
	for _, c := range roundTripCases() {
		if !vkit.Want(c.Name) {
			continue
		}
		if !next() {
			continue
		}
		if expired() {
			cut = true
			break
		}
		k := kase{Class: "roundtrip", Name: c.Name}
		var fs []finding
		if panicked, msg, frame := vkit.Try(func() { fs = c.run() }); panicked {
			fs = []finding{{panicSig("roundtrip", frame, msg), c.Name + ": " + msg}}
		}
		res.Case(c.Name)
		rtCount++
		if report(fs, k) {
			outcomes["roundtrip|violation"]++
		} else {
			outcomes["roundtrip|ok"]++
		}
		if rtCount%5 == 1 {
			res.Sample(map[string]interface{}{"part": 1, "case": c.Name, "findings": len(fs)})
		}
	}

	// part 2
	for _, in := range insts {
		if !vkit.Want(in.name()) || cut {
			continue
		}
		in := in
		per := 0
		catalogue(in, func(class, path, op string, pos int, rule string, mk func() []byte) {
			if !next() || cut {
				return
			}
			if expired() {
				cut = true
				return
			}
			input := mk()
			if input == nil {
				return
			}
			k := kase{Class: class, Kind: in.kind.name, Inst: in.label, Path: path, Op: op, Pos: pos, Rule: rule}
			v := judge(in.kind, in.valid, input)
			res.Case(k.key())
			per++
			outcomes[in.kind.name+"|"+class+"|"+v.outcome]++
			switch v.outcome {
			case "harness":
				res.Hard(v.err + " — " + k.describe())
			case "violation":
				k.InputHex = hex.EncodeToString(input)
				report(v.fs, k)
			case "accepted-valid", "accepted-identical":
				if class == "semantic" && !isProbe(op) {
					acceptedBreakers[fmt.Sprintf("%s: %s %s (aimed at: %s) -> %s", in.kind.name, faults.PathClass(path, in.ids), op, rule, v.outcome)]++
				}
			case "error":
				// the same bytes offered to a LIVE object of that type (one that was restored from the valid encoding and
				// validated before): what a fresh object refuses, a live one must not accept into a state that breaks a rule
				if in.kind.reload != nil && (!in.kind.costly || class == "semantic") {
					if lv := judgeLive(in.kind, in.valid, input); lv.outcome == "violation" {
						k2 := k
						k2.Class = class + "+live-object"
						k2.InputHex = hex.EncodeToString(input)
						report(lv.fs, k2)
					}
					outcomes[in.kind.name+"|"+class+"|live-object-checked"]++
				}
				if class == "semantic" && isProbe(op) {
					k.InputHex = hex.EncodeToString(input)
					res.Violate("restore-refuses|"+in.kind.name+"|"+op, "a legal variant of a valid encoding is refused: "+v.err+"\ncase: "+k.describe(), k)
				}
			}
			if n%1499 == 0 {
				res.Sample(map[string]interface{}{"part": 2, "type": in.kind.name, "instance": in.label, "class": class, "path": path, "op": op, "pos": pos, "outcome": v.outcome, "error": clipS(v.err)})
			}
		})
		fmt.Fprintf(os.Stderr, "%-44s %6d bytes  cases(this shard)=%d\n", in.name(), len(in.valid), per)
	}
	if cut {
		res.Exhaustive = false
		res.Note("internal deadline reached: the remaining cases of this shard were not run")
	}
	oc := map[string]interface{}{}
	for k, v := range outcomes {
		oc[k] = v
	}
	res.Extra["outcomes_by_type_class"] = oc
	ab := map[string]interface{}{}
	for k, v := range acceptedBreakers {
		ab[k] = v
	}
	res.Extra["rule_breakers_accepted_with_a_rule_valid_object"] = ab
	res.Extra["wire_messages_round_tripped"] = wireMessages
	res.Finish()
}

// panicSig: type + innermost repository frame + the kind of panic (different defects end in the same decode function).
func panicSig(typ, frame, msg string) string {
	m := strings.TrimPrefix(msg, "runtime error: ")
	m = strings.TrimPrefix(m, "reflect: ")
	if i := strings.IndexAny(m, "0123456789[("); i > 0 {
		m = m[:i]
	}
	m = strings.TrimSpace(m)
	if len(m) > 48 {
		m = m[:48]
	}
	return "panic|" + typ + "|" + frame + "|" + m
}

func clipS(s string) string {
	if len(s) > 120 {
		return s[:120]
	}
	return s
}

func (k kase) describe() string {
	if k.Class == "roundtrip" {
		return k.Name
	}
	s := fmt.Sprintf("%s %s: %s", k.Kind, k.Inst, k.Class)
	if k.Path != "" {
		s += " at " + k.Path
	}
	if k.Op != "" {
		s += " op " + k.Op
	}
	if k.Class == "prefix" || k.Class == "bitflip" || k.Class == "random" {
		s += fmt.Sprintf(" #%d", k.Pos)
	}
	if k.Rule != "" {
		s += " (aimed at: " + k.Rule + ")"
	}
	if k.InputHex != "" {
		h := k.InputHex
		if len(h) > 200 {
			h = h[:200] + "…"
		}
		s += fmt.Sprintf("\ninput (%d bytes): %s", len(k.InputHex)/2, h)
	}
	return s
}

func replay(rp kase) int {
	if rp.Class == "roundtrip" {
		for _, c := range roundTripCases() {
			if c.Name == rp.Name {
				fs := c.run()
				for _, f := range fs {
					fmt.Println("VIOLATION", f.sig, "\n ", f.detail)
				}
				if len(fs) > 0 {
					return 1
				}
				fmt.Println("ok:", c.Name)
				return 0
			}
		}
		fmt.Println("round-trip case not found:", rp.Name)
		return 2
	}
	k, ok := kinds[rp.Kind]
	if !ok {
		fmt.Println("unknown type", rp.Kind)
		return 2
	}
	input, err := hex.DecodeString(rp.InputHex)
	if err != nil {
		fmt.Println(err)
		return 2
	}
	fmt.Println("case:", rp.describe())
	v := judge(k, nil, input)
	fmt.Println("outcome:", v.outcome, v.err)
	for _, f := range v.fs {
		fmt.Println("VIOLATION", f.sig, "\n ", f.detail)
	}
	if v.outcome == "violation" {
		return 1
	}
	return 0
}
