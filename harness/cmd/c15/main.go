package main

import (
	"bytes"
	"fmt"
	"time"

	"github.com/fxamacker/cbor/v2"
	"github.com/taurusgroup/multi-party-sig/internal/zzverif/drv"
	"github.com/taurusgroup/multi-party-sig/internal/zzverif/kmat"
	"github.com/taurusgroup/multi-party-sig/internal/zzverif/sess"
	"github.com/taurusgroup/multi-party-sig/internal/zzverif/vkit"
	"github.com/taurusgroup/multi-party-sig/pkg/math/curve"
	"github.com/taurusgroup/multi-party-sig/pkg/protocol"
	"github.com/taurusgroup/multi-party-sig/protocols/cmp"
	"github.com/taurusgroup/multi-party-sig/protocols/frost"
)

func main() {
	_ = vkit.Init("C15")
	drv.Install()
	fk, err := kmat.Frost(3, 1)
	if err != nil {
		panic(err)
	}
	b0, _ := cbor.Marshal(fk["a"])
	diff := 0
	for i := 0; i < 50; i++ {
		b, _ := cbor.Marshal(fk["a"])
		if !bytes.Equal(b, b0) {
			diff++
		}
	}
	fmt.Println("frost re-marshal differs:", diff, "of 50")
	for _, in := range [][]byte{{0xf6}, {0xa0}, {}, {0x00}} {
		c := frost.EmptyConfig(curve.Secp256k1{})
		pan, msg, fr := vkit.Try(func() { err = cbor.Unmarshal(in, c) })
		fmt.Printf("frost %x -> err=%v panic=%v %s %s id=%q\n", in, err, pan, msg, fr, c.ID)
		m := new(protocol.Message)
		fmt.Printf("msg %x -> err=%v %+v\n", in, m.UnmarshalBinary(in), m)
	}
	t0 := time.Now()
	o := sess.Run(sess.CMPKeygen(kmat.IDs[:2], 1), 1, "kmat")
	fmt.Println("cmp keygen", time.Since(t0), o.Errors, o.Panic)
	c := o.Results["a"].(*cmp.Config)
	b, _ := c.MarshalBinary()
	t0 = time.Now()
	for i := 0; i < 20; i++ {
		if err := cmp.EmptyConfig(curve.Secp256k1{}).UnmarshalBinary(b); err != nil {
			panic(err)
		}
	}
	fmt.Println("cmp restore", time.Since(t0)/20)
	for _, in := range [][]byte{{0xf6}, {0xa0}, {}} {
		cc := cmp.EmptyConfig(curve.Secp256k1{})
		pan, msg, fr := vkit.Try(func() { err = cc.UnmarshalBinary(in) })
		fmt.Printf("cmp %x -> err=%v panic=%v %s %s\n", in, err, pan, msg, fr)
	}
}
