package main

// The independent validity predicate.  It is written from the text of the property
// ("threshold negative or not smaller than the number of parties, duplicate or missing own
// identifier, signer set too small or containing non-shareholders, empty message, absent or
// invalid key material or presignature") and from what a threshold sharing IS (a share s_i with
// s_i*G equal to the public table entry of its owner, a threshold 0 <= t < n, non-empty and
// pairwise different identifiers — the identifier is the evaluation point of the sharing
// polynomial, so "" = 0 would hold the secret itself).  It does not call any validation code
// of the library; group arithmetic is done with the math/big reference.

import (
	"fmt"
	"math/big"
	"reflect"
	"sort"

	"github.com/taurusgroup/multi-party-sig/internal/zzverif/ref"
	"github.com/taurusgroup/multi-party-sig/pkg/ecdsa"
	"github.com/taurusgroup/multi-party-sig/pkg/math/curve"
	"github.com/taurusgroup/multi-party-sig/pkg/party"
	"github.com/taurusgroup/multi-party-sig/protocols/cmp"
	"github.com/taurusgroup/multi-party-sig/protocols/frost"
)

// isNil is true for a nil interface and for an interface holding a nil pointer / map / slice.
func isNil(x interface{}) bool {
	if x == nil {
		return true
	}
	v := reflect.ValueOf(x)
	switch v.Kind() {
	case reflect.Ptr, reflect.Map, reflect.Slice, reflect.Interface, reflect.Func, reflect.Chan:
		return v.IsNil()
	}
	return false
}

type marshaler interface{ MarshalBinary() ([]byte, error) }

func scalarOf(s marshaler) (*big.Int, bool) {
	if isNil(s) {
		return nil, false
	}
	b, err := s.MarshalBinary()
	if err != nil {
		return nil, false
	}
	return new(big.Int).SetBytes(b), true
}

// pointOf decodes a library point with the reference decoder; identity -> Inf.
func pointOf(p curve.Point) (ref.Pt, bool) {
	if isNil(p) {
		return ref.Pt{}, false
	}
	if p.IsIdentity() {
		return ref.Pt{Inf: true}, true
	}
	b, err := p.MarshalBinary()
	if err != nil {
		return ref.Pt{}, false
	}
	q, err := ref.ParseCompressed(b)
	if err != nil {
		return ref.Pt{}, false
	}
	return q, true
}

func idSetProblems(what string, ids []party.ID, self party.ID) (problems []string, distinct map[party.ID]bool) {
	distinct = map[party.ID]bool{}
	if len(ids) == 0 {
		problems = append(problems, what+" list is empty")
	}
	dup := false
	for _, id := range ids {
		if id == "" {
			problems = append(problems, what+" list contains the empty identifier")
		}
		if distinct[id] {
			dup = true
		}
		distinct[id] = true
	}
	if dup {
		problems = append(problems, what+" list contains a duplicated identifier")
	}
	if self == "" {
		problems = append(problems, "own identifier is empty")
	} else if !distinct[self] {
		problems = append(problems, "own identifier is missing from the "+what+" list")
	}
	return
}

func thresholdProblems(t, n int) []string {
	var p []string
	if t < 0 {
		p = append(p, fmt.Sprintf("threshold %d is negative", t))
	}
	if t >= n {
		p = append(p, fmt.Sprintf("threshold %d is not smaller than the number of parties %d", t, n))
	}
	return p
}

func messageProblems(m []byte) []string {
	if len(m) == 0 {
		return []string{"message is empty"}
	}
	return nil
}

// share describes key material of a threshold sharing in protocol-independent terms.
type sharing struct {
	id      party.ID
	t       int
	holders map[party.ID]bool
}

func cmpConfigProblems(c *cmp.Config) (p []string, s *sharing) {
	if c == nil {
		return []string{"key material is absent (nil config)"}, nil
	}
	s = &sharing{id: c.ID, t: c.Threshold, holders: map[party.ID]bool{}}
	if isNil(c.Group) {
		p = append(p, "config has no group")
	}
	if c.ID == "" {
		p = append(p, "config has an empty own identifier")
	}
	if len(c.Public) == 0 {
		p = append(p, "config has no public table")
	}
	for id, pub := range c.Public {
		s.holders[id] = true
		if id == "" {
			p = append(p, "public table contains the empty identifier")
		}
		if pub == nil {
			p = append(p, fmt.Sprintf("public entry of %q is nil", id))
			continue
		}
		if q, ok := pointOf(pub.ECDSA); !ok {
			p = append(p, fmt.Sprintf("public entry of %q has no ECDSA share", id))
		} else if q.Inf {
			p = append(p, fmt.Sprintf("public ECDSA share of %q is the identity", id))
		}
		if q, ok := pointOf(pub.ElGamal); !ok {
			p = append(p, fmt.Sprintf("public entry of %q has no ElGamal key", id))
		} else if q.Inf {
			p = append(p, fmt.Sprintf("ElGamal key of %q is the identity", id))
		}
		if pub.Paillier == nil {
			p = append(p, fmt.Sprintf("public entry of %q has no Paillier key", id))
		}
		if pub.Pedersen == nil {
			p = append(p, fmt.Sprintf("public entry of %q has no Pedersen parameters", id))
		}
	}
	p = append(p, thresholdProblems(c.Threshold, len(c.Public))...)
	x, ok := scalarOf(c.ECDSA)
	switch {
	case !ok:
		p = append(p, "config has no secret ECDSA share")
	case x.Sign() == 0:
		p = append(p, "secret ECDSA share is zero")
	}
	if isNil(c.ElGamal) {
		p = append(p, "config has no ElGamal secret")
	}
	if c.Paillier == nil {
		p = append(p, "config has no Paillier secret key")
	}
	own, has := c.Public[c.ID]
	if !has {
		p = append(p, "own entry is missing from the public table")
	} else if own != nil && ok {
		if X, okX := pointOf(own.ECDSA); okX && !ref.MulG(x).Equal(X) {
			p = append(p, "secret share does not match the own public entry")
		}
	}
	return
}

func frostSharingProblems(id party.ID, t int, share marshaler, shares map[party.ID]curve.Point, sharesNil bool) (p []string, s *sharing) {
	s = &sharing{id: id, t: t, holders: map[party.ID]bool{}}
	if id == "" {
		p = append(p, "config has an empty own identifier")
	}
	if sharesNil || len(shares) == 0 {
		p = append(p, "config has no verification shares")
	}
	for k, v := range shares {
		s.holders[k] = true
		if k == "" {
			p = append(p, "verification shares contain the empty identifier")
		}
		if _, ok := pointOf(v); !ok {
			p = append(p, fmt.Sprintf("verification share of %q is nil", k))
		}
	}
	p = append(p, thresholdProblems(t, len(shares))...)
	x, ok := scalarOf(share)
	switch {
	case !ok:
		p = append(p, "config has no private share")
	case x.Sign() == 0:
		p = append(p, "private share is zero")
	}
	own, has := shares[id]
	if !has {
		p = append(p, "own entry is missing from the verification shares")
	} else if ok {
		if X, okX := pointOf(own); okX && !ref.MulG(x).Equal(X) {
			p = append(p, "private share does not match the own verification share")
		}
	}
	return
}

func frostConfigProblems(c *frost.Config) ([]string, *sharing) {
	if c == nil {
		return []string{"key material is absent (nil config)"}, nil
	}
	var pts map[party.ID]curve.Point
	if c.VerificationShares != nil {
		pts = c.VerificationShares.Points
	}
	p, s := frostSharingProblems(c.ID, c.Threshold, c.PrivateShare, pts, c.VerificationShares == nil)
	if Y, ok := pointOf(c.PublicKey); !ok {
		p = append(p, "config has no public key")
	} else if Y.Inf {
		p = append(p, "public key is the identity")
	}
	return p, s
}

func tapConfigProblems(c *frost.TaprootConfig) ([]string, *sharing) {
	if c == nil {
		return []string{"key material is absent (nil config)"}, nil
	}
	pts := map[party.ID]curve.Point{}
	for k, v := range c.VerificationShares {
		if v == nil {
			pts[k] = nil
		} else {
			pts[k] = v
		}
	}
	var sh marshaler
	if c.PrivateShare != nil {
		sh = c.PrivateShare
	}
	p, s := frostSharingProblems(c.ID, c.Threshold, sh, pts, c.VerificationShares == nil)
	if len(c.PublicKey) != 32 {
		p = append(p, fmt.Sprintf("taproot public key has %d bytes instead of 32", len(c.PublicKey)))
	} else if _, err := ref.LiftX(new(big.Int).SetBytes(c.PublicKey)); err != nil {
		p = append(p, "taproot public key is not the x coordinate of a curve point")
	}
	return p, s
}

// signerProblems judges a signer list against the sharing it is meant for.
func signerProblems(signers []party.ID, s *sharing) []string {
	self := party.ID("")
	if s != nil {
		self = s.id
	}
	p, distinct := idSetProblems("signer", signers, self)
	if s == nil {
		return p
	}
	if len(distinct) <= s.t {
		p = append(p, fmt.Sprintf("%d signers are not more than the threshold %d", len(distinct), s.t))
	}
	var foreignIDs []string
	for id := range distinct {
		if !s.holders[id] {
			foreignIDs = append(foreignIDs, string(id))
		}
	}
	sort.Strings(foreignIDs)
	for _, id := range foreignIDs {
		p = append(p, fmt.Sprintf("signer %q holds no share of this key", id))
	}
	return p
}

func presigProblems(s *ecdsa.PreSignature, sh *sharing) []string {
	if s == nil {
		return []string{"presignature is absent (nil)"}
	}
	var p []string
	if R, ok := pointOf(s.R); !ok {
		p = append(p, "presignature has no R")
	} else if R.Inf {
		p = append(p, "presignature R is the identity")
	}
	if x, ok := scalarOf(s.KShare); !ok || x.Sign() == 0 {
		p = append(p, "presignature k share is absent or zero")
	}
	if x, ok := scalarOf(s.ChiShare); !ok || x.Sign() == 0 {
		p = append(p, "presignature chi share is absent or zero")
	}
	if len(s.ID) != 32 {
		p = append(p, fmt.Sprintf("presignature identifier has %d bytes instead of 32", len(s.ID)))
	}
	if s.RBar == nil || s.S == nil {
		p = append(p, "presignature has no RBar / S table")
		return p
	}
	ids := map[party.ID]bool{}
	for id, pt := range s.RBar.Points {
		ids[id] = true
		if q, ok := pointOf(pt); !ok || q.Inf {
			p = append(p, fmt.Sprintf("RBar entry of %q is absent or the identity", id))
		}
		if _, ok := s.S.Points[id]; !ok {
			p = append(p, fmt.Sprintf("S entry of %q is missing", id))
		}
	}
	for id, pt := range s.S.Points {
		if q, ok := pointOf(pt); !ok || q.Inf {
			p = append(p, fmt.Sprintf("S entry of %q is absent or the identity", id))
		}
		if !ids[id] {
			p = append(p, fmt.Sprintf("RBar entry of %q is missing", id))
		}
		ids[id] = true
	}
	if sh != nil {
		var list []party.ID
		for id := range ids {
			list = append(list, id)
		}
		for _, q := range signerProblems(list, sh) {
			p = append(p, "presignature signer set: "+q)
		}
	}
	return p
}

func twoPartyProblems(self, other party.ID) []string {
	var p []string
	if self == "" {
		p = append(p, "own identifier is empty")
	}
	if other == "" {
		p = append(p, "identifier of the other party is empty")
	}
	if self == other {
		p = append(p, "own identifier equals the identifier of the other party")
	}
	return p
}

func doernerProblems(nilCfg bool, share marshaler, public curve.Point, setupNil bool, needSetup bool) []string {
	if nilCfg {
		return []string{"key material is absent (nil config)"}
	}
	var p []string
	x, ok := scalarOf(share)
	switch {
	case !ok:
		p = append(p, "config has no secret share")
	case x.Sign() == 0:
		p = append(p, "secret share is zero")
	}
	if Y, ok := pointOf(public); !ok {
		p = append(p, "config has no public key")
	} else if Y.Inf {
		p = append(p, "public key is the identity")
	}
	if needSetup && setupNil {
		p = append(p, "config has no OT setup")
	}
	return p
}

// invalidReasons lists why the tuple cannot lead to a valid run; empty = the tuple is valid.
func invalidReasons(fn *fnSpec, p *Params) []string {
	var out []string
	var sh *sharing
	var cp []string
	switch fn.Cfg {
	case "cmp":
		cp, sh = cmpConfigProblems(p.CMP)
	case "frost":
		cp, sh = frostConfigProblems(p.Frost)
	case "tap":
		cp, sh = tapConfigProblems(p.Tap)
	case "dr":
		if p.DR == nil {
			cp = doernerProblems(true, nil, nil, true, false)
		} else {
			cp = doernerProblems(false, p.DR.SecretShare, p.DR.Public, p.DR.Setup == nil, fn.Kind == "doerner-sign")
		}
	case "ds":
		if p.DS == nil {
			cp = doernerProblems(true, nil, nil, true, false)
		} else {
			cp = doernerProblems(false, p.DS.SecretShare, p.DS.Public, p.DS.Setup == nil, fn.Kind == "doerner-sign")
		}
	}
	out = append(out, cp...)
	if sh != nil && p.TrueT != nil {
		sh.t = *p.TrueT
	}
	switch fn.Kind {
	case "keygen":
		q, distinct := idSetProblems("participant", p.Parts, p.Self)
		out = append(out, q...)
		out = append(out, thresholdProblems(p.T, len(distinct))...)
	case "frost-refresh":
		self := p.Self
		if sh != nil {
			self = sh.id
		}
		q, distinct := idSetProblems("participant", p.Parts, self)
		out = append(out, q...)
		if sh != nil {
			out = append(out, thresholdProblems(sh.t, len(distinct))...)
			var f []string
			for id := range distinct {
				if !sh.holders[id] {
					f = append(f, string(id))
				}
			}
			sort.Strings(f)
			for _, id := range f {
				out = append(out, fmt.Sprintf("participant %q holds no share of the key being refreshed", id))
			}
		}
	case "cmp-refresh":
		// the configuration is the only parameter
	case "sign":
		if fn.Cfg != "" && sh == nil && len(cp) > 0 {
			// nil config: the signer list can still be judged on its own
			q, _ := idSetProblems("signer", p.Signers, "")
			for _, s := range q {
				if s != "own identifier is empty" {
					out = append(out, s)
				}
			}
		} else {
			out = append(out, signerProblems(p.Signers, sh)...)
		}
		if hasParam(fn, "message") {
			out = append(out, messageProblems(p.Msg)...)
		}
	case "presign-online":
		out = append(out, presigProblems(p.Pre, sh)...)
		out = append(out, messageProblems(p.Msg)...)
	case "doerner-keygen", "doerner-refresh":
		out = append(out, twoPartyProblems(p.Self, p.Other)...)
	case "doerner-sign":
		out = append(out, twoPartyProblems(p.Self, p.Other)...)
		out = append(out, messageProblems(p.Msg)...)
	}
	return out
}

func hasParam(fn *fnSpec, name string) bool {
	for _, p := range fn.Params {
		if p == name {
			return true
		}
	}
	return false
}
