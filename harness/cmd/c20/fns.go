package main

import (
	"fmt"

	"github.com/taurusgroup/multi-party-sig/internal/zzverif/sess"
	"github.com/taurusgroup/multi-party-sig/pkg/ecdsa"
	"github.com/taurusgroup/multi-party-sig/pkg/math/curve"
	"github.com/taurusgroup/multi-party-sig/pkg/party"
	"github.com/taurusgroup/multi-party-sig/pkg/protocol"
	"github.com/taurusgroup/multi-party-sig/protocols/cmp"
	"github.com/taurusgroup/multi-party-sig/protocols/cmp/presign"
	"github.com/taurusgroup/multi-party-sig/protocols/doerner"
	"github.com/taurusgroup/multi-party-sig/protocols/frost"
)

// Params is the parameter tuple handed to a start function.  Which fields a function reads is
// listed in fnSpec.Params.
type Params struct {
	Self, Other party.ID   // Other: two-party protocols
	Parts       []party.ID // participants (key generation, FROST refresh)
	T           int        // threshold (key generation)
	Signers     []party.ID
	Msg         []byte
	CMP         *cmp.Config
	Frost       *frost.Config
	Tap         *frost.TaprootConfig
	Pre         *ecdsa.PreSignature
	DR          *doerner.ConfigReceiver
	DS          *doerner.ConfigSender
	// TrueT: set when the key material was produced by library code under test (BIP-32 derivation): the
	// threshold of the sharing it was derived from, which the predicate trusts instead of the object's own field.
	TrueT *int `json:",omitempty"`
}

func (p *Params) clone() *Params {
	q := *p
	q.Parts = cpIDs(p.Parts)
	q.Signers = cpIDs(p.Signers)
	if p.Msg != nil {
		q.Msg = append([]byte{}, p.Msg...)
	}
	return &q
}

func cpIDs(a []party.ID) []party.ID {
	if a == nil {
		return nil
	}
	return append([]party.ID{}, a...)
}

// ---- key material (valid, from real key generations; built lazily, deterministic in the seed) ----

type keyMat struct {
	seed    int64
	frost   map[party.ID]*frost.Config
	tap     map[party.ID]*frost.TaprootConfig
	cmp     map[party.ID]*cmp.Config
	pre     map[party.ID]*ecdsa.PreSignature
	dr      *doerner.ConfigReceiver
	ds      *doerner.ConfigSender
	problem string
}

var (
	frostIDs = []party.ID{"a", "b", "c"}
	cmpIDs   = []party.ID{"a", "b"}
	message  = []byte("0123456789abcdef0123456789abcdef")
)

func (k *keyMat) fail(what string, o *sess.Outcome) {
	if k.problem == "" {
		k.problem = fmt.Sprintf("%s failed: start=%v errors=%v panic=%q stuck=%v hung=%q", what, o.StartErr, o.Errors, o.Panic, o.Stuck, o.Hung)
	}
}

func (k *keyMat) Frost() map[party.ID]*frost.Config {
	if k.frost == nil {
		k.frost = map[party.ID]*frost.Config{}
		o := sess.Run(sess.FrostKeygen(frostIDs, 1, false), k.seed, "c20-keys")
		for _, id := range frostIDs {
			c, ok := o.Results[id].(*frost.Config)
			if !ok {
				k.fail("frost keygen", o)
				break
			}
			k.frost[id] = c
		}
	}
	return k.frost
}

// FrostOf / TapOf return a private deep copy: frost.Refresh adds to the PrivateShare object of
// the configuration it is given (keygen round3: r.privateShare.Add), so a shared baseline object
// would be corrupted by the first refresh session.
func (k *keyMat) FrostOf(id party.ID) *frost.Config {
	c := k.Frost()[id]
	if c == nil {
		return nil
	}
	d := *c
	d.PrivateShare = group.NewScalar().Set(c.PrivateShare)
	pts := map[party.ID]curve.Point{}
	for i, p := range c.VerificationShares.Points {
		pts[i] = p
	}
	d.VerificationShares = party.NewPointMap(pts)
	return &d
}

func (k *keyMat) TapOf(id party.ID) *frost.TaprootConfig {
	c := k.Tap()[id]
	if c == nil {
		return nil
	}
	return c.Clone()
}

func (k *keyMat) Tap() map[party.ID]*frost.TaprootConfig {
	if k.tap == nil {
		k.tap = map[party.ID]*frost.TaprootConfig{}
		o := sess.Run(sess.FrostKeygen(frostIDs, 1, true), k.seed, "c20-keys")
		for _, id := range frostIDs {
			c, ok := o.Results[id].(*frost.TaprootConfig)
			if !ok {
				k.fail("frost taproot keygen", o)
				break
			}
			k.tap[id] = c
		}
	}
	return k.tap
}

func (k *keyMat) Doerner() (*doerner.ConfigReceiver, *doerner.ConfigSender) {
	if k.dr == nil {
		o := sess.Run(sess.DoernerKeygen("a", "b"), k.seed, "c20-keys")
		cr, ok1 := o.Results["a"].(*doerner.ConfigReceiver)
		cs, ok2 := o.Results["b"].(*doerner.ConfigSender)
		if !ok1 || !ok2 {
			k.fail("doerner keygen", o)
			return nil, nil
		}
		k.dr, k.ds = cr, cs
	}
	return k.dr, k.ds
}

func (k *keyMat) CMP() map[party.ID]*cmp.Config {
	if k.cmp == nil {
		k.cmp = map[party.ID]*cmp.Config{}
		o := sess.Run(sess.CMPKeygen(cmpIDs, 1), k.seed, "c20-keys")
		for _, id := range cmpIDs {
			c, ok := o.Results[id].(*cmp.Config)
			if !ok {
				k.fail("cmp keygen", o)
				break
			}
			k.cmp[id] = c
		}
	}
	return k.cmp
}

func (k *keyMat) Pre() map[party.ID]*ecdsa.PreSignature {
	if k.pre == nil {
		k.pre = map[party.ID]*ecdsa.PreSignature{}
		cfg := k.CMP()
		if len(cfg) != len(cmpIDs) {
			return k.pre
		}
		o := sess.Run(sess.CMPPresign(cfg, cmpIDs), k.seed, "c20-keys")
		for _, id := range cmpIDs {
			c, ok := o.Results[id].(*ecdsa.PreSignature)
			if !ok {
				k.fail("cmp presign", o)
				break
			}
			k.pre[id] = c
		}
	}
	return k.pre
}

// ---- the start functions -------------------------------------------------------------------------------

// peer is one honest counterpart, started with the valid baseline.
type peer struct {
	ID     party.ID
	Leader bool
	Start  func() protocol.StartFunc
}

type fnSpec struct {
	Name   string
	Kind   string   // what the independent predicate has to judge: keygen, frost-refresh, cmp-refresh, sign, presign-online, doerner-keygen, doerner-refresh, doerner-sign
	Params []string // parameters of the function that carry a lattice: threshold participants signers message config presig ids
	Two    bool     // two-party handler
	Leader bool     // two-party: own leader flag
	NeedsK []string // key material needed for the baseline ("frost","tap","cmp","pre","doerner")
	Cfg    string   // which config field of Params is the function's key material: cmp, frost, tap, dr, ds, ""
	Base   func(k *keyMat) *Params
	Start  func(p *Params) protocol.StartFunc
	Peers  func(k *keyMat, base *Params) []peer
}

var group = curve.Secp256k1{}

func others(ids []party.ID, self party.ID) []party.ID {
	var o []party.ID
	for _, id := range ids {
		if id != self {
			o = append(o, id)
		}
	}
	return o
}

func fnTable() []*fnSpec {
	var fns []*fnSpec

	// ---- CMP ----
	fns = append(fns, &fnSpec{Name: "cmp.Keygen", Kind: "keygen", Params: []string{"threshold", "participants"},
		Base:  func(k *keyMat) *Params { return &Params{Self: "a", Parts: cpIDs(cmpIDs), T: 1} },
		Start: func(p *Params) protocol.StartFunc { return cmp.Keygen(group, p.Self, p.Parts, p.T, nil) },
		Peers: func(k *keyMat, b *Params) []peer {
			var ps []peer
			for _, id := range others(b.Parts, b.Self) {
				id := id
				ps = append(ps, peer{ID: id, Start: func() protocol.StartFunc { return cmp.Keygen(group, id, b.Parts, b.T, nil) }})
			}
			return ps
		}})
	fns = append(fns, &fnSpec{Name: "cmp.Refresh", Kind: "cmp-refresh", Params: []string{"config"}, NeedsK: []string{"cmp"}, Cfg: "cmp",
		Base:  func(k *keyMat) *Params { return &Params{Self: "a", CMP: k.CMP()["a"]} },
		Start: func(p *Params) protocol.StartFunc { return cmp.Refresh(p.CMP, nil) },
		Peers: func(k *keyMat, b *Params) []peer {
			var ps []peer
			for _, id := range others(cmpIDs, b.Self) {
				id := id
				ps = append(ps, peer{ID: id, Start: func() protocol.StartFunc { return cmp.Refresh(k.CMP()[id], nil) }})
			}
			return ps
		}})
	cmpSignPeers := func(start func(c *cmp.Config, b *Params) protocol.StartFunc) func(k *keyMat, b *Params) []peer {
		return func(k *keyMat, b *Params) []peer {
			var ps []peer
			for _, id := range others(b.Signers, b.Self) {
				id := id
				ps = append(ps, peer{ID: id, Start: func() protocol.StartFunc { return start(k.CMP()[id], b) }})
			}
			return ps
		}
	}
	fns = append(fns, &fnSpec{Name: "cmp.Sign", Kind: "sign", Params: []string{"config", "signers", "message"}, NeedsK: []string{"cmp"}, Cfg: "cmp",
		Base: func(k *keyMat) *Params {
			return &Params{Self: "a", CMP: k.CMP()["a"], Signers: cpIDs(cmpIDs), Msg: message}
		},
		Start: func(p *Params) protocol.StartFunc { return cmp.Sign(p.CMP, p.Signers, p.Msg, nil) },
		Peers: cmpSignPeers(func(c *cmp.Config, b *Params) protocol.StartFunc { return cmp.Sign(c, b.Signers, b.Msg, nil) })})
	fns = append(fns, &fnSpec{Name: "cmp.Presign", Kind: "sign", Params: []string{"config", "signers"}, NeedsK: []string{"cmp"}, Cfg: "cmp",
		Base:  func(k *keyMat) *Params { return &Params{Self: "a", CMP: k.CMP()["a"], Signers: cpIDs(cmpIDs)} },
		Start: func(p *Params) protocol.StartFunc { return cmp.Presign(p.CMP, p.Signers, nil) },
		Peers: cmpSignPeers(func(c *cmp.Config, b *Params) protocol.StartFunc { return cmp.Presign(c, b.Signers, nil) })})
	// presign.StartPresign with a message ("full" presign+sign in one session).  An empty message
	// here IS cmp.Presign (a valid call of another start function), so the message carries no lattice.
	fns = append(fns, &fnSpec{Name: "cmp.PresignFull", Kind: "sign", Params: []string{"config", "signers"}, NeedsK: []string{"cmp"}, Cfg: "cmp",
		Base: func(k *keyMat) *Params {
			return &Params{Self: "a", CMP: k.CMP()["a"], Signers: cpIDs(cmpIDs), Msg: message}
		},
		Start: func(p *Params) protocol.StartFunc { return presign.StartPresign(p.CMP, p.Signers, p.Msg, nil) },
		Peers: cmpSignPeers(func(c *cmp.Config, b *Params) protocol.StartFunc {
			return presign.StartPresign(c, b.Signers, b.Msg, nil)
		})})
	fns = append(fns, &fnSpec{Name: "cmp.PresignOnline", Kind: "presign-online", Params: []string{"config", "presig", "message"}, NeedsK: []string{"cmp", "pre"}, Cfg: "cmp",
		Base: func(k *keyMat) *Params {
			return &Params{Self: "a", CMP: k.CMP()["a"], Pre: k.Pre()["a"], Msg: message}
		},
		Start: func(p *Params) protocol.StartFunc { return cmp.PresignOnline(p.CMP, p.Pre, p.Msg, nil) },
		Peers: func(k *keyMat, b *Params) []peer {
			var ps []peer
			for _, id := range others(cmpIDs, b.Self) {
				id := id
				ps = append(ps, peer{ID: id, Start: func() protocol.StartFunc { return cmp.PresignOnline(k.CMP()[id], k.Pre()[id], b.Msg, nil) }})
			}
			return ps
		}})

	// ---- FROST ----
	for _, tap := range []bool{false, true} {
		tap := tap
		name := "frost.Keygen"
		kg := func(id party.ID, parts []party.ID, t int) protocol.StartFunc {
			return frost.Keygen(group, id, parts, t)
		}
		if tap {
			name = "frost.KeygenTaproot"
			kg = func(id party.ID, parts []party.ID, t int) protocol.StartFunc {
				return frost.KeygenTaproot(id, parts, t)
			}
		}
		fns = append(fns, &fnSpec{Name: name, Kind: "keygen", Params: []string{"threshold", "participants"},
			Base:  func(k *keyMat) *Params { return &Params{Self: "a", Parts: cpIDs(frostIDs), T: 1} },
			Start: func(p *Params) protocol.StartFunc { return kg(p.Self, p.Parts, p.T) },
			Peers: func(k *keyMat, b *Params) []peer {
				var ps []peer
				for _, id := range others(b.Parts, b.Self) {
					id := id
					ps = append(ps, peer{ID: id, Start: func() protocol.StartFunc { return kg(id, b.Parts, b.T) }})
				}
				return ps
			}})
	}
	fns = append(fns, &fnSpec{Name: "frost.Refresh", Kind: "frost-refresh", Params: []string{"config", "participants"}, NeedsK: []string{"frost"}, Cfg: "frost",
		Base:  func(k *keyMat) *Params { return &Params{Self: "a", Frost: k.FrostOf("a"), Parts: cpIDs(frostIDs)} },
		Start: func(p *Params) protocol.StartFunc { return frost.Refresh(p.Frost, p.Parts) },
		Peers: func(k *keyMat, b *Params) []peer {
			var ps []peer
			for _, id := range others(b.Parts, b.Self) {
				id := id
				ps = append(ps, peer{ID: id, Start: func() protocol.StartFunc { return frost.Refresh(k.FrostOf(id), b.Parts) }})
			}
			return ps
		}})
	fns = append(fns, &fnSpec{Name: "frost.RefreshTaproot", Kind: "frost-refresh", Params: []string{"config", "participants"}, NeedsK: []string{"tap"}, Cfg: "tap",
		Base:  func(k *keyMat) *Params { return &Params{Self: "a", Tap: k.TapOf("a"), Parts: cpIDs(frostIDs)} },
		Start: func(p *Params) protocol.StartFunc { return frost.RefreshTaproot(p.Tap, p.Parts) },
		Peers: func(k *keyMat, b *Params) []peer {
			var ps []peer
			for _, id := range others(b.Parts, b.Self) {
				id := id
				ps = append(ps, peer{ID: id, Start: func() protocol.StartFunc { return frost.RefreshTaproot(k.TapOf(id), b.Parts) }})
			}
			return ps
		}})
	fns = append(fns, &fnSpec{Name: "frost.Sign", Kind: "sign", Params: []string{"config", "signers", "message"}, NeedsK: []string{"frost"}, Cfg: "frost",
		Base: func(k *keyMat) *Params {
			return &Params{Self: "a", Frost: k.FrostOf("a"), Signers: []party.ID{"a", "b"}, Msg: message}
		},
		Start: func(p *Params) protocol.StartFunc { return frost.Sign(p.Frost, p.Signers, p.Msg) },
		Peers: func(k *keyMat, b *Params) []peer {
			var ps []peer
			for _, id := range others(b.Signers, b.Self) {
				id := id
				ps = append(ps, peer{ID: id, Start: func() protocol.StartFunc { return frost.Sign(k.FrostOf(id), b.Signers, b.Msg) }})
			}
			return ps
		}})
	fns = append(fns, &fnSpec{Name: "frost.SignTaproot", Kind: "sign", Params: []string{"config", "signers", "message"}, NeedsK: []string{"tap"}, Cfg: "tap",
		Base: func(k *keyMat) *Params {
			return &Params{Self: "a", Tap: k.TapOf("a"), Signers: []party.ID{"a", "b"}, Msg: message}
		},
		Start: func(p *Params) protocol.StartFunc { return frost.SignTaproot(p.Tap, p.Signers, p.Msg) },
		Peers: func(k *keyMat, b *Params) []peer {
			var ps []peer
			for _, id := range others(b.Signers, b.Self) {
				id := id
				ps = append(ps, peer{ID: id, Start: func() protocol.StartFunc { return frost.SignTaproot(k.TapOf(id), b.Signers, b.Msg) }})
			}
			return ps
		}})

	// ---- Doerner (receiver = a, sender = b; the receiver leads key generation and refresh, both lead signing: as in sess) ----
	fns = append(fns, &fnSpec{Name: "doerner.Keygen(receiver)", Kind: "doerner-keygen", Params: []string{"ids"}, Two: true, Leader: true,
		Base:  func(k *keyMat) *Params { return &Params{Self: "a", Other: "b"} },
		Start: func(p *Params) protocol.StartFunc { return doerner.Keygen(group, true, p.Self, p.Other, nil) },
		Peers: func(k *keyMat, b *Params) []peer {
			return []peer{{ID: "b", Start: func() protocol.StartFunc { return doerner.Keygen(group, false, "b", "a", nil) }}}
		}})
	fns = append(fns, &fnSpec{Name: "doerner.Keygen(sender)", Kind: "doerner-keygen", Params: []string{"ids"}, Two: true,
		Base:  func(k *keyMat) *Params { return &Params{Self: "b", Other: "a"} },
		Start: func(p *Params) protocol.StartFunc { return doerner.Keygen(group, false, p.Self, p.Other, nil) },
		Peers: func(k *keyMat, b *Params) []peer {
			return []peer{{ID: "a", Leader: true, Start: func() protocol.StartFunc { return doerner.Keygen(group, true, "a", "b", nil) }}}
		}})
	fns = append(fns, &fnSpec{Name: "doerner.RefreshReceiver", Kind: "doerner-refresh", Params: []string{"config", "ids"}, Two: true, Leader: true, NeedsK: []string{"doerner"}, Cfg: "dr",
		Base: func(k *keyMat) *Params {
			r, _ := k.Doerner()
			return &Params{Self: "a", Other: "b", DR: r}
		},
		Start: func(p *Params) protocol.StartFunc { return doerner.RefreshReceiver(p.DR, p.Self, p.Other, nil) },
		Peers: func(k *keyMat, b *Params) []peer {
			_, s := k.Doerner()
			return []peer{{ID: "b", Start: func() protocol.StartFunc { return doerner.RefreshSender(s, "b", "a", nil) }}}
		}})
	fns = append(fns, &fnSpec{Name: "doerner.RefreshSender", Kind: "doerner-refresh", Params: []string{"config", "ids"}, Two: true, NeedsK: []string{"doerner"}, Cfg: "ds",
		Base: func(k *keyMat) *Params {
			_, s := k.Doerner()
			return &Params{Self: "b", Other: "a", DS: s}
		},
		Start: func(p *Params) protocol.StartFunc { return doerner.RefreshSender(p.DS, p.Self, p.Other, nil) },
		Peers: func(k *keyMat, b *Params) []peer {
			r, _ := k.Doerner()
			return []peer{{ID: "a", Leader: true, Start: func() protocol.StartFunc { return doerner.RefreshReceiver(r, "a", "b", nil) }}}
		}})
	fns = append(fns, &fnSpec{Name: "doerner.SignReceiver", Kind: "doerner-sign", Params: []string{"config", "ids", "message"}, Two: true, Leader: true, NeedsK: []string{"doerner"}, Cfg: "dr",
		Base: func(k *keyMat) *Params {
			r, _ := k.Doerner()
			return &Params{Self: "a", Other: "b", DR: r, Msg: message}
		},
		Start: func(p *Params) protocol.StartFunc { return doerner.SignReceiver(p.DR, p.Self, p.Other, p.Msg, nil) },
		Peers: func(k *keyMat, b *Params) []peer {
			_, s := k.Doerner()
			return []peer{{ID: "b", Leader: true, Start: func() protocol.StartFunc { return doerner.SignSender(s, "b", "a", b.Msg, nil) }}}
		}})
	fns = append(fns, &fnSpec{Name: "doerner.SignSender", Kind: "doerner-sign", Params: []string{"config", "ids", "message"}, Two: true, Leader: true, NeedsK: []string{"doerner"}, Cfg: "ds",
		Base: func(k *keyMat) *Params {
			_, s := k.Doerner()
			return &Params{Self: "b", Other: "a", DS: s, Msg: message}
		},
		Start: func(p *Params) protocol.StartFunc { return doerner.SignSender(p.DS, p.Self, p.Other, p.Msg, nil) },
		Peers: func(k *keyMat, b *Params) []peer {
			r, _ := k.Doerner()
			return []peer{{ID: "a", Leader: true, Start: func() protocol.StartFunc { return doerner.SignReceiver(r, "a", "b", b.Msg, nil) }}}
		}})
	return fns
}
