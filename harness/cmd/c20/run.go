package main

import (
	"bytes"
	"context"
	"encoding/json"
	"fmt"
	"os"
	"os/exec"
	"regexp"
	"runtime/debug"
	"strings"
	"time"

	"github.com/taurusgroup/multi-party-sig/internal/zzverif/drv"
	"github.com/taurusgroup/multi-party-sig/internal/zzverif/vkit"
	"github.com/taurusgroup/multi-party-sig/pkg/party"
	"github.com/taurusgroup/multi-party-sig/pkg/protocol"
)

var sessionID = []byte("c20-session")

const constructorTimeout = 15 * time.Second

// outcome of handing one tuple to start function + handler constructor.
type outcome struct {
	Kind  string `json:"kind"` // refused | accepted | panic | hang | died
	Err   string `json:"err,omitempty"`
	Frame string `json:"frame,omitempty"`
	State string `json:"state,omitempty"` // accepted: state of the handler right after construction
	party *drv.Party
}

func handlerState(p *drv.Party) string {
	var st string
	p.Guard(func() {
		r, err := p.H.Result()
		switch {
		case r != nil:
			st = "finished with a result"
		case drv.IsNotFinished(err):
			st = "running"
		default:
			st = "already aborted: " + err.Error()
		}
	})
	if p.Panic != "" {
		return "Result() panics: " + p.Panic
	}
	return st
}

// construct calls the start function and the handler constructor on one goroutine guarded by
// drv.NewParty (panic capture, outgoing channel drained, call timeout).
func construct(fn *fnSpec, p *Params, label string, seed int64, slot int, self party.ID) *outcome {
	rng := drv.NewDRBG("c20|"+label, seed)
	rng.Slot = slot
	// a constructor that does not return is a finding of its own; 15 s is far beyond any honest constructor (CMP: < 1 s)
	saved := drv.CallTimeout
	drv.CallTimeout = constructorTimeout
	defer func() { drv.CallTimeout = saved }()
	var stack string
	pty, err := drv.NewParty(self, rng, func() (protocol.Handler, error) {
		defer func() {
			if r := recover(); r != nil {
				stack = string(debug.Stack())
				panic(r) // drv records the panic
			}
		}()
		sf := fn.Start(p)
		if fn.Two {
			return protocol.NewTwoPartyHandler(sf, sessionID, fn.Leader)
		}
		return protocol.NewMultiHandler(sf, sessionID)
	})
	if err != nil {
		return &outcome{Kind: "refused", Err: err.Error()}
	}
	if pty.Panic != "" {
		fr := frameByFile(stack)
		if fr == "" {
			fr = pty.PanicFrame
		}
		return &outcome{Kind: "panic", Err: pty.Panic, Frame: fr}
	}
	if pty.Hung != "" {
		return &outcome{Kind: "hang", Err: "constructor did not return within " + constructorTimeout.String(), Frame: vkit.RepoFrame(firstGoroutineOfRepo(pty.Hung))}
	}
	if pty.H == nil || isNil(pty.H) {
		return &outcome{Kind: "refused", Err: "constructor returned a nil handler and a nil error"}
	}
	o := &outcome{Kind: "accepted", party: pty}
	o.State = handlerState(pty)
	return o
}

// firstGoroutineOfRepo returns the stack of the first goroutine in a full dump that is inside the repository.
func firstGoroutineOfRepo(dump string) string {
	for _, g := range strings.Split(dump, "\n\n") {
		if strings.Contains(g, "multi-party-sig/p") && !strings.Contains(strings.SplitN(g, "\n", 3)[0], "zzverif") {
			if vkit.RepoFrame(g) != "?" {
				return g
			}
		}
	}
	return dump
}

// ---- isolation of tuples that may exhaust memory -------------------------------------------------------

type childReq struct {
	Fn      string   `json:"fn"`
	Classes []string `json:"classes"`
	Seed    int64    `json:"seed"`
}

func needsIsolation(fn *fnSpec, p *Params) bool {
	if !hasParam(fn, "threshold") {
		return false
	}
	return p.T > 1<<20 || p.T < -(1<<20)
}

// constructIsolated runs construct in a child process: an allocation of 2^32 polynomial
// coefficients kills the process and cannot be recovered from.
func constructIsolated(req childReq) *outcome {
	b, _ := json.Marshal(req)
	ctx, cancel := context.WithTimeout(context.Background(), 90*time.Second)
	defer cancel()
	cmd := exec.CommandContext(ctx, os.Args[0], "-c20child", string(b))
	var so, se bytes.Buffer
	cmd.Stdout, cmd.Stderr = &so, &se
	err := cmd.Run()
	for _, l := range strings.Split(so.String(), "\n") {
		if strings.HasPrefix(l, "C20OUTCOME ") {
			var o outcome
			if json.Unmarshal([]byte(strings.TrimPrefix(l, "C20OUTCOME ")), &o) == nil {
				return &o
			}
		}
	}
	txt := se.String()
	why := "child process ended without an outcome"
	for _, l := range strings.Split(txt, "\n") {
		if strings.HasPrefix(l, "fatal error:") || strings.HasPrefix(l, "panic:") || strings.HasPrefix(l, "runtime: out of memory") {
			why = strings.TrimSpace(l)
			break
		}
	}
	if ctx.Err() != nil {
		why = "child process did not finish within 90s"
	}
	return &outcome{Kind: "died", Err: fmt.Sprintf("%s (%v)", why, err), Frame: vkit.RepoFrame(txt)}
}

// ---- follow-up: an admitted invalid party against honest peers ----------------------------------------

type followUp struct {
	Ran        bool
	Skipped    string
	Self       string // final state of the admitted party
	SelfPanic  string // "<msg> in <frame>" if the admitted party crashed later
	SelfFrame  string
	Peers      []string // "<id>: <state>"
	PeerPanic  string
	PeerFrame  string
	PeerStuck  bool
	PeerFailed bool // an honest peer ended with an error
	Steps      int
	ValidRun   bool   // every party finished with a result the reference accepts
	ValidErr   string // why the run is not valid
}

func (f *followUp) String() string {
	if !f.Ran {
		return "follow-up not run: " + f.Skipped
	}
	s := fmt.Sprintf("follow-up against honest peers (in-order delivery, %d deliveries): admitted party: %s; honest peers: %s", f.Steps, f.Self, strings.Join(f.Peers, "; "))
	if f.ValidRun {
		s += "; every result is accepted by the reference: the run is VALID"
	} else {
		s += "; not a valid run: " + f.ValidErr
	}
	return s
}

// severity is the one-word classification used in the histogram.
func (f *followUp) severity() string {
	switch {
	case !f.Ran:
		return "not-run"
	case f.ValidRun:
		return "run-valid"
	case f.PeerPanic != "":
		return "honest-peer-panics"
	case f.SelfPanic != "":
		return "crashes-later"
	case f.PeerStuck:
		return "honest-peers-stall"
	case f.PeerFailed:
		return "honest-peers-abort"
	}
	return "all-finish-with-invalid-results"
}

func partyState(p *drv.Party) string {
	if p.Panic != "" {
		return fmt.Sprintf("PANIC %q in %s", p.Panic, p.PanicFrame)
	}
	if p.Hung != "" {
		return "a call never returned"
	}
	r, err := p.Result()
	switch {
	case r != nil:
		return fmt.Sprintf("finished (%T)", r)
	case drv.IsNotFinished(err):
		return "still running with an empty network (stuck)"
	default:
		return "aborted: " + err.Error()
	}
}

func runFollowUp(fn *fnSpec, k *keyMat, base *Params, admitted *drv.Party, label string, seed int64) *followUp {
	f := &followUp{}
	peers := fn.Peers(k, base)
	net := drv.NewNet()
	net.Add(admitted)
	var honest []*drv.Party
	for i, pr := range peers {
		pr := pr
		if pr.ID == admitted.ID {
			f.Skipped = "identifier collision with an honest peer"
			return f
		}
		rng := drv.NewDRBG("c20-peer|"+label+"|"+string(pr.ID), seed)
		rng.Slot = i + 1
		hp, err := drv.NewParty(pr.ID, rng, func() (protocol.Handler, error) {
			if fn.Two {
				return protocol.NewTwoPartyHandler(pr.Start(), sessionID, pr.Leader)
			}
			return protocol.NewMultiHandler(pr.Start(), sessionID)
		})
		if err != nil || hp.Panic != "" || hp.Hung != "" {
			f.Skipped = fmt.Sprintf("honest peer %s could not be started with the valid baseline: %v %s", pr.ID, err, hp.Panic)
			return f
		}
		net.Add(hp)
		honest = append(honest, hp)
	}
	net.RunFIFO(50000)
	f.Ran = true
	f.Steps = net.Steps
	f.Self = partyState(admitted)
	if admitted.Panic != "" {
		f.SelfPanic, f.SelfFrame = admitted.Panic, admitted.PanicFrame
	}
	for _, hp := range honest {
		st := partyState(hp)
		f.Peers = append(f.Peers, string(hp.ID)+": "+st)
		switch {
		case hp.Panic != "":
			if f.PeerPanic == "" {
				f.PeerPanic, f.PeerFrame = hp.Panic, hp.PanicFrame
			}
		case hp.Hung != "" || strings.HasPrefix(st, "still running"):
			f.PeerStuck = true
		case strings.HasPrefix(st, "aborted"):
			f.PeerFailed = true
		}
	}
	if err := validRun(fn, k, base, net, seed); err != nil {
		f.ValidErr = err.Error()
	} else {
		f.ValidRun = true
	}
	return f
}

// ---- naming the innermost repository frame of a panic ------------------------------------------------

var closureSuffix = regexp.MustCompile(`(\.func\d+|\.\d+|\.gowrap\d+)+$`)

// frameByFile names the innermost frame whose SOURCE FILE belongs to the repository:
// "<file relative to the repository>:<function>".  Start functions are small and get inlined
// into the harness closure that calls them, so the function NAME of such a frame begins with
// "main." and only the file tells where the code lives; closure numbering is dropped because
// it changes with inlining.
func frameByFile(stack string) string {
	lines := strings.Split(stack, "\n")
	for i := 0; i+1 < len(lines); i++ {
		file := strings.TrimSpace(lines[i+1])
		if !strings.HasPrefix(lines[i+1], "\t") || !strings.Contains(file, ".go:") {
			continue
		}
		if strings.Contains(file, "/internal/zzverif/") || strings.Contains(file, "/pkg/mod/") || strings.Contains(file, "/go-1.") || strings.Contains(file, "/src/runtime/") {
			continue
		}
		rel := ""
		for _, root := range []string{"/protocols/", "/pkg/", "/internal/"} {
			if j := strings.Index(file, root); j >= 0 && (rel == "" || j < len(file)-len(rel)) {
				rel = file[j+1:]
			}
		}
		if rel == "" {
			continue
		}
		rel = rel[:strings.Index(rel, ".go:")+3]
		fn := strings.TrimSpace(lines[i])
		if j := strings.LastIndex(fn, "("); j > 0 && !strings.HasSuffix(fn[:j], ".") {
			fn = fn[:j]
		}
		if j := strings.LastIndex(fn, "/"); j >= 0 {
			fn = fn[j+1:]
		}
		fn = closureSuffix.ReplaceAllString(fn, "")
		// last identifier, with its receiver if it is a method
		parts := splitTop(fn)
		name := parts[len(parts)-1]
		if len(parts) >= 2 && strings.HasPrefix(parts[len(parts)-2], "(") {
			name = parts[len(parts)-2] + "." + name
		}
		return rel + ":" + name
	}
	return ""
}

// splitTop splits at dots that are not inside parentheses.
func splitTop(s string) []string {
	var out []string
	depth, start := 0, 0
	for i, c := range s {
		switch c {
		case '(':
			depth++
		case ')':
			depth--
		case '.':
			if depth == 0 {
				out = append(out, s[start:i])
				start = i + 1
			}
		}
	}
	return append(out, s[start:])
}
