package main

import (
	"math"

	"github.com/taurusgroup/multi-party-sig/pkg/ecdsa"
	"github.com/taurusgroup/multi-party-sig/pkg/math/curve"
	"github.com/taurusgroup/multi-party-sig/pkg/party"
	"github.com/taurusgroup/multi-party-sig/protocols/cmp"
	"github.com/taurusgroup/multi-party-sig/protocols/cmp/config"
	"github.com/taurusgroup/multi-party-sig/protocols/doerner"
	"github.com/taurusgroup/multi-party-sig/protocols/frost"
)

// badValue is one element of a parameter's lattice.  Apply edits a private copy of the
// baseline tuple (base is the untouched baseline, for values defined relative to it).
// Whether the resulting tuple is invalid is NOT decided here but by the predicate
// (predicate.go); Valid only records the intention, so that a disagreement between the
// lattice and the predicate shows up as a harness error instead of a silent hole.
type badValue struct {
	Param string
	Label string
	Valid bool
	Apply func(p, base *Params)
}

func (b badValue) Class() string { return b.Param + "=" + b.Label }

const foreign party.ID = "z"

func without(ids []party.ID, x party.ID) []party.ID {
	out := []party.ID{}
	for _, id := range ids {
		if id != x {
			out = append(out, id)
		}
	}
	return out
}

func replace(ids []party.ID, x, y party.ID) []party.ID {
	out := cpIDs(ids)
	for i := range out {
		if out[i] == x {
			out[i] = y
		}
	}
	return out
}

func reversed(ids []party.ID) []party.ID {
	out := cpIDs(ids)
	for i, j := 0, len(out)-1; i < j; i, j = i+1, j-1 {
		out[i], out[j] = out[j], out[i]
	}
	return out
}

func firstOther(ids []party.ID, self party.ID) party.ID {
	for _, id := range ids {
		if id != self {
			return id
		}
	}
	return ""
}

func lastOther(ids []party.ID, self party.ID) party.ID {
	o := party.ID("")
	for _, id := range ids {
		if id != self {
			o = id
		}
	}
	return o
}

func latticeFor(fn *fnSpec, param string) []badValue {
	var out []badValue
	add := func(label string, f func(p, base *Params)) {
		out = append(out, badValue{Param: param, Label: label, Apply: f})
	}
	addValid := func(label string, f func(p, base *Params)) {
		out = append(out, badValue{Param: param, Label: label, Valid: true, Apply: f})
	}
	switch param {
	case "threshold":
		add("-1", func(p, b *Params) { p.T = -1 })
		add("n", func(p, b *Params) { p.T = len(b.Parts) })
		add("n+1", func(p, b *Params) { p.T = len(b.Parts) + 1 })
		add("2^32-1", func(p, b *Params) { p.T = math.MaxUint32 })
		add("2^32", func(p, b *Params) { p.T = math.MaxUint32 + 1 })
		add("MinInt", func(p, b *Params) { p.T = math.MinInt })
	case "participants":
		add("duplicate-peer", func(p, b *Params) { p.Parts = append(cpIDs(b.Parts), firstOther(b.Parts, b.Self)) })
		add("duplicate-self", func(p, b *Params) { p.Parts = append(cpIDs(b.Parts), b.Self) })
		add("self-missing", func(p, b *Params) { p.Parts = without(b.Parts, b.Self) })
		add("only-self", func(p, b *Params) { p.Parts = []party.ID{b.Self} })
		add("empty", func(p, b *Params) { p.Parts = []party.ID{} })
		add("nil", func(p, b *Params) { p.Parts = nil })
		add("empty-string-id", func(p, b *Params) { p.Parts = append(cpIDs(b.Parts), "") })
		if fn.Kind == "frost-refresh" {
			add("foreign-replaces-peer", func(p, b *Params) { p.Parts = replace(b.Parts, lastOther(b.Parts, b.Self), foreign) })
			add("foreign-added", func(p, b *Params) { p.Parts = append(cpIDs(b.Parts), foreign) })
		}
		addValid("unsorted", func(p, b *Params) { p.Parts = reversed(b.Parts) })
	case "signers":
		add("size<=t", func(p, b *Params) { p.Signers = []party.ID{b.Self} })
		add("non-shareholder-replaces-peer", func(p, b *Params) { p.Signers = replace(b.Signers, firstOther(b.Signers, b.Self), foreign) })
		add("non-shareholder-added", func(p, b *Params) { p.Signers = append(cpIDs(b.Signers), foreign) })
		add("self-missing", func(p, b *Params) {
			s := without(b.Signers, b.Self)
			if fn.Cfg == "frost" || fn.Cfg == "tap" {
				s = []party.ID{"b", "c"} // still more than t signers, all shareholders
			}
			p.Signers = s
		})
		if fn.Cfg == "cmp" {
			// too few signers on BIP-32 DERIVED key material (the child must carry the parent's threshold)
			add("size<=t-on-derived-key", func(p, b *Params) {
				p.Signers = []party.ID{b.Self}
				if d, err := cpCMP(b.CMP).DeriveBIP32(1); err == nil {
					p.CMP = d
					t := b.CMP.Threshold
					p.TrueT = &t
				}
			})
		}
		add("duplicate-peer", func(p, b *Params) { p.Signers = append(cpIDs(b.Signers), firstOther(b.Signers, b.Self)) })
		add("duplicate-self", func(p, b *Params) { p.Signers = append(cpIDs(b.Signers), b.Self) })
		add("empty", func(p, b *Params) { p.Signers = []party.ID{} })
		add("nil", func(p, b *Params) { p.Signers = nil })
		add("empty-string-id", func(p, b *Params) { p.Signers = append(cpIDs(b.Signers), "") })
		addValid("unsorted", func(p, b *Params) { p.Signers = reversed(b.Signers) })
	case "message":
		add("nil", func(p, b *Params) { p.Msg = nil })
		add("empty", func(p, b *Params) { p.Msg = []byte{} })
	case "ids":
		add("self==other", func(p, b *Params) { p.Other = b.Self })
		add("self-empty", func(p, b *Params) { p.Self = "" })
		add("other-empty", func(p, b *Params) { p.Other = "" })
		add("both-empty", func(p, b *Params) { p.Self, p.Other = "", "" })
	case "presig":
		pre := func(f func(s *ecdsa.PreSignature, b *Params)) func(p, b *Params) {
			return func(p, b *Params) {
				s := cpPre(b.Pre)
				f(s, b)
				p.Pre = s
			}
		}
		peerOf := func(b *Params) party.ID { return firstOther(cmpIDs, b.Self) }
		add("nil", func(p, b *Params) { p.Pre = nil })
		add("R-nil", pre(func(s *ecdsa.PreSignature, b *Params) { s.R = nil }))
		add("R-identity", pre(func(s *ecdsa.PreSignature, b *Params) { s.R = group.NewPoint() }))
		add("RBar-nil", pre(func(s *ecdsa.PreSignature, b *Params) { s.RBar = nil }))
		add("S-nil", pre(func(s *ecdsa.PreSignature, b *Params) { s.S = nil }))
		add("RBar-entry-missing", pre(func(s *ecdsa.PreSignature, b *Params) { delete(s.RBar.Points, peerOf(b)) }))
		add("S-entry-missing", pre(func(s *ecdsa.PreSignature, b *Params) { delete(s.S.Points, peerOf(b)) }))
		add("peer-entries-missing", pre(func(s *ecdsa.PreSignature, b *Params) {
			delete(s.RBar.Points, peerOf(b))
			delete(s.S.Points, peerOf(b))
		}))
		add("own-entries-missing", pre(func(s *ecdsa.PreSignature, b *Params) {
			delete(s.RBar.Points, b.Self)
			delete(s.S.Points, b.Self)
		}))
		add("RBar-entry-nil", pre(func(s *ecdsa.PreSignature, b *Params) { s.RBar.Points[peerOf(b)] = nil }))
		add("S-entry-nil", pre(func(s *ecdsa.PreSignature, b *Params) { s.S.Points[peerOf(b)] = nil }))
		add("signers-differ-from-config", pre(func(s *ecdsa.PreSignature, b *Params) {
			s.RBar.Points[foreign] = s.RBar.Points[peerOf(b)]
			s.S.Points[foreign] = s.S.Points[peerOf(b)]
			delete(s.RBar.Points, peerOf(b))
			delete(s.S.Points, peerOf(b))
		}))
		// one table names a non-shareholder instead of a signer, the other table is untouched (sizes stay equal)
		add("S-entry-renamed-to-foreign", pre(func(s *ecdsa.PreSignature, b *Params) {
			s.S.Points[foreign] = s.S.Points[peerOf(b)]
			delete(s.S.Points, peerOf(b))
		}))
		add("RBar-entry-renamed-to-foreign", pre(func(s *ecdsa.PreSignature, b *Params) {
			s.RBar.Points[foreign] = s.RBar.Points[peerOf(b)]
			delete(s.RBar.Points, peerOf(b))
		}))
		add("KShare-nil", pre(func(s *ecdsa.PreSignature, b *Params) { s.KShare = nil }))
		add("KShare-zero", pre(func(s *ecdsa.PreSignature, b *Params) { s.KShare = group.NewScalar() }))
		add("ChiShare-nil", pre(func(s *ecdsa.PreSignature, b *Params) { s.ChiShare = nil }))
		add("ChiShare-zero", pre(func(s *ecdsa.PreSignature, b *Params) { s.ChiShare = group.NewScalar() }))
		add("ID-nil", pre(func(s *ecdsa.PreSignature, b *Params) { s.ID = nil }))
		add("ID-truncated", pre(func(s *ecdsa.PreSignature, b *Params) { s.ID = s.ID[:len(s.ID)/2] }))
	case "config":
		switch fn.Cfg {
		case "cmp":
			c := func(f func(c *cmp.Config, b *Params)) func(p, b *Params) {
				return func(p, b *Params) {
					d := cpCMP(b.CMP)
					f(d, b)
					p.CMP = d
				}
			}
			peerOf := func(b *Params) party.ID { return firstOther(cmpIDs, b.Self) }
			add("nil", func(p, b *Params) { p.CMP = nil })
			add("zero-share", c(func(d *cmp.Config, b *Params) { d.ECDSA = group.NewScalar() }))
			add("nil-share", c(func(d *cmp.Config, b *Params) { d.ECDSA = nil }))
			add("nil-group", c(func(d *cmp.Config, b *Params) { d.Group = nil }))
			add("nil-elgamal-secret", c(func(d *cmp.Config, b *Params) { d.ElGamal = nil }))
			add("nil-paillier-secret", c(func(d *cmp.Config, b *Params) { d.Paillier = nil }))
			add("nil-public-map", c(func(d *cmp.Config, b *Params) { d.Public = nil }))
			add("own-entry-missing", c(func(d *cmp.Config, b *Params) { delete(d.Public, d.ID) }))
			add("peer-entry-missing", c(func(d *cmp.Config, b *Params) { delete(d.Public, peerOf(b)) }))
			add("own-entry-nil", c(func(d *cmp.Config, b *Params) { d.Public[d.ID] = nil }))
			add("peer-entry-nil", c(func(d *cmp.Config, b *Params) { d.Public[peerOf(b)] = nil }))
			add("peer-entry-nil-ecdsa", c(func(d *cmp.Config, b *Params) { d.Public[peerOf(b)].ECDSA = nil }))
			add("peer-entry-nil-elgamal", c(func(d *cmp.Config, b *Params) { d.Public[peerOf(b)].ElGamal = nil }))
			add("peer-entry-nil-paillier", c(func(d *cmp.Config, b *Params) { d.Public[peerOf(b)].Paillier = nil }))
			add("peer-entry-nil-pedersen", c(func(d *cmp.Config, b *Params) { d.Public[peerOf(b)].Pedersen = nil }))
			// the holder's OWN public record, field by field (a validation that treats the own record apart may
			// forget the fields it does not compare with a secret), and degenerate points in either record
			add("own-entry-nil-ecdsa", c(func(d *cmp.Config, b *Params) { d.Public[d.ID].ECDSA = nil }))
			add("own-entry-nil-elgamal", c(func(d *cmp.Config, b *Params) { d.Public[d.ID].ElGamal = nil }))
			add("own-entry-nil-paillier", c(func(d *cmp.Config, b *Params) { d.Public[d.ID].Paillier = nil }))
			add("own-entry-nil-pedersen", c(func(d *cmp.Config, b *Params) { d.Public[d.ID].Pedersen = nil }))
			add("own-entry-identity-elgamal", c(func(d *cmp.Config, b *Params) { d.Public[d.ID].ElGamal = group.NewPoint() }))
			add("peer-entry-identity-elgamal", c(func(d *cmp.Config, b *Params) { d.Public[peerOf(b)].ElGamal = group.NewPoint() }))
			add("peer-entry-identity-ecdsa", c(func(d *cmp.Config, b *Params) { d.Public[peerOf(b)].ECDSA = group.NewPoint() }))
			add("own-id-empty", c(func(d *cmp.Config, b *Params) { d.ID = "" }))
			add("own-id-foreign", c(func(d *cmp.Config, b *Params) { d.ID = foreign }))
			add("threshold=-1", c(func(d *cmp.Config, b *Params) { d.Threshold = -1 }))
			add("threshold=n", c(func(d *cmp.Config, b *Params) { d.Threshold = len(d.Public) }))
		case "frost":
			c := func(f func(c *frost.Config, b *Params)) func(p, b *Params) {
				return func(p, b *Params) {
					d := cpFrost(b.Frost)
					f(d, b)
					p.Frost = d
				}
			}
			add("nil", func(p, b *Params) { p.Frost = nil })
			add("zero-share", c(func(d *frost.Config, b *Params) { d.PrivateShare = group.NewScalar() }))
			add("nil-share", c(func(d *frost.Config, b *Params) { d.PrivateShare = nil }))
			add("nil-public-key", c(func(d *frost.Config, b *Params) { d.PublicKey = nil }))
			add("identity-public-key", c(func(d *frost.Config, b *Params) { d.PublicKey = group.NewPoint() }))
			add("nil-verification-shares", c(func(d *frost.Config, b *Params) { d.VerificationShares = nil }))
			add("own-entry-missing", c(func(d *frost.Config, b *Params) { delete(d.VerificationShares.Points, d.ID) }))
			add("peer-entry-missing", c(func(d *frost.Config, b *Params) { delete(d.VerificationShares.Points, "b") }))
			add("peer-entry-nil", c(func(d *frost.Config, b *Params) { d.VerificationShares.Points["b"] = nil }))
			add("own-id-empty", c(func(d *frost.Config, b *Params) { d.ID = "" }))
			add("own-id-foreign", c(func(d *frost.Config, b *Params) { d.ID = foreign }))
			add("threshold=-1", c(func(d *frost.Config, b *Params) { d.Threshold = -1 }))
			add("threshold=n", c(func(d *frost.Config, b *Params) { d.Threshold = len(d.VerificationShares.Points) }))
		case "tap":
			c := func(f func(c *frost.TaprootConfig, b *Params)) func(p, b *Params) {
				return func(p, b *Params) {
					d := b.Tap.Clone()
					f(d, b)
					p.Tap = d
				}
			}
			add("nil", func(p, b *Params) { p.Tap = nil })
			add("zero-share", c(func(d *frost.TaprootConfig, b *Params) { d.PrivateShare = new(curve.Secp256k1Scalar) }))
			add("nil-share", c(func(d *frost.TaprootConfig, b *Params) { d.PrivateShare = nil }))
			add("nil-public-key", c(func(d *frost.TaprootConfig, b *Params) { d.PublicKey = nil }))
			add("truncated-public-key", c(func(d *frost.TaprootConfig, b *Params) { d.PublicKey = d.PublicKey[:31] }))
			add("nil-verification-shares", c(func(d *frost.TaprootConfig, b *Params) { d.VerificationShares = nil }))
			add("own-entry-missing", c(func(d *frost.TaprootConfig, b *Params) { delete(d.VerificationShares, d.ID) }))
			add("peer-entry-missing", c(func(d *frost.TaprootConfig, b *Params) { delete(d.VerificationShares, "b") }))
			add("peer-entry-nil", c(func(d *frost.TaprootConfig, b *Params) { d.VerificationShares["b"] = nil }))
			add("own-id-empty", c(func(d *frost.TaprootConfig, b *Params) { d.ID = "" }))
			add("own-id-foreign", c(func(d *frost.TaprootConfig, b *Params) { d.ID = foreign }))
			add("threshold=-1", c(func(d *frost.TaprootConfig, b *Params) { d.Threshold = -1 }))
			add("threshold=n", c(func(d *frost.TaprootConfig, b *Params) { d.Threshold = len(d.VerificationShares) }))
		case "dr":
			c := func(f func(c *doerner.ConfigReceiver)) func(p, b *Params) {
				return func(p, b *Params) {
					d := *b.DR
					f(&d)
					p.DR = &d
				}
			}
			add("nil", func(p, b *Params) { p.DR = nil })
			add("zero-share", c(func(d *doerner.ConfigReceiver) { d.SecretShare = group.NewScalar() }))
			add("nil-share", c(func(d *doerner.ConfigReceiver) { d.SecretShare = nil }))
			add("nil-public", c(func(d *doerner.ConfigReceiver) { d.Public = nil }))
			add("identity-public", c(func(d *doerner.ConfigReceiver) { d.Public = group.NewPoint() }))
			if fn.Kind == "doerner-sign" {
				add("nil-ot-setup", c(func(d *doerner.ConfigReceiver) { d.Setup = nil }))
			}
		case "ds":
			c := func(f func(c *doerner.ConfigSender)) func(p, b *Params) {
				return func(p, b *Params) {
					d := *b.DS
					f(&d)
					p.DS = &d
				}
			}
			add("nil", func(p, b *Params) { p.DS = nil })
			add("zero-share", c(func(d *doerner.ConfigSender) { d.SecretShare = group.NewScalar() }))
			add("nil-share", c(func(d *doerner.ConfigSender) { d.SecretShare = nil }))
			add("nil-public", c(func(d *doerner.ConfigSender) { d.Public = nil }))
			add("identity-public", c(func(d *doerner.ConfigSender) { d.Public = group.NewPoint() }))
			if fn.Kind == "doerner-sign" {
				add("nil-ot-setup", c(func(d *doerner.ConfigSender) { d.Setup = nil }))
			}
		}
	}
	return out
}

// ---- copies of key material (the baseline objects are never edited) -----------------------------------

func cpCMP(c *cmp.Config) *cmp.Config {
	d := *c
	d.Public = make(map[party.ID]*config.Public, len(c.Public))
	for k, v := range c.Public {
		pv := *v
		d.Public[k] = &pv
	}
	return &d
}

func cpFrost(c *frost.Config) *frost.Config {
	d := *c
	pts := make(map[party.ID]curve.Point, len(c.VerificationShares.Points))
	for k, v := range c.VerificationShares.Points {
		pts[k] = v
	}
	d.VerificationShares = party.NewPointMap(pts)
	return &d
}

func cpPointMap(m *party.PointMap) *party.PointMap {
	pts := make(map[party.ID]curve.Point, len(m.Points))
	for k, v := range m.Points {
		pts[k] = v
	}
	return party.NewPointMap(pts)
}

func cpPre(s *ecdsa.PreSignature) *ecdsa.PreSignature {
	d := *s
	d.ID = append(d.ID[:0:0], s.ID...)
	d.RBar = cpPointMap(s.RBar)
	d.S = cpPointMap(s.S)
	return &d
}
