package main

// Did a session that was admitted with an "invalid" tuple nevertheless run validly?  The
// property is about parameters that CANNOT lead to a valid run; a tuple whose session ends with
// every party holding a result that the independent reference accepts (signature verifies under
// the group key; key material is one consistent sharing of the same key) demonstrably can, and
// is therefore outside the property (example: cmp.PresignOnline never reads the secret share of
// the configuration).  The same check confirms that every baseline is a valid run.

import (
	"fmt"
	"math/big"

	"github.com/taurusgroup/multi-party-sig/internal/zzverif/drv"
	"github.com/taurusgroup/multi-party-sig/internal/zzverif/oracle"
	"github.com/taurusgroup/multi-party-sig/internal/zzverif/ref"
	"github.com/taurusgroup/multi-party-sig/internal/zzverif/sess"
	"github.com/taurusgroup/multi-party-sig/internal/zzverif/vkit"
	"github.com/taurusgroup/multi-party-sig/pkg/ecdsa"
	"github.com/taurusgroup/multi-party-sig/pkg/party"
	"github.com/taurusgroup/multi-party-sig/protocols/doerner"
)

// groupKey is the public key of the baseline key material of fn.
func groupKey(fn *fnSpec, k *keyMat) (ref.Pt, error) {
	switch fn.Cfg {
	case "cmp":
		return oracle.Pt(k.CMP()["a"].PublicPoint())
	case "frost":
		return oracle.Pt(k.Frost()["a"].PublicKey)
	case "tap":
		return ref.LiftX(new(big.Int).SetBytes(k.Tap()["a"].PublicKey))
	case "dr", "ds":
		r, _ := k.Doerner()
		return oracle.Pt(r.Public)
	}
	return ref.Pt{}, fmt.Errorf("no key material")
}

func results(net *drv.Net) (map[party.ID]interface{}, error) {
	out := map[party.ID]interface{}{}
	for _, id := range net.IDs {
		p := net.Parties[id]
		if p.Panic != "" || p.Hung != "" || p.H == nil {
			return nil, fmt.Errorf("%s crashed", id)
		}
		r, err := p.Result()
		if r == nil {
			return nil, fmt.Errorf("%s has no result: %v", id, err)
		}
		out[id] = r
	}
	return out, nil
}

// validRun returns nil iff every party of the finished session holds a result the reference accepts.
func validRun(fn *fnSpec, k *keyMat, base *Params, net *drv.Net, seed int64) (err error) {
	if pan, msg, _ := vkit.Try(func() { err = validRunInner(fn, k, base, net, seed) }); pan {
		return fmt.Errorf("results cannot be judged: %s", msg)
	}
	return err
}

func validRunInner(fn *fnSpec, k *keyMat, base *Params, net *drv.Net, seed int64) error {
	res, err := results(net)
	if err != nil {
		return err
	}
	switch fn.Kind {
	case "sign", "presign-online", "doerner-sign":
		pub, err := groupKey(fn, k)
		if err != nil {
			return err
		}
		if fn.Name == "cmp.Presign" {
			// presignatures: valid iff the online phase with the honest configurations yields a valid signature
			pre := map[party.ID]*ecdsa.PreSignature{}
			for id, r := range res {
				ps, ok := r.(*ecdsa.PreSignature)
				if !ok {
					return fmt.Errorf("%s holds %T instead of a presignature", id, r)
				}
				pre[id] = ps
			}
			o := sess.Run(sess.CMPPresignOnline(k.CMP(), pre, cmpIDs, message), seed, "c20-validrun")
			if !o.AllDone(cmpIDs) {
				return fmt.Errorf("the presignatures do not complete the online phase: %v %s", o.Errors, o.Panic)
			}
			for _, id := range cmpIDs {
				if err := oracle.CheckSignature(o.Results[id], pub, message); err != nil {
					return fmt.Errorf("signature from the presignatures: %v", err)
				}
			}
			return nil
		}
		for id, r := range res {
			if err := oracle.CheckSignature(r, pub, base.Msg); err != nil {
				return fmt.Errorf("result of %s: %v", id, err)
			}
		}
		return nil
	case "keygen", "frost-refresh", "cmp-refresh":
		views := map[string]*oracle.View{}
		for id, r := range res {
			v, err := oracle.ViewOf(r)
			if err != nil {
				return fmt.Errorf("result of %s: %v", id, err)
			}
			views[string(id)] = v
		}
		const t = 1 // every baseline uses threshold 1
		if errs := oracle.CheckSharing(views, t); len(errs) > 0 {
			return fmt.Errorf("%v", errs[0])
		}
		if fn.Kind != "keygen" {
			pub, err := groupKey(fn, k)
			if err != nil {
				return err
			}
			for id, v := range views {
				if !v.Public.Equal(pub) {
					return fmt.Errorf("%s ends the refresh with a different group key", id)
				}
			}
		}
		return nil
	case "doerner-keygen", "doerner-refresh":
		var r *doerner.ConfigReceiver
		var s *doerner.ConfigSender
		for _, x := range res {
			switch c := x.(type) {
			case *doerner.ConfigReceiver:
				r = c
			case *doerner.ConfigSender:
				s = c
			}
		}
		if errs := oracle.CheckDoerner(r, s); len(errs) > 0 {
			return errs[0]
		}
		if fn.Kind == "doerner-refresh" {
			pub, err := groupKey(fn, k)
			if err != nil {
				return err
			}
			got, err := oracle.Pt(r.Public)
			if err != nil || !got.Equal(pub) {
				return fmt.Errorf("the refresh changed the public key")
			}
		}
		return nil
	}
	return fmt.Errorf("no validity oracle for %s", fn.Kind)
}
