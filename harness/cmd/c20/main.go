// C20 — invalid session parameters are refused at start.
// Engine D (lattice): for every start function of every protocol a valid baseline tuple (key
// material from real key generations) and, per parameter, a lattice of bad values; every single
// bad value (quick) and every pair of bad values in two different parameters (thorough) is
// handed to the real start function and handler constructor.  An independent predicate decides
// which tuples are invalid; for those the constructor must return an error — no panic, no hang,
// no handler.  An admitted invalid party is additionally run against honest peers.
package main

import (
	"encoding/json"
	"flag"
	"fmt"
	"os"
	"runtime/debug"
	"sort"
	"strings"
	"time"

	"github.com/taurusgroup/multi-party-sig/internal/zzverif/drv"
	"github.com/taurusgroup/multi-party-sig/internal/zzverif/sess"
	"github.com/taurusgroup/multi-party-sig/internal/zzverif/vkit"
)

var childFlag = flag.String("c20child", "", "internal: evaluate one constructor call in this (expendable) process")

type replay struct {
	Fn      string   `json:"fn"`
	Classes []string `json:"classes"` // "<param>=<label>", one or two
}

type tcase struct {
	fn   *fnSpec
	vals []badValue
}

func (t *tcase) classes() []string {
	var c []string
	for _, v := range t.vals {
		c = append(c, v.Class())
	}
	return c
}
func (t *tcase) class() string { return strings.Join(t.classes(), "+") }
func (t *tcase) key() string   { return t.fn.Name + "|" + t.class() }

func (t *tcase) tuple(base *Params) *Params {
	p := base.clone()
	for _, v := range t.vals {
		v.Apply(p, base)
	}
	return p
}

func findCase(fns []*fnSpec, fnName string, classes []string) (*tcase, error) {
	for _, fn := range fns {
		if fn.Name != fnName {
			continue
		}
		t := &tcase{fn: fn}
		for _, c := range classes {
			found := false
			for _, prm := range fn.Params {
				for _, v := range latticeFor(fn, prm) {
					if v.Class() == c {
						t.vals = append(t.vals, v)
						found = true
					}
				}
			}
			if !found {
				return nil, fmt.Errorf("%s has no lattice value %q", fnName, c)
			}
		}
		return t, nil
	}
	return nil, fmt.Errorf("unknown start function %q", fnName)
}

// verdict of one case.
type verdict struct {
	Sig       string
	Detail    string
	Extra     []verdict // further signatures of the same case (harm to peers)
	Outcome   *outcome
	Reasons   []string
	Follow    *followUp
	Isolated  bool
	Undecided bool // admitted, but the time budget did not allow the follow-up that decides whether that counts
	Exempt    bool // admitted although the predicate calls the tuple invalid, but the session ran validly
}

type evaluator struct {
	k        *keyMat
	seed     int64
	deadline time.Time
	skipped  int
}

// evaluate runs one case.  follow = run an admitted party against honest peers.
func (e *evaluator) evaluate(t *tcase, follow bool) *verdict {
	base := t.fn.Base(e.k)
	p := t.tuple(base)
	v := &verdict{}
	if pan, msg, _ := vkit.Try(func() { v.Reasons = invalidReasons(t.fn, p) }); pan {
		v.Sig, v.Detail = "harness", "the predicate panicked: "+msg
		return v
	}
	if needsIsolation(t.fn, p) {
		v.Isolated = true
		v.Outcome = constructIsolated(childReq{Fn: t.fn.Name, Classes: t.classes(), Seed: e.seed})
	} else {
		v.Outcome = construct(t.fn, p, t.key(), e.seed, 0, base.Self)
	}
	o := v.Outcome
	invalid := len(v.Reasons) > 0
	why := "the tuple is invalid because: " + strings.Join(v.Reasons, "; ")
	if !invalid {
		why = "the tuple is valid according to the predicate"
	}
	head := fmt.Sprintf("%s with %s — %s\n", t.fn.Name, t.class(), why)
	switch o.Kind {
	case "refused":
		return v
	case "panic":
		v.Sig = fmt.Sprintf("panic|%s|%s|%s", t.fn.Name, t.class(), o.Frame)
		v.Detail = head + fmt.Sprintf("start function / handler constructor panicked: %s (innermost repository frame %s)", o.Err, o.Frame)
		return v
	case "hang":
		v.Sig = fmt.Sprintf("hang|%s|%s", t.fn.Name, t.class())
		v.Detail = head + o.Err + " (in " + o.Frame + ")"
		return v
	case "died":
		v.Sig = fmt.Sprintf("crash|%s|%s|%s", t.fn.Name, t.class(), o.Frame)
		v.Detail = head + "the process running the constructor died: " + o.Err
		return v
	}
	// accepted
	if !invalid {
		return v
	}
	v.Sig = fmt.Sprintf("accepted|%s|%s", t.fn.Name, t.class())
	v.Detail = head + "the constructor returned a handler and no error; state of the handler right after construction: " + o.State
	if follow && o.party != nil {
		if !e.deadline.IsZero() && time.Now().After(e.deadline) {
			// whether the acceptance counts depends on the follow-up (a valid run exempts the tuple):
			// without it the case stays undecided and is not reported
			e.skipped++
			v.Follow = &followUp{Skipped: "internal time budget reached"}
			v.Sig, v.Undecided = "", true
			return v
		} else {
			v.Follow = runFollowUp(t.fn, e.k, base, o.party, t.key(), e.seed)
		}
		v.Detail += "\n" + v.Follow.String()
		if v.Follow.Ran && v.Follow.ValidRun {
			// the tuple demonstrably leads to a valid run: outside the property
			v.Exempt = true
			v.Sig = ""
			return v
		}
		if v.Follow.PeerPanic != "" {
			v.Extra = append(v.Extra, verdict{Sig: fmt.Sprintf("harms-peers|%s|%s|%s", t.fn.Name, t.class(), v.Follow.PeerFrame),
				Detail: head + "the admitted party made an honest peer panic: " + v.Follow.PeerPanic + "\n" + v.Follow.String()})
		}
		if v.Follow.SelfPanic != "" {
			v.Extra = append(v.Extra, verdict{Sig: fmt.Sprintf("crashes-later|%s|%s|%s", t.fn.Name, t.class(), v.Follow.SelfFrame),
				Detail: head + "the admitted session panicked later: " + v.Follow.SelfPanic + "\n" + v.Follow.String()})
		}
	}
	return v
}

// sameFailure: is the pair's failure already shown by one of its components alone?
func sameFailure(pair, single *outcome, singleInvalid bool) bool {
	if single == nil || pair.Kind != single.Kind {
		return false
	}
	switch pair.Kind {
	case "accepted":
		return singleInvalid
	case "panic", "died", "hang":
		return pair.Frame == single.Frame
	}
	return false
}

func main() {
	res := vkit.Init("C20")
	res.Rule = "for each of the 16 start functions (doerner.Keygen once per role, presign.StartPresign additionally with a message = cmp.PresignFull: 18 entries) a valid baseline tuple and a lattice of values per parameter " +
		"(threshold {-1,n,n+1,2^32-1,2^32,MinInt}; participants {duplicated peer/self, self missing, only self, empty, nil, empty-string id, foreign id (refresh), unsorted}; signers {size<=t, non-shareholder replacing/added, self missing, duplicated peer/self, empty, nil, empty-string id, unsorted}; " +
		"message {nil, empty}; key material {nil, zero/nil share, nil group/secrets/tables, own/peer entry missing or nil, nil sub-fields, empty/foreign own id, threshold -1/n, truncated taproot key}; presignature {nil, R nil/identity, tables nil, entries missing/nil, signer set != config, shares nil/zero, id nil/truncated}; two-party ids {self==other, empty}); " +
		"quick = every single value, thorough = additionally every pair of values in two different parameters of the same function. A case is one tuple handed to the real start function + handler constructor; all are non-trivial and distinct by (function, value classes). " +
		"An independent predicate (property text + definition of a threshold sharing, reference arithmetic) decides validity; invalid => the constructor must return an error (no panic, no hang, no handler); every tuple => no panic. Admitted invalid parties are run in order against honest peers started with the baseline."
	res.Assumptions = []string{
		"validity of a tuple is decided by the harness predicate (predicate.go), not by the library: threshold in [0,n), identifiers non-empty and pairwise different, own identifier present, signers > t and all shareholders, message non-empty, key material complete with a non-zero share matching its public entry, presignature complete, non-degenerate and for a signer set of the configuration",
		"an empty message handed to presign.StartPresign is the (valid) offline presigning call, so cmp.PresignFull has no message lattice; unsorted identifier lists are valid tuples (only 'no panic' is required for them)",
		"a constructor that does not return within 15 s is reported as a hang; tuples with |threshold| > 2^20 are evaluated in an expendable child process (an out-of-memory abort cannot be recovered)",
		"the follow-up delivers in FIFO order to quiescence; 'stall' means an honest peer is still running when the network is empty",
		"CMP baseline: n=2, t=1 (one key generation and one presignature per shard, pre-generated safe primes); FROST: n=3, t=1, signers {a,b}; Doerner: receiver a, sender b",
	}
	drv.Install()
	sess.InstallPrimes()
	seed := *vkit.Seed
	fns := fnTable()
	k := &keyMat{seed: seed}
	ev := &evaluator{k: k, seed: seed}

	// ---- child mode: one constructor call, outcome on stdout ----
	if *childFlag != "" {
		var req childReq
		if err := json.Unmarshal([]byte(*childFlag), &req); err != nil {
			fmt.Println("bad child request:", err)
			os.Exit(2)
		}
		k.seed, ev.seed = req.Seed, req.Seed
		t, err := findCase(fns, req.Fn, req.Classes)
		if err != nil {
			fmt.Println(err)
			os.Exit(2)
		}
		base := t.fn.Base(k)
		o := construct(t.fn, t.tuple(base), t.key(), req.Seed, 0, base.Self)
		b, _ := json.Marshal(o)
		fmt.Println("C20OUTCOME " + string(b))
		return
	}

	// ---- replay of one recorded case ----
	{
		var rp replay
		if vkit.LoadReplay(&rp) {
			t, err := findCase(fns, rp.Fn, rp.Classes)
			if err != nil {
				fmt.Println(err)
				os.Exit(2)
			}
			v := ev.evaluate(t, true)
			if k.problem != "" {
				fmt.Println("harness: key material:", k.problem)
				os.Exit(2)
			}
			fmt.Printf("case %s | %s\n predicate: %v\n outcome: %s %s %s\n", rp.Fn, strings.Join(rp.Classes, "+"), v.Reasons, v.Outcome.Kind, v.Outcome.Err, v.Outcome.Frame)
			if v.Follow != nil {
				fmt.Println(" " + v.Follow.String())
			}
			if v.Outcome.Kind == "panic" {
				fmt.Println(" stack of the panic:\n" + rawPanicStack(t, k))
			}
			if v.Sig == "" {
				fmt.Println("no violation")
				return
			}
			fmt.Printf("VIOLATION %s\n  %s\n", v.Sig, v.Detail)
			for _, x := range v.Extra {
				fmt.Printf("VIOLATION %s\n", x.Sig)
			}
			os.Exit(1)
		}
	}

	ev.deadline = vkit.Deadline(150*time.Second, 18*time.Minute)
	counts := map[string]int{}

	// ---- key material and baselines ----
	t0 := time.Now()
	k.Frost()
	k.Tap()
	k.Doerner()
	k.Pre()
	if k.problem != "" {
		res.Hard("key material: " + k.problem)
		res.Finish()
		return
	}
	keyS := time.Since(t0).Seconds()
	for i, fn := range fns {
		if !vkit.Want(fn.Name) {
			continue
		}
		base := fn.Base(k)
		if r := invalidReasons(fn, base); len(r) > 0 {
			res.Hard(fmt.Sprintf("the predicate calls the baseline of %s invalid: %v", fn.Name, r))
			continue
		}
		o := construct(fn, base.clone(), fn.Name+"|baseline", seed, 0, base.Self)
		if o.Kind != "accepted" || o.State != "running" {
			res.Hard(fmt.Sprintf("the valid baseline of %s is not accepted: %s %s %s %s", fn.Name, o.Kind, o.Err, o.Frame, o.State))
			continue
		}
		if !vkit.Mine(i) {
			continue
		}
		// the baseline really is a valid run: all parties finish
		res.Case(fn.Name + "|baseline")
		counts["cases_baseline_runs"]++
		f := runFollowUp(fn, k, base, o.party, fn.Name+"|baseline", seed)
		if !f.Ran || !f.ValidRun {
			res.Hard(fmt.Sprintf("the valid baseline of %s does not run to completion: %s", fn.Name, f.String()))
		}
	}

	// ---- singles ----
	thorough := vkit.Thorough()
	// thorough: every shard evaluates every single value completely (the verdicts decide whether
	// the failure of a pair is new), but books only its own
	type sres struct {
		o       *outcome
		invalid bool // the single value alone is a violation
	}
	single := map[string]*sres{}
	idx := 0
	for _, fn := range fns {
		if !vkit.Want(fn.Name) {
			continue
		}
		for _, prm := range fn.Params {
			for _, val := range latticeFor(fn, prm) {
				t := &tcase{fn: fn, vals: []badValue{val}}
				mine := vkit.Mine(idx)
				idx++
				if !mine && !thorough {
					continue
				}
				v := ev.evaluate(t, true)
				single[t.key()] = &sres{o: v.Outcome, invalid: v.Sig != ""}
				if !mine {
					continue
				}
				report(res, counts, t, v, val.Valid)
			}
		}
	}

	// ---- pairs ----
	if thorough {
		for _, fn := range fns {
			if !vkit.Want(fn.Name) {
				continue
			}
			for i := 0; i < len(fn.Params); i++ {
				for j := i + 1; j < len(fn.Params); j++ {
					for _, a := range latticeFor(fn, fn.Params[i]) {
						for _, b := range latticeFor(fn, fn.Params[j]) {
							mine := vkit.Mine(idx)
							idx++
							if !mine {
								continue
							}
							t := &tcase{fn: fn, vals: []badValue{a, b}}
							v := ev.evaluate(t, false)
							sa := single[(&tcase{fn: fn, vals: []badValue{a}}).key()]
							sb := single[(&tcase{fn: fn, vals: []badValue{b}}).key()]
							if v.Sig != "" && v.Sig != "harness" {
								if (sa != nil && sameFailure(v.Outcome, sa.o, sa.invalid)) || (sb != nil && sameFailure(v.Outcome, sb.o, sb.invalid)) {
									// nothing new: the same failure is reported for the component alone
									counts["pairs_failing_like_a_component_alone"]++
									v.Sig = ""
									res.Case(t.key())
									counts["cases_pairs"]++
									counts["outcome_"+v.Outcome.Kind]++
									continue
								}
								// the interaction is new: classify it fully
								v = ev.evaluate(t, true)
								if v.Sig != "" {
									counts["pairs_failing_unlike_their_components"]++
								}
							}
							counts["cases_pairs"]++
							report(res, counts, t, v, a.Valid && b.Valid)
						}
					}
				}
			}
		}
	}
	for kk, n := range counts {
		res.Extra[kk] = n
	}
	res.Extra["start_functions"] = fmt.Sprint(len(fns))
	if ev.skipped > 0 {
		res.Note(fmt.Sprintf("internal time budget reached: %d admitted sessions were not run against honest peers; these cases are undecided and not reported", ev.skipped))
		res.Exhaustive = false
	}
	var cs []string
	for kk, n := range counts {
		cs = append(cs, fmt.Sprintf("%s=%d", kk, n))
	}
	sort.Strings(cs)
	fmt.Fprintf(os.Stderr, "shard %d/%d: key material %.1fs, %d cases, %d violation signatures; %s\n", vkit.ShardI(), vkit.ShardN(), keyS, res.Evaluations, len(res.Violations), strings.Join(cs, " "))
	res.Finish()
}

var sampled = map[string]int{}

// report books one evaluated case.
func report(res *vkit.Result, counts map[string]int, t *tcase, v *verdict, intendedValid bool) {
	res.Case(t.key())
	if len(t.vals) == 1 {
		counts["cases_single_values"]++
	}
	if v.Sig == "harness" {
		res.Hard(t.key() + ": " + v.Detail)
		return
	}
	invalid := len(v.Reasons) > 0
	if invalid == intendedValid {
		res.Hard(fmt.Sprintf("%s: the lattice intends this tuple to be %s but the predicate says %v", t.key(), map[bool]string{true: "valid", false: "invalid"}[intendedValid], v.Reasons))
		return
	}
	counts["outcome_"+v.Outcome.Kind]++
	if !invalid {
		counts["valid_variations"]++
		if v.Outcome.Kind == "refused" {
			counts["valid_variations_refused"]++
		}
	}
	if v.Isolated {
		counts["evaluated_in_child_process"]++
	}
	if v.Follow != nil {
		counts["admitted_"+v.Follow.severity()]++
	}
	if v.Exempt {
		res.Note(fmt.Sprintf("%s with %s is admitted although the predicate objects (%s), and the session it starts runs VALIDLY against honest peers (reference accepts every result): the tuple can lead to a valid run, so it is outside the property and not counted", t.fn.Name, t.class(), strings.Join(v.Reasons, "; ")))
	}
	if sampled[v.Outcome.Kind] < 3 {
		sampled[v.Outcome.Kind]++
		s := map[string]interface{}{"function": t.fn.Name, "values": t.classes(), "predicate": v.Reasons, "outcome": v.Outcome.Kind, "error": v.Outcome.Err}
		if v.Follow != nil {
			s["follow_up"] = v.Follow.String()
		}
		res.Sample(s)
	}
	if v.Sig == "" {
		return
	}
	rp := replay{Fn: t.fn.Name, Classes: t.classes()}
	res.Violate(v.Sig, v.Detail, rp)
	for _, x := range v.Extra {
		res.Violate(x.Sig, x.Detail, rp)
	}
}

// rawPanicStack repeats a panicking constructor call and returns the stack (replay only).
func rawPanicStack(t *tcase, k *keyMat) (stack string) {
	base := t.fn.Base(k)
	p := t.tuple(base)
	done := make(chan struct{})
	go func() {
		defer close(done)
		defer func() {
			if r := recover(); r != nil {
				stack = string(debug.Stack())
			}
		}()
		sf := t.fn.Start(p)
		_, _ = sf(sessionID)
	}()
	<-done
	return
}
