package main

import (
	"bytes"
	"encoding/hex"
	"fmt"
	"io"
	"math/big"
	"strings"
	"testing/iotest"

	"github.com/taurusgroup/multi-party-sig/internal/zzverif/ref"
	"github.com/taurusgroup/multi-party-sig/internal/zzverif/vkit"
	"github.com/taurusgroup/multi-party-sig/pkg/ecdsa"
	"github.com/taurusgroup/multi-party-sig/pkg/math/curve"
	"github.com/taurusgroup/multi-party-sig/pkg/taproot"
)

// tcase is one concrete input tuple; it is also the replay descriptor (all inputs as hex).
type tcase struct {
	Kind string `json:"kind"` // ecdsa-verify | sigeth | point-decode | scalar-decode | bip340-pubkey | bip340-sign | bip340-verify
	Pert string `json:"pert"` // perturbation class: what distinguishes this input from an honest one (violations collapse on it)
	ID   string `json:"id"`   // case identity: class + parameters

	// ecdsa-verify, sigeth: 33-byte compressed encodings (or "identity"), 32-byte scalar, hash bytes
	Q    string `json:"q,omitempty"`
	R    string `json:"r,omitempty"`
	S    string `json:"s,omitempty"`
	Hash string `json:"hash,omitempty"`
	// point-decode, scalar-decode
	Data string `json:"data,omitempty"`
	// bip340-*
	SK      string `json:"sk,omitempty"`
	PK      string `json:"pk,omitempty"`
	Msg     string `json:"msg,omitempty"`
	Sig     string `json:"sig,omitempty"`
	Aux     string `json:"aux,omitempty"`
	NilRand bool   `json:"nil_rand,omitempty"`
	Want    string `json:"want,omitempty"` // published expectation (vector cases): hex bytes or "true"/"false"
}

type finding struct{ Sig, Detail string }

func unhex(s string) []byte {
	b, err := hex.DecodeString(s)
	if err != nil {
		panic("bad hex in case: " + s)
	}
	return b
}

func hx(b []byte) string { return hex.EncodeToString(b) }

// encPt is the canonical string of a reference point inside a tcase.
func encPt(p ref.Pt) string {
	if p.Inf {
		return "identity"
	}
	return hx(p.Compressed())
}

func refPoint(s string) (ref.Pt, error) {
	if s == "identity" {
		return ref.Infinity, nil
	}
	return ref.ParseCompressed(unhex(s))
}

func libPoint(s string) (curve.Point, error) {
	p := curve.Secp256k1{}.NewPoint()
	if s == "identity" {
		return p, nil
	}
	if err := p.UnmarshalBinary(unhex(s)); err != nil {
		return nil, err
	}
	return p, nil
}

func libScalar(s string) (curve.Scalar, error) {
	x := curve.Secp256k1{}.NewScalar()
	if err := x.UnmarshalBinary(unhex(s)); err != nil {
		return nil, err
	}
	return x, nil
}

// refECDSA: the standard equation on the transmitted nonce point.
func refECDSA(Q, R ref.Pt, s *big.Int, h []byte) bool {
	if Q.Inf || !Q.OnCurve() || R.Inf || !R.OnCurve() {
		return false
	}
	r := new(big.Int).Mod(R.X, ref.N)
	if r.Sign() == 0 || s.Sign() <= 0 || s.Cmp(ref.N) >= 0 {
		return false
	}
	return ref.ECDSANoncePoint(Q, h, r, s).Equal(R)
}

func evaluate(tc *tcase) (out []finding, info string) {
	defer func() {
		// a panic in the harness/reference itself (not inside vkit.Try) must not be mistaken for a verdict
		if r := recover(); r != nil {
			out = append(out, finding{"harness-panic|" + tc.Kind, fmt.Sprint(r)})
		}
	}()
	switch tc.Kind {
	case "point-decode":
		return evalPointDecode(tc)
	case "scalar-decode":
		return evalScalarDecode(tc)
	case "ecdsa-verify":
		return evalECDSA(tc)
	case "sigeth":
		return evalSigEth(tc)
	case "bip340-pubkey":
		return evalBIPPub(tc)
	case "bip340-sign":
		return evalBIPSign(tc)
	case "bip340-verify":
		return evalBIPVerify(tc)
	}
	return []finding{{"harness|unknown kind " + tc.Kind, ""}}, ""
}

func panicFinding(tc *tcase, msg, frame string) finding {
	return finding{fmt.Sprintf("panic|%s|%s|%s", tc.Kind, tc.Pert, frame), "panic: " + msg}
}

func evalPointDecode(tc *tcase) (out []finding, info string) {
	data := unhex(tc.Data)
	pt := curve.Secp256k1{}.NewPoint()
	var err error
	if p, msg, frame := vkit.Try(func() { err = pt.UnmarshalBinary(data) }); p {
		return []finding{panicFinding(tc, msg, frame)}, "panic"
	}
	want, refErr := ref.ParseCompressed(data)
	info = fmt.Sprintf("lib err=%v; ref err=%v", err, refErr)
	switch {
	case err == nil && refErr != nil:
		mb, _ := pt.MarshalBinary()
		out = append(out, finding{"point-decode|" + tc.Pert + "|lib accepts", fmt.Sprintf("UnmarshalBinary(%x) succeeds (decoded as %x); strict SEC1 decoding rejects: %v", data, mb, refErr)})
	case err != nil && refErr == nil:
		out = append(out, finding{"point-decode|" + tc.Pert + "|lib rejects", fmt.Sprintf("UnmarshalBinary(%x) fails (%v); reference decodes it", data, err)})
	case err == nil:
		var mb []byte
		if p, msg, frame := vkit.Try(func() { mb, _ = pt.MarshalBinary() }); p {
			return []finding{panicFinding(tc, msg, frame)}, "panic"
		}
		if !bytes.Equal(mb, want.Compressed()) || pt.IsIdentity() {
			out = append(out, finding{"point-decode|" + tc.Pert + "|different point", fmt.Sprintf("UnmarshalBinary(%x) re-encodes as %x, reference point is %x", data, mb, want.Compressed())})
		}
		info += fmt.Sprintf("; lib=%x ref=%x", mb, want.Compressed())
	}
	return
}

func evalScalarDecode(tc *tcase) (out []finding, info string) {
	data := unhex(tc.Data)
	x := curve.Secp256k1{}.NewScalar()
	var err error
	if p, msg, frame := vkit.Try(func() { err = x.UnmarshalBinary(data) }); p {
		return []finding{panicFinding(tc, msg, frame)}, "panic"
	}
	refOK := len(data) == 32 && new(big.Int).SetBytes(data).Cmp(ref.N) < 0
	info = fmt.Sprintf("lib err=%v; ref accepts=%v", err, refOK)
	switch {
	case err == nil && !refOK:
		mb, _ := x.MarshalBinary()
		out = append(out, finding{"scalar-decode|" + tc.Pert + "|lib accepts", fmt.Sprintf("UnmarshalBinary(%x) succeeds (value %x); a canonical scalar is 32 bytes < n", data, mb)})
	case err != nil && refOK:
		out = append(out, finding{"scalar-decode|" + tc.Pert + "|lib rejects", fmt.Sprintf("UnmarshalBinary(%x) fails: %v", data, err)})
	case err == nil:
		mb, _ := x.MarshalBinary()
		zero := new(big.Int).SetBytes(data).Sign() == 0
		if !bytes.Equal(mb, data) || x.IsZero() != zero {
			out = append(out, finding{"scalar-decode|" + tc.Pert + "|different value", fmt.Sprintf("UnmarshalBinary(%x) re-encodes as %x, IsZero=%v", data, mb, x.IsZero())})
		}
	}
	return
}

// buildECDSA decodes the case's canonical encodings on both sides.
func buildECDSA(tc *tcase) (X curve.Point, sig ecdsa.Signature, Q, R ref.Pt, s *big.Int, h []byte, out []finding) {
	var err error
	h = unhex(tc.Hash)
	s = new(big.Int).SetBytes(unhex(tc.S))
	if Q, err = refPoint(tc.Q); err != nil {
		panic("case has a non-canonical Q: " + err.Error())
	}
	if R, err = refPoint(tc.R); err != nil {
		panic("case has a non-canonical R: " + err.Error())
	}
	fail := func(what string, err error) {
		out = append(out, finding{"input-decode|" + what + "|lib rejects canonical encoding", fmt.Sprintf("%v (q=%s r=%s s=%s)", err, tc.Q, tc.R, tc.S)})
	}
	if p, msg, frame := vkit.Try(func() {
		if X, err = libPoint(tc.Q); err != nil {
			fail("point", err)
		}
		if sig.R, err = libPoint(tc.R); err != nil {
			fail("point", err)
		}
		if sig.S, err = libScalar(tc.S); err != nil {
			fail("scalar", err)
		}
	}); p {
		out = append(out, panicFinding(tc, msg, frame))
	}
	return
}

func evalECDSA(tc *tcase) (out []finding, info string) {
	X, sig, Q, R, s, h, out := buildECDSA(tc)
	if len(out) > 0 {
		return out, "inputs could not be built"
	}
	var libV bool
	if p, msg, frame := vkit.Try(func() { libV = sig.Verify(X, h) }); p {
		return []finding{panicFinding(tc, msg, frame)}, "panic"
	}
	refV := refECDSA(Q, R, s, h)
	info = fmt.Sprintf("lib Verify=%v; reference (r,s != 0, Q valid, s^-1(eG+rQ) == R)=%v", libV, refV)
	if libV != refV {
		out = append(out, finding{fmt.Sprintf("ecdsa-verify|lib=%v ref=%v|%s", libV, refV, tc.Pert),
			fmt.Sprintf("Q=%s R=%s s=%s hash=%s", tc.Q, tc.R, tc.S, tc.Hash)})
	}
	// history: the same key and nonce-point OBJECTS after they have been used by the accessors that normalise a
	// point in place (Equal, XScalar, XBytes, HasEvenY, IsIdentity, MarshalBinary): the verdict must not change
	var libV2 bool
	if p, msg, frame := vkit.Try(func() {
		for _, pt := range []curve.Point{X, sig.R} {
			_ = pt.Equal(pt)
			_ = pt.XScalar()
			_ = pt.IsIdentity()
			if sp, ok := pt.(*curve.Secp256k1Point); ok {
				_ = sp.XBytes()
				_ = sp.HasEvenY()
			}
			_, _ = pt.MarshalBinary()
		}
		libV2 = sig.Verify(X, h)
	}); p {
		return append(out, panicFinding(tc, msg, frame)), "panic"
	}
	if libV2 != refV && libV == refV {
		out = append(out, finding{fmt.Sprintf("ecdsa-verify|after-use lib=%v ref=%v|%s", libV2, refV, tc.Pert),
			fmt.Sprintf("verdict changes once the key / nonce point objects have been through Equal, XScalar, XBytes, HasEvenY: Q=%s R=%s s=%s hash=%s", tc.Q, tc.R, tc.S, tc.Hash)})
	}
	return
}

var halfN = new(big.Int).Rsh(ref.N, 1) // (n-1)/2

func evalSigEth(tc *tcase) (out []finding, info string) {
	X, sig, Q, R, s, h, out := buildECDSA(tc)
	if len(out) > 0 {
		return out, "inputs could not be built"
	}
	if !refECDSA(Q, R, s, h) {
		panic("sigeth case is not a valid signature under the reference")
	}
	add := func(class, detail string) {
		out = append(out, finding{"sigeth|" + tc.Pert + "|" + class, detail + fmt.Sprintf(" (Q=%s R=%s s=%s hash=%s)", tc.Q, tc.R, tc.S, tc.Hash)})
	}
	var before, after bool
	var eth []byte
	var err error
	if p, msg, frame := vkit.Try(func() {
		before = sig.Verify(X, h)
		eth, err = sig.SigEthereum()
		after = sig.Verify(X, h)
	}); p {
		return []finding{panicFinding(tc, msg, frame)}, "panic"
	}
	info = fmt.Sprintf("Verify before=%v; SigEthereum=%x err=%v; Verify after=%v", before, eth, err, after)
	if !before {
		add("valid signature rejected before export", "")
	}
	xGEn := R.X.Cmp(ref.N) >= 0
	if err != nil {
		if !xGEn {
			add("error", "SigEthereum returned "+err.Error())
		}
	} else if len(eth) != 65 {
		add("length", fmt.Sprintf("output has %d bytes", len(eth)))
	} else {
		er, es, v := new(big.Int).SetBytes(eth[:32]), new(big.Int).SetBytes(eth[32:64]), eth[64]
		if es.Cmp(halfN) > 0 {
			add("high-s", fmt.Sprintf("exported s=%x > n/2", es))
		}
		if v > 1 {
			add("v out of range", fmt.Sprintf("v=%d", v))
		}
		rec, rerr := ref.EcRecover(h, er, es, v)
		switch {
		case rerr != nil:
			add("recover fails", fmt.Sprintf("ecrecover(hash, r=%x, s=%x, v=%d): %v", er, es, v, rerr))
		case !rec.Equal(Q):
			add("recovers another key", fmt.Sprintf("ecrecover(hash, r=%x, s=%x, v=%d) = %s", er, es, v, encPt(rec)))
		}
		if rerr == nil && !ref.ECDSAVerify(Q, h, er, es) {
			add("exported signature invalid", fmt.Sprintf("standard (r,s) verification of r=%x s=%x fails", er, es))
		}
	}
	// the original value must still be a valid signature, under the library and the reference
	if !after {
		add("original invalid afterwards (lib)", "")
	}
	rb, _ := sig.R.MarshalBinary()
	sb, _ := sig.S.MarshalBinary()
	xb, _ := X.MarshalBinary()
	R2, e1 := ref.ParseCompressed(rb)
	if e1 != nil || !refECDSA(Q, R2, new(big.Int).SetBytes(sb), h) {
		add("original invalid afterwards (ref)", fmt.Sprintf("after the call the caller's signature is R=%x s=%x", rb, sb))
	}
	if hx(xb) != tc.Q {
		add("public key mutated", fmt.Sprintf("now %x", xb))
	}
	if hx(rb) != tc.R || hx(sb) != tc.S {
		info += fmt.Sprintf("; original mutated through the interface pointers: now R=%x s=%x", rb, sb)
	}
	return
}

func evalBIPPub(tc *tcase) (out []finding, info string) {
	sk := unhex(tc.SK)
	var pk taproot.PublicKey
	var err error
	if p, msg, frame := vkit.Try(func() { pk, err = taproot.SecretKey(sk).Public() }); p {
		return []finding{panicFinding(tc, msg, frame)}, "panic"
	}
	want, rerr := ref.BIP340PubKey(sk)
	info = fmt.Sprintf("lib pk=%x err=%v; ref pk=%x err=%v", []byte(pk), err, want, rerr)
	switch {
	case (err == nil) != (rerr == nil):
		out = append(out, finding{fmt.Sprintf("bip340-pubkey|%s|lib ok=%v ref ok=%v", tc.Pert, err == nil, rerr == nil), info})
	case err == nil && !bytes.Equal(pk, want):
		out = append(out, finding{"bip340-pubkey|" + tc.Pert + "|differs from reference", info})
	}
	if tc.Want != "" && err == nil && !strings.EqualFold(hx(pk), tc.Want) {
		out = append(out, finding{"bip340-pubkey|" + tc.Pert + "|differs from published vector", info + " published " + tc.Want})
	}
	return
}

func evalBIPSign(tc *tcase) (out []finding, info string) {
	sk, msg, aux := unhex(tc.SK), unhex(tc.Msg), unhex(tc.Aux)
	var rd io.Reader
	if !tc.NilRand {
		rd = bytes.NewReader(aux) // Sign reads exactly 32 bytes of auxiliary randomness with io.ReadFull
	}
	var sig taproot.Signature
	var err error
	if p, m, frame := vkit.Try(func() { sig, err = taproot.SecretKey(sk).Sign(rd, msg) }); p {
		return []finding{panicFinding(tc, m, frame)}, "panic"
	}
	want, rerr := ref.BIP340Sign(sk, msg, aux)
	info = fmt.Sprintf("lib sig=%x err=%v; ref sig=%x err=%v", []byte(sig), err, want, rerr)
	// legal readers that do not fill the buffer in one call (one byte at a time; the last data together with
	// io.EOF): the auxiliary randomness is the 32 bytes the reader delivers, however it delivers them
	if !tc.NilRand && len(aux) == 32 {
		for name, mk := range map[string]func() io.Reader{
			"one byte per read": func() io.Reader { return iotest.OneByteReader(bytes.NewReader(aux)) },
			"half reads":        func() io.Reader { return iotest.HalfReader(bytes.NewReader(aux)) },
			"data with EOF":     func() io.Reader { return iotest.DataErrReader(bytes.NewReader(aux)) },
		} {
			var s2 taproot.Signature
			var e2 error
			if p, m, frame := vkit.Try(func() { s2, e2 = taproot.SecretKey(sk).Sign(mk(), msg) }); p {
				return []finding{panicFinding(tc, m, frame)}, "panic"
			}
			if (e2 == nil) != (err == nil) || !bytes.Equal(s2, sig) {
				out = append(out, finding{"bip340-sign|" + tc.Pert + "|depends on how the reader delivers the 32 auxiliary bytes",
					fmt.Sprintf("reader %q: sig=%x err=%v; bytes.Reader: sig=%x err=%v", name, []byte(s2), e2, []byte(sig), err)})
				break
			}
		}
	}
	if (err == nil) != (rerr == nil) {
		return []finding{{fmt.Sprintf("bip340-sign|%s|lib ok=%v ref ok=%v", tc.Pert, err == nil, rerr == nil), info}}, info
	}
	if err != nil {
		return
	}
	pk, _ := ref.BIP340PubKey(sk)
	if !ref.BIP340Verify(pk, msg, sig) {
		out = append(out, finding{"bip340-sign|" + tc.Pert + "|output rejected by reference verifier", info})
	}
	var libV bool
	if p, m, frame := vkit.Try(func() { libV = taproot.PublicKey(pk).Verify(sig, msg) }); p {
		out = append(out, panicFinding(tc, m, frame))
	} else if !libV {
		out = append(out, finding{"bip340-sign|" + tc.Pert + "|output rejected by library verifier", info})
	}
	if !tc.NilRand && !bytes.Equal(sig, want) {
		out = append(out, finding{"bip340-sign|" + tc.Pert + "|differs from reference", info})
	}
	if tc.Want != "" && !strings.EqualFold(hx(sig), tc.Want) {
		out = append(out, finding{"bip340-sign|" + tc.Pert + "|differs from published vector", info + " published " + tc.Want})
	}
	return
}

func evalBIPVerify(tc *tcase) (out []finding, info string) {
	pk, msg, sig := unhex(tc.PK), unhex(tc.Msg), unhex(tc.Sig)
	var libV bool
	if p, m, frame := vkit.Try(func() { libV = taproot.PublicKey(pk).Verify(taproot.Signature(sig), msg) }); p {
		return []finding{panicFinding(tc, m, frame)}, "panic"
	}
	refV := ref.BIP340Verify(pk, msg, sig)
	info = fmt.Sprintf("lib Verify=%v; BIP-340 reference=%v (pk %d bytes, sig %d bytes, msg %d bytes)", libV, refV, len(pk), len(sig), len(msg))
	if libV != refV {
		out = append(out, finding{fmt.Sprintf("bip340-verify|%s|lib=%v ref=%v", tc.Pert, libV, refV), fmt.Sprintf("pk=%x msg=%x sig=%x", pk, msg, sig)})
	}
	if tc.Want != "" && fmt.Sprint(libV) != tc.Want {
		out = append(out, finding{fmt.Sprintf("bip340-verify|%s|lib=%v published=%s", tc.Pert, libV, tc.Want), fmt.Sprintf("pk=%x msg=%x sig=%x", pk, msg, sig)})
	}
	return
}
