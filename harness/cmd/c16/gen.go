package main

import (
	"fmt"
	"io"
	"math/big"
	"strings"

	"github.com/taurusgroup/multi-party-sig/internal/zzverif/drv"
	"github.com/taurusgroup/multi-party-sig/internal/zzverif/ref"
	"github.com/taurusgroup/multi-party-sig/internal/zzverif/vkit"
)

var (
	bigOne  = big.NewInt(1)
	two256  = new(big.Int).Lsh(bigOne, 256)
	max256  = new(big.Int).Sub(two256, bigOne)
	nMinus1 = new(big.Int).Sub(ref.N, bigOne)
	pMinus1 = new(big.Int).Sub(ref.P, bigOne)
)

func b32(x *big.Int) []byte {
	out := make([]byte, 32)
	x.FillBytes(out) // panics if x >= 2^256: callers stay below
	return out
}

func modN(x *big.Int) *big.Int { return new(big.Int).Mod(x, ref.N) }

func drawScalar(r io.Reader) *big.Int {
	for {
		b := make([]byte, 32)
		r.Read(b)
		x := new(big.Int).SetBytes(b)
		if x.Sign() != 0 && x.Cmp(ref.N) < 0 {
			return x
		}
	}
}

// ecdsaSign is textbook ECDSA with an explicit nonce, returning the full nonce point.
func ecdsaSign(d, k *big.Int, h []byte) (ref.Pt, *big.Int) {
	R := ref.MulG(k)
	r := modN(R.X)
	e := ref.HashToInt(h)
	s := new(big.Int).Mul(r, d)
	s.Add(s, e)
	s.Mul(s, new(big.Int).ModInverse(k, ref.N))
	return R, modN(s)
}

// craftBIP340 builds a 64-byte string the way the holder of secret d would, with the challenge
// computed over arbitrary public-key bytes pkBytes:
//
//	evenR: the honest construction (R normalised to even Y);
//	oddR:  R = kG chosen with odd Y and s = k + e d, so that sG - eP = R has the right x but odd Y;
//	infR:  r taken from rOverride and s = e d, so that sG - eP is the point at infinity.
func craftBIP340(d *big.Int, pkBytes, msg []byte, k *big.Int, mode string, rOverride []byte) []byte {
	Pp := ref.MulG(d)
	dd := new(big.Int).Set(d)
	if Pp.Y.Bit(0) == 1 {
		dd.Sub(ref.N, dd)
	}
	var rb []byte
	kk := new(big.Int)
	switch mode {
	case "evenR", "oddR":
		R := ref.MulG(k)
		kk.Set(k)
		if (R.Y.Bit(0) == 1) != (mode == "oddR") {
			kk.Sub(ref.N, kk)
		}
		rb = R.XBytes()
	case "infR":
		rb = rOverride
	default:
		panic("craft mode")
	}
	e := new(big.Int).SetBytes(ref.TaggedHash("BIP0340/challenge", rb, pkBytes, msg))
	s := modN(new(big.Int).Add(kk, new(big.Int).Mul(modN(e), dd)))
	return append(append([]byte{}, rb...), b32(s)...)
}

type keyT struct {
	Name string
	D    *big.Int
	Q    ref.Pt
}

type msgT struct {
	Name string
	B    []byte
}

type env struct {
	keys   []keyT
	msgs   []msgT
	nonces []keyT // name + scalar (Q unused)
	auxs   []msgT
	xOn1   *big.Int // smallest x >= 1 on the curve
	xOff1  *big.Int // smallest x >= 1 not on the curve
}

func onCurveX(x *big.Int) bool { _, err := ref.LiftX(x); return err == nil }

// scan returns the first x in start, start+step, ... with the requested curve membership.
func scan(start *big.Int, step int64, on bool) *big.Int {
	x := new(big.Int).Set(start)
	for i := 0; i < 10000; i++ {
		if x.Sign() >= 0 && x.Cmp(ref.P) < 0 && onCurveX(x) == on {
			return x
		}
		x = new(big.Int).Add(x, big.NewInt(step))
	}
	panic("scan: nothing found")
}

func buildEnv() *env {
	e := &env{}
	seed := *vkit.Seed
	add := func(name string, d *big.Int) { e.keys = append(e.keys, keyT{name, d, ref.MulG(d)}) }
	add("1", big.NewInt(1))
	add("2", big.NewInt(2))
	add("3", big.NewInt(3))
	add("n-1", new(big.Int).Sub(ref.N, big.NewInt(1)))
	add("n-2", new(big.Int).Sub(ref.N, big.NewInt(2)))
	// smallest d whose public key has a leading zero byte in x (matters for fixed-width encodings and
	// for truncated public keys); found by repeated addition of G
	{
		Pd, d := ref.G, int64(1)
		for Pd.X.BitLen() > 248 {
			Pd = ref.Add(Pd, ref.G)
			d++
			if d > 1<<20 {
				panic("no leading-zero key found")
			}
		}
		e.keys = append(e.keys, keyT{"lz", big.NewInt(d), Pd})
	}
	nseed := 3
	if vkit.Thorough() {
		nseed = 8
	}
	for i := 0; i < nseed; i++ {
		add(fmt.Sprintf("seed%d", i), drawScalar(drv.NewDRBG(fmt.Sprintf("c16-key-%d", i), seed)))
	}
	for _, l := range []int{1, 20, 31, 32, 33, 64, 100} {
		b := make([]byte, l)
		drv.NewDRBG(fmt.Sprintf("c16-msg-%d", l), seed).Read(b)
		e.msgs = append(e.msgs, msgT{fmt.Sprintf("len%d", l), b})
	}
	ff := make([]byte, 32)
	for i := range ff {
		ff[i] = 0xff
	}
	e.msgs = append(e.msgs, msgT{"zero32", make([]byte, 32)}, msgT{"ff32", ff})
	nn := 1
	if vkit.Thorough() {
		nn = 3
	}
	for i := 0; i < nn; i++ {
		e.nonces = append(e.nonces, keyT{Name: fmt.Sprintf("seed%d", i), D: drawScalar(drv.NewDRBG(fmt.Sprintf("c16-nonce-%d", i), seed))})
	}
	e.nonces = append(e.nonces, keyT{Name: "1", D: big.NewInt(1)}, keyT{Name: "n-1", D: new(big.Int).Set(nMinus1)})
	if vkit.Thorough() {
		e.nonces = append(e.nonces, keyT{Name: "2", D: big.NewInt(2)}, keyT{Name: "n-2", D: new(big.Int).Sub(ref.N, big.NewInt(2))})
	}
	sa := make([]byte, 32)
	drv.NewDRBG("c16-aux", seed).Read(sa)
	e.auxs = []msgT{{"zero", make([]byte, 32)}, {"ff", ff}, {"seeded", sa}}
	e.xOn1 = scan(big.NewInt(1), 1, true)
	e.xOff1 = scan(big.NewInt(1), 1, false)
	return e
}

type group struct {
	name string
	gen  func(emit func(tcase))
}

func buildGroups(e *env) []group {
	var gs []group
	for ki := range e.keys {
		for mi := range e.msgs {
			ki, mi := ki, mi
			gs = append(gs, group{fmt.Sprintf("ecdsa|key=%s|msg=%s", e.keys[ki].Name, e.msgs[mi].Name), func(emit func(tcase)) { genECDSA(e, ki, mi, emit) }})
			gs = append(gs, group{fmt.Sprintf("bip340|key=%s|msg=%s", e.keys[ki].Name, e.msgs[mi].Name), func(emit func(tcase)) { genBIP(e, ki, mi, emit) }})
		}
	}
	for _, xc := range rXClasses() {
		for mi := range e.msgs {
			xc, mi := xc, mi
			gs = append(gs, group{fmt.Sprintf("ecdsa-rlattice|%s|msg=%s", xc.Name, e.msgs[mi].Name), func(emit func(tcase)) { genRLattice(e, xc, mi, emit) }})
		}
	}
	for _, xv := range pointXValues(e) {
		xv := xv
		gs = append(gs, group{"point-decode|" + xv.Name, func(emit func(tcase)) { genPointPrefixes(xv, emit) }})
	}
	gs = append(gs, group{"point-decode|lengths", func(emit func(tcase)) { genPointLengths(e, emit) }})
	gs = append(gs, group{"scalar-decode", func(emit func(tcase)) { genScalars(emit) }})
	gs = append(gs, group{"bip340-keys", func(emit func(tcase)) { genBIPKeys(e, emit) }})
	gs = append(gs, group{"bip340-vectors", func(emit func(tcase)) { genVectors(emit) }})
	return gs
}

// ---- ECDSA on the key x message x nonce lattice ---------------------------------------------

func flip(b []byte, i int, mask byte) []byte {
	c := append([]byte{}, b...)
	c[i] ^= mask
	return c
}

func shortInt(v, honest *big.Int) string {
	if v.Cmp(honest) == 0 {
		return "honest"
	}
	if v.Cmp(nMinus1) == 0 {
		return "n-1"
	}
	return v.String()
}

func genECDSA(e *env, ki, mi int, emit func(tcase)) {
	key, msg := e.keys[ki], e.msgs[mi]
	other := e.keys[(ki+1)%len(e.keys)]
	for _, nc := range e.nonces {
		R, s := ecdsaSign(key.D, nc.D, msg.B)
		if s.Sign() == 0 || modN(R.X).Sign() == 0 {
			continue // cannot happen for these values; a textbook signer would draw another nonce
		}
		id := fmt.Sprintf("key=%s|msg=%s|k=%s", key.Name, msg.Name, nc.Name)
		mk := func(pert string, Q, Rp ref.Pt, sv *big.Int, h []byte) {
			emit(tcase{Kind: "ecdsa-verify", Pert: pert, ID: "ecdsa-verify|" + id + "|" + pert, Q: encPt(Q), R: encPt(Rp), S: hx(b32(modN(sv))), Hash: hx(h)})
		}
		ns := new(big.Int).Sub(ref.N, s)
		mk("valid", key.Q, R, s, msg.B)
		mk("s=0", key.Q, R, big.NewInt(0), msg.B)
		mk("s=1", key.Q, R, big.NewInt(1), msg.B)
		mk("s=n-1", key.Q, R, nMinus1, msg.B)
		mk("s negated", key.Q, R, ns, msg.B)
		mk("s+1", key.Q, R, new(big.Int).Add(s, bigOne), msg.B)
		mk("s-1", key.Q, R, new(big.Int).Sub(s, bigOne), msg.B)
		mk("R negated", key.Q, R.Neg(), s, msg.B)
		mk("R and s negated", key.Q, R.Neg(), ns, msg.B)
		mk("R=R+G", key.Q, ref.Add(R, ref.G), s, msg.B)
		mk("R=2R", key.Q, ref.Add(R, R), s, msg.B)
		mk("R=Q", key.Q, key.Q, s, msg.B)
		mk("R=G", key.Q, ref.G, s, msg.B)
		mk("R=identity", key.Q, ref.Infinity, s, msg.B)
		mk("R=identity, s=0", key.Q, ref.Infinity, big.NewInt(0), msg.B) // the one double edit: with both zero checks gone 0^-1(..) = identity = R
		// hash edits; beyond the 32nd byte they must not matter, before it they must
		mk("hash first bit flipped", key.Q, R, s, flip(msg.B, 0, 0x80))
		mk("hash last bit flipped", key.Q, R, s, flip(msg.B, len(msg.B)-1, 1))
		mk("hash byte appended", key.Q, R, s, append(append([]byte{}, msg.B...), 0))
		mk("hash last byte dropped", key.Q, R, s, msg.B[:len(msg.B)-1])
		mk("hash zero byte prepended", key.Q, R, s, append([]byte{0}, msg.B...))
		mk("hash empty", key.Q, R, s, nil)
		if len(msg.B) > 32 {
			mk("hash truncated to 32", key.Q, R, s, msg.B[:32])
		}
		// key edits
		mk("key=other", other.Q, R, s, msg.B)
		mk("key negated", key.Q.Neg(), R, s, msg.B)
		mk("key=identity", ref.Infinity, R, s, msg.B)
		// with the identity as public key anybody can solve the equation: R = s^-1 e G
		eInt := ref.HashToInt(msg.B)
		forged := ref.MulG(new(big.Int).Mul(eInt, new(big.Int).ModInverse(s, ref.N)))
		mk("key=identity, R=s^-1 e G", ref.Infinity, forged, s, msg.B)

		// the digest for which e*G + r*Q is the point at infinity (e = -r*d mod n): s^-1 * infinity is the
		// identity, which is not R, whatever s is - a point comparison that treats the identity as equal to
		// anything (projective cross-multiplication with Z = 0) would accept every s
		rInt := modN(R.X)
		eDeg := modN(new(big.Int).Neg(new(big.Int).Mul(rInt, key.D)))
		for _, sv := range []*big.Int{s, big.NewInt(1), big.NewInt(2), nMinus1} {
			mk(fmt.Sprintf("hash=-r*d (sum is infinity), s=%s", shortInt(sv, s)), key.Q, R, sv, b32(eDeg))
		}

		// Ethereum export of both valid forms (one of them has s > n/2)
		emit(tcase{Kind: "sigeth", Pert: "lattice signature", ID: "sigeth|" + id + "|valid", Q: encPt(key.Q), R: encPt(R), S: hx(b32(s)), Hash: hx(msg.B)})
		emit(tcase{Kind: "sigeth", Pert: "lattice signature", ID: "sigeth|" + id + "|R and s negated", Q: encPt(key.Q), R: encPt(R.Neg()), S: hx(b32(ns)), Hash: hx(msg.B)})
	}
}

// ---- ECDSA with the nonce point's x-coordinate on the r-lattice (key solved for) --------------

type xClass struct {
	Name string
	X    *big.Int
}

func rXClasses() []xClass {
	return []xClass{
		{"R.x~1", scan(big.NewInt(1), 1, true)},
		{"R.x~n-1", scan(nMinus1, -1, true)},
		{"R.x>=n", scan(ref.N, 1, true)},                             // x = n is on the curve: r = 0 with a perfectly good point
		{"R.x>=n+1", scan(new(big.Int).Add(ref.N, bigOne), 1, true)}, // r = x - n, small and non-zero
		{"R.x~p-1", scan(pMinus1, -1, true)},
	}
}

func genRLattice(e *env, xc xClass, mi int, emit func(tcase)) {
	msg := e.msgs[mi]
	even, err := ref.LiftX(xc.X)
	if err != nil {
		panic(err)
	}
	r := modN(xc.X)
	eInt := ref.HashToInt(msg.B)
	half := new(big.Int).Rsh(ref.N, 1)
	svals := []keyT{{Name: "1", D: big.NewInt(1)}, {Name: "(n-1)/2", D: half}, {Name: "(n+1)/2", D: new(big.Int).Add(half, bigOne)}, {Name: "n-1", D: nMinus1},
		{Name: "seeded", D: drawScalar(drv.NewDRBG("c16-rl-s|"+xc.Name+"|"+msg.Name, *vkit.Seed))}}
	for pi, R := range []ref.Pt{even, even.Neg()} {
		for _, sv := range svals {
			s := sv.D
			id := fmt.Sprintf("%s=%x|y%s|msg=%s|s=%s", xc.Name, xc.X, []string{"even", "odd"}[pi], msg.Name, sv.Name)
			var Q ref.Pt
			if r.Sign() == 0 {
				Q = e.keys[0].Q // r = 0: no key can make this valid
			} else {
				// Q = r^-1 (sR - eG)
				Q = ref.Mul(new(big.Int).ModInverse(r, ref.N), ref.Add(ref.Mul(s, R), ref.MulG(eInt).Neg()))
			}
			if Q.Inf {
				continue
			}
			mk := func(pert string, Rp ref.Pt, sv *big.Int) {
				emit(tcase{Kind: "ecdsa-verify", Pert: xc.Name + " " + pert, ID: "ecdsa-verify|" + id + "|" + pert, Q: encPt(Q), R: encPt(Rp), S: hx(b32(modN(sv))), Hash: hx(msg.B)})
			}
			mk("valid", R, s)
			mk("R negated", R.Neg(), s)
			mk("s negated", R, new(big.Int).Sub(ref.N, s))
			mk("R and s negated", R.Neg(), new(big.Int).Sub(ref.N, s))
			if r.Sign() != 0 {
				pert := xc.Name
				if xc.X.Cmp(ref.N) >= 0 {
					pert = "R.x>=n" // one class: no (r, v in {0,1}) form exists for such a nonce point
				}
				emit(tcase{Kind: "sigeth", Pert: pert, ID: "sigeth|" + id, Q: encPt(Q), R: encPt(R), S: hx(b32(s)), Hash: hx(msg.B)})
			}
		}
	}
}

// ---- decoding ---------------------------------------------------------------------------------

type xVal struct {
	Name  string
	X     *big.Int // < 2^256
	Valid bool     // x < p and on the curve
}

func pointXValues(e *env) []xVal {
	G2 := ref.Add(ref.G, ref.G)
	var lz, sd keyT
	for _, k := range e.keys {
		if k.Name == "lz" {
			lz = k
		}
		if k.Name == "seed0" {
			sd = k
		}
	}
	return []xVal{
		{"x=Gx", ref.Gx, true},
		{"x=(2G).x", G2.X, true},
		{"x=seeded point", sd.Q.X, true},
		{"x with leading zero byte", lz.Q.X, true},
		{"x=smallest on curve", e.xOn1, true},
		{"x=largest on curve", scan(pMinus1, -1, true), true},
		{"x=first on curve >= n", scan(ref.N, 1, true), true},
		{"x=0 (off curve)", big.NewInt(0), false},
		{"x=smallest off curve", e.xOff1, false},
		{"x off curve near Gx", scan(new(big.Int).Add(ref.Gx, bigOne), 1, false), false},
		{"x=p-1 or below, off curve", scan(pMinus1, -1, false), false},
		{"x=p", new(big.Int).Set(ref.P), false},
		{"x=p+1", new(big.Int).Add(ref.P, bigOne), false},
		{"x=p+(on-curve x)", new(big.Int).Add(ref.P, e.xOn1), false},
		{"x=2^256-1", new(big.Int).Set(max256), false},
	}
}

func prefixClass(b byte) string {
	switch b {
	case 0x00, 0x01, 0x04, 0x05, 0xff:
		return fmt.Sprintf("prefix=0x%02x", b)
	}
	return "prefix=other"
}

func genPointPrefixes(xv xVal, emit func(tcase)) {
	for pre := 0; pre < 256; pre++ {
		data := append([]byte{byte(pre)}, b32(xv.X)...)
		pert := xv.Name
		if xv.Valid {
			if pre == 2 || pre == 3 {
				pert = "canonical"
			} else {
				pert = prefixClass(byte(pre))
			}
		}
		emit(tcase{Kind: "point-decode", Pert: pert, ID: fmt.Sprintf("point-decode|%s|prefix=0x%02x", xv.Name, pre), Data: hx(data)})
	}
}

func genPointLengths(e *env, emit func(tcase)) {
	g := ref.G.Compressed()
	mk := func(name string, data []byte) {
		emit(tcase{Kind: "point-decode", Pert: fmt.Sprintf("len=%d", len(data)), ID: "point-decode|lengths|" + name, Data: hx(data)})
	}
	mk("empty", nil)
	mk("1 byte 00", []byte{0})
	mk("1 byte 02", []byte{2})
	mk("x only (32)", g[1:])
	mk("32: prefix + 31 bytes", g[:32])
	mk("34: encoding + 00", append(append([]byte{}, g...), 0))
	mk("34: 00 + encoding", append([]byte{0}, g...))
	mk("34: 02 + 00 + x", append([]byte{2, 0}, g[1:]...))
	unc := append([]byte{4}, ref.G.XBytes()...)
	unc = append(unc, b32(ref.G.Y)...)
	mk("65: uncompressed 04|x|y", unc)
	mk("66: encoding twice", append(append([]byte{}, g...), g...))
	emit(tcase{Kind: "point-decode", Pert: "33 zero bytes", ID: "point-decode|lengths|33 zero bytes", Data: hx(make([]byte, 33))})
}

func genScalars(emit func(tcase)) {
	half := new(big.Int).Rsh(ref.N, 1)
	vals := []keyT{{Name: "0", D: big.NewInt(0)}, {Name: "1", D: big.NewInt(1)}, {Name: "(n-1)/2", D: half}, {Name: "(n+1)/2", D: new(big.Int).Add(half, bigOne)},
		{Name: "n-1", D: nMinus1}, {Name: "n", D: ref.N}, {Name: "n+1", D: new(big.Int).Add(ref.N, bigOne)}, {Name: "p-1", D: pMinus1}, {Name: "p", D: ref.P}, {Name: "2^256-1", D: max256}}
	for _, v := range vals {
		emit(tcase{Kind: "scalar-decode", Pert: "value=" + v.Name, ID: "scalar-decode|value=" + v.Name, Data: hx(b32(v.D))})
	}
	one := b32(big.NewInt(1))
	mk := func(name string, data []byte) {
		emit(tcase{Kind: "scalar-decode", Pert: fmt.Sprintf("len=%d", len(data)), ID: "scalar-decode|" + name, Data: hx(data)})
	}
	mk("empty", nil)
	mk("31 bytes (value 1)", one[1:])
	mk("33 bytes 00|1", append([]byte{0}, one...))
	mk("33 bytes 1|00", append(append([]byte{}, one...), 0))
	mk("64 bytes", append(append([]byte{}, one...), one...))
	mk("1 byte", []byte{1})
}

// ---- BIP-340 ----------------------------------------------------------------------------------

var bipLattice = []keyT{{Name: "0", D: big.NewInt(0)}, {Name: "1", D: big.NewInt(1)}, {Name: "n-1", D: nMinus1}, {Name: "n", D: ref.N},
	{Name: "p-1", D: pMinus1}, {Name: "p", D: ref.P}, {Name: "2^256-1", D: max256}}

func cat(parts ...[]byte) []byte {
	var out []byte
	for _, p := range parts {
		out = append(out, p...)
	}
	return out
}

func genBIP(e *env, ki, mi int, emit func(tcase)) {
	key, msg := e.keys[ki], e.msgs[mi]
	other := e.keys[(ki+1)%len(e.keys)]
	sk := b32(key.D)
	pk := key.Q.XBytes()
	id := fmt.Sprintf("key=%s|msg=%s", key.Name, msg.Name)

	// Sign with fixed auxiliary randomness: bytes must equal the reference
	for _, a := range e.auxs {
		emit(tcase{Kind: "bip340-sign", Pert: "aux=" + a.Name, ID: "bip340-sign|" + id + "|aux=" + a.Name, SK: hx(sk), Msg: hx(msg.B), Aux: hx(a.B)})
	}
	emit(tcase{Kind: "bip340-sign", Pert: "nil reader (counter)", ID: "bip340-sign|" + id + "|nil reader", SK: hx(sk), Msg: hx(msg.B), NilRand: true})

	// Verify: a reference-made signature and its perturbations
	base, err := ref.BIP340Sign(sk, msg.B, e.auxs[0].B)
	if err != nil {
		panic(err)
	}
	rB, sB := base[:32], base[32:]
	s := new(big.Int).SetBytes(sB)
	k := drawScalar(drv.NewDRBG("c16-bip-k|"+id, *vkit.Seed))
	mk := func(variant string, pkb, m, sig []byte) {
		// the perturbation class is the text before the first " (": variants of one class collapse into one signature
		pert := variant
		if i := strings.Index(pert, " ("); i > 0 && (strings.HasPrefix(pert, "pk-len=") || strings.HasPrefix(pert, "sig-len=")) {
			pert = pert[:i]
		}
		emit(tcase{Kind: "bip340-verify", Pert: pert, ID: "bip340-verify|" + id + "|" + variant, PK: hx(pkb), Msg: hx(m), Sig: hx(sig)})
	}
	mk("valid", pk, msg.B, base)
	mk("valid (other nonce)", pk, msg.B, craftBIP340(key.D, pk, msg.B, k, "evenR", nil))
	for _, v := range bipLattice {
		mk("r="+v.Name, pk, msg.B, cat(b32(v.D), sB))
		mk("s="+v.Name, pk, msg.B, cat(rB, b32(v.D)))
	}
	mk("s negated", pk, msg.B, cat(rB, b32(new(big.Int).Sub(ref.N, s))))
	mk("s+1", pk, msg.B, cat(rB, b32(modN(new(big.Int).Add(s, bigOne)))))
	if sn := new(big.Int).Add(s, ref.N); sn.Cmp(two256) < 0 {
		mk("s+n", pk, msg.B, cat(rB, b32(sn)))
	}
	mk("r+1", pk, msg.B, cat(b32(new(big.Int).Add(new(big.Int).SetBytes(rB), bigOne)), sB))
	mk("r=x(2R)", pk, msg.B, cat(ref.Add(mustLift(rB), mustLift(rB)).XBytes(), sB))
	mk("r and s swapped", pk, msg.B, cat(sB, rB))
	mk("odd-Y R", pk, msg.B, craftBIP340(key.D, pk, msg.B, k, "oddR", nil))
	mk("infinite R, r=0", pk, msg.B, craftBIP340(key.D, pk, msg.B, nil, "infR", make([]byte, 32)))
	mk("infinite R, r=old r", pk, msg.B, craftBIP340(key.D, pk, msg.B, nil, "infR", rB))
	mk("infinite R, r=pk", pk, msg.B, craftBIP340(key.D, pk, msg.B, nil, "infR", pk))
	// message edits
	mk("msg first bit flipped", pk, flip(msg.B, 0, 0x80), base)
	mk("msg last bit flipped", pk, flip(msg.B, len(msg.B)-1, 1), base)
	mk("msg byte appended", pk, cat(msg.B, []byte{0}), base)
	mk("msg last byte dropped", pk, msg.B[:len(msg.B)-1], base)
	mk("msg empty", pk, nil, base)
	// signature lengths
	mk("sig-len=0 (empty)", pk, msg.B, nil)
	mk("sig-len=32 (r only)", pk, msg.B, rB)
	mk("sig-len=63 (last byte dropped)", pk, msg.B, base[:63])
	mk("sig-len=63 (first byte dropped)", pk, msg.B, base[1:])
	mk("sig-len=65 (00 appended)", pk, msg.B, cat(base, []byte{0}))
	mk("sig-len=65 (00 prepended)", pk, msg.B, cat([]byte{0}, base))
	mk("sig-len=65 (parity byte prepended)", pk, msg.B, cat([]byte{2}, base))
	mk("sig-len=128 (twice)", pk, msg.B, cat(base, base))
	// public-key values
	mk("pk=other key", other.Q.XBytes(), msg.B, base)
	mk("pk x=p", b32(ref.P), msg.B, base)
	mk("pk x=p+1", b32(new(big.Int).Add(ref.P, bigOne)), msg.B, base)
	mk("pk x=p+(on-curve x)", b32(new(big.Int).Add(ref.P, e.xOn1)), msg.B, base)
	mk("pk x=2^256-1", b32(max256), msg.B, base)
	mk("pk x=0 (off curve)", make([]byte, 32), msg.B, base)
	mk("pk x=smallest off curve", b32(e.xOff1), msg.B, base)
	mk("pk off curve near x", b32(scan(new(big.Int).Add(key.Q.X, bigOne), 1, false)), msg.B, base)
	// public-key lengths, naive (honest signature, altered key bytes)
	mk("pk-len=0 (empty)", nil, msg.B, base)
	mk("pk-len=31 (first byte dropped)", pk[1:], msg.B, base)
	mk("pk-len=31 (last byte dropped)", pk[:31], msg.B, base)
	mk("pk-len=33 (00 appended)", cat(pk, []byte{0}), msg.B, base)
	mk("pk-len=33 (00 prepended)", cat([]byte{0}, pk), msg.B, base)
	mk("pk-len=33 (compressed 02|x)", cat([]byte{2}, pk), msg.B, base)
	mk("pk-len=64 (x|x)", cat(pk, pk), msg.B, base)
	// public-key lengths, re-crafted: the key holder signs with the challenge computed over the altered key bytes
	for _, alt := range []struct {
		name string
		b    []byte
	}{
		{"pk-len=33 (00 appended; challenge over altered key)", cat(pk, []byte{0})},
		{"pk-len=33 (ff appended; challenge over altered key)", cat(pk, []byte{0xff})},
		{"pk-len=64 (x|x; challenge over altered key)", cat(pk, pk)},
		{"pk-len=64 (x|y; challenge over altered key)", cat(pk, b32(key.Q.Y))},
	} {
		mk(alt.name, alt.b, msg.B, craftBIP340(key.D, alt.b, msg.B, k, "evenR", nil))
	}
	if pk[0] == 0 {
		mk("pk-len=31 (leading zero byte dropped; challenge over altered key)", pk[1:], msg.B, craftBIP340(key.D, pk[1:], msg.B, k, "evenR", nil))
		if pk[1] == 0 {
			mk("pk-len=30 (leading zero bytes dropped; challenge over altered key)", pk[2:], msg.B, craftBIP340(key.D, pk[2:], msg.B, k, "evenR", nil))
		}
	}
}

func mustLift(x []byte) ref.Pt {
	p, err := ref.LiftX(new(big.Int).SetBytes(x))
	if err != nil {
		panic(err)
	}
	return p
}

func genBIPKeys(e *env, emit func(tcase)) {
	for _, k := range e.keys {
		emit(tcase{Kind: "bip340-pubkey", Pert: "valid key", ID: "bip340-pubkey|key=" + k.Name, SK: hx(b32(k.D))})
	}
	msg := e.msgs[3].B
	bad := []struct {
		name string
		b    []byte
	}{
		{"sk=0", make([]byte, 32)}, {"sk=n", b32(ref.N)}, {"sk=n+1", b32(new(big.Int).Add(ref.N, bigOne))}, {"sk=p", b32(ref.P)}, {"sk=2^256-1", b32(max256)},
		{"sk-len=0", nil}, {"sk-len=31", b32(big.NewInt(3))[1:]}, {"sk-len=33 (00 prepended)", cat([]byte{0}, b32(big.NewInt(3)))}, {"sk-len=33 (00 appended)", cat(b32(big.NewInt(3)), []byte{0})},
		{"sk-len=64", cat(b32(big.NewInt(3)), b32(big.NewInt(3)))},
	}
	for _, b := range bad {
		emit(tcase{Kind: "bip340-pubkey", Pert: b.name, ID: "bip340-pubkey|" + b.name, SK: hx(b.b)})
		emit(tcase{Kind: "bip340-sign", Pert: b.name, ID: "bip340-sign|" + b.name, SK: hx(b.b), Msg: hx(msg), Aux: hx(make([]byte, 32))})
	}
}

func genVectors(emit func(tcase)) {
	for _, v := range vectors {
		pk, msg, sig := mustHex(v.PK), mustHex(v.Msg), mustHex(v.Sig)
		if v.SK != "" {
			emit(tcase{Kind: "bip340-pubkey", Pert: "published vector", ID: "bip340-pubkey|vector " + v.Name, SK: hx(mustHex(v.SK)), Want: hx(pk)})
			emit(tcase{Kind: "bip340-sign", Pert: "published vector", ID: "bip340-sign|vector " + v.Name, SK: hx(mustHex(v.SK)), Msg: hx(msg), Aux: hx(mustHex(v.Aux)), Want: hx(sig)})
		}
		emit(tcase{Kind: "bip340-verify", Pert: "published vector", ID: "bip340-verify|vector " + v.Name, PK: hx(pk), Msg: hx(msg), Sig: hx(sig), Want: fmt.Sprint(v.Valid)})
	}
}
