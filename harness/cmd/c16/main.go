// C16 — stand-alone signature primitives conform to their standards.
// Engine D (lattice): every element of a finite key x message x perturbation lattice is handed
// to the repository's ecdsa / taproot / curve code and to an independent math/big reference
// (package ref); verdicts and bytes must be equal on every element.
package main

import (
	"fmt"
	"os"
	"sort"
	"strings"

	"github.com/taurusgroup/multi-party-sig/internal/zzverif/vkit"
)

func main() {
	res := vkit.Init("C16")
	res.Rule = "full cross product of keys {1,2,3,n-1,n-2, smallest d whose dG has a leading-zero x byte, seeded} x messages {len 1,20,31,32,33,64,100 seeded, 32x00, 32xFF} x nonces/aux x the single-field perturbation catalogue of each primitive " +
		"(ECDSA: s in {0,1,n-1,n-s,s+-1}, R negated/replaced/identity, hash edits, key edits, R.x at {1,n-1,n,p-1} boundaries with the key solved for; " +
		"BIP-340: r,s in {0,1,n-1,n,p-1,p,2^256-1}, odd-Y R, infinite R, lengths, public keys with x>=p / off curve / wrong length (naive and re-crafted by the key holder), message edits; " +
		"point decoding: all 256 prefix bytes x valid/off-curve/x>=p coordinates, lengths; scalar decoding: {0,1,(n-1)/2,n-1,n,n+1,p,2^256-1}, lengths; SigEthereum on every valid ECDSA signature); " +
		"a case is one concrete input tuple; all are non-trivial (each reaches the library and the reference) and distinct = distinct case identity (class + parameters)"
	res.Assumptions = []string{
		"the oracle is /verif/harness/ref (math/big, crypto/sha256 only); it is self-tested at start-up against the published BIP-340 vectors 0,1,2,4, the published 2G/3G coordinates, nG = infinity and algebraic consistency (sign->verify->recover); a failure there is a harness error, not a verdict",
		"ECDSA here is the library's own format (full nonce point R, scalar s); the standard is taken to require a valid (non-identity) public key, r = R.x mod n != 0, s != 0 and s^-1(eG + rQ) = R as a point",
		"the Ethereum export is judged with v in {0,1} = parity of R.y and r < n (standard ecrecover); for a nonce point with x >= n an error return is accepted, a non-recoverable 65-byte string is not",
		"seeded values come from a SHA-256 counter DRBG keyed by -seed and are part of the enumerated alphabet",
	}

	// replay of one recorded case
	{
		var tc tcase
		if vkit.LoadReplay(&tc) {
			if errs := selfTestRef(); len(errs) > 0 {
				fmt.Println("reference self-test failed:", errs)
				os.Exit(2)
			}
			f, info := evaluate(&tc)
			fmt.Printf("case %s\n kind=%s pert=%s\n", tc.ID, tc.Kind, tc.Pert)
			fmt.Println(info)
			for _, x := range f {
				fmt.Printf("VIOLATION %s\n  %s\n", x.Sig, x.Detail)
			}
			if len(f) > 0 {
				os.Exit(1)
			}
			fmt.Println("no violation")
			return
		}
	}

	if errs := selfTestRef(); len(errs) > 0 {
		for _, e := range errs {
			res.Hard(e)
		}
		res.Finish()
		return
	}

	env := buildEnv()
	groups := buildGroups(env)
	perKind := map[string]int{}
	sampled := map[string]int{}
	mutated := 0
	for g, gr := range groups {
		if !vkit.Want(gr.name) || !vkit.Mine(g) {
			continue
		}
		gr.gen(func(tc tcase) {
			f, info := evaluate(&tc)
			res.Case(tc.ID)
			perKind[tc.Kind]++
			if strings.Contains(info, "original mutated") {
				mutated++
			}
			if sampled[tc.Kind] < 2 {
				sampled[tc.Kind]++
				res.Sample(map[string]interface{}{"case": tc, "outcome": info})
			}
			for _, x := range f {
				res.Violate(x.Sig, x.Detail+"\ncase: "+tc.ID+"\n"+info, tc)
			}
		})
	}
	kinds := []string{}
	for k, n := range perKind {
		res.Extra["cases_"+strings.ReplaceAll(k, "-", "_")] = n
		kinds = append(kinds, fmt.Sprintf("%s=%d", k, n))
	}
	sort.Strings(kinds)
	res.Extra["sigeth_original_mutated_but_valid"] = mutated
	res.Extra["groups_total"] = fmt.Sprint(len(groups)) // a string: identical in every shard, must not be summed
	fmt.Fprintf(os.Stderr, "shard %d/%d: %d cases (%s), %d violation signatures\n", vkit.ShardI(), vkit.ShardN(), res.Evaluations, strings.Join(kinds, " "), len(res.Violations))
	res.Finish()
}
