package main

import (
	"bytes"
	"encoding/hex"
	"fmt"
	"math/big"

	"github.com/taurusgroup/multi-party-sig/internal/zzverif/drv"
	"github.com/taurusgroup/multi-party-sig/internal/zzverif/ref"
	"github.com/taurusgroup/multi-party-sig/internal/zzverif/vkit"
)

// Published BIP-340 test vectors (bips/bip-0340/test-vectors.csv).  Vectors 0-2 carry a
// secret key, so "reference Sign reproduces these 64 bytes" certifies both the constant
// and the reference at once (a typo here or a bug there cannot produce a match).  Vector
// 4 is verify-only and positive (again self-certifying: a wrong constant cannot verify).
type vec struct {
	Name             string
	SK, PK, Aux, Msg string
	Sig              string
	Valid            bool
}

var vectors = []vec{
	{Name: "v0",
		SK:  "0000000000000000000000000000000000000000000000000000000000000003",
		PK:  "F9308A019258C31049344F85F89D5229B531C845836F99B08601F113BCE036F9",
		Aux: "0000000000000000000000000000000000000000000000000000000000000000",
		Msg: "0000000000000000000000000000000000000000000000000000000000000000",
		Sig: "E907831F80848D1069A5371B402410364BDF1C5F8307B0084C55F1CE2DCA821525F66A4A85EA8B71E482A74F382D2CE5EBEEE8FDB2172F477DF4900D310536C0", Valid: true},
	{Name: "v1",
		SK:  "B7E151628AED2A6ABF7158809CF4F3C762E7160F38B4DA56A784D9045190CFEF",
		PK:  "DFF1D77F2A671C5F36183726DB2341BE58FEAE1DA2DECED843240F7B502BA659",
		Aux: "0000000000000000000000000000000000000000000000000000000000000001",
		Msg: "243F6A8885A308D313198A2E03707344A4093822299F31D0082EFA98EC4E6C89",
		Sig: "6896BD60EEAE296DB48A229FF71DFE071BDE413E6D43F917DC8DCF8C78DE33418906D11AC976ABCCB20B091292BFF4EA897EFCB639EA871CFA95F6DE339E4B0A", Valid: true},
	{Name: "v2",
		SK:  "C90FDAA22168C234C4C6628B80DC1CD129024E088A67CC74020BBEA63B14E5C9",
		PK:  "DD308AFEC5777E13121FA72B9CC1B7CC0139715309B086C960E18FD969774EB8",
		Aux: "C87AA53824B4D7AE2EB035A2B5BBBCCC080E76CDC6D1692C4B0B62D798E6D906",
		Msg: "7E2D58D8B3BCDF1ABADEC7829054F90DDA9805AAB56C77333024B9D0A508B75C",
		Sig: "5831AAEED7B44BB74E5EAB94BA9D4294C49BCF2A60728D8B4C200F50DD313C1BAB745879A5AD954A72C45A91C3A51D3C7ADEA98D82F8481E0E1E03674A6F3FB7", Valid: true},
	{Name: "v4",
		PK:  "D69C3509BB99E412E68B0FE8544E72837DFA30746D8BE2AA65975F29D22DC7B9",
		Msg: "4DF3C3F68FCC83B27E9D42C90431A72499F17875C81A599B566C9889B9696703",
		Sig: "00000000000000000000003B78CE563F89A0ED9414F5AA28AD0D96D6795F9C6376AFB1548AF603B3EB45C9F8207DEE1060CB71C04E80F593060B07D28308D7F4", Valid: true},
}

// Known small multiples of the generator (SEC2 / every secp256k1 table).
const (
	g2x = "C6047F9441ED7D6D3045406E95C07CD85C778E4B8CEF3CA7ABAC09B95C709EE5"
	g2y = "1AE168FEA63DC339A3C58419466CEAEEF7F632653266D0E1236431A950CFE52A"
	g3x = "F9308A019258C31049344F85F89D5229B531C845836F99B08601F113BCE036F9"
	g3y = "388F7B0F632DE8140FE337E62A37F3566500A99934C2231B6CB9FD7584B8E672"
)

func mustHex(s string) []byte {
	b, err := hex.DecodeString(s)
	if err != nil {
		panic("bad hex constant: " + s)
	}
	return b
}

func hexInt(s string) *big.Int {
	x, ok := new(big.Int).SetString(s, 16)
	if !ok {
		panic("bad hex constant: " + s)
	}
	return x
}

// selfTestRef checks the reference implementation against published constants and against
// itself before it is used as an oracle.  Every returned string is a harness error.
func selfTestRef() (errs []string) {
	bad := func(f string, a ...interface{}) { errs = append(errs, "reference self-test: "+fmt.Sprintf(f, a...)) }
	defer func() {
		if r := recover(); r != nil {
			bad("panic: %v", r)
		}
	}()

	// --- group arithmetic
	if new(big.Int).Mod(ref.P, big.NewInt(4)).Int64() != 3 {
		bad("p mod 4 != 3")
	}
	if !ref.G.OnCurve() {
		bad("G not on curve")
	}
	G2 := ref.Pt{X: hexInt(g2x), Y: hexInt(g2y)}
	G3 := ref.Pt{X: hexInt(g3x), Y: hexInt(g3y)}
	if !G2.OnCurve() || !G3.OnCurve() {
		bad("2G/3G constants not on curve")
	}
	if !ref.Add(ref.G, ref.G).Equal(G2) || !ref.MulG(big.NewInt(2)).Equal(G2) {
		bad("G+G != published 2G")
	}
	if !ref.Add(G2, ref.G).Equal(G3) || !ref.MulG(big.NewInt(3)).Equal(G3) || !ref.Add(ref.G, G2).Equal(G3) {
		bad("2G+G != published 3G")
	}
	nm1 := new(big.Int).Sub(ref.N, big.NewInt(1))
	Gm := ref.MulG(nm1)
	if !Gm.Equal(ref.G.Neg()) {
		bad("(n-1)G != -G")
	}
	if !ref.Add(Gm, ref.G).Inf {
		bad("nG != infinity")
	}
	if !ref.MulG(new(big.Int).Set(ref.N)).Inf || !ref.MulG(big.NewInt(0)).Inf {
		bad("Mul(n)/Mul(0) not infinity")
	}
	if p, err := ref.LiftX(ref.Gx); err != nil || !p.Equal(ref.G) {
		bad("lift_x(Gx) != G")
	}
	if p, err := ref.ParseCompressed(ref.G.Compressed()); err != nil || !p.Equal(ref.G) {
		bad("ParseCompressed(G) != G")
	}
	if p, err := ref.ParseCompressed(G3.Neg().Compressed()); err != nil || !p.Equal(G3.Neg()) || G3.Compressed()[0] != 2 || G3.Neg().Compressed()[0] != 3 {
		bad("ParseCompressed(-3G) != -3G")
	}
	for _, pre := range []byte{0, 1, 4, 5, 6, 7, 0xff} {
		e := ref.G.Compressed()
		e[0] = pre
		if _, err := ref.ParseCompressed(e); err == nil {
			bad("ParseCompressed accepts prefix %#x", pre)
		}
	}
	if _, err := ref.LiftX(new(big.Int).Set(ref.P)); err == nil {
		bad("lift_x accepts x = p")
	}
	if _, err := ref.LiftX(big.NewInt(0)); err == nil {
		bad("lift_x accepts x = 0 (7 is not a square mod p)")
	}
	// distributivity on seeded scalars: (a+b)G = aG + bG, a(bG) = (ab)G
	rng := drv.NewDRBG("c16-selftest", *vkit.Seed)
	for i := 0; i < 3; i++ {
		a, b := drawScalar(rng), drawScalar(rng)
		ab := new(big.Int).Add(a, b)
		if !ref.MulG(ab).Equal(ref.Add(ref.MulG(a), ref.MulG(b))) {
			bad("(a+b)G != aG+bG")
		}
		if !ref.Mul(a, ref.MulG(b)).Equal(ref.MulG(new(big.Int).Mul(a, b))) {
			bad("a(bG) != (ab)G")
		}
		if !ref.MulG(a).OnCurve() {
			bad("aG not on curve")
		}
	}

	// --- BIP-340 published vectors
	for _, v := range vectors {
		pk, msg, sig := mustHex(v.PK), mustHex(v.Msg), mustHex(v.Sig)
		if v.SK != "" {
			sk, aux := mustHex(v.SK), mustHex(v.Aux)
			if got, err := ref.BIP340PubKey(sk); err != nil || !bytes.Equal(got, pk) {
				bad("%s: BIP340PubKey = %x, published %x", v.Name, got, pk)
			}
			if got, err := ref.BIP340Sign(sk, msg, aux); err != nil || !bytes.Equal(got, sig) {
				bad("%s: BIP340Sign = %x, published %x", v.Name, got, sig)
			}
		}
		if ref.BIP340Verify(pk, msg, sig) != v.Valid {
			bad("%s: BIP340Verify != published verdict %v", v.Name, v.Valid)
		}
		// derived negatives: every single-field change of a valid published vector is invalid
		if v.Valid {
			r, s := new(big.Int).SetBytes(sig[:32]), new(big.Int).SetBytes(sig[32:])
			neg := append(append([]byte{}, sig[:32]...), b32(new(big.Int).Sub(ref.N, s))...)
			if ref.BIP340Verify(pk, msg, neg) {
				bad("%s: accepts negated s", v.Name)
			}
			r1 := append(b32(new(big.Int).Add(r, big.NewInt(1))), sig[32:]...)
			if ref.BIP340Verify(pk, msg, r1) {
				bad("%s: accepts r+1", v.Name)
			}
			m2 := append([]byte{}, msg...)
			m2[0] ^= 1
			if ref.BIP340Verify(pk, m2, sig) {
				bad("%s: accepts changed message", v.Name)
			}
			if ref.BIP340Verify(pk, msg, sig[:63]) || ref.BIP340Verify(pk, msg, append(append([]byte{}, sig...), 0)) || ref.BIP340Verify(pk[1:], msg, sig) || ref.BIP340Verify(append([]byte{0}, pk...), msg, sig) {
				bad("%s: accepts wrong lengths", v.Name)
			}
			if sn := new(big.Int).Add(s, ref.N); sn.Cmp(two256) < 0 && ref.BIP340Verify(pk, msg, append(append([]byte{}, sig[:32]...), b32(sn)...)) {
				bad("%s: accepts s+n", v.Name)
			}
		}
	}
	if ref.BIP340Verify(mustHex(vectors[0].PK), mustHex(vectors[1].Msg), mustHex(vectors[1].Sig)) {
		bad("accepts v1 signature under v0 key")
	}
	// odd-Y R and infinite R must be rejected although the x-coordinates match
	{
		d, msg := big.NewInt(3), []byte("odd R")
		pk, _ := ref.BIP340PubKey(b32(d))
		if sig := craftBIP340(d, pk, msg, big.NewInt(7), "oddR", nil); ref.BIP340Verify(pk, msg, sig) {
			bad("BIP340Verify accepts odd-Y R")
		}
		if sig := craftBIP340(d, pk, msg, big.NewInt(7), "evenR", nil); !ref.BIP340Verify(pk, msg, sig) {
			bad("BIP340Verify rejects a crafted even-R signature (craft or verify wrong)")
		}
		if sig := craftBIP340(d, pk, msg, nil, "infR", make([]byte, 32)); ref.BIP340Verify(pk, msg, sig) {
			bad("BIP340Verify accepts infinite R")
		}
	}

	// --- ECDSA: sign with textbook arithmetic, verify, nonce point, recovery
	for i := 0; i < 3; i++ {
		d, k := drawScalar(rng), drawScalar(rng)
		h := make([]byte, 32)
		rng.Read(h)
		Q := ref.MulG(d)
		R, s := ecdsaSign(d, k, h)
		r := new(big.Int).Mod(R.X, ref.N)
		if !ref.ECDSAVerify(Q, h, r, s) {
			bad("ECDSAVerify rejects a textbook signature")
		}
		if !ref.ECDSANoncePoint(Q, h, r, s).Equal(R) {
			bad("ECDSANoncePoint != kG")
		}
		ns := new(big.Int).Sub(ref.N, s)
		if !ref.ECDSANoncePoint(Q, h, r, ns).Equal(R.Neg()) {
			bad("ECDSANoncePoint(-s) != -kG")
		}
		if ref.ECDSAVerify(Q, h, r, new(big.Int).Add(s, big.NewInt(1))) || ref.ECDSAVerify(ref.MulG(k), h, r, s) {
			bad("ECDSAVerify accepts a wrong s / wrong key")
		}
		v := byte(R.Y.Bit(0))
		if got, err := ref.EcRecover(h, r, s, v); err != nil || !got.Equal(Q) {
			bad("EcRecover(v) != Q")
		}
		if got, err := ref.EcRecover(h, r, ns, v^1); err != nil || !got.Equal(Q) {
			bad("EcRecover(-s, v^1) != Q")
		}
		if got, err := ref.EcRecover(h, r, s, v^1); err == nil && got.Equal(Q) {
			bad("EcRecover(v^1) == Q")
		}
		if refECDSA(Q, R, s, h) != true || refECDSA(Q, R.Neg(), s, h) != false || refECDSA(Q, R.Neg(), ns, h) != true {
			bad("full-point ECDSA oracle inconsistent")
		}
	}
	if _, err := ref.EcRecover(make([]byte, 32), new(big.Int).Set(ref.N), big.NewInt(1), 0); err == nil {
		bad("EcRecover accepts r = n")
	}
	return errs
}
