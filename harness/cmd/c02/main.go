// C02 — key generation yields one consistent, reconstructible sharing.
// Engine D: every (protocol, n, t, identifier shape, delivery order) of a bounded lattice is
// run through the real key generation; every party's key material is judged against the
// reference Shamir/Lagrange model for EVERY reconstruction subset.
package main

import (
	"fmt"
	"os"
	"regexp"
	"strings"
	"time"

	"github.com/taurusgroup/multi-party-sig/internal/zzverif/drv"
	"github.com/taurusgroup/multi-party-sig/internal/zzverif/keymat"
	"github.com/taurusgroup/multi-party-sig/internal/zzverif/oracle"
	"github.com/taurusgroup/multi-party-sig/internal/zzverif/sess"
	"github.com/taurusgroup/multi-party-sig/internal/zzverif/vkit"
	"github.com/taurusgroup/multi-party-sig/protocols/doerner"
)

type kcase struct {
	Proto string `json:"proto"` // frost | taproot | cmp | doerner
	N     int    `json:"n"`
	T     int    `json:"t"`
	IDSet string `json:"idset"`
	Rev   bool   `json:"reversed"`
}

func (c kcase) key() string {
	o := "fifo"
	if c.Rev {
		o = "rev"
	}
	return fmt.Sprintf("%s|%d|%d|%s|%s", c.Proto, c.N, c.T, c.IDSet, o)
}

// singlePartyTimeout bounds a constructor call of a one-party session (all rounds run inside
// the constructor; an honest one returns in well under a second).
const singlePartyTimeout = 15 * time.Second

func cost(c kcase) float64 {
	switch c.Proto {
	case "cmp":
		if c.N == 1 {
			return singlePartyTimeout.Seconds()
		}
		return 3.0 * float64(c.N)
	case "doerner":
		return 0.3
	}
	if c.N == 1 {
		return 1
	}
	return 0.02 * float64(c.N*c.N)
}

func cases() []kcase {
	var l []kcase
	maxN := 4
	if vkit.Thorough() {
		maxN = 6
	}
	for _, proto := range []string{"frost", "taproot"} {
		for n := 1; n <= maxN; n++ {
			for t := 0; t < n; t++ {
				for _, ids := range keymat.IDSetNames {
					for _, rev := range []bool{false, true} {
						if n == 1 && (rev || ids != "short") {
							continue // one party: no deliveries to reorder; one representative id
						}
						l = append(l, kcase{proto, n, t, ids, rev})
					}
				}
			}
		}
	}
	for _, pr := range []string{"short", "long", "utf8"} {
		for _, rev := range []bool{false, true} {
			l = append(l, kcase{"doerner", 2, 1, pr, rev})
		}
	}
	l = append(l, kcase{"cmp", 1, 0, "short", false})
	if !vkit.Thorough() {
		l = append(l, kcase{"cmp", 2, 0, "short", false}, kcase{"cmp", 2, 1, "short", false},
			kcase{"cmp", 2, 1, "long", false}, kcase{"cmp", 2, 0, "binary32", false}, kcase{"cmp", 3, 1, "short", false})
		return l
	}
	for n := 2; n <= 3; n++ {
		for t := 0; t < n; t++ {
			for _, ids := range keymat.IDSetNames {
				l = append(l, kcase{"cmp", n, t, ids, false})
			}
			l = append(l, kcase{"cmp", n, t, "short", true}, kcase{"cmp", n, t, "mixedlen", true})
		}
	}
	for t := 0; t < 4; t++ {
		l = append(l, kcase{"cmp", 4, t, "short", false})
	}
	return l
}

var reClause = regexp.MustCompile(`^clause ([a-z0-9-]+): `)

type finding struct {
	Sig, Detail string
}

// evaluate runs one key generation and judges it.  It returns the findings and the number of
// (t+1)-subsets and t-subsets the oracle reconstructed.
func evaluate(c kcase, verbose bool) (fs []finding, subs, low int64) {
	ids := keymat.IDSet(c.IDSet, c.N)
	shape := "n>1"
	if c.N == 1 {
		shape = "n=1"
	}
	where := fmt.Sprintf("%s key generation n=%d t=%d ids=%s %s (%s order)", c.Proto, c.N, c.T, c.IDSet, keymat.Quote(ids), map[bool]string{false: "in", true: "per-batch reversed"}[c.Rev])
	if c.N == 1 {
		saved := drv.CallTimeout
		drv.CallTimeout = singlePartyTimeout
		defer func() { drv.CallTimeout = saved }()
	}
	o := keymat.Run(keymat.KeygenSpec(c.Proto, ids, c.T), *vkit.Seed, "c02|"+c.key(), c.Rev)
	if verbose {
		fmt.Printf("%s\n  deliveries=%d results=%d errors=%v startErr=%v stuck=%v hung=%q panic=%q\n", where, o.Net.Steps, len(o.Results), o.Errors, o.StartErr, o.Stuck, o.Hung, o.Panic)
	}
	if f := keymat.Completion(o, ids); f != nil {
		if strings.HasPrefix(f.Class, "panic:") {
			return []finding{{"panic|" + c.Proto + "-keygen|" + f.Class[6:], where + ": " + f.Detail}}, 0, 0
		}
		return []finding{{fmt.Sprintf("keygen-does-not-complete|%s|%s|ids=%s|%s", c.Proto, shape, c.IDSet, f.Class), where + ": " + f.Detail}}, 0, 0
	}
	if c.Proto == "doerner" {
		r, ok1 := o.Results[ids[0]].(*doerner.ConfigReceiver)
		s, ok2 := o.Results[ids[1]].(*doerner.ConfigSender)
		if !ok1 || !ok2 {
			return []finding{{"sharing|doerner|bad-material", fmt.Sprintf("%s: results of type %T / %T", where, o.Results[ids[0]], o.Results[ids[1]])}}, 0, 0
		}
		for _, e := range oracle.CheckDoerner(r, s) {
			fs = append(fs, finding{"sharing|doerner|" + clause(e), where + ": " + e.Error()})
		}
		return fs, 1, 0
	}
	views := map[string]*oracle.View{}
	for _, id := range ids {
		v, err := oracle.ViewOf(o.Results[id])
		if err != nil {
			return []finding{{"sharing|" + c.Proto + "|bad-material", fmt.Sprintf("%s: material of %q: %v", where, id, err)}}, 0, 0
		}
		views[string(id)] = v
	}
	errs := oracle.CheckSharing(views, c.T)
	for _, e := range errs {
		fs = append(fs, finding{"sharing|" + c.Proto + "|" + clause(e), where + ": " + e.Error()})
	}
	if verbose {
		for id, v := range views {
			fmt.Printf("  %q: threshold=%d share=%x… group key=%x table entries=%d aux=%s\n", id, v.Threshold, v.Secret.Bytes()[:4], v.Public.Compressed(), len(v.Shares), v.Aux)
		}
	}
	if len(errs) == 0 || !firstPhaseFailed(errs) {
		subs = keymat.Binom(c.N, c.T+1)
		if c.T >= 1 {
			low = keymat.Binom(c.N, c.T)
		}
	}
	return fs, subs, low
}

// firstPhaseFailed: CheckSharing stops before the reconstruction loops if a consistency clause failed.
func firstPhaseFailed(errs []error) bool {
	for _, e := range errs {
		cl := clause(e)
		if !strings.HasPrefix(cl, "reconstruct-") && cl != "threshold-too-low" {
			return true
		}
	}
	return false
}

func clause(e error) string {
	if m := reClause.FindStringSubmatch(e.Error()); m != nil {
		return m[1]
	}
	return "other"
}

func main() {
	res := vkit.Init("C02")
	drv.Install()
	sess.InstallPrimes()
	res.Rule = "one case = one real key generation session (protocol x party count n x threshold t in [0,n) x identifier shape x delivery order {in order, per-batch reversed}); distinct = distinct (protocol,n,t,idshape,order); every case is non-trivial: all parties must finish, and the reference Shamir model (math/big, id -> big-endian bytes mod q) is evaluated on the material of all parties: same group key / table / auxiliary keys everywhere, share_i*G = table[i], EVERY (t+1)-subset of secret shares reconstructs the group key, the same subsets of table entries interpolate to it in the exponent, NO t-subset reconstructs it; Doerner: sk_R+sk_S"
	res.Assumptions = []string{
		"only one curve is offered by the library (pkg/math/curve implements Curve for Secp256k1 only), so 'all curves' is secp256k1",
		"identifier shapes are the 7-element lattice of harness/keymat (short, 32 ASCII bytes, non-ASCII UTF-8, 33..128 bytes, differing in the last byte only, mixed lengths with string order != numeric order, arbitrary binary 32 bytes incl. 32x0xFF >= q); each set is verified to have distinct non-zero scalar images before use",
		"delivery orders: in-order and per-batch reversed only (all orders are explored by C07); CMP runs in order in the quick tier; thorough adds per-batch reversed runs for two identifier shapes",
		"CMP key generation draws its Paillier primes from the pre-generated safe-prime file through the prime hook (the sharing logic is unchanged)",
	}
	var rp kcase
	if vkit.LoadReplay(&rp) {
		fs, subs, low := evaluate(rp, true)
		fmt.Printf("subsets reconstructed: %d of size t+1, %d of size t\n", subs, low)
		for _, f := range fs {
			fmt.Println("VIOLATION", f.Sig, "\n   ", f.Detail)
		}
		if len(fs) > 0 {
			os.Exit(1)
		}
		return
	}
	all := cases()
	costs := make([]float64, len(all))
	for i, c := range all {
		costs[i] = cost(c)
	}
	shard := keymat.Assign(costs, nil, nil, vkit.ShardN())
	deadline := vkit.Deadline(80*time.Second, 22*time.Minute)
	var sessions, subsT1, subsT int64
	perProto := map[string]int64{}
	skipped := 0
	for i, c := range all {
		if shard[i] != vkit.ShardI() || !vkit.Want(c.key()) {
			continue
		}
		if err := keymat.CheckIDs(keymat.IDSet(c.IDSet, c.N)); err != nil {
			res.Hard("identifier lattice: " + err.Error())
			continue
		}
		if !deadline.IsZero() && time.Now().After(deadline) {
			skipped++
			continue
		}
		t0 := time.Now()
		fs, s1, s0 := evaluate(c, false)
		res.Case(c.key())
		sessions++
		perProto[c.Proto]++
		subsT1 += s1
		subsT += s0
		for _, f := range fs {
			res.Violate(f.Sig, f.Detail, c)
		}
		if c.N >= 3 && c.T == 1 && !c.Rev && (c.IDSet == "long" || c.Proto == "cmp") {
			res.Sample(map[string]interface{}{"case": c.key(), "ids": keymat.Quote(keymat.IDSet(c.IDSet, c.N)), "subsets_t_plus_1": s1, "subsets_t": s0, "findings": len(fs)})
		}
		fmt.Fprintf(os.Stderr, "%-40s subsets=%d+%d findings=%d %.2fs\n", c.key(), s1, s0, len(fs), time.Since(t0).Seconds())
	}
	if skipped > 0 {
		res.Note(fmt.Sprintf("internal deadline reached: %d cases of this shard not run", skipped))
		res.Exhaustive = false
	}
	res.Extra["keygen_sessions"] = sessions
	res.Extra["reconstruction_subsets_of_size_t_plus_1_checked"] = subsT1
	res.Extra["subsets_of_size_t_checked_not_to_reconstruct"] = subsT
	for p, k := range perProto {
		res.Extra["keygen_sessions_"+p] = k
	}
	res.Finish()
}
