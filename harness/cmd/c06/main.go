// C06 — equivocation on a broadcast round cannot split honest parties.
// Engine B with a man in the middle: for every non-final broadcast round, every equivocator,
// every partition of the honest parties into two groups and every way of attaching the echo
// hash afterwards, the FULL delivery state space of the real MultiHandler (running vproto,
// whose payloads are unconstrained so that only the echo mechanism can reject) is explored
// and "no two honest parties of different groups both complete" is checked in every state.
package main

import (
	"bytes"
	"fmt"
	"os"
	"sort"
	"strings"
	"time"

	"github.com/fxamacker/cbor/v2"
	"github.com/taurusgroup/multi-party-sig/internal/zzverif/drv"
	"github.com/taurusgroup/multi-party-sig/internal/zzverif/netsim"
	"github.com/taurusgroup/multi-party-sig/internal/zzverif/vkit"
	"github.com/taurusgroup/multi-party-sig/internal/zzverif/vproto"
	"github.com/taurusgroup/multi-party-sig/pkg/party"
	"github.com/taurusgroup/multi-party-sig/pkg/protocol"
)

type scen struct {
	Name    string   `json:"name"`
	Spec    string   `json:"spec"`
	N       int      `json:"n"`
	Round   int      `json:"round"`             // the broadcast round in which the equivocation happens
	Equiv   string   `json:"equiv"`             // equivocating party
	Group2  []string `json:"group2"`            // honest parties that receive the second payload
	Mode    string   `json:"mode"`              // own: later messages carry the equivocator's own echo hash; tailored: each recipient gets the hash it expects; nil: no hash
	Proto   string   `json:"proto,omitempty"`   // real protocol under a twin equivocator (real.go); empty: vproto
	Search  string   `json:"search,omitempty"`  // full | dev<k> (real protocols)
	Payload string   `json:"payload,omitempty"` // "" = the second payload replaces the first; dupkeys = ONE map that holds every entry twice (second payload first, original last)
	Reach   string   `json:"reach,omitempty"`   // split: each honest party hears one instance; both: the parties of group 2 hear both instances
}

var ids = []party.ID{"a", "b", "c", "d"}

func in(l []string, x string) bool {
	for _, y := range l {
		if y == x {
			return true
		}
	}
	return false
}

func build(sc scen) *netsim.Scenario {
	pids := ids[:sc.N]
	ns := &netsim.Scenario{Name: sc.Name, Seed: *vkit.Seed, ResultKey: func(r interface{}) string {
		v := r.(*vproto.Result)
		return fmt.Sprintf("%x", v.View[:6])
	}}
	for _, id := range pids {
		g := 1
		if in(sc.Group2, string(id)) {
			g = 2
		}
		ns.Actors = append(ns.Actors, netsim.Actor{Key: string(id), ID: id, Seed: "c06|" + string(id), Honest: string(id) != sc.Equiv, Group: g})
	}
	ns.New = func(a netsim.Actor) (protocol.Handler, error) {
		return protocol.NewMultiHandler(vproto.Start(sc.Spec, a.ID, pids), []byte("sid"))
	}
	alt := func(b []byte) []byte { return vproto.H([]byte("equivocation"), b) }
	// second payload for group 2, in the equivocation round only
	ns.Rewrite = func(from, to netsim.Actor, m *protocol.Message) *protocol.Message {
		if string(from.ID) != sc.Equiv || to.Group != 2 || int(m.RoundNumber) != sc.Round {
			return m
		}
		c := drv.CloneMsg(m)
		if m.Broadcast {
			var b vproto.BMsg
			if cbor.Unmarshal(m.Data, &b) != nil {
				return m
			}
			orig := b.Payload
			b.Payload = alt(b.Payload)
			c.Data, _ = cbor.Marshal(&b)
			if sc.Payload == "dupkeys" {
				c.Data = dupKeys(b.Nr, b.Payload, orig)
			}
			return c
		}
		// the p2p message of an X round must stay bound to the broadcast this recipient gets
		if k := sc.Spec[sc.Round-2]; k == 'X' || k == 'Y' {
			var p vproto.Msg
			if cbor.Unmarshal(m.Data, &p) != nil {
				return m
			}
			// recompute from the original broadcast of the same round (emitted in the same batch)
			p.Payload = nil
			c.Data, _ = cbor.Marshal(&p)
			c.BroadcastVerification = append([]byte("REBIND"), m.BroadcastVerification...)
			return c
		}
		return m
	}
	ns.AtDeliver = func(w netsim.View, from, to netsim.Actor, m *protocol.Message) *protocol.Message {
		if string(from.ID) != sc.Equiv || to.Group != 2 {
			return m
		}
		// finish the re-binding of an X-round p2p message (needs the equivocator's broadcast of that round)
		if bytes.HasPrefix(m.BroadcastVerification, []byte("REBIND")) {
			c := drv.CloneMsg(m)
			c.BroadcastVerification = append([]byte(nil), m.BroadcastVerification[6:]...)
			if len(c.BroadcastVerification) == 0 {
				c.BroadcastVerification = nil
			}
			for _, s := range w.SentBy(from.Key) {
				if s.Broadcast && s.RoundNumber == m.RoundNumber {
					var b vproto.BMsg
					cbor.Unmarshal(s.Data, &b)
					c.Data, _ = cbor.Marshal(&vproto.Msg{Nr: uint16(m.RoundNumber), Payload: vproto.H([]byte("p2p"), alt(b.Payload), []byte(from.ID), []byte(to.ID))})
				}
			}
			return c
		}
		if int(m.RoundNumber) <= sc.Round {
			return m
		}
		switch sc.Mode {
		case "nil":
			c := drv.CloneMsg(m)
			c.BroadcastVerification = nil
			return c
		case "tailored":
			// attach the echo hash the recipient itself computed for that round, if it has published it already
			for _, s := range w.SentBy(to.Key) {
				if s.RoundNumber == m.RoundNumber && s.BroadcastVerification != nil {
					c := drv.CloneMsg(m)
					c.BroadcastVerification = append([]byte(nil), s.BroadcastVerification...)
					return c
				}
			}
		}
		return m
	}
	return ns
}

// dupKeys encodes {Nr, Payload: first, Nr, Payload: last}: a CBOR map holding every entry twice.  A decoder
// into a struct and a generic decoder need not agree on which of two equal keys wins; if the echo is computed
// over one reading and the round consumes the other, the two readings are an equivocation the echo cannot see.
func dupKeys(nr uint16, first, last []byte) []byte {
	enc := func(v interface{}) []byte { b, _ := cbor.Marshal(v); return b }
	out := []byte{0xa4}
	out = append(out, enc("Nr")...)
	out = append(out, enc(nr)...)
	out = append(out, enc("Payload")...)
	out = append(out, enc(first)...)
	out = append(out, enc("Nr")...)
	out = append(out, enc(nr)...)
	out = append(out, enc("Payload")...)
	out = append(out, enc(last)...)
	return out
}

func checker(sc scen, echo, other *int64) netsim.Checker {
	keys := []string{}
	for _, id := range ids[:sc.N] {
		keys = append(keys, string(id))
	}
	return netsim.Checker{
		State: func(w netsim.W, hist []string) []netsim.Violation {
			var vs []netsim.Violation
			st := w.Status()
			var done1, done2 []string
			views := map[string][]string{}
			for _, k := range keys {
				p := w.Info(k)
				if p.Panic != "" {
					vs = append(vs, netsim.Violation{Sig: "panic|" + p.PanicFrame, Detail: fmt.Sprintf("party %s panicked: %s", k, p.Panic)})
				}
				if k == sc.Equiv {
					continue
				}
				if strings.HasPrefix(st[k], "done:") {
					if in(sc.Group2, k) {
						done2 = append(done2, k)
					} else {
						done1 = append(done1, k)
					}
					views[st[k]] = append(views[st[k]], k)
				}
			}
			if len(done1) > 0 && len(done2) > 0 {
				sort.Strings(done1)
				sort.Strings(done2)
				vs = append(vs, netsim.Violation{Sig: fmt.Sprintf("split-completion|%s|mode=%s", sc.Spec, sc.Mode),
					Detail: fmt.Sprintf("%s equivocated in round %d (second payload to %v); honest parties %v and %v received different payloads and all completed: %v", sc.Equiv, sc.Round, sc.Group2, done1, done2, st)})
			}
			if len(views) > 1 {
				vs = append(vs, netsim.Violation{Sig: fmt.Sprintf("different-views-completed|%s|mode=%s", sc.Spec, sc.Mode), Detail: fmt.Sprintf("completed honest parties hold different broadcast views: %v", views)})
			}
			return vs
		},
		Sink: func(w netsim.W, hist []string) []netsim.Violation {
			for k, s := range w.Status() {
				if k == sc.Equiv {
					continue
				}
				if strings.Contains(s, "broadcast verification failed") {
					*echo++
					return nil
				}
			}
			*other++
			return nil
		},
	}
}

func partitions(h []string) [][]string {
	// all ways to choose a non-empty proper subset as group 2; complementary choices are different
	// cases (group 1 keeps the equivocator's original payload), so both are enumerated
	var out [][]string
	for mask := 1; mask < (1<<len(h))-1; mask++ {
		var g []string
		for i, x := range h {
			if mask&(1<<i) != 0 {
				g = append(g, x)
			}
		}
		out = append(out, g)
	}
	return out
}

func scenarios() []scen {
	var l []scen
	type cfg struct {
		spec string
		n    int
	}
	cfgs := []cfg{{"BB", 3}, {"XB", 3}, {"BP", 3}, {"BXB", 3}, {"NB", 3}, {"BNP", 3}, {"YN", 3}, {"BBBB", 3}, {"BBBBB", 3}}
	// the deep shapes are there for the later rounds (state kept per round must not go stale): only rounds >= 4
	minRound := map[string]int{"BBBB": 4, "BBBBB": 4}
	modes := []string{"own", "tailored", "nil"}
	if vkit.Thorough() {
		cfgs = append(cfgs, cfg{"BA", 3}, cfg{"XPB", 3}, cfg{"BB", 4}, cfg{"XB", 4})
	}
	for _, c := range cfgs {
		R := len(c.spec) + 1
		for r := 2; r < R; r++ { // a further round must follow
			if r < minRound[c.spec] {
				continue
			}
			if k := c.spec[r-2]; k != 'B' && k != 'X' && k != 'N' && k != 'Y' {
				continue
			}
			equivs := []string{"a", "c"}
			if vkit.Thorough() {
				equivs = []string{"a", "b", "c", "d"}[:c.n]
			}
			for _, e := range equivs {
				var honest []string
				for _, id := range ids[:c.n] {
					if string(id) != e {
						honest = append(honest, string(id))
					}
				}
				for pi, g2 := range partitions(honest) {
					for _, m := range modes {
						if len(c.spec) >= 4 && (m != "own" || pi > 0) && !vkit.Thorough() {
							continue // deep shapes, quick tier: one partition, own echo
						}
						l = append(l, scen{Name: fmt.Sprintf("%s/n%d/r%d/equiv=%s/g2=%s/%s", c.spec, c.n, r, e, strings.Join(g2, ""), m),
							Spec: c.spec, N: c.n, Round: r, Equiv: e, Group2: g2, Mode: m})
						if c.spec == "BB" || c.spec == "NB" {
							l = append(l, scen{Name: fmt.Sprintf("%s/n%d/r%d/equiv=%s/g2=%s/%s/dupkeys", c.spec, c.n, r, e, strings.Join(g2, ""), m),
								Spec: c.spec, N: c.n, Round: r, Equiv: e, Group2: g2, Mode: m, Payload: "dupkeys"})
						}
					}
				}
			}
		}
	}
	return l
}

func main() {
	res := vkit.Init("C06")
	drv.Install()
	res.Rule = "one scenario per (protocol shape, n, equivocation round, equivocator, partition of the honest parties, echo-hash attachment mode); for each the complete delivery state space of the real handlers is explored and every state is judged; a state is a canonical configuration (deep digest of handlers + pending multiset)"
	res.Assumptions = []string{"the equivocator otherwise follows the protocol (its later messages are its honest ones, with the echo hash attached as the mode says)", "vproto payloads are unconstrained, so rejection can only come from the handler's echo check"}
	var rp struct {
		Scen    scen     `json:"scen"`
		History []string `json:"history"`
	}
	if vkit.LoadReplay(&rp) {
		ns := build(rp.Scen)
		var e, o int64
		ck := checker(rp.Scen, &e, &o)
		if rp.Scen.Proto != "" {
			var err error
			if ns, err = buildReal(rp.Scen); err != nil {
				fmt.Println(err)
				os.Exit(2)
			}
			ck = realChecker(rp.Scen, ns, &e, &o)
		}
		w, err := ns.Replay(rp.History)
		vs := ck.State(w, rp.History)
		fmt.Println("history:\n ", strings.Join(rp.History, "\n  "), "\nreplay error:", err, "\nstatus:", w.Status())
		for _, v := range vs {
			fmt.Println("VIOLATION", v.Sig, v.Detail)
		}
		if len(vs) > 0 {
			os.Exit(1)
		}
		return
	}
	var echo, other, rEcho, rOther int64
	nScen := 0
	all := append(scenarios(), realScenarios()...)
	for i, sc := range all {
		if !vkit.Want(sc.Name) {
			continue
		}
		dev := strings.HasPrefix(sc.Search, "dev")
		if !dev && !vkit.Mine(i) {
			continue // a full search runs in one process; deviation-bounded ones are sharded inside
		}
		var st *netsim.Stats
		bound := "all schedules"
		if sc.Proto == "" {
			ns := build(sc)
			st = ns.Search(checker(sc, &echo, &other), 3000000, vkit.Deadline(60*time.Second, 10*time.Minute))
		} else {
			ns, err := buildReal(sc)
			if err != nil {
				res.Hard(sc.Name + ": " + err.Error())
				continue
			}
			ck := realChecker(sc, ns, &rEcho, &rOther)
			if dev {
				var k int
				fmt.Sscanf(sc.Search, "dev%d", &k)
				bound = fmt.Sprintf("<=%d departures from FIFO", k)
				st = ns.Deviations(k, ck, vkit.Mine, vkit.Deadline(120*time.Second, 30*time.Minute))
			} else {
				st = ns.Search(ck, 3000000, vkit.Deadline(120*time.Second, 20*time.Minute))
			}
			fmt.Fprintf(os.Stderr, "%-60s states=%-8d trans=%-9d sinks=%-7d complete=%v viol=%d %.1fs\n", sc.Name, st.States, st.Transitions, st.Sinks, st.Complete, len(st.Violations), st.WallS)
		}
		nScen++
		res.AddScenario(vkit.Scenario{Name: sc.Name, Bound: bound, Executions: st.Sinks, States: st.States, Transitions: st.Transitions, MaxDepth: st.MaxDepth, Outcomes: st.Outcomes, Complete: st.Complete, WallS: st.WallS})
		for _, v := range st.Violations {
			if strings.HasPrefix(v.Sig, "harness|") {
				res.Hard(sc.Name + ": " + v.Sig + " " + v.Detail)
				continue
			}
			res.Violate(v.Sig, fmt.Sprintf("scenario %s: %s\nschedule:\n  %s", sc.Name, v.Detail, strings.Join(v.History, "\n  ")), map[string]interface{}{"scen": sc, "history": v.History})
		}
		if i%37 == 0 {
			res.Sample(map[string]interface{}{"scenario": sc, "states": st.States, "transitions": st.Transitions, "terminal_outcomes": st.Outcomes})
		}
	}
	res.Evaluations = res.States
	res.Nontrivial = res.States
	res.Extra["sinks_decided_by_echo_check"] = echo
	res.Extra["sinks_without_echo_failure"] = other
	res.Extra["real_protocol_sinks_decided_by_echo_check"] = rEcho
	res.Extra["real_protocol_sinks_without_echo_failure"] = rOther
	res.Finish()
}
