package main

// Real protocols under a *twin* equivocator: the cheating party runs two complete, individually
// honest instances of the repository's own protocol code (different randomness, same identifier).
// Instance 1 talks to the honest parties of group 1, instance 2 to those of group 2; both receive
// everything the honest parties send.  Every message an honest party sees is therefore a valid
// message of a valid participant (fresh polynomial with its own proof, fresh nonce commitments,
// shares matching the commitments that party saw): no content check can object, and in FROST key
// generation the two groups would compute DIFFERENT group keys.  Only the comparison of the echoed
// broadcast hashes stands between the twin and a split.

import (
	"encoding/hex"
	"fmt"
	"sort"
	"strings"

	"github.com/taurusgroup/multi-party-sig/internal/zzverif/drv"
	"github.com/taurusgroup/multi-party-sig/internal/zzverif/netsim"
	"github.com/taurusgroup/multi-party-sig/internal/zzverif/sess"
	"github.com/taurusgroup/multi-party-sig/internal/zzverif/vkit"
	"github.com/taurusgroup/multi-party-sig/pkg/party"
	"github.com/taurusgroup/multi-party-sig/pkg/protocol"
	"github.com/taurusgroup/multi-party-sig/protocols/cmp"
	"github.com/taurusgroup/multi-party-sig/protocols/frost"
)

var keyCache = map[string]interface{}{}

func keygenOnce(kind string, n int) (interface{}, error) {
	k := fmt.Sprintf("%s%d", kind, n)
	if c, ok := keyCache[k]; ok {
		return c, nil
	}
	pids := ids[:n]
	var sp *sess.Spec
	switch kind {
	case "frost":
		sp = sess.FrostKeygen(pids, n-1, false)
	case "taproot":
		sp = sess.FrostKeygen(pids, n-1, true)
	case "cmp":
		sp = sess.CMPKeygen(pids, n-1)
	}
	o := sess.Run(sp, 1, "c06keys")
	if !o.AllDone(pids) {
		return nil, fmt.Errorf("%s keygen failed: %v %v %s", kind, o.Errors, o.StartErr, o.Panic)
	}
	keyCache[k] = o.Results
	return o.Results, nil
}

func realSpec(proto string, n int) (*sess.Spec, error) {
	pids := ids[:n]
	msg := []byte("0123456789abcdef0123456789abcdef")
	var sp *sess.Spec
	switch proto {
	case "frost-keygen":
		sp = sess.FrostKeygen(pids, n-1, false)
	case "frost-keygen-taproot":
		sp = sess.FrostKeygen(pids, n-1, true)
	case "cmp-keygen":
		sp = sess.CMPKeygen(pids, n-1)
	case "frost-sign", "frost-refresh":
		r, err := keygenOnce("frost", n)
		if err != nil {
			return nil, err
		}
		keys := map[party.ID]*frost.Config{}
		for id, c := range r.(map[party.ID]interface{}) {
			keys[id] = c.(*frost.Config)
		}
		if proto == "frost-sign" {
			sp = sess.FrostSign(keys, pids, msg)
		} else {
			sp = sess.FrostRefresh(keys, pids)
		}
	case "frost-sign-taproot":
		r, err := keygenOnce("taproot", n)
		if err != nil {
			return nil, err
		}
		keys := map[party.ID]*frost.TaprootConfig{}
		for id, c := range r.(map[party.ID]interface{}) {
			keys[id] = c.(*frost.TaprootConfig)
		}
		sp = sess.FrostSignTaproot(keys, pids, msg)
	case "cmp-sign", "cmp-presign":
		r, err := keygenOnce("cmp", n)
		if err != nil {
			return nil, err
		}
		keys := map[party.ID]*cmp.Config{}
		for id, c := range r.(map[party.ID]interface{}) {
			keys[id] = c.(*cmp.Config)
		}
		if proto == "cmp-sign" {
			sp = sess.CMPSign(keys, pids, msg)
		} else {
			sp = sess.CMPPresign(keys, pids)
		}
	default:
		return nil, fmt.Errorf("unknown protocol %s", proto)
	}
	sp.SessionID = []byte("sid")
	return sp, nil
}

// publicKey is what two parties that both completed must agree on.
func publicKey(r interface{}) string {
	switch x := r.(type) {
	case *frost.Config:
		var l []string
		for id, p := range x.VerificationShares.Points {
			b, _ := p.MarshalBinary()
			l = append(l, string(id)+"="+hex.EncodeToString(b))
		}
		sort.Strings(l)
		b, _ := x.PublicKey.MarshalBinary()
		return fmt.Sprintf("t=%d pk=%x ck=%x shares=%s", x.Threshold, b, x.ChainKey, strings.Join(l, ","))
	case *frost.TaprootConfig:
		var l []string
		for id, p := range x.VerificationShares {
			b, _ := p.MarshalBinary()
			l = append(l, string(id)+"="+hex.EncodeToString(b))
		}
		sort.Strings(l)
		return fmt.Sprintf("t=%d pk=%x ck=%x shares=%s", x.Threshold, []byte(x.PublicKey), x.ChainKey, strings.Join(l, ","))
	case *cmp.Config:
		var l []string
		for id, p := range x.Public {
			b, _ := p.ECDSA.MarshalBinary()
			l = append(l, string(id)+"="+hex.EncodeToString(b)+"/"+p.Paillier.N().String()[:16])
		}
		sort.Strings(l)
		return fmt.Sprintf("t=%d rid=%x ck=%x pub=%s", x.Threshold, x.RID, x.ChainKey, strings.Join(l, ","))
	}
	return hex.EncodeToString(netsim.DeepHash(r))
}

func buildReal(sc scen) (*netsim.Scenario, error) {
	sp, err := realSpec(sc.Proto, sc.N)
	if err != nil {
		return nil, err
	}
	ns := &netsim.Scenario{Name: sc.Name, Seed: *vkit.Seed, ResultKey: func(r interface{}) string {
		s := publicKey(r)
		return hex.EncodeToString(netsim.DeepHash(s)[:8])
	}}
	for _, id := range sp.IDs {
		if string(id) == sc.Equiv {
			ns.Actors = append(ns.Actors,
				netsim.Actor{Key: string(id) + "1", ID: id, Seed: "c06real|" + sc.Proto + "|" + string(id) + "|1", Honest: false, Group: 1},
				netsim.Actor{Key: string(id) + "2", ID: id, Seed: "c06real|" + sc.Proto + "|" + string(id) + "|2", Honest: false, Group: 2})
			continue
		}
		g := 1
		if in(sc.Group2, string(id)) {
			g = 2
		}
		ns.Actors = append(ns.Actors, netsim.Actor{Key: string(id), ID: id, Seed: "c06real|" + sc.Proto + "|" + string(id), Honest: true, Group: g})
	}
	ns.New = func(a netsim.Actor) (protocol.Handler, error) { return sp.NewHandler(a.ID) }
	ns.Route = func(from netsim.Actor, m *protocol.Message) []string {
		var tos []string
		for _, b := range ns.Actors {
			if !m.IsFor(b.ID) {
				continue
			}
			if !from.Honest && !b.Honest {
				continue
			}
			if !from.Honest && b.Group != from.Group && !(sc.Reach == "both" && b.Group == 2) {
				// each instance only talks to the honest parties of its own group; with reach "both" the
				// parties of group 2 are sent the messages of BOTH instances (two different valid messages
				// for the same slot, in every order), those of group 1 only instance 1's
				continue
			}
			tos = append(tos, b.Key)
		}
		return tos
	}
	if sc.Search == "full" {
		// the twin's own instances process what they are sent at once, in canonical order; the
		// delivery orders of the honest parties are enumerated completely
		ns.Eager = func(a netsim.Actor) bool { return !a.Honest }
	}
	ns.AtDeliver = func(w netsim.View, from, to netsim.Actor, m *protocol.Message) *protocol.Message {
		if from.Honest || !to.Honest {
			return m
		}
		switch sc.Mode {
		case "nil":
			if m.BroadcastVerification != nil {
				c := drv.CloneMsg(m)
				c.BroadcastVerification = nil
				return c
			}
		case "tailored":
			for _, s := range w.SentBy(to.Key) {
				if s.RoundNumber == m.RoundNumber && s.BroadcastVerification != nil {
					c := drv.CloneMsg(m)
					c.BroadcastVerification = append([]byte(nil), s.BroadcastVerification...)
					return c
				}
			}
		}
		return m
	}
	return ns, nil
}

func realChecker(sc scen, ns *netsim.Scenario, echo, other *int64) netsim.Checker {
	return netsim.Checker{
		State: func(w netsim.W, hist []string) []netsim.Violation {
			var vs []netsim.Violation
			st := w.Status()
			done := map[int][]string{}
			views := map[string][]string{}
			for _, a := range ns.Actors {
				if !a.Honest {
					continue
				}
				p := w.Info(a.Key)
				if p.Panic != "" {
					vs = append(vs, netsim.Violation{Sig: "panic|" + p.PanicFrame, Detail: fmt.Sprintf("party %s panicked: %s", a.Key, p.Panic)})
				}
				if strings.HasPrefix(st[a.Key], "done:") {
					done[a.Group] = append(done[a.Group], a.Key)
					views[st[a.Key]] = append(views[st[a.Key]], a.Key)
				}
			}
			// reach "both": the parties of group 2 were sent the messages of both instances and may have kept
			// instance 1's throughout (the later ones being refused as duplicates); completing is then fine and
			// only the agreement of the results is demanded
			if len(done[1]) > 0 && len(done[2]) > 0 && sc.Reach != "both" {
				vs = append(vs, netsim.Violation{Sig: fmt.Sprintf("split-completion|%s|mode=%s", sc.Proto, sc.Mode),
					Detail: fmt.Sprintf("%s ran two instances (second one towards %v); honest parties %v and %v were served by different instances and all completed: %v", sc.Equiv, sc.Group2, done[1], done[2], st)})
			}
			if len(views) > 1 {
				vs = append(vs, netsim.Violation{Sig: fmt.Sprintf("different-results-completed|%s|mode=%s", sc.Proto, sc.Mode), Detail: fmt.Sprintf("completed honest parties hold different public results: %v", views)})
			}
			return vs
		},
		Sink: func(w netsim.W, hist []string) []netsim.Violation {
			for _, a := range ns.Actors {
				if a.Honest && strings.Contains(w.Status()[a.Key], "broadcast verification failed") {
					*echo++
					return nil
				}
			}
			*other++
			return nil
		},
	}
}

func realScenarios() []scen {
	var l []scen
	type cfg struct {
		proto string
		n     int
		srch  string
	}
	cfgs := []cfg{{"frost-keygen", 3, "full"}, {"frost-sign", 3, "full"}, {"frost-sign-taproot", 3, "full"}}
	if vkit.Thorough() {
		cfgs = append(cfgs, cfg{"frost-keygen-taproot", 3, "full"}, cfg{"frost-refresh", 3, "full"}, cfg{"frost-keygen", 4, "dev1"}, cfg{"frost-sign", 4, "dev1"},
			cfg{"cmp-sign", 3, "dev0"}, cfg{"cmp-presign", 3, "dev0"}, cfg{"cmp-keygen", 3, "dev0"})
	}
	for _, c := range cfgs {
		equivs := []string{"c"}
		modes := []string{"own", "tailored"}
		if vkit.Thorough() && !strings.HasPrefix(c.proto, "cmp") {
			equivs = []string{"a", "b", "c", "d"}[:c.n]
			modes = []string{"own", "tailored", "nil"}
		}
		for _, e := range equivs {
			var honest []string
			for _, id := range ids[:c.n] {
				if string(id) != e {
					honest = append(honest, string(id))
				}
			}
			parts := partitions(honest)
			if strings.HasPrefix(c.proto, "cmp") {
				parts = parts[:1]
			}
			for _, g2 := range parts {
				for _, m := range modes {
					for _, reach := range []string{"split", "both"} {
						if reach == "both" && strings.HasPrefix(c.proto, "cmp") {
							continue
						}
						if reach == "both" && !vkit.Thorough() && strings.Contains(c.proto, "keygen") && (m != "tailored" || strings.Join(g2, "") != "b") {
							continue // quick: one partition and the tailored echo for the larger key generation spaces
						}
						l = append(l, scen{Name: fmt.Sprintf("real:%s/n%d/twin=%s/g2=%s/%s/%s/%s", c.proto, c.n, e, strings.Join(g2, ""), m, reach, c.srch),
							Proto: c.proto, N: c.n, Equiv: e, Group2: g2, Mode: m, Reach: reach, Search: c.srch})
					}
				}
			}
		}
	}
	return l
}
