package main

import (
	"github.com/taurusgroup/multi-party-sig/internal/zzverif/sess"
	"github.com/taurusgroup/multi-party-sig/pkg/party"
	"github.com/taurusgroup/multi-party-sig/protocols/doerner"
)

func doernerSign(r, s interface{}, ids []party.ID, msg []byte) *sess.Spec {
	return sess.DoernerSign(r.(*doerner.ConfigReceiver), s.(*doerner.ConfigSender), ids[0], ids[1], msg)
}

func doernerRefresh(r, s interface{}, ids []party.ID) *sess.Spec {
	return sess.DoernerRefresh(r.(*doerner.ConfigReceiver), s.(*doerner.ConfigSender), ids[0], ids[1])
}
