// C09 — sessions are isolated from one another.
//
//	(a) tag injectivity: every pair of session-parameter tuples that differ in a listed
//	    parameter must have different (Protocol, SSID) tags, read from the first message of
//	    real handlers;
//	(b) replay: for every ordered pair (A, B) of sessions differing in exactly one parameter,
//	    EVERY message of A is offered to the same-named party at EVERY point of an in-order run
//	    of B: CanAccept must say no, and forcing it through Accept anyway must leave B's results
//	    and emitted messages byte-identical to the undisturbed B.
package main

import (
	"bytes"
	"encoding/hex"
	"fmt"
	"io"
	"os"
	"sort"
	"strings"

	"github.com/taurusgroup/multi-party-sig/internal/zzverif/drv"
	"github.com/taurusgroup/multi-party-sig/internal/zzverif/kmat"
	"github.com/taurusgroup/multi-party-sig/internal/zzverif/netsim"
	"github.com/taurusgroup/multi-party-sig/internal/zzverif/sess"
	"github.com/taurusgroup/multi-party-sig/internal/zzverif/vkit"
	"github.com/taurusgroup/multi-party-sig/pkg/ecdsa"
	"github.com/taurusgroup/multi-party-sig/pkg/party"
	"github.com/taurusgroup/multi-party-sig/pkg/protocol"
	"github.com/taurusgroup/multi-party-sig/protocols/cmp"
	"github.com/taurusgroup/multi-party-sig/protocols/example"
	"github.com/taurusgroup/multi-party-sig/protocols/frost"
)

// params is one session-parameter tuple.
type params struct {
	Proto   string   `json:"proto"`
	SID     *string  `json:"sid"` // nil = no session id
	IDs     []string `json:"ids"`
	T       int      `json:"t"`
	Msg     string   `json:"msg"`
	KeySet  int      `json:"keyset"`             // which key generation the material comes from (0/1)
	PreSig  int      `json:"presig"`             // which presignature (0/1)
	TagOnly bool     `json:"tag_only,omitempty"` // compare session tags only (no replay of messages into the other session)
	Child   int      `json:"child"`              // 0: the key set itself; 1: its BIP-32 child 0; 2 / 3: child 0 / child 1 derived from a parent OBJECT that has already been used (written into a transcript)
}

func (p params) String() string {
	sid := "nil"
	if p.SID != nil {
		sid = fmt.Sprintf("%q", *p.SID)
	}
	return fmt.Sprintf("%s sid=%s ids=%v t=%d msg=%q keys=%d child=%v presig=%d", p.Proto, sid, p.IDs, p.T, p.Msg, p.KeySet, p.Child, p.PreSig)
}

func pids(l []string) []party.ID {
	out := make([]party.ID, len(l))
	for i, s := range l {
		out[i] = party.ID(s)
	}
	return out
}

var frostKeys = map[string]map[party.ID]*frost.Config{}
var tapKeys = map[string]map[party.ID]*frost.TaprootConfig{}
var cmpKeys = map[string]map[party.ID][]byte{}
var cmpPre = map[string]map[party.ID]*ecdsa.PreSignature{}

func keyLabel(p params) string { return fmt.Sprintf("%v/%d/%d", p.IDs, p.T, p.KeySet) }

// spec builds the session for a tuple (fresh key-material objects on every call).
func spec(p params) (*sess.Spec, error) {
	ids := pids(p.IDs)
	var sp *sess.Spec
	msg := []byte(p.Msg)
	switch p.Proto {
	case "xor":
		sp = &sess.Spec{Name: "xor", IDs: ids, Start: func(id party.ID) protocol.StartFunc { return example.StartXOR(id, party.NewIDSlice(ids)) }}
	case "frost-keygen":
		sp = sess.FrostKeygen(ids, p.T, false)
	case "frost-keygen-taproot":
		sp = sess.FrostKeygen(ids, p.T, true)
	case "frost-sign", "frost-refresh":
		o := sess.Run(sess.FrostKeygen(ids, p.T, false), int64(1+p.KeySet), "c09keys")
		k := map[party.ID]*frost.Config{}
		for _, id := range ids {
			c, ok := o.Results[id].(*frost.Config)
			if !ok {
				return nil, fmt.Errorf("frost keygen failed for %v: %v %s", p.IDs, o.Errors, o.Panic)
			}
			k[id] = c
		}
		if p.Proto == "frost-sign" {
			sp = sess.FrostSign(k, ids, msg)
		} else {
			sp = sess.FrostRefresh(k, ids)
		}
	case "frost-sign-taproot", "frost-refresh-taproot":
		o := sess.Run(sess.FrostKeygen(ids, p.T, true), int64(1+p.KeySet), "c09keys")
		k := map[party.ID]*frost.TaprootConfig{}
		for _, id := range ids {
			c, ok := o.Results[id].(*frost.TaprootConfig)
			if !ok {
				return nil, fmt.Errorf("taproot keygen failed: %v %s", o.Errors, o.Panic)
			}
			k[id] = c
		}
		if p.Proto == "frost-refresh-taproot" {
			sp = sess.FrostRefreshTaproot(k, ids)
		} else {
			sp = sess.FrostSignTaproot(k, ids, msg)
		}
	case "doerner-keygen":
		sp = sess.DoernerKeygen(ids[0], ids[1])
	case "doerner-sign", "doerner-refresh":
		o := sess.Run(sess.DoernerKeygen(ids[0], ids[1]), int64(1+p.KeySet), "c09keys")
		r, ok1 := o.Results[ids[0]].(interface{})
		s, ok2 := o.Results[ids[1]].(interface{})
		if !ok1 || !ok2 || r == nil || s == nil {
			return nil, fmt.Errorf("doerner keygen failed: %v %s", o.Errors, o.Panic)
		}
		if p.Proto == "doerner-refresh" {
			sp = doernerRefresh(r, s, ids)
		} else {
			sp = doernerSign(r, s, ids, msg)
		}
	case "cmp-keygen":
		sp = sess.CMPKeygen(ids, p.T)
	case "cmp-sign", "cmp-presign", "cmp-refresh", "cmp-presign-online":
		lbl := keyLabel(p)
		if _, ok := cmpKeys[lbl]; !ok {
			o := sess.Run(sess.CMPKeygen(ids, p.T), int64(1+p.KeySet), "c09keys")
			m := map[party.ID][]byte{}
			for _, id := range ids {
				c, ok := o.Results[id].(*cmp.Config)
				if !ok {
					return nil, fmt.Errorf("cmp keygen failed: %v %s", o.Errors, o.Panic)
				}
				m[id], _ = c.MarshalBinary()
			}
			cmpKeys[lbl] = m
		}
		k := map[party.ID]*cmp.Config{}
		for id, b := range cmpKeys[lbl] {
			c := cmp.EmptyConfig(sess.Group)
			if err := c.UnmarshalBinary(b); err != nil {
				return nil, err
			}
			if p.Child >= 2 {
				// the parent has been in use before the child is derived from it: anything the object
				// remembers from having been hashed must not travel into the child
				_, _ = c.WriteTo(io.Discard)
			}
			if p.Child > 0 {
				cc, err := c.DeriveBIP32(uint32(p.Child / 3))
				if err != nil {
					return nil, err
				}
				c = cc
			}
			k[id] = c
		}
		switch p.Proto {
		case "cmp-sign":
			sp = sess.CMPSign(k, ids, msg)
		case "cmp-presign":
			sp = sess.CMPPresign(k, ids)
		case "cmp-refresh":
			sp = sess.CMPRefresh(k, ids)
		case "cmp-presign-online":
			pl := fmt.Sprintf("%s/%v/%d", lbl, p.Child, p.PreSig)
			if _, ok := cmpPre[pl]; !ok {
				o := sess.Run(sess.CMPPresign(k, ids), int64(10+p.PreSig), "c09presig")
				m := map[party.ID]*ecdsa.PreSignature{}
				for _, id := range ids {
					ps, ok := o.Results[id].(*ecdsa.PreSignature)
					if !ok {
						return nil, fmt.Errorf("cmp presign failed: %v %s", o.Errors, o.Panic)
					}
					m[id] = ps
				}
				cmpPre[pl] = m
			}
			sp = sess.CMPPresignOnline(k, cmpPre[pl], ids, msg)
		}
	default:
		return nil, fmt.Errorf("unknown protocol %s", p.Proto)
	}
	if p.SID == nil {
		sp.SessionID = nil
	} else {
		sp.SessionID = []byte(*p.SID)
	}
	sp.Name = p.Proto
	return sp, nil
}

func sidp(s string) *string { return &s }

// variants returns the tuples that differ from base in exactly one parameter (with the name of that parameter).
func variants(base params, cmpLike bool) map[string]params {
	v := map[string]params{}
	for _, s := range []*string{nil, sidp(""), sidp("b"), sidp("ab")} {
		if (s == nil) != (base.SID == nil) || (s != nil && *s != *base.SID) {
			p := base
			p.SID = s
			name := "session-id=nil"
			if s != nil {
				name = fmt.Sprintf("session-id=%q", *s)
			}
			v[name] = p
		}
	}
	if base.T >= 1 && !strings.Contains(base.Proto, "doerner") && base.Proto != "xor" && (strings.Contains(base.Proto, "keygen")) {
		p := base
		p.T = base.T - 1
		v["threshold"] = p
		if base.T+1 < len(base.IDs) {
			p2 := base
			p2.T = base.T + 1
			v["threshold+1"] = p2
		}
	}
	if strings.Contains(base.Proto, "keygen") || base.Proto == "xor" {
		// participant sets: another third party; and the adversarial concatenation pair
		if len(base.IDs) == 3 {
			p := base
			p.IDs = []string{base.IDs[0], base.IDs[1], base.IDs[2] + "x"}
			v["participants-other-member"] = p
		}
	}
	if base.Msg != "" {
		for _, m := range []string{base.Msg + base.Msg, base.Msg + "\x00"} {
			p := base
			p.Msg = m
			v[fmt.Sprintf("message=%q", m)] = p
		}
	}
	if cmpLike || strings.Contains(base.Proto, "sign") || strings.Contains(base.Proto, "refresh") {
		p := base
		p.KeySet = 1 - base.KeySet
		v["key-material"] = p
	}
	if base.Proto == "cmp-presign-online" {
		p := base
		p.PreSig = 1 - base.PreSig
		v["presignature"] = p
	}
	if cmpLike && base.Proto != "cmp-keygen" {
		// related key material: the BIP-32 child shares everything with its parent except the ECDSA shares
		p := base
		p.Child = 1 - base.Child
		v["key-material=bip32-child"] = p
		if base.Child == 0 {
			p2 := base
			p2.Child = 2
			v["key-material=bip32-child-of-a-used-parent"] = p2
		}
	}
	return v
}

// which parameters the property requires the tag to depend on, per protocol
func tagMustDiffer(proto, param string) bool {
	switch {
	case strings.HasPrefix(param, "message"), strings.HasPrefix(param, "key-material"), param == "presignature":
		return proto == "cmp-sign" || proto == "cmp-presign" || proto == "cmp-refresh" || proto == "cmp-presign-online"
	}
	return true
}

type tag struct {
	Protocol string
	SSID     string
}

func firstTag(p params) (tag, *drv.Net, error) {
	sp, err := spec(p)
	if err != nil {
		return tag{}, nil, err
	}
	net, startErr := sess.Build(sp, *vkit.Seed, "c09")
	if len(startErr) > 0 {
		return tag{}, nil, fmt.Errorf("start errors: %v", startErr)
	}
	for _, id := range net.IDs {
		for _, m := range net.Parties[id].Sent {
			return tag{m.Protocol, hex.EncodeToString(m.SSID)}, net, nil
		}
	}
	return tag{}, net, fmt.Errorf("no first message")
}

func bases() []params {
	abc := []string{"a", "b", "c"}
	ab := []string{"a", "b"}
	l := []params{
		{Proto: "xor", SID: sidp("a"), IDs: abc, T: 2},
		{Proto: "frost-keygen", SID: sidp("a"), IDs: abc, T: 1},
		{Proto: "frost-keygen-taproot", SID: sidp("a"), IDs: abc, T: 1},
		{Proto: "frost-refresh", SID: sidp("a"), IDs: abc, T: 1},
		{Proto: "frost-refresh-taproot", SID: sidp("a"), IDs: abc, T: 1},
		{Proto: "frost-sign", SID: sidp("a"), IDs: abc, T: 1, Msg: "m"},
		{Proto: "frost-sign-taproot", SID: sidp("a"), IDs: abc, T: 1, Msg: "m"},
		{Proto: "doerner-keygen", SID: sidp("a"), IDs: ab, T: 1},
		{Proto: "doerner-refresh", SID: sidp("a"), IDs: ab, T: 1},
		{Proto: "doerner-sign", SID: sidp("a"), IDs: ab, T: 1, Msg: "m"},
		{Proto: "cmp-sign", SID: sidp("a"), IDs: ab, T: 1, Msg: "m"},
		{Proto: "cmp-presign-online", SID: sidp("a"), IDs: ab, T: 1, Msg: "m"},
	}
	if vkit.Thorough() {
		l = append(l, params{Proto: "cmp-keygen", SID: sidp("a"), IDs: ab, T: 1}, params{Proto: "cmp-presign", SID: sidp("a"), IDs: ab, T: 1},
			params{Proto: "cmp-refresh", SID: sidp("a"), IDs: ab, T: 1})
	} else {
		// quick tier: the session tags of these two are compared for every one-parameter variation; the replay of
		// every message at every point of the other session (seconds per session) is left to the thorough tier
		l = append(l, params{Proto: "cmp-presign", SID: sidp("a"), IDs: ab, T: 1, TagOnly: true}, params{Proto: "cmp-refresh", SID: sidp("a"), IDs: ab, T: 1, TagOnly: true})
	}
	return l
}

func main() {
	res := vkit.Init("C09")
	drv.Install()
	res.Rule = "tag part: every pair of parameter tuples differing in one listed parameter (and the adversarial identifier sets) is one case; replay part: one case per (session pair, message of A, point of B, recipient): CanAccept verdict, and the forced delivery of all of A's messages at all points of one run of B compared byte for byte with the undisturbed B"
	res.Assumptions = []string{"only secp256k1 is offered, so the curve dimension is vacuous", "B is run in order; delivery orders are C07's subject"}
	var rp struct {
		A params `json:"a"`
		B params `json:"b"`
	}
	if vkit.LoadReplay(&rp) {
		vs := replayPair(rp.A, rp.B, "replay", true, res)
		_ = vs
		res.Finish()
		if len(res.Violations) > 0 {
			for _, v := range res.Violations {
				fmt.Println("VIOLATION", v.Sig, "\n ", v.Detail)
			}
			os.Exit(1)
		}
		return
	}
	n := 0
	// (c) context binding of proof-carrying messages (binding.go)
	if vkit.Want("binding") {
		contextBinding(res, &n)
		commitmentCopied(res, &n)
	}
	// (a) adversarial identifier sets with equal concatenations / shared prefixes
	advPairs := [][2][]string{{{"a", "bc", "x"}, {"ab", "c", "x"}}, {{"a", "bc"}, {"ab", "c"}}, {{"a", "b", "c"}, {"ab", "c"}}, {{"a", "ab", "abc"}, {"a", "aab", "bc"}}}
	// identifier sets that collide under a length prefix of w bytes that WRAPS (a count stored in too narrow an
	// integer): X = "a"+L(1)+M and Y = M+L(1)+"n" with |M| = 2^(8w)-w, so that |X| and |Y| are 1 modulo 2^(8w);
	// then L(|X|) X L(1) "n" and L(1) "a" L(|Y|) Y are the same bytes.  w = 1, 2; big and little endian.
	for _, w := range []int{1, 2} {
		for _, le := range []bool{false, true} {
			one := make([]byte, w)
			if le {
				one[0] = 1
			} else {
				one[w-1] = 1
			}
			M := strings.Repeat("m", (1<<(8*uint(w)))-w)
			X, Y := "a"+string(one)+M, M+string(one)+"n"
			advPairs = append(advPairs, [2][]string{{X, "n", "x", "y"}, {"a", Y, "x", "y"}}, [2][]string{{X, "n"}, {"a", Y}})
		}
	}
	for _, pr := range advPairs {
		for _, proto := range []string{"xor", "frost-keygen", "doerner-keygen"} {
			if proto == "doerner-keygen" && (len(pr[0]) != 2 || len(pr[1]) != 2) {
				continue
			}
			n++
			if !vkit.Mine(n) {
				continue
			}
			A := params{Proto: proto, SID: sidp("a"), IDs: pr[0], T: 1}
			B := params{Proto: proto, SID: sidp("a"), IDs: pr[1], T: 1}
			if proto == "xor" {
				A.T, B.T = len(pr[0])-1, len(pr[1])-1
			}
			ta, _, ea := firstTag(A)
			tb, _, eb := firstTag(B)
			res.Case(fmt.Sprintf("tag|%s|%s|%s", proto, clipIDs(pr[0]), clipIDs(pr[1])))
			if ea != nil || eb != nil {
				res.Hard(fmt.Sprintf("tag: cannot start %v / %v: %v %v", A, B, ea, eb))
				continue
			}
			if ta == tb {
				res.Violate("same-tag|participants-with-equal-concatenation", fmt.Sprintf("%s sessions over %s and over %s have the same tag (protocol %q, ssid %s)", proto, clipIDs(pr[0]), clipIDs(pr[1]), ta.Protocol, ta.SSID),
					map[string]interface{}{"a": A, "b": B})
			}
		}
	}
	// (a)+(b) one-parameter variants
	for _, base := range bases() {
		if !vkit.Want(base.Proto) {
			continue
		}
		vs := variants(base, strings.HasPrefix(base.Proto, "cmp"))
		names := make([]string, 0, len(vs))
		for k := range vs {
			names = append(names, k)
		}
		sort.Strings(names)
		for _, name := range names {
			n++
			if !vkit.Mine(n) {
				continue
			}
			A := vs[name]
			tb, _, eb := firstTag(base)
			ta, _, ea := firstTag(A)
			res.Case(fmt.Sprintf("tag|%s|%s", base.Proto, name))
			if ea != nil || eb != nil {
				res.Hard(fmt.Sprintf("tag: cannot start %v / %v: %v %v", A, base, ea, eb))
				continue
			}
			pclass := name
			if i := strings.Index(name, "="); i > 0 {
				pclass = name[:i]
			}
			if ta == tb && tagMustDiffer(base.Proto, name) {
				res.Violate("same-tag|"+base.Proto+"|"+pclass, fmt.Sprintf("sessions differing only in %s have the same tag: %v vs %v (protocol %q, ssid %s)", name, base, A, ta.Protocol, ta.SSID),
					map[string]interface{}{"a": A, "b": base})
			}
			if !tagMustDiffer(base.Proto, name) {
				continue // the property only lists this parameter for the CMP protocols
			}
			okAB := replayPair(A, base, pclass, ta == tb, res)
			okBA := replayPair(base, A, pclass, ta == tb, res)
			res.Sample(map[string]interface{}{"session_B": base.String(), "session_A": A.String(), "differs_in": name, "tags_differ": ta != tb,
				"all_messages_of_A_at_all_points_of_B_are_no_ops": okAB, "and_vice_versa": okBA})
		}
		// two LONG messages that agree on their first 32 bytes (a tag that only takes the part of the message a
		// scalar is made of would not tell them apart)
		if base.Msg != "" {
			n++
			if vkit.Mine(n) {
				A, B := base, base
				A.Msg = strings.Repeat("m", 32) + "AAAAAAAA"
				B.Msg = strings.Repeat("m", 32) + "BBBBBBBB"
				ta, _, ea := firstTag(A)
				tb, _, eb := firstTag(B)
				res.Case(fmt.Sprintf("tag|%s|message=long-common-32-byte-prefix", base.Proto))
				if ea != nil || eb != nil {
					res.Hard(fmt.Sprintf("tag: cannot start %v / %v: %v %v", A, B, ea, eb))
				} else if tagMustDiffer(base.Proto, "message") {
					if ta == tb {
						res.Violate("same-tag|"+base.Proto+"|message", fmt.Sprintf("sessions whose 40-byte messages differ only after byte 32 have the same tag: %v vs %v (protocol %q, ssid %s)", A, B, ta.Protocol, ta.SSID),
							map[string]interface{}{"a": A, "b": B})
					}
					replayPair(A, B, "message", ta == tb, res)
				}
			}
		}
		// two sibling children (indices 0 and 1) derived from one parent object that was already in use
		if tagMustDiffer(base.Proto, "key-material") && strings.HasPrefix(base.Proto, "cmp-") && base.Proto != "cmp-keygen" && base.Child == 0 {
			n++
			if vkit.Mine(n) {
				A, B := base, base
				A.Child, B.Child = 2, 3
				ta, _, ea := firstTag(A)
				tb, _, eb := firstTag(B)
				res.Case(fmt.Sprintf("tag|%s|key-material=bip32-sibling-children-of-a-used-parent", base.Proto))
				if ea != nil || eb != nil {
					res.Hard(fmt.Sprintf("tag: cannot start %v / %v: %v %v", A, B, ea, eb))
				} else {
					if ta == tb {
						res.Violate("same-tag|"+base.Proto+"|key-material", fmt.Sprintf("sessions on the children 0 and 1 of one (already used) parent configuration have the same tag: %v vs %v (protocol %q, ssid %s)", A, B, ta.Protocol, ta.SSID),
							map[string]interface{}{"a": A, "b": B})
					}
					replayPair(A, B, "key-material", ta == tb, res)
				}
			}
		}
		// cross-protocol pairs with identical other parameters
		for _, other := range bases() {
			if other.Proto == base.Proto || fmt.Sprint(other.IDs) != fmt.Sprint(base.IDs) {
				continue
			}
			n++
			if !vkit.Mine(n) {
				continue
			}
			res.Case(fmt.Sprintf("tag|%s|protocol=%s", base.Proto, other.Proto))
			ta, _, ea := firstTag(other)
			tb, _, eb := firstTag(base)
			if ea == nil && eb == nil && ta == tb {
				res.Violate("same-tag|protocol|"+pairName(base.Proto, other.Proto), fmt.Sprintf("%v and %v have the same tag", base, other), map[string]interface{}{"a": other, "b": base})
			}
			replayPair(other, base, "protocol", ea == nil && eb == nil && ta == tb, res)
		}
	}
	res.Finish()
}

// clipIDs prints identifier lists with long identifiers abbreviated.
func clipIDs(ids []string) string {
	var l []string
	for _, id := range ids {
		if len(id) > 24 {
			l = append(l, fmt.Sprintf("%q...(%d bytes)...%q", id[:6], len(id), id[len(id)-6:]))
		} else {
			l = append(l, fmt.Sprintf("%q", id))
		}
	}
	return "[" + strings.Join(l, " ") + "]"
}

func pairName(a, b string) string {
	if a > b {
		a, b = b, a
	}
	return a + "+" + b
}

// replayPair offers every message of session A at every point of session B.
func replayPair(A, B params, pclass string, sameTag bool, res *vkit.Result) bool {
	if A.TagOnly || B.TagOnly {
		return true
	}
	spA, errA := spec(A)
	spB, errB := spec(B)
	if errA != nil || errB != nil {
		res.Hard(fmt.Sprintf("replay: cannot build %v / %v: %v %v", A, B, errA, errB))
		return false
	}
	oA := sess.Run(spA, *vkit.Seed, "c09A")
	var msgsA []*protocol.Message
	for _, id := range oA.Net.IDs {
		msgsA = append(msgsA, oA.Net.Parties[id].Sent...)
	}
	// abort notices of A: what a party of A emits when it is stopped right after starting
	if spA2, err := spec(A); err == nil {
		netA, se := sess.Build(spA2, *vkit.Seed, "c09A")
		if len(se) == 0 {
			for _, id := range netA.IDs {
				p := netA.Parties[id]
				before := len(p.Sent)
				p.Guard(func() { p.H.Stop() })
				for _, m := range p.Sent[before:] {
					if m.RoundNumber == 0 {
						msgsA = append(msgsA, m)
					}
				}
			}
		}
	}
	// reference B
	ref := sess.Run(spB, *vkit.Seed, "c09B")
	refKey := outcomeKey(ref)
	// disturbed B (fresh objects)
	spB2, _ := spec(B)
	net, startErr := sess.Build(spB2, *vkit.Seed, "c09B")
	if len(startErr) > 0 {
		res.Hard(fmt.Sprintf("replay: start errors %v", startErr))
		return false
	}
	replay := map[string]interface{}{"a": A, "b": B}
	accepted := map[string]bool{}
	offer := func(point int) {
		for _, m := range msgsA {
			for _, id := range net.IDs {
				if !m.IsFor(id) {
					continue
				}
				p := net.Parties[id]
				res.Case(fmt.Sprintf("replay|%s>%s|%s|%s|@%d|%s", A.Proto, B.Proto, pclass, drv.Short(m), point, id))
				var can bool
				p.Guard(func() { can = p.H.CanAccept(m) })
				if can {
					k := fmt.Sprintf("r%d", m.RoundNumber)
					if !accepted[k] {
						accepted[k] = true
						res.Violate(fmt.Sprintf("foreign-message-accepted|%s>%s|%s", A.Proto, B.Proto, pclass),
							fmt.Sprintf("CanAccept of party %s in session [%v] says yes to message %s of session [%v] (sessions differ in %s; same tag: %v) at point %d", id, B, drv.Short(m), A, pclass, sameTag, point), replay)
					}
				}
				p.Force(drv.CloneMsg(m))
			}
		}
	}
	net.Flush()
	point := 0
	offer(point)
	for len(net.Queue) > 0 && point < 100000 {
		net.DeliverAt(0)
		point++
		offer(point)
	}
	out := &sess.Outcome{Net: net, Results: map[party.ID]interface{}{}, Errors: map[party.ID]error{}}
	sess.Collect(out)
	if out.Panic != "" {
		res.Violate(fmt.Sprintf("panic|%s>%s|%s", A.Proto, B.Proto, pclass), "a party of session B panicked while absorbing messages of session A: "+out.Panic, replay)
	}
	if k := outcomeKey(out); k != refKey {
		res.Violate(fmt.Sprintf("foreign-messages-changed-outcome|%s>%s|%s", A.Proto, B.Proto, pclass),
			fmt.Sprintf("session [%v] absorbing every message of session [%v] at every point ends differently from the undisturbed run:\n disturbed:   %s\n undisturbed: %s", B, A, k, refKey), replay)
		return false
	}
	return true
}

// outcomeKey: results and emitted messages of all parties, canonically.
func outcomeKey(o *sess.Outcome) string {
	var parts []string
	for _, id := range o.Net.IDs {
		p := o.Net.Parties[id]
		var sent []string
		for _, m := range p.Sent {
			sent = append(sent, drv.MsgID(m))
		}
		sort.Strings(sent)
		r := "none"
		if x, ok := o.Results[id]; ok {
			r = hex.EncodeToString(netsim.DeepHash(x)[:8])
		} else if e, ok := o.Errors[id]; ok {
			r = "error:" + e.Error()
		}
		parts = append(parts, fmt.Sprintf("%s:%s:%d msgs %x", id, r, len(sent), netsim.DeepHash(sent)[:6]))
	}
	return strings.Join(parts, " | ")
}

var _ = bytes.Equal
var _ = kmat.IDs
