package main

// (c) Context binding of proof-carrying messages.  A message that carries a proof (or a commitment
// opening) is bound to the identity of its sender through the per-party hash context: offered to a
// third party under ANOTHER member's name it must be refused on the spot - CanAccept false, or the
// receiver in error immediately after the Accept - and never stored.  (Judging the end of the session
// is not enough: a stored foreign polynomial is usually exposed a round later by the shares, so the
// session aborts anyway and hides that the proof check did not bind the name.)  Identifier shapes:
// short, exactly 32 bytes, and longer than a scalar (33, 40, 64 bytes): identifiers are hashed into
// the context, and anything that silently drops an over-long identifier makes all such parties share
// one context.

import (
	"fmt"
	"strings"

	"github.com/taurusgroup/multi-party-sig/internal/zzverif/drv"
	"github.com/taurusgroup/multi-party-sig/internal/zzverif/faults"
	"github.com/taurusgroup/multi-party-sig/internal/zzverif/sess"
	"github.com/taurusgroup/multi-party-sig/internal/zzverif/vkit"
	"github.com/taurusgroup/multi-party-sig/pkg/party"
)

func idShape(n int) []party.ID {
	mk := func(c string) party.ID {
		if n <= 1 {
			return party.ID(c)
		}
		return party.ID(c + strings.Repeat("-", n-2) + c)
	}
	return []party.ID{mk("a"), mk("b"), mk("c")}
}

func contextBinding(res *vkit.Result, n *int) {
	type proto struct {
		name string
		spec func(ids []party.ID) *sess.Spec
	}
	protos := []proto{
		{"frost-keygen", func(ids []party.ID) *sess.Spec { return sess.FrostKeygen(ids, 1, false) }},
		{"frost-keygen-taproot", func(ids []party.ID) *sess.Spec { return sess.FrostKeygen(ids, 1, true) }},
	}
	if vkit.Thorough() {
		protos = append(protos, proto{"cmp-keygen", func(ids []party.ID) *sess.Spec { return sess.CMPKeygen(ids, 1) }})
	}
	for _, pr := range protos {
		for _, ln := range []int{1, 32, 33, 40, 64} {
			*n++
			if !vkit.Mine(*n) {
				continue
			}
			ids := idShape(ln)
			A, B, C := ids[0], ids[1], ids[2]
			sp := pr.spec(ids)
			sp.SessionID = []byte("sid")
			// run the session in order; at every point at which C has not yet accepted B's message of a round,
			// offer A's message of that round under B's name
			net, startErr := sess.Build(sp, *vkit.Seed, "c09bind")
			if len(startErr) > 0 {
				res.Hard(fmt.Sprintf("binding: cannot start %s with %d-byte ids: %v", pr.name, ln, startErr))
				continue
			}
			net.Flush()
			offered := map[string]bool{}
			for steps := 0; len(net.Queue) > 0 && steps < 10000; steps++ {
				d := net.Queue[0]
				// before delivering B's genuine message to C: the same slot, A's content under B's name
				if d.To == C && d.M.From == B {
					for _, am := range net.Parties[A].Sent {
						key := fmt.Sprintf("r%d b%v", am.RoundNumber, am.Broadcast)
						if am.RoundNumber != d.M.RoundNumber || am.Broadcast != d.M.Broadcast || !am.IsFor(C) || offered[key] {
							continue
						}
						if pr.name == "cmp-keygen" && am.RoundNumber == 2 {
							// the round-2 broadcast of the CMP key generation is a bare hash commitment: nothing in it can be
							// checked before it is opened in round 3, so storing it under any name is what the protocol does.
							// Its binding to the author is judged where it is opened (commitmentCopied).
							continue
						}
						offered[key] = true
						res.Case(fmt.Sprintf("binding|%s|ids=%d|%s", pr.name, ln, key))
						// a fresh copy of the world up to here is not available (live objects): the probe is made on C itself
						// and the session is abandoned afterwards if C took the message
						fm := drv.CloneMsg(am)
						fm.From = B
						pc := net.Parties[C]
						before := pc.Status()
						var can bool
						pc.Guard(func() { can = pc.H.CanAccept(fm) })
						if !can {
							continue
						}
						pc.Guard(func() { pc.H.Accept(fm) })
						if pc.Panic != "" {
							res.Violate("panic|binding|"+pc.PanicFrame, pc.Panic, map[string]interface{}{"binding": pr.name, "ids": ln})
						}
						if before == "running" && pc.Status() == "running" {
							res.Violate(fmt.Sprintf("context-binding|%s|%s|message-of-other-party-accepted-under-wrong-name", pr.name, key),
								fmt.Sprintf("%s with %d-byte identifiers: %s's round-%d %s message, offered to %s under %s's name, was accepted and stored (the receiver is still running, no error): the proof / commitment it carries is not bound to its sender",
									pr.name, ln, clipIDs([]string{string(A)}), am.RoundNumber, map[bool]string{true: "broadcast", false: "p2p"}[am.Broadcast], clipIDs([]string{string(C)}), clipIDs([]string{string(B)})),
								map[string]interface{}{"binding": pr.name, "ids": ln})
						}
						// C is now either in error (correct) or polluted (violation): stop this session
						net.Queue = nil
					}
					if len(net.Queue) == 0 {
						break
					}
				}
				net.DeliverAt(0)
			}
		}
	}
}

// commitmentCopied: FROST key generation in which party C copies party A's chain-key COMMITMENT into its own
// round-2 broadcast (keeping its own polynomial and proof) and, once A has opened, repeats A's opening as its
// own in round 3.  A commitment is bound to its author: the opening must be refused under C's name, so no honest
// party may finish (an honest party that finishes has let C cancel A's contribution to the chain key).
func commitmentCopied(res *vkit.Result, n *int) {
	type variant struct {
		name string
		ln   int
		spec func(ids []party.ID) (*sess.Spec, error)
		cmp  bool
	}
	var vs []variant
	for _, tap := range []bool{false, true} {
		for _, ln := range []int{1, 40} {
			tap := tap
			name := "frost-keygen"
			if tap {
				name = "frost-keygen-taproot"
			}
			vs = append(vs, variant{name: name, ln: ln, spec: func(ids []party.ID) (*sess.Spec, error) { return sess.FrostKeygen(ids, 1, tap), nil }})
		}
	}
	// CMP key generation: the whole round-3 broadcast (rid, chain key share, polynomial, Schnorr commitment,
	// ElGamal key, Paillier modulus, Pedersen parameters and the decommitment) opens the round-2 commitment
	vs = append(vs, variant{name: "cmp-keygen", ln: 1, cmp: true, spec: func(ids []party.ID) (*sess.Spec, error) { return sess.CMPKeygen(ids, 1), nil }})
	for _, v := range vs {
		*n++
		if !vkit.Mine(*n) {
			continue
		}
		name, ln := v.name, v.ln
		ids := idShape(ln)
		A, C := ids[0], ids[2]
		sp, err := v.spec(ids)
		if err != nil {
			res.Hard(fmt.Sprintf("commitment-copied: cannot prepare %s: %v", name, err))
			continue
		}
		sp.SessionID = []byte("sid")
		net, startErr := sess.Build(sp, *vkit.Seed, "c09copy")
		if len(startErr) > 0 {
			res.Hard(fmt.Sprintf("commitment-copied: cannot start %s: %v", name, startErr))
			continue
		}
		res.Case(fmt.Sprintf("binding|%s|ids=%d|commitment-and-opening-copied", name, ln))
		bcast := func(id party.ID, rnd int) map[interface{}]interface{} {
			for _, m := range net.Parties[id].Sent {
				if int(m.RoundNumber) == rnd && m.Broadcast {
					if tree, err := faults.Decode(m.Data); err == nil {
						if mm, ok := tree.(map[interface{}]interface{}); ok {
							return mm
						}
					}
				}
			}
			return nil
		}
		// what C repeats of A's broadcast of round rnd: the commitment in round 2, every field in round 3
		copied := func(rnd int) map[string]interface{} {
			src := bcast(A, rnd)
			if src == nil {
				return nil
			}
			out := map[string]interface{}{}
			for k, val := range src {
				ks, ok := k.(string)
				if !ok || (rnd == 2 && ks != "Commitment") {
					continue
				}
				out[ks] = val
			}
			return out
		}
		rewrite := func(data []byte, set map[string]interface{}) []byte {
			tree, err := faults.Decode(data)
			if err != nil || set == nil {
				return data
			}
			for f, val := range set {
				if val == nil {
					return data
				}
				if nt, ok := faults.Set(tree, "/"+f, val, false); ok {
					tree = nt
				}
			}
			return faults.Encode(tree)
		}
		net.Flush()
		applied := 0
		// C's own copy of its round-2 broadcast enters its echo hash: keep it consistent with what it sends
		faults.RewriteOwnBroadcast(net.Parties[C].H, 2, C, func(d []byte) []byte { return rewrite(d, copied(2)) })
		for steps := 0; len(net.Queue) > 0 && steps < 10000; steps++ {
			// C is rushing: its round-3 broadcast is held back until A's is out
			pick := 0
			for i, d := range net.Queue {
				if d.M.From == C && d.M.Broadcast && d.M.RoundNumber == 3 && bcast(A, 3) == nil {
					continue
				}
				pick = i
				break
			}
			d := net.Queue[pick]
			net.Queue = append(append([]drv.Delivery{}, net.Queue[:pick]...), net.Queue[pick+1:]...)
			m := d.M
			if m.From == C && m.Broadcast && (m.RoundNumber == 2 || m.RoundNumber == 3) {
				m = drv.CloneMsg(m)
				m.Data = rewrite(m.Data, copied(int(m.RoundNumber)))
				applied++
			}
			net.Parties[d.To].Deliver(m)
			net.Flush()
		}
		if applied < 4 {
			res.Hard(fmt.Sprintf("commitment-copied %s: the deviation could not be applied (%d rewrites)", name, applied))
			continue
		}
		for _, id := range ids {
			if id == C {
				continue
			}
			// FROST: the opening is the last thing checked, so acceptance shows as a finished session.  CMP: the
			// opening is checked in round 3; a party that goes on to send its round-4 messages has accepted it
			// (whatever a later round may find out).
			accepted := net.Parties[id].Status() == "done"
			how := "finished the key generation"
			if v.cmp {
				for _, m := range net.Parties[id].Sent {
					if m.RoundNumber >= 4 {
						accepted, how = true, "went on to round 4"
					}
				}
			}
			if accepted {
				res.Violate(fmt.Sprintf("context-binding|%s|commitment-opened-under-another-name", name),
					fmt.Sprintf("%s with %d-byte identifiers: %s copied %s's commitment into its own round-2 broadcast and repeated %s's opening as its own in round 3; honest party %s %s (the opening was accepted under the wrong name)",
						name, ln, clipIDs([]string{string(C)}), clipIDs([]string{string(A)}), clipIDs([]string{string(A)}), clipIDs([]string{string(id)}), how),
					map[string]interface{}{"binding": name + "/commitment-copied", "ids": ln})
				break
			}
		}
	}
}
