package main

// (c) Context binding of proof-carrying messages.  A message that carries a proof (or a commitment
// opening) is bound to the identity of its sender through the per-party hash context: offered to a
// third party under ANOTHER member's name it must be refused on the spot - CanAccept false, or the
// receiver in error immediately after the Accept - and never stored.  (Judging the end of the session
// is not enough: a stored foreign polynomial is usually exposed a round later by the shares, so the
// session aborts anyway and hides that the proof check did not bind the name.)  Identifier shapes:
// short, exactly 32 bytes, and longer than a scalar (33, 40, 64 bytes): identifiers are hashed into
// the context, and anything that silently drops an over-long identifier makes all such parties share
// one context.

import (
	"fmt"
	"strings"

	"github.com/taurusgroup/multi-party-sig/internal/zzverif/drv"
	"github.com/taurusgroup/multi-party-sig/internal/zzverif/sess"
	"github.com/taurusgroup/multi-party-sig/internal/zzverif/vkit"
	"github.com/taurusgroup/multi-party-sig/pkg/party"
)

func idShape(n int) []party.ID {
	mk := func(c string) party.ID {
		if n <= 1 {
			return party.ID(c)
		}
		return party.ID(c + strings.Repeat("-", n-2) + c)
	}
	return []party.ID{mk("a"), mk("b"), mk("c")}
}

func contextBinding(res *vkit.Result, n *int) {
	type proto struct {
		name string
		spec func(ids []party.ID) *sess.Spec
	}
	protos := []proto{
		{"frost-keygen", func(ids []party.ID) *sess.Spec { return sess.FrostKeygen(ids, 1, false) }},
		{"frost-keygen-taproot", func(ids []party.ID) *sess.Spec { return sess.FrostKeygen(ids, 1, true) }},
	}
	if vkit.Thorough() {
		protos = append(protos, proto{"cmp-keygen", func(ids []party.ID) *sess.Spec { return sess.CMPKeygen(ids, 1) }})
	}
	for _, pr := range protos {
		for _, ln := range []int{1, 32, 33, 40, 64} {
			*n++
			if !vkit.Mine(*n) {
				continue
			}
			ids := idShape(ln)
			A, B, C := ids[0], ids[1], ids[2]
			sp := pr.spec(ids)
			sp.SessionID = []byte("sid")
			// run the session in order; at every point at which C has not yet accepted B's message of a round,
			// offer A's message of that round under B's name
			net, startErr := sess.Build(sp, *vkit.Seed, "c09bind")
			if len(startErr) > 0 {
				res.Hard(fmt.Sprintf("binding: cannot start %s with %d-byte ids: %v", pr.name, ln, startErr))
				continue
			}
			net.Flush()
			offered := map[string]bool{}
			for steps := 0; len(net.Queue) > 0 && steps < 10000; steps++ {
				d := net.Queue[0]
				// before delivering B's genuine message to C: the same slot, A's content under B's name
				if d.To == C && d.M.From == B {
					for _, am := range net.Parties[A].Sent {
						key := fmt.Sprintf("r%d b%v", am.RoundNumber, am.Broadcast)
						if am.RoundNumber != d.M.RoundNumber || am.Broadcast != d.M.Broadcast || !am.IsFor(C) || offered[key] {
							continue
						}
						offered[key] = true
						res.Case(fmt.Sprintf("binding|%s|ids=%d|%s", pr.name, ln, key))
						// a fresh copy of the world up to here is not available (live objects): the probe is made on C itself
						// and the session is abandoned afterwards if C took the message
						fm := drv.CloneMsg(am)
						fm.From = B
						pc := net.Parties[C]
						before := pc.Status()
						var can bool
						pc.Guard(func() { can = pc.H.CanAccept(fm) })
						if !can {
							continue
						}
						pc.Guard(func() { pc.H.Accept(fm) })
						if pc.Panic != "" {
							res.Violate("panic|binding|"+pc.PanicFrame, pc.Panic, map[string]interface{}{"binding": pr.name, "ids": ln})
						}
						if before == "running" && pc.Status() == "running" {
							res.Violate(fmt.Sprintf("context-binding|%s|%s|message-of-other-party-accepted-under-wrong-name", pr.name, key),
								fmt.Sprintf("%s with %d-byte identifiers: %s's round-%d %s message, offered to %s under %s's name, was accepted and stored (the receiver is still running, no error): the proof / commitment it carries is not bound to its sender",
									pr.name, ln, clipIDs([]string{string(A)}), am.RoundNumber, map[bool]string{true: "broadcast", false: "p2p"}[am.Broadcast], clipIDs([]string{string(C)}), clipIDs([]string{string(B)})),
								map[string]interface{}{"binding": pr.name, "ids": ln})
						}
						// C is now either in error (correct) or polluted (violation): stop this session
						net.Queue = nil
					}
					if len(net.Queue) == 0 {
						break
					}
				}
				net.DeliverAt(0)
			}
		}
	}
}
