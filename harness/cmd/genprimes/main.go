// genprimes pre-generates safe Blum primes with the library's own sampler (run once; the
// output /verif/data/primes.json is committed and served through the verif prime hook).
package main

import (
	"crypto/rand"
	"encoding/json"
	"fmt"
	"os"
	"strconv"

	"github.com/taurusgroup/multi-party-sig/pkg/math/sample"
	"github.com/taurusgroup/multi-party-sig/pkg/paillier"
	"github.com/taurusgroup/multi-party-sig/pkg/pool"
)

func main() {
	n, _ := strconv.Atoi(os.Args[1])
	pl := pool.NewPool(0)
	defer pl.TearDown()
	var out [][2]string
	for i := 0; i < n; i++ {
		p, q := sample.Paillier(rand.Reader, pl)
		if err := paillier.ValidatePrime(p); err != nil {
			panic(err)
		}
		if err := paillier.ValidatePrime(q); err != nil {
			panic(err)
		}
		out = append(out, [2]string{p.Big().Text(16), q.Big().Text(16)})
		fmt.Fprintln(os.Stderr, "pair", i)
	}
	b, _ := json.MarshalIndent(map[string]interface{}{"bits": 1024, "pairs": out, "generated_with": "sample.Paillier of the repository at the pinned commit; validated with paillier.ValidatePrime"}, "", " ")
	os.WriteFile(os.Args[2], b, 0o644)
}
