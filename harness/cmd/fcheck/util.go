package main

import (
	"fmt"

	"github.com/taurusgroup/multi-party-sig/internal/round"
	"github.com/taurusgroup/multi-party-sig/internal/zzverif/vkit"
)

func vkitThorough() bool { return vkit.Thorough() }

func roundNumber(n int) round.Number {
	if n < 0 {
		n = 0
	}
	return round.Number(n)
}

func roundName(rn, cur, final int) string {
	switch {
	case rn == 0:
		return "0"
	case rn == 1:
		return "1"
	case rn == cur-1:
		return "previous"
	case rn == cur+1 && rn <= final:
		return "next"
	case rn == final+1 || rn == cur+1:
		return "beyond-final"
	case rn == 65535:
		return "65535"
	}
	return fmt.Sprint(rn)
}

func vkitSeed() int64 { return *vkit.Seed }
