package main

import (
	"fmt"
	"sort"
	"strings"

	"github.com/taurusgroup/multi-party-sig/internal/zzverif/faults"
	"github.com/taurusgroup/multi-party-sig/pkg/party"
	"github.com/taurusgroup/multi-party-sig/pkg/protocol"
)

// semanticSubset is the quick-tier operator subset for expensive (CMP) scenarios: one
// "off by one", one "negate / flip", one "value of another party".
var cmpQuickOps = map[string]bool{"sc-plus1": true, "pt-negate": true, "int-plus1": true, "other-party": true, "int-flip-mid": true, "map-swap-values": true, "sibling": true}

func sortedKeys(m map[string]interface{}) []string {
	l := make([]string, 0, len(m))
	for k := range m {
		l = append(l, k)
	}
	sort.Strings(l)
	return l
}

func catalogue(w *world, check string) []kase {
	var out []kase
	slots := faults.Slots(w.seq)
	deviators := w.spec.IDs
	expensive := w.sc.Cost >= 2
	if expensive && !vkitThorough() {
		deviators = deviators[:1]
	}
	mode := "replace"
	menu := "semantic"
	if check == "C05" {
		mode, menu = "inject", "structural"
	}
	if w.sc.StartOnly {
		return startCases(w)
	}
	if w.sc.CommittedOnly {
		return append(committedValueCases(w), equivocatedCommitmentCases(w)...)
	}
	if w.sc.StateOnly {
		cs := stateCases(w, w.spec.IDs[:1])
		if w.sc.BlameOnly {
			var keep []kase
			for _, k := range cs {
				if strongBlame(k) {
					keep = append(keep, k)
				}
			}
			return keep
		}
		return cs
	}
	for _, d := range deviators {
		for _, s := range slots {
			if s.From != d {
				continue
			}
			m := faults.MessageAt(w.seq, s)
			if m == nil {
				continue
			}
			tree, err := faults.Decode(m.Data)
			if err != nil {
				continue
			}
			ctx := &faults.Ctx{Seed: w.sc.Name + s.String()}
			om := faults.OtherParty(w.seq, s)
			if w.spec.Two {
				om = faults.OtherPartyBefore(w.seq, s) // alternating protocol: only what the deviator has already received
			}
			if om != nil {
				ctx.Other, _ = faults.Decode(om.Data)
			}
			for _, nd := range faults.Walk(tree) {
				var ops map[string]interface{}
				if menu == "semantic" {
					ops = faults.SemanticOps(tree, nd, ctx)
				} else {
					ops = faults.StructuralOps(nd, expensive && !vkitThorough())
				}
				for _, name := range sortedKeys(ops) {
					if menu == "semantic" && expensive && !vkitThorough() && !cmpQuickOps[name] {
						continue
					}
					if len(w.sc.OnlyOps) > 0 && !inList(w.sc.OnlyOps, name) {
						continue
					}
					if len(w.sc.OnlyPaths) > 0 && !inList(w.sc.OnlyPaths, nd.Path) {
						continue
					}
					mut := faults.Mut{Path: nd.Path, Op: name}
					out = append(out, kase{Scenario: w.sc, Deviator: d, Slot: s, Path: nd.Path, Op: name, Menu: menu,
						fault: faults.ContentFault(s, mut, ops[name], mode)})
					if !expensive && len(w.spec.IDs) >= 3 {
						// the same alteration under the schedule in which the deviator's messages arrive early (queued at
						// the victim and processed when somebody else's message completes the previous round)
						f := faults.ContentFault(s, mut, ops[name], mode)
						f.Timing = "early"
						out = append(out, kase{Scenario: w.sc, Deviator: d, Slot: s, Path: nd.Path, Op: name + "@early", Menu: menu, fault: f})
						// ... and under the schedule in which the victim lags a round behind (it has the others' messages of
						// the next round queued before the last message of the current round arrives)
						lg := faults.ContentFault(s, mut, ops[name], mode)
						lg.Timing, lg.Victim = "lag", s.To
						if lg.Victim == "" {
							for _, id := range w.spec.IDs {
								if id != d {
									lg.Victim = id
									break
								}
							}
						}
						out = append(out, kase{Scenario: w.sc, Deviator: d, Slot: s, Path: nd.Path, Op: name + "@lag", Menu: menu, fault: lg})
					}
					if check == "C05" && !s.Broadcast && alsoBroadcasts(w, s) && !(expensive && !vkitThorough()) {
						// the same malformed p2p message presented after the sender's broadcast has been processed
						f := faults.ContentFault(s, mut, ops[name], mode)
						f.Timing = "after-broadcast"
						out = append(out, kase{Scenario: w.sc, Deviator: d, Slot: s, Path: nd.Path, Op: name + "@after-broadcast", Menu: menu, fault: f})
					}
				}
			}
			// equivocation: a broadcast altered for ONE recipient only (the others receive the original)
			if check != "C05" && s.Broadcast && len(w.spec.IDs) >= 3 {
				for _, rcp := range w.spec.IDs {
					if rcp == d {
						continue
					}
					es := s
					es.To = rcp
					for _, nd := range faults.Walk(tree) {
						if len(w.sc.OnlyPaths) > 0 && !inList(w.sc.OnlyPaths, nd.Path) {
							continue
						}
						ops := faults.SemanticOps(tree, nd, ctx)
						for _, pref := range []string{"bit-flip", "sc-plus1", "pt-negate", "int-flip-mid", "other-party"} {
							if v, ok := ops[pref]; ok {
								mut := faults.Mut{Path: nd.Path, Op: pref + "@one-recipient"}
								out = append(out, kase{Scenario: w.sc, Deviator: d, Slot: es, Path: nd.Path, Op: mut.Op, Menu: menu,
									fault: faults.ContentFault(es, mut, v, mode)})
								if !expensive {
									// the same equivocation with the deviator's messages to that recipient arriving last: the other
									// honest parties' next-round messages are then queued at the recipient and processed as a batch
									lf := faults.ContentFault(es, faults.Mut{Path: nd.Path, Op: mut.Op + "@late"}, v, mode)
									lf.Timing = "late"
									out = append(out, kase{Scenario: w.sc, Deviator: d, Slot: es, Path: nd.Path, Op: mut.Op + "@late", Menu: menu, fault: lf})
								}
								break
							}
						}
					}
				}
			}
			// whole-message operators
			for _, mf := range messageOps(w, s, m, check) {
				if len(w.sc.OnlyOps) > 0 || len(w.sc.OnlyPaths) > 0 {
					break // operator- or path-restricted scenario: field operators only
				}
				out = append(out, kase{Scenario: w.sc, Deviator: d, Slot: s, Path: "<message>", Op: mf.Mut.Op, Menu: menu, fault: mf})
			}
		}
	}
	if inList(w.sc.OnlyPaths, "/Share") {
		out = append(out, shiftedShareCases(w)...)
	}
	if len(w.sc.OnlyOps) == 0 && len(w.sc.OnlyPaths) == 0 { // operator- or path-restricted scenario: field operators only
		out = append(out, specialCases(w, check)...)
	}
	if check == "C04" && (vkitThorough() || w.sc.Cost < 2) {
		out = append(out, stateCases(w, deviators)...)
	}
	return out
}

// stateCases: state-level deviations of the deviator (a value of its round state shifted by one at
// the moment it enters a round, kept or restored when it leaves the round), found by probing an honest run.
func stateCases(w *world, deviators []party.ID) []kase {
	var out []kase
	for _, d := range deviators {
		type rf struct{ rt, field string }
		seen := map[rf]bool{}
		var order []rf
		probe := &faults.Fault{Deviator: d}
		probe.StateHook = func(h protocol.Handler) bool {
			rt := faults.RoundType(h)
			for _, f := range faults.StateFields(h) {
				// fields declared by this round always; inherited ones up to two rounds back (thorough),
				// in the quick tier only the shares whose inconsistency the abort rounds must attribute
				if f.Depth > 2 || (f.Depth > 0 && !vkitThorough() && !blameFields[f.Name]) {
					continue
				}
				k := rf{rt, f.Name}
				if !seen[k] {
					seen[k] = true
					order = append(order, k)
				}
			}
			return false
		}
		faults.Run(w.fresh(), vkitSeed(), "fc", probe)
		other := w.spec.IDs[0]
		if other == d {
			other = w.spec.IDs[1]
		}
		for _, k := range order {
			for _, key := range []party.ID{d, other} {
				for _, restore := range []bool{false, true} {
					f := faults.StateFault(d, k.rt, k.field, key, restore)
					out = append(out, kase{Scenario: w.sc, Deviator: d, Slot: faults.Slot{From: d}, Path: fmt.Sprintf("%s.%s[%s]", k.rt, k.field, keyClass(key, d)), Op: f.Mut.Op, Menu: "state", fault: f})
				}
			}
		}
	}
	return out
}

// strongBlame: the state-level deviations that make a presigner's delta or chi contribution inconsistent
// while all its proofs still verify (the value is shifted in round 3 and restored afterwards).
func strongBlame(k kase) bool {
	return k.Menu == "state" && strings.HasSuffix(k.Path, "[self]") && k.Op == "state+1-then-restore" &&
		(strings.Contains(k.Path, "presign3.GammaShare") || strings.Contains(k.Path, "presign3.SecretECDSA") || strings.Contains(k.Path, "presign3.KShare"))
}

// sigmaBlame: the signature share a presigner publishes in the signing step of the online / full variants was
// replaced by another scalar.  Presignatures exist so that exactly this is identifiable (the share is checked against
// the published R-bar and S tables): every honest signer must end with the sender as the only culprit.
func sigmaBlame(k kase) bool {
	return k.Menu == "semantic" && k.Path == "/Sigma" && strings.HasPrefix(k.Op, "sc-") &&
		(k.Scenario.Proto == "cmp-presign-online" || k.Scenario.Proto == "cmp-presign-full")
}

var blameFields = map[string]bool{"GammaShare": true, "KShare": true, "SecretECDSA": true, "ChiShare": true, "DeltaShares": true}

func keyClass(key, d party.ID) string {
	if key == d {
		return "self"
	}
	return "peer"
}

// alsoBroadcasts: does the sender of this p2p slot also broadcast in the same round?
func alsoBroadcasts(w *world, s faults.Slot) bool {
	for _, d := range w.seq {
		if d.M.Broadcast && d.M.From == s.From && int(d.M.RoundNumber) == s.Round {
			return true
		}
	}
	return false
}

func messageOps(w *world, s faults.Slot, m *protocol.Message, check string) []*faults.Fault {
	var out []*faults.Fault
	names := map[string]bool{}
	add := func(name, mode string, tf func(*protocol.Message) *protocol.Message) {
		if names[name] {
			return
		}
		names[name] = true
		out = append(out, faults.MessageFault(s, name, mode, tf))
	}
	if check != "C05" {
		// payload meant for another recipient / of another round / of another sender, under this header
		seen := map[string]bool{}
		for _, d := range w.seq {
			o := d.M
			if o == m || string(o.Data) == string(m.Data) {
				continue
			}
			var name string
			switch {
			case o.From == m.From && o.RoundNumber == m.RoundNumber && o.Broadcast == m.Broadcast && o.To != m.To:
				name = "payload-for-other-recipient"
			case o.From == m.From && o.RoundNumber == m.RoundNumber-1:
				name = "payload-of-previous-round"
			case o.From == m.From && o.RoundNumber == m.RoundNumber+1:
				name = "payload-of-next-round"
			case o.From != m.From && o.RoundNumber == m.RoundNumber && o.Broadcast == m.Broadcast:
				name = "payload-of-other-sender"
			default:
				continue
			}
			if seen[name] {
				continue
			}
			seen[name] = true
			data := append([]byte{}, o.Data...)
			add(name, "replace", func(x *protocol.Message) *protocol.Message { x.Data = data; return x })
		}
		// the genuine payload under a flipped broadcast flag (a header the sender controls): whatever path the
		// handler takes for it, the message must either be processed as what it is or not count as received
		add("hdr-broadcast-flipped", "replace", func(x *protocol.Message) *protocol.Message { x.Broadcast = !x.Broadcast; return x })
		return out
	}
	// C05: header malformations, presented before the honest message
	ids := w.spec.IDs
	victimOther := func(x *protocol.Message) party.ID {
		for _, id := range ids {
			if id != x.From && id != s.To {
				return id
			}
		}
		return ids[0]
	}
	add("hdr-to-empty", "inject", func(x *protocol.Message) *protocol.Message { x.To = ""; return x })
	add("hdr-to-unknown", "inject", func(x *protocol.Message) *protocol.Message { x.To = "zz-unknown"; return x })
	add("hdr-to-other", "inject", func(x *protocol.Message) *protocol.Message { x.To = victimOther(x); return x })
	add("hdr-from-unknown", "inject", func(x *protocol.Message) *protocol.Message { x.From = "zz-unknown"; return x })
	add("hdr-from-empty", "inject", func(x *protocol.Message) *protocol.Message { x.From = ""; return x })
	add("hdr-from-other-member", "inject", func(x *protocol.Message) *protocol.Message { x.From = victimOther(x); return x })
	for _, rn := range []int{0, 1, s.Round - 1, s.Round + 1, w.final + 1, 65535} {
		rn := rn
		add("hdr-round-"+roundName(rn, s.Round, w.final), "inject", func(x *protocol.Message) *protocol.Message { x.RoundNumber = roundNumber(rn); return x })
	}
	add("hdr-broadcast-flipped", "inject", func(x *protocol.Message) *protocol.Message { x.Broadcast = !x.Broadcast; return x })
	add("hdr-ssid-nil", "inject", func(x *protocol.Message) *protocol.Message { x.SSID = nil; return x })
	add("hdr-ssid-altered", "inject", func(x *protocol.Message) *protocol.Message {
		x.SSID = append([]byte{}, x.SSID...)
		x.SSID[0] ^= 1
		return x
	})
	add("hdr-protocol-altered", "inject", func(x *protocol.Message) *protocol.Message { x.Protocol += "x"; return x })
	add("hdr-data-nil", "inject", func(x *protocol.Message) *protocol.Message { x.Data = nil; return x })
	add("hdr-data-empty", "inject", func(x *protocol.Message) *protocol.Message { x.Data = []byte{}; return x })
	add("hdr-data-garbage", "inject", func(x *protocol.Message) *protocol.Message { x.Data = []byte{0xff, 0x00, 0x9f}; return x })
	add("hdr-bv-nil", "inject", func(x *protocol.Message) *protocol.Message { x.BroadcastVerification = nil; return x })
	add("hdr-bv-short", "inject", func(x *protocol.Message) *protocol.Message { x.BroadcastVerification = []byte{1}; return x })
	add("hdr-bv-altered", "inject", func(x *protocol.Message) *protocol.Message {
		x.BroadcastVerification = append([]byte{7}, x.BroadcastVerification...)
		return x
	})
	add("nil-message", "inject", func(x *protocol.Message) *protocol.Message { return nil })
	return out
}

func inList(l []string, x string) bool {
	for _, y := range l {
		if y == x {
			return true
		}
	}
	return false
}
