package main

import (
	"bytes"
	"fmt"
	"github.com/taurusgroup/multi-party-sig/pkg/math/curve"
	"regexp"
	"sort"
	"strings"

	"github.com/taurusgroup/multi-party-sig/internal/zzverif/faults"
	"github.com/taurusgroup/multi-party-sig/internal/zzverif/netsim"
	"github.com/taurusgroup/multi-party-sig/internal/zzverif/oracle"
	"github.com/taurusgroup/multi-party-sig/pkg/ecdsa"
	"github.com/taurusgroup/multi-party-sig/pkg/party"
	"github.com/taurusgroup/multi-party-sig/protocols/doerner"
)

var lastOutcome string

var perRound = regexp.MustCompile(`(^|: )round \d+: `)

func errClass(e string) string {
	// strip the culprit list and keep the first words of the message
	if i := strings.Index(e, "]: "); i > 0 && strings.HasPrefix(e, "culprits") {
		e = e[i+3:]
	}
	if len(e) > 50 {
		e = e[:50]
	}
	return e
}

// runCase executes one fault and judges it; returns (signature, detail) pairs.
func runCase(w *world, k kase, check string, verbose bool) [][2]string {
	end := faults.Run(w.fresh(), vkitSeed(), "fc", k.fault)
	var vs [][2]string
	add := func(sig, detail string) { vs = append(vs, [2]string{sig, detail}) }
	cls := k.class(w)
	desc := func() string {
		var parts []string
		for _, id := range faults.SortedIDs(end.Parties) {
			pe := end.Parties[id]
			s := pe.Status
			if pe.Status == "error" {
				s = fmt.Sprintf("error(culprits=%v: %s)", pe.Culprits, pe.Err)
			}
			parts = append(parts, fmt.Sprintf("%s=%s", id, s))
		}
		return fmt.Sprintf("scenario %s, deviator %s, message %s, field %q, operator %s (altered message accepted by CanAccept: %v); parties: %s",
			k.Scenario.Name, k.Deviator, k.Slot, k.Path, k.Op, end.Accepted, strings.Join(parts, "; "))
	}
	if verbose {
		fmt.Println(desc())
	}
	if !end.Applied {
		if k.Menu == "state" {
			lastOutcome = "state-field-not-shiftable" // e.g. a per-party map without that entry, or a nil value
			return nil
		}
		add("harness|slot-not-reached", desc())
		return vs
	}
	honest := []party.ID{}
	for _, id := range w.spec.IDs {
		if id != k.Deviator {
			honest = append(honest, id)
		}
	}
	// every check: nobody may panic or hang (the deviator's own handler is honest code too)
	for _, id := range w.spec.IDs {
		pe := end.Parties[id]
		if k.Menu == "state" && id == k.Deviator {
			continue // its internal state was corrupted on purpose: what happens to it is not the library's concern
		}
		if pe.Panic != "" {
			add(fmt.Sprintf("panic|%s|%s", cls, pe.Frame), fmt.Sprintf("party %s panicked: %s in %s\n%s", id, pe.Panic, pe.Frame, desc()))
			if verbose {
				fmt.Println(pe.Stack)
			}
		}
		if pe.Hung {
			add(fmt.Sprintf("hang|%s", cls), fmt.Sprintf("a handler call of party %s did not return\n%s", id, desc()))
		}
	}
	var statuses []string
	for _, id := range honest {
		statuses = append(statuses, end.Parties[id].Status)
	}
	sort.Strings(statuses)
	lastOutcome = strings.Join(statuses, "+")
	if len(vs) > 0 {
		return vs
	}
	switch check {
	case "C03":
		for _, e := range judgeResults(w, end, honest) {
			add(fmt.Sprintf("wrong-result-accepted|%s|%s", cls, e[0]), e[1]+"\n"+desc())
		}
	case "C04":
		if strongBlame(k) {
			// delta or chi contribution inconsistent while the individual proofs pass: every honest signer must single out the deviator
			for _, id := range honest {
				pe := end.Parties[id]
				if pe.Status != "error" || len(pe.Culprits) != 1 || pe.Culprits[0] != k.Deviator {
					add(fmt.Sprintf("blame|%s|inconsistent-presigner-not-singled-out|%s", k.Scenario.Proto, pe.Status),
						fmt.Sprintf("party %s ends with %s %v %q although %s's contribution is inconsistent\n%s", id, pe.Status, pe.Culprits, pe.Err, k.Deviator, desc()))
					break
				}
			}
		}
		if sigmaBlame(k) {
			for _, id := range honest {
				pe := end.Parties[id]
				if pe.Status != "error" || len(pe.Culprits) != 1 || pe.Culprits[0] != k.Deviator {
					add(fmt.Sprintf("blame|%s|wrong-signature-share-not-attributed|%s", k.Scenario.Proto, pe.Status),
						fmt.Sprintf("party %s ends with %s %v %q although %s published a wrong signature share (%s)\n%s", id, pe.Status, pe.Culprits, pe.Err, k.Deviator, k.Op, desc()))
					break
				}
			}
		}
		for _, e := range judgeBlame(w, k, end, honest) {
			add(fmt.Sprintf("blame|%s|%s", k.Scenario.Proto, e[0]), e[1]+"\n"+desc())
		}
	case "C05":
		for _, id := range honest {
			pe := end.Parties[id]
			switch {
			case pe.Closed && pe.Status == "running":
				add("unclean-end|closed-but-not-finished|"+cls, fmt.Sprintf("party %s: outgoing channel closed but Result says 'not finished'\n%s", id, desc()))
			case !pe.Closed && pe.Status != "running":
				add("unclean-end|ended-but-channel-open|"+cls, fmt.Sprintf("party %s: %s but the outgoing channel is still open\n%s", id, pe.Status, desc()))
			}
		}
		// a malformation that CanAccept refuses must be a no-op: the session still completes as the honest run
		if !end.Accepted {
			for _, id := range honest {
				if end.Parties[id].Status != "done" {
					add("refused-message-changed-outcome|"+cls, fmt.Sprintf("CanAccept refused the malformed message, yet party %s did not complete\n%s", id, desc()))
				}
			}
		}
	}
	return vs
}

// judgeResults: every honest party that finished must hold a correct result, consistent with the other honest finishers.
func judgeResults(w *world, end *faults.End, honest []party.ID) [][2]string {
	var out [][2]string
	var done []party.ID
	for _, id := range honest {
		if end.Parties[id].Status == "done" {
			done = append(done, id)
		}
	}
	if len(done) == 0 {
		return nil
	}
	switch w.kind {
	case "sign":
		var first []byte
		for _, id := range done {
			r := end.Parties[id].Result
			if err := oracle.CheckSignature(deref(r), w.pub, w.msg); err != nil {
				out = append(out, [2]string{"invalid-signature", fmt.Sprintf("party %s finished with a signature the reference verifier rejects: %v", id, err)})
				continue
			}
			b, _ := oracle.SigBytes(deref(r))
			if first == nil {
				first = b
			} else if !bytes.Equal(first, b) {
				out = append(out, [2]string{"different-signatures", fmt.Sprintf("honest parties finished with different signatures")})
			}
		}
	case "presign":
		// a presignature is correct if it validates and all honest holders agree on R
		var R, presigID []byte
		for _, id := range done {
			p, ok := end.Parties[id].Result.(*ecdsa.PreSignature)
			if !ok || p == nil {
				out = append(out, [2]string{"bad-result-type", fmt.Sprintf("party %s: %T", id, end.Parties[id].Result)})
				continue
			}
			if err := p.Validate(); err != nil {
				out = append(out, [2]string{"invalid-presignature", fmt.Sprintf("party %s: %v", id, err)})
			}
			b, _ := p.R.MarshalBinary()
			if R == nil {
				R = b
			} else if !bytes.Equal(R, b) {
				out = append(out, [2]string{"different-presignature-R", "honest parties hold presignatures with different R"})
			}
			// the identifier names the presignature in the online phase (it enters the session tag): all holders must agree
			if presigID == nil {
				presigID = append([]byte{}, p.ID...)
			} else if !bytes.Equal(presigID, p.ID) {
				out = append(out, [2]string{"different-presignature-ids", "honest parties hold presignatures with different identifiers (their online sessions would not recognise each other)"})
			}
		}
	case "keygen", "refresh":
		views := map[string]*oracle.View{}
		for _, id := range done {
			v, err := oracle.ViewOf(end.Parties[id].Result)
			if err != nil {
				out = append(out, [2]string{"unreadable-key-material", fmt.Sprintf("party %s: %v", id, err)})
				continue
			}
			views[string(id)] = v
		}
		out = append(out, consistency(views, w)...)
	case "keygen2":
		// Doerner: only one honest party; its own material must be self-consistent
		for _, id := range done {
			switch c := end.Parties[id].Result.(type) {
			case *doerner.ConfigReceiver:
				if c.Public == nil || c.SecretShare == nil || c.Public.IsIdentity() || c.SecretShare.IsZero() {
					out = append(out, [2]string{"degenerate-key-material", fmt.Sprintf("party %s finished with identity key or zero share", id)})
				}
			case *doerner.ConfigSender:
				if c.Public == nil || c.SecretShare == nil || c.Public.IsIdentity() || c.SecretShare.IsZero() {
					out = append(out, [2]string{"degenerate-key-material", fmt.Sprintf("party %s finished with identity key or zero share", id)})
				}
			}
		}
	case "refresh2":
		// Doerner refresh: only one honest party; its result must keep the key and carry a NEW share
		for _, id := range done {
			var share curve.Scalar
			var pub curve.Point
			switch c := end.Parties[id].Result.(type) {
			case *doerner.ConfigReceiver:
				share, pub = c.SecretShare, c.Public
			case *doerner.ConfigSender:
				share, pub = c.SecretShare, c.Public
			}
			if share == nil || pub == nil || share.IsZero() {
				out = append(out, [2]string{"degenerate-key-material", fmt.Sprintf("party %s finished the refresh with a missing or zero share", id)})
				continue
			}
			if p, err := oracle.Pt(pub); err != nil || !p.Equal(w.pub) {
				out = append(out, [2]string{"refresh-changed-group-key", fmt.Sprintf("party %s finished the refresh with another public key", id)})
			}
			if old := w.oldShare[id]; old != nil && oracle.Sc(share).Cmp(old) == 0 {
				out = append(out, [2]string{"refresh-left-share-unchanged", fmt.Sprintf("party %s finished the refresh holding the share it had before: the other party's pre-refresh share still completes the key", id)})
			}
		}
	case "xor":
		var first string
		for _, id := range done {
			h := fmt.Sprintf("%x", netsim.DeepHash(end.Parties[id].Result)[:8])
			if first == "" {
				first = h
			} else if h != first {
				out = append(out, [2]string{"different-results", "honest parties finished with different XOR results"})
			}
		}
	}
	return out
}

func deref(r interface{}) interface{} { return r }

// consistency of the key material of the honest finishers among themselves (the deviator's view is unknown).
func consistency(views map[string]*oracle.View, w *world) [][2]string {
	var out [][2]string
	ids := make([]string, 0, len(views))
	for id := range views {
		ids = append(ids, id)
	}
	sort.Strings(ids)
	if len(ids) == 0 {
		return nil
	}
	first := views[ids[0]]
	for _, id := range ids {
		v := views[id]
		if !v.Public.Equal(first.Public) {
			out = append(out, [2]string{"different-group-keys", fmt.Sprintf("%s and %s finished with different group keys", ids[0], id)})
		}
		if v.Aux != first.Aux {
			out = append(out, [2]string{"different-aux-data", fmt.Sprintf("%s and %s finished with different auxiliary public data", ids[0], id)})
		}
		for j, p := range first.Shares {
			if q, ok := v.Shares[j]; !ok || !q.Equal(p) {
				out = append(out, [2]string{"different-tables", fmt.Sprintf("table entry of %s differs between %s and %s", j, ids[0], id)})
			}
		}
		if own, ok := v.Shares[id]; !ok || !refMulG(v).Equal(own) {
			out = append(out, [2]string{"own-share-mismatch", fmt.Sprintf("secret share of %s does not match its table entry", id)})
		}
		if v.Public.Inf {
			out = append(out, [2]string{"identity-group-key", fmt.Sprintf("%s finished with the identity as group key", id)})
		}
		if w.kind == "refresh" && !v.Public.Equal(w.pub) {
			out = append(out, [2]string{"refresh-changed-group-key", fmt.Sprintf("%s finished a refresh with a different group key", id)})
		}
		if !bytes.Equal(v.ChainKey, first.ChainKey) {
			out = append(out, [2]string{"different-chain-keys", fmt.Sprintf("%s and %s finished with different chain keys", ids[0], id)})
		}
	}
	// with at least t+1 honest finishers the sharing must reconstruct
	if len(out) == 0 && len(ids) >= w.sc.T+1 {
		sub := map[string]*oracle.View{}
		for _, id := range ids[:w.sc.T+1] {
			sub[id] = views[id]
		}
		if !reconstructs(sub, first) {
			out = append(out, [2]string{"shares-do-not-reconstruct", fmt.Sprintf("the secret shares of the honest parties %v do not reconstruct the group key they all report", ids[:w.sc.T+1])})
		}
	}
	return out
}

// judgeBlame: soundness of culprit lists.
func judgeBlame(w *world, k kase, end *faults.End, honest []party.ID) [][2]string {
	var out [][2]string
	if w.spec.Two {
		// the two-party handler reports plain errors without a culprit list: with one peer the sender is
		// implicit, so there is nothing to attribute; only "names an honest party" could be wrong, and it names nobody
		return nil
	}
	aborted := map[party.ID]bool{}
	for _, id := range w.spec.IDs {
		if end.Parties[id].Status == "error" {
			aborted[id] = true
		}
	}
	for _, id := range honest {
		pe := end.Parties[id]
		if pe.Status != "error" {
			continue
		}
		// a relay is recognised by what happened (the party was running, was delivered a peer's abort notice
		// and was in error afterwards), not by the wording of the error
		from, relay := end.RelayFrom[id]
		if relay {
			if len(pe.Culprits) != 1 || pe.Culprits[0] != from || !aborted[from] && from != k.Deviator {
				out = append(out, [2]string{"relay-names-wrong-party", fmt.Sprintf("party %s relays an abort notice but names %v (aborted parties: %v)", id, pe.Culprits, aborted)})
			}
			continue
		}
		for _, c := range pe.Culprits {
			if c != k.Deviator {
				who := "an honest party"
				if c == id {
					who = "itself"
				}
				out = append(out, [2]string{"honest-party-blamed|" + errClass(pe.Err), fmt.Sprintf("party %s detected %q itself and names %s (%s); only %s deviated", id, pe.Err, c, who, k.Deviator)})
			}
		}
		// the direct victim of a message that fails decoding / verification must name its sender
		// (an aggregate inconsistency detected when a round is finalised - e.g. "computed Δ is inconsistent" in
		// CMP sign, which has no identification phase - is not the failure of one message and may name nobody;
		// the handler reports per-message failures as "failed to unmarshal...", "round N: ..." or "malformed message...")
		direct := k.Slot.To == id || k.Slot.To == ""
		perMessage := strings.Contains(pe.Err, "failed to unmarshal") || strings.Contains(pe.Err, "malformed message") || perRound.MatchString(pe.Err)
		if direct && end.Accepted && perMessage && (len(pe.Culprits) != 1 || pe.Culprits[0] != k.Deviator) {
			out = append(out, [2]string{"cheater-not-named|" + errClass(pe.Err), fmt.Sprintf("party %s rejected the altered message of %s (%q) but names nobody", id, k.Deviator, pe.Err)})
		}
	}
	return out
}
