package main

import (
	"encoding/binary"
	"fmt"
	"sort"

	"github.com/fxamacker/cbor/v2"
	"github.com/taurusgroup/multi-party-sig/internal/zzverif/faults"
	"github.com/taurusgroup/multi-party-sig/internal/zzverif/kmat"
	"github.com/taurusgroup/multi-party-sig/internal/zzverif/sess"
	"github.com/taurusgroup/multi-party-sig/internal/zzverif/vkit"
	"github.com/taurusgroup/multi-party-sig/pkg/ecdsa"
	"github.com/taurusgroup/multi-party-sig/pkg/math/curve"
	"github.com/taurusgroup/multi-party-sig/pkg/math/polynomial"
	"github.com/taurusgroup/multi-party-sig/pkg/party"
	"github.com/taurusgroup/multi-party-sig/pkg/protocol"
	"github.com/taurusgroup/multi-party-sig/protocols/cmp"
	"github.com/taurusgroup/multi-party-sig/protocols/doerner"
	"github.com/taurusgroup/multi-party-sig/protocols/frost"
)

// decoder is one "restore from bytes" entry point together with a valid encoding.
type decoder struct {
	name   string
	valid  []byte
	decode func(b []byte) error
	stride int // quick tier: byte edits at every stride-th offset (1 = all)
}

func decoders() ([]decoder, error) {
	var ds []decoder
	g := curve.Secp256k1{}
	add := func(name string, valid []byte, err error, stride int, f func(b []byte) error) error {
		if err != nil {
			return fmt.Errorf("%s: %v", name, err)
		}
		if e := f(valid); e != nil {
			return fmt.Errorf("%s: the valid encoding does not decode: %v", name, e)
		}
		ds = append(ds, decoder{name, valid, f, stride})
		return nil
	}
	// FROST
	fk, err := kmat.Frost(3, 1)
	if err != nil {
		return nil, err
	}
	b, err := cbor.Marshal(fk["a"])
	if e := add("frost.Config", b, err, 1, func(b []byte) error { return cbor.Unmarshal(b, frost.EmptyConfig(g)) }); e != nil {
		return nil, e
	}
	tk, err := kmat.Taproot(3, 1)
	if err != nil {
		return nil, err
	}
	b, err = cbor.Marshal(tk["a"])
	if e := add("frost.TaprootConfig", b, err, 1, func(b []byte) error { return cbor.Unmarshal(b, &frost.TaprootConfig{}) }); e != nil {
		return nil, e
	}
	// Doerner
	dk, err := kmat.Doerner()
	if err != nil {
		return nil, err
	}
	b, err = cbor.Marshal(dk.R)
	if e := add("doerner.ConfigReceiver", b, err, 1, func(b []byte) error { return cbor.Unmarshal(b, doerner.EmptyConfigReceiver(g)) }); e != nil {
		return nil, e
	}
	b, err = cbor.Marshal(dk.S)
	if e := add("doerner.ConfigSender", b, err, 1, func(b []byte) error { return cbor.Unmarshal(b, doerner.EmptyConfigSender(g)) }); e != nil {
		return nil, e
	}
	// CMP
	ck, err := kmat.CMP(2, 1)
	if err != nil {
		return nil, err
	}
	b, err = ck["a"].MarshalBinary()
	if e := add("cmp.Config", b, err, 23, func(b []byte) error { return cmp.EmptyConfig(g).UnmarshalBinary(b) }); e != nil {
		return nil, e
	}
	b, err = cbor.Marshal(ck["a"])
	if e := add("cmp.Config(cbor)", b, err, 23, func(b []byte) error { return cbor.Unmarshal(b, cmp.EmptyConfig(g)) }); e != nil {
		return nil, e
	}
	ps, err := kmat.CMPPresigs(2, 1)
	if err != nil {
		return nil, err
	}
	b, err = cbor.Marshal(ps["a"])
	if e := add("ecdsa.PreSignature", b, err, 1, func(b []byte) error {
		p := ecdsa.EmptyPreSignature(g)
		if err := cbor.Unmarshal(b, p); err != nil {
			return err
		}
		return p.Validate()
	}); e != nil {
		return nil, e
	}
	// signature, message, small value types
	o := sess.Run(sess.DoernerSign(dk.R, dk.S, "a", "b", msg32), 1, "dec")
	sig, ok := o.Results["a"].(*ecdsa.Signature)
	if !ok {
		return nil, fmt.Errorf("doerner sign failed: %v %s", o.Errors, o.Panic)
	}
	b, err = cbor.Marshal(sig)
	if e := add("ecdsa.Signature", b, err, 1, func(b []byte) error { s := ecdsa.EmptySignature(g); return cbor.Unmarshal(b, &s) }); e != nil {
		return nil, e
	}
	if len(o.Net.Parties["a"].Sent) > 0 {
		b, err = o.Net.Parties["a"].Sent[0].MarshalBinary()
		if e := add("protocol.Message", b, err, 7, func(b []byte) error { return new(protocol.Message).UnmarshalBinary(b) }); e != nil {
			return nil, e
		}
	}
	b, err = fk["a"].PublicKey.MarshalBinary()
	if e := add("curve.Point", b, err, 1, func(b []byte) error { return g.NewPoint().UnmarshalBinary(b) }); e != nil {
		return nil, e
	}
	b, err = fk["a"].PrivateShare.MarshalBinary()
	if e := add("curve.Scalar", b, err, 1, func(b []byte) error { return g.NewScalar().UnmarshalBinary(b) }); e != nil {
		return nil, e
	}
	b, err = fk["a"].VerificationShares.MarshalBinary()
	if e := add("party.PointMap", b, err, 1, func(b []byte) error { return party.EmptyPointMap(g).UnmarshalBinary(b) }); e != nil {
		return nil, e
	}
	sec := polynomial.NewPolynomial(g, 2, fk["a"].PrivateShare)
	b, err = polynomial.NewPolynomialExponent(sec).MarshalBinary()
	if e := add("polynomial.Exponent", b, err, 1, func(b []byte) error { return polynomial.EmptyExponent(g).UnmarshalBinary(b) }); e != nil {
		return nil, e
	}
	return ds, nil
}

// decoderSeamImpl: every prefix, byte substitutions {00, FF, b^1, b^80} at every (stride-th)
// offset, and all byte strings of length <= 2, at every decoder.  Oracle: the call returns (no
// panic; a death of the process is attributed through the progress file).
func decoderSeamImpl(res *vkit.Result) {
	ds, err := decoders()
	if err != nil {
		res.Hard("decoder seam: " + err.Error())
		return
	}
	counts := map[string]int{}
	try := func(d decoder, kind string, b []byte, pos int) {
		counts[d.name]++
		res.Case("")
		panicked, msg, frame := vkit.Try(func() { _ = d.decode(b) })
		if panicked {
			res.Violate(fmt.Sprintf("decoder-panic|%s|%s|%s", d.name, kind, frame),
				fmt.Sprintf("%s: decoding a %s of a valid encoding (offset %d, %d bytes) panics: %s in %s\ninput: %x", d.name, kind, pos, len(b), msg, frame, clip(b)),
				map[string]interface{}{"decoder": d.name, "input_hex": fmt.Sprintf("%x", b)})
		}
	}
	n := 1 << 30
	for _, d := range ds {
		n++
		res.Progress(n, "process-death|decoder|"+d.name, map[string]interface{}{"decoder": d.name})
		stride := d.stride
		if vkit.Thorough() {
			stride = 1
		}
		for l := 0; l < len(d.valid); l++ {
			if l%stride == 0 || l < 16 {
				try(d, "prefix", d.valid[:l], l)
			}
		}
		for i := 0; i < len(d.valid); i++ {
			if i%stride != 0 && i >= 16 {
				continue
			}
			for _, nb := range []byte{0x00, 0xff, d.valid[i] ^ 1, d.valid[i] ^ 0x80} {
				if nb == d.valid[i] {
					continue
				}
				m := append([]byte{}, d.valid...)
				m[i] = nb
				try(d, "byte-edit", m, i)
			}
		}
		// element counts that make count*k wrap around 2^32 (k = 2..64), at the start of the encoding
		if len(d.valid) >= 8 {
			for k := uint64(2); k <= 64; k++ {
				m := append([]byte{}, d.valid...)
				binary.BigEndian.PutUint32(m, uint32((uint64(1)<<32+k-1)/k))
				try(d, "count-wrap", m, 0)
			}
		}
		try(d, "short-string", []byte{}, 0)
		for a := 0; a < 256; a++ {
			try(d, "short-string", []byte{byte(a)}, 0)
			for b := 0; b < 256; b++ {
				try(d, "short-string", []byte{byte(a), byte(b)}, 0)
			}
		}
	}
	names := make([]string, 0, len(counts))
	for k := range counts {
		names = append(names, k)
	}
	sort.Strings(names)
	dc := map[string]interface{}{}
	for _, k := range names {
		dc[k] = counts[k]
	}
	res.Extra["decoder_seam_inputs"] = dc
	res.Sample(map[string]interface{}{"decoder_seam": "prefixes, byte edits and all strings of length <=2", "decoders": names})
	_ = faults.Decode
}

func clip(b []byte) []byte {
	if len(b) > 96 {
		return b[:96]
	}
	return b
}
