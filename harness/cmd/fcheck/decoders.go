package main

import "github.com/taurusgroup/multi-party-sig/internal/zzverif/vkit"

// decoderSeam is filled in by decoders_impl.go
func decoderSeam(res *vkit.Result) { decoderSeamImpl(res) }
