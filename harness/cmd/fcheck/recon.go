package main

import (
	"math/big"

	"github.com/taurusgroup/multi-party-sig/internal/zzverif/oracle"
	"github.com/taurusgroup/multi-party-sig/internal/zzverif/ref"
)

func refMulG(v *oracle.View) ref.Pt { return ref.MulG(v.Secret) }

func reconstructs(sub map[string]*oracle.View, first *oracle.View) bool {
	var xs, ys []*big.Int
	for id, v := range sub {
		xs = append(xs, ref.IDScalar(id))
		ys = append(ys, v.Secret)
	}
	return ref.MulG(ref.Reconstruct(xs, ys)).Equal(first.Public)
}
