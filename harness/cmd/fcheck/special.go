package main

import (
	"fmt"
	"reflect"
	"unsafe"

	"github.com/fxamacker/cbor/v2"
	"github.com/taurusgroup/multi-party-sig/internal/zzverif/faults"
	"github.com/taurusgroup/multi-party-sig/pkg/math/curve"
	"github.com/taurusgroup/multi-party-sig/pkg/math/polynomial"
	"github.com/taurusgroup/multi-party-sig/pkg/math/sample"
	"github.com/taurusgroup/multi-party-sig/pkg/party"
	"github.com/taurusgroup/multi-party-sig/pkg/protocol"
)

// Coordinated deviations of a dealer in the VSS-based key generations: the deviator keeps its
// messages consistent with each other (so no single-message check fails) but deals with a
// polynomial of the wrong degree, or hands a recipient the share of another evaluation point
// (with the header adjusted to match).  They need the deviator's own secret polynomial, which is
// read from (and written back to) its round state by reflection.

func unexported(v reflect.Value) reflect.Value {
	return reflect.NewAt(v.Type(), unsafe.Pointer(v.UnsafeAddr())).Elem()
}

// dealerPolynomial finds the *polynomial.Polynomial field of the deviator's current round.
func dealerPolynomial(h protocol.Handler) (reflect.Value, bool) {
	r, ok := faults.CurrentRound(h)
	if !ok {
		return reflect.Value{}, false
	}
	pt := reflect.TypeOf((*polynomial.Polynomial)(nil))
	var find func(v reflect.Value, depth int) (reflect.Value, bool)
	find = func(v reflect.Value, depth int) (reflect.Value, bool) {
		if v.Kind() == reflect.Ptr {
			if v.IsNil() {
				return reflect.Value{}, false
			}
			v = v.Elem()
		}
		if v.Kind() != reflect.Struct || depth > 6 {
			return reflect.Value{}, false
		}
		for i := 0; i < v.NumField(); i++ {
			f := v.Field(i)
			if f.Type() == pt {
				f = unexported(f)
				if !f.IsNil() {
					return f, true
				}
			}
			if v.Type().Field(i).Anonymous {
				if x, ok := find(unexported(f), depth+1); ok {
					return x, true
				}
			}
		}
		return reflect.Value{}, false
	}
	return find(r, 0)
}

func coefficients(p *polynomial.Polynomial) reflect.Value {
	return unexported(reflect.ValueOf(p).Elem().FieldByName("coefficients"))
}

// withDegree returns a copy of p with one coefficient appended (delta=+1) or removed (delta=-1).
func withDegree(p *polynomial.Polynomial, delta int) *polynomial.Polynomial {
	g := curve.Secp256k1{}
	old := coefficients(p)
	n := old.Len() + delta
	if n < 1 {
		return nil
	}
	q := polynomial.NewPolynomial(g, n-1, g.NewScalar())
	cs := coefficients(q)
	for i := 0; i < n; i++ {
		if i < old.Len() {
			cs.Index(i).Set(old.Index(i))
		} else {
			var s curve.Scalar = sample.Scalar(sampleReader{}, g)
			cs.Index(i).Set(reflect.ValueOf(&s).Elem())
		}
	}
	return q
}

type sampleReader struct{}

func (sampleReader) Read(p []byte) (int, error) {
	for i := range p {
		p[i] = byte(7*i + 3)
	}
	return len(p), nil
}

// polynomialField is the name of the message field that carries the dealer's public polynomial.
func polynomialField(proto string) (field string, round int) {
	switch proto {
	case "frost-keygen", "frost-keygen-taproot", "frost-refresh":
		return "/Phi_i", 2
	}
	return "", 0
}

func specialCases(w *world, check string) []kase {
	var out []kase
	field, rnd := polynomialField(w.sc.Proto)
	if field == "" {
		return nil
	}
	for _, d := range w.spec.IDs {
		for _, delta := range []int{+1, -1} {
			d, delta := d, delta
			var phi []byte
			name := fmt.Sprintf("dealer-polynomial-degree%+d-consistent-shares", delta)
			slot := faults.Slot{From: d, Round: rnd, Broadcast: true}
			f := faults.MessageFault(slot, name, "replace", func(m *protocol.Message) *protocol.Message {
				if phi == nil {
					return m
				}
				tree, err := faults.Decode(m.Data)
				if err != nil {
					return m
				}
				nt, ok := faults.Set(tree, field, phi, false)
				if !ok {
					return m
				}
				m.Data = faults.Encode(nt)
				return m
			})
			f.Deviator = d
			done := false
			f.StateHook = func(h protocol.Handler) bool {
				if done {
					return true
				}
				pv, ok := dealerPolynomial(h)
				if !ok {
					return false
				}
				q := withDegree(pv.Interface().(*polynomial.Polynomial), delta)
				if q == nil {
					return false
				}
				pv.Set(reflect.ValueOf(q))
				phi, _ = polynomial.NewPolynomialExponent(q).MarshalBinary()
				// the deviator's own copy of its broadcast (which enters its echo hash) must match what it sends
				faults.RewriteOwnBroadcast(h, rnd, d, func(data []byte) []byte {
					tree, err := faults.Decode(data)
					if err != nil {
						return data
					}
					nt, ok := faults.Set(tree, field, phi, false)
					if !ok {
						return data
					}
					return faults.Encode(nt)
				})
				done = true
				return true
			}
			out = append(out, kase{Scenario: w.sc, Deviator: d, Slot: slot, Path: field, Op: name, Menu: "coordinated", fault: f})
		}
		// a share for another evaluation point, with and without the recipient header blanked
		for _, to := range w.spec.IDs {
			if to == d {
				continue
			}
			for _, variant := range []string{"own-secret", "share-of-other-party"} {
				for _, blank := range []bool{false, true} {
					d, to, variant, blank := d, to, variant, blank
					var share []byte
					name := "dealer-share-" + variant
					if blank {
						name += "+recipient-header-blank"
					}
					slot := faults.Slot{From: d, To: to, Round: rnd + 1}
					f := faults.MessageFault(slot, name, "replace", func(m *protocol.Message) *protocol.Message {
						if share == nil {
							return m
						}
						m.Data, _ = cbor.Marshal(map[string][]byte{"F_li": share})
						if blank {
							m.To = ""
						}
						return m
					})
					f.Deviator = d
					done := false
					f.StateHook = func(h protocol.Handler) bool {
						if done {
							return true
						}
						pv, ok := dealerPolynomial(h)
						if !ok {
							return false
						}
						p := pv.Interface().(*polynomial.Polynomial)
						var s curve.Scalar
						if variant == "own-secret" {
							s = p.Constant()
						} else {
							var other party.ID
							for _, x := range w.spec.IDs {
								if x != d && x != to {
									other = x
								}
							}
							if other == "" {
								return false
							}
							s = p.Evaluate(other.Scalar(curve.Secp256k1{}))
						}
						share, _ = s.MarshalBinary()
						done = true
						return true
					}
					out = append(out, kase{Scenario: w.sc, Deviator: d, Slot: slot, Path: "/F_li", Op: name, Menu: "coordinated", fault: f})
				}
			}
		}
	}
	return out
}
