package main

import (
	"bytes"
	"fmt"
	"math/big"
	"reflect"
	"sort"
	"strings"
	"unsafe"

	"github.com/cronokirby/saferith"
	"github.com/fxamacker/cbor/v2"
	"github.com/taurusgroup/multi-party-sig/internal/round"
	"github.com/taurusgroup/multi-party-sig/internal/types"
	"github.com/taurusgroup/multi-party-sig/internal/zzverif/drv"
	"github.com/taurusgroup/multi-party-sig/internal/zzverif/faults"
	"github.com/taurusgroup/multi-party-sig/pkg/hash"
	"github.com/taurusgroup/multi-party-sig/pkg/math/curve"
	"github.com/taurusgroup/multi-party-sig/pkg/math/polynomial"
	"github.com/taurusgroup/multi-party-sig/pkg/math/sample"
	"github.com/taurusgroup/multi-party-sig/pkg/party"
	"github.com/taurusgroup/multi-party-sig/pkg/pedersen"
	"github.com/taurusgroup/multi-party-sig/pkg/protocol"
	zksch "github.com/taurusgroup/multi-party-sig/pkg/zk/sch"
)

// Coordinated deviations of a dealer in the VSS-based key generations: the deviator keeps its
// messages consistent with each other (so no single-message check fails) but deals with a
// polynomial of the wrong degree, or hands a recipient the share of another evaluation point
// (with the header adjusted to match).  They need the deviator's own secret polynomial, which is
// read from (and written back to) its round state by reflection.

func unexported(v reflect.Value) reflect.Value {
	return reflect.NewAt(v.Type(), unsafe.Pointer(v.UnsafeAddr())).Elem()
}

// dealerPolynomial finds the *polynomial.Polynomial field of the deviator's current round.
func dealerPolynomial(h protocol.Handler) (reflect.Value, bool) {
	r, ok := faults.CurrentRound(h)
	if !ok {
		return reflect.Value{}, false
	}
	return findPolynomial(r, 0)
}

// findPolynomial finds a non-nil *polynomial.Polynomial field in v (through embedded structs).
func findPolynomial(v reflect.Value, depth int) (reflect.Value, bool) {
	pt := reflect.TypeOf((*polynomial.Polynomial)(nil))
	if v.Kind() == reflect.Interface {
		v = v.Elem()
	}
	if v.Kind() == reflect.Ptr {
		if v.IsNil() {
			return reflect.Value{}, false
		}
		v = v.Elem()
	}
	if v.Kind() != reflect.Struct || depth > 6 {
		return reflect.Value{}, false
	}
	for i := 0; i < v.NumField(); i++ {
		f := v.Field(i)
		if f.Type() == pt {
			f = unexported(f)
			if !f.IsNil() {
				return f, true
			}
		}
		if v.Type().Field(i).Anonymous {
			if x, ok := findPolynomial(unexported(f), depth+1); ok {
				return x, true
			}
		}
	}
	return reflect.Value{}, false
}

func coefficients(p *polynomial.Polynomial) reflect.Value {
	return unexported(reflect.ValueOf(p).Elem().FieldByName("coefficients"))
}

// withDegree returns a copy of p with one coefficient appended (delta=+1) or removed (delta=-1).
func withDegree(p *polynomial.Polynomial, delta int) *polynomial.Polynomial {
	g := curve.Secp256k1{}
	old := coefficients(p)
	n := old.Len() + delta
	if n < 1 {
		return nil
	}
	q := polynomial.NewPolynomial(g, n-1, g.NewScalar())
	cs := coefficients(q)
	for i := 0; i < n; i++ {
		if i < old.Len() {
			cs.Index(i).Set(old.Index(i))
		} else {
			var s curve.Scalar = sample.Scalar(sampleReader{}, g)
			cs.Index(i).Set(reflect.ValueOf(&s).Elem())
		}
	}
	return q
}

type sampleReader struct{}

func (sampleReader) Read(p []byte) (int, error) {
	for i := range p {
		p[i] = byte(7*i + 3)
	}
	return len(p), nil
}

// polynomialField is the name of the message field that carries the dealer's public polynomial.
func polynomialField(proto string) (field string, round int) {
	switch proto {
	case "frost-keygen", "frost-keygen-taproot", "frost-refresh":
		return "/Phi_i", 2
	}
	return "", 0
}

// startCases: a dealer that deviates from the very first instruction.  Its start function is wrapped
// and the secret polynomial of its first round is replaced before the constructor finalises that
// round, so the commitment, the opening, the proofs and every share it sends are consistent with
// each other: degree t+1, degree t-1, and (in a refresh, where the constant must be zero) a
// polynomial with the constant 1.  Used for the CMP key generation and refresh, whose polynomial
// is bound by a hash commitment in the first message.
func startCases(w *world) []kase {
	var out []kase
	if w.sc.Proto != "cmp-keygen" && w.sc.Proto != "cmp-refresh" {
		return nil
	}
	devs := w.spec.IDs
	if !vkitThorough() {
		devs = devs[:1]
	}
	variants := []string{"degree+1", "degree-1"}
	if w.sc.Proto == "cmp-refresh" {
		variants = append(variants, "constant=1")
	}
	if w.sc.Proto == "cmp-keygen" {
		variants = append(variants, "constant=0") // a contribution of zero, in the form a refresh polynomial has
	}
	for _, d := range devs {
		for _, variant := range variants {
			d, variant := d, variant
			applied := false
			f := &faults.Fault{Slot: faults.Slot{From: d, Round: 2, Broadcast: true}, Mut: faults.Mut{Path: "<first round>.polynomial", Op: "dealer-from-start-" + variant}, Mode: "state", Timing: "start", Deviator: d}
			f.WrapStart = func(sf protocol.StartFunc) protocol.StartFunc {
				return func(sessionID []byte) (round.Session, error) {
					r, err := sf(sessionID)
					if err != nil || r == nil {
						return r, err
					}
					pv, ok := findPolynomial(reflect.ValueOf(r), 0)
					if !ok {
						return r, err
					}
					p := pv.Interface().(*polynomial.Polynomial)
					var q *polynomial.Polynomial
					switch variant {
					case "degree+1":
						q = withDegree(p, +1)
					case "degree-1":
						q = withDegree(p, -1)
					case "constant=1":
						g := curve.Secp256k1{}
						q = withDegree(p, 0)
						one := g.NewScalar().SetNat(new(saferith.Nat).SetUint64(1))
						var s curve.Scalar = one
						coefficients(q).Index(0).Set(reflect.ValueOf(&s).Elem())
					case "constant=0":
						g := curve.Secp256k1{}
						q = withDegree(p, 0)
						var s curve.Scalar = g.NewScalar()
						coefficients(q).Index(0).Set(reflect.ValueOf(&s).Elem())
					}
					if q != nil {
						pv.Set(reflect.ValueOf(q))
						applied = true
					}
					return r, err
				}
			}
			f.StateHook = func(h protocol.Handler) bool { return applied }
			out = append(out, kase{Scenario: w.sc, Deviator: d, Slot: f.Slot, Path: "<first round>.polynomial", Op: f.Mut.Op, Menu: "coordinated", fault: f})
		}
	}
	return out
}

// committedValueCases: a party commits to a MALFORMED value in one round and opens exactly that
// commitment in a later one (wrong length, all zero).  Altering the opening alone is refused by the
// decommitment; here commitment and opening are consistent, so only the validation of the opened
// value itself stands between the sender and the code that uses it.
func committedValueCases(w *world) []kase {
	type site struct {
		commitRound           int
		commitField           string
		openRound             int
		valueField, openField string
	}
	var st site
	switch w.sc.Proto {
	case "frost-keygen", "frost-keygen-taproot", "frost-refresh":
		st = site{2, "/Commitment", 3, "/C_l", "/Decommitment"}
	case "cmp-presign", "cmp-presign-full":
		st = site{2, "/CommitmentID", 7, "/PresignatureID", "/DecommitmentID"}
	default:
		return nil
	}
	devs := w.spec.IDs
	if !vkitThorough() {
		devs = devs[len(devs)-1:]
	}
	values := map[string][]byte{
		"2-bytes":  {1, 2},
		"31-bytes": bytes.Repeat([]byte{7}, 31),
		"33-bytes": bytes.Repeat([]byte{7}, 33),
		"64-bytes": bytes.Repeat([]byte{7}, 64),
		"all-zero": make([]byte, 32),
	}
	var names []string
	for k := range values {
		names = append(names, k)
	}
	sort.Strings(names)
	var out []kase
	for _, d := range devs {
		for _, vn := range names {
			d, val := d, values[vn]
			var com, decom []byte
			set := func(data []byte, fields map[string][]byte) []byte {
				tree, err := faults.Decode(data)
				if err != nil {
					return data
				}
				for f, v := range fields {
					nt, ok := faults.Set(tree, f, v, false)
					if !ok {
						return data
					}
					tree = nt
				}
				return faults.Encode(tree)
			}
			slot := faults.Slot{From: d, Round: st.commitRound, Broadcast: true}
			name := "committed-value-" + vn + "-opened-consistently"
			f := faults.MessageFault(slot, name, "replace", func(m *protocol.Message) *protocol.Message {
				if com != nil {
					m.Data = set(m.Data, map[string][]byte{st.commitField: com})
				}
				return m
			})
			f.Deviator = d
			f.Also = func(dl drv.Delivery) *protocol.Message {
				if com == nil || !dl.M.Broadcast || int(dl.M.RoundNumber) != st.openRound {
					return nil
				}
				m := drv.CloneMsg(dl.M)
				m.Data = set(m.Data, map[string][]byte{st.valueField: val, st.openField: decom})
				return m
			}
			done := false
			f.StateHook = func(h protocol.Handler) bool {
				if done {
					return true
				}
				cr, ok := faults.CurrentRound(h)
				if !ok {
					return false
				}
				hh, ok := cr.Interface().(interface {
					HashForID(party.ID) *hash.Hash
				})
				if !ok {
					return false
				}
				c, dc, err := hh.HashForID(d).Commit(types.RID(val))
				if err != nil {
					return false
				}
				com, decom = []byte(c), []byte(dc)
				faults.RewriteOwnBroadcast(h, st.commitRound, d, func(data []byte) []byte {
					return set(data, map[string][]byte{st.commitField: com})
				})
				done = true
				return true
			}
			out = append(out, kase{Scenario: w.sc, Deviator: d, Slot: slot, Path: st.valueField, Op: name, Menu: "coordinated", fault: f})
		}
	}
	return out
}

// equivocatedCommitmentCases (CMP key generation, n >= 3): the deviator shows ONE recipient a second,
// equally valid commitment in round 2 - to the same values except for another chain-key contribution,
// with a fresh decommitment - and opens it consistently to that recipient in round 3, while everybody
// else sees the original commitment and opening.  No single message is malformed and every opening
// matches the commitment its recipient holds: only the echo of the round-2 broadcast tells the honest
// parties that they were shown different commitments.
func equivocatedCommitmentCases(w *world) []kase {
	if (w.sc.Proto != "cmp-keygen" && w.sc.Proto != "cmp-refresh") || len(w.spec.IDs) < 3 {
		return nil
	}
	type variant struct {
		name   string
		field  string // message field of round 3 that differs from the honest run: /C or /RID
		change func(types.RID) types.RID
		toAll  bool // shown to everybody (a malformed committed value) instead of to one recipient (an equivocation)
	}
	flip := func(r types.RID) types.RID { o := append(types.RID{}, r...); o[0] ^= 0x55; return o }
	vs := []variant{{"second-commitment-with-another-chain-key-opened-consistently@one-recipient", "/C", flip, false}}
	fields := []string{"/RID", "/C"}
	if w.sc.Proto == "cmp-refresh" {
		vs, fields = nil, []string{"/C"} // (the equivocation and the rid are covered in the key generation)
	}
	for _, f := range fields {
		vs = append(vs,
			variant{"committed-value-31-bytes-opened-consistently", f, func(r types.RID) types.RID { return append(types.RID{}, r[:31]...) }, true},
			variant{"committed-value-33-bytes-opened-consistently", f, func(r types.RID) types.RID { return append(append(types.RID{}, r...), 7) }, true},
			variant{"committed-value-all-zero-opened-consistently", f, func(r types.RID) types.RID { return make(types.RID, len(r)) }, true})
	}
	var out []kase
	d := w.spec.IDs[len(w.spec.IDs)-1]
	for _, v := range vs {
		for _, to := range w.spec.IDs {
			if to == d {
				continue
			}
			if v.toAll && to != w.spec.IDs[0] {
				continue
			}
			d, to, v := d, to, v
			var com, decom, val []byte
			set := func(data []byte, fields map[string][]byte) []byte {
				tree, err := faults.Decode(data)
				if err != nil {
					return data
				}
				for f, x := range fields {
					nt, ok := faults.Set(tree, f, x, false)
					if !ok {
						return data
					}
					tree = nt
				}
				return faults.Encode(tree)
			}
			slot := faults.Slot{From: d, To: to, Round: 2, Broadcast: true}
			if v.toAll {
				slot.To = ""
			}
			f := faults.MessageFault(slot, v.name, "replace", func(m *protocol.Message) *protocol.Message {
				if com != nil {
					m.Data = set(m.Data, map[string][]byte{"/Commitment": com})
				}
				return m
			})
			f.Deviator = d
			f.Also = func(dl drv.Delivery) *protocol.Message {
				if com == nil || !dl.M.Broadcast || int(dl.M.RoundNumber) != 3 || (!v.toAll && dl.To != to) {
					return nil
				}
				m := drv.CloneMsg(dl.M)
				m.Data = set(m.Data, map[string][]byte{v.field: val, "/Decommitment": decom})
				return m
			}
			done := false
			f.StateHook = func(h protocol.Handler) bool {
				if done {
					return true
				}
				cr, ok := faults.CurrentRound(h)
				if !ok {
					return false
				}
				hh, ok := cr.Interface().(interface {
					HashForID(party.ID) *hash.Hash
				})
				if !ok {
					return false
				}
				rv := cr.Elem()
				at := func(field string) (reflect.Value, bool) {
					fv := rv.FieldByName(field)
					if !fv.IsValid() || fv.Kind() != reflect.Map {
						return reflect.Value{}, false
					}
					x := fv.MapIndex(reflect.ValueOf(d))
					return x, x.IsValid()
				}
				rid, ok1 := at("RIDs")
				chain, ok2 := at("ChainKeys")
				poly, ok3 := at("VSSPolynomials")
				elg, ok4 := at("ElGamalPublic")
				ped, ok5 := at("Pedersen")
				sr := rv.FieldByName("SchnorrRand")
				if !(ok1 && ok2 && ok3 && ok4 && ok5) || !sr.IsValid() {
					return false
				}
				r1, c1 := rid.Interface().(types.RID), chain.Interface().(types.RID)
				if v.field == "/C" {
					c1 = v.change(c1)
					val = []byte(c1)
				} else {
					r1 = v.change(r1)
					val = []byte(r1)
				}
				pp := ped.Interface().(*pedersen.Parameters)
				c, dc, err := hh.HashForID(d).Commit(r1, c1, poly.Interface(), sr.Interface().(*zksch.Randomness).Commitment(), elg.Interface(), pp.N(), pp.S(), pp.T())
				if err != nil {
					return false
				}
				com, decom = []byte(c), []byte(dc)
				if v.toAll {
					// the deviator's own copy of its round-2 broadcast enters its echo hash
					faults.RewriteOwnBroadcast(h, 2, d, func(data []byte) []byte { return set(data, map[string][]byte{"/Commitment": com}) })
				}
				done = true
				return true
			}
			out = append(out, kase{Scenario: w.sc, Deviator: d, Slot: slot, Path: v.field, Op: v.name, Menu: "coordinated", fault: f})
		}
	}
	return out
}

// rootAtVictimCases (FROST key generation): the dealer's polynomial is well formed, of the right degree
// and properly proven, but has a ROOT at the victim's evaluation point - the public polynomial then
// evaluates to the point at infinity there (through a cancelling addition) - and the share sent to the
// victim is some other non-zero value.  Everything else is correct.  The share check is a single point
// comparison with that identity on one side.
func rootAtVictimCases(w *world) []kase {
	if w.sc.Proto != "frost-keygen" && w.sc.Proto != "frost-keygen-taproot" {
		return nil
	}
	var out []kase
	g := curve.Secp256k1{}
	d := w.spec.IDs[len(w.spec.IDs)-1]
	for _, victim := range w.spec.IDs {
		if victim == d {
			continue
		}
		d, victim := d, victim
		var phi []byte
		var sigma interface{}
		set := func(data []byte) []byte {
			tree, err := faults.Decode(data)
			if err != nil || phi == nil {
				return data
			}
			nt, ok := faults.Set(tree, "/Phi_i", phi, false)
			if ok {
				nt, ok = faults.Set(nt, "/Sigma_i", sigma, false)
			}
			if !ok {
				return data
			}
			return faults.Encode(nt)
		}
		slot := faults.Slot{From: d, Round: 2, Broadcast: true}
		name := "dealer-polynomial-with-root-at-the-recipient+other-share"
		f := faults.MessageFault(slot, name, "replace", func(m *protocol.Message) *protocol.Message {
			m.Data = set(m.Data)
			return m
		})
		f.Deviator = d
		f.Also = func(dl drv.Delivery) *protocol.Message {
			if phi == nil || dl.M.Broadcast || int(dl.M.RoundNumber) != 3 || dl.To != victim {
				return nil
			}
			five, _ := g.NewScalar().SetNat(new(saferith.Nat).SetUint64(5)).MarshalBinary()
			m := drv.CloneMsg(dl.M)
			m.Data, _ = cbor.Marshal(map[string][]byte{"F_li": five})
			return m
		}
		done := false
		f.StateHook = func(h protocol.Handler) bool {
			if done {
				return true
			}
			pv, ok := dealerPolynomial(h)
			if !ok {
				return false
			}
			q := withDegree(pv.Interface().(*polynomial.Polynomial), 0)
			cs := coefficients(q)
			t := cs.Len() - 1
			if t < 1 {
				return false
			}
			// q(X) = (X - x_v) * (g_0 + g_1 X + ... + g_{t-1} X^{t-1}),  g_i = 3 + i
			xv := victim.Scalar(g)
			gi := func(i int) curve.Scalar {
				if i < 0 || i > t-1 {
					return g.NewScalar()
				}
				return g.NewScalar().SetNat(new(saferith.Nat).SetUint64(uint64(3 + i)))
			}
			for i := 0; i <= t; i++ {
				var c curve.Scalar = gi(i - 1).Sub(g.NewScalar().Set(xv).Mul(gi(i)))
				cs.Index(i).Set(reflect.ValueOf(&c).Elem())
			}
			pv.Set(reflect.ValueOf(q))
			phi, _ = polynomial.NewPolynomialExponent(q).MarshalBinary()
			cr, _ := faults.CurrentRound(h)
			hh, ok := cr.Interface().(interface {
				HashForID(party.ID) *hash.Hash
			})
			if !ok {
				return false
			}
			c0 := q.Constant()
			enc, err := cbor.Marshal(zksch.NewProof(hh.HashForID(d), c0.ActOnBase(), c0, nil))
			if err != nil {
				return false
			}
			if sigma, err = faults.Decode(enc); err != nil {
				return false
			}
			faults.RewriteOwnBroadcast(h, 2, d, set)
			done = true
			return true
		}
		out = append(out, kase{Scenario: w.sc, Deviator: d, Slot: slot, Path: "/Phi_i", Op: name, Menu: "coordinated", fault: f})
	}
	return out
}

// negatedSumCases (signing protocols whose last round publishes additive signature shares): a rushing signer
// waits for the other shares of the last round and publishes  own - 2*(sum of all shares)  instead of its own,
// so that the combined value is the NEGATION of the honest one: (R, -s) instead of (R, s).  Every share is a
// well-formed non-zero scalar; only a final verification that pins the whole nonce point refuses the result.
func negatedSumCases(w *world) []kase {
	if !strings.HasPrefix(w.sc.Proto, "cmp-sign") && !strings.HasPrefix(w.sc.Proto, "cmp-presign-online") && !strings.HasPrefix(w.sc.Proto, "cmp-presign-full") {
		return nil
	}
	last := 0
	for _, d := range w.seq {
		if d.M != nil && d.M.Broadcast && int(d.M.RoundNumber) > last {
			last = int(d.M.RoundNumber)
		}
	}
	shares := map[party.ID]*big.Int{}
	field := ""
	for _, d := range w.seq {
		if d.M == nil || !d.M.Broadcast || int(d.M.RoundNumber) != last {
			continue
		}
		tree, err := faults.Decode(d.M.Data)
		if err != nil {
			return nil
		}
		mm, ok := tree.(map[interface{}]interface{})
		if !ok {
			return nil
		}
		for k, v := range mm {
			ks, _ := k.(string)
			b, isB := v.([]byte)
			if isB && len(b) == 32 && strings.HasPrefix(ks, "Sigma") {
				field = "/" + ks
				shares[d.M.From] = new(big.Int).SetBytes(b)
			}
		}
	}
	if field == "" || len(shares) != len(w.spec.IDs) {
		return nil
	}
	q, _ := new(big.Int).SetString("fffffffffffffffffffffffffffffffebaaedce6af48a03bbfd25e8cd0364141", 16)
	sum := new(big.Int)
	for _, x := range shares {
		sum.Add(sum, x)
	}
	var out []kase
	d := w.spec.IDs[len(w.spec.IDs)-1]
	v := new(big.Int).Sub(shares[d], new(big.Int).Lsh(sum, 1))
	v.Mod(v, q)
	val := v.FillBytes(make([]byte, 32))
	slot := faults.Slot{From: d, Round: last, Broadcast: true}
	mut := faults.Mut{Path: field, Op: "own-share-minus-twice-the-sum"}
	f := faults.ContentFault(slot, mut, val, "replace")
	f.Deviator = d
	out = append(out, kase{Scenario: w.sc, Deviator: d, Slot: slot, Path: field, Op: mut.Op, Menu: "coordinated", fault: f})
	return out
}

// shiftedShareCases (CMP key generation / refresh, n >= 3): the first dealer sends one recipient the
// encryption of share+1 - computed homomorphically from the genuine ciphertext with the recipient's Paillier
// modulus, which that recipient broadcast in round 3 - so the plaintext is in range and only the check of
// the share against the dealer's polynomial can refuse it.  (Adding to the ciphertext itself gives a
// plaintext that is out of range and is refused before that check is reached.)
func shiftedShareCases(w *world) []kase {
	if (w.sc.Proto != "cmp-keygen" && w.sc.Proto != "cmp-refresh") || len(w.spec.IDs) < 3 {
		return nil
	}
	moduli := map[party.ID]*big.Int{}
	for _, d := range w.seq {
		if d.M == nil || !d.M.Broadcast || d.M.RoundNumber != 3 {
			continue
		}
		if tree, err := faults.Decode(d.M.Data); err == nil {
			if v, ok := faults.Get(tree, "/N"); ok {
				switch x := v.(type) {
				case []byte:
					moduli[d.M.From] = new(big.Int).SetBytes(x)
				case big.Int:
					moduli[d.M.From] = new(big.Int).Set(&x)
				}
			}
		}
	}
	var out []kase
	d := w.spec.IDs[0]
	for _, to := range w.spec.IDs[1:] {
		to := to
		N := moduli[to]
		if N == nil || N.Sign() == 0 {
			continue
		}
		slot := faults.Slot{From: d, To: to, Round: 4}
		name := "share-plus1-under-the-recipients-key"
		f := faults.MessageFault(slot, name, "replace", func(m *protocol.Message) *protocol.Message {
			tree, err := faults.Decode(m.Data)
			if err != nil {
				return m
			}
			v, ok := faults.Get(tree, "/Share")
			if !ok {
				return m
			}
			var c *big.Int
			var asBytes bool
			switch x := v.(type) {
			case []byte:
				c, asBytes = new(big.Int).SetBytes(x), true
			case big.Int:
				c = new(big.Int).Set(&x)
			default:
				return m
			}
			n2 := new(big.Int).Mul(N, N)
			c.Mul(c, new(big.Int).Add(N, big.NewInt(1)))
			c.Mod(c, n2)
			var nv interface{} = *c
			if asBytes {
				nv = c.Bytes()
			}
			nt, ok := faults.Set(tree, "/Share", nv, false)
			if !ok {
				return m
			}
			m.Data = faults.Encode(nt)
			return m
		})
		f.Deviator = d
		out = append(out, kase{Scenario: w.sc, Deviator: d, Slot: slot, Path: "/Share", Op: name, Menu: "coordinated", fault: f})
	}
	return out
}

func specialCases(w *world, check string) []kase {
	var out []kase
	out = append(out, committedValueCases(w)...)
	out = append(out, rootAtVictimCases(w)...)
	if check != "C05" {
		out = append(out, negatedSumCases(w)...)
	}
	if check != "C05" {
		out = append(out, startCases(w)...) // deviations without a malformed message: nothing for C05 to judge
	}
	field, rnd := polynomialField(w.sc.Proto)
	if field == "" {
		return out
	}
	for _, d := range w.spec.IDs {
		deltas := []int{+1, -1}
		if w.sc.Proto == "frost-refresh" {
			deltas = append(deltas, 0) // 0: same degree, constant 1 (a refresh polynomial must vanish at 0)
			// 99: the zero polynomial announced in the form WITH a constant coefficient (t+1 coefficients,
			// all the identity: the encoding leaves the coefficient list out, so the decoder's pre-filled
			// identities stay), all shares 0.  Constant and degree are what a refresh expects and every
			// share verifies, but the form differs from the honest parties' (t coefficients, no constant).
			deltas = append(deltas, 99)
			// 98: as 0 (constant 1), and with a Schnorr proof of knowledge of that constant computed over
			// the refresh session's transcript - what the key generation mode would send
			deltas = append(deltas, 98)
		}
		for _, delta := range deltas {
			d, delta := d, delta
			var phi []byte
			var sigma interface{}
			name := fmt.Sprintf("dealer-polynomial-degree%+d-consistent-shares", delta)
			if delta == 0 {
				name = "dealer-refresh-polynomial-constant=1-consistent-shares"
			}
			if delta == 98 {
				name = "dealer-refresh-polynomial-constant=1-with-proof-consistent-shares"
			}
			if delta == 99 {
				name = "dealer-refresh-identity-polynomial-in-full-form-zero-shares"
			}
			slot := faults.Slot{From: d, Round: rnd, Broadcast: true}
			f := faults.MessageFault(slot, name, "replace", func(m *protocol.Message) *protocol.Message {
				if phi == nil {
					return m
				}
				tree, err := faults.Decode(m.Data)
				if err != nil {
					return m
				}
				nt, ok := faults.Set(tree, field, phi, false)
				if !ok {
					return m
				}
				if sigma != nil {
					if nt, ok = faults.Set(nt, "/Sigma_i", sigma, false); !ok {
						return m
					}
				}
				m.Data = faults.Encode(nt)
				return m
			})
			f.Deviator = d
			done := false
			f.StateHook = func(h protocol.Handler) bool {
				if done {
					return true
				}
				pv, ok := dealerPolynomial(h)
				if !ok {
					return false
				}
				dd := delta
				if dd == 99 || dd == 98 {
					dd = 0
				}
				q := withDegree(pv.Interface().(*polynomial.Polynomial), dd)
				if q == nil {
					return false
				}
				if delta == 0 || delta == 98 {
					g := curve.Secp256k1{}
					var one curve.Scalar = g.NewScalar().SetNat(new(saferith.Nat).SetUint64(1))
					coefficients(q).Index(0).Set(reflect.ValueOf(&one).Elem())
					if delta == 98 {
						cr, _ := faults.CurrentRound(h)
						hh, ok := cr.Interface().(interface {
							HashForID(party.ID) *hash.Hash
						})
						if !ok {
							return false
						}
						proof := zksch.NewProof(hh.HashForID(d), one.ActOnBase(), one, nil)
						enc, err := cbor.Marshal(proof)
						if err != nil {
							return false
						}
						if sigma, err = faults.Decode(enc); err != nil {
							return false
						}
					}
				}
				pv.Set(reflect.ValueOf(q))
				phi, _ = polynomial.NewPolynomialExponent(q).MarshalBinary()
				if delta == 99 {
					g := curve.Secp256k1{}
					cs := coefficients(q)
					for i := 0; i < cs.Len(); i++ {
						var zero curve.Scalar = g.NewScalar()
						cs.Index(i).Set(reflect.ValueOf(&zero).Elem())
					}
					rest, _ := cbor.Marshal(map[string]interface{}{"IsConstant": false})
					phi = append([]byte{0, 0, 0, byte(cs.Len())}, rest...)
				}
				// the deviator's own copy of its broadcast (which enters its echo hash) must match what it sends
				faults.RewriteOwnBroadcast(h, rnd, d, func(data []byte) []byte {
					tree, err := faults.Decode(data)
					if err != nil {
						return data
					}
					nt, ok := faults.Set(tree, field, phi, false)
					if !ok {
						return data
					}
					if sigma != nil {
						if nt, ok = faults.Set(nt, "/Sigma_i", sigma, false); !ok {
							return data
						}
					}
					return faults.Encode(nt)
				})
				done = true
				return true
			}
			out = append(out, kase{Scenario: w.sc, Deviator: d, Slot: slot, Path: field, Op: name, Menu: "coordinated", fault: f})
		}
		// a share for another evaluation point, with and without the recipient header blanked
		for _, to := range w.spec.IDs {
			if to == d {
				continue
			}
			for _, variant := range []string{"own-secret", "share-of-other-party"} {
				for _, blank := range []bool{false, true} {
					d, to, variant, blank := d, to, variant, blank
					var share []byte
					name := "dealer-share-" + variant
					if blank {
						name += "+recipient-header-blank"
					}
					slot := faults.Slot{From: d, To: to, Round: rnd + 1}
					f := faults.MessageFault(slot, name, "replace", func(m *protocol.Message) *protocol.Message {
						if share == nil {
							return m
						}
						m.Data, _ = cbor.Marshal(map[string][]byte{"F_li": share})
						if blank {
							m.To = ""
						}
						return m
					})
					f.Deviator = d
					done := false
					f.StateHook = func(h protocol.Handler) bool {
						if done {
							return true
						}
						pv, ok := dealerPolynomial(h)
						if !ok {
							return false
						}
						p := pv.Interface().(*polynomial.Polynomial)
						var s curve.Scalar
						if variant == "own-secret" {
							s = p.Constant()
						} else {
							var other party.ID
							for _, x := range w.spec.IDs {
								if x != d && x != to {
									other = x
								}
							}
							if other == "" {
								return false
							}
							s = p.Evaluate(other.Scalar(curve.Secp256k1{}))
						}
						share, _ = s.MarshalBinary()
						done = true
						return true
					}
					out = append(out, kase{Scenario: w.sc, Deviator: d, Slot: slot, Path: "/F_li", Op: name, Menu: "coordinated", fault: f})
				}
			}
		}
	}
	return out
}
