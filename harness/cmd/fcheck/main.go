// fcheck — engine C checks (fault enumeration through real sessions):
//
//	-check c03  semantic menu, replace mode: no honest party finishes with a wrong result
//	-check c04  same runs: blame is sound
//	-check c05  structural menu + header malformations, inject mode: no panic / hang / unclean end
package main

import (
	"encoding/hex"
	"flag"
	"fmt"
	"math/big"
	"os"
	"sort"
	"strings"
	"time"

	"github.com/taurusgroup/multi-party-sig/internal/zzverif/drv"
	"github.com/taurusgroup/multi-party-sig/internal/zzverif/faults"
	"github.com/taurusgroup/multi-party-sig/internal/zzverif/kmat"
	"github.com/taurusgroup/multi-party-sig/internal/zzverif/oracle"
	"github.com/taurusgroup/multi-party-sig/internal/zzverif/ref"
	"github.com/taurusgroup/multi-party-sig/internal/zzverif/sess"
	"github.com/taurusgroup/multi-party-sig/internal/zzverif/vkit"
	"github.com/taurusgroup/multi-party-sig/pkg/party"
	"github.com/taurusgroup/multi-party-sig/pkg/protocol"
	"github.com/taurusgroup/multi-party-sig/protocols/example"
)

var checkFlag = flag.String("check", "c03", "c03 | c04 | c05")

type scenario struct {
	Name          string   `json:"name"`
	Proto         string   `json:"proto"`
	N             int      `json:"n"`
	T             int      `json:"t"`
	Cost          int      `json:"cost"`                     // rough cost class: 0 = milliseconds, 1 = tens of ms, 2 = seconds
	StateOnly     bool     `json:"state_only,omitempty"`     // only the state-level deviations (C04)
	BlameOnly     bool     `json:"blame_only,omitempty"`     // of those, only the delta / chi inconsistencies every honest signer must attribute
	Pool          int      `json:"pool,omitempty"`           // > 0: the sessions run with a worker pool of that size (C05: a panic on a pool goroutine kills the process)
	OnlyOps       []string `json:"only_ops,omitempty"`       // restrict the operator menu (quick-tier sizing of expensive scenarios)
	Whole         bool     `json:"whole,omitempty"`          // small catalogue of an expensive protocol: ONE process builds the world and runs all its cases
	NoChainKey    bool     `json:"no_chain_key,omitempty"`   // cmp-refresh: the configurations carry no chain key
	CommittedOnly bool     `json:"committed_only,omitempty"` // only the commit-to-a-malformed-value-and-open-it deviations (special.go: committedValueCases)
	StartOnly     bool     `json:"start_only,omitempty"`     // only the dealer-from-the-start deviations (special.go: startCases)
	OnlyPaths     []string `json:"only_paths,omitempty"`     // restrict the field paths (quick-tier sizing of expensive scenarios)
	MsgLen        int      `json:"msg_len,omitempty"`        // length of the message digest that is signed (default 32)
}

// world is a scenario made concrete: the session description plus what the oracles need.
type world struct {
	sc       scenario
	spec     *sess.Spec
	ids      []party.ID
	kind     string // sign | keygen | refresh | presign | xor
	pub      ref.Pt // group key (sign / refresh / presign)
	msg      []byte
	seq      []drv.Delivery
	final    int
	oldShare map[party.ID]*big.Int // doerner-refresh: the shares before the refresh
}

var msg32 = []byte("0123456789abcdef0123456789abcdef")

// fresh re-creates the session description with fresh key-material objects: the library's
// refresh protocols modify the configuration objects they are given, so nothing may be shared
// between two sessions.
func (w *world) fresh() *sess.Spec {
	n, err := build0(w.sc)
	if err != nil {
		panic(err)
	}
	return n.spec
}

func build(sc scenario) (*world, error) {
	w, err := build0(sc)
	if err != nil {
		return nil, err
	}
	var end *faults.End
	w.seq, end = faults.Transcript(w.fresh(), *vkit.Seed, "fc")
	for _, id := range w.spec.IDs {
		if pe := end.Parties[id]; pe == nil || pe.Status != "done" {
			return nil, fmt.Errorf("honest run of %s does not complete: %s: %+v (start errors %v)", sc.Name, id, pe, end.StartErr)
		}
	}
	for _, d := range w.seq {
		if int(d.M.RoundNumber) > w.final {
			w.final = int(d.M.RoundNumber)
		}
	}
	return w, nil
}

func build0(sc scenario) (*world, error) {
	sess.PoolWorkers = sc.Pool // read by the start functions when the handlers are created
	ids := kmat.IDs[:sc.N]
	w := &world{sc: sc, ids: ids, msg: msg32}
	if sc.MsgLen > 0 {
		w.msg = make([]byte, sc.MsgLen)
		for i := range w.msg {
			w.msg[i] = byte(0x30 + i%64)
		}
	}
	var err error
	pubOf := func(r interface{}) error {
		v, err := oracle.ViewOf(r)
		if err != nil {
			return err
		}
		w.pub = v.Public
		return nil
	}
	switch sc.Proto {
	case "xor":
		w.kind = "xor"
		w.spec = &sess.Spec{Name: "xor", IDs: ids, SessionID: []byte("sid"), Start: func(id party.ID) protocol.StartFunc { return example.StartXOR(id, party.NewIDSlice(ids)) }}
	case "frost-keygen":
		w.kind, w.spec = "keygen", sess.FrostKeygen(ids, sc.T, false)
	case "frost-keygen-taproot":
		w.kind, w.spec = "keygen", sess.FrostKeygen(ids, sc.T, true)
	case "frost-refresh":
		k, e := kmat.Frost(sc.N, sc.T)
		if e != nil {
			return nil, e
		}
		w.kind, w.spec = "refresh", sess.FrostRefresh(k, ids)
		err = pubOf(k[ids[0]])
	case "frost-sign":
		k, e := kmat.Frost(sc.N, sc.T)
		if e != nil {
			return nil, e
		}
		w.kind, w.spec = "sign", sess.FrostSign(k, ids, w.msg)
		err = pubOf(k[ids[0]])
	case "frost-sign-taproot":
		k, e := kmat.Taproot(sc.N, sc.T)
		if e != nil {
			return nil, e
		}
		w.kind, w.spec = "sign", sess.FrostSignTaproot(k, ids, w.msg)
		err = pubOf(k[ids[0]])
	case "doerner-keygen":
		w.kind, w.spec = "keygen2", sess.DoernerKeygen("a", "b")
	case "doerner-sign":
		k, e := kmat.Doerner()
		if e != nil {
			return nil, e
		}
		w.kind, w.spec = "sign", sess.DoernerSign(k.R, k.S, "a", "b", w.msg)
		w.pub, err = oracle.Pt(k.R.Public)
	case "doerner-refresh":
		k, e := kmat.Doerner()
		if e != nil {
			return nil, e
		}
		// fresh copies: the refresh is handed objects no other scenario uses
		r2, s2 := *k.R, *k.S
		r2.SecretShare, s2.SecretShare = sess.Group.NewScalar().Set(k.R.SecretShare), sess.Group.NewScalar().Set(k.S.SecretShare)
		w.kind, w.spec = "refresh2", sess.DoernerRefresh(&r2, &s2, "a", "b")
		w.oldShare = map[party.ID]*big.Int{"a": oracle.Sc(k.R.SecretShare), "b": oracle.Sc(k.S.SecretShare)}
		w.pub, err = oracle.Pt(k.R.Public)
	case "cmp-keygen":
		w.kind, w.spec = "keygen", sess.CMPKeygen(ids, sc.T)
	case "cmp-refresh":
		k, e := kmat.CMP(sc.N, sc.T)
		if e != nil {
			return nil, e
		}
		if sc.NoChainKey {
			// the chain key of a CMP configuration is optional; the refresh is what gives such a key its chain key,
			// and it then combines the peers' contributions - which a key that has one never does
			for _, c := range k {
				c.ChainKey = nil
			}
		}
		w.kind, w.spec = "refresh", sess.CMPRefresh(k, ids)
		err = pubOf(k[ids[0]])
	case "cmp-sign":
		k, e := kmat.CMP(sc.N, sc.T)
		if e != nil {
			return nil, e
		}
		w.kind, w.spec = "sign", sess.CMPSign(k, ids, w.msg)
		err = pubOf(k[ids[0]])
	case "cmp-presign":
		k, e := kmat.CMP(sc.N, sc.T)
		if e != nil {
			return nil, e
		}
		w.kind, w.spec = "presign", sess.CMPPresign(k, ids)
		err = pubOf(k[ids[0]])
	case "cmp-presign-full":
		k, e := kmat.CMP(sc.N, sc.T)
		if e != nil {
			return nil, e
		}
		w.kind, w.spec = "sign", sess.CMPPresignFull(k, ids, w.msg)
		err = pubOf(k[ids[0]])
	case "cmp-presign-online":
		k, e := kmat.CMP(sc.N, sc.T)
		if e != nil {
			return nil, e
		}
		p, e := kmat.CMPPresigs(sc.N, sc.T)
		if e != nil {
			return nil, e
		}
		w.kind, w.spec = "sign", sess.CMPPresignOnline(k, p, ids, w.msg)
		err = pubOf(k[ids[0]])
	default:
		return nil, fmt.Errorf("unknown protocol %s", sc.Proto)
	}
	if err != nil {
		return nil, err
	}
	return w, nil
}

func scenarios(check string) []scenario {
	var l []scenario
	add := func(proto string, n, t, cost int) {
		l = append(l, scenario{Name: fmt.Sprintf("%s/n%d/t%d", proto, n, t), Proto: proto, N: n, T: t, Cost: cost})
	}
	add("xor", 3, 2, 0)
	add("frost-keygen", 3, 1, 0)
	add("frost-keygen-taproot", 3, 1, 0)
	add("frost-refresh", 3, 1, 0)
	add("frost-sign", 3, 1, 0)
	add("frost-sign-taproot", 3, 1, 0)
	add("doerner-keygen", 2, 1, 1)
	add("doerner-sign", 2, 1, 1)
	add("doerner-refresh", 2, 1, 1)
	add("cmp-presign-online", 2, 1, 1)
	if check == "C04" {
		// state-level deviations of a presigner (its gamma / k / x / chi / delta shares shifted while its proofs stay valid)
		l = append(l, scenario{Name: "cmp-presign/n2/t1/state-level", Proto: "cmp-presign", N: 2, T: 1, Cost: 2, StateOnly: true})
	}
	if check == "C04" {
		// n=3: the abort rounds carry honest parties' openings as well; every honest signer must single out the cheater
		l = append(l, scenario{Name: "cmp-presign/n3/t1/state-level-blame", Proto: "cmp-presign", N: 3, T: 1, Cost: 2, StateOnly: true, BlameOnly: true})
	}
	addPool := func(proto string, n, t, cost int) {
		l = append(l, scenario{Name: fmt.Sprintf("%s/n%d/t%d/pool2", proto, n, t), Proto: proto, N: n, T: t, Cost: cost, Pool: 2})
	}
	if check == "C05" {
		// the same malformed messages with a 2-worker pool: part of the verification then runs on pool goroutines
		addPool("doerner-keygen", 2, 1, 1)
		addPool("cmp-presign-online", 2, 1, 1)
		if !vkit.Thorough() {
			// quick tier: the absent-value operator on every field of the expensive protocols whose proofs are verified on the pool
			l = append(l, scenario{Name: "cmp-keygen/n2/t1/pool2/null", Proto: "cmp-keygen", N: 2, T: 1, Cost: 2, Pool: 2, OnlyOps: []string{"null"}})
		}
		if vkit.Thorough() {
			addPool("doerner-sign", 2, 1, 1)
			addPool("cmp-sign", 2, 1, 2)
			addPool("cmp-presign", 2, 1, 2)
			addPool("cmp-keygen", 2, 1, 2)
			addPool("cmp-refresh", 2, 1, 2)
		}
	}
	if check == "C03" || check == "C04" {
		// a dealer that deviates from its first instruction (consistent wrong-degree / non-zero-constant polynomial);
		// three parties and t = 1, because with t = n-1 a wrong degree cannot be observed
		l = append(l, scenario{Name: "cmp-keygen/n3/t1/dealer-from-start", Proto: "cmp-keygen", N: 3, T: 1, Cost: 2, StartOnly: true, Whole: true})
		l = append(l, scenario{Name: "cmp-refresh/n3/t1/dealer-from-start", Proto: "cmp-refresh", N: 3, T: 1, Cost: 2, StartOnly: true, Whole: true})
		// the secret share a dealer hands out in the last message round of the CMP key generation, from a dealer that is
		// NOT the last of the victim's peers (three parties; the full three-party catalogue is in the thorough tier)
		l = append(l, scenario{Name: "cmp-keygen/n3/t1/share", Proto: "cmp-keygen", N: 3, T: 1, Cost: 2, OnlyPaths: []string{"/Share"}, OnlyOps: []string{"int-plus1"}, Whole: true})
	}
	if check == "C03" || check == "C04" {
		// the chain-key contribution a party reveals in round 3 of the CMP key generation (three parties: shown differently
		// to the two honest ones), and a second valid commitment shown to one recipient only and opened consistently
		l = append(l, scenario{Name: "cmp-keygen/n3/t1/chain-key", Proto: "cmp-keygen", N: 3, T: 1, Cost: 2, OnlyPaths: []string{"/C"}, Whole: true})
	}
	// CMP key generation: a second valid commitment shown to one recipient only and opened consistently; a commitment to a
	// malformed rid / chain-key contribution opened consistently to everybody
	// the same committed malformed values in a refresh of a key whose configurations carry no chain key
	l = append(l, scenario{Name: "cmp-refresh/n3/t1/no-chain-key/committed-values", Proto: "cmp-refresh", N: 3, T: 1, Cost: 2, CommittedOnly: true, Whole: true, NoChainKey: true})
	l = append(l, scenario{Name: "cmp-keygen/n3/t1/second-commitment", Proto: "cmp-keygen", N: 3, T: 1, Cost: 2, CommittedOnly: true, Whole: true})
	if check == "C03" || check == "C04" {
		// the openings of the last round of the offline presigning (presignature id and its decommitment, S share)
		l = append(l, scenario{Name: "cmp-presign/n2/t1/last-round-openings", Proto: "cmp-presign", N: 2, T: 1, Cost: 2,
			OnlyPaths: []string{"/PresignatureID", "/DecommitmentID", "/S"}, Whole: true})
		// ... and with three signers, where the last (never echoed) broadcast can be shown differently to the two honest ones
		l = append(l, scenario{Name: "cmp-presign/n3/t1/last-round-id", Proto: "cmp-presign", N: 3, T: 1, Cost: 2,
			OnlyPaths: []string{"/PresignatureID", "/DecommitmentID"}})
	}
	if check == "C03" || check == "C04" {
		// the signature share of the online phase on a digest LONGER than a scalar (64 bytes, what the package's own tests sign)
		l = append(l, scenario{Name: "cmp-presign-online/n2/t1/digest64", Proto: "cmp-presign-online", N: 2, T: 1, Cost: 1, MsgLen: 64, OnlyPaths: []string{"/Sigma"}, Whole: true})
	}
	// a signer that commits to a malformed presignature-id contribution in round 2 and opens that commitment in round 7
	l = append(l, scenario{Name: "cmp-presign/n2/t1/committed-values", Proto: "cmp-presign", N: 2, T: 1, Cost: 2, CommittedOnly: true, Whole: true})
	add("cmp-sign", 2, 1, 2) // the largest quick-tier catalogue comes last: an internal deadline, if ever hit, cuts only it
	if vkit.Thorough() {
		if check == "C04" {
			add("cmp-presign", 3, 1, 2) // n=3: relayed abort notices exist
			l = append(l, scenario{Name: "cmp-presign-full/n3/t1/state-level", Proto: "cmp-presign-full", N: 3, T: 1, Cost: 2, StateOnly: true})
			l = append(l, scenario{Name: "cmp-presign-online/n3/t1/state-level", Proto: "cmp-presign-online", N: 3, T: 1, Cost: 2, StateOnly: true})
		}
		add("cmp-presign", 2, 1, 2)
		add("cmp-keygen", 2, 1, 2)
		add("cmp-keygen", 3, 1, 2)
		add("cmp-refresh", 2, 1, 2)
		add("cmp-presign-full", 2, 1, 2)
		add("cmp-sign", 3, 1, 2)
		add("cmp-presign", 3, 1, 2)
		add("frost-keygen", 4, 2, 0)
		add("frost-sign", 4, 2, 0)
	}
	// order: the cheap protocols first (their complete catalogues take seconds), then the small targeted scenarios of
	// the expensive protocols, then the large catalogues of the expensive ones - an internal deadline, if ever reached
	// (machine under load), cuts the bulk and neither the cheap protocols nor the targeted cases
	rank := func(sc scenario) int {
		switch {
		case sc.Cost < 1:
			return 0
		case sc.StartOnly || sc.CommittedOnly || sc.StateOnly || len(sc.OnlyPaths) > 0 || len(sc.OnlyOps) > 0:
			return 1
		case sc.Cost < 2:
			return 2
		}
		return 3
	}
	sort.SliceStable(l, func(a, b int) bool { return rank(l[a]) < rank(l[b]) })
	return l
}

// kase is one fault of one scenario with one deviating party.
type kase struct {
	Scenario scenario    `json:"scenario"`
	Deviator party.ID    `json:"deviator"`
	Slot     faults.Slot `json:"slot"`
	Path     string      `json:"path"`
	Op       string      `json:"op"`
	Menu     string      `json:"menu"`
	fault    *faults.Fault
}

func (k kase) key() string {
	return fmt.Sprintf("%s|%s|%s|%s|%s", k.Scenario.Name, k.Deviator, k.Slot, k.Path, k.Op)
}

// class is the stable part of a case: protocol, message slot shape, field path shape, operator.
func (k kase) class(w *world) string {
	if k.Menu == "state" {
		return fmt.Sprintf("%s|state|%s|%s", k.Scenario.Proto, k.Path, k.Op)
	}
	if k.Menu == "coordinated" {
		return fmt.Sprintf("%s|coordinated|%s|%s", k.Scenario.Proto, k.Path, k.Op)
	}
	kind := "p2p"
	if k.Slot.Broadcast {
		kind = "bcast"
	}
	return fmt.Sprintf("%s|r%d-%s|%s|%s", k.Scenario.Proto, k.Slot.Round, kind, faults.PathClass(k.Path, w.ids), k.Op)
}

func main() {
	flag.Parse()
	check := strings.ToUpper(*checkFlag)
	res := vkit.Init(check)
	drv.Install()
	drv.CallTimeout = 90 * time.Second
	switch check {
	case "C03":
		res.Rule = "one case = one fresh deterministic session in which one message of one deviating party is replaced by a well-formed alteration (every field path of its CBOR tree x semantic operator menu, plus whole-message substitutions); distinct = distinct (protocol, deviator position, message slot, field path, operator)"
	case "C04":
		res.Rule = "the C03 fault catalogue (semantic alterations, every deviator position, n=3 where relays exist) judged for blame: culprits of self-detected errors are a subset of {deviator}, relay errors name the relaying peer only, the direct victim of an undecodable/unverifiable message names its sender"
	case "C05":
		res.Rule = "one case = one fresh session in which one malformed message (structural operator at one field path, or one header malformation) is presented to a victim before the honest one; plus the decoder seam: every prefix, byte edits at every offset and all byte strings of length <=2 at every decoder"
	}
	res.Assumptions = []string{"single deviation per session; in-order delivery (delivery orders are C07's subject)", "pool=nil (all processing on the calling goroutine) except in the scenarios named .../pool2, which run with a 2-worker pool"}

	var dr struct {
		Decoder  string `json:"decoder"`
		InputHex string `json:"input_hex"`
	}
	if vkit.LoadReplay(&dr) && dr.Decoder != "" {
		ds, err := decoders()
		if err != nil {
			fmt.Println(err)
			os.Exit(2)
		}
		in, _ := hex.DecodeString(dr.InputHex)
		for _, d := range ds {
			if d.name == dr.Decoder {
				panicked, msg, frame := vkit.Try(func() { fmt.Println("decode returned:", d.decode(in)) })
				if panicked {
					fmt.Println("VIOLATION decoder panics:", msg, "in", frame)
					os.Exit(1)
				}
				return
			}
		}
		os.Exit(2)
	}
	var rp kase
	if vkit.LoadReplay(&rp) {
		w, err := build(rp.Scenario)
		if err != nil {
			fmt.Println(err)
			os.Exit(2)
		}
		for _, k := range catalogue(w, check) {
			if k.key() == rp.key() {
				vs := runCase(w, k, check, true)
				for _, v := range vs {
					fmt.Println("VIOLATION", v[0], "\n ", v[1])
				}
				if len(vs) > 0 {
					os.Exit(1)
				}
				return
			}
		}
		fmt.Println("case not found in the catalogue:", rp.key())
		os.Exit(2)
	}

	deadline := vkit.Deadline(300*time.Second, 40*time.Minute)
	n := 0   // global number of the case among the partitioned scenarios (the same in every process)
	seq := 0 // number of the case among those THIS process runs (progress / resume)
	tIdx := 0
	outcomes := map[string]int{}
	perScenario := map[string]int{}
	for _, sc := range scenarios(check) {
		if sc.Whole {
			owner := tIdx % vkit.ShardN()
			tIdx++
			if owner != vkit.ShardI() {
				continue
			}
		}
		if !vkit.Want(sc.Name) {
			continue
		}
		tSc := time.Now()
		w, err := build(sc)
		tBuild := time.Since(tSc)
		if err != nil {
			res.Violate("honest-run-fails|"+sc.Proto, err.Error(), map[string]interface{}{"scenario": sc})
			continue
		}
		cat := catalogue(w, check)
		for _, k := range cat {
			if !sc.Whole {
				n++
				if !vkit.Mine(n) {
					continue
				}
			}
			seq++
			if !deadline.IsZero() && time.Now().After(deadline) {
				res.Exhaustive = false
				res.Note(fmt.Sprintf("internal deadline reached in scenario %s: the remaining cases of this shard were not run", sc.Name))
				break
			}
			if seq <= *vkit.ResumeAfter {
				continue
			}
			res.Progress(seq, "process-death|"+k.class(w), k)
			vs := runCase(w, k, check, os.Getenv("FCHECK_VERBOSE") != "")
			res.Case(k.key())
			perScenario[sc.Name]++
			for _, v := range vs {
				res.Violate(v[0], v[1], k)
			}
			if len(vs) == 0 {
				outcomes[lastOutcome]++
			} else {
				outcomes["violation"]++
			}
			if seq%53 == 0 {
				res.Sample(map[string]interface{}{"scenario": sc.Name, "deviator": k.Deviator, "slot": k.Slot.String(), "path": k.Path, "op": k.Op, "outcome": lastOutcome})
			}
		}
		fmt.Fprintf(os.Stderr, "%-28s catalogue=%d build=%.1fs total=%.1fs shard=%d\n", sc.Name, len(cat), tBuild.Seconds(), time.Since(tSc).Seconds(), vkit.ShardI())
	}
	if check == "C05" && vkit.ShardI() == 0 {
		decoderSeam(res)
	}
	keys := []string{}
	for k := range outcomes {
		keys = append(keys, k)
	}
	sort.Strings(keys)
	oc := map[string]interface{}{}
	for _, k := range keys {
		oc[k] = outcomes[k]
	}
	res.Extra["outcome_classes"] = oc
	res.Extra["cases_per_scenario"] = perScenario
	res.Finish()
}
