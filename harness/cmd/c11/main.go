// C11 — signing nonces never repeat across contexts, even if the RNG fails.
// Engine D (lattice): the full grid of signing contexts {message} x {signer set} x {session id}
// x {FROST, FROST-Taproot} x {secret share} is started on the repository's real sign handler
// under every RNG mode (constant zeros, constant 0xAA, a short repeating pattern, the same
// seeded stream restarted for every attempt, honest); the nonce commitments (D_i, E_i) are read
// from the first outgoing broadcast and compared for EVERY pair of contexts.  The same is done
// for stand-alone BIP-340 signing (taproot.SecretKey.Sign) on R.x.
package main

import (
	"bytes"
	"crypto/sha256"
	"encoding/hex"
	"fmt"
	"io"
	"os"
	"sort"
	"strings"

	"github.com/fxamacker/cbor/v2"
	"github.com/taurusgroup/multi-party-sig/internal/zzverif/drv"
	"github.com/taurusgroup/multi-party-sig/internal/zzverif/ref"
	"github.com/taurusgroup/multi-party-sig/internal/zzverif/sess"
	"github.com/taurusgroup/multi-party-sig/internal/zzverif/vkit"
	"github.com/taurusgroup/multi-party-sig/pkg/math/curve"
	"github.com/taurusgroup/multi-party-sig/pkg/party"
	"github.com/taurusgroup/multi-party-sig/pkg/protocol"
	"github.com/taurusgroup/multi-party-sig/pkg/taproot"
	"github.com/taurusgroup/multi-party-sig/protocols/frost"
)

// ---- the context grid -----------------------------------------------------------------------------

// Ctx is one signing context of party "a".  Every field is an index / literal so that a replay
// file identifies the context completely (key material is re-derived from the seed).
type Ctx struct {
	Msg     int    `json:"msg"`     // index into messages()
	Signers string `json:"signers"` // "ab", "ac", "abc"
	Session string `json:"session"` // "nil", "1", "2"
	Variant string `json:"variant"` // "frost", "taproot"
	Share   int    `json:"share"`   // 0/1: which of the two independent key generations; 2: key 0 after a refresh (same public key and ids, new share); 3: key 1 with the chain key absent
}

func (c Ctx) String() string {
	return fmt.Sprintf("msg=%d signers=%s session=%s variant=%s share=%d", c.Msg, c.Signers, c.Session, c.Variant, c.Share)
}

// diff lists the dimensions in which two contexts differ, sorted.
func diff(a, b Ctx) []string {
	var d []string
	if a.Msg != b.Msg {
		d = append(d, "message")
	}
	if a.Session != b.Session {
		d = append(d, "session")
	}
	if shareValue(a.Share) != shareValue(b.Share) {
		d = append(d, "share")
	}
	if a.Signers != b.Signers {
		d = append(d, "signers")
	}
	if a.Variant != b.Variant {
		d = append(d, "variant")
	}
	sort.Strings(d)
	return d
}

// shareValue: key material 3 holds the SAME secret share as key material 1 (only its chain key is absent),
// so the two do not differ in any dimension the property names.
func shareValue(sh int) int {
	if sh == 3 {
		return 1
	}
	return sh
}

func variantOf(a, b Ctx) string {
	if a.Variant == b.Variant {
		return a.Variant
	}
	return "frost+taproot"
}

// messages: 0 and 1 are unrelated 32-byte digests (the main grid); 2..4 stand in a prefix
// relation with message 0 (m0||00, m0||AA — the byte a constant RNG would supply next — and the
// first half of m0): the extension grid.
func messages(seed int64) [][]byte {
	g := drv.NewDRBG("c11-messages", seed)
	m0 := make([]byte, 32)
	m1 := make([]byte, 32)
	g.Read(m0)
	g.Read(m1)
	return [][]byte{
		m0, m1,
		append(append([]byte{}, m0...), 0x00),
		append(append([]byte{}, m0...), 0xAA),
		append([]byte{}, m0[:16]...),
		// boundary-shift partners of m0: with session ids "1" / "1"+m0[0] / none, the concatenations
		// session||message of (nil, '1'||m0), ("1", m0) and ("1"+m0[0], m0[1:]) are the same bytes
		append([]byte{}, m0[1:]...),
		append([]byte{'1'}, m0...),
	}
}

// shiftByte is the first byte of message 0 (session id "1+" = "1" followed by it).
var shiftByte byte

var signerSets = map[string][]party.ID{"ab": {"a", "b"}, "ac": {"a", "c"}, "abc": {"a", "b", "c"}}

func sessionBytes(s string) []byte {
	if s == "nil" {
		return nil
	}
	if s == "1+" {
		return []byte{'1', shiftByte}
	}
	return []byte(s)
}

func grid(msgs []int) []Ctx {
	var out []Ctx
	for _, m := range msgs {
		for _, s := range []string{"ab", "ac", "abc"} {
			for _, sid := range []string{"nil", "1", "2"} {
				for _, v := range []string{"frost", "taproot"} {
					for sh := 0; sh < 4; sh++ {
						out = append(out, Ctx{Msg: m, Signers: s, Session: sid, Variant: v, Share: sh})
					}
				}
			}
		}
	}
	return out
}

// ---- RNG modes --------------------------------------------------------------------------------------

type patternReader struct {
	pat []byte
	pos int
}

func (p *patternReader) Read(b []byte) (int, error) {
	for i := range b {
		b[i] = p.pat[p.pos%len(p.pat)]
		p.pos++
	}
	return len(b), nil
}

var failingModes = []string{"zeros", "aa", "period7", "restart"}

// reader returns the random source of one signing attempt.  For the failing modes it does not
// depend on the context or the attempt; for "honest" every attempt has its own seeded stream.
func reader(mode string, seed int64, ctx string, attempt int) io.Reader {
	switch mode {
	case "zeros":
		d := drv.NewDRBG("x", seed)
		d.Mode = 1
		return d
	case "aa":
		d := drv.NewDRBG("x", seed)
		d.Mode = 2
		return d
	case "period7":
		return &patternReader{pat: []byte{1, 2, 3, 4, 5, 6, 7}}
	case "restart":
		return drv.NewDRBG("c11-restarted-stream", seed)
	case "honest":
		return drv.NewDRBG(fmt.Sprintf("c11-honest|%s|%d", ctx, attempt), seed)
	}
	panic("unknown rng mode " + mode)
}

// ---- key material -------------------------------------------------------------------------------------

type keys struct {
	tap   [4]*frost.TaprootConfig // party a's material: two independent taproot key generations, and [2] = key 0 after a refresh (same public key, new share)
	plain [4]*frost.Config        // the same sharings as plain FROST configs (what SignTaproot builds internally)
}

var allIDs = []party.ID{"a", "b", "c"}

func buildKeys(seed int64) (*keys, error) {
	k := &keys{}
	for i := 0; i < 3; i++ {
		var o *sess.Outcome
		if i < 2 {
			o = sess.Run(sess.FrostKeygen(allIDs, 1, true), seed, fmt.Sprintf("c11-keygen-%d", i))
		} else {
			// the refreshed epoch of key 0: a second key generation whose results are refreshed, so that the
			// objects of k.tap[0] are not the ones handed to the refresh
			o0 := sess.Run(sess.FrostKeygen(allIDs, 1, true), seed, "c11-keygen-0")
			cfgs := map[party.ID]*frost.TaprootConfig{}
			for _, id := range allIDs {
				c, ok := o0.Results[id].(*frost.TaprootConfig)
				if !ok {
					return nil, fmt.Errorf("taproot keygen for the refresh failed: %v %s", o0.Errors, o0.Panic)
				}
				cfgs[id] = c
			}
			o = sess.Run(sess.FrostRefreshTaproot(cfgs, allIDs), seed, "c11-refresh-0")
		}
		c, ok := o.Results["a"].(*frost.TaprootConfig)
		if !ok {
			return nil, fmt.Errorf("taproot keygen %d failed: start=%v err=%v panic=%s stuck=%v", i, o.StartErr, o.Errors, o.Panic, o.Stuck)
		}
		k.tap[i] = c
		pk, err := curve.Secp256k1{}.LiftX(c.PublicKey)
		if err != nil {
			return nil, fmt.Errorf("taproot keygen %d: public key does not lift: %v", i, err)
		}
		vs := map[party.ID]curve.Point{}
		for id, p := range c.VerificationShares {
			vs[id] = p
		}
		k.plain[i] = &frost.Config{ID: c.ID, Threshold: c.Threshold, PrivateShare: c.PrivateShare, PublicKey: pk,
			ChainKey: c.ChainKey, VerificationShares: party.NewPointMap(vs)}
	}
	s0, _ := k.tap[0].PrivateShare.MarshalBinary()
	s1, _ := k.tap[1].PrivateShare.MarshalBinary()
	if bytes.Equal(s0, s1) {
		return nil, fmt.Errorf("the two key generations gave party a the same share")
	}
	// [3] = key 1 WITHOUT a chain key (dealer-made or imported material: the decoders and Validate accept it);
	// whatever the nonce derivation hashes must not be skipped because an optional value is absent
	t3 := *k.tap[1]
	t3.ChainKey = nil
	k.tap[3] = &t3
	p3 := *k.plain[1]
	p3.ChainKey = nil
	k.plain[3] = &p3
	s2, _ := k.tap[2].PrivateShare.MarshalBinary()
	if bytes.Equal(s0, s2) || !bytes.Equal(k.tap[0].PublicKey, k.tap[2].PublicKey) {
		return nil, fmt.Errorf("the refreshed epoch of key 0 is not (same public key, new share)")
	}
	return k, nil
}

// ---- one signing attempt ----------------------------------------------------------------------------

// Commit holds the x coordinates of the two published nonce commitments (a nonce and its
// negation have the same x; both are equally fatal, so x is what is compared).
type Commit struct {
	D, E string
}

func startFunc(k *keys, msgs [][]byte, c Ctx) protocol.StartFunc {
	signers := signerSets[c.Signers]
	if c.Variant == "taproot" {
		return frost.SignTaproot(k.tap[c.Share], signers, msgs[c.Msg])
	}
	return frost.Sign(k.plain[c.Share], signers, msgs[c.Msg])
}

// attempt starts party a's sign handler for context c under rng and reads (D_i, E_i) from the
// CBOR body of its first outgoing message, the round-2 broadcast.
func attempt(k *keys, msgs [][]byte, c Ctx, rng io.Reader) (Commit, error) {
	return attemptWith(startFunc(k, msgs, c), c, rng)
}

// attemptWith is attempt with a start function supplied by the caller, so that ONE start function
// value can be used for several handlers (a retry of a failed session, or a start function kept
// around by the application): whatever the library samples must be sampled per session.
func attemptWith(sf protocol.StartFunc, c Ctx, rng io.Reader) (Commit, error) {
	p, err := drv.NewParty("a", rng, func() (protocol.Handler, error) {
		return protocol.NewMultiHandler(sf, sessionBytes(c.Session))
	})
	if err != nil {
		return Commit{}, fmt.Errorf("handler construction refused: %v", err)
	}
	if p.Panic != "" {
		return Commit{}, fmt.Errorf("handler construction panicked: %s in %s", p.Panic, p.PanicFrame)
	}
	if p.Hung != "" {
		return Commit{}, fmt.Errorf("handler construction did not return")
	}
	if len(p.Sent) == 0 {
		return Commit{}, fmt.Errorf("no outgoing message after construction")
	}
	m := p.Sent[0]
	if !m.Broadcast || m.RoundNumber != 2 || m.From != "a" {
		return Commit{}, fmt.Errorf("first outgoing message is %s, expected a's round-2 broadcast", drv.Short(m))
	}
	var body map[string]interface{}
	if err := cbor.Unmarshal(m.Data, &body); err != nil {
		return Commit{}, fmt.Errorf("round-2 broadcast body does not decode: %v", err)
	}
	get := func(name string) (string, error) {
		b, ok := body[name].([]byte)
		if !ok {
			return "", fmt.Errorf("round-2 broadcast has no byte-string field %s (fields: %v)", name, fieldNames(body))
		}
		pt, err := ref.ParseCompressed(b)
		if err != nil {
			return "", fmt.Errorf("%s is not a valid compressed point: %v", name, err)
		}
		if pt.Inf {
			return "", fmt.Errorf("%s is the identity", name)
		}
		return hex.EncodeToString(pt.XBytes()), nil
	}
	var out Commit
	if out.D, err = get("D_i"); err != nil {
		return out, err
	}
	if out.E, err = get("E_i"); err != nil {
		return out, err
	}
	return out, nil
}

func fieldNames(m map[string]interface{}) []string {
	var s []string
	for k := range m {
		s = append(s, k)
	}
	sort.Strings(s)
	return s
}

// collide reports which commitments two attempts share.
func collide(a, b Commit) []string {
	var c []string
	if a.D == b.D {
		c = append(c, "D=D'")
	}
	if a.E == b.E {
		c = append(c, "E=E'")
	}
	if a.D == b.E {
		c = append(c, "D=E'")
	}
	if a.E == b.D {
		c = append(c, "E=D'")
	}
	return c
}

// ---- replay descriptor --------------------------------------------------------------------------------

type replay struct {
	Kind string `json:"kind"` // "frost-pair", "frost-same", "frost-self", "bip340-pair", "bip340-same"
	Mode string `json:"mode"`
	A    Ctx    `json:"a"`
	B    Ctx    `json:"b"`
	SA   SCtx   `json:"sa"`
	SB   SCtx   `json:"sb"`
}

// judgeFrostPair evaluates one pair of FROST contexts (A == B: two attempts on the same context).
// sameStartFunc starts two sessions of context c from ONE start function value, each under its
// own honest stream (the start function itself is created under a third one).
func sameStartFunc(k *keys, msgs [][]byte, seed int64, mode string, c Ctx) (r1, r2 Commit, err error) {
	drv.Use(reader(mode, seed, c.String(), 2))
	sf := startFunc(k, msgs, c)
	if r1, err = attemptWith(sf, c, reader(mode, seed, c.String(), 3)); err != nil {
		return
	}
	r2, err = attemptWith(sf, c, reader(mode, seed, c.String(), 4))
	return
}

func judgeFrostPair(k *keys, msgs [][]byte, seed int64, mode string, a, b Ctx, ca, cb *Commit) (sig, detail string) {
	var x, y Commit
	var err error
	if ca != nil && cb != nil {
		x, y = *ca, *cb
	} else {
		if x, err = attempt(k, msgs, a, reader(mode, seed, a.String(), 0)); err != nil {
			return "harness", err.Error()
		}
		att := 0
		if a == b {
			att = 1
		}
		if y, err = attempt(k, msgs, b, reader(mode, seed, b.String(), att)); err != nil {
			return "harness", err.Error()
		}
	}
	hits := collide(x, y)
	if len(hits) == 0 {
		return "", ""
	}
	if a == b {
		return fmt.Sprintf("nonce-repeat|%s|same-context|rng=%s", a.Variant, mode),
			fmt.Sprintf("two signing attempts on the identical context [%s] published the same nonce commitment (%s) although the random source was honest (differently seeded per attempt)\nD=%s E=%s", a, strings.Join(hits, ","), x.D, x.E)
	}
	return fmt.Sprintf("nonce-reuse|%s|differs-only-in:%s|rng=%s", variantOf(a, b), strings.Join(diff(a, b), "+"), mode),
		fmt.Sprintf("contexts [%s] and [%s] published a common nonce commitment (%s) under rng mode %s\n first:  D=%s E=%s\n second: D=%s E=%s", a, b, strings.Join(hits, ","), mode, x.D, x.E, y.D, y.E)
}

func main() {
	res := vkit.Init("C11")
	res.Rule = "FROST: contexts of signer a = {5 messages: two unrelated 32-byte digests (main grid) + m0||00, m0||AA, m0[:16] (prefix extension)} x {signer sets ab, ac, abc of a 3-party t=1 key} x {session id nil,\"1\",\"2\"} x {FROST, FROST-Taproot} x {2 shares from two independent key generations} " +
		"= 72 main + 108 extension contexts; each is started on the real sign handler under rng modes zeros / 0xAA / 7-byte repeating pattern / same seeded stream restarted / honest, and (D_i,E_i) is read from the first outgoing broadcast. " +
		"A case is one unordered PAIR of contexts under one rng mode (all pairs are compared: D,E of one against D,E of the other, by x coordinate), plus per context D != E, plus per context two attempts under the honest rng (must differ) and under each failing rng (must coincide: shows the seam is in force). " +
		"Stand-alone taproot.SecretKey.Sign: {2 keys} x {messages of 32, 33 (m||00), 1 bytes} x reader {nil = internal counter, zeros, 0xAA, honest}: R.x of every pair of (key,message) contexts, and two calls on the same context (nil reader and honest reader must differ, constant reader must coincide). Every pair is non-trivial and distinct by (mode, context pair)."
	res.Assumptions = []string{
		"a failing random source is modelled at the library's single seam crypto/rand.Reader (FROST) or the reader argument (taproot.Sign): constant zeros, constant 0xAA, a 7-byte repeating pattern, and one seeded stream restarted for every attempt",
		"commitments are compared by x coordinate (a nonce and its negation count as the same nonce)",
		"the commitments are taken from the CBOR body of the message the real MultiHandler emits (fields D_i, E_i of the round-2 broadcast) and parsed with the independent reference decoder",
		"contexts that differ only in the variant share the same secret share: the plain FROST config is the Taproot key generation's sharing with the lifted public key (what frost.SignTaproot builds internally)",
	}
	drv.Install()
	seed := *vkit.Seed
	msgs := messages(seed)

	var rp replay
	isReplay := vkit.LoadReplay(&rp)

	k, err := buildKeys(seed)
	if err != nil {
		if isReplay {
			fmt.Println("harness:", err)
			os.Exit(2)
		}
		res.Hard(err.Error())
		res.Finish()
		return
	}

	if isReplay {
		var sig, detail string
		switch rp.Kind {
		case "frost-pair", "frost-same":
			fmt.Printf("replay %s mode=%s\n A: %s\n B: %s\n", rp.Kind, rp.Mode, rp.A, rp.B)
			sig, detail = judgeFrostPair(k, msgs, seed, rp.Mode, rp.A, rp.B, nil, nil)
		case "frost-same-startfunc":
			r1, r2, err := sameStartFunc(k, msgs, seed, rp.Mode, rp.A)
			if err != nil {
				sig, detail = "harness", err.Error()
			} else if sig, detail = judgeFrostPair(k, msgs, seed, rp.Mode, rp.A, rp.A, &r1, &r2); sig != "" {
				sig += "|start-function-reused"
			}
		case "frost-long":
			sig, detail = longRunning(k, msgs, seed, rp.A, 2100)
		case "frost-self":
			c, err := attempt(k, msgs, rp.A, reader(rp.Mode, seed, rp.A.String(), 0))
			fmt.Printf("replay frost-self mode=%s A: %s -> %+v %v\n", rp.Mode, rp.A, c, err)
			if err == nil && c.D == c.E {
				sig, detail = fmt.Sprintf("nonce-reuse|%s|D=E|rng=%s", rp.A.Variant, rp.Mode), "D_i equals E_i"
			}
		case "bip340-pair", "bip340-same":
			fmt.Printf("replay %s mode=%s\n A: %+v\n B: %+v\n", rp.Kind, rp.Mode, rp.SA, rp.SB)
			sig, detail = judgeStandalonePair(seed, rp.Mode, rp.SA, rp.SB)
		default:
			fmt.Println("unknown replay kind", rp.Kind)
			os.Exit(2)
		}
		if sig == "harness" {
			fmt.Println("harness:", detail)
			os.Exit(2)
		}
		if sig != "" {
			fmt.Printf("VIOLATION %s\n  %s\n", sig, detail)
			os.Exit(1)
		}
		fmt.Println("no violation")
		return
	}

	// ---- FROST ------------------------------------------------------------------------------------------
	shiftByte = msgs[0][0]
	ctxs := append(grid([]int{0, 1}), grid([]int{2, 3, 4})...)
	// session/message boundary shifts (an unframed concatenation of the two would make these collide)
	for _, c := range []Ctx{{Msg: 6, Session: "nil"}, {Msg: 0, Session: "1+"}, {Msg: 5, Session: "1+"}, {Msg: 5, Session: "1"}, {Msg: 6, Session: "1"}} {
		for _, v := range []string{"frost", "taproot"} {
			c.Signers, c.Variant, c.Share = "ab", v, 0
			ctxs = append(ctxs, c)
		}
	}
	nMain := len(grid([]int{0, 1}))
	starts, pairs := 0, 0
	modes := append(append([]string{}, failingModes...), "honest")
	for _, mode := range modes {
		if !vkit.Want("frost-" + mode) {
			continue
		}
		com := make([]Commit, len(ctxs))
		ok := true
		for i, c := range ctxs {
			cm, err := attempt(k, msgs, c, reader(mode, seed, c.String(), 0))
			starts++
			if err != nil {
				res.Hard(fmt.Sprintf("frost %s [%s]: %v", mode, c, err))
				ok = false
				break
			}
			com[i] = cm
			// the two nonces of one attempt
			res.Case(fmt.Sprintf("self|%s|%d", mode, i))
			if cm.D == cm.E {
				res.Violate(fmt.Sprintf("nonce-reuse|%s|D=E|rng=%s", c.Variant, mode), fmt.Sprintf("context [%s]: D_i and E_i have the same x coordinate %s", c, cm.D),
					replay{Kind: "frost-self", Mode: mode, A: c})
			}
			// a second attempt on the same context
			cm2, err := attempt(k, msgs, c, reader(mode, seed, c.String(), 1))
			starts++
			if err != nil {
				res.Hard(fmt.Sprintf("frost %s [%s] second attempt: %v", mode, c, err))
				ok = false
				break
			}
			res.Case(fmt.Sprintf("same|%s|%d", mode, i))
			if mode == "honest" {
				if sig, det := judgeFrostPair(k, msgs, seed, mode, c, c, &cm, &cm2); sig != "" {
					res.Violate(sig, det, replay{Kind: "frost-same", Mode: mode, A: c, B: c})
				}
			} else if cm != cm2 {
				res.Hard(fmt.Sprintf("rng mode %s is not in force: two attempts on context [%s] under the same random bytes published different commitments (the library draws randomness the harness does not control)", mode, c))
				ok = false
				break
			}
			if mode == "honest" {
				// two sessions started from the SAME start function value (the start function itself is
				// created under the honest stream too: anything it samples early is then shared)
				r1, r2, err := sameStartFunc(k, msgs, seed, mode, c)
				starts += 2
				if err != nil {
					res.Hard(fmt.Sprintf("frost %s [%s] re-used start function: %v", mode, c, err))
					ok = false
					break
				}
				res.Case(fmt.Sprintf("same-startfunc|%s|%d", mode, i))
				if sig, det := judgeFrostPair(k, msgs, seed, mode, c, c, &r1, &r2); sig != "" {
					res.Violate(sig+"|start-function-reused", det+"\n(both sessions were started from one start function value)", replay{Kind: "frost-same-startfunc", Mode: mode, A: c, B: c})
				}
			}
			if i < 2 {
				res.Sample(map[string]interface{}{"kind": "frost", "rng": mode, "context": c, "D.x": cm.D, "E.x": cm.E, "second_attempt_equal": cm == cm2})
			}
		}
		if !ok {
			continue
		}
		for i := range ctxs {
			for j := i + 1; j < len(ctxs); j++ {
				if len(diff(ctxs[i], ctxs[j])) == 0 {
					continue // the same context twice (key material 1 and its copy without a chain key)
				}
				pairs++
				res.Case(fmt.Sprintf("pair|%s|%d|%d", mode, i, j))
				if sig, det := judgeFrostPair(k, msgs, seed, mode, ctxs[i], ctxs[j], &com[i], &com[j]); sig != "" {
					res.Violate(sig, det, replay{Kind: "frost-pair", Mode: mode, A: ctxs[i], B: ctxs[j]})
				}
			}
		}
	}
	res.Extra["frost_contexts_main"] = nMain
	res.Extra["frost_contexts_prefix_extension"] = len(ctxs) - nMain
	res.Extra["frost_handler_starts"] = starts
	res.Extra["frost_context_pairs_compared"] = pairs

	// ---- a long-running signer ------------------------------------------------------------------------
	// One process makes the SAME signing attempt (share, signers, session id, message) 2100 times, each
	// under its own honest stream: every attempt must publish commitments nobody published before.
	// (Anything process-wide between the random source and the nonce - a pool, a cache, a counter -
	// shows only after many requests; 2100 covers pages of up to 64 KiB served 32 bytes at a time.)
	if vkit.ShardI() == 0 {
		for _, v := range []string{"frost", "taproot"} {
			c := Ctx{Msg: 0, Session: "1", Signers: "ab", Variant: v, Share: 0}
			sig, detail := longRunning(k, msgs, seed, c, 2100)
			if sig == "harness" {
				res.Hard(detail)
			} else if sig != "" {
				res.Violate(sig, detail, replay{Kind: "frost-long", Mode: "honest", A: c})
			}
			res.Case("long-running|" + v)
			res.Extra["long_running_attempts_"+v] = 2100
		}
	}

	// ---- stand-alone BIP-340 ---------------------------------------------------------------------------
	sp, sc := standalone(res, seed)
	res.Extra["bip340_sign_calls"] = sc
	res.Extra["bip340_context_pairs_compared"] = sp

	fmt.Fprintf(os.Stderr, "C11: %d frost contexts (%d main), %d handler starts, %d frost pairs, %d bip340 pairs, %d violation signatures\n",
		len(ctxs), nMain, starts, pairs, sp, len(res.Violations))
	res.Finish()
}

// longRunning makes the same signing attempt n times in this process, each under its own honest stream.
func longRunning(k *keys, msgs [][]byte, seed int64, c Ctx, n int) (sig, detail string) {
	seen := map[string]int{}
	for i := 0; i < n; i++ {
		r, err := attempt(k, msgs, c, reader("honest", seed, c.String()+"|long-running", 100+i))
		if err != nil {
			return "harness", fmt.Sprintf("long-running signer, attempt %d: %v", i+1, err)
		}
		for _, x := range []string{r.D, r.E} {
			if j, ok := seen[x]; ok {
				return fmt.Sprintf("nonce-reuse|%s|same-context-honest-rng|long-running-signer", c.Variant),
					fmt.Sprintf("%s, context %s, every attempt under its own honest random stream: attempt %d publishes a commitment that attempt %d had published (x = %s…)", c.Variant, c, i+1, j, x[:16])
			}
		}
		seen[r.D], seen[r.E] = i+1, i+1
	}
	return "", ""
}

// ---- stand-alone taproot.SecretKey.Sign --------------------------------------------------------------

type SCtx struct {
	Key int `json:"key"`
	Msg int `json:"msg"`
}

func standaloneInputs(seed int64) (keys [][]byte, msgs [][]byte) {
	g := drv.NewDRBG("c11-standalone", seed)
	for len(keys) < 2 {
		sk := make([]byte, 32)
		g.Read(sk)
		if _, err := ref.BIP340PubKey(sk); err == nil {
			keys = append(keys, sk)
		}
	}
	m := make([]byte, 32)
	g.Read(m)
	m33 := append(append([]byte{}, m...), 0x00)
	// ... and the SHA-256 digests of the two messages that are not 32 bytes long: a signer that replaces such a
	// message by its digest somewhere on the way to the nonce would make (X, SHA-256(X)) share a nonce
	h33, h1 := sha256.Sum256(m33), sha256.Sum256([]byte{0x42})
	return keys, [][]byte{m, m33, {0x42}, h33[:], h1[:]}
}

var standaloneModes = []string{"nil", "zeros", "aa", "honest"}

func standaloneReader(mode string, seed int64, c SCtx, attempt int) io.Reader {
	switch mode {
	case "nil":
		return nil
	case "honest":
		return drv.NewDRBG(fmt.Sprintf("c11-standalone-honest|%d|%d|%d", c.Key, c.Msg, attempt), seed)
	}
	return reader(mode, seed, "", 0)
}

func signRx(seed int64, mode string, c SCtx, attempt int) (string, error) {
	keys, msgs := standaloneInputs(seed)
	var sig taproot.Signature
	var err error
	r := standaloneReader(mode, seed, c, attempt)
	if p, msg, frame := vkit.Try(func() { sig, err = taproot.SecretKey(keys[c.Key]).Sign(r, msgs[c.Msg]) }); p {
		return "", fmt.Errorf("taproot Sign panicked: %s in %s", msg, frame)
	}
	if err != nil {
		return "", fmt.Errorf("taproot Sign failed: %v", err)
	}
	if len(sig) != 64 {
		return "", fmt.Errorf("taproot Sign returned %d bytes", len(sig))
	}
	return hex.EncodeToString(sig[:32]), nil
}

func judgeStandalonePair(seed int64, mode string, a, b SCtx) (string, string) {
	x, err := signRx(seed, mode, a, 0)
	if err != nil {
		return "harness", err.Error()
	}
	att := 0
	if a == b {
		att = 1
	}
	y, err := signRx(seed, mode, b, att)
	if err != nil {
		return "harness", err.Error()
	}
	return standaloneVerdict(mode, a, b, x, y)
}

func standaloneVerdict(mode string, a, b SCtx, x, y string) (string, string) {
	if x != y {
		return "", ""
	}
	if a == b {
		return fmt.Sprintf("nonce-repeat|bip340-standalone|same-context|rng=%s", mode),
			fmt.Sprintf("two Sign calls on the identical (key %d, message %d) used the same nonce R.x=%s with reader %s", a.Key, a.Msg, x, mode)
	}
	var d []string
	if a.Key != b.Key {
		d = append(d, "key")
	}
	if a.Msg != b.Msg {
		d = append(d, "message")
	}
	return fmt.Sprintf("nonce-reuse|bip340-standalone|differs-only-in:%s|rng=%s", strings.Join(d, "+"), mode),
		fmt.Sprintf("Sign on (key %d, message %d) and on (key %d, message %d) used the same nonce R.x=%s with reader %s", a.Key, a.Msg, b.Key, b.Msg, x, mode)
}

func standalone(res *vkit.Result, seed int64) (pairs, calls int) {
	var ctxs []SCtx
	for k := 0; k < 2; k++ {
		for m := 0; m < 5; m++ {
			ctxs = append(ctxs, SCtx{k, m})
		}
	}
	for _, mode := range standaloneModes {
		if !vkit.Want("bip340-" + mode) {
			continue
		}
		rx := make([]string, len(ctxs))
		ok := true
		for i, c := range ctxs {
			x, err := signRx(seed, mode, c, 0)
			calls++
			if err != nil {
				res.Hard(fmt.Sprintf("bip340 %s %+v: %v", mode, c, err))
				ok = false
				break
			}
			rx[i] = x
			y, err := signRx(seed, mode, c, 1)
			calls++
			if err != nil {
				res.Hard(fmt.Sprintf("bip340 %s %+v: %v", mode, c, err))
				ok = false
				break
			}
			res.Case(fmt.Sprintf("bip340-same|%s|%d", mode, i))
			if mode == "nil" || mode == "honest" {
				if sig, det := standaloneVerdict(mode, c, c, x, y); sig != "" {
					res.Violate(sig, det, replay{Kind: "bip340-same", Mode: mode, SA: c, SB: c})
				}
			} else if x != y {
				res.Hard(fmt.Sprintf("bip340: reader mode %s is not in force: two calls on %+v with the same constant reader used different nonces", mode, c))
				ok = false
				break
			}
			if i == 0 {
				res.Sample(map[string]interface{}{"kind": "bip340-standalone", "reader": mode, "context": c, "R.x": x, "second_call_equal": x == y})
			}
		}
		if !ok {
			continue
		}
		for i := range ctxs {
			for j := i + 1; j < len(ctxs); j++ {
				pairs++
				res.Case(fmt.Sprintf("bip340-pair|%s|%d|%d", mode, i, j))
				if sig, det := standaloneVerdict(mode, ctxs[i], ctxs[j], rx[i], rx[j]); sig != "" {
					res.Violate(sig, det, replay{Kind: "bip340-pair", Mode: mode, SA: ctxs[i], SB: ctxs[j]})
				}
			}
		}
	}
	return
}
