package main

import (
	"fmt"

	"github.com/taurusgroup/multi-party-sig/internal/zzverif/sess"
	"github.com/taurusgroup/multi-party-sig/pkg/party"
	"github.com/taurusgroup/multi-party-sig/protocols/cmp"
	"github.com/taurusgroup/multi-party-sig/protocols/doerner"
	"github.com/taurusgroup/multi-party-sig/protocols/frost"
)

var keyCache = map[string]interface{}{}

func frostKeys(n int) (map[party.ID]*frost.Config, error) {
	k := fmt.Sprintf("frost%d", n)
	if c, ok := keyCache[k]; ok {
		return c.(map[party.ID]*frost.Config), nil
	}
	o := sess.Run(sess.FrostKeygen(ids[:n], n-1, false), 1, "keys")
	out := map[party.ID]*frost.Config{}
	for _, id := range ids[:n] {
		c, ok := o.Results[id].(*frost.Config)
		if !ok {
			return nil, prereq("frost keygen", o)
		}
		out[id] = c
	}
	keyCache[k] = out
	return out, nil
}

func frostKeysTaproot(n int) (map[party.ID]*frost.TaprootConfig, error) {
	o := sess.Run(sess.FrostKeygen(ids[:n], n-1, true), 1, "keys")
	out := map[party.ID]*frost.TaprootConfig{}
	for _, id := range ids[:n] {
		c, ok := o.Results[id].(*frost.TaprootConfig)
		if !ok {
			return nil, prereq("frost taproot keygen", o)
		}
		out[id] = c
	}
	return out, nil
}

func realSpec(sc scen, sid string) (*sess.Spec, error) {
	pids := ids[:sc.N]
	var sp *sess.Spec
	msg := []byte("0123456789abcdef0123456789abcdef")
	switch sc.Proto {
	case "frost-keygen":
		sp = sess.FrostKeygen(pids, sc.N-1, false)
	case "frost-keygen-taproot":
		sp = sess.FrostKeygen(pids, sc.N-1, true)
	case "frost-sign":
		keys, err := frostKeys(sc.N)
		if err != nil {
			return nil, err
		}
		sp = sess.FrostSign(keys, pids, msg)
	case "frost-sign-taproot":
		keys, err := frostKeysTaproot(sc.N)
		if err != nil {
			return nil, err
		}
		sp = sess.FrostSignTaproot(keys, pids, msg)
	case "doerner-keygen":
		sp = sess.DoernerKeygen("a", "b")
	case "doerner-sign":
		c, ok := keyCache["doerner"]
		if !ok {
			o := sess.Run(sess.DoernerKeygen("a", "b"), 1, "keys")
			cr, ok1 := o.Results["a"].(*doerner.ConfigReceiver)
			cs, ok2 := o.Results["b"].(*doerner.ConfigSender)
			if !ok1 || !ok2 {
				return nil, prereq("doerner keygen", o)
			}
			c = [2]interface{}{cr, cs}
			keyCache["doerner"] = c
		}
		pr := c.([2]interface{})
		sp = sess.DoernerSign(pr[0].(*doerner.ConfigReceiver), pr[1].(*doerner.ConfigSender), "a", "b", msg)
	case "frost-refresh":
		keys, err := frostKeys(sc.N)
		if err != nil {
			return nil, err
		}
		sp = sess.FrostRefresh(keys, pids) // the search replays the session many times on these objects: a refresh that wrote into them would show as a changed outcome

	case "cmp-keygen":
		sp = sess.CMPKeygen(pids, sc.N-1)
	case "cmp-presign", "cmp-refresh":
		c, err := cmpKeys(sc, pids)
		if err != nil {
			return nil, err
		}
		if sc.Proto == "cmp-presign" {
			sp = sess.CMPPresign(c, pids)
		} else {
			sp = sess.CMPRefresh(c, pids)
		}
	case "cmp-sign":
		c, err := cmpKeys(sc, pids)
		if err != nil {
			return nil, err
		}
		sp = sess.CMPSign(c, pids, msg)
	default:
		return nil, fmt.Errorf("unknown protocol %s", sc.Proto)
	}
	sp.SessionID = []byte(sid)
	return sp, nil
}

func cmpKeys(sc scen, pids []party.ID) (map[party.ID]*cmp.Config, error) {
	k := fmt.Sprintf("cmp%d", sc.N)
	if c, ok := keyCache[k]; ok {
		return c.(map[party.ID]*cmp.Config), nil
	}
	o := sess.Run(sess.CMPKeygen(pids, sc.N-1), 1, "keys")
	m := map[party.ID]*cmp.Config{}
	for _, id := range pids {
		cfg, ok := o.Results[id].(*cmp.Config)
		if !ok {
			return nil, prereq("cmp keygen", o)
		}
		m[id] = cfg
	}
	keyCache[k] = m
	return m, nil
}

// prereqError: the key material a scenario needs could not be produced.  Key generation is the
// subject of C01/C02; here it is a prerequisite, and its failure makes the scenario unrunnable
// (reported as not explored), not a delivery-order violation.
type prereqError struct{ msg string }

func (e *prereqError) Error() string { return e.msg }

func prereq(what string, o *sess.Outcome) error {
	return &prereqError{fmt.Sprintf("%s (prerequisite) did not complete: errors=%v start=%v panic=%q stuck=%v hung=%q", what, o.Errors, o.StartErr, o.Panic, o.Stuck, o.Hung)}
}
