// C07 — outcome is independent of delivery order, duplication and early arrival.
// Engine B: explicit-state search over all delivery schedules (with duplicate and
// foreign/misrouted injections) of real handlers, every state judged; for the expensive
// real protocols: every schedule with a bounded number of departures from FIFO.
package main

import (
	"encoding/hex"
	"errors"
	"fmt"
	"os"
	"sort"
	"strings"
	"time"

	"github.com/taurusgroup/multi-party-sig/internal/zzverif/drv"
	"github.com/taurusgroup/multi-party-sig/internal/zzverif/netsim"
	"github.com/taurusgroup/multi-party-sig/internal/zzverif/sess"
	"github.com/taurusgroup/multi-party-sig/internal/zzverif/vkit"
	"github.com/taurusgroup/multi-party-sig/internal/zzverif/vproto"
	"github.com/taurusgroup/multi-party-sig/pkg/party"
	"github.com/taurusgroup/multi-party-sig/pkg/protocol"
	"github.com/taurusgroup/multi-party-sig/protocols/example"
)

type scen struct {
	Name   string `json:"name"`
	Proto  string `json:"proto"` // vproto:<spec> | vproto2:<R> | xor | frost-keygen | frost-sign | doerner-keygen | doerner-sign | cmp-sign
	N      int    `json:"n"`
	Dup    int    `json:"dup"`
	Inject int    `json:"inject"`
	Mode   string `json:"mode"` // full | dev<k>
}

var ids = []party.ID{"a", "b", "c", "d", "e"}

func resultKey(r interface{}) string {
	switch x := r.(type) {
	case *vproto.Result:
		return hex.EncodeToString(x.Full[:8])
	}
	return hex.EncodeToString(netsim.DeepHash(r)[:8])
}

// spec returns the session description for a scenario, with the given session id.
func spec(sc scen, sid string) (*sess.Spec, error) {
	pids := ids[:sc.N]
	switch {
	case strings.HasPrefix(sc.Proto, "vproto:"):
		sp := sc.Proto[7:]
		return &sess.Spec{Name: sc.Proto, IDs: pids, SessionID: []byte(sid), Start: func(id party.ID) protocol.StartFunc { return vproto.Start(sp, id, pids) }}, nil
	case strings.HasPrefix(sc.Proto, "vproto2:"):
		var R int
		fmt.Sscanf(sc.Proto[8:], "%d", &R)
		return &sess.Spec{Name: sc.Proto, IDs: pids[:2], Two: true, Leader: map[party.ID]bool{"a": true}, SessionID: []byte(sid),
			Start: func(id party.ID) protocol.StartFunc {
				other := party.ID("b")
				if id == "b" {
					other = "a"
				}
				return vproto.Start2(R, id == "a", id, other)
			}}, nil
	case sc.Proto == "vproto2b":
		return &sess.Spec{Name: sc.Proto, IDs: pids[:2], Two: true, Leader: map[party.ID]bool{"a": true}, SessionID: []byte(sid),
			Start: func(id party.ID) protocol.StartFunc {
				other := party.ID("b")
				if id == "b" {
					other = "a"
				}
				return vproto.Start2B(id == "a", id, other)
			}}, nil
	case sc.Proto == "xor":
		return &sess.Spec{Name: "xor", IDs: pids, SessionID: []byte(sid), Start: func(id party.ID) protocol.StartFunc {
			return example.StartXOR(id, party.NewIDSlice(pids))
		}}, nil
	}
	return realSpec(sc, sid)
}

func buildScenario(sc scen) (*netsim.Scenario, map[string]string, map[string][]string, error) {
	sp, err := spec(sc, "sid")
	if err != nil {
		return nil, nil, nil, err
	}
	ns := &netsim.Scenario{Name: sc.Name, DupBudget: sc.Dup, InjectBudget: sc.Inject, ResultKey: resultKey, Seed: *vkit.Seed}
	for i, id := range sp.IDs {
		_ = i
		ns.Actors = append(ns.Actors, netsim.Actor{Key: string(id), ID: id, Seed: sc.Proto + "|" + string(id), Honest: true})
	}
	ns.New = func(a netsim.Actor) (protocol.Handler, error) { return sp.NewHandler(a.ID) }
	// in-order reference
	w, err := ns.Replay(nil)
	if err != nil {
		return nil, nil, nil, err
	}
	for len(w.Pending) > 0 {
		w.Apply(w.Events()[0])
	}
	ref := w.Status()
	refSent := map[string][]string{}
	for k, p := range w.Actors {
		for _, m := range p.Sent {
			refSent[k] = append(refSent[k], drv.MsgID(m))
		}
		sort.Strings(refSent[k])
	}
	for k, v := range ref {
		if !strings.HasPrefix(v, "done:") {
			return nil, nil, nil, fmt.Errorf("in-order run does not complete: %s=%s", k, v)
		}
	}
	// injections: (1) messages of a twin session with another session id, one representative per
	// (round, kind, recipient); (2) misrouted copies of real messages (delivered to a party they are not for).
	if sc.Inject > 0 {
		sp2, _ := spec(sc, "other-session")
		ns2 := &netsim.Scenario{Name: "twin", Actors: ns.Actors, Seed: *vkit.Seed, New: func(a netsim.Actor) (protocol.Handler, error) { return sp2.NewHandler(a.ID) }}
		w2, err := ns2.Replay(nil)
		if err == nil {
			seenKind := map[string]bool{}
			for len(w2.Pending) > 0 {
				e := w2.Events()[0]
				// e = D|<msgid>|from>to
				kind := e[2:4] + e[strings.LastIndex(e, "|"):] // round + route
				if !seenKind[kind] {
					seenKind[kind] = true
				}
				w2.Apply(e)
			}
			seen := map[string]bool{}
			for k, p := range w2.Actors {
				for _, m := range p.Sent {
					for _, to := range sp.IDs {
						if !m.IsFor(to) {
							continue
						}
						b := "p"
						if m.Broadcast {
							b = "b"
						}
						cls := fmt.Sprintf("foreign r%d%s %s>%s", m.RoundNumber, b, k, to)
						if !seen[cls] {
							seen[cls] = true
							ns.Inject = append(ns.Inject, netsim.Inject{Label: cls, To: string(to), M: m})
						}
					}
				}
			}
		}
		seen := map[string]bool{}
		for k, p := range w.Actors {
			for _, m := range p.Sent {
				if m.To == "" {
					continue
				}
				for _, to := range sp.IDs {
					if to == m.To || to == m.From {
						continue
					}
					cls := fmt.Sprintf("misrouted r%d %s>%s given to %s", m.RoundNumber, k, m.To, to)
					if !seen[cls] {
						seen[cls] = true
						ns.Inject = append(ns.Inject, netsim.Inject{Label: cls, To: string(to), M: m})
					}
				}
			}
		}
		sort.Slice(ns.Inject, func(i, j int) bool { return ns.Inject[i].Label < ns.Inject[j].Label })
		// one representative per class (foreign broadcast / foreign p2p of each round, misrouted p2p of each round)
		seenCls := map[string]bool{}
		var keep []netsim.Inject
		for _, in := range ns.Inject {
			f := strings.Fields(in.Label)
			cls := f[0] + " " + f[1]
			if !seenCls[cls] {
				seenCls[cls] = true
				keep = append(keep, in)
			}
		}
		ns.Inject = keep
	}
	return ns, ref, refSent, nil
}

func checker(sc scen, keys []string, ref map[string]string, refSent map[string][]string) netsim.Checker {
	return netsim.Checker{
		State: func(w netsim.W, hist []string) []netsim.Violation {
			var vs []netsim.Violation
			for _, k := range keys {
				p := w.Info(k)
				if p.Panic != "" {
					vs = append(vs, netsim.Violation{Sig: "panic|" + p.PanicFrame, Detail: fmt.Sprintf("party %s panicked: %s in %s", k, p.Panic, p.PanicFrame)})
				}
				if p.Hung {
					vs = append(vs, netsim.Violation{Sig: "hang", Detail: fmt.Sprintf("party %s: a handler call did not return", k)})
				}
			}
			for k, s := range w.Status() {
				if strings.HasPrefix(s, "error:") {
					cls := s[6:]
					if i := strings.Index(cls, ":"); i > 0 && strings.HasPrefix(cls, "culprits") {
						cls = cls[i+1:]
					}
					if len(cls) > 60 {
						cls = cls[:60]
					}
					vs = append(vs, netsim.Violation{Sig: "honest-party-aborts|" + strings.TrimSpace(cls), Detail: fmt.Sprintf("party %s ended with %q in an all-honest session", k, s)})
				}
			}
			return vs
		},
		Sink: func(w netsim.W, hist []string) []netsim.Violation {
			var vs []netsim.Violation
			st := w.Status()
			for k, s := range st {
				if s == "running" {
					vs = append(vs, netsim.Violation{Sig: "stuck-with-empty-network", Detail: fmt.Sprintf("every message was delivered but party %s has not finished", k)})
				} else if strings.HasPrefix(s, "done:") && s != ref[k] {
					vs = append(vs, netsim.Violation{Sig: "result-differs-from-in-order-run", Detail: fmt.Sprintf("party %s: %s, in-order run: %s", k, s, ref[k])})
				}
			}
			for _, k := range keys {
				p := w.Info(k)
				var sent []string
				for _, m := range p.Sent {
					sent = append(sent, drv.MsgID(m))
				}
				sort.Strings(sent)
				if strings.Join(sent, ",") != strings.Join(refSent[k], ",") {
					vs = append(vs, netsim.Violation{Sig: "emitted-messages-differ-from-in-order-run", Detail: fmt.Sprintf("party %s emitted %v, in-order run %v", k, sent, refSent[k])})
				}
			}
			return vs
		},
	}
}

func scenarios() []scen {
	var l []scen
	add := func(proto string, n, dup, inj int, mode string) {
		l = append(l, scen{Name: fmt.Sprintf("%s/n%d/dup%d/inj%d/%s", proto, n, dup, inj, mode), Proto: proto, N: n, Dup: dup, Inject: inj, Mode: mode})
	}
	add("vproto:XB", 3, 1, 1, "full")
	add("vproto:BXP", 3, 1, 0, "full")
	add("vproto:XAB", 3, 0, 1, "full")
	add("vproto:AP", 3, 2, 1, "full")
	add("vproto:PX", 3, 1, 0, "full")
	add("vproto:BA", 4, 0, 0, "full")
	add("vproto:YN", 3, 1, 0, "full")
	add("xor", 3, 2, 1, "full")
	add("xor", 4, 1, 1, "full")
	add("xor", 3, 6, 0, "full")       // a link that retransmits eagerly: up to six re-deliveries in one short session
	add("vproto:BB", 3, 7, 0, "full") // the same over two message rounds
	// broadcast rounds that fold what they received into the session's hash state when they are left (as the CMP
	// key generation does): the echo of a round must not depend on WHEN the handler computes it
	add("vproto:UUB", 3, 0, 0, "full")
	add("vproto:UUP", 2, 2, 1, "full")
	add("vproto2:3", 2, 2, 1, "full")
	add("vproto2:4", 2, 2, 1, "full")
	add("vproto2b", 2, 2, 1, "full") // two messages of one sender in flight: the later may overtake the earlier
	add("doerner-keygen", 2, 1, 1, "full")
	add("doerner-sign", 2, 1, 1, "full")
	add("frost-keygen", 3, 0, 0, "full")
	add("frost-sign", 3, 1, 1, "full")
	add("frost-sign-taproot", 3, 1, 0, "full")
	add("frost-keygen", 3, 0, 0, "dev1")
	add("frost-sign", 3, 0, 0, "dev2")
	if vkit.Thorough() {
		add("vproto:BXPB", 3, 1, 1, "full")
		add("vproto:XB", 4, 0, 0, "full")
		add("vproto:BX", 5, 0, 0, "dev2") // the full space of five parties does not fit in memory
		add("frost-keygen", 3, 1, 1, "full")
		add("frost-keygen-taproot", 3, 1, 0, "full")
		add("frost-keygen", 4, 0, 0, "full")
		add("frost-sign", 4, 1, 0, "full")
		add("frost-keygen", 3, 0, 0, "dev2")
		add("cmp-sign", 2, 0, 0, "full")
		add("cmp-sign", 2, 0, 0, "dev1")
		add("cmp-sign", 3, 0, 0, "dev1")
		add("cmp-presign", 2, 0, 0, "dev1")
		add("cmp-keygen", 2, 0, 0, "dev1")
		add("cmp-refresh", 2, 0, 0, "dev1")
		add("frost-refresh", 3, 1, 1, "full")
	}
	return l
}

func main() {
	res := vkit.Init("C07")
	drv.Install()
	res.Rule = "explicit-state search: a state is a canonical (deep digest of every real handler + pending multiset + budgets) configuration reached by some delivery schedule; every state is judged (no panic, no abort) and every sink (network empty) must equal the in-order run in result and emitted messages; 'dev<k>' scenarios enumerate every complete schedule with at most k departures from FIFO"
	res.Assumptions = []string{"handlers of one session share no state (so merging on the per-handler deep digests is sound)", "randomness is consumed only through crypto/rand.Reader (seeded per party)"}
	var rp struct {
		Scen    scen     `json:"scen"`
		History []string `json:"history"`
	}
	if vkit.LoadReplay(&rp) {
		ns, ref, refSent, err := buildScenario(rp.Scen)
		if err != nil {
			fmt.Println(err)
			os.Exit(2)
		}
		w, err := ns.Replay(rp.History)
		fmt.Println("history:", strings.Join(rp.History, "\n         "))
		fmt.Println("replay error:", err)
		ck := checker(rp.Scen, ns.ActorKeys(), ref, refSent)
		vs := ck.State(w, rp.History)
		if len(w.Pending) == 0 {
			vs = append(vs, ck.Sink(w, rp.History)...)
		}
		fmt.Println("status:", w.Status())
		for _, v := range vs {
			fmt.Println("VIOLATION", v.Sig, v.Detail)
		}
		if len(vs) > 0 {
			os.Exit(1)
		}
		return
	}
	outcomes := 0
	for i, sc := range scenarios() {
		if !vkit.Want(sc.Name) {
			continue
		}
		full := sc.Mode == "full"
		if full && !vkit.Mine(i) {
			continue // a full search runs in one process; scenarios are spread over the shards
		}
		ns, ref, refSent, err := buildScenario(sc)
		if err != nil {
			var pe *prereqError
			if errors.As(err, &pe) {
				res.Exhaustive = false
				res.Note(fmt.Sprintf("scenario %s not explored: %v", sc.Name, err))
				continue
			}
			res.Violate("in-order-run-fails|"+sc.Proto, err.Error(), map[string]interface{}{"scen": sc, "history": []string{}})
			continue
		}
		ck := checker(sc, ns.ActorKeys(), ref, refSent)
		var st *netsim.Stats
		deadline := vkit.Deadline(90*time.Second, 25*time.Minute)
		bound := "all schedules"
		if full {
			st = ns.Search(ck, 1500000, deadline) // state cap: a search that outgrows memory would kill the process; below the cap it is complete
		} else {
			var k int
			fmt.Sscanf(sc.Mode, "dev%d", &k)
			bound = fmt.Sprintf("<=%d departures from FIFO", k)
			st = ns.Deviations(k, ck, vkit.Mine, deadline)
		}
		res.AddScenario(vkit.Scenario{Name: sc.Name, Bound: bound, Executions: st.Sinks, States: st.States, Transitions: st.Transitions, MaxDepth: st.MaxDepth,
			Outcomes: st.Outcomes, Complete: st.Complete, WallS: st.WallS})
		outcomes += len(st.Outcomes)
		for _, v := range st.Violations {
			sig := sc.Proto + "|" + v.Sig
			if strings.HasPrefix(v.Sig, "harness|") {
				res.Hard(sc.Name + ": " + v.Sig + " " + v.Detail)
				continue
			}
			res.Violate(sig, fmt.Sprintf("scenario %s: %s\nschedule:\n  %s", sc.Name, v.Detail, strings.Join(v.History, "\n  ")), map[string]interface{}{"scen": sc, "history": v.History})
		}
		if st.States > 0 {
			res.Sample(map[string]interface{}{"scenario": sc.Name, "states": st.States, "transitions": st.Transitions, "sinks": st.Sinks, "terminal_outcomes": st.Outcomes})
		}
		fmt.Fprintf(os.Stderr, "%-44s states=%-8d trans=%-9d sinks=%-7d depth=%-3d outcomes=%d complete=%v viol=%d %.1fs\n", sc.Name, st.States, st.Transitions, st.Sinks, st.MaxDepth, len(st.Outcomes), st.Complete, len(st.Violations), st.WallS)
	}
	res.Evaluations = res.States
	res.Nontrivial = res.States
	res.Extra["distinct_terminal_outcomes"] = outcomes
	res.Finish()
}
