// c08 — refresh preserves the key and retires old shares, across any history (engine D).
//
// One case = one history: a key generation followed by a sequence of operations from
// {refresh, restore (serialize + restore every party), sign(S, m), derive(i)}; all histories up
// to the depth bound are enumerated breadth-first for every scenario (protocol family, n, t).
// A case executes its history from scratch on fresh key material (live objects cannot be
// cloned; everything is deterministic) and evaluates the oracle of its LAST operation — every
// proper prefix is a case of its own.  After a refresh the oracle is:
//
//	key-changed                    every party reports the group key of the key generation
//	sharing:<clause>               the consistency conditions of key generation (oracle.CheckSharing / CheckDoerner)
//	share-unchanged                every party's secret share differs from its share in every earlier epoch
//	mixed-epoch-reconstructs       no (t+1)-subset whose shares come from >= 2 different epochs reconstructs the key
//	sign-after-refresh-fails       signing with all-new material completes with one reference-valid signature
//	stale-signer-yields-signature  one signer (each choice, each earlier epoch) on restored old material: nobody holds a result
//	refresh-does-not-complete      the refresh session gives every party a result
//
// Earlier epochs exist only as serialized snapshots taken when the epoch was produced.
package main

import (
	"flag"
	"fmt"
	"math/big"
	"os"
	"sort"
	"strconv"
	"strings"
	"time"

	"github.com/taurusgroup/multi-party-sig/internal/zzverif/drv"
	"github.com/taurusgroup/multi-party-sig/internal/zzverif/hist"
	"github.com/taurusgroup/multi-party-sig/internal/zzverif/kmat"
	"github.com/taurusgroup/multi-party-sig/internal/zzverif/oracle"
	"github.com/taurusgroup/multi-party-sig/internal/zzverif/ref"
	"github.com/taurusgroup/multi-party-sig/internal/zzverif/sess"
	"github.com/taurusgroup/multi-party-sig/internal/zzverif/vkit"
	"github.com/taurusgroup/multi-party-sig/pkg/ecdsa"
	"github.com/taurusgroup/multi-party-sig/pkg/party"
	"github.com/taurusgroup/multi-party-sig/protocols/cmp"
	"github.com/taurusgroup/multi-party-sig/protocols/frost"
)

var strictInputs = flag.Bool("strict-inputs", false, "report a refresh/sign that writes into the configuration objects it was given as a violation (input-mutated:<what>) instead of an observation")

type kase struct {
	Scenario hist.Scenario `json:"scenario"`
	History  []string      `json:"history"`
}

func (k kase) key() string { return k.Scenario.String() + "|" + strings.Join(k.History, ",") }

// line is one key line: the group key and every epoch of its sharing (oldest first).
type line struct {
	pub    ref.Pt
	epochs []*hist.Snap
	facts  []*hist.Facts
	names  []string
}

type runner struct {
	k                 kase
	verbose           bool
	vios              [][2]string
	cur               *hist.Mat
	ln                *line
	refusedDegenerate bool
	refreshed         bool   // a refresh happened earlier in the history
	prev              string // kind of the previous operation
	stats             map[string]int64
	obs               map[string]int64
	obsDetail         map[string]string
}

func (r *runner) say(format string, a ...interface{}) {
	if r.verbose {
		fmt.Printf(format+"\n", a...)
	}
}

func (r *runner) sig(clause string) string {
	s := "refresh|" + r.k.Scenario.Proto + "|" + clause
	if r.k.Scenario.T == 0 {
		s += ":t=0" // degenerate sharing (every party holds the whole key): kept apart from the same clause at t>=1
	}
	return s
}

func (r *runner) violate(clause, detail string) {
	r.vios = append(r.vios, [2]string{r.sig(clause), fmt.Sprintf("%s history=[%s]: %s", r.k.Scenario, strings.Join(r.k.History, ","), detail)})
	r.say("  VIOLATION %s: %s", r.sig(clause), detail)
}

func (r *runner) panicked(where, p string) {
	frame := p
	if i := strings.LastIndex(p, " in "); i >= 0 {
		frame = p[i+4:]
	}
	r.vios = append(r.vios, [2]string{"panic|" + where + "|" + frame, fmt.Sprintf("%s history=[%s]: %s", r.k.Scenario, strings.Join(r.k.History, ","), p)})
	r.say("  VIOLATION panic in %s: %s", where, p)
}

func (r *runner) observe(what, detail string) {
	if r.k.Scenario.T == 0 {
		what += ":t=0"
	}
	r.obs[what]++
	if _, ok := r.obsDetail[what]; !ok {
		r.obsDetail[what] = detail
	}
	r.say("  observation %s: %s", what, detail)
}

func (r *runner) label(step int, what string) string {
	return fmt.Sprintf("c08|%s|%s|%d|%s", r.k.Scenario, strings.Join(r.k.History[:step+1], ","), step, what)
}

func (r *runner) run(s *sess.Spec, step int, what string) *sess.Outcome {
	r.stats["sessions"]++
	t0 := time.Now()
	o := sess.Run(s, *vkit.Seed, r.label(step, what))
	r.say("    session %-28s %6.2fs  %s", what, time.Since(t0).Seconds(), hist.Describe(o))
	return o
}

// signerSets: the sets that sign in the oracle sessions after a refresh.
func signerSets(sc hist.Scenario, ids []party.ID) [][]party.ID {
	if sc.Proto == hist.Doerner {
		return [][]party.ID{ids}
	}
	if sc.Proto == hist.CMP {
		return [][]party.ID{historySigners(sc, ids)}
	}
	out := hist.Subsets(ids, sc.T+1)
	if sc.T+1 < len(ids) {
		out = append(out, ids)
	}
	return out
}

// historySigners: the non-trivial signer set of the sign operation: the LAST t+1 parties.
func historySigners(sc hist.Scenario, ids []party.ID) []party.ID {
	if sc.Proto == hist.Doerner {
		return ids
	}
	return ids[len(ids)-(sc.T+1):]
}

func names(ids []party.ID) string {
	s := make([]string, len(ids))
	for i, id := range ids {
		s[i] = string(id)
	}
	return strings.Join(s, "")
}

// execute runs the history; it returns the outcome class of the case.
func (r *runner) execute() string {
	sc := r.k.Scenario
	m, err := hist.Keygen(sc)
	if err != nil {
		r.violate("keygen-fails", err.Error())
		return "violation"
	}
	f, err := m.Facts()
	if err != nil {
		r.violate("keygen-fails", err.Error())
		return "violation"
	}
	snap, err := m.Snapshot()
	if err != nil {
		r.violate("keygen-fails", err.Error())
		return "violation"
	}
	r.cur = m
	r.ln = &line{pub: f.Pub[f.IDs[0]], epochs: []*hist.Snap{snap}, facts: []*hist.Facts{f}, names: []string{"keygen"}}
	r.prev = "keygen"
	for step, op := range r.k.History {
		last := step == len(r.k.History)-1
		r.say("step %d: %s%s", step, op, map[bool]string{true: "  (oracle evaluated)", false: ""}[last])
		var ok bool
		switch {
		case op == "refresh":
			ok = r.opRefresh(step, last)
		case op == "restore":
			ok = r.opRestore(step, last)
		case op == "forget-chain-key":
			ok = r.opForgetChainKey(step)
		case op == "sign":
			ok = r.opSign(step, last)
		case strings.HasPrefix(op, "derive:"):
			i, _ := strconv.ParseUint(op[len("derive:"):], 10, 32)
			var pruned bool
			ok, pruned = r.opDerive(step, last, uint32(i))
			if pruned {
				return "pruned:derive-unavailable"
			}
		default:
			panic("unknown operation " + op)
		}
		if r.refusedDegenerate {
			return "pruned:refresh-refused-at-threshold-0"
		}
		if !ok {
			if last {
				break
			}
			return "pruned:prefix-fails" // reported by the case that ends at that operation
		}
		if !last && len(r.cur.Consistency()) > 0 {
			return "pruned:prefix-inconsistent" // the operation that broke the sharing is the last one of a shorter case, which reports it
		}
		r.prev = strings.SplitN(op, ":", 2)[0]
	}
	if len(r.vios) > 0 {
		return "violation"
	}
	return "ok"
}

func (r *runner) opRefresh(step int, last bool) bool {
	sc := r.k.Scenario
	ids := r.cur.IDs
	pre, err := r.cur.Facts()
	if err != nil {
		if last {
			r.violate("refresh-does-not-complete", "material unreadable before the refresh: "+err.Error())
		}
		return false
	}
	o := r.run(r.cur.RefreshSpec(), step, "refresh")
	if o.Panic != "" {
		if last {
			r.panicked("refresh", o.Panic)
		}
		return false
	}
	if sc.T == 0 && len(o.StartErr) == len(ids) {
		// Degenerate sharing: at t=0 every share IS the key, so no key-preserving refresh can change a share or
		// retire one; the clauses below are unsatisfiable by any refresh that completes, and refusing to start
		// one is the only conforming behaviour.
		r.refusedDegenerate = true
		r.say("  refresh refused at threshold 0: %s", hist.Describe(o))
		return false
	}
	if !o.AllDone(ids) {
		if last {
			r.violate("refresh-does-not-complete", hist.Describe(o))
		}
		return false
	}
	nw, err := r.cur.FromResults(o.Results)
	if err != nil {
		if last {
			r.violate("refresh-does-not-complete", err.Error())
		}
		return false
	}
	nf, err := nw.Facts()
	var snap *hist.Snap
	if err == nil {
		snap, err = nw.Snapshot()
	}
	if err != nil {
		if last {
			r.violate("sharing:readable", err.Error())
		}
		return false
	}
	retained := r.cur // the objects that were handed to the refresh
	epochName := fmt.Sprintf("refresh@%d", step)
	if last {
		r.refreshOracle(step, pre, retained, nw, nf, snap, epochName)
	}
	r.ln.epochs = append(r.ln.epochs, snap)
	r.ln.facts = append(r.ln.facts, nf)
	r.ln.names = append(r.ln.names, epochName)
	r.cur = nw
	r.refreshed = true
	_ = sc
	return true
}

func (r *runner) refreshOracle(step int, pre *hist.Facts, retained, nw *hist.Mat, nf *hist.Facts, snap *hist.Snap, epochName string) {
	sc := r.k.Scenario
	ids := nw.IDs
	// 1. group key unchanged
	for _, id := range nf.IDs {
		if !nf.Pub[id].Equal(r.ln.pub) {
			r.violate("key-changed", fmt.Sprintf("after the refresh %s reports group key %s, the key line's key is %s", id, hist.Hex(nf.Pub[id]), hist.Hex(r.ln.pub)))
		}
	}
	// 2. key-generation consistency conditions on the new epoch
	for _, e := range nw.Consistency() {
		r.violate("sharing:"+hist.Clause(e), e.Error())
	}
	// 3. every share differs from all earlier epochs of this party
	for ei, ef := range r.ln.facts {
		for _, id := range nf.IDs {
			if nf.Secret[id].Cmp(ef.Secret[id]) == 0 {
				r.violate("share-unchanged", fmt.Sprintf("secret share of %s after %s equals its share of epoch %q", id, epochName, r.ln.names[ei]))
			}
		}
	}
	// 4. every mixed-epoch (t+1)-subset fails to reconstruct
	all := append(append([]*hist.Facts{}, r.ln.facts...), nf)
	size := sc.T + 1
	if sc.Proto == hist.Doerner {
		size = 2
	}
	for _, sub := range hist.Subsets(ids, size) {
		sids := make([]string, len(sub))
		for i, id := range sub {
			sids[i] = string(id)
		}
		assign := make([]int, size)
		for {
			mixed := false
			for _, e := range assign[1:] {
				if e != assign[0] {
					mixed = true
				}
			}
			if mixed {
				r.stats["mixed_subsets"]++
				shares := make([]*big.Int, size)
				for i := range sub {
					shares[i] = all[assign[i]].Secret[sids[i]]
				}
				if ref.MulG(hist.Combine(sc.Proto, sids, shares)).Equal(r.ln.pub) {
					desc := make([]string, size)
					for i := range sub {
						nm := epochName
						if assign[i] < len(r.ln.names) {
							nm = r.ln.names[assign[i]]
						}
						desc[i] = sids[i] + "@" + nm
					}
					r.violate("mixed-epoch-reconstructs", "shares "+strings.Join(desc, " + ")+" reconstruct the group key")
				}
			}
			// next assignment
			i := 0
			for ; i < size; i++ {
				assign[i]++
				if assign[i] < len(all) {
					break
				}
				assign[i] = 0
			}
			if i == size {
				break
			}
		}
	}
	// 5. did the refresh write into the objects it was given?
	if post, err := retained.Facts(); err != nil {
		r.inputMutated("refresh", "unreadable", "the objects given to the refresh can no longer be read: "+err.Error())
	} else if d := hist.Diff(pre, post); len(d) > 0 {
		state := "a hybrid of both epochs"
		if len(hist.Diff(post, nf)) == 0 {
			state = "the new epoch"
		}
		cons := "satisfy"
		if errs := retained.Consistency(); len(errs) > 0 {
			cons = "violate (" + hist.Clause(errs[0]) + ")"
		}
		r.inputMutated("refresh", strings.Join(d, "+"), fmt.Sprintf("the configuration objects handed to the refresh changed in {%s}; they now hold %s and %s the consistency conditions", strings.Join(d, ", "), state, cons))
	}
	// 6. signing with all-new material
	msg := hist.Msg("c08 after refresh")
	for _, S := range signerSets(sc, ids) {
		m1, err := snap.Restore()
		if err != nil {
			r.violate("sign-after-refresh-fails", "new material cannot be restored from its serialization: "+err.Error())
			break
		}
		o := r.run(m1.SignSpec(S, msg, nil), step, "sign-new-"+names(S))
		r.stats["sign_new_sessions"]++
		if o.Panic != "" {
			r.panicked("sign-after-refresh", o.Panic)
		} else if err := hist.CheckSigned(o, S, r.ln.pub, msg); err != nil {
			r.violate("sign-after-refresh-fails", fmt.Sprintf("signers %s with refreshed material: %v", names(S), err))
		}
	}
	// 7. one signer on restored pre-refresh material
	for ei, es := range r.ln.epochs {
		for _, S := range signerSets(sc, ids) {
			for _, stale := range S {
				nm, err1 := snap.Restore()
				om, err2 := es.Restore()
				if err1 != nil || err2 != nil {
					r.violate("sign-after-refresh-fails", fmt.Sprintf("material cannot be restored: %v %v", err1, err2))
					continue
				}
				o := r.run(nm.SignSpec(S, msg, map[party.ID]*hist.Mat{stale: om}), step, fmt.Sprintf("sign-stale-%s-%s-%d", names(S), stale, ei))
				r.stats["stale_signer_sessions"]++
				if o.Panic != "" {
					r.panicked("sign-with-stale-signer", o.Panic)
				}
				if len(o.Results) > 0 {
					r.violate("stale-signer-yields-signature", fmt.Sprintf("signers %s, %s on material of epoch %q, the others on %s: %s", names(S), stale, r.ln.names[ei], epochName, holders(o, S, r.ln.pub, msg)))
				}
			}
		}
	}
	// 7b. CMP: the same in the ONLINE phase.  The refreshed parties presign; then one signer runs the
	// online phase on its restored pre-refresh configuration (each choice, each earlier epoch).  The
	// online rounds contain no proof and no Paillier operation: only the session's binding to the
	// configuration keeps the retired material out.
	if sc.Proto == hist.CMP && len(r.ln.epochs) > 0 {
		S := historySigners(sc, ids)
		if nm, err := snap.Restore(); err == nil {
			cfg := map[party.ID]*cmp.Config{}
			for _, id := range S {
				cfg[id] = nm.CMP[id]
			}
			po := r.run(sess.CMPPresign(cfg, S), step, "presign-new-"+names(S))
			pre := map[party.ID]*ecdsa.PreSignature{}
			for _, id := range S {
				if x, ok := po.Results[id].(*ecdsa.PreSignature); ok {
					pre[id] = x
				}
			}
			if po.Panic != "" {
				r.panicked("presign-after-refresh", po.Panic)
			} else if len(pre) != len(S) {
				r.violate("sign-after-refresh-fails", fmt.Sprintf("signers %s cannot presign with refreshed material: %s", names(S), hist.Describe(po)))
			} else {
				for ei, es := range r.ln.epochs {
					for _, stale := range S {
						om, err := es.Restore()
						if err != nil {
							continue
						}
						c2 := map[party.ID]*cmp.Config{}
						for _, id := range S {
							c2[id] = cfg[id]
						}
						c2[stale] = om.CMP[stale]
						o := r.run(sess.CMPPresignOnline(c2, pre, S, msg), step, fmt.Sprintf("online-stale-%s-%s-%d", names(S), stale, ei))
						r.stats["stale_signer_sessions"]++
						if o.Panic != "" {
							r.panicked("sign-with-stale-signer", o.Panic)
						}
						if len(o.Results) > 0 {
							r.violate("stale-signer-yields-signature", fmt.Sprintf("online phase, signers %s, %s on its configuration of epoch %q, the others on %s (presignature made with %s): %s", names(S), stale, r.ln.names[ei], epochName, epochName, holders(o, S, r.ln.pub, msg)))
						}
					}
				}
			}
		}
	}
	// 7c. one party is an epoch behind INSIDE a refresh: it enters the next refresh on its restored
	// pre-refresh material, the others on the new one.  The session may fail; if it gives everybody a
	// result, nobody may report another group key, and whatever a signing session on that output
	// returns must be a signature under the original key.
	if len(r.ln.epochs) > 0 && !(sc.T == 0) && (sc.Proto != hist.CMP || vkit.Thorough()) {
		es := r.ln.epochs[len(r.ln.epochs)-1]
		for _, stale := range ids {
			nm, err1 := snap.Restore()
			om, err2 := es.Restore()
			if err1 != nil || err2 != nil {
				continue
			}
			switch sc.Proto {
			case hist.Frost:
				nm.Frost[stale] = om.Frost[stale]
			case hist.Taproot:
				nm.Tap[stale] = om.Tap[stale]
			case hist.CMP:
				nm.CMP[stale] = om.CMP[stale]
			default:
				if stale == "a" {
					nm.DR = om.DR
				} else {
					nm.DS = om.DS
				}
			}
			o := r.run(nm.RefreshSpec(), step, "refresh-stale-"+string(stale))
			r.stats["stale_refresh_sessions"]++
			if o.Panic != "" {
				r.panicked("refresh-with-stale-party", o.Panic)
				continue
			}
			if len(o.Results) != len(ids) {
				continue
			}
			m3, err := nm.FromResults(o.Results)
			if err != nil {
				continue
			}
			f3, err := m3.Facts()
			if err != nil {
				continue
			}
			moved := false
			for _, id := range f3.IDs {
				if !f3.Pub[id].Equal(r.ln.pub) {
					moved = true
					r.violate("key-changed", fmt.Sprintf("refresh in which %s was still on the material of epoch %q while the others were on %s: it completed and %s now reports the group key %x instead of %x", stale, r.ln.names[len(r.ln.names)-1], epochName, id, f3.Pub[id].Compressed(), r.ln.pub.Compressed()))
					break
				}
			}
			if moved {
				continue
			}
			S := historySigners(sc, ids)
			so := r.run(m3.SignSpec(S, msg, nil), step, "sign-after-refresh-stale-"+string(stale))
			for _, id := range S {
				if res, ok := so.Results[id]; ok {
					if err := hist.CheckSigned(&sess.Outcome{Results: map[party.ID]interface{}{id: res}}, []party.ID{id}, r.ln.pub, msg); err != nil {
						r.violate("stale-signer-yields-signature", fmt.Sprintf("after a refresh with %s an epoch behind, signing returns at %s something that is not a signature under the group key: %v", stale, id, err))
						break
					}
				}
			}
		}
	}
	// 9. the refresh interrupted at every crash point leaves the previous material intact and usable
	if len(r.ln.epochs) > 0 && !(sc.T == 0) && (sc.Proto != hist.CMP || vkit.Thorough() || len(r.k.History) == 1) {
		// (CMP, quick tier: only in the history that consists of the refresh alone - a cut session costs seconds)
		r.interruptedRefresh(step, r.ln.epochs[len(r.ln.epochs)-1], pre)
	}
	// 10. a refresh run by every strict subset of the share holders that is large enough
	if len(r.ln.epochs) > 0 && !(sc.T == 0) {
		r.subsetRefresh(step, r.ln.epochs[len(r.ln.epochs)-1], pre)
	}
	// 8. (observation) the same with the RETAINED live object instead of a restored snapshot of the previous epoch
	S := historySigners(sc, ids)
	for _, stale := range S {
		nm, err := snap.Restore()
		if err != nil {
			break
		}
		o := r.run(nm.SignSpec(S, msg, map[party.ID]*hist.Mat{stale: retained}), step, fmt.Sprintf("sign-retained-%s-%s", names(S), stale))
		if len(o.Results) > 0 {
			r.observe("retained-object-signs|"+sc.Proto, fmt.Sprintf("%s history=[%s]: signer %s uses the configuration OBJECT it handed to the refresh (never touched by the caller), the others the new results: %s", sc, strings.Join(r.k.History, ","), stale, holders(o, S, r.ln.pub, msg)))
		}
	}
}

// interruptedRefresh: the network dies after k deliveries of the refresh session, for EVERY k (every
// crash point of the session).  The session then cannot complete for someone, and the parties fall
// back on the configurations they hold.  Those must be exactly what they were before the session
// started (a refresh that has not returned a result must not have touched the material it was given:
// otherwise a single lost message loses the key), and a signing session on them must still succeed.
func (r *runner) interruptedRefresh(step int, preSnap *hist.Snap, pre *hist.Facts) {
	sc := r.k.Scenario
	msg := hist.Msg("c08-interrupted")
	// length of the full session
	full, err := preSnap.Restore()
	if err != nil {
		return
	}
	if ff, err := full.Facts(); err != nil || len(hist.Diff(pre, ff)) > 0 {
		r.observe("interrupted-refresh-skipped", "the last recorded epoch is not the material this refresh started from")
		return
	}
	net, startErr := sess.Build(full.RefreshSpec(), *vkit.Seed, r.label(step, "refresh-interrupted-full"))
	if len(startErr) > 0 {
		return
	}
	net.RunFIFO(100000)
	total := net.Steps
	signAt := map[int]bool{0: true, total / 2: true, total - 1: true}
	if sc.Proto != hist.CMP {
		for k := 0; k < total; k++ {
			signAt[k] = true
		}
	}
	for k := 0; k < total; k++ {
		if sc.Proto == hist.CMP && !vkit.Thorough() && !signAt[k] {
			continue // CMP, quick tier: the first, the middle and the last crash point only
		}
		m, err := preSnap.Restore()
		if err != nil {
			return
		}
		r.stats["sessions"]++
		r.stats["refresh_crash_points"]++
		net, startErr := sess.Build(m.RefreshSpec(), *vkit.Seed, r.label(step, "refresh-interrupted"))
		if len(startErr) > 0 {
			return
		}
		net.RunFIFO(k)
		if id, pm, fr := net.AnyPanic(); id != "" {
			r.panicked("refresh", fmt.Sprintf("%s: %s in %s", id, pm, fr))
			return
		}
		after, err := m.Facts()
		if err != nil {
			r.violate("interrupted-refresh:material-unreadable", fmt.Sprintf("refresh cut after %d of %d deliveries: the configurations handed to it can no longer be read: %v", k, total, err))
			return
		}
		if d := hist.Diff(pre, after); len(d) > 0 {
			cons := "still satisfy"
			if es := m.Consistency(); len(es) > 0 {
				cons = "no longer satisfy (" + hist.Clause(es[0]) + ")"
			}
			r.violate("interrupted-refresh:material-changed:"+strings.Join(d, "+"), fmt.Sprintf("refresh cut after %d of %d deliveries (no party holds a result for it yet or some never will): the configuration objects the parties fall back on changed in {%s} and %s the consistency conditions", k, total, strings.Join(d, ", "), cons))
			return
		}
		if signAt[k] {
			S := historySigners(sc, m.IDs)
			o := r.run(m.SignSpec(S, msg, nil), step, fmt.Sprintf("sign-after-cut-%d", k))
			if err := hist.CheckSigned(o, S, r.ln.pub, msg); err != nil {
				r.violate("interrupted-refresh:old-material-cannot-sign", fmt.Sprintf("refresh cut after %d of %d deliveries; signing with the configurations the parties still hold fails: %v — %s", k, total, err, hist.Describe(o)))
				return
			}
		}
	}
}

// subsetRefresh: FROST lets any set of share holders of size > t run a refresh (the parties that
// are online); whoever is absent is thereby retired.  For EVERY such strict subset P: the session
// completes at all of P; the group key is unchanged; the new table (all n entries, also the absent
// parties') is the same at all of P and is again one degree-t sharing of the key in the exponent
// (every (t+1)-subset of entries interpolates to it); own shares match own entries and changed;
// every (t+1)-subset of P's new shares reconstructs the key; an absent party's old share neither
// matches its new table entry nor reconstructs the key together with t new shares; P can sign.
func (r *runner) subsetRefresh(step int, preSnap *hist.Snap, pre *hist.Facts) {
	sc := r.k.Scenario
	if sc.Proto != hist.Frost && sc.Proto != hist.Taproot {
		return
	}
	ids := kmat.IDs[:sc.N]
	for size := sc.T + 1; size < sc.N; size++ {
		if size < 2 {
			continue
		}
		for _, P := range hist.Subsets(ids, size) {
			m, err := preSnap.Restore()
			if err != nil {
				return
			}
			var spec *sess.Spec
			if sc.Proto == hist.Frost {
				spec = sess.FrostRefresh(m.Frost, P)
			} else {
				spec = sess.FrostRefreshTaproot(m.Tap, P)
			}
			r.stats["subset_refreshes"]++
			nv0 := len(r.vios)
			o := r.run(spec, step, "refresh-subset-"+names(P))
			bad := func(clause, detail string) {
				r.violate("subset-refresh:"+clause, fmt.Sprintf("refresh run by %s of %d share holders (threshold %d): %s", names(P), sc.N, sc.T, detail))
			}
			if o.Panic != "" {
				r.panicked("refresh-subset", o.Panic)
				return
			}
			if len(o.StartErr) > 0 {
				// refusing a subset refresh altogether is a conforming (if restrictive) answer; nothing to judge
				r.observe("subset-refresh-refused|"+sc.Proto, fmt.Sprintf("%v", o.StartErr))
				return
			}
			if !o.AllDone(P) {
				bad("does-not-complete", hist.Describe(o))
				return
			}
			views := map[string]*oracle.View{}
			for _, id := range P {
				v, err := oracle.ViewOf(o.Results[id])
				if err != nil {
					bad("readable", err.Error())
					return
				}
				views[string(id)] = v
			}
			first := views[string(P[0])]
			inP := map[string]bool{}
			for _, id := range P {
				inP[string(id)] = true
			}
			for _, id := range P {
				v := views[string(id)]
				if !v.Public.Equal(r.ln.pub) {
					bad("key-changed", fmt.Sprintf("%s reports group key %s", id, hist.Hex(v.Public)))
				}
				if v.Threshold != sc.T {
					bad("threshold", fmt.Sprintf("%s reports threshold %d", id, v.Threshold))
				}
				if len(v.Shares) != sc.N {
					bad("table-size", fmt.Sprintf("%s has %d table entries for %d share holders", id, len(v.Shares), sc.N))
				}
				for _, j := range ids {
					a, ok1 := v.Shares[string(j)]
					b, ok2 := first.Shares[string(j)]
					if !ok1 || !ok2 || !a.Equal(b) {
						bad("same-table", fmt.Sprintf("entry of %s differs between %s and %s", j, P[0], id))
					}
				}
				if own, ok := v.Shares[string(id)]; !ok || !ref.MulG(v.Secret).Equal(own) {
					bad("own-share", fmt.Sprintf("the new secret share of %s does not match its table entry", id))
				}
				if v.Secret.Cmp(pre.Secret[string(id)]) == 0 {
					bad("share-unchanged", fmt.Sprintf("the secret share of %s did not change", id))
				}
			}
			if len(r.vios) > nv0 {
				return
			}
			// the whole table is one degree-t sharing of the key in the exponent
			for _, sub := range hist.Subsets(ids, sc.T+1) {
				xs := make([]*big.Int, len(sub))
				ps := make([]ref.Pt, len(sub))
				for i, id := range sub {
					xs[i] = ref.IDScalar(string(id))
					ps[i] = first.Shares[string(id)]
				}
				if !ref.ReconstructExp(xs, ps).Equal(r.ln.pub) {
					bad("reconstruct-table", fmt.Sprintf("the new table entries of %s do not interpolate to the group key", names(sub)))
					return
				}
			}
			// new shares of P reconstruct; an absent party's old share is retired
			for _, sub := range hist.Subsets(P, sc.T+1) {
				xs := make([]*big.Int, len(sub))
				ys := make([]*big.Int, len(sub))
				for i, id := range sub {
					xs[i], ys[i] = ref.IDScalar(string(id)), views[string(id)].Secret
				}
				if !ref.MulG(ref.Reconstruct(xs, ys)).Equal(r.ln.pub) {
					bad("reconstruct-secret", fmt.Sprintf("the new shares of %s do not reconstruct the group key", names(sub)))
					return
				}
			}
			for _, ab := range ids {
				if inP[string(ab)] {
					continue
				}
				old := pre.Secret[string(ab)]
				if e, ok := first.Shares[string(ab)]; ok && ref.MulG(old).Equal(e) {
					bad("absent-share-not-retired", fmt.Sprintf("the pre-refresh share of the absent party %s still matches its entry in the new table", ab))
					return
				}
				if sc.T >= 1 {
					for _, sub := range hist.Subsets(P, sc.T) {
						xs := []*big.Int{ref.IDScalar(string(ab))}
						ys := []*big.Int{old}
						for _, id := range sub {
							xs, ys = append(xs, ref.IDScalar(string(id))), append(ys, views[string(id)].Secret)
						}
						if ref.MulG(ref.Reconstruct(xs, ys)).Equal(r.ln.pub) {
							bad("absent-share-reconstructs", fmt.Sprintf("the pre-refresh share of the absent party %s together with the new shares of %s reconstructs the key", ab, names(sub)))
							return
						}
					}
				}
			}
			// P signs with the new material
			nm := &hist.Mat{Sc: m.Sc, IDs: P, Frost: map[party.ID]*frost.Config{}, Tap: map[party.ID]*frost.TaprootConfig{}}
			for _, id := range P {
				switch c := o.Results[id].(type) {
				case *frost.Config:
					nm.Frost[id] = c
				case *frost.TaprootConfig:
					nm.Tap[id] = c
				}
			}
			{
				S := P[:sc.T+1]
				msg := hist.Msg("c08-subset")
				so := r.run(nm.SignSpec(S, msg, nil), step, "sign-after-subset-refresh")
				if err := hist.CheckSigned(so, S, r.ln.pub, msg); err != nil {
					bad("new-material-cannot-sign", fmt.Sprintf("%v — %s", err, hist.Describe(so)))
					return
				}
			}
		}
	}
}

func (r *runner) inputMutated(op, what, detail string) {
	if *strictInputs {
		r.violate("input-mutated:"+op+":"+what, detail)
		return
	}
	r.observe("input-mutated|"+r.k.Scenario.Proto+"|"+op+":"+what, fmt.Sprintf("%s history=[%s]: %s", r.k.Scenario, strings.Join(r.k.History, ","), detail))
}

func holders(o *sess.Outcome, S []party.ID, pub ref.Pt, msg []byte) string {
	var parts []string
	for _, id := range S {
		if res, ok := o.Results[id]; ok {
			v := "VALID under the group key"
			if err := hist.CheckSigned(&sess.Outcome{Results: map[party.ID]interface{}{id: res}}, []party.ID{id}, pub, msg); err != nil {
				v = "invalid"
			}
			parts = append(parts, fmt.Sprintf("%s holds a signature (%s)", id, v))
		}
	}
	sort.Strings(parts)
	return strings.Join(parts, "; ") + " — " + hist.Describe(o)
}

func (r *runner) opRestore(step int, last bool) bool {
	pre, err := r.cur.Facts()
	if err != nil {
		return false
	}
	m2, err := r.cur.Fresh()
	if err != nil {
		if last {
			r.violate("restore-fails", err.Error())
		}
		return false
	}
	post, err := m2.Facts()
	if err != nil {
		if last {
			r.violate("restore-fails", "restored material unreadable: "+err.Error())
		}
		return false
	}
	if last {
		if d := hist.Diff(pre, post); len(d) > 0 {
			r.violate("restore-alters:"+strings.Join(d, "+"), fmt.Sprintf("serialize+restore changed {%s}", strings.Join(d, ", ")))
		}
		for _, e := range m2.Consistency() {
			r.violate("sharing:"+hist.Clause(e), "after serialize+restore: "+e.Error())
		}
	}
	r.cur = m2
	return true
}

func (r *runner) opSign(step int, last bool) bool {
	sc := r.k.Scenario
	S := historySigners(sc, r.cur.IDs)
	msg := hist.Msg(fmt.Sprintf("c08 sign step %d", step))
	pre, err := r.cur.Facts()
	if err != nil {
		return false
	}
	o := r.run(r.cur.SignSpec(S, msg, nil), step, "sign")
	if o.Panic != "" {
		if last {
			r.panicked("sign", o.Panic)
		}
		return false
	}
	err = hist.CheckSigned(o, S, r.ln.pub, msg)
	if last {
		if err != nil {
			clause := "sign-fails-after:" + r.prev
			if r.refreshed {
				clause = "sign-after-refresh-fails"
			}
			r.violate(clause, fmt.Sprintf("signers %s: %v", names(S), err))
		}
		if post, e2 := r.cur.Facts(); e2 != nil {
			r.inputMutated("sign", "unreadable", e2.Error())
		} else if d := hist.Diff(pre, post); len(d) > 0 {
			r.inputMutated("sign", strings.Join(d, "+"), fmt.Sprintf("the configuration objects handed to the signing session changed in {%s}", strings.Join(d, ", ")))
		}
	}
	return err == nil
}

// opForgetChainKey: every party's configuration loses its (optional) chain key; secret shares, public
// tables and the group key are untouched, so the key line continues with a new snapshot.
func (r *runner) opForgetChainKey(step int) bool {
	if r.cur.CMP == nil {
		return false
	}
	for _, c := range r.cur.CMP {
		c.ChainKey = nil
	}
	f, err := r.cur.Facts()
	var snap *hist.Snap
	if err == nil {
		snap, err = r.cur.Snapshot()
	}
	if err != nil {
		r.violate("sharing:readable", "configuration without chain key: "+err.Error())
		return false
	}
	r.ln = &line{pub: r.ln.pub, epochs: []*hist.Snap{snap}, facts: []*hist.Facts{f}, names: []string{fmt.Sprintf("forget-chain-key@%d", step)}}
	r.refreshed = false
	return true
}

func (r *runner) opDerive(step int, last bool, i uint32) (ok, pruned bool) {
	d := r.cur.Derive(i)
	if len(d.Panics) > 0 {
		if last {
			r.panicked("derive", d.Describe())
		}
		return false, false
	}
	if d.Refused() {
		// the API does not offer a child here (C14 judges whether it should): nothing of C08 to evaluate
		r.observe("derive-unavailable|"+r.k.Scenario.Proto, fmt.Sprintf("%s history=[%s]: %s", r.k.Scenario, strings.Join(r.k.History[:step+1], ","), d.Describe()))
		return false, true
	}
	f, err := d.Mat.Facts()
	var snap *hist.Snap
	if err == nil {
		snap, err = d.Mat.Snapshot()
	}
	if err != nil {
		if last {
			r.violate("derived-sharing:readable", err.Error())
		}
		return false, false
	}
	if last {
		for _, e := range d.Mat.Consistency() {
			r.violate("derived-sharing:"+hist.Clause(e), e.Error())
		}
	}
	// a derived key starts a new key line: its group key is what later refreshes must preserve
	r.ln = &line{pub: f.Pub[f.IDs[0]], epochs: []*hist.Snap{snap}, facts: []*hist.Facts{f}, names: []string{fmt.Sprintf("derive@%d", step)}}
	r.cur = d.Mat
	r.refreshed = false
	return true, false
}

// ---- enumeration ----------------------------------------------------------------------------------

func scenarios() []hist.Scenario {
	var l []hist.Scenario
	maxN := 3
	if vkit.Thorough() {
		maxN = 4
	}
	for _, proto := range []string{hist.Frost, hist.Taproot} {
		for n := 2; n <= maxN; n++ {
			for t := 0; t < n; t++ {
				l = append(l, hist.Scenario{Proto: proto, N: n, T: t})
			}
		}
	}
	l = append(l, hist.Scenario{Proto: hist.Doerner, N: 2, T: 1})
	l = append(l, hist.Scenario{Proto: hist.CMP, N: 2, T: 1})
	if vkit.Thorough() {
		l = append(l, hist.Scenario{Proto: hist.CMP, N: 3, T: 1}, hist.Scenario{Proto: hist.CMP, N: 3, T: 2})
	}
	return l
}

func alphabet() []string {
	if vkit.Thorough() {
		return []string{"refresh", "restore", "sign", "derive:0", "derive:2147483647"}
	}
	return []string{"refresh", "restore", "sign", "derive:1"}
}

func depth(sc hist.Scenario) int {
	if !vkit.Thorough() {
		return 2
	}
	if sc.Proto == hist.CMP && sc.N >= 3 {
		return 2
	}
	return 3
}

// histories: all sequences over the alphabet of length 1..d, breadth-first.
func histories(alpha []string, d int) [][]string {
	var out [][]string
	level := [][]string{{}}
	for l := 1; l <= d; l++ {
		var next [][]string
		for _, h := range level {
			for _, a := range alpha {
				next = append(next, append(append([]string{}, h...), a))
			}
		}
		out = append(out, next...)
		level = next
	}
	return out
}

func main() {
	res := vkit.Init("C08")
	drv.Install()
	drv.CallTimeout = 120 * time.Second
	res.Rule = "one case = (protocol family, n, t, history): key generation followed by a sequence over {refresh, restore = serialize+restore of every party, sign by the last t+1 parties, derive(i)}; ALL sequences up to the depth bound, breadth-first; the case runs its history from scratch on live objects and evaluates the oracle of its last operation (prefixes are cases of their own); after a refresh: group key, consistency conditions, share changed w.r.t. every earlier epoch snapshot, every (t+1)-subset with shares from >=2 epochs, signing with all-new material for every (t+1)-subset and the full set, and one signing session per (earlier epoch, signer set, stale signer) that must leave everybody without a result; distinct = distinct (scenario, history) whose prefix is executable"
	res.Assumptions = []string{
		"in-order delivery, no faults: a refresh is an operation that completes (a refresh that fails half-way is outside this property's quantifier)",
		"a BIP-32 derivation starts a new key line: epochs before the derivation are not carried across it",
		"CMP: t=1 (n=2), t in {1,2} (n=3, thorough); the degenerate threshold 0 is enumerated for FROST only",
		"epochs are compared by value through serialized snapshots; what happens to the objects handed to a session is recorded separately (input_observations)",
	}

	var rp kase
	if vkit.LoadReplay(&rp) {
		r := newRunner(rp, true)
		out := r.execute()
		fmt.Println("outcome:", out)
		for _, v := range r.vios {
			fmt.Println("VIOLATION", v[0], "\n  ", v[1])
		}
		if len(r.vios) > 0 {
			os.Exit(1)
		}
		return
	}

	deadline := vkit.Deadline(110*time.Second, 23*time.Minute)
	outcomes := map[string]int64{}
	perScenario := map[string]int64{}
	stats := map[string]int64{}
	obs := map[string]int64{}
	obsDetail := map[string]string{}
	n := 0
	cut := false
	for _, sc := range scenarios() {
		if !vkit.Want(sc.String()) {
			continue
		}
		hs := histories(alphabet(), depth(sc))
		if sc.Proto == hist.CMP {
			// a key whose stored configurations carry no chain key (it is optional: Validate, Refresh, Sign and the
			// decoder accept its absence, and the refresh is what gives such a key its chain key)
			hs = append(hs, []string{"forget-chain-key", "refresh"}, []string{"forget-chain-key", "sign"})
			if vkit.Thorough() {
				hs = append(hs, []string{"forget-chain-key", "refresh", "refresh"}, []string{"forget-chain-key", "restore", "refresh"}, []string{"forget-chain-key", "refresh", "derive:0"})
			}
		}
		for _, h := range hs {
			n++
			if !vkit.Mine(n) {
				continue
			}
			if !deadline.IsZero() && time.Now().After(deadline) {
				cut = true
				continue
			}
			k := kase{Scenario: sc, History: h}
			r := newRunner(k, false)
			var out string
			if p, msg, frame := vkit.Try(func() { out = r.execute() }); p {
				res.Violate("panic|history|"+frame, fmt.Sprintf("%s: %s", k.key(), msg), k)
				out = "violation"
			}
			outcomes[out]++
			if strings.HasPrefix(out, "pruned") {
				res.Case("")
			} else {
				res.Case(k.key())
				perScenario[sc.String()]++
			}
			for _, v := range r.vios {
				res.Violate(v[0], v[1], k)
			}
			for a, b := range r.stats {
				stats[a] += b
			}
			for a, b := range r.obs {
				obs[a] += b
				if _, ok := obsDetail[a]; !ok {
					obsDetail[a] = r.obsDetail[a]
				}
			}
			if n%37 == 0 {
				res.Sample(map[string]interface{}{"scenario": sc.String(), "history": h, "outcome": out, "sessions": r.stats["sessions"]})
			}
		}
	}
	if cut {
		res.Exhaustive = false
		res.Note("internal deadline reached: the remaining histories of this shard were not run")
	}
	res.Extra["outcome_classes"] = outcomes
	res.Extra["cases_per_scenario"] = perScenario
	res.Extra["oracle_work"] = stats
	res.Extra["input_observations"] = obs
	for k, d := range obsDetail {
		res.Extra["observation "+k] = d
	}
	res.Finish()
}

func newRunner(k kase, verbose bool) *runner {
	return &runner{k: k, verbose: verbose, stats: map[string]int64{}, obs: map[string]int64{}, obsDetail: map[string]string{}}
}
