package main

// The six layers of the OT stack, each driven exactly as the repository's tests drive them
// (sender / receiver objects exchanging message structs), with a hook between the two
// parties for every message, per-party seeded randomness, and an independent evaluation of
// the layer's defining relation on the two parties' actual outputs.

import (
	"bytes"
	"fmt"
	"math/big"

	"github.com/cronokirby/saferith"
	"github.com/taurusgroup/multi-party-sig/internal/ot"
	"github.com/taurusgroup/multi-party-sig/internal/params"
	"github.com/taurusgroup/multi-party-sig/internal/zzverif/drv"
	"github.com/taurusgroup/multi-party-sig/internal/zzverif/ref"
	"github.com/taurusgroup/multi-party-sig/internal/zzverif/vkit"
	"github.com/taurusgroup/multi-party-sig/pkg/hash"
	"github.com/taurusgroup/multi-party-sig/pkg/math/curve"
	"github.com/taurusgroup/multi-party-sig/pkg/math/sample"
)

const nOT = params.OTParam
const nB = params.OTBytes

type pad = [nB]byte

var bigOne = big.NewInt(1)

func seedVal() int64 { return *vkit.Seed }

func scalarFromBig(x *big.Int) curve.Scalar {
	var b [32]byte
	new(big.Int).Mod(x, ref.N).FillBytes(b[:])
	s := group.NewScalar()
	if err := s.UnmarshalBinary(b[:]); err != nil {
		panic("c13 harness: " + err.Error())
	}
	return s
}

func bigFromScalar(s curve.Scalar) *big.Int {
	b, err := s.MarshalBinary()
	if err != nil {
		panic("c13 harness: " + err.Error())
	}
	return new(big.Int).SetBytes(b)
}

// bit i of a bit vector, documented convention of the package: byte i>>3, LSB first.
func bit(i int, v []byte) int { return int(v[i>>3]>>(uint(i)&7)) & 1 }

// ---- run context --------------------------------------------------------------------------------

// hookFn sees message number idx (pointer to the message struct) on its way from one party
// to the other and returns the message to deliver.  extra: secret-bit-guided extra indices.
type hookFn func(idx int, name, dir string, msg interface{}, extra map[string][]int) interface{}

type runCtx struct {
	label  string
	rs, rr *drv.DRBG
	hook   hookFn
	stopAt int // stop right after the hook of this message (-1: never); used to record a message
}

func newCtx(label string, hook hookFn) *runCtx {
	return &runCtx{label: label, rs: drv.NewDRBG("S|"+label, seedVal()), rr: drv.NewDRBG("R|"+label, seedVal()), hook: hook, stopAt: -1}
}
func (x *runCtx) useS() { drv.Use(x.rs) }
func (x *runCtx) useR() { drv.Use(x.rr) }

type stopRun struct{}

func (x *runCtx) h(idx int, name, dir string, msg interface{}, extra map[string][]int) interface{} {
	if x.hook != nil {
		msg = x.hook(idx, name, dir, msg, extra)
	}
	if x.stopAt == idx {
		panic(stopRun{})
	}
	return msg
}

type outcome struct {
	Err      string `json:"err,omitempty"`      // first error returned by a party
	ErrSide  string `json:"err_side,omitempty"` // S | R
	Panic    string `json:"panic,omitempty"`
	Frame    string `json:"frame,omitempty"`
	Finished bool   `json:"finished"` // both parties produced their output
	RelOK    bool   `json:"rel_ok"`   // defining relation holds on the actual outputs
	Rel      string `json:"rel,omitempty"`
	Stopped  bool   `json:"-"`
	Digest   string `json:"digest,omitempty"` // short digest of the outputs (distinctness across nonces)
}

type errAt struct {
	side string
	err  error
}

func fail(side string, err error) { panic(errAt{side, err}) }

// guard runs body; errors are signalled with fail(), stops with stopRun; real panics are
// caught by vkit.Try and attributed to the innermost repository frame.
func guard(body func(o *outcome)) (o outcome) {
	p, msg, frame := vkit.Try(func() {
		defer func() {
			if r := recover(); r != nil {
				switch e := r.(type) {
				case errAt:
					o.Err, o.ErrSide = e.err.Error(), e.side
				case stopRun:
					o.Stopped = true
				default:
					panic(r)
				}
			}
		}()
		body(&o)
	})
	if p {
		o.Panic, o.Frame = msg, frame
	}
	return
}

// firstBits returns the first and the last index with bit 0 and with bit 1 among n bits
// (-1 where there is none): array elements whose treatment depends on a secret bit are
// addressed for both values of the bit, at both ends.
func firstBits(v []byte, n int) []int {
	r := []int{-1, -1, -1, -1}
	for i := 0; i < n; i++ {
		b := bit(i, v)
		if r[b] < 0 {
			r[b] = i
		}
		r[2+b] = i
	}
	return r
}

func ctxHash(tag string, n int) *hash.Hash {
	// as the tests do: one hash, one more byte string written per use
	h := hash.New()
	_ = h.WriteAny([]byte("c13|" + tag))
	for i := 0; i <= n; i++ {
		_ = h.WriteAny([]byte{byte(i)})
	}
	return h
}

// ---- layer 1: random OT ---------------------------------------------------------------------------

func runRandom(x *runCtx, choice int, ctx int) outcome {
	return guard(func(o *outcome) {
		h := ctxHash("random", ctx)
		nonce := make([]byte, 32)
		_, _ = h.Digest().Read(nonce)
		x.useS()
		msgS0, setupS := ot.RandomOTSetupSend(h.Clone(), group)
		msgS0 = x.h(0, "RandomOTSetupSendMessage", "S>R", msgS0, nil).(*ot.RandomOTSetupSendMessage)
		x.useR()
		setupR, err := ot.RandomOTSetupReceive(h.Clone(), msgS0)
		if err != nil {
			fail("R", err)
		}
		receiver := ot.NewRandomOTReceiver(nonce, setupR, saferith.Choice(choice))
		sender := ot.NewRandomOTSender(nonce, setupS)
		msgR1, err := receiver.Round1()
		if err != nil {
			fail("R", err)
		}
		pR1 := x.h(1, "RandomOTReceiveRound1Message", "R>S", &msgR1, nil).(*ot.RandomOTReceiveRound1Message)
		x.useS()
		msgS1, err := sender.Round1(pR1)
		if err != nil {
			fail("S", err)
		}
		pS1 := x.h(2, "RandomOTSendRound1Message", "S>R", &msgS1, nil).(*ot.RandomOTSendRound1Message)
		x.useR()
		msgR2 := receiver.Round2(pS1)
		pR2 := x.h(3, "RandomOTReceiveRound2Message", "R>S", &msgR2, nil).(*ot.RandomOTReceiveRound2Message)
		x.useS()
		msgS2, resS, err := sender.Round2(pR2)
		if err != nil {
			fail("S", err)
		}
		pS2 := x.h(4, "RandomOTSendRound2Message", "S>R", &msgS2, nil).(*ot.RandomOTSendRound2Message)
		x.useR()
		resR, err := receiver.Round3(pS2)
		if err != nil {
			fail("R", err)
		}
		o.Finished = true
		chosen, other := resS.Rand0, resS.Rand1
		if choice == 1 {
			chosen, other = other, chosen
		}
		o.RelOK = resR == chosen && resR != other
		if !o.RelOK {
			o.Rel = fmt.Sprintf("random OT: choice=%d receiver pad %x, sender pads %x / %x", choice, resR, resS.Rand0, resS.Rand1)
		}
		o.Digest = fmt.Sprintf("%x", resR[:6])
	})
}

// ---- layer 2: correlated OT setup ------------------------------------------------------------------

type setupPair struct {
	S *ot.CorreOTSendSetup
	R *ot.CorreOTReceiveSetup
}

func (p setupPair) delta() pad       { return priv(p.S, "_Delta").Interface().(pad) }
func (p setupPair) kDelta() [nOT]pad { return priv(p.S, "_K_Delta").Interface().([nOT]pad) }
func (p setupPair) k0() [nOT]pad     { return priv(p.R, "_K_0").Interface().([nOT]pad) }
func (p setupPair) k1() [nOT]pad     { return priv(p.R, "_K_1").Interface().([nOT]pad) }

func runCorreSetup(x *runCtx, ctx int, out *setupPair) outcome {
	return guard(func(o *outcome) {
		h := ctxHash("setup", ctx)
		sender := ot.NewCorreOTSetupSender(nil, h.Clone())
		receiver := ot.NewCorreOTSetupReceiver(nil, h.Clone(), group)
		x.useR()
		msgR1 := receiver.Round1()
		msgR1 = x.h(0, "CorreOTSetupReceiveRound1Message", "R>S", msgR1, nil).(*ot.CorreOTSetupReceiveRound1Message)
		x.useS()
		msgS1, err := sender.Round1(msgR1)
		if err != nil {
			fail("S", err)
		}
		d := priv(sender, "_Delta").Interface().(pad)
		extra := map[string][]int{"Msgs": firstBits(d[:], nOT)}
		msgS1 = x.h(1, "CorreOTSetupSendRound1Message", "S>R", msgS1, extra).(*ot.CorreOTSetupSendRound1Message)
		x.useR()
		msgR2, err := receiver.Round2(msgS1)
		if err != nil {
			fail("R", err)
		}
		msgR2 = x.h(2, "CorreOTSetupReceiveRound2Message", "R>S", msgR2, extra).(*ot.CorreOTSetupReceiveRound2Message)
		x.useS()
		msgS2 := sender.Round2(msgR2)
		msgS2 = x.h(3, "CorreOTSetupSendRound2Message", "S>R", msgS2, extra).(*ot.CorreOTSetupSendRound2Message)
		x.useR()
		msgR3, setupR, err := receiver.Round3(msgS2)
		if err != nil {
			fail("R", err)
		}
		msgR3 = x.h(4, "CorreOTSetupReceiveRound3Message", "R>S", msgR3, extra).(*ot.CorreOTSetupReceiveRound3Message)
		x.useS()
		setupS, err := sender.Round3(msgR3)
		if err != nil {
			fail("S", err)
		}
		o.Finished = true
		p := setupPair{setupS, setupR}
		if out != nil {
			*out = p
		}
		delta, kd, k0, k1 := p.delta(), p.kDelta(), p.k0(), p.k1()
		o.RelOK = true
		for i := 0; i < nOT; i++ {
			want, other := k0[i], k1[i]
			if bit(i, delta[:]) == 1 {
				want, other = other, want
			}
			if kd[i] != want || kd[i] == other {
				o.RelOK = false
				o.Rel = fmt.Sprintf("setup row %d: Delta_i=%d K_Delta=%x K_0=%x K_1=%x", i, bit(i, delta[:]), kd[i], k0[i], k1[i])
				break
			}
		}
		o.Digest = fmt.Sprintf("%x", delta[:6])
	})
}

// ---- layer 3: correlated OT extension ---------------------------------------------------------------

func deltaExtra(base setupPair) map[string][]int {
	d := base.delta()
	return map[string][]int{"U": firstBits(d[:], nOT), "CorreMsg.U": firstBits(d[:], nOT), "Msg.CorreMsg.U": firstBits(d[:], nOT), "Msg.Msg.CorreMsg.U": firstBits(d[:], nOT)}
}

func xorPad(a, b pad) (r pad) {
	for i := range r {
		r[i] = a[i] ^ b[i]
	}
	return
}

func runCorre(x *runCtx, base setupPair, ctx int, choices []byte) outcome {
	return guard(func(o *outcome) {
		h := ctxHash("corre", ctx)
		batch := 8 * len(choices)
		x.useR()
		msg, resR := ot.CorreOTReceive(h.Clone(), base.R, append([]byte{}, choices...))
		msg = x.h(0, "CorreOTReceiveMessage", "R>S", msg, deltaExtra(base)).(*ot.CorreOTReceiveMessage)
		x.useS()
		resS, err := ot.CorreOTSend(h.Clone(), base.S, batch, msg)
		if err != nil {
			fail("S", err)
		}
		o.Finished = true
		T := priv(resR, "_T").Interface().([]pad)
		Q := priv(resS, "_Q").Interface().([]pad)
		delta := base.delta()
		o.RelOK = len(T) == batch && len(Q) == batch
		if !o.RelOK {
			o.Rel = fmt.Sprintf("correlated OT: %d rows of T, %d rows of Q for batch %d", len(T), len(Q), batch)
			return
		}
		for j := 0; j < batch; j++ {
			want := T[j]
			if bit(j, choices) == 1 {
				want = xorPad(T[j], delta)
			}
			if Q[j] != want {
				o.RelOK = false
				o.Rel = fmt.Sprintf("correlated OT row %d of %d: c=%d Q=%x T=%x Delta=%x", j, batch, bit(j, choices), Q[j], T[j], delta)
				break
			}
		}
		o.Digest = fmt.Sprintf("%x", T[0][:6])
	})
}

// ---- layer 4: extended OT -----------------------------------------------------------------------------

func runExtended(x *runCtx, base setupPair, ctx int, choices []byte) outcome {
	return guard(func(o *outcome) {
		h := ctxHash("extended", ctx)
		batch := 8 * len(choices)
		x.useR()
		msg, resR := ot.ExtendedOTReceive(h.Clone(), base.R, append([]byte{}, choices...))
		msg = x.h(0, "ExtendedOTReceiveMessage", "R>S", msg, deltaExtra(base)).(*ot.ExtendedOTReceiveMessage)
		x.useS()
		resS, err := ot.ExtendedOTSend(h.Clone(), base.S, batch, msg)
		if err != nil {
			fail("S", err)
		}
		o.Finished = true
		V0 := priv(resS, "_V0").Interface().([]pad)
		V1 := priv(resS, "_V1").Interface().([]pad)
		VC := priv(resR, "_VChoices").Interface().([]pad)
		o.RelOK = len(V0) == batch && len(V1) == batch && len(VC) == batch
		if !o.RelOK {
			o.Rel = fmt.Sprintf("extended OT: lengths %d/%d/%d for batch %d", len(V0), len(V1), len(VC), batch)
			return
		}
		for j := 0; j < batch; j++ {
			want, other := V0[j], V1[j]
			if bit(j, choices) == 1 {
				want, other = other, want
			}
			if VC[j] != want || VC[j] == other {
				o.RelOK = false
				o.Rel = fmt.Sprintf("extended OT element %d of %d: c=%d V_c=%x V0=%x V1=%x", j, batch, bit(j, choices), VC[j], V0[j], V1[j])
				break
			}
		}
		o.Digest = fmt.Sprintf("%x", VC[0][:6])
	})
}

// extRel checks the defining relation of one extended OT run on the actual outputs.
func extRel(resS *ot.ExtendedOTSendResult, resR *ot.ExtendedOTReceiveResult, choices []byte) string {
	batch := 8 * len(choices)
	V0 := priv(resS, "_V0").Interface().([]pad)
	V1 := priv(resS, "_V1").Interface().([]pad)
	VC := priv(resR, "_VChoices").Interface().([]pad)
	if len(V0) != batch || len(V1) != batch || len(VC) != batch {
		return fmt.Sprintf("lengths %d/%d/%d for batch %d", len(V0), len(V1), len(VC), batch)
	}
	for j := 0; j < batch; j++ {
		want, other := V0[j], V1[j]
		if bit(j, choices) == 1 {
			want, other = other, want
		}
		if VC[j] != want || VC[j] == other {
			return fmt.Sprintf("element %d of %d: c=%d", j, batch, bit(j, choices))
		}
	}
	return ""
}

// runExtendedHistory: histories on ONE setup in which the two parties do not move in lockstep.  Every
// execution is identified by its own transcript context, so none of these may disturb an honest run:
//
//	abandoned - the Receiver prepares an execution whose message is never delivered, then both run normally;
//	swapped   - two executions are prepared as A, B by the Receiver and processed as B, A by the Sender;
//	reloaded  - after one run both setups go through MarshalBinary/UnmarshalBinary, then both run again.
func runExtendedHistory(x *runCtx, variant string, ctx int, choices []byte) outcome {
	return guard(func(o *outcome) {
		var p setupPair
		if so := runCorreSetup(x, 1000+ctx, &p); !so.Finished || !so.RelOK {
			fail("S", fmt.Errorf("setup for the history failed: %+v", so))
		}
		batch := 8 * len(choices)
		one := func(pp setupPair, c int) {
			h := ctxHash("extended-history", c)
			x.useR()
			msg, resR := ot.ExtendedOTReceive(h.Clone(), pp.R, append([]byte{}, choices...))
			x.useS()
			resS, err := ot.ExtendedOTSend(h.Clone(), pp.S, batch, msg)
			if err != nil {
				fail("S", fmt.Errorf("honest run after history %q: %w", variant, err))
			}
			if r := extRel(resS, resR, choices); r != "" {
				o.Rel = "extended OT after history " + variant + ": " + r
				panic(stopRun{})
			}
		}
		o.RelOK = true
		defer func() {
			if o.Rel != "" {
				o.RelOK = false
			}
		}()
		switch variant {
		case "abandoned":
			x.useR()
			_, _ = ot.ExtendedOTReceive(ctxHash("extended-history", 100*ctx+1).Clone(), p.R, append([]byte{}, choices...))
			one(p, 100*ctx+2)
		case "swapped":
			hA, hB := ctxHash("extended-history", 100*ctx+3), ctxHash("extended-history", 100*ctx+4)
			x.useR()
			mA, rA := ot.ExtendedOTReceive(hA.Clone(), p.R, append([]byte{}, choices...))
			mB, rB := ot.ExtendedOTReceive(hB.Clone(), p.R, append([]byte{}, choices...))
			x.useS()
			sB, errB := ot.ExtendedOTSend(hB.Clone(), p.S, batch, mB)
			sA, errA := ot.ExtendedOTSend(hA.Clone(), p.S, batch, mA)
			if errA != nil || errB != nil {
				fail("S", fmt.Errorf("two executions prepared as A, B and processed as B, A: %v / %v", errA, errB))
			}
			if r := extRel(sA, rA, choices) + extRel(sB, rB, choices); r != "" {
				o.Rel = "extended OT, executions processed out of order: " + r
			}
		case "reloaded":
			one(p, 100*ctx+5)
			bs, errS := p.S.MarshalBinary()
			br, errR := p.R.MarshalBinary()
			s2, r2 := new(ot.CorreOTSendSetup), new(ot.CorreOTReceiveSetup)
			if errS != nil || errR != nil || s2.UnmarshalBinary(bs) != nil || r2.UnmarshalBinary(br) != nil {
				fail("S", fmt.Errorf("setup does not round-trip through MarshalBinary/UnmarshalBinary"))
			}
			one(setupPair{s2, p.R}, 100*ctx+6) // only the Sender reloaded
			one(setupPair{s2, r2}, 100*ctx+7)  // both reloaded
		}
		o.Finished = true
	})
}

// runMultiplyHistory: the same histories one layer up, on whole multiplications (alpha*beta shared
// additively).  Whatever a party keeps per setup OBJECT or per process (a cache, a precomputed table)
// must not depend on what that party alone has seen:
//
//	abandoned - the Receiver opens a multiplication that the Sender never sees, then both multiply normally;
//	reloaded  - after one multiplication only the Receiver's setup goes through MarshalBinary/UnmarshalBinary
//	            (the Sender keeps its live object), then both multiply again; then the mirror image;
//	interleaved - two multiplications are opened as A, B by the Receiver and answered as B, A by the Sender.
func runMultiplyHistory(x *runCtx, variant string, ctx int) outcome {
	return guard(func(o *outcome) {
		var p setupPair
		if so := runCorreSetup(x, 2000+ctx, &p); !so.Finished || !so.RelOK {
			fail("S", fmt.Errorf("setup for the history failed: %+v", so))
		}
		a, b := big.NewInt(3), new(big.Int).Sub(ref.N, big.NewInt(2))
		check := func(tA, tB curve.Scalar, what string) {
			sum := new(big.Int).Add(bigFromScalar(tA), bigFromScalar(tB))
			sum.Mod(sum, ref.N)
			want := new(big.Int).Mul(a, b)
			want.Mod(want, ref.N)
			if sum.Cmp(want) != 0 && o.Rel == "" {
				o.Rel = fmt.Sprintf("multiply after history %s (%s): tA+tB=%x, alpha*beta=%x", variant, what, sum, want)
			}
		}
		open := func(pp setupPair, c int) (*ot.MultiplySender, *ot.MultiplyReceiver, *ot.MultiplyReceiveRound1Message) {
			h := ctxHash("multiply-history", c)
			x.useS()
			sender := ot.NewMultiplySender(h.Clone(), pp.S, scalarFromBig(a))
			x.useR()
			receiver, err := ot.NewMultiplyReceiver(h.Clone(), pp.R, scalarFromBig(b))
			if err != nil {
				fail("R", err)
			}
			return sender, receiver, receiver.Round1()
		}
		finish := func(sender *ot.MultiplySender, receiver *ot.MultiplyReceiver, m *ot.MultiplyReceiveRound1Message, what string) {
			x.useS()
			ms, tA, err := sender.Round1(m)
			if err != nil {
				fail("S", fmt.Errorf("honest multiplication after history %q (%s): %w", variant, what, err))
			}
			x.useR()
			tB, err := receiver.Round2(ms)
			if err != nil {
				fail("R", fmt.Errorf("honest multiplication after history %q (%s): %w", variant, what, err))
			}
			check(tA, tB, what)
		}
		one := func(pp setupPair, c int, what string) {
			sd, rc, m := open(pp, c)
			finish(sd, rc, m, what)
		}
		o.RelOK = true
		defer func() {
			if o.Rel != "" {
				o.RelOK = false
			}
		}()
		switch variant {
		case "abandoned":
			x.useR()
			if r, err := ot.NewMultiplyReceiver(ctxHash("multiply-history", 100*ctx+1).Clone(), p.R, scalarFromBig(b)); err == nil {
				_ = r.Round1() // never delivered
			}
			one(p, 100*ctx+2, "after an opened and abandoned multiplication")
			one(p, 100*ctx+3, "second multiplication")
		case "reloaded":
			one(p, 100*ctx+4, "first")
			bs, errS := p.S.MarshalBinary()
			br, errR := p.R.MarshalBinary()
			s2, r2 := new(ot.CorreOTSendSetup), new(ot.CorreOTReceiveSetup)
			if errS != nil || errR != nil || s2.UnmarshalBinary(bs) != nil || r2.UnmarshalBinary(br) != nil {
				fail("S", fmt.Errorf("setup does not round-trip through MarshalBinary/UnmarshalBinary"))
			}
			one(setupPair{p.S, r2}, 100*ctx+5, "only the Receiver reloaded")
			one(setupPair{s2, p.R}, 100*ctx+6, "only the Sender reloaded")
			one(setupPair{s2, r2}, 100*ctx+7, "both reloaded")
		case "interleaved":
			sA, rA, mA := open(p, 100*ctx+8)
			sB, rB, mB := open(p, 100*ctx+9)
			finish(sB, rB, mB, "B of A,B answered first")
			finish(sA, rA, mA, "A of A,B answered second")
		}
		o.Finished = true
	})
}

// ---- layer 5: additive OT -----------------------------------------------------------------------------

func runAdditive(x *runCtx, base setupPair, ctx int, choices []byte, a0, a1 *big.Int) outcome {
	return guard(func(o *outcome) {
		h := ctxHash("additive", ctx)
		batch := 8 * len(choices)
		alpha := [2]curve.Scalar{scalarFromBig(a0), scalarFromBig(a1)}
		sender := ot.NewAdditiveOTSender(h.Clone(), base.S, batch, alpha)
		receiver := ot.NewAdditiveOTReceiver(h.Clone(), base.R, group, append([]byte{}, choices...))
		x.useR()
		msgR1 := receiver.Round1()
		msgR1 = x.h(0, "AdditiveOTReceiveRound1Message", "R>S", msgR1, deltaExtra(base)).(*ot.AdditiveOTReceiveRound1Message)
		x.useS()
		msgS1, resS, err := sender.Round1(msgR1)
		if err != nil {
			fail("S", err)
		}
		msgS1 = x.h(1, "AdditiveOTSendRound1Message", "S>R", msgS1, map[string][]int{"CombinedPads": firstBits(choices, batch)}).(*ot.AdditiveOTSendRound1Message)
		x.useR()
		resR, err := receiver.Round2(msgS1)
		if err != nil {
			fail("R", err)
		}
		o.Finished = true
		o.RelOK = len(resS) == batch && len(resR) == batch
		if !o.RelOK {
			o.Rel = fmt.Sprintf("additive OT: %d sender pads, %d receiver results for batch %d", len(resS), len(resR), batch)
			return
		}
		as := [2]*big.Int{new(big.Int).Mod(a0, ref.N), new(big.Int).Mod(a1, ref.N)}
		for j := 0; j < batch; j++ {
			for k := 0; k < 2; k++ {
				sum := new(big.Int).Add(bigFromScalar(resS[j][k]), bigFromScalar(resR[j][k]))
				sum.Mod(sum, ref.N)
				want := big.NewInt(0)
				if bit(j, choices) == 1 {
					want = as[k]
				}
				if sum.Cmp(want) != 0 {
					o.RelOK = false
					o.Rel = fmt.Sprintf("additive OT element %d[%d] of %d: c=%d shares sum to %x, want %x", j, k, batch, bit(j, choices), sum, want)
					return
				}
			}
		}
		o.Digest = fmt.Sprintf("%x", bigFromScalar(resS[0][0]).Bytes())[:12]
	})
}

// ---- layer 6: multiplication ----------------------------------------------------------------------------

func runMultiply(x *runCtx, base setupPair, ctx int, a, b *big.Int) outcome {
	return guard(func(o *outcome) {
		h := ctxHash("multiply", ctx)
		x.useS()
		sender := ot.NewMultiplySender(h.Clone(), base.S, scalarFromBig(a))
		x.useR()
		receiver, err := ot.NewMultiplyReceiver(h.Clone(), base.R, scalarFromBig(b))
		if err != nil {
			fail("R", err)
		}
		choices := priv(receiver, "choices").Interface().([]byte)
		msgR1 := receiver.Round1()
		msgR1 = x.h(0, "MultiplyReceiveRound1Message", "R>S", msgR1, deltaExtra(base)).(*ot.MultiplyReceiveRound1Message)
		x.useS()
		msgS1, tA, err := sender.Round1(msgR1)
		if err != nil {
			fail("S", err)
		}
		fb := firstBits(choices, 8*len(choices))
		// the two check weights, derived as any observer can: public context hash + the U
		// columns of the receiver's message (both parties absorb them in the extended OT)
		hp := h.Clone()
		for i := 0; i < nOT; i++ {
			_ = hp.WriteAny(msgR1.Msg.Msg.CorreMsg.U[i])
		}
		dg := hp.Fork(&hash.BytesWithDomain{TheDomain: "Multiply Chi Sampling", Bytes: nil}).Digest()
		kernelChi = []*big.Int{bigFromScalar(sample.Scalar(dg, group)), bigFromScalar(sample.Scalar(dg, group))}
		defer func() { kernelChi = nil }()
		msgS1 = x.h(1, "MultiplySendRound1Message", "S>R", msgS1, map[string][]int{"Msg.CombinedPads": fb, "RCheck": fb}).(*ot.MultiplySendRound1Message)
		x.useR()
		tB, err := receiver.Round2(msgS1)
		if err != nil {
			fail("R", err)
		}
		o.Finished = true
		sum := new(big.Int).Add(bigFromScalar(tA), bigFromScalar(tB))
		sum.Mod(sum, ref.N)
		want := new(big.Int).Mul(new(big.Int).Mod(a, ref.N), new(big.Int).Mod(b, ref.N))
		want.Mod(want, ref.N)
		o.RelOK = sum.Cmp(want) == 0
		if !o.RelOK {
			o.Rel = fmt.Sprintf("multiply: alpha=%x beta=%x tA=%x tB=%x tA+tB=%x, alpha*beta=%x", a, b, bigFromScalar(tA), bigFromScalar(tB), sum, want)
		}
		o.Digest = fmt.Sprintf("%064x", bigFromScalar(tA))[:12]
	})
}

var _ = bytes.Equal
