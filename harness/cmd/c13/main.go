// C13 — OT-based multiplication is correct for all inputs.
// Engine D (boundary lattice of inputs against the layers' defining relations, computed
// independently) + engine C (exhaustive single-fault enumeration over every field of every OT
// message).  Layers: random OT, correlated OT setup, correlated OT extension, extended OT
// (KOS check), additive OT, multiplication.
package main

import (
	"encoding/json"
	"flag"
	"fmt"
	"github.com/taurusgroup/multi-party-sig/internal/ot"
	"math/big"
	"os"
	"reflect"
	"regexp"
	"strings"
	"sync"

	"github.com/taurusgroup/multi-party-sig/internal/zzverif/drv"
	"github.com/taurusgroup/multi-party-sig/internal/zzverif/ref"
	"github.com/taurusgroup/multi-party-sig/internal/zzverif/vkit"
)

type Tamper struct {
	Msg  int    `json:"msg"`  // message number inside the layer's run
	Name string `json:"name"` // message struct
	Dir  string `json:"dir"`  // S>R | R>S
	Path string `json:"path"` // field path ("" = whole message)
	Op   string `json:"op"`
}

type Case struct {
	Layer  string  `json:"layer"`
	Choice int     `json:"choice,omitempty"` // random OT
	Ctxs   []int   `json:"ctxs"`             // contexts / nonces used one after the other with ONE setup
	Vec    string  `json:"vec,omitempty"`    // choice vector
	Batch  int     `json:"batch,omitempty"`
	A      string  `json:"a,omitempty"` // hex; multiply: alpha, additive: alpha[0]
	B      string  `json:"b,omitempty"` // hex; multiply: beta,  additive: alpha[1]
	ATag   string  `json:"a_tag,omitempty"`
	BTag   string  `json:"b_tag,omitempty"`
	AllIdx bool    `json:"all_idx,omitempty"` // tamper catalogue addresses EVERY array index instead of {0, mid, last, first-0-bit, first-1-bit}
	Tamper *Tamper `json:"tamper,omitempty"`
}

func (c Case) inputs() string {
	switch c.Layer {
	case "random":
		return fmt.Sprintf("choice=%d", c.Choice)
	case "corresetup":
		return "-"
	case "corre", "extended":
		return fmt.Sprintf("vec=%s,batch=%d", c.Vec, c.Batch)
	case "additive":
		return fmt.Sprintf("vec=%s,batch=%d,alpha=(%s,%s)", c.Vec, c.Batch, c.ATag, c.BTag)
	case "multiply":
		return fmt.Sprintf("alpha=%s,beta=%s", c.ATag, c.BTag)
	}
	return "?"
}

func (c Case) key(ctx int) string {
	k := fmt.Sprintf("%s|%s|ctx=%d", c.Layer, c.inputs(), ctx)
	if t := c.Tamper; t != nil {
		p := t.Path
		if p == "" {
			p = "*"
		}
		k += fmt.Sprintf("|%s.%s|%s", t.Name, p, t.Op)
	}
	return k
}

func hexBig(s string) *big.Int {
	x, ok := new(big.Int).SetString(s, 16)
	if !ok {
		panic("c13 harness: bad hex " + s)
	}
	return x
}

func vec(name string, batch int) []byte {
	v := make([]byte, batch/8)
	switch name {
	case "zeros":
	case "ones":
		for i := range v {
			v[i] = 0xFF
		}
	case "0101": // element 0 has choice 0, element 1 choice 1, ...
		for i := range v {
			v[i] = 0xAA
		}
	case "1010":
		for i := range v {
			v[i] = 0x55
		}
	case "seeded":
		_, _ = drv.NewDRBG(fmt.Sprintf("vec|%d", batch), seedVal()).Read(v)
	default:
		panic("c13 harness: vector " + name)
	}
	return v
}

var base setupPair // ONE setup shared by every run of the layers above the setup

func runLayer(c Case, ctx int, x *runCtx) outcome {
	allIdx = c.AllIdx
	switch c.Layer {
	case "random":
		return runRandom(x, c.Choice, ctx)
	case "corresetup":
		return runCorreSetup(x, ctx, nil)
	case "corre":
		return runCorre(x, base, ctx, vec(c.Vec, c.Batch))
	case "extended":
		return runExtended(x, base, ctx, vec(c.Vec, c.Batch))
	case "extended-history":
		return runExtendedHistory(x, c.Vec, ctx, vec("seeded", c.Batch))
	case "multiply-history":
		return runMultiplyHistory(x, c.Vec, ctx)
	case "additive":
		return runAdditive(x, base, ctx, vec(c.Vec, c.Batch), hexBig(c.A), hexBig(c.B))
	case "multiply":
		return runMultiply(x, base, ctx, hexBig(c.A), hexBig(c.B))
	}
	panic("c13 harness: layer " + c.Layer)
}

func rngLabel(c Case, ctx int) string {
	return fmt.Sprintf("%s|%s|ctx=%d", c.Layer, c.inputs(), ctx)
}

// uncheckedByDesign: messages of a lower layer that this layer does not (and is not meant
// to) authenticate; the same fields are enumerated again inside the layers that do check them.
func uncheckedByDesign(c Case) bool {
	t := c.Tamper
	return c.Layer == "corre" || (c.Layer == "additive" && t.Msg == 1)
}

var idxRe = regexp.MustCompile(`\[\d+\]`)

type verdict struct {
	Class   string  `json:"class"` // ok | error | still-correct | unchecked-by-design | trivial | violation
	Sig     string  `json:"sig,omitempty"`
	Detail  string  `json:"detail,omitempty"`
	Outcome outcome `json:"outcome"`
}

var hardErrs []string

var listFlag = flag.Bool("list", false, "print every case and its class on stderr")

// evaluate runs one (case, context) and judges it.
func evaluate(c Case, ctx int) verdict {
	label := rngLabel(c, ctx)
	if c.Tamper == nil {
		o := runLayer(c, ctx, newCtx(label, nil))
		v := verdict{Class: "ok", Outcome: o}
		switch {
		case o.Panic != "":
			v.Class, v.Sig = "violation", fmt.Sprintf("panic|ot|%s|%s|honest", c.Layer, o.Frame)
			v.Detail = fmt.Sprintf("honest run %s panicked: %s", c.key(ctx), o.Panic)
		case o.Err != "":
			v.Class, v.Sig = "violation", fmt.Sprintf("ot|%s|honest|error", c.Layer)
			v.Detail = fmt.Sprintf("honest run %s: party %s returned error %q", c.key(ctx), o.ErrSide, o.Err)
		case !o.Finished || !o.RelOK:
			v.Class, v.Sig = "violation", fmt.Sprintf("ot|%s|honest|wrong-relation", c.Layer)
			v.Detail = fmt.Sprintf("honest run %s: %s", c.key(ctx), o.Rel)
		}
		return v
	}
	t := c.Tamper
	seen, found, changed := false, false, false
	hook := func(idx int, name, dir string, msg interface{}, extra map[string][]int) interface{} {
		if idx != t.Msg {
			return msg
		}
		seen = true
		if t.Op == "replace-by-second-run" || t.Op == "replace-by-other-context" {
			// the corresponding message of a second honest run: same inputs and setup, either
			// other randomness or the next context / nonce
			var other interface{}
			ctx2, label2 := ctx, label+"|second"
			if t.Op == "replace-by-other-context" {
				ctx2 = ctx + 1
				label2 = rngLabel(c, ctx2)
			}
			x2 := newCtx(label2, func(i int, n, d string, m interface{}, e map[string][]int) interface{} {
				if i == t.Msg {
					other = m
				}
				return m
			})
			x2.stopAt = t.Msg
			o2 := runLayer(c, ctx2, x2)
			if other == nil || !o2.Stopped {
				hardErrs = append(hardErrs, fmt.Sprintf("%s: second run did not reach message %d (%+v)", c.key(ctx), t.Msg, o2))
				return msg
			}
			found, changed = true, dump(reflect.ValueOf(other)) != dump(reflect.ValueOf(msg))
			return other
		}
		found, changed = applyAt(msg, extra, t.Path, t.Op, label+"|"+t.Path)
		return msg
	}
	o := runLayer(c, ctx, newCtx(label, hook))
	v := verdict{Outcome: o}
	field := idxRe.ReplaceAllString(t.Path, "[]")
	if field == "" {
		field = "*"
	}
	if t.Path == "" {
		t = &Tamper{Msg: t.Msg, Name: t.Name, Dir: t.Dir, Path: "* (whole message)", Op: t.Op}
	}
	switch {
	case (!seen || !found) && o.Err != "" && (c.Layer == "multiply" || c.Layer == "additive" || c.Layer == "extended" || c.Layer == "corre"):
		// the run failed BEFORE the altered message was even reached, i.e. its honest prefix failed on the shared
		// setup.  Every honest run of this case on this setup succeeded when the catalogue was built, so an earlier
		// (refused) execution has damaged the long-lived setup: an altered multiplication must end in an error,
		// not end the usability of the setup for every later honest one.
		again := runLayer(Case{Layer: c.Layer, Vec: c.Vec, Batch: c.Batch, A: c.A, B: c.B, ATag: c.ATag, BTag: c.BTag, Choice: c.Choice, Ctxs: c.Ctxs}, ctx, newCtx(label+"|honest-again", nil))
		if again.Err != "" || !again.Finished || !again.RelOK {
			v.Class, v.Sig = "violation", fmt.Sprintf("setup-damaged-by-refused-execution|ot|%s", c.Layer)
			v.Detail = fmt.Sprintf("%s: the honest part of the run fails (%s; side %s), and so does a completely honest run of the same inputs now (%s) although it succeeded before: an earlier execution that was refused has left the shared correlated-OT setup unusable", c.key(ctx), o.Err, o.ErrSide, again.Err)
		} else {
			hardErrs = append(hardErrs, fmt.Sprintf("%s: tamper site not reached (seen=%v found=%v; %+v)", c.key(ctx), seen, found, o))
			v.Class = "trivial"
		}
	case !seen || !found:
		hardErrs = append(hardErrs, fmt.Sprintf("%s: tamper site not reached (seen=%v found=%v; %+v)", c.key(ctx), seen, found, o))
		v.Class = "trivial"
	case o.Panic != "":
		v.Class, v.Sig = "violation", fmt.Sprintf("panic|ot|%s|%s|%s.%s|%s", c.Layer, o.Frame, t.Name, field, t.Op)
		v.Detail = fmt.Sprintf("%s: after altering %s (%s) %s with %s the receiving side panicked: %s", c.key(ctx), t.Name, t.Dir, t.Path, t.Op, o.Panic)
	case !changed:
		v.Class = "trivial"
	case o.Err != "":
		v.Class = "error"
	case o.Finished && o.RelOK:
		v.Class = "still-correct"
	case uncheckedByDesign(c):
		v.Class = "unchecked-by-design"
	default:
		v.Class, v.Sig = "violation", fmt.Sprintf("ot|%s|%s.%s|%s|wrong-output-accepted", c.Layer, t.Name, field, t.Op)
		v.Detail = fmt.Sprintf("%s: %s (%s) field %s altered with %s; no party returned an error and the outputs violate the relation: %s", c.key(ctx), t.Name, t.Dir, t.Path, t.Op, o.Rel)
	}
	return v
}

// enumerate lists the tamper cases of one honest input by recording the sites of every message.
func enumerate(c Case, res *vkit.Result) (l []Case) {
	ctx := c.Ctxs[0]
	var skipped []string
	o := runLayer(c, ctx, newCtx(rngLabel(c, ctx), func(idx int, name, dir string, msg interface{}, extra map[string][]int) interface{} {
		ss, sk := sites(msg, extra)
		for _, s := range sk {
			skipped = append(skipped, name+"."+s)
		}
		for _, s := range ss {
			for _, op := range s.Ops {
				tc := c
				tc.Tamper = &Tamper{Msg: idx, Name: name, Dir: dir, Path: s.Path, Op: op}
				l = append(l, tc)
			}
		}
		for _, op := range []string{"replace-by-second-run", "replace-by-other-context"} {
			tc := c
			tc.Tamper = &Tamper{Msg: idx, Name: name, Dir: dir, Path: "", Op: op}
			l = append(l, tc)
		}
		return msg
	}))
	if o.Panic != "" || o.Err != "" || !o.RelOK {
		// the honest run itself fails: reported by the correctness part; no catalogue from it
		res.Note(fmt.Sprintf("tamper catalogue for %s not built: the honest run fails (%+v)", c.key(ctx), o))
		return nil
	}
	for _, s := range skipped {
		skippedFields[s] = true
	}
	return l
}

var skippedFields = map[string]bool{}

type named struct {
	tag string
	v   *big.Int
}

// fullLattice: {0,1,2,q-1,q-2,2^255 mod q, 3 seeded}.
func fullLattice() []named {
	q := ref.N
	sd := func(i int) named {
		b := make([]byte, 40)
		_, _ = drv.NewDRBG(fmt.Sprintf("lattice|%d", i), seedVal()).Read(b)
		return named{fmt.Sprintf("s%d", i), new(big.Int).Mod(new(big.Int).SetBytes(b), q)}
	}
	return []named{{"0", big.NewInt(0)}, {"1", big.NewInt(1)}, {"2", big.NewInt(2)},
		{"q-1", new(big.Int).Sub(q, big.NewInt(1))}, {"q-2", new(big.Int).Sub(q, big.NewInt(2))},
		{"2^255", new(big.Int).Mod(new(big.Int).Lsh(big.NewInt(1), 255), q)}, sd(1), sd(2), sd(3)}
}

func lattice() []named {
	full := fullLattice()
	if vkit.Thorough() {
		return full
	}
	return []named{full[0], full[1], full[3], full[6]}
}

func hx(x *big.Int) string { return fmt.Sprintf("%x", x) }

func allCases(res *vkit.Result, baseOK bool) (all []Case) {
	var cases []Case
	L := lattice()
	byTag := map[string]named{}
	for _, n := range fullLattice() {
		byTag[n.tag] = n
	}
	get := func(tag string) named {
		n, ok := byTag[tag]
		if !ok {
			panic("c13 harness: lattice tag " + tag)
		}
		return n
	}
	three := []int{0, 1, 2}
	vecs := []string{"zeros", "ones", "0101", "1010", "seeded"}

	// ---------------- correctness (engine D) ----------------
	nctx := 4
	if vkit.Thorough() {
		nctx = 16
	}
	for ch := 0; ch < 2; ch++ {
		for k := 0; k < nctx; k++ {
			cases = append(cases, Case{Layer: "random", Choice: ch, Ctxs: []int{k}})
		}
	}
	nset := 2
	if vkit.Thorough() {
		nset = 6
	}
	for k := 0; k < nset; k++ {
		cases = append(cases, Case{Layer: "corresetup", Ctxs: []int{k}})
	}
	for _, layer := range []string{"corre", "extended"} {
		// batch sizes in bits; the larger ones straddle the 1024-row boundaries of the inflated batch
		// (8L+208 rows for L bytes of choices: 824 -> 1032, 1024 -> 1232, 1840 -> 2048, 2400 -> 2608)
		for _, b := range []int{8, 16, 256, 600, 824, 1024, 1840, 2400} {
			for _, v := range vecs {
				if b > 600 && v != "seeded" && v != "ones" && !vkit.Thorough() {
					continue
				}
				cases = append(cases, Case{Layer: layer, Vec: v, Batch: b, Ctxs: three})
			}
		}
	}
	for _, hv := range []string{"abandoned", "swapped", "reloaded"} {
		cases = append(cases, Case{Layer: "extended-history", Vec: hv, Batch: 256, Ctxs: []int{0}})
	}
	for _, hv := range []string{"abandoned", "reloaded", "interleaved"} {
		cases = append(cases, Case{Layer: "multiply-history", Vec: hv, Ctxs: []int{0}})
	}
	// very large batches (more than 8192 rows after inflation: the column expansion runs over several KiB)
	for _, b := range []int{7992, 8200, 16504} {
		cases = append(cases, Case{Layer: "extended", Vec: "seeded", Batch: b, Ctxs: []int{0}}, Case{Layer: "corre", Vec: "seeded", Batch: b, Ctxs: []int{0}})
	}
	apairs := [][2]string{{"0", "0"}, {"1", "q-1"}, {"s1", "s2"}}
	if vkit.Thorough() {
		apairs = append(apairs, [2]string{"q-1", "q-1"}, [2]string{"2^255", "2"}, [2]string{"q-2", "0"}, [2]string{"s2", "s3"})
	}
	for _, b := range []int{8, 16, 32, 40, 256, 600, 672} {
		for _, v := range vecs {
			for _, ap := range apairs {
				a0, a1 := get(ap[0]), get(ap[1])
				cases = append(cases, Case{Layer: "additive", Vec: v, Batch: b, A: hx(a0.v), B: hx(a1.v), ATag: a0.tag, BTag: a1.tag, Ctxs: three})
			}
		}
	}
	for _, a := range L {
		for _, b := range L {
			cases = append(cases, Case{Layer: "multiply", A: hx(a.v), B: hx(b.v), ATag: a.tag, BTag: b.tag, Ctxs: three})
		}
	}

	// ---------------- tamper (engine C) ----------------
	var inputs []Case
	inputs = append(inputs, Case{Layer: "random", Choice: 0, Ctxs: []int{0}}, Case{Layer: "random", Choice: 1, Ctxs: []int{0}})
	inputs = append(inputs, Case{Layer: "corresetup", Ctxs: []int{0}})
	inputs = append(inputs, Case{Layer: "corre", Vec: "seeded", Batch: 256, Ctxs: []int{1}})
	inputs = append(inputs, Case{Layer: "extended", Vec: "seeded", Batch: 256, Ctxs: []int{1}})
	add := func(v string, b int, t0, t1 string) Case {
		a0, a1 := get(t0), get(t1)
		return Case{Layer: "additive", Vec: v, Batch: b, A: hx(a0.v), B: hx(a1.v), ATag: a0.tag, BTag: a1.tag, Ctxs: []int{1}}
	}
	mul := func(t0, t1 string, ctx int) Case {
		a, b := get(t0), get(t1)
		return Case{Layer: "multiply", A: hx(a.v), B: hx(b.v), ATag: a.tag, BTag: b.tag, Ctxs: []int{ctx}}
	}
	inputs = append(inputs, add("seeded", 256, "s1", "s2"))
	inputs = append(inputs, mul("s1", "s2", 1), mul("q-1", "1", 2), mul("0", "s3", 0))
	if vkit.Thorough() {
		inputs = append(inputs, Case{Layer: "corresetup", Ctxs: []int{1}},
			Case{Layer: "corre", Vec: "0101", Batch: 16, Ctxs: []int{0}},
			Case{Layer: "extended", Vec: "ones", Batch: 16, Ctxs: []int{0}}, Case{Layer: "extended", Vec: "zeros", Batch: 600, Ctxs: []int{2}},
			add("0101", 40, "1", "q-1"), add("ones", 672, "0", "0"), add("zeros", 600, "s2", "s3"),
			mul("s1", "0", 1), mul("2", "q-2", 2), mul("s2", "s2", 0), mul("1", "2^255", 1))
	}
	seenLayer := map[string]bool{}
	for _, in := range inputs {
		if !vkit.Want(in.Layer) {
			continue
		}
		if vkit.Thorough() && !seenLayer[in.Layer] && in.Layer != "random" {
			in.AllIdx = true // thorough: the first input of each layer gets the complete index set
		}
		seenLayer[in.Layer] = true
		if !baseOK && in.Layer != "random" && in.Layer != "corresetup" {
			continue
		}
		cases = append(cases, enumerate(in, res)...)
	}
	for _, c := range cases {
		if baseOK || c.Layer == "random" || c.Layer == "corresetup" {
			all = append(all, c)
		}
	}
	return all
}

func main() {
	res := vkit.Init("C13")
	res.Rule = "correctness case = layer|inputs|context (every batch element / row of the layer's relation is checked, three contexts reuse ONE setup); tamper case = layer|inputs|message.field[index]|operator with one fresh deterministic run per case; a tamper case whose operator leaves the value unchanged is trivial and not counted"
	res.Assumptions = []string{
		"randomness of both parties is a seeded SHA-256 counter DRBG behind crypto/rand.Reader (seeded values are members of the enumerated alphabet, not samples deciding anything)",
		"references: math/big for products and share sums (scalars converted through MarshalBinary), plain byte comparison / XOR for pads, rows and vectors; bit i of a vector is bit (i&7) of byte i>>3 as bits.go documents",
		"a run that ends with an error on either party after a message was altered counts as 'error'; a finished run is judged on both parties' actual outputs against the honest inputs",
		"correlated OT extension (message U) and the additive OT sender message (CombinedPads) carry no integrity check at their own layer by design (KOS Fig. 3 / DKLs18 put the checks into the extended OT and the multiplication); wrong outputs there are classified 'unchecked-by-design' and the same fields are enumerated inside the extended OT / multiplication, where they must be caught",
	}
	if *vkit.Mode == "race" {
		racePass(res) // free-running, real random source: the deterministic seam is process-global and not installed here
		res.Finish()
		return
	}
	drv.Install()

	var rp Case
	replay := vkit.LoadReplay(&rp)

	// the ONE setup (context 100 of the setup layer); judged like any honest run
	baseCase := Case{Layer: "corresetup", Ctxs: []int{100}}
	so := runCorreSetup(newCtx(rngLabel(baseCase, 100), nil), 100, &base)
	baseOK := so.Panic == "" && so.Err == "" && so.Finished && so.RelOK
	needsBase := func(layer string) bool { return layer != "random" && layer != "corresetup" }

	if replay {
		if !baseOK && needsBase(rp.Layer) {
			fmt.Printf("base setup fails: %+v\n", so)
			os.Exit(1)
		}
		bad := false
		for _, ctx := range rp.Ctxs {
			v := evaluate(rp, ctx)
			b, _ := json.MarshalIndent(v, "", " ")
			fmt.Printf("%s\n%s\n", rp.key(ctx), b)
			if v.Class == "violation" {
				bad = true
			}
		}
		for _, h := range hardErrs {
			fmt.Println("HARD:", h)
		}
		if bad {
			os.Exit(1)
		}
		return
	}

	counts := map[string]int{}
	if !baseOK {
		v := evaluate(baseCase, 100)
		res.Case(baseCase.key(100))
		if v.Class == "violation" {
			res.Violate(v.Sig, v.Detail, baseCase)
		} else {
			res.Hard(fmt.Sprintf("base correlated-OT setup failed but its re-evaluation did not: %+v", so))
		}
		res.Note("the shared correlated-OT setup itself violates its relation; the layers built on it were not explored")
		res.Exhaustive = false
	}
	cases := allCases(res, baseOK)
	k := -1
	for _, c := range cases {
		if !vkit.Want(c.Layer) {
			continue
		}
		k++
		if !vkit.Mine(k) {
			continue
		}
		digests := map[string]int{}
		for _, ctx := range c.Ctxs {
			v := evaluate(c, ctx)
			key := c.key(ctx)
			if v.Class == "trivial" {
				key = ""
			}
			res.Case(key)
			if *listFlag {
				fmt.Fprintf(os.Stderr, "%-20s %s err=%q\n", v.Class, c.key(ctx), v.Outcome.Err)
			}
			kind := "honest_"
			if c.Tamper != nil {
				kind = "tamper_"
			}
			counts[kind+strings.ReplaceAll(v.Class, "-", "_")]++
			counts[kind+c.Layer]++
			if v.Class == "violation" {
				one := c
				one.Ctxs = []int{ctx}
				res.Violate(v.Sig, v.Detail, one)
			}
			if c.Tamper == nil && v.Class == "ok" {
				if prev, dup := digests[v.Outcome.Digest]; dup {
					one := c
					res.Violate(fmt.Sprintf("ot|%s|reuse|same-output-for-distinct-contexts", c.Layer),
						fmt.Sprintf("%s: contexts %d and %d with one setup gave the same output digest %s", c.key(ctx), prev, ctx, v.Outcome.Digest), one)
				}
				digests[v.Outcome.Digest] = ctx
			}
			if (k%37 == 0 || (c.Tamper != nil && v.Class == "still-correct" && k%5 == 0)) && ctx == c.Ctxs[0] {
				res.Sample(map[string]interface{}{"case": key, "class": v.Class, "err": v.Outcome.Err, "err_side": v.Outcome.ErrSide})
			}
		}
	}
	for _, h := range hardErrs {
		res.Hard(h)
	}
	for n, v := range counts {
		res.Extra[n] = v
	}
	if vkit.ShardI() == 0 {
		var sk []string
		for s := range skippedFields {
			sk = append(sk, s)
		}
		if len(sk) > 0 {
			res.Note(fmt.Sprintf("fields not tampered because they carry no data (curve handles): %v", sk))
		}
	}
	res.Finish()
}

// racePass (auxiliary, for the race-detector build): several multiplications IN FLIGHT AT THE SAME TIME in one
// process, each on its own setup and with its own nonce.  They share nothing the caller can see, so
// each must give its product, and the race detector must stay silent (a process-wide scratch object
// between them would be both a data race and a source of wrong products).
func racePass(res *vkit.Result) {
	const G, rounds = 4, 12
	setups := make([]setupPair, G)
	for g := range setups {
		if so := runCorreSetup(newCtx(fmt.Sprintf("race-setup-%d", g), nil), 3000+g, &setups[g]); !so.Finished || !so.RelOK {
			res.Hard(fmt.Sprintf("race pass: setup %d failed: %+v", g, so))
			return
		}
	}
	var wg sync.WaitGroup
	errs := make([]string, G)
	for g := 0; g < G; g++ {
		g := g
		wg.Add(1)
		go func() {
			defer wg.Done()
			defer func() {
				if r := recover(); r != nil {
					errs[g] = fmt.Sprint("panic: ", r)
				}
			}()
			for i := 0; i < rounds && errs[g] == ""; i++ {
				a, b := big.NewInt(int64(3+g)), big.NewInt(int64(5+i))
				h := ctxHash("race", 100*g+i)
				sender := ot.NewMultiplySender(h.Clone(), setups[g].S, scalarFromBig(a))
				receiver, err := ot.NewMultiplyReceiver(h.Clone(), setups[g].R, scalarFromBig(b))
				if err != nil {
					errs[g] = err.Error()
					return
				}
				ms, tA, err := sender.Round1(receiver.Round1())
				if err != nil {
					errs[g] = "sender: " + err.Error()
					return
				}
				tB, err := receiver.Round2(ms)
				if err != nil {
					errs[g] = "receiver: " + err.Error()
					return
				}
				sum := new(big.Int).Add(bigFromScalar(tA), bigFromScalar(tB))
				sum.Mod(sum, ref.N)
				if sum.Cmp(new(big.Int).Mul(a, b)) != 0 {
					errs[g] = fmt.Sprintf("shares add up to %x, not to %d*%d", sum, a, b)
				}
			}
		}()
	}
	wg.Wait()
	for g, e := range errs {
		res.Case(fmt.Sprintf("race|concurrent-multiplications|%d", g))
		if e != "" {
			res.Violate("ot|concurrent-multiplications|honest|fails", fmt.Sprintf("%d honest multiplications were in flight at the same time, each on its own setup and nonce; stream %d: %s", G, g, e), Case{Layer: "race"})
		}
	}
}
