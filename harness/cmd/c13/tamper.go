package main

// Generic single-fault machinery: a reflection walker over a message struct (exported and
// unexported fields, pointers, arrays, slices, curve.Scalar / curve.Point interfaces) that
// enumerates tamper sites, and the semantic operator menu applied at one site.

import (
	"encoding/hex"
	"fmt"
	"math/big"
	"reflect"
	"regexp"
	"sort"
	"strings"
	"unsafe"

	"github.com/taurusgroup/multi-party-sig/internal/zzverif/drv"
	"github.com/taurusgroup/multi-party-sig/internal/zzverif/ref"
	"github.com/taurusgroup/multi-party-sig/internal/zzverif/vkit"
	"github.com/taurusgroup/multi-party-sig/pkg/math/curve"
	"github.com/taurusgroup/multi-party-sig/pkg/math/sample"
)

var (
	group   = curve.Secp256k1{}
	scalarT = reflect.TypeOf((*curve.Scalar)(nil)).Elem()
	pointT  = reflect.TypeOf((*curve.Point)(nil)).Elem()
	curveT  = reflect.TypeOf((*curve.Curve)(nil)).Elem()
)

// kernelChi holds the two public check weights of the multiplication in flight (nil outside
// the multiplication layer); pairRe matches one [2]-pair of combined pads of that layer.
var kernelChi []*big.Int
var nilOps = false
var allIdx = false // address every index of every array (set per case)
var pairRe = regexp.MustCompile(`^Msg\.CombinedPads\[\d+\]$`)

// site is one place of a message where operators can be applied.
type site struct {
	Path string
	Kind string // scalar | point | bytes | barr | u64arr | rows | ptr
	Ops  []string
}

// open makes an unexported (read-only) field value settable; v must be addressable.
func open(v reflect.Value) reflect.Value {
	if v.CanSet() || !v.CanAddr() {
		return v
	}
	return reflect.NewAt(v.Type(), unsafe.Pointer(v.UnsafeAddr())).Elem()
}

// priv reads field name of the struct pointed to by ptr (exported or not).
func priv(ptr interface{}, name string) reflect.Value {
	v := reflect.ValueOf(ptr)
	for v.Kind() == reflect.Ptr {
		v = v.Elem()
	}
	f := v.FieldByName(name)
	if !f.IsValid() {
		panic("c13 harness: no field " + name + " in " + v.Type().String())
	}
	return open(f)
}

// indices returns the element indices of a container of length n that are addressed.
func indices(n int, extra []int) []int {
	set := map[int]bool{}
	if n <= 3 || allIdx {
		for i := 0; i < n; i++ {
			set[i] = true
		}
	} else {
		set[0], set[n/2], set[n-1] = true, true, true
		if vkit.Thorough() && n >= 8 {
			set[1], set[n/4], set[3*n/4], set[n-2] = true, true, true, true
		}
		for _, e := range extra {
			if e >= 0 && e < n {
				set[e] = true
			}
		}
	}
	var l []int
	for i := range set {
		l = append(l, i)
	}
	sort.Ints(l)
	return l
}

func isByteArr(t reflect.Type) bool {
	return t.Kind() == reflect.Array && t.Elem().Kind() == reflect.Uint8
}
func isByteSlice(t reflect.Type) bool {
	return t.Kind() == reflect.Slice && t.Elem().Kind() == reflect.Uint8
}

// walk visits every tamper site below v (v must be addressable).  extra maps a container
// path to additional element indices (chosen from secret bits such as Delta or the choices).
// skipped collects fields that carry no data (curve.Curve handles).
func walk(v reflect.Value, path string, extra map[string][]int, visit func(path, kind string, v reflect.Value), skipped *[]string) {
	v = open(v)
	t := v.Type()
	switch {
	case t == scalarT:
		if !v.IsNil() {
			visit(path, "scalar", v)
		}
		return
	case t == pointT:
		if !v.IsNil() {
			visit(path, "point", v)
		}
		return
	case t == curveT:
		if skipped != nil {
			*skipped = append(*skipped, path)
		}
		return
	case isByteArr(t):
		visit(path, "barr", v)
		return
	case isByteSlice(t):
		visit(path, "bytes", v)
		return
	case t.Kind() == reflect.Array && t.Elem().Kind() == reflect.Uint64:
		visit(path, "u64arr", v)
		return
	}
	switch t.Kind() {
	case reflect.Ptr:
		// (pointer presence is a codec-level matter: nested nil pointers belong to the structural
		// menu of C05 and are not part of this semantic menu; set nilOps to enumerate them)
		if nilOps && !v.IsNil() && path != "" {
			visit(path, "ptr", v)
		}
		if !v.IsNil() {
			walk(v.Elem(), path, extra, visit, skipped)
		}
	case reflect.Struct:
		for i := 0; i < t.NumField(); i++ {
			p := t.Field(i).Name
			if path != "" {
				p = path + "." + p
			}
			walk(v.Field(i), p, extra, visit, skipped)
		}
	case reflect.Array, reflect.Slice:
		if v.Len() >= 2 || t.Kind() == reflect.Slice {
			visit(path, "rows", v)
		}
		n := v.Len() // after visit: an operator may have shortened the slice
		for _, i := range indices(n, extra[path]) {
			walk(v.Index(i), fmt.Sprintf("%s[%d]", path, i), extra, visit, skipped)
		}
	case reflect.Interface:
		if !v.IsNil() {
			panic("c13 harness: unexpected interface field " + path + " of type " + t.String())
		}
	default:
		panic("c13 harness: unexpected field kind " + t.String() + " at " + path)
	}
}

// opsFor is the operator menu of a site.
func opsFor(path, kind string, v reflect.Value) []string {
	switch kind {
	case "scalar":
		return []string{"+1", "neg", "zero", "fresh"}
	case "point":
		return []string{"neg", "+G", "G", "identity"}
	case "barr", "u64arr":
		return []string{"flip0", "fliplast", "zero"}
	case "bytes":
		ops := []string{"flip0", "fliplast", "zero", "drop-last"}
		if v.Len() == 33 && strings.HasSuffix(path, "ABytes") {
			ops = append(ops, "pt:neg", "pt:+G", "pt:G", "pt:identity")
		}
		if v.Len() == 32 && strings.Contains(path, "CombinedPads") {
			ops = append(ops, "sc:+1", "sc:neg", "sc:zero", "sc:fresh")
		}
		return ops
	case "ptr":
		return []string{"nil"}
	case "rows":
		ops := []string{}
		if v.Len() >= 2 {
			ops = append(ops, "swap-rows")
		}
		if kernelChi != nil && pairRe.MatchString(path) && v.Len() == 2 {
			ops = append(ops, "kernel-shift")
		}
		if v.Kind() == reflect.Slice && v.Len() >= 1 {
			ops = append(ops, "drop-last")
		}
		return ops
	}
	return nil
}

// sites lists every (path, operator menu) of a message.
func sites(msg interface{}, extra map[string][]int) (l []site, skipped []string) {
	walk(reflect.ValueOf(msg), "", extra, func(path, kind string, v reflect.Value) {
		l = append(l, site{Path: path, Kind: kind, Ops: opsFor(path, kind, v)})
	}, &skipped)
	return
}

// dump is a canonical rendering of a value (for "did the operator change anything").
func dump(v reflect.Value) string {
	v = open(v)
	t := v.Type()
	switch {
	case t == scalarT || t == pointT:
		if v.IsNil() {
			return "nil"
		}
		b, _ := v.Interface().(interface{ MarshalBinary() ([]byte, error) }).MarshalBinary()
		return hex.EncodeToString(b)
	case t == curveT:
		return "curve"
	case isByteSlice(t):
		return hex.EncodeToString(v.Bytes())
	}
	switch t.Kind() {
	case reflect.Ptr:
		if v.IsNil() {
			return "nil"
		}
		return dump(v.Elem())
	case reflect.Struct:
		var sb strings.Builder
		sb.WriteString("{")
		for i := 0; i < t.NumField(); i++ {
			sb.WriteString(dump(v.Field(i)))
			sb.WriteString(",")
		}
		sb.WriteString("}")
		return sb.String()
	case reflect.Array, reflect.Slice:
		var sb strings.Builder
		sb.WriteString("[")
		for i := 0; i < v.Len(); i++ {
			e := v.Index(i)
			switch e.Kind() {
			case reflect.Uint8:
				fmt.Fprintf(&sb, "%02x", e.Uint())
			case reflect.Uint64:
				fmt.Fprintf(&sb, "%016x.", e.Uint())
			default:
				sb.WriteString(dump(e))
				sb.WriteString(",")
			}
		}
		sb.WriteString("]")
		return sb.String()
	}
	return fmt.Sprint(v.Interface())
}

func one() curve.Scalar { return scalarFromBig(bigOne) }

func freshScalar(label string) curve.Scalar {
	return sample.Scalar(drv.NewDRBG("fresh|"+label, seedVal()), group)
}

func tamperScalar(old curve.Scalar, op, label string) curve.Scalar {
	n := group.NewScalar().Set(old)
	switch op {
	case "+1":
		n.Add(one())
	case "neg":
		n.Negate()
	case "zero":
		n = group.NewScalar()
	case "fresh":
		n = freshScalar(label)
	default:
		panic("c13 harness: scalar op " + op)
	}
	return n
}

func tamperPoint(old curve.Point, op string) curve.Point {
	switch op {
	case "neg":
		return old.Negate()
	case "+G":
		return old.Add(group.NewBasePoint())
	case "G":
		return group.NewBasePoint()
	case "identity":
		return group.NewPoint()
	}
	panic("c13 harness: point op " + op)
}

// tamperBytes returns the altered copy of b.
func tamperBytes(b []byte, op, label string) []byte {
	n := append([]byte{}, b...)
	switch {
	case op == "flip0":
		if len(n) > 0 {
			n[0] ^= 1
		}
	case op == "fliplast":
		if len(n) > 0 {
			n[len(n)-1] ^= 0x80
		}
	case op == "zero":
		for i := range n {
			n[i] = 0
		}
	case op == "drop-last":
		if len(n) > 0 {
			n = n[:len(n)-1]
		}
	case strings.HasPrefix(op, "pt:"):
		p := group.NewPoint()
		if err := p.UnmarshalBinary(b); err != nil {
			return n
		}
		n, _ = tamperPoint(p, op[3:]).MarshalBinary()
	case strings.HasPrefix(op, "sc:"):
		s := group.NewScalar()
		if err := s.UnmarshalBinary(b); err != nil {
			return n
		}
		n, _ = tamperScalar(s, op[3:], label).MarshalBinary()
	default:
		panic("c13 harness: bytes op " + op)
	}
	return n
}

// applyAt applies op at path inside msg.  found reports whether the path exists; changed
// whether the value differs afterwards.
func applyAt(msg interface{}, extra map[string][]int, path, op, label string) (found, changed bool) {
	walk(reflect.ValueOf(msg), "", extra, func(p, kind string, v reflect.Value) {
		if p != path || found {
			return
		}
		found = true
		before := dump(v)
		switch kind {
		case "scalar":
			v.Set(reflect.ValueOf(tamperScalar(v.Interface().(curve.Scalar), op, label)))
		case "point":
			v.Set(reflect.ValueOf(tamperPoint(v.Interface().(curve.Point), op)))
		case "bytes":
			v.Set(reflect.ValueOf(tamperBytes(v.Bytes(), op, label)))
		case "barr":
			b := make([]byte, v.Len())
			reflect.Copy(reflect.ValueOf(b), v)
			n := tamperBytes(b, op, label)
			reflect.Copy(v, reflect.ValueOf(n))
		case "u64arr":
			switch op {
			case "flip0":
				v.Index(0).SetUint(v.Index(0).Uint() ^ 1)
			case "fliplast":
				l := v.Len() - 1
				v.Index(l).SetUint(v.Index(l).Uint() ^ (1 << 63))
			case "zero":
				for i := 0; i < v.Len(); i++ {
					v.Index(i).SetUint(0)
				}
			default:
				panic("c13 harness: u64arr op " + op)
			}
		case "ptr":
			v.Set(reflect.Zero(v.Type()))
		case "rows":
			switch op {
			case "kernel-shift":
				// add d to the first pad and -d*chi0/chi1 to the second one: the pair moves inside
				// the kernel of the receiver's linear check (chi0, chi1 are public values)
				d := bigFromScalar(freshScalar(label))
				d1 := new(big.Int).Mul(d, kernelChi[0])
				d1.Mul(d1, new(big.Int).ModInverse(kernelChi[1], ref.N)).Neg(d1).Mod(d1, ref.N)
				for k, dd := range []*big.Int{d, d1} {
					sc := group.NewScalar()
					if err := sc.UnmarshalBinary(v.Index(k).Bytes()); err != nil {
						return
					}
					nb, _ := sc.Add(scalarFromBig(dd)).MarshalBinary()
					v.Index(k).Set(reflect.ValueOf(nb))
				}
			case "swap-rows":
				l := v.Len() - 1
				tmp := reflect.New(v.Type().Elem()).Elem()
				tmp.Set(v.Index(0))
				v.Index(0).Set(v.Index(l))
				v.Index(l).Set(tmp)
			case "drop-last":
				v.Set(v.Slice(0, v.Len()-1))
			default:
				panic("c13 harness: rows op " + op)
			}
		}
		changed = dump(v) != before
	}, nil)
	return
}
