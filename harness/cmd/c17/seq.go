package main

import (
	"fmt"
	"strings"
	"sync"
	"time"

	"github.com/taurusgroup/multi-party-sig/internal/zzverif/drv"
	"github.com/taurusgroup/multi-party-sig/internal/zzverif/vkit"
	"github.com/taurusgroup/multi-party-sig/pkg/protocol"
)

// seqCase: a call sequence applied to a session that has ended (finished or aborted).
type seqCase struct {
	Kind  string   `json:"kind"`
	Spec  string   `json:"spec"`
	N     int      `json:"n"`
	State string   `json:"state"` // finished | aborted
	Calls []string `json:"calls"`
}

func runSeq(c seqCase) (sigs []string, detail string) {
	sc := scenario{Kind: c.Kind, Spec: c.Spec, N: c.N}
	w, err := buildWorld(sc)
	if err != nil {
		return []string{"harness|" + err.Error()}, err.Error()
	}
	p, err := drv.NewParty("a", drv.NewDRBG("party-a", *vkit.Seed), func() (protocol.Handler, error) { return newHandler(sc, "a", w.ids) })
	if err != nil || p.H == nil {
		return []string{"harness|constructor"}, fmt.Sprint(err)
	}
	if c.State == "finished" {
		for _, m := range w.inbox {
			p.Deliver(m)
		}
	} else {
		p.Deliver(w.inbox[0])
		p.Deliver(w.extra["abort"])
	}
	r0, e0 := p.Result()
	base := resStr(r0, e0, w.refRes)
	var baseErr string
	if e0 != nil {
		baseErr = e0.Error()
	}
	var log []string
	add := func(s string) { sigs = append(sigs, c.Kind+"|seq|"+c.State+"|"+s) }
	if c.State == "finished" && base != "ok" || c.State == "aborted" && base != "err" {
		add("setup-state-" + base)
	}
	if !p.Closed {
		add("channel-open-after-end")
	}
	nSent := len(p.Sent)
	for _, op := range c.Calls {
		switch {
		case op == "S":
			pCall(p, func() { p.H.Stop() })
		case op == "R":
		case op == "L":
			var ch <-chan *protocol.Message
			pCall(p, func() { ch = p.H.Listen() })
			if ch != nil {
				select {
				case _, ok := <-ch:
					if ok {
						add("message-after-end")
					}
				default:
					add("listen-channel-not-closed")
				}
			}
		case op[0] == 'A':
			p.Deliver(w.msg(op[1:]))
		case op[0] == 'F':
			p.Force(w.msg(op[1:]))
		case op[0] == 'C':
			var ok bool
			pCall(p, func() { ok = p.H.CanAccept(w.msg(op[1:])) })
			_ = ok
		}
		if p.Panic != "" {
			add(fmt.Sprintf("panic|%s|%s", op[:1], p.Panic))
			log = append(log, op+"=PANIC("+p.Panic+" in "+p.PanicFrame+")")
			break
		}
		if p.Hung != "" {
			add("hang|" + op[:1])
			log = append(log, op+"=HANG")
			break
		}
		r, e := p.Result()
		now := resStr(r, e, w.refRes)
		log = append(log, op+"→"+now)
		if now != base {
			add("result-changed|" + op[:1] + "|" + base + "->" + now)
		} else if e != nil && e.Error() != baseErr {
			add("error-changed|" + op[:1])
		}
		if len(p.Sent) != nSent {
			add("message-after-end|" + op[:1])
		}
	}
	return uniq(sigs), fmt.Sprintf("%s %s n=%d, session %s (Result=%s), calls %v: %s", c.Kind, c.Spec, c.N, c.State, base, c.Calls, strings.Join(log, " "))
}

func pCall(p *drv.Party, f func()) {
	// reuse the party's guarded call (panic capture, hang detection, draining)
	p.Guard(f)
}

func seqEnumeration(res *vkit.Result) {
	t0 := time.Now()
	n := int64(0)
	for _, k := range []struct {
		kind, spec string
		n          int
		alphabet   []string
	}{
		{"multi", "XB", 3, []string{"S", "R", "L", "A0", "A5", "F5", "Aabort", "Fabort", "C0", "C5"}},
		{"two-follower", "3", 2, []string{"S", "R", "L", "A0", "A2", "F2", "Aabort", "Fabort", "C2"}},
		{"two-leader", "3", 2, []string{"S", "R", "L", "A0", "A1", "F1", "Aabort", "Fabort", "C1"}},
	} {
		for _, state := range []string{"finished", "aborted"} {
			var seqs [][]string
			for _, a := range k.alphabet {
				seqs = append(seqs, []string{a})
				for _, b := range k.alphabet {
					seqs = append(seqs, []string{a, b})
					if vkit.Thorough() || a == "S" || b == "S" {
						for _, c := range k.alphabet {
							seqs = append(seqs, []string{a, b, c})
						}
					}
				}
			}
			for _, calls := range seqs {
				c := seqCase{Kind: k.kind, Spec: k.spec, N: k.n, State: state, Calls: calls}
				sigs, detail := runSeq(c)
				n++
				res.Case("")
				for _, s := range sigs {
					res.Violate(s, detail, map[string]interface{}{"seq": c})
				}
				if n%97 == 1 {
					res.Sample(map[string]interface{}{"sequential": c, "observed": detail})
				}
			}
		}
	}
	res.AddScenario(vkit.Scenario{Name: "sequential call sequences after the end (length<=3)", Bound: "all sequences", Executions: 0, States: n, Transitions: n, Complete: true, WallS: time.Since(t0).Seconds()})
}

// racePass runs the thread programs of the quick scenarios free (no scheduler) for the race detector.
func racePass(res *vkit.Result) {
	reps := 60
	if vkit.Thorough() {
		reps = 400
	}
	for _, sc := range scenarios() {
		if sc.Bound != -1 {
			continue
		}
		w, err := buildWorld(sc)
		if err != nil {
			res.Hard(err.Error())
			continue
		}
		for rep := 0; rep < reps; rep++ {
			h, err := w.newSubject()
			if err != nil {
				res.Hard(err.Error())
				break
			}
			ch := h.Listen()
			drainRaw(ch)
			for i := 0; i < sc.Prefix; i++ {
				if h.CanAccept(w.inbox[i]) {
					h.Accept(w.inbox[i])
				}
				drainRaw(ch)
			}
			var wgAPI, wgAll sync.WaitGroup
			for _, prog := range sc.Threads {
				prog := prog
				api := prog[0] != 'D'
				wgAll.Add(1)
				if api {
					wgAPI.Add(1)
				}
				go func() {
					defer wgAll.Done()
					if api {
						defer wgAPI.Done()
					}
					defer func() { recover() }()
					var a, b, c bool
					w.interp(h, prog, func(string) {}, &a, &b, &c)
				}()
			}
			wait := func(wg *sync.WaitGroup, d time.Duration) {
				done := make(chan struct{})
				go func() { wg.Wait(); close(done) }()
				select {
				case <-done:
				case <-time.After(d):
				}
			}
			wait(&wgAPI, 200*time.Millisecond)
			// drainers of unfinished sessions never return: end the session to release them
			go func() { defer func() { recover() }(); h.Accept(w.extra["abort"]) }() // may itself block on a deadlocked handler
			wait(&wgAll, 200*time.Millisecond)
			res.Case("")
		}
	}
}
