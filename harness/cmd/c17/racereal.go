package main

// Free-running bodies for the race detector on the repository's REAL protocols (auxiliary pass,
// like racePass: dynamic happens-before analysis, not enumeration).  Two ways in which objects of
// the library are shared between goroutines that no handler mutex serialises:
//   - two sessions running at the same time from the SAME key material objects (an application
//     signing two messages with one key), and
//   - the workers of a pool.Pool inside one Accept (CMP), which hash and marshal the same public
//     points and moduli.

import (
	"bytes"
	"fmt"
	"os"
	"path/filepath"
	"sync"
	"sync/atomic"
	"time"

	"github.com/cronokirby/saferith"
	"github.com/fxamacker/cbor/v2"
	"github.com/taurusgroup/multi-party-sig/internal/round"
	"github.com/taurusgroup/multi-party-sig/pkg/hash"
	"github.com/taurusgroup/multi-party-sig/protocols/cmp"

	"github.com/taurusgroup/multi-party-sig/internal/zzverif/kmat"
	"github.com/taurusgroup/multi-party-sig/internal/zzverif/sess"
	"github.com/taurusgroup/multi-party-sig/internal/zzverif/vkit"
	"github.com/taurusgroup/multi-party-sig/pkg/party"
	"github.com/taurusgroup/multi-party-sig/pkg/protocol"
)

// freeRun drives one session to its end on the calling goroutine with the real handlers running
// free (no scheduler, no DRBG switching): every handler's outgoing messages are handed to the others.
func freeRun(spec *sess.Spec, budget time.Duration) error {
	hs := map[party.ID]protocol.Handler{}
	for _, id := range spec.IDs {
		h, err := spec.NewHandler(id)
		if err != nil {
			return fmt.Errorf("start %s: %v", id, err)
		}
		hs[id] = h
	}
	deadline := time.Now().Add(budget)
	for time.Now().Before(deadline) {
		progress := false
		open := 0
		for _, id := range spec.IDs {
			ch := hs[id].Listen()
		drain:
			for {
				select {
				case m, ok := <-ch:
					if !ok {
						break drain
					}
					progress = true
					for _, to := range spec.IDs {
						if to != id && m.IsFor(to) && hs[to].CanAccept(m) {
							hs[to].Accept(m)
						}
					}
				default:
					open++
					break drain
				}
			}
		}
		if open == 0 {
			break
		}
		if !progress {
			time.Sleep(time.Millisecond)
		}
	}
	for _, id := range spec.IDs {
		if r, err := hs[id].Result(); r == nil {
			return fmt.Errorf("%s: %v", id, err)
		}
	}
	return nil
}

// concurrently runs k sessions built by mk (from shared key material) at the same time.
func concurrently(res *vkit.Result, what string, k int, mk func(i int) *sess.Spec, budget time.Duration) {
	var wg sync.WaitGroup
	errs := make([]error, k)
	for i := 0; i < k; i++ {
		i := i
		wg.Add(1)
		go func() {
			defer wg.Done()
			defer func() {
				if r := recover(); r != nil {
					errs[i] = fmt.Errorf("panic: %v", r)
				}
			}()
			errs[i] = freeRun(mk(i), budget)
		}()
	}
	wg.Wait()
	for i, e := range errs {
		if e != nil {
			// a session that does not complete when another one runs beside it on the same key material
			res.Violate("concurrent-sessions|"+what+"|does-not-complete", fmt.Sprintf("%s: session %d of %d concurrent ones on shared key material: %v", what, i, k, e), map[string]interface{}{"race_body": what})
			return
		}
	}
	res.Case("")
}

func raceReal(res *vkit.Result) {
	// One session at a time (CMP with three signers, so that every fan-out has two tasks); what is concurrent are the workers of the pool inside each Accept /
	// Finalize of one handler, which hash, compare and marshal the same public points and moduli.
	// (Two sessions sharing key-material OBJECTS are not what the property speaks about - it is about
	// one handler driven from several goroutines - and are not run here.)
	one := func(what string, reps int, budget time.Duration, mk func(i int) *sess.Spec) {
		for r := 0; r < reps; r++ {
			concurrently(res, what, 1, func(int) *sess.Spec { return mk(r) }, budget)
		}
	}
	sharedPointBody(res)
	sharedHelperBody(res)
	msg := func(i int) []byte { return []byte(fmt.Sprintf("message-%02d-0123456789abcdef0123456", i)) }
	sess.PoolWorkers = 4
	defer func() { sess.PoolWorkers = 0 }()
	reps := 2
	if vkit.Thorough() {
		reps = 10
	}
	one("doerner-keygen", reps, 2*time.Minute, func(i int) *sess.Spec { return sess.DoernerKeygen("a", "b") })
	if dk, err := kmat.Doerner(); err != nil {
		res.Hard(err.Error())
	} else {
		one("doerner-sign", reps, 2*time.Minute, func(i int) *sess.Spec { return sess.DoernerSign(dk.R, dk.S, "a", "b", msg(i)) })
	}
	// CMP key generation under the race detector costs minutes; the key material is produced by the
	// (un-instrumented) explore binary of the SAME run, built from the same tree, and handed over in a file.
	if !vkit.Thorough() {
		return // one CMP signing session under the race detector takes about four minutes
	}
	ck, err := loadCMPKeys()
	if err != nil && vkit.Thorough() {
		ck, err = kmat.CMP(3, 1)
	}
	if err != nil {
		res.Note("cmp race body skipped: " + err.Error())
	} else {
		one("cmp-sign", 1, 10*time.Minute, func(i int) *sess.Spec { return sess.CMPSign(ck, kmat.IDs[:3], msg(i)) })
		{
			one("cmp-presign", 1, 10*time.Minute, func(i int) *sess.Spec { return sess.CMPPresign(ck, kmat.IDs[:3]) })
			one("cmp-refresh", 1, 20*time.Minute, func(i int) *sess.Spec { return sess.CMPRefresh(ck, kmat.IDs[:3]) })
		}
	}
}

func cmpKeyFile() string { return filepath.Join(filepath.Dir(*vkit.Out), "c17-cmp-keys.cbor") }

// dumpCMPKeys is called by shard 0 of the explore pass.
func dumpCMPKeys() {
	ck, err := kmat.CMP(3, 1)
	if err != nil {
		return
	}
	m := map[string][]byte{}
	for id, c := range ck {
		b, err := c.MarshalBinary()
		if err != nil {
			return
		}
		m[string(id)] = b
	}
	if b, err := cbor.Marshal(m); err == nil {
		os.WriteFile(cmpKeyFile(), b, 0o644)
	}
}

func loadCMPKeys() (map[party.ID]*cmp.Config, error) {
	b, err := os.ReadFile(cmpKeyFile())
	if err != nil {
		return nil, err
	}
	var m map[string][]byte
	if err := cbor.Unmarshal(b, &m); err != nil {
		return nil, err
	}
	out := map[party.ID]*cmp.Config{}
	for id, raw := range m {
		c := cmp.EmptyConfig(sess.Group)
		if err := c.UnmarshalBinary(raw); err != nil {
			return nil, err
		}
		out[party.ID(id)] = c
	}
	return out, nil
}

// sharedPointBody distils what the pool fan-out of a CMP round does: several workers hash and encode
// the SAME public point (still in projective form, as computed) at the same time.  Marshalling must
// work on a copy: the encodings must all equal the one taken beforehand, and the race detector
// must stay silent.  Only MarshalBinary / transcript hashing / CBOR encoding are exercised.
func sharedPointBody(res *vkit.Result) {
	g := sess.Group
	for rep := 0; rep < 50; rep++ {
		k := g.NewScalar().SetNat(new(saferith.Nat).SetUint64(uint64(rep) + 2))
		pt := k.ActOnBase().Add(g.NewBasePoint()) // computed, not decoded: Z != 1
		want, err := k.ActOnBase().Add(g.NewBasePoint()).MarshalBinary()
		if err != nil {
			res.Hard(err.Error())
			return
		}
		var wg sync.WaitGroup
		bad := make([]string, 4)
		for w := 0; w < 4; w++ {
			w := w
			wg.Add(1)
			go func() {
				defer wg.Done()
				for i := 0; i < 20; i++ {
					b, err := pt.MarshalBinary()
					if err != nil || !bytes.Equal(b, want) {
						bad[w] = fmt.Sprintf("MarshalBinary gave %x (%v), expected %x", b, err, want)
					}
					h := hash.New()
					_ = h.WriteAny(pt)
					_ = h.Sum()
					if c, err := cbor.Marshal(pt); err != nil || !bytes.Contains(c, want) {
						bad[w] = fmt.Sprintf("cbor encoding %x does not contain %x", c, want)
					}
				}
			}()
		}
		wg.Wait()
		for _, b := range bad {
			if b != "" {
				res.Violate("shared-point|wrong-encoding-under-concurrent-marshalling", "four goroutines marshalling one computed point at the same time: "+b, map[string]interface{}{"race_body": "shared-point"})
				return
			}
		}
		res.Case("")
	}
}

// sharedHelperBody: the session helper (internal/round.Helper) carries the running transcript hash behind
// its own mutex; the rounds read it from pool workers (HashForID, Hash) and advance it (UpdateHashState).
// Distilled: four goroutines reading while two advance the state.  The race detector must stay silent and
// every reader must obtain a usable hash.
func sharedHelperBody(res *vkit.Result) {
	ids := party.NewIDSlice([]party.ID{"a", "b", "c"})
	for rep := 0; rep < 20; rep++ {
		h, err := round.NewSession(round.Info{ProtocolID: "c17/helper", FinalRoundNumber: 3, SelfID: "a", PartyIDs: ids, Threshold: 1, Group: sess.Group}, []byte{byte(rep)}, nil)
		if err != nil {
			res.Hard("helper body: " + err.Error())
			return
		}
		var wg sync.WaitGroup
		var bad atomic.Value
		for w := 0; w < 6; w++ {
			w := w
			wg.Add(1)
			go func() {
				defer wg.Done()
				defer func() {
					if r := recover(); r != nil {
						bad.Store(fmt.Sprintf("panic: %v", r))
					}
				}()
				for i := 0; i < 50; i++ {
					if w < 2 {
						h.UpdateHashState(hash.BytesWithDomain{TheDomain: "c17", Bytes: []byte{byte(w), byte(i)}})
					} else {
						x := h.HashForID(ids[w%3])
						if x == nil || len(x.Sum()) == 0 || h.Hash() == nil {
							bad.Store("HashForID / Hash returned nothing")
						}
					}
				}
			}()
		}
		wg.Wait()
		if v := bad.Load(); v != nil {
			res.Violate("shared-helper|"+fmt.Sprint(v)[:12], fmt.Sprintf("concurrent readers and writers of one session helper: %v", v), map[string]interface{}{"race_body": "shared-helper"})
			return
		}
		res.Case("")
	}
}
