// C17 — handler lifecycle is well-defined and safe under concurrent use.
// Engine A: all interleavings (preemption-bounded where stated) of 2-3 API-calling threads
// plus a drainer on one real MultiHandler / TwoPartyHandler (instrumented from the working
// tree) running the vproto mini-protocol; plus a sequential enumeration of all call
// sequences of length <=3 on finished and aborted sessions; plus a free-running -race pass.
package main

import (
	"bytes"
	"flag"
	"fmt"
	"os"
	"sort"
	"strconv"
	"strings"
	"time"

	"github.com/taurusgroup/multi-party-sig/internal/zzverif/drv"
	"github.com/taurusgroup/multi-party-sig/internal/zzverif/vkit"
	"github.com/taurusgroup/multi-party-sig/internal/zzverif/vproto"
	"github.com/taurusgroup/multi-party-sig/internal/zzverif/vsched"
	"github.com/taurusgroup/multi-party-sig/pkg/party"
	"github.com/taurusgroup/multi-party-sig/pkg/protocol"
)

type scenario struct {
	Name      string   `json:"name"`
	Kind      string   `json:"kind"` // multi | two-leader | two-follower
	Spec      string   `json:"spec"` // vproto spec (multi) or number of rounds (two-party)
	N         int      `json:"n"`
	Prefix    int      `json:"prefix"`    // number of inbox messages delivered (and drained) before the threads start
	Undrained bool     `json:"undrained"` // do not drain the outgoing channel during the prefix
	Threads   []string `json:"threads"`   // one program per thread, ops separated by spaces
	Bound     int      `json:"bound"`
}

var ids3 = []party.ID{"a", "b", "c"}

// world is the fixed, deterministic context of a scenario: the subject's inbox from an honest in-order run.
type world struct {
	sc     scenario
	ids    []party.ID
	inbox  []*protocol.Message // messages for the subject in in-order sequence
	refRes []byte              // subject's result in the honest run
	extra  map[string]*protocol.Message
}

func (w *world) newSubject() (protocol.Handler, error) {
	drv.Use(drv.NewDRBG("party-a", *vkit.Seed))
	return newHandler(w.sc, "a", w.ids)
}

func newHandler(sc scenario, id party.ID, ids []party.ID) (protocol.Handler, error) {
	switch sc.Kind {
	case "multi":
		return protocol.NewMultiHandler(vproto.Start(sc.Spec, id, ids), []byte("sid"))
	default:
		R, _ := strconv.Atoi(sc.Spec)
		other := ids[0]
		if other == id {
			other = ids[1]
		}
		leader := (sc.Kind == "two-leader") == (id == "a")
		return protocol.NewTwoPartyHandler(vproto.Start2(R, leader, id, other), []byte("sid"), leader)
	}
}

func buildWorld(sc scenario) (*world, error) {
	w := &world{sc: sc, ids: ids3[:sc.N], extra: map[string]*protocol.Message{}}
	net := drv.NewNet()
	for _, id := range w.ids {
		id := id
		p, err := drv.NewParty(id, drv.NewDRBG("party-"+string(id), *vkit.Seed), func() (protocol.Handler, error) { return newHandler(sc, id, w.ids) })
		if err != nil {
			return nil, err
		}
		if p.Hung != "" || p.Panic != "" {
			return nil, fmt.Errorf("constructor failed: %s %s", p.Panic, p.Hung)
		}
		net.Add(p)
	}
	net.Flush()
	for len(net.Queue) > 0 && net.Steps < 1000 {
		d := net.Queue[0]
		if d.To == "a" {
			w.inbox = append(w.inbox, d.M)
		}
		net.DeliverAt(0)
	}
	r, err := net.Parties["a"].Result()
	if err != nil {
		return nil, fmt.Errorf("honest run failed: %v", err)
	}
	w.refRes = r.(*vproto.Result).Full
	m0 := w.inbox[0]
	w.extra["abort"] = &protocol.Message{SSID: m0.SSID, From: "b", Protocol: m0.Protocol, RoundNumber: 0, Data: []byte("boom")}
	return w, nil
}

type obs struct {
	thread int
	what   string
}

func drainRaw(ch <-chan *protocol.Message) (closed bool) {
	for {
		select {
		case _, ok := <-ch:
			if !ok {
				return true
			}
		default:
			return false
		}
	}
}

func resStr(r interface{}, err error, ref []byte) string {
	if err != nil {
		if drv.IsNotFinished(err) {
			return "running"
		}
		return "err"
	}
	if vr, ok := r.(*vproto.Result); ok {
		if bytes.Equal(vr.Full, ref) {
			return "ok"
		}
		return "WRONG"
	}
	return "odd"
}

func (w *world) msg(ref string) *protocol.Message {
	if m, ok := w.extra[ref]; ok {
		return m
	}
	i, err := strconv.Atoi(ref)
	if err != nil || i >= len(w.inbox) {
		panic("bad message reference " + ref)
	}
	return w.inbox[i]
}

func (w *world) harness() vsched.Harness {
	sc := w.sc
	return func(s *vsched.Sched) func(*vsched.Outcome) vsched.Verdict {
		h, err := w.newSubject()
		if err != nil {
			panic(err)
		}
		ch0 := h.Listen()
		closedInPrefix := false
		if !sc.Undrained {
			closedInPrefix = drainRaw(ch0)
		}
		for i := 0; i < sc.Prefix; i++ {
			if h.CanAccept(w.inbox[i]) {
				h.Accept(w.inbox[i])
			}
			if !sc.Undrained {
				closedInPrefix = drainRaw(ch0) || closedInPrefix
			}
		}
		before, _ := drv.Peek(h)
		nT := len(sc.Threads)
		log := make([][]string, nT)
		finished := make([]bool, nT)
		sawClose := make([]bool, nT)
		isDrainer := make([]bool, nT)
		stopReturned := false
		for ti, prog := range sc.Threads {
			ti, prog := ti, prog
			rec := func(x string) { log[ti] = append(log[ti], x) }
			s.Spawn(prog, func() {
				w.interp(h, prog, rec, &isDrainer[ti], &sawClose[ti], &stopReturned)
				finished[ti] = true
			})
		}
		return func(o *vsched.Outcome) vsched.Verdict {
			var v vsched.Verdict
			add := func(sig string) { v.Violations = append(v.Violations, sig) }
			for _, pm := range o.Panics {
				add("panic|" + pm[strings.Index(pm, ":")+2:])
			}
			after, ok := drv.Peek(h)
			if !ok {
				add("harness|cannot-peek")
			}
			terminal := after.HasErr || after.HasResult
			if after.HasErr && after.HasResult {
				add("both-result-and-error")
			}
			anyDrainer, drainerSawClose := false, false
			for ti := range sc.Threads {
				if isDrainer[ti] {
					anyDrainer = true
					if sawClose[ti] {
						drainerSawClose = true
					}
				}
			}
			if len(o.Panics) == 0 {
				for _, b := range o.Blocked {
					var tid int
					fmt.Sscanf(b, "T%d:", &tid)
					loc := b[strings.Index(b, ":")+1:]
					if tid < nT && isDrainer[tid] && strings.HasPrefix(loc, "recv@") || tid < nT && isDrainer[tid] && strings.HasPrefix(loc, "select@main") {
						// a drainer waiting for more output: fine while the session runs
						if terminal && !closedInPrefix {
							add("terminal-but-channel-not-closed")
						}
						continue
					}
					if anyDrainer || !strings.HasPrefix(loc, "send@") {
						add("blocked-forever|" + strings.Fields(sc.Threads[min(tid, nT-1)])[0][:1] + "|" + loc)
					}
				}
			}
			if drainerSawClose && !terminal {
				add("closed-but-not-finished")
			}
			// Result observed after the close must be terminal and must equal the final state
			for ti := range sc.Threads {
				seenClosed := false
				for _, e := range log[ti] {
					if e == "closed" {
						seenClosed = true
					}
					if seenClosed && strings.HasPrefix(e, "R=") {
						if e == "R=running" {
							add("not-finished-after-close")
						}
						final := "err"
						if after.HasResult {
							final = "ok"
						}
						if e != "R=running" && e[2:] != final && e[2:] != "WRONG" {
							add("result-changed-after-close")
						}
					}
					if e == "R=WRONG" {
						add("wrong-result")
					}
				}
			}
			if stopReturned && len(o.Panics) == 0 {
				if !terminal {
					add("stop-had-no-effect")
				}
				if before.HasResult && (!after.HasResult || after.HasErr) {
					add("stop-changed-finished-session")
				}
				if before.HasErr && after.Err != before.Err {
					add("stop-changed-aborted-session")
				}
			}
			if before.HasResult && !after.HasResult || before.HasErr && !after.HasErr {
				add("terminal-state-lost")
			}
			var parts []string
			for ti := range sc.Threads {
				parts = append(parts, strings.Join(log[ti], ","))
			}
			bl := []string{}
			for _, b := range o.Blocked {
				bl = append(bl, b[strings.Index(b, ":")+1:])
			}
			sort.Strings(bl)
			v.Outcome = fmt.Sprintf("%s | err=%v res=%v | blocked=%s", strings.Join(parts, " / "), after.HasErr, after.HasResult, strings.Join(bl, ","))
			sort.Strings(v.Violations)
			v.Violations = uniq(v.Violations)
			v.Detail = fmt.Sprintf("scenario %s (threads %q, prefix %d of %d inbox messages): observed %s; final error %q; blocked threads %v; panics %v",
				sc.Name, sc.Threads, sc.Prefix, len(w.inbox), strings.Join(parts, " / "), after.Err, o.Blocked, o.Panics)
			return v
		}
	}
}

// interp runs one thread program against h.
func (w *world) interp(h protocol.Handler, prog string, rec func(string), isDrainer, sawClose, stopReturned *bool) {
	for _, op := range strings.Fields(prog) {
		switch {
		case op == "S":
			h.Stop()
			*stopReturned = true
			rec("S")
		case op == "R":
			r, err := h.Result()
			rec("R=" + resStr(r, err, w.refRes))
		case op == "L":
			_ = h.Listen()
			rec("L")
		case op[0] == 'A':
			m := w.msg(op[1:])
			if h.CanAccept(m) {
				h.Accept(m)
				rec(op + "+")
			} else {
				rec(op + "-")
			}
		case op[0] == 'F':
			h.Accept(w.msg(op[1:]))
			rec(op)
		case op[0] == 'C':
			rec(fmt.Sprintf("%s=%v", op, h.CanAccept(w.msg(op[1:]))))
		case op == "D1": // drainer holding the channel
			*isDrainer = true
			ch := h.Listen()
			for {
				_, ok := vsched.Recv2(ch)
				if !ok {
					break
				}
			}
			*sawClose = true
			rec("closed")
		case op == "D2": // README style: calls Listen() on every iteration
			*isDrainer = true
			for {
				_, ok := vsched.Recv2(h.Listen())
				if !ok {
					break
				}
			}
			*sawClose = true
			rec("closed")
		case strings.HasPrefix(op, "D3:"): // one goroutine alternating between outgoing and incoming messages
			*isDrainer = true
			var in []*protocol.Message
			for _, r := range strings.Split(op[3:], ",") {
				in = append(in, w.msg(r))
			}
			inbox := make(chan *protocol.Message, len(in))
			for _, m := range in {
				inbox <- m
			}
			left := len(in)
		loop:
			for {
				var cases []vsched.Case
				cases = append(cases, vsched.RecvCase(h.Listen()))
				if left > 0 {
					cases = append(cases, vsched.RecvCase((<-chan *protocol.Message)(inbox)))
				}
				switch vsched.Select(false, cases...) {
				case -3: // free-running (race pass): the real select
					var in <-chan *protocol.Message
					if left > 0 {
						in = inbox
					}
					select {
					case _, ok := <-h.Listen():
						if !ok {
							break loop
						}
					case m := <-in:
						left--
						if h.CanAccept(m) {
							h.Accept(m)
						}
					}
				case 0:
					_, ok := vsched.DoRecv2(h.Listen())
					if !ok {
						break loop
					}
				case 1:
					m, _ := vsched.DoRecv2((<-chan *protocol.Message)(inbox))
					left--
					if h.CanAccept(m) {
						h.Accept(m)
					}
				}
			}
			*sawClose = true
			rec("closed")
		default:
			panic("bad op " + op)
		}
	}
}

func min(a, b int) int {
	if a < b {
		return a
	}
	return b
}

func uniq(l []string) []string {
	var r []string
	for i, x := range l {
		if i == 0 || x != l[i-1] {
			r = append(r, x)
		}
	}
	return r
}

var scenFlag = flag.String("scen", "", "debug: kind;spec;n;prefix;bound;thread|thread|...")

func scenarios() []scenario {
	var l []scenario
	add := func(kind, spec string, n, prefix, bound int, threads ...string) {
		nm := fmt.Sprintf("%s/%s/n%d/p%d[%s]@%d", kind, spec, n, prefix, strings.Join(threads, "|"), bound)
		l = append(l, scenario{Name: nm, Kind: kind, Spec: spec, N: n, Prefix: prefix, Threads: threads, Bound: bound})
	}
	if *scenFlag != "" {
		f := strings.Split(*scenFlag, ";")
		n, _ := strconv.Atoi(f[2])
		p, _ := strconv.Atoi(f[3])
		b, _ := strconv.Atoi(f[4])
		add(f[0], f[1], n, p, b, strings.Split(f[5], "|")...)
		return l
	}
	// inbox of a in vproto "XB" n=3 (in-order): r2!b r2b>a r2!c r2c>a r3!b r3!c   (X round: broadcast + p2p; B round: broadcast)
	// --- MultiHandler, n=3
	for _, d := range []string{"D1", "D2"} {
		add("multi", "XB", 3, 0, -1, "A0", "A2", d)             // two broadcasts of the same round concurrently
		add("multi", "XB", 3, 2, -1, "A2", "A3", d)             // broadcast and p2p of c concurrently (either may complete the round)
		add("multi", "XB", 3, 4, -1, "A4", "A5", d+" R")        // the two last messages: one of them finishes the session
		add("multi", "XB", 3, 5, -1, "A5", "S", d+" R")         // last message vs Stop
		add("multi", "XB", 3, 3, -1, "S", "S", d+" R")          // Stop vs Stop on a running session
		add("multi", "XB", 3, 6, -1, "S", "S", d+" R")          // Stop vs Stop on a finished session
		add("multi", "XB", 3, 3, -1, "Aabort", "A3", d+" R")    // a peer's abort notice vs a normal message
		add("multi", "XB", 3, 5, -1, "R R", "A5", d)            // Result polling vs the finishing Accept
		add("multi", "XB", 3, 3, -1, "C4 C3", "A3", d)          // CanAccept vs Accept
		add("multi", "XB", 3, 6, -1, "A5 A0", "Aabort", d+" R") // late, duplicate and abort messages after the end
	}
	add("multi", "XB", 3, 4, -1, "D3:4,5 R")        // single-goroutine loop
	add("multi", "XB", 3, 0, 2, "D3:0,1,2,3,4,5 R") // whole session through the single-goroutine loop
	add("multi", "XB", 3, 0, 2, "A0 A1 A2", "A3 A4 A5", "D2 R")
	// each thread delivers ONE sender's messages (broadcast, then p2p, then the next round's broadcast): the two p2p
	// messages of a round are then in Accept at the same time, and either call may be the one that completes the round
	add("multi", "XB", 3, 0, 2, "A0 A1 A4", "A2 A3 A5", "D2 R")
	// --- TwoPartyHandler
	for _, d := range []string{"D1", "D2"} {
		add("two-follower", "3", 2, 0, -1, "A0", "S", d+" R")
		add("two-follower", "3", 2, 2, -1, "A2", "S", d+" R")
		add("two-follower", "3", 2, 3, -1, "S", "S", d+" R")
		add("two-follower", "3", 2, 1, -1, "S", "S", d+" R")
		add("two-follower", "3", 2, 1, -1, "Aabort", "A1", d+" R")
		add("two-leader", "3", 2, 1, -1, "A1", "R R", d+" R")
		add("two-leader", "3", 2, 1, -1, "A1", "S", d+" R")
		// a peer that pre-sent every future round: one Accept finalises several rounds
		add("two-follower", "4", 2, 0, -1, "F3 F2 F1 F0", d+" R")
		add("multi", "PPP", 2, 0, -1, "F2 F1 F0", d+" R")
		// Stop (and a peer's abort notice) while an Accept is emitting more than the channel holds
		add("two-follower", "4", 2, 0, 3, "F3 F2 F1 F0", "S", d+" R")
		add("two-follower", "4", 2, 0, 3, "F3 F2 F1 F0", "Aabort", d+" R")
		// the same with the constructor's first message still in the channel when the loop starts (README usage)
		l = append(l, scenario{Name: "multi/PPP/n2/undrained[F2 F1 F0|" + d + " R]@-1", Kind: "multi", Spec: "PPP", N: 2, Undrained: true, Threads: []string{"F2 F1 F0", d + " R"}, Bound: -1})
	}
	if vkit.Thorough() {
		for _, d := range []string{"D1", "D2"} {
			add("multi", "XB", 3, 0, 3, "A0 A1", "A2 A3", "S", d+" R")
			add("multi", "XPB", 3, 4, 3, "A4 A5", "A6 A7", "Aabort", d+" R")
			add("multi", "AB", 3, 0, 3, "A0 A2", "A1 A3", "R S", d+" R")
			add("multi", "XB", 3, 4, 3, "A4", "A5", "S", "R", d+" R")
		}
	}
	return l
}

func main() {
	res := vkit.Init("C17")
	drv.Install()
	res.Rule = "each evaluation is one complete interleaving of the API-calling threads and the drainer at the synchronisation points (mutex, channel, select) of the real handler code, or one call sequence of the sequential enumeration; distinct = distinct schedules / sequences"
	res.Assumptions = []string{"sequentially consistent locks/channels; unsynchronised accesses are left to the free-running -race pass over the same thread programs",
		"the mini-protocol vproto (harness) stands in for the cryptographic rounds; handlers are the repository's own"}
	var rp struct {
		Scenario scenario `json:"scenario"`
		Choices  []int    `json:"choices"`
		Seq      *seqCase `json:"seq"`
	}
	if vkit.LoadReplay(&rp) {
		if rp.Seq != nil {
			sig, detail := runSeq(*rp.Seq)
			fmt.Println(detail)
			fmt.Println("violations:", sig)
			if len(sig) > 0 {
				os.Exit(1)
			}
			return
		}
		w, err := buildWorld(rp.Scenario)
		if err != nil {
			fmt.Println(err)
			os.Exit(2)
		}
		o, v := vsched.RunOne(w.harness(), rp.Choices, true)
		for _, t := range o.Trace {
			fmt.Println(t)
		}
		fmt.Println("outcome:", v.Outcome, "\nblocked:", o.Blocked, "panics:", o.Panics, "hard:", o.HardErr, "\nviolations:", v.Violations)
		if len(v.Violations) > 0 {
			os.Exit(1)
		}
		return
	}
	if *vkit.Mode == "race" {
		racePass(res)
		raceReal(res)
		res.Finish()
		return
	}
	if vkit.Thorough() && vkit.ShardI() == 0 && *scenFlag == "" && *vkit.Only == "" {
		dumpCMPKeys() // key material for the CMP body of the race pass (see racereal.go)
	}
	outcomes := map[string]bool{}
	for _, sc := range scenarios() {
		if !vkit.Want(sc.Name) {
			continue
		}
		w, err := buildWorld(sc)
		if err != nil {
			res.Hard(sc.Name + ": " + err.Error())
			continue
		}
		deadline := vkit.Deadline(60*time.Second, 15*time.Minute)
		st := vsched.ExploreAll(sc.Name, w.harness(), sc.Bound, vkit.ShardI(), vkit.ShardN(), 0, deadline)
		b := "unbounded"
		if sc.Bound >= 0 {
			b = fmt.Sprintf("preemptions<=%d", sc.Bound)
		}
		res.AddScenario(vkit.Scenario{Name: sc.Name, Bound: b, Executions: st.Executions, States: st.Points, Transitions: st.Points,
			MaxDepth: st.MaxDepth, Outcomes: st.Outcomes, Complete: st.Complete, WallS: st.WallS})
		for o := range st.Outcomes {
			outcomes[sc.Name+"|"+o] = true
		}
		for _, h := range st.HardErrs {
			res.Hard(sc.Name + ": " + h)
		}
		sigs := []string{}
		for s := range st.Found {
			sigs = append(sigs, s)
		}
		sort.Strings(sigs)
		for _, sig := range sigs {
			f := st.Found[sig]
			full := sc.Kind + "|" + sig
			res.Violate(full, fmt.Sprintf("%s\nfirst seen with %d preemptions (%d executions of that scenario show it)\ntrace:\n%s", f.Detail, f.Preempt, f.Count, strings.Join(f.Trace, "\n")),
				map[string]interface{}{"scenario": sc, "choices": f.Choices})
		}
		if len(res.Samples) < 8 && st.Executions > 0 {
			res.Sample(map[string]interface{}{"scenario": sc.Name, "bound": b, "executions": st.Executions, "outcomes": st.Outcomes})
		}
		fmt.Fprintf(os.Stderr, "%-60s %-14s exec=%-8d points=%-9d depth=%-3d outcomes=%d complete=%v found=%v %.1fs\n", sc.Name, b, st.Executions, st.Points, st.MaxDepth, len(st.Outcomes), st.Complete, sigs, st.WallS)
	}
	if vkit.ShardI() == 0 {
		seqEnumeration(res)
	}
	res.Nontrivial = res.Evaluations
	res.Extra["distinct_outcomes"] = len(outcomes)
	res.Finish()
}
