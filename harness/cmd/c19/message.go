package main

import (
	"fmt"
	"os"
	"strings"

	"github.com/taurusgroup/multi-party-sig/internal/round"
	"github.com/taurusgroup/multi-party-sig/internal/zzverif/vkit"
	"github.com/taurusgroup/multi-party-sig/pkg/party"
	"github.com/taurusgroup/multi-party-sig/pkg/protocol"
)

// ---- protocol.Message.Hash: the one place that passes a sequence to hash.New ----------------
//
// Reference model: two messages are the same iff all eight header/content fields are equal
// (nil and empty byte strings are treated as equal here).

type msgCase struct {
	SSID, Data, BV *string // nil pointer = nil slice
	From, To       string
	Protocol       string
	Round          int
	Broadcast      bool
}

func (m msgCase) msg() *protocol.Message {
	b := func(s *string) []byte {
		if s == nil {
			return nil
		}
		return []byte(*s)
	}
	return &protocol.Message{SSID: b(m.SSID), From: party.ID(m.From), To: party.ID(m.To), Protocol: m.Protocol,
		RoundNumber: round.Number(m.Round), Data: b(m.Data), Broadcast: m.Broadcast, BroadcastVerification: b(m.BV)}
}

func (m msgCase) fields() []string {
	s := func(p *string) string {
		if p == nil {
			return ""
		}
		return *p
	}
	return []string{"SSID=" + hx([]byte(s(m.SSID))), "From=" + hx([]byte(m.From)), "To=" + hx([]byte(m.To)), "Protocol=" + hx([]byte(m.Protocol)),
		fmt.Sprintf("RoundNumber=%d", m.Round), "Data=" + hx([]byte(s(m.Data))), fmt.Sprintf("Broadcast=%v", m.Broadcast), "BroadcastVerification=" + hx([]byte(s(m.BV)))}
}

func (m msgCase) String() string {
	f := func(p *string) string {
		if p == nil {
			return "nil"
		}
		return fmt.Sprintf("%q", *p)
	}
	return fmt.Sprintf("{SSID:%s From:%q To:%q Protocol:%q Round:%d Data:%s Broadcast:%v BroadcastVerification:%s}", f(m.SSID), m.From, m.To, m.Protocol, m.Round, f(m.Data), m.Broadcast, f(m.BV))
}

func checkMessagePair(a, b msgCase, verbose bool) {
	var ha, hb []byte
	if p, msg, fr := vkit.Try(func() { ha, hb = a.msg().Hash(), b.msg().Hash() }); p {
		res.Violate("panic|Message.Hash|"+fr, msg, replay{Kind: "message", MsgA: &a, MsgB: &b})
		return
	}
	if verbose {
		fmt.Printf("A = %v\n    hash %x\nB = %v\n    hash %x\n", a, ha, b, hb)
	}
	fa, fb := a.fields(), b.fields()
	var diff []string
	for i := range fa {
		if fa[i] != fb[i] {
			diff = append(diff, fa[i][:strings.Index(fa[i], "=")])
		}
	}
	if len(diff) > 0 && string(ha) == string(hb) {
		res.Violate("hash-collision|Message.Hash|"+strings.Join(diff, ","), fmt.Sprintf("two messages that differ in %v have the same Hash():\n A = %v\n B = %v", diff, a, b),
			replay{Kind: "message", MsgA: &a, MsgB: &b})
	}
}

func runMessages() {
	if vkit.ShardI() != 0 {
		return
	}
	str := func(s string) *string { return &s }
	byteVals := func(c string) []*string { return []*string{nil, str(""), str(c)} }
	var all []msgCase
	for _, ssid := range byteVals("s") {
		for _, from := range []string{"", "a", "ab"} {
			for _, to := range []string{"", "a", "b"} {
				for _, proto := range []string{"", "p"} {
					for _, rnd := range []int{0, 1} {
						for _, data := range byteVals("d") {
							for _, bc := range []bool{false, true} {
								for _, bv := range byteVals("v") {
									all = append(all, msgCase{SSID: ssid, From: from, To: to, Protocol: proto, Round: rnd, Data: data, Broadcast: bc, BV: bv})
								}
							}
						}
					}
				}
			}
		}
	}
	table := map[string]int{}
	collisions := 0
	for i, m := range all {
		res.Case("message|" + strings.Join(m.fields(), "|"))
		var h []byte
		if p, msg, fr := vkit.Try(func() { h = m.msg().Hash() }); p {
			res.Violate("panic|Message.Hash|"+fr, fmt.Sprintf("%v: %s", m, msg), replay{Kind: "message", MsgA: &all[i], MsgB: &all[i]})
			continue
		}
		if j, ok := table[string(h)]; ok {
			if strings.Join(all[j].fields(), "|") != strings.Join(m.fields(), "|") {
				collisions++
				checkMessagePair(all[j], m, false)
			}
			continue
		}
		table[string(h)] = i
	}
	res.Extra["message_headers_hashed"] = int64(len(all))
	res.Extra["message_distinct_digests"] = int64(len(table))
	fmt.Fprintf(os.Stderr, "messages: %d headers, %d distinct digests, %d collisions\n", len(all), len(table), collisions)
}

func replayMessage(rp replay) {
	if rp.MsgA == nil || rp.MsgB == nil {
		fmt.Println("bad replay")
		os.Exit(2)
	}
	checkMessagePair(*rp.MsgA, *rp.MsgB, true)
}
