package main

// The alphabet of C19: concrete values of every type the transcript hash accepts, chosen so
// that adjacent items can trade bytes, items can be split or merged, and values of
// different types carry equal bytes.  Every item has
//   - a constructor (Mk) returning a fresh value, and
//   - a semantic identity (ID): "<type>:<canonical value>", written down here from the
//     meaning of the value (never from its hash encoding).  Two sequences are "the same"
//     iff their identity lists are equal.  This is the reference model of the check.

import (
	"crypto/sha256"
	"encoding/binary"
	"encoding/hex"
	"fmt"
	"math/big"
	"strings"

	"github.com/cronokirby/saferith"
	"github.com/taurusgroup/multi-party-sig/internal/elgamal"
	"github.com/taurusgroup/multi-party-sig/internal/round"
	"github.com/taurusgroup/multi-party-sig/internal/types"
	"github.com/taurusgroup/multi-party-sig/internal/zzverif/ref"
	"github.com/taurusgroup/multi-party-sig/pkg/hash"
	"github.com/taurusgroup/multi-party-sig/pkg/math/arith"
	"github.com/taurusgroup/multi-party-sig/pkg/math/curve"
	"github.com/taurusgroup/multi-party-sig/pkg/math/polynomial"
	"github.com/taurusgroup/multi-party-sig/pkg/paillier"
	"github.com/taurusgroup/multi-party-sig/pkg/party"
	"github.com/taurusgroup/multi-party-sig/pkg/pedersen"
	zksch "github.com/taurusgroup/multi-party-sig/pkg/zk/sch"
	cmpconfig "github.com/taurusgroup/multi-party-sig/protocols/cmp/config"
	frostsign "github.com/taurusgroup/multi-party-sig/protocols/frost/sign"
)

type item struct {
	Name string // unique label (replay files refer to items by name)
	Type string // type label used in violation signatures
	ID   string // semantic identity
	Mk   func() interface{}
	Tier int // commitment alphabet: 1 = quick and thorough, 2 = thorough only, 0 = not used for commitments
}

var (
	items  []*item
	byName = map[string]int{}
)

func add(tier int, typ, name, canon string, mk func() interface{}) {
	it := &item{Name: typ + ":" + name, Type: typ, ID: typ + ":" + canon, Mk: mk, Tier: tier}
	if _, dup := byName[it.Name]; dup {
		panic("duplicate item name " + it.Name)
	}
	byName[it.Name] = len(items)
	items = append(items, it)
}

func u64(n int) []byte {
	var b [8]byte
	binary.BigEndian.PutUint64(b[:], uint64(n))
	return b[:]
}

func cat(parts ...interface{}) []byte {
	var out []byte
	for _, p := range parts {
		switch x := p.(type) {
		case string:
			out = append(out, x...)
		case []byte:
			out = append(out, x...)
		case byte:
			out = append(out, x)
		default:
			panic("cat")
		}
	}
	return out
}

func hx(b []byte) string {
	if b == nil {
		return "nil"
	}
	if len(b) > 40 {
		s := sha256.Sum256(b)
		return fmt.Sprintf("%s…(%d bytes, sha256 %s)", hex.EncodeToString(b[:12]), len(b), hex.EncodeToString(s[:8]))
	}
	return "x" + hex.EncodeToString(b)
}

// fixed 2048-bit odd numbers (domain constants, independent of -seed)
func bigConst(label string, bytes int) *big.Int {
	var out []byte
	for i := 0; len(out) < bytes; i++ {
		s := sha256.Sum256([]byte(fmt.Sprintf("c19-const|%s|%d", label, i)))
		out = append(out, s[:]...)
	}
	out = out[:bytes]
	out[0] |= 0x80
	out[len(out)-1] |= 1
	return new(big.Int).SetBytes(out)
}

var group = curve.Secp256k1{}

func scalar(k uint64) curve.Scalar {
	return group.NewScalar().SetNat(new(saferith.Nat).SetUint64(k))
}

func point(k uint64) curve.Point {
	if k == 0 {
		return group.NewPoint()
	}
	return scalar(k).ActOnBase()
}

func natFromBig(b *big.Int, bits int) *saferith.Nat {
	return new(saferith.Nat).SetBig(b, bits)
}

func modFromBig(b *big.Int) *saferith.Modulus {
	return saferith.ModulusFromNat(natFromBig(b, b.BitLen()))
}

func same(b []byte) func() interface{} {
	return func() interface{} {
		if b == nil {
			return []byte(nil)
		}
		return append([]byte{}, b...)
	}
}

func buildAlphabet() {
	b32 := make([]byte, 32) // the encoding of the scalar 3
	b32[31] = 3
	z32 := make([]byte, 32)
	b64 := make([]byte, 64)
	b64[63] = 3
	p1 := ref.MulG(big.NewInt(1)).Compressed() // independent encoding of 1·G
	nA, nB := bigConst("NA", 256), bigConst("NB", 256)
	x246 := []byte(strings.Repeat("x", 246))

	// ---- []byte ---------------------------------------------------------------------------
	bs := func(tier int, name string, b []byte) {
		add(tier, "[]byte", name, hx(b), same(b))
	}
	bs(1, "nil", nil)
	bs(1, "empty", []byte{})
	bs(1, "a", []byte("a"))
	bs(1, "ab", []byte("ab"))
	bs(1, "b", []byte("b"))
	bs(0, "(", []byte("("))
	bs(0, "a)(", []byte("a)("))
	bs(0, "01", []byte{1})
	bs(0, "03", []byte{3})
	bs(0, "u64(0)", u64(0))
	bs(0, "u64(1)", u64(1))
	bs(0, "u64(6)", u64(6))
	bs(2, "b32", b32)
	bs(0, "p1", p1)
	// one item that spells out the framing of the following item, for several hypothetical framings
	bs(2, "spoof-full", cat("a)(", u64(6), "[]byte", u64(1), "b"))
	bs(0, "spoof-nodatalen", cat("a)(", u64(6), "[]byte", "b"))
	bs(0, "spoof-nolen", cat("a)([]byteb"))
	for _, sep := range []string{"|", "\x00", ":", ","} { // … and if a separator byte stood where the data length is
		bs(0, fmt.Sprintf("spoof-sep-%q", sep), cat("a)([]byte", sep, "b"))
	}
	bs(0, "x246", x246)
	bs(0, "spoof-len8", cat(")(", byte(6), "[]byte", byte(246), x246)) // 256 bytes: wraps a 1-byte length to 0

	// ---- integers -------------------------------------------------------------------------
	add(1, "big.Int", "nil", "nil", func() interface{} { return (*big.Int)(nil) })
	for _, v := range []int64{0, 1, -1, 3, 257} {
		v := v
		t := 0
		if v == 1 || v == -1 {
			t = 1
		}
		add(t, "big.Int", fmt.Sprint(v), fmt.Sprint(v), func() interface{} { return big.NewInt(v) })
	}
	for _, v := range []uint64{0, 1, 3, 257} {
		v := v
		t := 0
		if v == 1 {
			t = 1
		}
		add(t, "Nat", fmt.Sprint(v), fmt.Sprint(v), func() interface{} { return new(saferith.Nat).SetUint64(v).Resize(big.NewInt(int64(v)).BitLen()) })
	}
	// the same number with a wider announced size: same identity, (legitimately) different bytes
	add(0, "Nat", "1/16bit", "1", func() interface{} { return new(saferith.Nat).SetUint64(1).Resize(16) })
	for _, v := range []int64{0, 1, -1, 3, 257} {
		v := v
		t := 0
		if v == 1 {
			t = 1
		}
		add(t, "Int", fmt.Sprint(v), fmt.Sprint(v), func() interface{} {
			return new(saferith.Int).SetBig(big.NewInt(v), big.NewInt(v).BitLen())
		})
	}
	for _, v := range []uint64{3, 257} {
		v := v
		add(2, "Modulus", fmt.Sprint(v), fmt.Sprint(v), func() interface{} { return saferith.ModulusFromUint64(v) })
	}
	add(0, "Modulus", "NA", nA.String(), func() interface{} { return modFromBig(nA) })

	// ---- curve ----------------------------------------------------------------------------
	for _, k := range []uint64{0, 1, 2, 3} {
		k := k
		t := 0
		if k == 1 || k == 2 {
			t = 1
		}
		add(t, "Point", fmt.Sprintf("%dG", k), fmt.Sprintf("%d*G", k), func() interface{} { return point(k) })
	}
	for _, k := range []uint64{0, 1, 3} {
		k := k
		t := 0
		if k == 3 {
			t = 1
		}
		add(t, "Scalar", fmt.Sprint(k), fmt.Sprint(k), func() interface{} { return scalar(k) })
	}

	// ---- identifiers ----------------------------------------------------------------------
	for _, s := range []string{"", "a", "ab", "b", "bc", "c"} {
		s := s
		t := 0
		if s == "" || s == "a" || s == "ab" || s == "b" {
			t = 1
		}
		add(t, "ID", fmt.Sprintf("%q", s), hx([]byte(s)), func() interface{} { return party.ID(s) })
	}
	add(0, "ID", "b32", hx(b32), func() interface{} { return party.ID(string(b32)) })
	ids := func(tier int, l ...string) {
		var canon []string
		for _, s := range l {
			canon = append(canon, hx([]byte(s)))
		}
		add(tier, "IDSlice", "["+strings.Join(l, ",")+"]", "["+strings.Join(canon, ",")+"]", func() interface{} {
			out := make(party.IDSlice, 0, len(l))
			for _, s := range l {
				out = append(out, party.ID(s))
			}
			return out
		})
	}
	add(0, "IDSlice", "nil", "nil", func() interface{} { return party.IDSlice(nil) })
	ids(0)
	ids(2, "a")
	ids(1, "a", "b")
	ids(2, "ab")
	ids(1, "a", "bc")
	ids(1, "ab", "c")
	ids(0, "abc")
	ids(0, "a", "b", "c")
	ids(0, "b", "a")

	// identifiers long enough to wrap a narrower length prefix (nothing bounds the length of a party.ID):
	// under a w-byte prefix [a, "Bob"] and ["A", b'] would be written identically, where
	// a = "A" | len_w(3) | "M"*(256^w - w) and b' = "M"*(256^w - w) | len_w(3) | "Bob"
	idsNamed := func(name string, l ...string) {
		h := sha256.New()
		for _, s := range l {
			fmt.Fprintf(h, "%d:", len(s))
			h.Write([]byte(s))
		}
		add(0, "IDSlice", name, fmt.Sprintf("sha256(ids)=%x", h.Sum(nil)), func() interface{} {
			out := make(party.IDSlice, 0, len(l))
			for _, s := range l {
				out = append(out, party.ID(s))
			}
			return out
		})
	}
	for _, w := range []int{1, 2} {
		for _, le := range []bool{false, true} {
			if w == 1 && le {
				continue
			}
			pre := make([]byte, w)
			if le {
				pre[0] = 3
			} else {
				pre[w-1] = 3
			}
			k := 1<<(8*uint(w)) - w
			ms := strings.Repeat("M", k)
			tag := fmt.Sprintf("w%d", w)
			if le {
				tag += "le"
			}
			idsNamed("[wrap-"+tag+":A|len(3)|M*,Bob]", "A"+string(pre)+ms, "Bob")
			idsNamed("[wrap-"+tag+":A,M*|len(3)|Bob]", "A", ms+string(pre)+"Bob")
		}
	}

	// ---- byte-string wrappers -------------------------------------------------------------
	wrap := func(typ string, tier int, name string, b []byte, conv func([]byte) interface{}) {
		add(tier, typ, name, hx(b), func() interface{} {
			if b == nil {
				return conv(nil)
			}
			return conv(append([]byte{}, b...))
		})
	}
	rid := func(b []byte) interface{} { return types.RID(b) }
	wrap("RID", 0, "nil", nil, rid)
	wrap("RID", 0, "a", []byte("a"), rid)
	wrap("RID", 1, "b32", b32, rid)
	wrap("RID", 0, "zero", z32, rid)
	// lengths around the nominal 32 bytes: a writer that pads or truncates to the nominal size would merge these
	wrap("RID", 0, "b32[:31]", b32[:31], rid)
	wrap("RID", 0, "b32[:31]|00", append(append([]byte{}, b32[:31]...), 0), rid)
	wrap("RID", 0, "b32|07", append(append([]byte{}, b32...), 7), rid)
	wrap("RID", 0, "z32[:31]", z32[:31], rid)
	wrap("RID", 0, "empty", []byte{}, rid)
	com := func(b []byte) interface{} { return hash.Commitment(b) }
	wrap("Commitment", 0, "nil", nil, com)
	wrap("Commitment", 2, "a", []byte("a"), com)
	wrap("Commitment", 0, "b64", b64, com)
	dec := func(b []byte) interface{} { return hash.Decommitment(b) }
	wrap("Decommitment", 0, "nil", nil, dec)
	wrap("Decommitment", 0, "a", []byte("a"), dec)
	wrap("Decommitment", 1, "b32", b32, dec)
	sm := func(b []byte) interface{} { return types.SigningMessage(b) }
	wrap("SigningMessage", 2, "nil", nil, sm)
	wrap("SigningMessage", 2, "empty", []byte{}, sm)
	wrap("SigningMessage", 1, "a", []byte("a"), sm)
	wrap("SigningMessage", 0, "b32", b32, sm)
	mh := func(b []byte) interface{} { return frostsign.VerifMessageHash(b) }
	wrap("messageHash", 0, "nil", nil, mh)
	wrap("messageHash", 0, "empty", []byte{}, mh)
	wrap("messageHash", 1, "a", []byte("a"), mh)
	wrap("messageHash", 0, "b32", b32, mh)

	// ---- small integers -------------------------------------------------------------------
	for _, v := range []uint32{0, 1, 256, 1 << 24} {
		v := v
		t := 0
		if v == 1 {
			t = 1
		}
		add(t, "Threshold", fmt.Sprint(v), fmt.Sprint(v), func() interface{} { return types.ThresholdWrapper(v) })
	}
	for _, v := range []uint16{0, 1, 256} {
		v := v
		t := 0
		if v == 1 {
			t = 1
		}
		add(t, "Round", fmt.Sprint(v), fmt.Sprint(v), func() interface{} { return round.Number(v) })
	}

	// ---- Paillier / Pedersen --------------------------------------------------------------
	ct := func(tier int, name string, v *big.Int) {
		add(tier, "PaillierCiphertext", name, v.String(), func() interface{} {
			c := new(paillier.Ciphertext)
			if err := c.UnmarshalBinary(v.Bytes()); err != nil {
				panic(err)
			}
			return c
		})
	}
	add(0, "PaillierCiphertext", "nil", "nil", func() interface{} { return (*paillier.Ciphertext)(nil) })
	ct(1, "1", big.NewInt(1))
	ct(0, "3", big.NewInt(3))
	ct(0, "NA", nA)
	ct(0, "2^4096+1", new(big.Int).Add(new(big.Int).Lsh(big.NewInt(1), 4096), big.NewInt(1))) // one byte wider than the fixed field
	add(0, "PaillierPublicKey", "nil", "nil", func() interface{} { return (*paillier.PublicKey)(nil) })
	pk := func(n *big.Int) *paillier.PublicKey { return paillier.NewPublicKey(modFromBig(n)) }
	add(2, "PaillierPublicKey", "3", "N=3", func() interface{} { return pk(big.NewInt(3)) })
	add(0, "PaillierPublicKey", "NA", "N="+nA.String(), func() interface{} { return pk(nA) })
	add(0, "PaillierPublicKey", "NB", "N="+nB.String(), func() interface{} { return pk(nB) })
	ped := func(n *big.Int, s, t int64) *pedersen.Parameters {
		return pedersen.New(arith.ModulusFromN(modFromBig(n)), natFromBig(big.NewInt(s), 8), natFromBig(big.NewInt(t), 8))
	}
	add(0, "Pedersen", "nil", "nil", func() interface{} { return (*pedersen.Parameters)(nil) })
	add(2, "Pedersen", "NA,2,3", fmt.Sprintf("N=%s,s=2,t=3", nA), func() interface{} { return ped(nA, 2, 3) })
	add(0, "Pedersen", "NA,3,2", fmt.Sprintf("N=%s,s=3,t=2", nA), func() interface{} { return ped(nA, 3, 2) })
	add(0, "Pedersen", "NB,2,3", fmt.Sprintf("N=%s,s=2,t=3", nB), func() interface{} { return ped(nB, 2, 3) })
	// the same values decoded from encodings of other lengths (the announced length of a natural read
	// from the wire is the sender's choice): a byte moved between the adjacent fields S and T
	// (S=02 00|T=03 against S=02|T=00 03) must change the digest, a different announced length alone must not.
	pedL := func(n *big.Int, s int64, sBits int, t int64, tBits int) *pedersen.Parameters {
		return pedersen.New(arith.ModulusFromN(modFromBig(n)), natFromBig(big.NewInt(s), sBits), natFromBig(big.NewInt(t), tBits))
	}
	add(0, "Pedersen", "NA,512/16,3/8", fmt.Sprintf("N=%s,s=512,t=3", nA), func() interface{} { return pedL(nA, 512, 16, 3, 8) })
	add(0, "Pedersen", "NA,2/8,3/16", fmt.Sprintf("N=%s,s=2,t=3", nA), func() interface{} { return pedL(nA, 2, 8, 3, 16) })
	add(0, "Pedersen", "NA,2/2048,3/2056", fmt.Sprintf("N=%s,s=2,t=3", nA), func() interface{} { return pedL(nA, 2, 2048, 3, 2056) })
	add(0, "Pedersen", "NA,512/2048,3/2048", fmt.Sprintf("N=%s,s=512,t=3", nA), func() interface{} { return pedL(nA, 512, 2048, 3, 2048) })

	// ---- polynomials, ElGamal, Schnorr ----------------------------------------------------
	exp := func(tier int, isConst bool, ks ...uint64) {
		var names []string
		for _, k := range ks {
			names = append(names, fmt.Sprintf("%d*G", k))
		}
		canon := fmt.Sprintf("zeroConstant=%v,coefficients=[%s]", isConst, strings.Join(names, ","))
		add(tier, "Exponent", canon, canon, func() interface{} {
			cs := make([]curve.Point, 0, len(ks))
			for _, k := range ks {
				cs = append(cs, point(k))
			}
			return polynomial.VerifExponent(group, isConst, cs)
		})
	}
	exp(0, false)
	exp(1, false, 1)
	exp(0, true, 1)
	exp(0, false, 2)
	exp(1, false, 1, 2)
	exp(2, false, 2, 1)
	for _, lm := range [][2]uint64{{1, 2}, {2, 1}} {
		lm := lm
		add(2, "ElGamalCiphertext", fmt.Sprintf("%dG,%dG", lm[0], lm[1]), fmt.Sprintf("L=%d*G,M=%d*G", lm[0], lm[1]), func() interface{} {
			return &elgamal.Ciphertext{L: point(lm[0]), M: point(lm[1])}
		})
	}
	for _, k := range []uint64{1, 2} {
		k := k
		add(2, "SchnorrCommitment", fmt.Sprintf("%dG", k), fmt.Sprintf("%d*G", k), func() interface{} { return &zksch.Commitment{C: point(k)} })
	}

	// ---- nested writers: CMP public data and configs ---------------------------------------
	pub := func(x, y uint64, n *big.Int) *cmpconfig.Public {
		return &cmpconfig.Public{ECDSA: point(x), ElGamal: point(y), Paillier: pk(n), Pedersen: ped(n, 2, 3)}
	}
	pubID := func(x, y uint64, n *big.Int) string {
		return fmt.Sprintf("{ECDSA=%d*G,ElGamal=%d*G,Paillier=%s,Pedersen=(%s,2,3)}", x, y, n, n)
	}
	add(0, "Public", "nil", "nil", func() interface{} { return (*cmpconfig.Public)(nil) })
	// a writer that writes part of itself (two points) and then fails: refused, and nothing of it may stay behind
	add(0, "Public", "1,2,no-paillier", "refused:{ECDSA=1*G,ElGamal=2*G,Paillier=nil}", func() interface{} {
		return &cmpconfig.Public{ECDSA: point(1), ElGamal: point(2), Pedersen: ped(nA, 2, 3)}
	})
	add(2, "Public", "1,2,NA", pubID(1, 2, nA), func() interface{} { return pub(1, 2, nA) })
	add(0, "Public", "2,1,NA", pubID(2, 1, nA), func() interface{} { return pub(2, 1, nA) })
	add(0, "Public", "1,2,NB", pubID(1, 2, nB), func() interface{} { return pub(1, 2, nB) })
	// identity of a Config = what its doc comment calls the SSID: (t, party ids, rid, public data per party)
	cfg := func(tier int, name string, t int, id1, id2 string, swap bool) {
		a, b := [3]interface{}{uint64(1), uint64(2), nA}, [3]interface{}{uint64(2), uint64(3), nB}
		if swap {
			a, b = b, a
		}
		canon := fmt.Sprintf("t=%d,rid=%s,parties={%s:%s,%s:%s}", t, hx(b32), hx([]byte(id1)), pubID(a[0].(uint64), a[1].(uint64), a[2].(*big.Int)),
			hx([]byte(id2)), pubID(b[0].(uint64), b[1].(uint64), b[2].(*big.Int)))
		add(tier, "Config", name, canon, func() interface{} {
			return &cmpconfig.Config{Group: group, ID: party.ID(id1), Threshold: t, RID: types.RID(append([]byte{}, b32...)),
				Public: map[party.ID]*cmpconfig.Public{
					party.ID(id1): pub(a[0].(uint64), a[1].(uint64), a[2].(*big.Int)),
					party.ID(id2): pub(b[0].(uint64), b[1].(uint64), b[2].(*big.Int)),
				}}
		})
	}
	add(0, "Config", "nil", "nil", func() interface{} { return (*cmpconfig.Config)(nil) })
	cfg(0, "t1{a,bc}", 1, "a", "bc", false)
	cfg(0, "t1{ab,c}", 1, "ab", "c", false)
	cfg(0, "t1{a,bc}swapped", 1, "a", "bc", true)
	cfg(0, "t2{a,bc}", 2, "a", "bc", false)

	// ---- BytesWithDomain: domains that are prefixes / suffixes of each other and of the data ----
	bwd := func(tier int, dom string, data []byte) {
		add(tier, "BytesWithDomain", fmt.Sprintf("%s/%s", hx([]byte(dom)), hx(data)), fmt.Sprintf("domain=%s,data=%s", hx([]byte(dom)), hx(data)), func() interface{} {
			var d []byte
			if data != nil {
				d = append([]byte{}, data...)
			}
			return hash.BytesWithDomain{TheDomain: dom, Bytes: d}
		})
	}
	bwd(0, "a", nil)
	bwd(0, "b", nil) // refused like the one above; through New / Fork the two must leave different markers
	bwd(0, "", []byte{})
	bwd(2, "", []byte("a"))
	bwd(2, "a", []byte{})
	bwd(0, "a", []byte("a"))
	bwd(1, "a", []byte("b"))
	bwd(1, "ab", []byte{})
	bwd(2, "", []byte("ab"))
	bwd(0, "b", []byte("a"))
	bwd(0, "a", []byte("ab"))
	bwd(0, "x", b32)
	bwd(0, "a", u64(0))                        // "a" u64(8) u64(0) …
	bwd(0, string(cat("a", u64(8))), []byte{}) // … equals this one if the domain length is not written
	// pointer form, as used by internal/round and internal/ot: same meaning as the value form
	add(0, "BytesWithDomain", "ptr:a/b", fmt.Sprintf("domain=%s,data=%s", hx([]byte("a")), hx([]byte("b"))), func() interface{} {
		return &hash.BytesWithDomain{TheDomain: "a", Bytes: []byte("b")}
	})
	add(0, "BytesWithDomain", "ptr:a/nil", fmt.Sprintf("domain=%s,data=nil", hx([]byte("a"))), func() interface{} {
		return &hash.BytesWithDomain{TheDomain: "a", Bytes: nil}
	})
	add(0, "BytesWithDomain", "ptr:b/nil", fmt.Sprintf("domain=%s,data=nil", hx([]byte("b"))), func() interface{} {
		return &hash.BytesWithDomain{TheDomain: "b", Bytes: nil}
	})
}
