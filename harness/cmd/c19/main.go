// C19 — transcript hashing is injective and commitments are binding.
// Engine D (lattice): every sequence of length <=2 (quick) / <=3 (thorough) over an
// alphabet of typed values is fed to the real pkg/hash code; a digest shared by two
// sequences with different semantic identity lists is a violation.  Commitments: every
// tuple is committed and the opening is tried against every tuple, foreign and damaged
// decommitments.
package main

import (
	"fmt"
	"os"
	"sort"
	"strings"

	"github.com/taurusgroup/multi-party-sig/internal/zzverif/drv"
	"github.com/taurusgroup/multi-party-sig/internal/zzverif/vkit"
	"github.com/taurusgroup/multi-party-sig/pkg/hash"
)

var res *vkit.Result

// ---- items at run time ---------------------------------------------------------------------

var (
	vals []interface{} // one value per item, built once (WriteAny must not modify its inputs)
	bad  []bool        // WriteAny refuses the item
	noop []bool        // WriteAny accepts the item but leaves the transcript unchanged
	errs []string
)

// write feeds one value to h, capturing panics.
func write(h *hash.Hash, v interface{}) (err error, panicked bool, frame string) {
	p, msg, fr := vkit.Try(func() { err = h.WriteAny(v) })
	if p {
		return fmt.Errorf("panic: %s", msg), true, fr
	}
	return err, false, ""
}

func sum(h *hash.Hash) string { return string(h.Sum()) }

func prepareItems(check bool) {
	for i, it := range items {
		v := it.Mk()
		vals = append(vals, v)
		h0 := hash.New()
		err, _, _ := write(h0, v)
		bad = append(bad, err != nil)
		noop = append(noop, err == nil && sum(h0) == sum(hash.New()))
		if err != nil {
			errs = append(errs, err.Error())
		} else {
			errs = append(errs, "")
		}
		if check && vkit.ShardI() == 0 {
			checkItem(i)
		}
	}
}

// checkItem: no panic; determinism on fresh values, errors included; a refused item leaves
// the state untouched.
func checkItem(i int) {
	it := items[i]
	rp := replay{Kind: "item", A: []string{it.Name}}
	empty := sum(hash.New())
	h := hash.New()
	err, p, fr := write(h, it.Mk())
	if p {
		res.Violate("panic|WriteAny|"+it.Type+"|"+fr, fmt.Sprintf("WriteAny(%s) panics: %v", it.Name, err), rp)
		return
	}
	h2 := hash.New()
	err2, _, _ := write(h2, it.Mk())
	if (err == nil) != (err2 == nil) || (err != nil && err.Error() != err2.Error()) {
		res.Violate("nondeterministic-error|"+it.Type, fmt.Sprintf("WriteAny(%s): first %v, then %v", it.Name, err, err2), rp)
	} else if sum(h) != sum(h2) {
		res.Violate("nondeterministic-digest|"+it.Type, fmt.Sprintf("two fresh copies of %s hash differently", it.Name), rp)
	}
	if err != nil && sum(h) != empty {
		res.Violate("partial-write|"+it.Type, fmt.Sprintf("WriteAny(%s) returned %q but changed the hash state", it.Name, err), rp)
	}
	if err == nil && sum(h) == empty {
		res.Violate("silent-noop|WriteAny|"+it.Type, fmt.Sprintf("WriteAny(%s) returns no error but leaves the transcript unchanged: [x, %s] and [x] have the same digest for every x", it.Name, it.Name), rp)
	}
}

// ---- sequences -----------------------------------------------------------------------------

type seq []int

func (s seq) names() []string {
	out := make([]string, len(s))
	for i, x := range s {
		out[i] = items[x].Name
	}
	return out
}

func (s seq) ids() []string {
	out := make([]string, len(s))
	for i, x := range s {
		out[i] = items[x].ID
	}
	return out
}

func (s seq) types() string {
	out := make([]string, len(s))
	for i, x := range s {
		out[i] = items[x].Type
	}
	return "[" + strings.Join(out, ",") + "]"
}

func (s seq) String() string { return "[" + strings.Join(s.names(), "  ") + "]" }

func sameIDs(a, b seq) bool {
	if len(a) != len(b) {
		return false
	}
	for i := range a {
		if items[a[i]].ID != items[b[i]].ID {
			return false
		}
	}
	return true
}

func fromNames(n []string) seq {
	var s seq
	for _, x := range n {
		i, ok := byName[x]
		if !ok {
			fmt.Fprintln(os.Stderr, "unknown item", x)
			os.Exit(2)
		}
		s = append(s, i)
	}
	return s
}

// digestWrite hashes s item by item from fresh values; ok=false if some item is refused.
func digestWrite(s seq) (d string, ok bool) {
	h := hash.New()
	for _, x := range s {
		if err, _, _ := write(h, items[x].Mk()); err != nil {
			return "", false
		}
	}
	return sum(h), true
}

// core reduces a colliding pair to the part that explains it: items with equal identity at
// the same distance from the start or the end are dropped; if the remaining pair has equal
// length and every position collides on its own, the single positions are returned instead.
func core(a, b seq) [][2]seq {
	strip := func(s seq) seq {
		var out seq
		for _, x := range s {
			if !noop[x] {
				out = append(out, x)
			}
		}
		return out
	}
	if sa, sb := strip(a), strip(b); len(sa) != len(a) || len(sb) != len(b) {
		// items that hash as nothing are reported on their own (silent-noop); what is left may be explained by them
		for _, s := range []seq{a, b} {
			for _, x := range s {
				if noop[x] {
					checkItem(x)
				}
			}
		}
		if sameIDs(sa, sb) {
			return nil
		}
		a, b = sa, sb
	}
	for len(a) > 0 && len(b) > 0 && items[a[0]].ID == items[b[0]].ID {
		a, b = a[1:], b[1:]
	}
	for len(a) > 0 && len(b) > 0 && items[a[len(a)-1]].ID == items[b[len(b)-1]].ID {
		a, b = a[:len(a)-1], b[:len(b)-1]
	}
	if len(a) == len(b) && len(a) > 1 {
		var singles [][2]seq
		all := true
		for i := range a {
			if items[a[i]].ID == items[b[i]].ID {
				continue
			}
			da, oka := digestWrite(seq{a[i]})
			db, okb := digestWrite(seq{b[i]})
			if !oka || !okb || da != db {
				all = false
				break
			}
			singles = append(singles, [2]seq{{a[i]}, {b[i]}})
		}
		if all && len(singles) > 0 {
			return singles
		}
	}
	return [][2]seq{{a, b}}
}

func pairSig(class string, a, b seq) string {
	ta, tb := a.types(), b.types()
	if ta > tb {
		ta, tb = tb, ta
	}
	return class + "|" + ta + "|" + tb
}

type replay struct {
	Kind string   `json:"kind"` // collision | item | drop | commit | message
	Mode string   `json:"mode,omitempty"`
	A    []string `json:"a,omitempty"`
	B    []string `json:"b,omitempty"`
	Base int      `json:"base,omitempty"`
	MsgA *msgCase `json:"msg_a,omitempty"`
	MsgB *msgCase `json:"msg_b,omitempty"`
}

// checkCollision re-hashes both sequences from fresh values and reports a violation if they
// differ in identity but share a digest.
func checkCollision(a, b seq, verbose bool) bool {
	da, oka := digestWrite(a)
	db, okb := digestWrite(b)
	if verbose {
		fmt.Printf("A = %v\n    identities %q\n    digest %x (hashed: %v)\nB = %v\n    identities %q\n    digest %x (hashed: %v)\n", a, a.ids(), da, oka, b, b.ids(), db, okb)
	}
	if !oka || !okb || da != db || sameIDs(a, b) {
		return false
	}
	for _, c := range core(a, b) {
		res.Violate(pairSig("hash-collision", c[0], c[1]),
			fmt.Sprintf("two different sequences have the same transcript digest %x…\n A = %v\n B = %v\nreduced to: %v  vs  %v", da[:8], a, b, c[0], c[1]),
			replay{Kind: "collision", A: c[0].names(), B: c[1].names()})
	}
	return true
}

type enum struct {
	maxLen    int
	n         int
	table     map[string][4]uint8 // digest -> first sequence with it (len, items…)
	counter   int
	hashed    int64 // clean sequences owned by this shard (by sequence index)
	refused   int64
	collided  int64
	emptySum  string
	distinctK map[string]bool
}

func enc(s seq) [4]uint8 {
	var e [4]uint8
	e[0] = uint8(len(s))
	for i, x := range s {
		e[i+1] = uint8(x)
	}
	return e
}

func dec(e [4]uint8) seq {
	s := make(seq, e[0])
	for i := range s {
		s[i] = int(e[i+1])
	}
	return s
}

// rec visits sequence s.  h: state after writing s item by item (valid while !dirty).
// Once s contains a refused item (dirty), hc is the state with the refused items left out and
// hp the state up to the first refused item; firstBad is that item.
func (e *enum) rec(s seq, h *hash.Hash, dirty bool, hc, hp *hash.Hash, firstBad int) {
	k := e.counter
	e.counter++
	mine := vkit.Mine(k)
	var wd string
	if !dirty {
		wd = sum(h)
		if int(wd[0])%vkit.ShardN() == vkit.ShardI() { // ownership by digest: collisions are found globally
			if prev, ok := e.table[wd]; ok {
				if p := dec(prev); !sameIDs(p, s) {
					e.collided++
					if !checkCollision(p, append(seq{}, s...), false) {
						res.Hard(fmt.Sprintf("collision between %v and %v not reproducible from fresh values", p, s))
					}
				}
			} else {
				e.table[wd] = enc(s)
			}
		}
	}
	if mine {
		if dirty {
			e.refused++
			res.Case("refused|" + strings.Join(s.ids(), "|"))
		} else {
			e.hashed++
			res.Case(strings.Join(s.ids(), "|"))
			if len(res.Samples) < 6 && len(s) == e.maxLen && k%977 == 0 {
				res.Sample(map[string]interface{}{"sequence": s.names(), "digest": fmt.Sprintf("%x", wd[:16])})
			}
		}
		e.otherEntryPoints(s, wd, dirty, hc, hp, firstBad)
	}
	if len(s) == e.maxLen {
		return
	}
	for i := 0; i < e.n; i++ {
		child := append(s, i)
		if !dirty {
			c := h.Clone()
			err, p, fr := write(c, vals[i])
			if p {
				res.Violate("panic|WriteAny|"+items[i].Type+"|"+fr, fmt.Sprintf("WriteAny panics on %v: %v", child, err), replay{Kind: "item", A: child.names()})
			}
			if err == nil {
				if bad[i] {
					res.Violate("nondeterministic-error|"+items[i].Type, fmt.Sprintf("%s is refused on an empty transcript but accepted after %v", items[i].Name, s), replay{Kind: "item", A: child.names()})
				}
				e.rec(child, c, false, nil, nil, -1)
				continue
			}
			if !bad[i] || err.Error() != errs[i] {
				res.Violate("nondeterministic-error|"+items[i].Type, fmt.Sprintf("%s after %v: error %q, alone: %q", items[i].Name, s, err, errs[i]), replay{Kind: "item", A: child.names()})
			}
			if mine && sum(c) != wd {
				res.Violate("partial-write|"+items[i].Type, fmt.Sprintf("WriteAny(%s) returned %q but changed the hash state (after %v)", items[i].Name, err, s), replay{Kind: "item", A: child.names()})
			}
			e.rec(child, nil, true, h, h, i)
			continue
		}
		if bad[i] {
			e.rec(child, nil, true, hc, hp, firstBad)
		} else {
			c := hc.Clone()
			_, _, _ = write(c, vals[i])
			e.rec(child, nil, true, c, hp, firstBad)
		}
	}
}

// refusedMarkers: New and Fork cannot report an error; a refused value leaves a marker that names its
// domain.  Every sequence of length <= 2 with at least one refused item is hashed through Fork (and
// through hash.New where all items are writers) and the digests are grouped: two sequences that
// differ in an accepted item, in the TYPE of a refused item or in the DOMAIN TAG of a refused
// BytesWithDomain must not share a digest (internal/ot separates its PRG, gadget and chi streams by
// forking one context with exactly such tagged, dataless values).  What distinguishes two refused
// values of one type beyond that is not in the marker by design and is not demanded.
func refusedMarkers() {
	refID := func(x int) string {
		if !bad[x] {
			return items[x].Type + "=" + items[x].ID
		}
		id := "refused:" + items[x].Type
		switch v := vals[x].(type) {
		case hash.BytesWithDomain:
			id += ":" + v.TheDomain
		case *hash.BytesWithDomain:
			if v != nil {
				id += ":" + v.TheDomain
			}
		}
		return id
	}
	ids := func(s seq) string {
		var l []string
		for _, x := range s {
			l = append(l, refID(x))
		}
		return strings.Join(l, "|")
	}
	var seqs []seq
	for i := range items {
		if bad[i] {
			seqs = append(seqs, seq{i})
		}
		for j := range items {
			if bad[i] || bad[j] {
				seqs = append(seqs, seq{i, j})
			}
		}
	}
	for _, mode := range []string{"Fork", "hash.New"} {
		table := map[string]seq{}
		n := 0
		for _, s := range seqs {
			args := make([]interface{}, len(s))
			ws := make([]hash.WriterToWithDomain, 0, len(s))
			for i, x := range s {
				args[i] = vals[x]
				if w, ok := vals[x].(hash.WriterToWithDomain); ok {
					ws = append(ws, w)
				}
			}
			var got string
			if mode == "Fork" {
				if p, _, _ := vkit.Try(func() { got = sum(hash.New().Fork(args...)) }); p {
					continue // reported by otherEntryPoints
				}
			} else {
				if len(ws) != len(s) {
					continue
				}
				if p, _, _ := vkit.Try(func() { got = sum(hash.New(ws...)) }); p {
					continue
				}
			}
			n++
			res.Case("refused-marker|" + mode + "|" + strings.Join(s.names(), "|"))
			if prev, ok := table[got]; ok {
				if ids(prev) != ids(s) {
					res.Violate("refused-items-collide|"+mode, fmt.Sprintf("%s(%v) and %s(%v) have the same digest although they differ (%s  vs  %s): the marker left by a refused value does not tell them apart", mode, prev, mode, s, ids(prev), ids(s)),
						replay{Kind: "drop", Mode: mode, A: prev.names(), B: s.names()})
				}
			} else {
				table[got] = append(seq{}, s...)
			}
		}
		res.Extra["refused_marker_sequences_"+mode] = int64(n)
	}
}

// refusedLeavesNoResidue: WriteAny(x) returned an error (and callers such as Helper.UpdateHashState ignore
// it); the SAME hash object - and a clone taken from it afterwards - must then treat every later item y
// exactly as an object that never saw x.
func refusedLeavesNoResidue() {
	n := 0
	for x := range items {
		if !bad[x] {
			continue
		}
		for y := range items {
			if bad[y] {
				continue
			}
			h1, h2 := hash.New(), hash.New()
			var s1, s2, s3 string
			if p, _, _ := vkit.Try(func() {
				_ = h1.WriteAny(vals[x])
				c := h1.Clone()
				_ = h1.WriteAny(vals[y])
				_ = c.WriteAny(vals[y])
				_ = h2.WriteAny(vals[y])
				s1, s2, s3 = sum(h1), sum(h2), sum(c)
			}); p {
				continue // panics are reported by the sequence enumeration
			}
			n++
			if s1 != s2 || s3 != s2 {
				res.Violate("refused-item-leaves-residue|"+items[x].Type, fmt.Sprintf("WriteAny(%s) is refused with an error, but the same hash object (or its clone) then hashes %s differently from an object that never saw the refused item: bytes of the refused item stayed behind", items[x].Name, items[y].Name),
					replay{Kind: "item", A: []string{items[x].Name, items[y].Name}})
				break
			}
		}
	}
	res.Extra["refused_then_accepted_pairs_on_one_object"] = int64(n)
}

// otherEntryPoints: the same sequence through hash.New(initialData...) and through Fork(data...).
// Neither can report an error, so for a sequence with a refused item the digest is compared
// with the digest of the sequence without it: equal means the item vanished silently.
var refusedButDistinct int64

func (e *enum) otherEntryPoints(s seq, wd string, dirty bool, hc, hp *hash.Hash, firstBad int) {
	if len(s) == 0 {
		return
	}
	args := make([]interface{}, len(s))
	ws := make([]hash.WriterToWithDomain, 0, len(s))
	for i, x := range s {
		args[i] = vals[x]
		if w, ok := vals[x].(hash.WriterToWithDomain); ok {
			ws = append(ws, w)
		}
	}
	check := func(mode, got, want string, dropExpected string) {
		if !dirty {
			if got != want {
				res.Violate("entry-point-differs|"+mode+"|"+s.types(), fmt.Sprintf("%s(%v) differs from writing the same items one by one", mode, s), replay{Kind: "drop", Mode: mode, A: s.names()})
			}
			return
		}
		if got == dropExpected {
			res.Violate("silent-drop|"+mode, // one signature per entry point: the refused type is in the detail
				fmt.Sprintf("%s(%v) reports nothing although WriteAny refuses %s (%s); the digest equals the one of the transcript without %s, so the two different sequences are indistinguishable",
					mode, s, items[firstBad].Name, errs[firstBad], map[string]string{"hash.New": "the refused items", "Fork": "everything from the refused item on"}[mode]),
				replay{Kind: "drop", Mode: mode, A: s.names()})
		} else {
			// the refused item left a trace of its own in the transcript (neither dropped nor truncated):
			// that is what injectivity asks for, so it is counted, not reported
			refusedButDistinct++
		}
	}
	var dc, dp string
	if dirty {
		dc, dp = sum(hc), sum(hp)
	}
	if len(ws) == len(s) {
		var got string
		if p, msg, fr := vkit.Try(func() { got = sum(hash.New(ws...)) }); p {
			res.Violate("panic|hash.New|"+fr, fmt.Sprintf("hash.New(%v): %s", s, msg), replay{Kind: "drop", Mode: "hash.New", A: s.names()})
		} else {
			check("hash.New", got, wd, dc)
		}
	}
	var got string
	if p, msg, fr := vkit.Try(func() { got = sum(hash.New().Fork(args...)) }); p {
		res.Violate("panic|Fork|"+fr, fmt.Sprintf("Fork(%v): %s", s, msg), replay{Kind: "drop", Mode: "Fork", A: s.names()})
	} else {
		check("Fork", got, wd, dp)
	}
}

func runSequences(maxLen int) {
	e := &enum{maxLen: maxLen, n: len(items), table: map[string][4]uint8{}}
	if e.n > 255 {
		res.Hard("alphabet too large for the sequence encoding")
		return
	}
	e.rec(seq{}, hash.New(), false, nil, nil, -1)
	if vkit.ShardI() == 0 {
		refusedMarkers()
		refusedLeavesNoResidue()
	}
	// distinct identities among accepted items -> number of distinct identity lists
	distinct := map[string]bool{}
	for i, it := range items {
		if !bad[i] {
			distinct[it.ID] = true
		}
	}
	lists, p := int64(0), int64(1)
	for l := 0; l <= maxLen; l++ {
		lists += p
		p *= int64(len(distinct))
	}
	res.Extra["sequences_hashed"] = e.hashed
	res.Extra["sequences_with_refused_item"] = e.refused
	res.Extra["distinct_digests"] = int64(len(e.table))
	res.Extra["colliding_sequences"] = e.collided
	if vkit.ShardI() == 0 {
		res.Extra["alphabet_items"] = int64(len(items))
		res.Extra["alphabet_refused_items"] = int64(len(items) - countFalse(bad))
		res.Extra["distinct_identity_lists_expected"] = lists
		res.Extra["max_sequence_length"] = int64(maxLen)
	}
	fmt.Fprintf(os.Stderr, "sequences: shard %d/%d visited %d, owns %d hashed + %d refused, %d digests stored, %d collisions\n", vkit.ShardI(), vkit.ShardN(), e.counter, e.hashed, e.refused, len(e.table), e.collided)
}

func countFalse(b []bool) int {
	n := 0
	for _, x := range b {
		if !x {
			n++
		}
	}
	return n
}

func main() {
	res = vkit.Init("C19")
	res.Rule = "one evaluation = one sequence of typed values (all sequences up to the tier's length over the alphabet, in DFS order) hashed by the real pkg/hash code, resp. one (committed tuple, opening attempt) pair, resp. one protocol.Message header; distinct = distinct semantic identity lists (type + canonical value per item, defined in the harness independently of the hash)"
	res.Assumptions = []string{
		"identity of an item = its Go type plus its canonical value (numbers by value, points as k*G, byte strings by content); nil and empty byte strings are different values; a cmp Config is identified by the public SSID fields named in its doc comment (t, ids, rid, per-party public data)",
		"BytesWithDomain is identified by (domain, data); domains equal to the domain string of another type are not in the alphabet (choosing the domain is that wrapper's purpose)",
		"typed nil pointers are included only for types whose WriteTo checks for nil; nil pointers of the other types belong to C05",
		"digest equality is decided on the full 64-byte digest; distinct digests for equal identities (e.g. a saferith.Nat with a wider announced size) are not judged",
	}
	drv.Install()
	drv.Use(drv.NewDRBG("c19", *vkit.Seed))
	buildAlphabet()

	var rp replay
	if vkit.LoadReplay(&rp) {
		prepareItems(false)
		os.Exit(runReplay(rp))
	}
	prepareItems(true)
	maxLen := 2
	if vkit.Thorough() {
		maxLen = 3
	}
	if vkit.Want("sequences") {
		runSequences(maxLen)
	}
	if vkit.Want("commit") {
		runCommitments()
	}
	if vkit.Want("message") {
		runMessages()
	}
	sort.Slice(res.Violations, func(i, j int) bool { return res.Violations[i].Sig < res.Violations[j].Sig })
	res.Extra["refused_items_that_left_a_distinct_trace_via_New_or_Fork"] = refusedButDistinct
	res.Finish()
}

func runReplay(rp replay) int {
	switch rp.Kind {
	case "collision":
		checkCollision(fromNames(rp.A), fromNames(rp.B), true)
	case "item", "drop":
		s := fromNames(rp.A)
		h := hash.New()
		for _, x := range s {
			err, p, fr := write(h, items[x].Mk())
			fmt.Printf("WriteAny(%s) -> err=%v panic=%v %s; state %x\n", items[x].Name, err, p, fr, h.Sum()[:8])
			checkItem(x)
		}
		e := &enum{maxLen: len(s), n: len(items), table: map[string][4]uint8{}}
		e.recOnly(s)
	case "commit":
		replayCommit(rp)
	case "message":
		replayMessage(rp)
	default:
		fmt.Println("unknown replay kind", rp.Kind)
		return 2
	}
	for _, v := range res.Violations {
		fmt.Printf("VIOLATION %s\n%s\n", v.Sig, v.Detail)
	}
	if len(res.Violations) > 0 {
		return 1
	}
	fmt.Println("no violation")
	return 0
}

// recOnly walks exactly the path s (all checks of rec along it) instead of the whole tree.
func (e *enum) recOnly(path seq) {
	h := hash.New()
	dirty := false
	var hc, hp *hash.Hash
	firstBad := -1
	for l := 0; ; l++ {
		s := path[:l]
		wd := ""
		if !dirty {
			wd = sum(h)
		}
		e.otherEntryPoints(s, wd, dirty, hc, hp, firstBad)
		if l == len(path) {
			return
		}
		i := path[l]
		if !dirty {
			c := h.Clone()
			err, _, _ := write(c, vals[i])
			if err == nil {
				h = c
				continue
			}
			if sum(c) != wd {
				res.Violate("partial-write|"+items[i].Type, fmt.Sprintf("WriteAny(%s) returned %q but changed the hash state (after %v)", items[i].Name, err, s), nil)
			}
			dirty, hc, hp, firstBad = true, h, h, i
			continue
		}
		if !bad[i] {
			c := hc.Clone()
			_, _, _ = write(c, vals[i])
			hc = c
		}
	}
}
