package main

import (
	"bytes"
	"fmt"
	"os"
	"strings"

	"github.com/taurusgroup/multi-party-sig/internal/params"
	"github.com/taurusgroup/multi-party-sig/internal/zzverif/drv"
	"github.com/taurusgroup/multi-party-sig/internal/zzverif/vkit"
	"github.com/taurusgroup/multi-party-sig/pkg/hash"
	"github.com/taurusgroup/multi-party-sig/pkg/party"
)

// ---- commitments ---------------------------------------------------------------------------
//
// Reference model: Decommit(c, d, u) is true iff (c, d) came out of Commit(t) on the same
// base transcript, untouched, and u has the same identity list as t.

// base transcripts a commitment is made on (round.Helper.HashForID writes the id of the committer)
func baseHash(b int) *hash.Hash {
	h := hash.New()
	switch b {
	case 1:
		_ = h.WriteAny(party.ID("a"))
	case 2:
		_ = h.WriteAny(party.ID("ab"))
	}
	return h
}

const nBases = 3

func commitAlphabet() []int {
	var out []int
	for i, it := range items {
		if it.Tier == 1 || (it.Tier == 2 && vkit.Thorough()) {
			out = append(out, i)
		}
	}
	return out
}

func commitTuples() []seq {
	al := commitAlphabet()
	tuples := []seq{{}}
	for _, a := range al {
		tuples = append(tuples, seq{a})
	}
	for _, a := range al {
		for _, b := range al {
			tuples = append(tuples, seq{a, b})
		}
	}
	return tuples
}

func args(s seq) []interface{} {
	out := make([]interface{}, len(s))
	for i, x := range s {
		out[i] = vals[x]
	}
	return out
}

func hasBad(s seq) bool {
	for _, x := range s {
		if bad[x] {
			return true
		}
	}
	return false
}

func doCommit(base int, ti int, t seq, again int) (c hash.Commitment, d hash.Decommitment, err error, panicked string) {
	drv.Use(drv.NewDRBG(fmt.Sprintf("c19|commit|%d|%s|%d", base, strings.Join(t.names(), "|"), again), *vkit.Seed))
	if p, msg, fr := vkit.Try(func() { c, d, err = baseHash(base).Commit(args(t)...) }); p {
		panicked = fr + ": " + msg
	}
	_ = ti
	return
}

func decommit(base int, c hash.Commitment, d hash.Decommitment, u seq) (ok bool, panicked string) {
	if p, msg, fr := vkit.Try(func() { ok = baseHash(base).Decommit(c, d, args(u)...) }); p {
		panicked = fr + ": " + msg
	}
	return
}

// honest computes h(base, t, d) exactly as the documentation of Commit defines the commitment,
// for decommitments Commit itself would never produce.
func honest(base int, t seq, d hash.Decommitment) hash.Commitment {
	h := baseHash(base)
	for _, x := range t {
		_ = h.WriteAny(vals[x])
	}
	_ = h.WriteAny(d)
	return h.Sum()
}

type commitStats struct{ tuples, openings, refusedTuples int64 }

// checkTuple runs every commitment oracle for the tuple t against all tuples in `others`.
func checkTuple(ti int, t seq, others []seq, st *commitStats, verbose bool) {
	rp := func(u seq) replay { return replay{Kind: "commit", A: t.names(), B: u.names()} }
	c, d, err, pan := doCommit(0, ti, t, 0)
	if pan != "" {
		res.Violate("panic|Commit|"+pan[:strings.Index(pan, ":")], fmt.Sprintf("Commit(%v) panics: %s", t, pan), rp(nil))
		return
	}
	if verbose {
		fmt.Printf("Commit(%v) -> c=%x… d=%x… err=%v\n", t, head(c), head(d), err)
	}
	if hasBad(t) {
		st.refusedTuples++
		if err == nil {
			res.Violate("commit-accepts-refused-item|"+t.types(), fmt.Sprintf("Commit(%v) succeeds although WriteAny refuses one of the items", t), rp(nil))
		}
		return
	}
	if err != nil {
		res.Violate("commit-fails|"+t.types(), fmt.Sprintf("Commit(%v): %v", t, err), rp(nil))
		return
	}
	if e1, e2 := c.Validate(), d.Validate(); e1 != nil || e2 != nil || len(c) != hash.DigestLengthBytes || len(d) != params.SecBytes {
		res.Violate("commit-output-invalid", fmt.Sprintf("Commit(%v) returned c (%d bytes, %v), d (%d bytes, %v)", t, len(c), e1, len(d), e2), rp(nil))
	}
	st.tuples++
	// opens to every tuple with the same identity list and to nothing else
	for _, u := range others {
		want := sameIDs(t, u) && !hasBad(u)
		got, pan := decommit(0, c, d, u)
		st.openings++
		res.Case("open|" + strings.Join(t.ids(), "|") + "||" + strings.Join(u.ids(), "|"))
		if pan != "" {
			res.Violate("panic|Decommit|"+pan[:strings.Index(pan, ":")], fmt.Sprintf("Decommit of Commit(%v) against %v panics: %s", t, u, pan), rp(u))
			continue
		}
		if verbose {
			fmt.Printf("Decommit(c, d, %v) = %v (expected %v)\n", u, got, want)
		}
		if got && !want {
			for _, cr := range core(t, u) {
				res.Violate(pairSig("commit-opens-to-other", cr[0], cr[1]), fmt.Sprintf("the commitment to %v opens, with its own decommitment, to the different tuple %v\nreduced to: %v vs %v", t, u, cr[0], cr[1]), rp(u))
			}
		}
		if !got && want {
			res.Violate("commit-does-not-open|"+t.types(), fmt.Sprintf("Commit(%v) does not open to %v", t, u), rp(u))
		}
	}
	must := func(class string, detail string, got bool, pan string) {
		st.openings++
		res.Case("")
		if verbose {
			fmt.Printf("%-48s Decommit = %v %s\n", class, got, pan)
		}
		if pan != "" {
			res.Violate("panic|Decommit|"+pan[:strings.Index(pan, ":")], fmt.Sprintf("%s on Commit(%v): %s", class, t, pan), rp(t))
		} else if got {
			res.Violate("decommit-accepts|"+class, fmt.Sprintf("commitment to %v: %s", t, detail), rp(t))
		}
	}
	// a second commitment to the same tuple: fresh randomness, and the decommitments do not cross over
	c2, d2, err2, _ := doCommit(0, ti, t, 1)
	if err2 != nil || bytes.Equal(c, c2) || bytes.Equal(d, d2) {
		res.Violate("commit-not-randomised", fmt.Sprintf("two commitments to %v: err=%v, equal c: %v, equal d: %v", t, err2, bytes.Equal(c, c2), bytes.Equal(d, d2)), rp(t))
	} else {
		g, p := decommit(0, c, d2, t)
		must("foreign-decommitment", "opens with the decommitment of another commitment to the same tuple", g, p)
		g, p = decommit(0, c2, d, t)
		must("foreign-decommitment", "opens with the decommitment of another commitment to the same tuple", g, p)
	}
	// damaged commitment / decommitment
	for _, pos := range []int{0, 31, 32, 63} {
		cc := append(hash.Commitment{}, c...)
		cc[pos] ^= 1
		g, p := decommit(0, cc, d, t)
		must(fmt.Sprintf("commitment-bit-flipped|byte%d", pos), "accepted with one bit of the commitment flipped", g, p)
	}
	for _, pos := range []int{0, 31} {
		dd := append(hash.Decommitment{}, d...)
		dd[pos] ^= 1
		g, p := decommit(0, c, dd, t)
		must(fmt.Sprintf("decommitment-bit-flipped|byte%d", pos), "accepted with one bit of the decommitment flipped", g, p)
	}
	g, p := decommit(0, c[:63], d, t)
	must("commitment-truncated", "accepted with a 63-byte commitment", g, p)
	g, p = decommit(0, append(append(hash.Commitment{}, c...), 0), d, t)
	must("commitment-extended", "accepted with a 65-byte commitment", g, p)
	g, p = decommit(0, c[:0], d, t)
	must("commitment-empty", "accepted with an empty commitment", g, p)
	g, p = decommit(0, nil, d, t)
	must("commitment-nil", "accepted with a nil commitment", g, p)
	g, p = decommit(0, make(hash.Commitment, 64), d, t)
	must("commitment-zero", "accepted with an all-zero commitment", g, p)
	g, p = decommit(0, c, nil, t)
	must("decommitment-nil", "accepted with a nil decommitment", g, p)
	// decommitments Commit never produces, with the commitment computed honestly for them: they must still be refused
	for _, alt := range []struct {
		name string
		d    hash.Decommitment
	}{
		{"decommitment-zero", make(hash.Decommitment, 32)},
		{"decommitment-empty", hash.Decommitment{}},
		{"decommitment-31-bytes", d[:31]},
		{"decommitment-33-bytes", append(append(hash.Decommitment{}, d...), 1)},
		{"decommitment-64-bytes", append(append(hash.Decommitment{}, d...), d...)},
		{"decommitment-zero-64-bytes", make(hash.Decommitment, 64)},
	} {
		g, p := decommit(0, honest(0, t, alt.d), alt.d, t)
		must(alt.name, "a commitment computed as h(data, d) for such a decommitment is accepted", g, p)
	}
	// bound to the transcript it was made on
	for b := 1; b < nBases; b++ {
		cb, db, errb, _ := doCommit(b, ti, t, 0)
		if errb != nil {
			res.Violate("commit-fails|"+t.types(), fmt.Sprintf("Commit(%v) on base %d: %v", t, b, errb), rp(t))
			continue
		}
		for b2 := 0; b2 < nBases; b2++ {
			g, p := decommit(b2, cb, db, t)
			if b2 == b {
				if !g {
					res.Violate("commit-does-not-open|"+t.types(), fmt.Sprintf("Commit(%v) on base transcript %d does not open there", t, b), rp(t))
				}
				continue
			}
			must("other-base-transcript", fmt.Sprintf("made on base transcript %d, opens on base transcript %d", b, b2), g, p)
		}
	}
}

func head(b []byte) []byte {
	if len(b) > 8 {
		return b[:8]
	}
	return b
}

func checkValidate() {
	one := func(n int) []byte {
		b := make([]byte, n)
		if n > 0 {
			b[n-1] = 1
		}
		return b
	}
	for _, n := range []int{0, 1, 31, 32, 33, 63, 64, 65, 128} {
		for _, zero := range []bool{true, false} {
			b := one(n)
			if zero {
				b = make([]byte, n)
			}
			res.Case(fmt.Sprintf("validate|%d|%v", n, zero))
			ce, de := hash.Commitment(b).Validate(), hash.Decommitment(b).Validate()
			if wantC := n == 64 && !zero; (ce == nil) != wantC {
				res.Violate(fmt.Sprintf("validate|Commitment|len%d|zero=%v", n, zero), fmt.Sprintf("Commitment.Validate on %d bytes (all zero: %v) returned %v", n, zero, ce), replay{Kind: "commit", Mode: "validate"})
			}
			if wantD := n == 32 && !zero; (de == nil) != wantD {
				res.Violate(fmt.Sprintf("validate|Decommitment|len%d|zero=%v", n, zero), fmt.Sprintf("Decommitment.Validate on %d bytes (all zero: %v) returned %v", n, zero, de), replay{Kind: "commit", Mode: "validate"})
			}
		}
	}
	if hash.Commitment(nil).Validate() == nil || hash.Decommitment(nil).Validate() == nil {
		res.Violate("validate|nil", "Validate accepts nil", replay{Kind: "commit", Mode: "validate"})
	}
}

func runCommitments() {
	tuples := commitTuples()
	st := &commitStats{}
	if vkit.ShardI() == 0 {
		checkValidate()
	}
	for ti, t := range tuples {
		if !vkit.Mine(ti) {
			continue
		}
		checkTuple(ti, t, tuples, st, false)
		if ti%211 == 0 {
			res.Sample(map[string]interface{}{"committed_tuple": t.names(), "opening_attempts": len(tuples)})
		}
	}
	res.Extra["commit_tuples"] = st.tuples
	res.Extra["commit_tuples_refused"] = st.refusedTuples
	res.Extra["commit_opening_attempts"] = st.openings
	fmt.Fprintf(os.Stderr, "commitments: shard %d/%d: %d tuples committed (%d refused), %d opening attempts\n", vkit.ShardI(), vkit.ShardN(), st.tuples, st.refusedTuples, st.openings)
}

func replayCommit(rp replay) {
	if rp.Mode == "validate" {
		checkValidate()
		return
	}
	t := fromNames(rp.A)
	others := []seq{t}
	if rp.B != nil {
		others = append(others, fromNames(rp.B))
	}
	checkTuple(0, t, others, &commitStats{}, true)
}
